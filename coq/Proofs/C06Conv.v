(* Proofs/C06Conv.v — the end-to-end statements about evaluate_iterative on a
   contracting circular system of linear cell formulas:
     decay      after n passes the cone is within q^n E0 of the fixed point;
     converged  an early stop leaves the cone within q/(1-q) (1+1e-5) tolerance;
     acyclic_total  on an acyclic workbook with a built cone the evaluation
                returns (no OutOfFuel, no Unmodelled) the from-scratch value. *)
From Coq Require Import ZArith QArith Qabs Qpower List Bool Lia Lqa.
From PV Require Import Lib.Py Model.Iter Proofs.C06 Proofs.C06Lin Proofs.C06Struct Proofs.C06Cone.
Import ListNotations.
Open Scope Q_scope.

(* ------------------------------------------------------------------ *)
(* 1. The last pass of a loop; invariants of the loop.                  *)

Lemma pass_loop_last : forall w t (I : state -> Prop),
  (forall s u s1, I s -> evaluate_pass w t (inc_iteration s) = Ok (u, s1) -> I s1) ->
  forall fuel st v st', I st -> pass_loop w fuel t st = Ok (v, st') ->
  exists s, I s /\ evaluate_pass w t (inc_iteration s) = Ok (v, st').
Proof.
  intros w t I Hstep fuel; induction fuel as [|f IH]; intros st v st' H0 E; cbn [pass_loop] in E;
    destruct (evaluate_pass w t (inc_iteration st)) as [[u s1]|e1] eqn:E1; try discriminate;
    destruct (done s1); try discriminate.
  - inversion E; subst. exists st; auto.
  - inversion E; subst. exists st; auto.
  - eapply IH; [|exact E]. eapply Hstep; eauto.
Qed.

Lemma pass_loop_keeps : forall w t (I : state -> Prop),
  (forall s u s1, I s -> evaluate_pass w t (inc_iteration s) = Ok (u, s1) -> I s1) ->
  forall fuel st v st', I st -> pass_loop w fuel t st = Ok (v, st') -> I st'.
Proof.
  intros w t I Hstep fuel st v st' H0 E.
  destruct (pass_loop_last w t I Hstep fuel st v st' H0 E) as (s & Hs & E1). eapply Hstep; eauto.
Qed.

(* the whole evaluate keeps lengths and built flags (built target) *)
Lemma iterative_frame : forall w t it tolv st v st',
  built (getc st t) = true -> evaluate_iterative w t it tolv st = Ok (v, st') -> frame st st'.
Proof.
  intros w t it tolv st v st' B E. unfold evaluate_iterative in E.
  apply (pass_loop_keeps w t (fun s => frame st s)) in E; auto.
  - intros s u s1 Fs E1. eapply frame_trans; [exact Fs|].
    assert (Bs : built (getc (inc_iteration s) t) = true) by (destruct Fs as [_ Bq]; rewrite <- B; apply Bq).
    destruct (pass_frame w t (inc_iteration s) u s1 Bs E1) as (Fq & _). exact Fq.
  - split; reflexivity.
Qed.

(* ------------------------------------------------------------------ *)
(* 2. Bounds that always exist; monotonicity.                           *)

Lemma cone_within_le : forall w xs t E E' st, E <= E' -> cone_within w xs t E st -> cone_within w xs t E' st.
Proof. intros w xs t E E' st L H c Hr Hf Hb. specialize (H c Hr Hf Hb). lra. Qed.

Lemma cone_within_some : forall w xs t st, exists E, 0 <= E /\ cone_within w xs t E st.
Proof.
  intros w xs t st.
  destruct (max_dist (seq 0 (length (cells st))) (fun c => dist xs c (value (getc st c)))) as (E & H0 & Hle & _).
  exists E. split; [exact H0|]. intros c _ _ Bc. apply Hle. apply in_seq.
  pose proof (built_in_range _ _ Bc). lia.
Qed.

Lemma cone_ready_step : forall w xs q, no_sum w -> fixed_point w xs -> row_bound_f w q -> q <= 1 ->
  forall t s u s1, cone_ready w xs t s -> evaluate_pass w t (inc_iteration s) = Ok (u, s1) ->
  cone_ready w xs t s1.
Proof.
  intros w xs q Hns Hfp Hrow Hq1 t s u s1 Hr E1.
  destruct (cone_within_some w xs t s) as (E & HE & Hw).
  destruct (cone_pass w xs q E Hns Hfp Hrow Hq1 HE t s u s1 Hr Hw E1) as (_ & _ & _ & _ & R & _).
  exact R.
Qed.

(* ------------------------------------------------------------------ *)
(* 3. Geometric decay over the passes.                                  *)

Lemma decay : forall w xs q E0,
  no_sum w -> fixed_point w xs -> row_bound_f w q -> 0 <= q -> q <= 1 -> 0 <= E0 ->
  forall t it tolv st v st',
  cone_ready w xs t st -> cone_within w xs t E0 st ->
  evaluate_iterative w t it tolv st = Ok (v, st') ->
  (forall c, reach w t c -> is_formula w c = true ->
             dist xs c (value (getc st' c)) <= q ^ (itn (tr st')) * E0) /\
  v = value (getc st' t) /\
  cone_ready w xs t st'.
Proof.
  intros w xs q E0 Hns Hfp Hrow Hq0 Hq1 HE0 t it tolv st v st' Hr Hw Ev. unfold evaluate_iterative in Ev.
  set (J := fun s => cone_ready w xs t s /\ (0 <= itn (tr s))%Z /\ cone_within w xs t (q ^ (itn (tr s)) * E0) s).
  assert (Hstep : forall s u s1, J s -> evaluate_pass w t (inc_iteration s) = Ok (u, s1) -> J s1).
  { intros s u s1 (R & Hn & W) E1.
    assert (HE : 0 <= q ^ (itn (tr s)) * E0) by (apply Qmult_le_0_compat; [apply Qpower_0_le; exact Hq0|exact HE0]).
    destruct (cone_pass w xs q _ Hns Hfp Hrow Hq1 HE t s u s1 R W E1) as (_ & _ & _ & _ & R1 & W1).
    pose proof (evaluate_pass_cfg _ _ _ _ _ E1) as (_ & _ & En). cbn in En.
    split; [exact R1|]. split; [lia|]. rewrite En.
    eapply cone_within_le; [|exact W1].
    rewrite Qpower_plus' by lia. rewrite Qpower_1_r. lra. }
  assert (J0 : J (sett st {| todo := todo (tr st); computed := computed (tr st); itn := 0; iters := it; tol := tolv |})).
  { split; [exact Hr|]. split; [cbn; lia|]. cbn [tr sett itn].
    eapply cone_within_le; [|exact Hw]. rewrite Qpower_0_r. lra. }
  destruct (pass_loop_last w t J Hstep _ _ _ _ J0 Ev) as (s & (R & Hn & W) & E1).
  assert (HE : 0 <= q ^ (itn (tr s)) * E0) by (apply Qmult_le_0_compat; [apply Qpower_0_le; exact Hq0|exact HE0]).
  destruct (cone_pass w xs q _ Hns Hfp Hrow Hq1 HE t s v st' R W E1) as (Hcomp & Hc & _ & Hv & R1 & _).
  destruct (Hstep s v st' (conj R (conj Hn W)) E1) as (_ & _ & W1).
  split; [|split; [exact Hv|exact R1]].
  intros c Hrc Hf. apply W1; auto.
  assert (Hin : In c (computed (tr st'))) by (apply Hcomp; auto).
  apply (Hc c Hin).
Qed.

(* all [it] passes used *)
Lemma exhausted : forall w xs q E0,
  no_sum w -> fixed_point w xs -> row_bound_f w q -> 0 <= q -> q <= 1 -> 0 <= E0 ->
  forall t it tolv st v st',
  cone_ready w xs t st -> cone_within w xs t E0 st ->
  evaluate_iterative w t it tolv st = Ok (v, st') ->
  (1 <= it)%Z -> ~ (itn (tr st') < it)%Z ->
  (forall c, reach w t c -> is_formula w c = true ->
             dist xs c (value (getc st' c)) <= q ^ it * E0) /\
  (is_formula w t = true -> dist xs t v <= q ^ it * E0).
Proof.
  intros w xs q E0 Hns Hfp Hrow Hq0 Hq1 HE0 t it tolv st v st' Hr Hw Ev Hit Hex.
  pose proof (bounded _ _ _ _ _ _ _ Ev) as Hb.
  assert (En : itn (tr st') = it) by lia.
  destruct (decay w xs q E0 Hns Hfp Hrow Hq0 Hq1 HE0 t it tolv st v st' Hr Hw Ev) as (D & Hv & _).
  rewrite En in D. split; [exact D|]. intros Hf. rewrite Hv. apply D; [apply reach_refl|exact Hf].
Qed.

(* ------------------------------------------------------------------ *)
(* 4. Early stop: the a-posteriori bound.                               *)

Lemma converged : forall w xs q,
  no_sum w -> fixed_point w xs -> row_bound_f w q -> 0 <= q -> q < 1 ->
  forall t it tolv st v st',
  cone_ready w xs t st ->
  evaluate_iterative w t it tolv st = Ok (v, st') ->
  (itn (tr st') < it)%Z ->
  (forall c, reach w t c -> is_formula w c = true ->
             dist xs c (value (getc st' c)) <= q / (1 - q) * (rel1 * tolv)) /\
  (is_formula w t = true -> dist xs t v <= q / (1 - q) * (rel1 * tolv)) /\
  cone_ready w xs t st'.
Proof.
  intros w xs q Hns Hfp Hrow Hq0 Hq1 t it tolv st v st' Hr Ev Hlt.
  assert (Hq1' : q <= 1) by lra.
  destruct (tolerance _ _ _ _ _ _ _ Ev Hlt) as [_ Htol].
  unfold evaluate_iterative in Ev.
  set (st1 := sett st _) in Ev.
  assert (Hr1 : cone_ready w xs t st1) by exact Hr.
  destruct (pass_loop_last w t (cone_ready w xs t)
              (cone_ready_step w xs q Hns Hfp Hrow Hq1' t) _ st1 _ _ Hr1 Ev) as (s & R & E1).
  destruct (cone_within_some w xs t s) as (E & HE & Hw).
  destruct (cone_pass w xs q E Hns Hfp Hrow Hq1' HE t s v st' R Hw E1) as (Hcomp & Hc & _ & Hv & R1 & _).
  assert (Hall : forall c, reach w t c -> is_formula w c = true ->
                           dist xs c (value (getc st' c)) <= q / (1 - q) * (rel1 * tolv)).
  { intros c Hrc Hf.
    assert (Hin : In c (computed (tr st'))) by (apply Hcomp; auto).
    (* what the tolerance theorem says about a computed cell *)
    assert (Hmv : forall c', In c' (computed (tr st')) ->
              Qabs (num (value (getc st' c')) - num (value (getc s c'))) < rel1 * tolv).
    { intros c' Hin'. destruct (Hc c' Hin') as (_ & Hs & Hp & _). specialize (Htol c' Hin').
      unfold small_change in Htol. rewrite Hp in Htol.
      destruct (value (getc st' c')) as [a|]; [|congruence].
      destruct (value (getc s c')) as [b|]; [|contradiction].
      cbn [num]. rewrite Qabs_Qminus. exact Htol. }
    assert (Hd : 0 <= rel1 * tolv).
    { pose proof (Hmv c Hin) as H1. pose proof (Qabs_nonneg (num (value (getc st' c)) - num (value (getc s c)))). lra. }
    apply (contraction_bound (computed (tr st')) xs
             (fun c => num (value (getc s c))) (fun c => num (value (getc st' c))) q (rel1 * tolv));
      auto.
    - intros c' Hin'. apply Qlt_le_weak. apply Hmv; exact Hin'.
    - intros E' HE' Hold c' Hin'.
      assert (Hw' : cone_within w xs t E' s).
      { intros c2 Hr2 Hf2 _. apply Hold. apply Hcomp; auto. }
      destruct (cone_pass w xs q E' Hns Hfp Hrow Hq1' HE' t s v st' R Hw' E1) as (_ & Hc' & _).
      apply (Hc' c' Hin'). }
  split; [exact Hall|]. split; [|exact R1].
  intros Hf. rewrite Hv. apply Hall; [apply reach_refl|exact Hf].
Qed.

(* ------------------------------------------------------------------ *)
(* 5. Acyclic workbook, built cone: unconditional.                      *)

Lemma cone_built_frame : forall w t st st', frame st st' -> cone_built w t st -> cone_built w t st'.
Proof. intros w t st st' [_ B] H c Hc. rewrite B. apply H; exact Hc. Qed.

Lemma acyclic_total : forall w sv rank,
  no_sum w -> fixed_point w sv -> acyclic w rank ->
  forall t it tolv st,
  quiet w sv t st -> cone_built w t st -> (length (cells st) <= length (w_cells w))%nat ->
  exists v st', evaluate_iterative w t it tolv st = Ok (v, st') /\
    num v == sv t /\ (is_formula w t = true -> v <> None) /\
    quiet w sv t st' /\ cone_built w t st' /\ length (cells st') = length (cells st).
Proof.
  intros w sv rank Hns Hfp Hacy t it tolv st Hq Hb L.
  destruct (iterative_ok w t it tolv st Hns Hb L) as (v & st' & Ev).
  exists v, st'. split; [exact Ev|].
  destruct (acyclic_value w sv rank Hns Hfp Hacy t it tolv st v st' Hq Ev) as (H1 & H2 & H3).
  pose proof (iterative_frame _ _ _ _ _ _ _ (Hb t (reach_refl w t)) Ev) as Fr.
  split; [exact H1|]. split; [exact H2|]. split; [exact H3|]. split.
  - eapply cone_built_frame; eauto.
  - apply Fr.
Qed.
