(* Proofs/C05Weak.v — C05_order under the weak non-blank condition of
   Proofs/C01Weak.v (met by the reference cell of an unbounded range, which
   does not meet sem_nonblank): machine and specification cannot tell [sem]
   from its guarded, strongly non-blank version. *)
From Coq Require Import List Arith Bool Lia.
From PV Require Import Lib.Py Model.Graph.
From PV Require Import Proofs.C01Base Proofs.C01Inv Proofs.C01 Proofs.C01Weak Proofs.C05.
Import ListNotations.

Section C05Weak.
  Variable W : workbook.
  Variable sem : nat -> list pyval -> pyval.
  Hypothesis WF : wf W.
  Hypothesis NBW : sem_nonblank_weak W sem.
  Hypothesis SO : stored_ok W sem.

  Let NB2 := guard_nonblank W sem NBW.
  Let AG : forall n vals, n < wb_n W -> wb_input W n = false -> args_ok W n vals ->
             sem n vals = guard W sem n vals := fun n vals _ _ H => guard_agree W sem n vals H.

  Lemma be_history : forall h s, Forall (be_op W) h -> ok_history W sem (fun _ o => be_op W o) s h.
  Proof. induction h as [|o h IH]; intros s F; cbn; auto. inversion F; subst. split; auto. Qed.

  Lemma be_lt (s : state) o : be_op W o -> op_lt W o.
  Proof. destruct o; cbn; auto. Qed.

  Lemma order_value_weak h n : Forall (be_op W) h -> n < wb_n W ->
    snd (evaluate W sem (fst (run W sem (init W) h)) n) = spec W sem (wb_inp0 W) n.
  Proof.
    intros F L.
    destruct (run_transfer W sem (guard W sem) WF NB2 AG (fun _ o => be_op W o) be_lt h (init W)
                (be_history h (init W) F)) as [R _].
    rewrite R, (evaluate_transfer W sem (guard W sem) WF NB2 AG _ n L).
    rewrite (spec_guard W sem WF NBW _ n L).
    apply order_value; auto.
    apply (stored_ok_transfer W sem (guard W sem) WF NB2 AG SO).
  Qed.

  Theorem order_weak h1 h2 n : Forall (be_op W) h1 -> Forall (be_op W) h2 -> n < wb_n W ->
    snd (evaluate W sem (fst (run W sem (init W) h1)) n)
    = snd (evaluate W sem (fst (run W sem (init W) h2)) n)
    /\ snd (evaluate W sem (fst (run W sem (init W) h1)) n) = spec W sem (wb_inp0 W) n.
  Proof. intros F1 F2 L. rewrite !order_value_weak; auto. Qed.
End C05Weak.
