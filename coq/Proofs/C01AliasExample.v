(* Proofs/C01AliasExample.v — C01: the hypotheses of the theorems of
   Proofs/C01Weak.v and Proofs/C01Alias.v are satisfiable on a workbook with a
   whole-column reference, in both configurations (tests, not theorems), and
   the executable instantiation Model/GraphExpr.v FAlias is an [alias_node].
     0: B1 = 3 (input)   1: B2 = 4 (input)   2: B1:B2 (range node)
     3: B:B (reference node: range kind, alias of node 2)
     4: A1 = f4(B:B)     5: A2 = f5(B1:B2, A1)                              *)
From Coq Require Import List Arith Bool Lia ZArith.
From PV Require Import Lib.Py Model.Graph Model.GraphExpr.
From PV Require Import Proofs.C01Base Proofs.C01Inv Proofs.C01 Proofs.C01Example.
From PV Require Import Proofs.C01Weak Proofs.C01Alias.
Import ListNotations.
Local Open Scope nat_scope.

Definition exa_sem (n : nat) (vals : list pyval) : pyval :=
  if n =? 2 then VTuple vals
  else if n =? 3 then nth 0 vals VNone
  else VInt (Z.of_nat n + tot (VTuple vals)).

Definition exa_wb (st : nat -> pyval) : workbook :=
  {| wb_n := 6;
     wb_input := fun n => n <? 2;
     wb_deps := fun n => match n with 2 => [0; 1] | 3 => [2] | 4 => [3] | 5 => [2; 4] | _ => [] end;
     wb_range := fun n => (n =? 2) || (n =? 3);
     wb_inp0 := fun n => match n with 0 => VInt 3 | 1 => VInt 4 | _ => VNone end;
     wb_stored := st |}.

Definition exaW := exa_wb (fun _ => VNone).
Definition exaWs := exa_wb (fun n => match n with 4 => VInt 11 | 5 => VInt 23 | _ => VNone end).

Example exa_wf st : wf (exa_wb st).
Proof. apply wfb_sound. reflexivity. Qed.
Example exa_alias st : alias_node (exa_wb st) exa_sem 3 2.
Proof. repeat split; try reflexivity. cbn. lia. Qed.
Example exa_except st : nonblank_except_alias (exa_wb st) exa_sem.
Proof.
  intros n L I. destruct (Nat.eq_dec n 3) as [->|NE].
  - left. exists 2. apply exa_alias.
  - right. intros vals. unfold exa_sem. destruct (n =? 2); [discriminate|].
    destruct (Nat.eqb_spec n 3); [congruence|discriminate].
Qed.
Example exa_weak st : sem_nonblank_weak (exa_wb st) exa_sem.
Proof. apply alias_weak, exa_except. Qed.
(* the strong condition of Proofs/C01.v fails on this workbook *)
Example exa_not_strong st : ~ sem_nonblank (exa_wb st) exa_sem.
Proof. apply (alias_not_strong _ _ 3 2), exa_alias. Qed.
Example exa_exact st : inputs_exact (exa_wb st) (wb_inp0 (exa_wb st)).
Proof. intros m _ _. destruct m as [|[|m]]; reflexivity. Qed.

Example exa_spec : map (spec exaW exa_sem (wb_inp0 exaW)) [2; 3; 4; 5]
  = [VTuple [VInt 3; VInt 4]; VTuple [VInt 3; VInt 4]; VInt 11; VInt 23].
Proof. vm_compute. reflexivity. Qed.

(* ---- no stored results: writes to members, the reference evaluated itself,
        built before and after the explicit range *)
Definition exa_h : list gop :=
  [ Evaluate 5; SetValue 0 (VInt 10); Evaluate 4; Evaluate 3; SetValue 1 VNone; Evaluate 5;
    Build 3; SetValue 1 (VInt 1); Evaluate 3; Evaluate 2; Evaluate 4 ].

Example exa_h_ok : ok_history exaW exa_sem (ok_op_free exaW) (init exaW) exa_h.
Proof. cbn [ok_history exa_h]. repeat split; try (vm_compute; reflexivity); vm_compute; lia. Qed.

Example exa_h_trace : snd (run exaW exa_sem (init exaW) exa_h)
  = [VInt 23; VNone; VInt 18; VTuple [VInt 10; VInt 4]; VNone; VInt 29; VNone; VNone;
     VTuple [VInt 10; VInt 1]; VTuple [VInt 10; VInt 1]; VInt 15].
Proof. vm_compute. reflexivity. Qed.

Example exa_h_coherent :
  snd (run exaW exa_sem (init exaW) exa_h) = run_spec exaW exa_sem (wb_inp0 exaW) exa_h.
Proof.
  apply coherent_nodata_weak.
  - apply exa_wf. - apply exa_weak. - intros n; reflexivity. - apply (exa_exact (fun _ => VNone)).
  - apply exa_h_ok.
Qed.

(* ---- stored results: the reference node gets its value when A1 is built *)
Example exas_consistent : stored_consistent exaWs exa_sem.
Proof.
  intros n L I R. destruct n as [|[|[|[|[|[|n]]]]]]; vm_compute in I, R; try discriminate;
    try reflexivity.
  vm_compute in L. lia.
Qed.

Example exas_built :
  let s := build exaWs exa_sem (init exaWs) 4 in
  (st_built s 3, st_cache s 3, st_cache s 4) = (true, VTuple [VInt 3; VInt 4], VInt 11).
Proof. vm_compute. reflexivity. Qed.

Definition exas_h : list gop :=
  [ Evaluate 5; SetValue 0 (VInt 10); Evaluate 4; SetValue 1 (VStr []); Evaluate 3; Evaluate 5 ].

Example exas_h_ok : ok_history exaWs exa_sem (ok_op_built exaWs) (init exaWs) exas_h.
Proof.
  cbn [ok_history exas_h]. repeat split; try (vm_compute; reflexivity); try (vm_compute; lia).
  all: intros d Ld _; destruct d as [|[|[|[|[|[|d]]]]]]; try (vm_compute; reflexivity);
       cbn in Ld; lia.
Qed.

Example exas_h_coherent :
  snd (run exaWs exa_sem (init exaWs) exas_h) = run_spec exaWs exa_sem (wb_inp0 exaWs) exas_h.
Proof.
  apply coherent_stored_weak.
  - apply exa_wf. - apply exa_weak. - apply exas_consistent. - apply (exa_exact (wb_stored exaWs)).
  - apply exas_h_ok.
Qed.

Example exas_h_trace : snd (run exaWs exa_sem (init exaWs) exas_h)
  = [VInt 23; VNone; VInt 18; VNone; VTuple [VInt 10; VStr []]; VInt 29].
Proof. vm_compute. reflexivity. Qed.

(* ---- the executable instantiation: a node whose formula is FAlias, with one
        formula/range precedent, is a reference node in the sense of the
        theorems; a range node of GraphExpr never computes a blank *)
Lemma graphexpr_alias (W : workbook) (fm : nat -> formula) r p :
  r < wb_n W -> wb_input W r = false -> wb_deps W r = [p] -> wb_input W p = false ->
  fm r = FAlias ->
  alias_node W (fun n vals => sem_formula (fm n) vals) r p.
Proof. intros L I D Ip F. repeat split; auto. intros v. rewrite F. reflexivity. Qed.

Lemma graphexpr_range_nonblank c vals : sem_formula (FRange c) vals <> VNone.
Proof. discriminate. Qed.
