(* Proofs/C11UnboundedParse.v — print/parse round trip of unbounded ranges
   (whole columns A:C, whole rows 2:5) in the plain, quoted-sheet and absolute
   forms the code prints ($A$0:$C$0, $$2:$$5), and the spelling Excel itself uses
   for the absolute form ($A:$C, $2:$5). *)
From Coq Require Import ZArith List Bool Lia.
From PV Require Import Lib.Py Model.Addr Proofs.Radix Proofs.C11 Proofs.C11Parse Proofs.C11Notation.
Import ListNotations.
Open Scope Z_scope.

(* no error code contains a colon *)
Lemma not_error_code_colon t : In 58 t -> is_error_code t = false.
Proof.
  intros H. destruct (is_error_code t) eqn:E; [|reflexivity]. exfalso.
  unfold is_error_code in E. apply existsb_exists in E. destruct E as (e & Hin & He).
  apply str_eqb_eq in He. subst e. cbn [ERROR_CODES In] in Hin.
  repeat (destruct Hin as [<-|Hin]; [cbn in H; lia|]). exact Hin.
Qed.

(* end of one side of a coordinate: the end of the text or the colon *)
Definition side_end (rest : str) : Prop := rest = [] \/ exists r, rest = 58 :: r.
Lemma side_end_stop p rest : p 58 = false -> side_end rest -> stop p rest.
Proof. intros H [->|(r & ->)]; cbn; [exact I|exact H]. Qed.
Lemma side_end_opt rest : side_end rest -> opt_char 36 rest = rest.
Proof. intros [->|(r & ->)]; reflexivity. Qed.

(* "A" / "$A" : letters only *)
Lemma half_letters (d : bool) L rest : uppers L -> L <> [] -> zlen L <= 3 -> side_end rest ->
  half ((if d then [36] else []) ++ L ++ rest) = Some (L, [], rest).
Proof.
  intros HL HN HZ HR. destruct L as [|l L]; [congruence|]. inversion HL as [|? ? Hl _]; subst.
  assert (A : Forall (fun c => is_alpha c = true) (l :: L)).
  { eapply Forall_impl; [|exact HL]. apply is_alpha_upper. }
  assert (S1 : opt_char 36 ((if d then [36] else []) ++ (l :: L) ++ rest) = (l :: L) ++ rest).
  { destruct d; cbn [app opt_char]; [reflexivity|].
    replace (l =? 36) with false by (symmetry; apply Z.eqb_neq; lia). reflexivity. }
  unfold half. rewrite S1, (span_app is_alpha (l :: L) rest A (side_end_stop _ _ eq_refl HR)).
  cbn [fst snd]. replace (3 <? zlen (l :: L)) with false by (symmetry; apply Z.ltb_ge; exact HZ).
  rewrite (side_end_opt rest HR).
  change rest with ([] ++ rest) at 1 2.
  rewrite (span_app is_digit [] rest (Forall_nil _) (side_end_stop _ _ eq_refl HR)). reflexivity.
Qed.
(* "2" / "$2" / "$$2" : digits only *)
Lemma half_eval s t u D rest : opt_char 36 s = t -> span is_alpha t = ([], t) -> opt_char 36 t = u ->
  span is_digit u = (D, rest) -> half s = Some ([], D, rest).
Proof.
  intros E1 E2 E3 E4. unfold half. rewrite E1, E2. cbn [fst snd]. change (3 <? zlen []) with false.
  cbv iota. rewrite E3, E4. reflexivity.
Qed.
Lemma span_alpha_stop c t : is_alpha c = false -> span is_alpha (c :: t) = ([], c :: t).
Proof. intros H. cbn [span]. rewrite H. reflexivity. Qed.
Lemma half_digits p D rest : p = [] \/ p = [36] \/ p = [36; 36] -> digitsP D -> D <> [] -> side_end rest ->
  half (p ++ D ++ rest) = Some ([], D, rest).
Proof.
  intros Hp HD HN HR. destruct D as [|d D]; [congruence|]. inversion HD as [|? ? Hd _]; subst.
  assert (B : Forall (fun c => is_digit c = true) (d :: D)).
  { eapply Forall_impl; [|exact HD]. apply is_digit_yes. }
  assert (S4 : span is_digit ((d :: D) ++ rest) = (d :: D, rest)).
  { apply span_app; [exact B|]. apply side_end_stop; [reflexivity|exact HR]. }
  assert (N36 : opt_char 36 ((d :: D) ++ rest) = (d :: D) ++ rest).
  { cbn [app opt_char]. replace (d =? 36) with false by (symmetry; apply Z.eqb_neq; lia). reflexivity. }
  assert (NA : span is_alpha ((d :: D) ++ rest) = ([], (d :: D) ++ rest)).
  { cbn [app]. apply span_alpha_stop, is_alpha_not. lia. }
  destruct Hp as [-> | [-> | ->]].
  - exact (half_eval _ _ _ _ _ N36 NA N36 S4).
  - exact (half_eval ([36] ++ (d :: D) ++ rest) _ _ _ _ eq_refl NA N36 S4).
  - refine (half_eval ([36; 36] ++ (d :: D) ++ rest) (36 :: (d :: D) ++ rest) _ _ _ eq_refl _ eq_refl S4).
    apply span_alpha_stop. reflexivity.
Qed.

Lemma letters_cchar L : uppers L -> Forall cchar L.
Proof. intros H. eapply Forall_impl; [|exact H]. unfold cchar. intros; lia. Qed.
Lemma digits_cchar D : digitsP D -> Forall cchar D.
Proof. intros H. eapply Forall_impl; [|exact H]. unfold cchar. intros; lia. Qed.
Lemma dollars_cchar p : p = [] \/ p = [36] \/ p = [36; 36] -> Forall cchar p.
Proof. intros [-> | [-> | ->]]; repeat constructor; unfold cchar; lia. Qed.

(* columns: "A:C" and "$A:$C" *)
Lemma boundaries_cols (d : bool) L1 L2 : uppers L1 -> L1 <> [] -> zlen L1 <= 3 ->
  uppers L2 -> L2 <> [] -> zlen L2 <= 3 ->
  range_boundaries ((if d then [36] else []) ++ L1 ++ 58 :: (if d then [36] else []) ++ L2) None
  = Ok (Some (col_of_letters L1), None, Some (col_of_letters L2), None).
Proof.
  intros U1 N1 Z1 U2 N2 Z2. unfold range_boundaries.
  assert (C : Forall cchar ((if d then [36] else []) ++ L1 ++ 58 :: (if d then [36] else []) ++ L2)).
  { assert (Dd : Forall cchar (if d then [36] else [])) by (destruct d; repeat constructor; unfold cchar; lia).
    apply Forall_app. split; [exact Dd|]. apply Forall_app. split; [apply letters_cchar, U1|].
    constructor; [unfold cchar; lia|]. apply Forall_app. split; [exact Dd|apply letters_cchar, U2]. }
  rewrite cchar_not_bad by exact C.
  unfold openpyxl_range_boundaries.
  rewrite (half_letters d L1 (58 :: (if d then [36] else []) ++ L2) U1 N1 Z1) by (right; eexists; reflexivity).
  cbn [Z.eqb Pos.eqb].
  rewrite <- (app_nil_r L2), (half_letters d L2 [] U2 N2 Z2) by (left; reflexivity).
  rewrite ?app_nil_r.
  destruct L1 as [|l1 L1]; [congruence|]. destruct L2 as [|l2 L2]; [congruence|].
  cbn [nonempty andb orb negb opt_col opt_row all_some].
  replace (mem 58 _) with true; [reflexivity|].
  symmetry. apply mem_true. apply in_or_app. right. apply in_or_app. right. left. reflexivity.
Qed.
(* rows: "2:5", "$2:$5", "$$2:$$5" *)
Lemma boundaries_rows p D1 D2 : p = [] \/ p = [36] \/ p = [36; 36] ->
  digitsP D1 -> D1 <> [] -> digitsP D2 -> D2 <> [] ->
  range_boundaries (p ++ D1 ++ 58 :: p ++ D2) None = Ok (None, Some (dec_of D1), None, Some (dec_of D2)).
Proof.
  intros Hp H1 N1 H2 N2. unfold range_boundaries.
  assert (C : Forall cchar (p ++ D1 ++ 58 :: p ++ D2)).
  { apply Forall_app. split; [apply dollars_cchar, Hp|]. apply Forall_app. split; [apply digits_cchar, H1|].
    constructor; [unfold cchar; lia|]. apply Forall_app. split; [apply dollars_cchar, Hp|apply digits_cchar, H2]. }
  rewrite cchar_not_bad by exact C.
  unfold openpyxl_range_boundaries.
  rewrite (half_digits p D1 (58 :: p ++ D2) Hp H1 N1) by (right; eexists; reflexivity).
  cbn [Z.eqb Pos.eqb].
  rewrite <- (app_nil_r D2), (half_digits p D2 [] Hp H2 N2) by (left; reflexivity).
  rewrite ?app_nil_r.
  destruct D1 as [|d1 D1]; [congruence|]. destruct D2 as [|d2 D2]; [congruence|].
  cbn [nonempty andb orb negb opt_col opt_row all_some].
  replace (mem 58 _) with true; [reflexivity|].
  symmetry. apply mem_true. apply in_or_app. right. apply in_or_app. right. left. reflexivity.
Qed.

Lemma create_unbounded s pre coord b a :
  prefix_of s pre -> Forall cchar coord -> In 58 coord ->
  range_boundaries coord None = Ok b -> from_bounds s b = Ok a ->
  create (pre ++ coord) [] None = Ok (VA a).
Proof.
  intros Hp Hc H58 Hb Ha. eapply create_general; try eassumption.
  - apply cchar_no_bang, Hc.
  - apply not_error_code_colon. apply in_or_app. right. exact H58.
Qed.

(* ------------------------------------------------------------ the round trip *)
(* whole columns c1:c2 or whole rows r1:r2 of the sheet, in either order *)
Definition unbounded_on_sheet (a : addr) : Prop :=
  match a with
  | ACell _ _ _ => False
  | ARange _ c1 r1 c2 r2 =>
      (r1 = 0 /\ r2 = 0 /\ 1 <= c1 <= MAX_COL /\ 1 <= c2 <= MAX_COL)
      \/ (c1 = 0 /\ c2 = 0 /\ 1 <= r1 <= MAX_ROW /\ 1 <= r2 <= MAX_ROW)
  end.
(* the absolute form the code prints for A:A is $A$0:$A$0, which reads back as
   the "cell" (1, 0): single-column ranges are excluded there *)
Definition abs_form_ok (a : addr) : Prop :=
  match a with ARange _ c1 r1 c2 _ => r1 = 0 -> c1 <> c2 | ACell _ _ _ => True end.
(* Excel's own absolute spelling: $A:$C, $2:$5 *)
Definition excel_abs_coordinate (a : addr) : str :=
  match a with
  | ARange _ c1 r1 c2 r2 => 36 :: coord_text c1 r1 ++ 58 :: 36 :: coord_text c2 r2
  | ACell _ c r => 36 :: coord_text c r
  end.

Lemma roundtrip_unbounded_form form a : unbounded_on_sheet a -> form_ok form (a_sheet a) = true ->
  (form_abs form = true -> abs_form_ok a) ->
  create (form_prefix form (a_sheet a) ++ (if form_abs form then abs_coordinate a else coordinate a)) [] None
  = Ok (VA a).
Proof.
  intros Ha Hs Hab. destruct a as [s c r|s c1 r1 c2 r2]; cbn [unbounded_on_sheet] in Ha; [contradiction|].
  cbn [a_sheet coordinate abs_coordinate abs_form_ok] in *.
  destruct Ha as [(-> & -> & Hc1 & Hc2)|(-> & -> & Hr1 & Hr2)].
  - (* columns *)
    destruct (col_text c1 ltac:(unfold MAX_COL in *; lia)) as (U1 & N1 & Z1 & V1).
    destruct (col_text c2 ltac:(unfold MAX_COL in *; lia)) as (U2 & N2 & Z2 & V2).
    destruct (form_abs form) eqn:F.
    + (* $A$0:$C$0 *)
      destruct (row_text 0 ltac:(lia)) as (HD & HM & HR).
      assert (E : abs_coord_text c1 0 ++ 58 :: abs_coord_text c2 0
                  = ctext true (letters_of_col c1) (str_of_Z 0) ++ 58 :: ctext true (letters_of_col c2) (str_of_Z 0)).
      { unfold abs_coord_text, column, ctext.
        replace (c1 =? 0) with false by (symmetry; apply Z.eqb_neq; lia).
        replace (c2 =? 0) with false by (symmetry; apply Z.eqb_neq; lia). reflexivity. }
      rewrite E. eapply create_unbounded.
      * apply form_prefix_ok, Hs.
      * apply Forall_app. split; [apply ctext_cchar; assumption|].
        constructor; [unfold cchar; lia|apply ctext_cchar; assumption].
      * apply in_or_app. right. left. reflexivity.
      * apply (boundaries_range true); assumption.
      * rewrite V1, V2, HR. cbn [from_bounds].
        replace (c1 =? c2) with false by (symmetry; apply Z.eqb_neq; apply Hab; reflexivity).
        cbn [andb]. apply mk_range_ok; unfold MAX_COL in *; lia.
    + (* A:C *)
      assert (E : coord_text c1 0 ++ 58 :: coord_text c2 0
                  = (if false then [36] else []) ++ letters_of_col c1 ++ 58 :: (if false then [36] else []) ++ letters_of_col c2).
      { unfold coord_text, column.
        replace (c1 =? 0) with false by (symmetry; apply Z.eqb_neq; lia).
        replace (c2 =? 0) with false by (symmetry; apply Z.eqb_neq; lia).
        cbn [Z.eqb app]. rewrite !app_nil_r. reflexivity. }
      rewrite E. eapply create_unbounded.
      * apply form_prefix_ok, Hs.
      * cbn [app]. apply Forall_app. split; [apply letters_cchar, U1|].
        constructor; [unfold cchar; lia|apply letters_cchar, U2].
      * cbn [app]. apply in_or_app. right. left. reflexivity.
      * apply (boundaries_cols false); assumption.
      * rewrite V1, V2. cbn [from_bounds oz]. apply mk_range_ok; unfold MAX_COL in *; lia.
  - (* rows *)
    destruct (row_text r1 ltac:(lia)) as (H1 & N1 & V1). destruct (row_text r2 ltac:(lia)) as (H2 & N2 & V2).
    assert (E : (if form_abs form then abs_coord_text 0 r1 ++ 58 :: abs_coord_text 0 r2
                 else coord_text 0 r1 ++ 58 :: coord_text 0 r2)
                = (if form_abs form then [36; 36] else []) ++ str_of_Z r1
                  ++ 58 :: (if form_abs form then [36; 36] else []) ++ str_of_Z r2).
    { unfold abs_coord_text, coord_text, column. cbn [Z.eqb app].
      replace (r1 =? 0) with false by (symmetry; apply Z.eqb_neq; lia).
      replace (r2 =? 0) with false by (symmetry; apply Z.eqb_neq; lia).
      destruct (form_abs form); reflexivity. }
    rewrite E.
    assert (Hp : (if form_abs form then [36; 36] else []) = [] \/ (if form_abs form then [36; 36] else []) = [36]
                 \/ (if form_abs form then [36; 36] else []) = [36; 36]) by (destruct (form_abs form); tauto).
    eapply create_unbounded.
    + apply form_prefix_ok, Hs.
    + apply Forall_app. split; [apply dollars_cchar, Hp|]. apply Forall_app. split; [apply digits_cchar, H1|].
      constructor; [unfold cchar; lia|]. apply Forall_app. split; [apply dollars_cchar, Hp|apply digits_cchar, H2].
    + apply in_or_app. right. apply in_or_app. right. left. reflexivity.
    + apply boundaries_rows; assumption.
    + rewrite V1, V2. cbn [from_bounds oz]. reflexivity.
Qed.

Lemma roundtrip_unbounded_plain a : unbounded_on_sheet a -> sheet_ok (a_sheet a) = true ->
  create (address a) [] None = Ok (VA a).
Proof. intros Ha Hs. rewrite address_form. apply (roundtrip_unbounded_form 0 a Ha Hs). discriminate. Qed.
Lemma roundtrip_unbounded_quoted a : unbounded_on_sheet a -> sheet_ok_quoted (a_sheet a) = true ->
  bind (quoted_address a) (fun t => create t [] None) = Ok (VA a).
Proof.
  intros Ha Hs. rewrite (quoted_address_form a (sheet_ok_quoted_decided _ Hs)). cbn [bind].
  apply (roundtrip_unbounded_form 1 a Ha Hs). discriminate.
Qed.
Lemma roundtrip_unbounded_abs a : unbounded_on_sheet a -> abs_form_ok a -> sheet_ok_quoted (a_sheet a) = true ->
  bind (abs_address a) (fun t => create t [] None) = Ok (VA a).
Proof.
  intros Ha Hb Hs. rewrite (abs_address_form a (sheet_ok_quoted_decided _ Hs)). cbn [bind].
  apply (roundtrip_unbounded_form 2 a Ha Hs). intros _. exact Hb.
Qed.

(* '$A:$C' and '$2:$5' (with any sheet prefix of the quoted form) denote the same ranges *)
Lemma parse_excel_abs a : unbounded_on_sheet a -> sheet_ok_quoted (a_sheet a) = true ->
  create (form_prefix 1 (a_sheet a) ++ excel_abs_coordinate a) [] None = Ok (VA a).
Proof.
  intros Ha Hs. destruct a as [s c r|s c1 r1 c2 r2]; cbn [unbounded_on_sheet] in Ha; [contradiction|].
  cbn [a_sheet excel_abs_coordinate] in *.
  destruct Ha as [(-> & -> & Hc1 & Hc2)|(-> & -> & Hr1 & Hr2)].
  - destruct (col_text c1 ltac:(unfold MAX_COL in *; lia)) as (U1 & N1 & Z1 & V1).
    destruct (col_text c2 ltac:(unfold MAX_COL in *; lia)) as (U2 & N2 & Z2 & V2).
    assert (E : 36 :: coord_text c1 0 ++ 58 :: 36 :: coord_text c2 0
                = (if true then [36] else []) ++ letters_of_col c1 ++ 58 :: (if true then [36] else []) ++ letters_of_col c2).
    { unfold coord_text, column.
      replace (c1 =? 0) with false by (symmetry; apply Z.eqb_neq; lia).
      replace (c2 =? 0) with false by (symmetry; apply Z.eqb_neq; lia).
      cbn [Z.eqb app]. rewrite !app_nil_r. reflexivity. }
    rewrite E. eapply create_unbounded.
    + apply (form_prefix_ok 1), Hs.
    + cbn [app]. constructor; [unfold cchar; lia|]. apply Forall_app. split; [apply letters_cchar, U1|].
      constructor; [unfold cchar; lia|]. constructor; [unfold cchar; lia|apply letters_cchar, U2].
    + cbn [app]. right. apply in_or_app. right. left. reflexivity.
    + apply (boundaries_cols true); assumption.
    + rewrite V1, V2. cbn [from_bounds oz]. apply mk_range_ok; unfold MAX_COL in *; lia.
  - destruct (row_text r1 ltac:(lia)) as (H1 & N1 & V1). destruct (row_text r2 ltac:(lia)) as (H2 & N2 & V2).
    assert (E : 36 :: coord_text 0 r1 ++ 58 :: 36 :: coord_text 0 r2
                = [36] ++ str_of_Z r1 ++ 58 :: [36] ++ str_of_Z r2).
    { unfold coord_text, column. cbn [Z.eqb app].
      replace (r1 =? 0) with false by (symmetry; apply Z.eqb_neq; lia).
      replace (r2 =? 0) with false by (symmetry; apply Z.eqb_neq; lia). reflexivity. }
    rewrite E. eapply create_unbounded.
    + apply (form_prefix_ok 1), Hs.
    + cbn [app]. constructor; [unfold cchar; lia|]. apply Forall_app. split; [apply digits_cchar, H1|].
      constructor; [unfold cchar; lia|]. constructor; [unfold cchar; lia|apply digits_cchar, H2].
    + cbn [app]. right. apply in_or_app. right. left. reflexivity.
    + apply (boundaries_rows [36]); try assumption. tauto.
    + rewrite V1, V2. cbn [from_bounds oz]. reflexivity.
Qed.

(* non-vacuity: 'My Data'!A:XFD... columns A:C of a quoted sheet, rows 2:1048576 *)
Example ex_unbounded_cols :
  let a := ARange [77; 121; 32; 68; 97; 116; 97] 1 0 3 0 in
  unbounded_on_sheet a /\ abs_form_ok a
  /\ quoted_address a = Ok [39; 77; 121; 32; 68; 97; 116; 97; 39; 33; 65; 58; 67]
  /\ bind (quoted_address a) (fun t => create t [] None) = Ok (VA a)
  /\ bind (abs_address a) (fun t => create t [] None) = Ok (VA a).
Proof.
  cbn zeta. split; [left; unfold MAX_COL; lia|]. split; [cbn; lia|]. vm_compute. repeat split; reflexivity.
Qed.
Example ex_unbounded_rows :
  let a := ARange [83] 0 2 0 1048576 in
  unbounded_on_sheet a /\ address a = [83; 33; 50; 58; 49; 48; 52; 56; 53; 55; 54]
  /\ create (address a) [] None = Ok (VA a)
  /\ create (form_prefix 1 [83] ++ excel_abs_coordinate a) [] None = Ok (VA a).
Proof. cbn zeta. split; [right; unfold MAX_ROW; lia|]. vm_compute. repeat split; reflexivity. Qed.
