(* Proofs/C10Order.v — the comparison operators of Model/Ops.v form ONE order on
   the non-blank, non-error scalars: <= is transitive and antisymmetric up to =,
   < is transitive, = is an equivalence.  (Through blank none of this holds:
   Refuted/C10_trans_blank.v.)

   How the model compares (Lib/Py.v, Model/Ops.v): a non-blank operand v becomes
   the key (class, value'): class 0 with the number itself for VInt/VFloat,
   class 1 with str.lower(v) for text, class 2 with the logical itself.  Keys
   are compared class first; inside a class [py_eq]/[py_lt]: numbers (and
   logicals, as 0/1) through their exact rational value [qv] — VInt and VFloat
   mix freely —, text by [str_eqb]/[str_ltb], the lexicographic order of the
   code-point lists. *)
From Coq Require Import ZArith QArith List Bool Lia.
From PV Require Import Lib.Py Proofs.PyTac Proofs.NumLemmas Model.Ops Proofs.C10.
From PV Require Gen.excelutil.
Import ListNotations.
Open Scope Z_scope.

(* ------------------------------------------------------------ the key *)
Definition key_of (v : pyval) : res (Z * pyval) :=
  match v with
  | VBool _ => Ok (2, v)
  | VInt _ | VFloat _ => Ok (0, v)
  | VStr _ => lv <- str_lower v ;; Ok (1, lv)
  | _ => Raise Unmodelled
  end.

Lemma excel_cmp_key_of v : scalar v -> v <> VNone -> in_error_codes v = Ok false ->
  excel_cmp_key v = key_of v.
Proof.
  intros Hs Hn He. unfold excel_cmp_key, key_of.
  destruct v; cbn [scalar] in Hs; try contradiction; try congruence.
  - rewrite tcv_bool. cbn [bind]. py_run. reflexivity.
  - rewrite tcv_int. cbn [bind]. py_run. reflexivity.
  - rewrite tcv_float. cbn [bind]. py_run. reflexivity.
  - rewrite (tcv_str s He). cbn [bind]. py_run. reflexivity.
Qed.

Lemma cmp_keys_nonblank l r : scalar l -> scalar r ->
  in_error_codes l = Ok false -> in_error_codes r = Ok false ->
  is_blank l = false -> is_blank r = false ->
  cmp_keys l r = (kl <- key_of l ;; kr <- key_of r ;; Ok (kl, kr)).
Proof.
  intros Hsl Hsr Hel Her Hbl Hbr. unfold cmp_keys.
  destruct (tcv_shape r Hsr Her) as (tr & dr & -> & _). cbn [bind].
  rewrite Hbl. cbn [bind].
  destruct (tcv_shape l Hsl Hel) as (tl & dl & -> & _). cbn [bind].
  rewrite Hbr. cbn [bind].
  rewrite (excel_cmp_key_of l Hsl (not_blank_not_none l Hbl) Hel).
  rewrite (excel_cmp_key_of r Hsr (not_blank_not_none r Hbr) Her). reflexivity.
Qed.

Lemma fixup_cmp_nonblank l o r : is_cmp o = true -> scalar l -> scalar r ->
  in_error_codes l = Ok false -> in_error_codes r = Ok false ->
  is_blank l = false -> is_blank r = false ->
  fixup l o r = (kl <- key_of l ;; kr <- key_of r ;; cmp_apply o kl kr).
Proof.
  intros Ho Hsl Hsr Hel Her Hbl Hbr. unfold fixup. rewrite Hel. cbn [bind]. rewrite Her. cbn [bind].
  rewrite Ho, (cmp_keys_nonblank l r Hsl Hsr Hel Her Hbl Hbr).
  destruct (key_of l) as [kl|e]; cbn [bind]; [|reflexivity].
  destruct (key_of r) as [kr|e]; cbn [bind]; reflexivity.
Qed.

Lemma key_of_ok v k : key_of v = Ok k -> key_ok k.
Proof.
  destruct v; cbn [key_of]; try discriminate.
  - intros H. injection H as <-. reflexivity.
  - intros H. injection H as <-. reflexivity.
  - intros H. injection H as <-. reflexivity.
  - destruct (str_lower (VStr s)) as [w|e] eqn:E; cbn [bind]; [|discriminate].
    destruct (str_lower_shape s w E) as (s' & ->). intros H. injection H as <-. reflexivity.
Qed.

(* ------------------------------------- the order inside one class *)
(* "a == b or a < b" as the namedtuple comparison evaluates it *)
Definition vle (a b : pyval) : res bool := if py_eq a b then Ok true else py_lt a b.

Lemma vle_num a b : numeric a -> numeric b -> (vle a b = Ok true <-> (qv a <= qv b)%Q).
Proof.
  intros Ha Hb. unfold vle. rewrite (py_eq_num a b Ha Hb), (py_lt_num a b Ha Hb).
  destruct (q_eqb (qv a) (qv b)) eqn:E.
  - apply q_eqb_eq in E. split; [intros _; rewrite E; apply Qle_refl|reflexivity].
  - split.
    + intros H. injection H as H. apply q_ltb_lt in H. apply Qlt_le_weak. exact H.
    + intros H. f_equal. apply q_ltb_lt. apply Qle_lteq in H. destruct H as [H|H]; [exact H|].
      apply q_eqb_eq in H. congruence.
Qed.

Definition str_leb (x y : str) : bool := str_eqb x y || str_ltb x y.
Lemma vle_str x y : vle (VStr x) (VStr y) = Ok (str_leb x y).
Proof. unfold vle, str_leb. cbn [py_eq py_lt scalar_lt]. destruct (str_eqb x y); reflexivity. Qed.

(* the lexicographic order on code-point lists is a total order *)
Lemma str_leb_refl x : str_leb x x = true.
Proof. unfold str_leb. rewrite str_eqb_refl. reflexivity. Qed.
Lemma str_leb_trans x y z : str_leb x y = true -> str_leb y z = true -> str_leb x z = true.
Proof.
  unfold str_leb. intros H1 H2. apply orb_true_iff in H1. apply orb_true_iff in H2.
  apply orb_true_iff.
  destruct H1 as [H1|H1]; [apply str_eqb_eq in H1; subst y; exact H2|].
  destruct H2 as [H2|H2]; [apply str_eqb_eq in H2; subst z; right; exact H1|].
  right. eapply str_ltb_trans; eauto.
Qed.
Lemma str_leb_antisym x y : str_leb x y = true -> str_leb y x = true -> x = y.
Proof.
  unfold str_leb. intros H1 H2.
  destruct (str_trichotomy x y) as [(A & B & C)|[(A & B & C)|(A & B & C)]];
    rewrite ?A, ?B, ?C in *; rewrite (str_eqb_sym y x) in H2; rewrite ?A, ?B, ?C in *;
    cbn in *; try discriminate.
  apply str_eqb_eq. exact B.
Qed.
Lemma str_leb_total x y : str_leb x y = true \/ str_leb y x = true.
Proof.
  unfold str_leb.
  destruct (str_trichotomy x y) as [(A & B & C)|[(A & B & C)|(A & B & C)]]; rewrite A, B, C.
  - left. reflexivity.
  - left. reflexivity.
  - right. apply orb_true_r.
Qed.
Lemma str_ltb_leb x y : str_ltb x y = negb (str_leb y x).
Proof.
  unfold str_leb. rewrite (str_eqb_sym y x).
  destruct (str_trichotomy x y) as [(A & B & C)|[(A & B & C)|(A & B & C)]]; rewrite A, B, C; reflexivity.
Qed.

(* the values of two well-formed keys of the same class *)
Lemma key_ok_same t va vb : key_ok (t, va) -> key_ok (t, vb) ->
  (numeric va /\ numeric vb) \/ (exists x y, va = VStr x /\ vb = VStr y).
Proof.
  destruct va, vb; cbn [key_ok]; intros Ha Hb; try contradiction; try lia;
    try (left; split; exact I); right; eauto.
Qed.

(* ------------------------------------------------- the order on keys *)
Definition kle (a b : Z * pyval) : Prop := key_lt false a b = Ok true.
Definition klt (a b : Z * pyval) : Prop := key_lt true a b = Ok true.

Lemma key_le_unfold ta va tb vb :
  key_lt false (ta, va) (tb, vb) = if negb (ta =? tb) then Ok (ta <? tb) else vle va vb.
Proof. unfold key_lt, vle. destruct (negb (ta =? tb)); [reflexivity|]. destruct (py_eq va vb); reflexivity. Qed.

Lemma kle_spec ta va tb vb :
  kle (ta, va) (tb, vb) <-> ta < tb \/ (ta = tb /\ vle va vb = Ok true).
Proof.
  unfold kle. rewrite key_le_unfold.
  destruct (Z.eqb_spec ta tb) as [E|E]; cbn [negb].
  - split; [intros H; right; auto|intros [H|[_ H]]; [lia|exact H]].
  - split.
    + intros H. injection H as H. apply Z.ltb_lt in H. left. exact H.
    + intros [H|[H _]]; [|contradiction]. f_equal. apply Z.ltb_lt. exact H.
Qed.

Lemma vle_trans t va vb vc : key_ok (t, va) -> key_ok (t, vb) -> key_ok (t, vc) ->
  vle va vb = Ok true -> vle vb vc = Ok true -> vle va vc = Ok true.
Proof.
  intros Ha Hb Hc H1 H2.
  destruct (key_ok_same t va vb Ha Hb) as [[Na Nb]|(x & y & -> & ->)].
  - destruct (key_ok_same t vb vc Hb Hc) as [[_ Nc]|(y & z & -> & _)]; [|contradiction].
    apply (vle_num va vb Na Nb) in H1. apply (vle_num vb vc Nb Nc) in H2.
    apply (vle_num va vc Na Nc). eapply Qle_trans; eauto.
  - destruct (key_ok_same t (VStr y) vc Hb Hc) as [[[] _]|(y' & z & E & ->)].
    injection E as <-. rewrite vle_str in *. injection H1 as H1. injection H2 as H2.
    f_equal. eapply str_leb_trans; eauto.
Qed.

Lemma kle_trans a b c : key_ok a -> key_ok b -> key_ok c -> kle a b -> kle b c -> kle a c.
Proof.
  destruct a as [ta va], b as [tb vb], c as [tc vc]. intros Ha Hb Hc H1 H2.
  apply kle_spec in H1. apply kle_spec in H2. apply kle_spec.
  destruct H1 as [H1|[E1 H1]]; destruct H2 as [H2|[E2 H2]]; try (left; lia).
  subst tb tc. right. split; [reflexivity|]. exact (vle_trans ta va vb vc Ha Hb Hc H1 H2).
Qed.

(* equality of keys *)
Lemma key_eq_spec ta va tb vb :
  key_eq (ta, va) (tb, vb) = true <-> ta = tb /\ py_eq va vb = true.
Proof. unfold key_eq. rewrite andb_true_iff, Z.eqb_eq. reflexivity. Qed.

Lemma py_eq_key_refl t v : key_ok (t, v) -> py_eq v v = true.
Proof.
  destruct v; cbn [key_ok]; try contradiction; intros _; cbn [py_eq as_num num_q].
  - destruct b; reflexivity.
  - apply Z.eqb_refl.
  - apply q_eqb_eq. reflexivity.
  - apply str_eqb_refl.
Qed.

Lemma py_eq_key_trans t va vb vc : key_ok (t, va) -> key_ok (t, vb) -> key_ok (t, vc) ->
  py_eq va vb = true -> py_eq vb vc = true -> py_eq va vc = true.
Proof.
  intros Ha Hb Hc H1 H2.
  destruct (key_ok_same t va vb Ha Hb) as [[Na Nb]|(x & y & -> & ->)].
  - destruct (key_ok_same t vb vc Hb Hc) as [[_ Nc]|(y & z & -> & _)]; [|contradiction].
    rewrite (py_eq_num _ _ Na Nb) in H1. rewrite (py_eq_num _ _ Nb Nc) in H2.
    rewrite (py_eq_num _ _ Na Nc). apply q_eqb_eq in H1. apply q_eqb_eq in H2. apply q_eqb_eq.
    rewrite H1. exact H2.
  - destruct (key_ok_same t (VStr y) vc Hb Hc) as [[[] _]|(y' & z & E & ->)].
    injection E as <-. cbn [py_eq] in *. apply str_eqb_eq in H1. apply str_eqb_eq in H2.
    subst. apply str_eqb_refl.
Qed.

Lemma key_eq_refl k : key_ok k -> key_eq k k = true.
Proof. destruct k as [t v]. intros H. apply key_eq_spec. split; [reflexivity|eapply py_eq_key_refl; eauto]. Qed.

Lemma key_eq_sym a b : key_ok a -> key_ok b -> key_eq b a = key_eq a b.
Proof.
  destruct a as [ta va], b as [tb vb]. intros Ha Hb. unfold key_eq. rewrite (Z.eqb_sym tb ta).
  destruct (Z.eqb_spec ta tb) as [E|E]; cbn [andb]; [|reflexivity].
  apply py_eq_sym_scalar. apply (key_ok_class (ta, va) (tb, vb) Ha Hb E).
Qed.

Lemma key_eq_trans a b c : key_ok a -> key_ok b -> key_ok c ->
  key_eq a b = true -> key_eq b c = true -> key_eq a c = true.
Proof.
  destruct a as [ta va], b as [tb vb], c as [tc vc]. intros Ha Hb Hc H1 H2.
  apply key_eq_spec in H1. apply key_eq_spec in H2. apply key_eq_spec.
  destruct H1 as [E1 H1]. destruct H2 as [E2 H2]. subst tb tc. split; [reflexivity|].
  exact (py_eq_key_trans ta va vb vc Ha Hb Hc H1 H2).
Qed.

(* strict order = not the converse weak order; antisymmetry *)
Lemma key_lt_not_ge a b : key_ok a -> key_ok b ->
  exists x, key_lt true a b = Ok x /\ key_lt false b a = Ok (negb x).
Proof.
  intros Ha Hb. destruct a as [ta va], b as [tb vb].
  assert (Hc : ta = tb -> same_class va vb) by (apply (key_ok_class (ta, va) (tb, vb) Ha Hb)).
  assert (Hc' : tb = ta -> same_class vb va) by (apply (key_ok_class (tb, vb) (ta, va) Hb Ha)).
  destruct (key_trichotomy ta va tb vb Hc) as (x & z & Hx & Hz & H3).
  exists x. split; [exact Hx|].
  rewrite (key_le_split tb vb ta va z Hc' Hz), (key_eq_sym (ta, va) (tb, vb) Ha Hb).
  destruct H3 as [(-> & -> & ->)|[(-> & -> & ->)|(-> & -> & ->)]]; reflexivity.
Qed.

Lemma klt_iff_not_kle a b : key_ok a -> key_ok b -> (klt a b <-> key_lt false b a = Ok false).
Proof.
  intros Ha Hb. destruct (key_lt_not_ge a b Ha Hb) as (x & Hx & Hx'). unfold klt.
  rewrite Hx, Hx'. destruct x; cbn [negb]; split; congruence.
Qed.

Lemma kle_total a b : key_ok a -> key_ok b -> kle a b \/ kle b a.
Proof.
  intros Ha Hb. destruct (key_lt_not_ge a b Ha Hb) as (x & Hx & Hx').
  destruct a as [ta va], b as [tb vb].
  assert (Hc : ta = tb -> same_class va vb) by (apply (key_ok_class (ta, va) (tb, vb) Ha Hb)).
  destruct x; cbn [negb] in *.
  - left. unfold kle. rewrite (key_le_split ta va tb vb true Hc Hx). reflexivity.
  - right. exact Hx'.
Qed.

Lemma kle_antisym a b : key_ok a -> key_ok b -> kle a b -> kle b a -> key_eq a b = true.
Proof.
  intros Ha Hb H1 H2. destruct (key_lt_not_ge a b Ha Hb) as (x & Hx & Hx').
  unfold kle in *. rewrite Hx' in H2. destruct x; cbn [negb] in H2; [discriminate|].
  destruct a as [ta va], b as [tb vb].
  assert (Hc : ta = tb -> same_class va vb) by (apply (key_ok_class (ta, va) (tb, vb) Ha Hb)).
  rewrite (key_le_split ta va tb vb false Hc Hx) in H1. cbn [orb] in H1. congruence.
Qed.

Lemma klt_trans a b c : key_ok a -> key_ok b -> key_ok c -> klt a b -> klt b c -> klt a c.
Proof.
  intros Ha Hb Hc H1 H2.
  apply (klt_iff_not_kle a c Ha Hc).
  destruct (key_lt_not_ge a c Ha Hc) as (x & Hx & Hx'). rewrite Hx'.
  destruct x; [reflexivity|]. cbn [negb] in Hx'. exfalso.
  (* c <= a and a < b, b < c : then c <= b, contradiction with b < c *)
  apply (klt_iff_not_kle b c Hb Hc) in H2.
  assert (Hab : kle a b).
  { destruct (kle_total a b Ha Hb) as [H|H]; [exact H|].
    apply (klt_iff_not_kle a b Ha Hb) in H1. unfold kle in H. congruence. }
  assert (Hcb : kle c b) by (eapply (kle_trans c a b); eauto).
  unfold kle in Hcb. congruence.
Qed.

(* ----------------------------------------- the operators through fixup *)
Definition plain (v : pyval) : Prop :=      (* a non-blank, non-error scalar *)
  scalar v /\ in_error_codes v = Ok false /\ is_blank v = false.

Lemma fixup_plain l o r : is_cmp o = true -> plain l -> plain r ->
  fixup l o r = (kl <- key_of l ;; kr <- key_of r ;; cmp_apply o kl kr).
Proof. intros Ho (A & B & C) (D & E & F). apply fixup_cmp_nonblank; assumption. Qed.

Lemma le_inv a b : plain a -> plain b -> fixup a LtE b = Ok (VBool true) ->
  exists ka kb, key_of a = Ok ka /\ key_of b = Ok kb /\ key_ok ka /\ key_ok kb /\ kle ka kb.
Proof.
  intros Ha Hb. rewrite (fixup_plain a LtE b eq_refl Ha Hb).
  destruct (key_of a) as [ka|e] eqn:Ea; cbn [bind]; [|discriminate].
  destruct (key_of b) as [kb|e] eqn:Eb; cbn [bind]; [|discriminate].
  cbn [cmp_apply]. intros H. exists ka, kb. repeat split; eauto using key_of_ok.
  unfold kle. destruct (key_lt false ka kb) as [[|]|e]; cbn [bind] in H; congruence.
Qed.
Lemma lt_inv a b : plain a -> plain b -> fixup a Lt b = Ok (VBool true) ->
  exists ka kb, key_of a = Ok ka /\ key_of b = Ok kb /\ key_ok ka /\ key_ok kb /\ klt ka kb.
Proof.
  intros Ha Hb. rewrite (fixup_plain a Lt b eq_refl Ha Hb).
  destruct (key_of a) as [ka|e] eqn:Ea; cbn [bind]; [|discriminate].
  destruct (key_of b) as [kb|e] eqn:Eb; cbn [bind]; [|discriminate].
  cbn [cmp_apply]. intros H. exists ka, kb. repeat split; eauto using key_of_ok.
  unfold klt. destruct (key_lt true ka kb) as [[|]|e]; cbn [bind] in H; congruence.
Qed.
Lemma eq_inv a b : plain a -> plain b -> fixup a Eq b = Ok (VBool true) ->
  exists ka kb, key_of a = Ok ka /\ key_of b = Ok kb /\ key_ok ka /\ key_ok kb /\ key_eq ka kb = true.
Proof.
  intros Ha Hb. rewrite (fixup_plain a Eq b eq_refl Ha Hb).
  destruct (key_of a) as [ka|e] eqn:Ea; cbn [bind]; [|discriminate].
  destruct (key_of b) as [kb|e] eqn:Eb; cbn [bind]; [|discriminate].
  cbn [cmp_apply]. intros H. exists ka, kb. repeat split; eauto using key_of_ok. congruence.
Qed.

(* <= is transitive *)
Lemma le_trans a b c : plain a -> plain b -> plain c ->
  fixup a LtE b = Ok (VBool true) -> fixup b LtE c = Ok (VBool true) ->
  fixup a LtE c = Ok (VBool true).
Proof.
  intros Ha Hb Hc H1 H2.
  destruct (le_inv a b Ha Hb H1) as (ka & kb & Ea & Eb & Oa & Ob & L1).
  destruct (le_inv b c Hb Hc H2) as (kb' & kc & Eb' & Ec & _ & Oc & L2).
  rewrite Eb in Eb'. injection Eb' as <-.
  rewrite (fixup_plain a LtE c eq_refl Ha Hc), Ea, Ec. cbn [bind cmp_apply].
  rewrite (kle_trans ka kb kc Oa Ob Oc L1 L2). reflexivity.
Qed.

(* < is transitive *)
Lemma lt_trans a b c : plain a -> plain b -> plain c ->
  fixup a Lt b = Ok (VBool true) -> fixup b Lt c = Ok (VBool true) ->
  fixup a Lt c = Ok (VBool true).
Proof.
  intros Ha Hb Hc H1 H2.
  destruct (lt_inv a b Ha Hb H1) as (ka & kb & Ea & Eb & Oa & Ob & L1).
  destruct (lt_inv b c Hb Hc H2) as (kb' & kc & Eb' & Ec & _ & Oc & L2).
  rewrite Eb in Eb'. injection Eb' as <-.
  rewrite (fixup_plain a Lt c eq_refl Ha Hc), Ea, Ec. cbn [bind cmp_apply].
  rewrite (klt_trans ka kb kc Oa Ob Oc L1 L2). reflexivity.
Qed.

(* a <= b and b <= a only if a = b; any two operands are comparable *)
Lemma le_antisym a b : plain a -> plain b ->
  fixup a LtE b = Ok (VBool true) -> fixup b LtE a = Ok (VBool true) ->
  fixup a Eq b = Ok (VBool true).
Proof.
  intros Ha Hb H1 H2.
  destruct (le_inv a b Ha Hb H1) as (ka & kb & Ea & Eb & Oa & Ob & L1).
  destruct (le_inv b a Hb Ha H2) as (kb' & ka' & Eb' & Ea' & _ & _ & L2).
  rewrite Eb in Eb'. injection Eb' as <-. rewrite Ea in Ea'. injection Ea' as <-.
  rewrite (fixup_plain a Eq b eq_refl Ha Hb), Ea, Eb. cbn [bind cmp_apply].
  rewrite (kle_antisym ka kb Oa Ob L1 L2). reflexivity.
Qed.

Lemma le_total a b ka kb : plain a -> plain b -> key_of a = Ok ka -> key_of b = Ok kb ->
  fixup a LtE b = Ok (VBool true) \/ fixup b LtE a = Ok (VBool true).
Proof.
  intros Ha Hb Ea Eb.
  rewrite (fixup_plain a LtE b eq_refl Ha Hb), (fixup_plain b LtE a eq_refl Hb Ha), Ea, Eb.
  cbn [bind cmp_apply].
  destruct (kle_total ka kb (key_of_ok a ka Ea) (key_of_ok b kb Eb)) as [H|H]; unfold kle in H;
    rewrite H; auto.
Qed.

(* = is an equivalence *)
Lemma eq_refl_plain a k : plain a -> key_of a = Ok k -> fixup a Eq a = Ok (VBool true).
Proof.
  intros Ha Ea. rewrite (fixup_plain a Eq a eq_refl Ha Ha), Ea. cbn [bind cmp_apply].
  rewrite (key_eq_refl k (key_of_ok a k Ea)). reflexivity.
Qed.
Lemma key_of_raise v e : key_of v = Raise e -> e = Unmodelled.
Proof.
  destruct v; cbn [key_of]; try discriminate; try congruence.
  unfold str_lower. destruct (non_ascii s); [destruct (case_ok s)|]; cbn [bind]; congruence.
Qed.
Lemma eq_sym_plain a b : plain a -> plain b -> fixup b Eq a = fixup a Eq b.
Proof.
  intros Ha Hb. rewrite (fixup_plain a Eq b eq_refl Ha Hb), (fixup_plain b Eq a eq_refl Hb Ha).
  destruct (key_of a) as [ka|e] eqn:Ea; destruct (key_of b) as [kb|e'] eqn:Eb; cbn [bind cmp_apply];
    try reflexivity.
  - rewrite (key_eq_sym ka kb (key_of_ok a ka Ea) (key_of_ok b kb Eb)). reflexivity.
  - rewrite (key_of_raise a e Ea), (key_of_raise b e' Eb). reflexivity.
Qed.
Lemma eq_trans_plain a b c : plain a -> plain b -> plain c ->
  fixup a Eq b = Ok (VBool true) -> fixup b Eq c = Ok (VBool true) ->
  fixup a Eq c = Ok (VBool true).
Proof.
  intros Ha Hb Hc H1 H2.
  destruct (eq_inv a b Ha Hb H1) as (ka & kb & Ea & Eb & Oa & Ob & L1).
  destruct (eq_inv b c Hb Hc H2) as (kb' & kc & Eb' & Ec & _ & Oc & L2).
  rewrite Eb in Eb'. injection Eb' as <-.
  rewrite (fixup_plain a Eq c eq_refl Ha Hc), Ea, Ec. cbn [bind cmp_apply].
  rewrite (key_eq_trans ka kb kc Oa Ob Oc L1 L2). reflexivity.
Qed.

(* the comparison key exists exactly when the case mapping of a text operand
   is inside the model (Lib/Py.v: ASCII, Latin-1, CJK, pictographs) *)
Definition cmp_modelled (v : pyval) : bool :=
  match v with VStr s => negb (non_ascii s) || case_ok s | _ => true end.
Lemma key_of_defined v : scalar v -> v <> VNone -> cmp_modelled v = true -> exists k, key_of v = Ok k.
Proof.
  destruct v; cbn [scalar]; try contradiction; try congruence; intros _ _ Hm; cbn [key_of]; eauto.
  unfold str_lower. cbn [cmp_modelled] in Hm.
  destruct (non_ascii s); [destruct (case_ok s); [|discriminate]|]; cbn [bind]; eauto.
Qed.
Lemma key_of_undefined v : scalar v -> v <> VNone -> cmp_modelled v = false ->
  key_of v = Raise Unmodelled.
Proof.
  destruct v; cbn [scalar cmp_modelled]; try contradiction; try congruence; try discriminate.
  intros _ _ Hm. cbn [key_of]. unfold str_lower.
  destruct (non_ascii s); [destruct (case_ok s)|]; try discriminate. reflexivity.
Qed.

Lemma plain_key a : plain a -> cmp_modelled a = true -> exists k, key_of a = Ok k.
Proof.
  intros (Hs & _ & Hb) Hm. apply key_of_defined; auto. apply not_blank_not_none. exact Hb.
Qed.
Lemma le_total_modelled a b : plain a -> plain b -> cmp_modelled a = true -> cmp_modelled b = true ->
  fixup a LtE b = Ok (VBool true) \/ fixup b LtE a = Ok (VBool true).
Proof.
  intros Ha Hb Ma Mb. destruct (plain_key a Ha Ma) as (ka & Ea). destruct (plain_key b Hb Mb) as (kb & Eb).
  eapply le_total; eauto.
Qed.
Lemma eq_refl_modelled a : plain a -> cmp_modelled a = true -> fixup a Eq a = Ok (VBool true).
Proof. intros Ha Ma. destruct (plain_key a Ha Ma) as (k & E). eapply eq_refl_plain; eauto. Qed.

(* ------------------------------------------------------------ examples *)
(* 3 <= 3.5 <= "apple" <= "Banana" <= TRUE: the hypotheses are satisfiable
   across number kinds, classes and letter case *)
Example plain_int : plain (VInt 3). Proof. repeat split. Qed.
Example plain_float : plain (VFloat (7 # 2)). Proof. repeat split. Qed.
Example plain_apple : plain (VStr [97; 112; 112; 108; 101]). Proof. repeat split. Qed.
Example plain_Banana : plain (VStr [66; 97; 110; 97; 110; 97]). Proof. repeat split. Qed.
Example plain_true : plain (VBool true). Proof. repeat split. Qed.
Example chain_1 : fixup (VInt 3) LtE (VFloat (7 # 2)) = Ok (VBool true). Proof. vm_compute. reflexivity. Qed.
Example chain_2 : fixup (VFloat (7 # 2)) LtE (VStr [97; 112; 112; 108; 101]) = Ok (VBool true).
Proof. vm_compute. reflexivity. Qed.
Example chain_3 : fixup (VStr [97; 112; 112; 108; 101]) LtE (VStr [66; 97; 110; 97; 110; 97]) = Ok (VBool true).
Proof. vm_compute. reflexivity. Qed.
Example chain_4 : fixup (VStr [66; 97; 110; 97; 110; 97]) LtE (VBool true) = Ok (VBool true).
Proof. vm_compute. reflexivity. Qed.
Example eq_mixed : fixup (VInt 2) Eq (VFloat (4 # 2)) = Ok (VBool true). Proof. vm_compute. reflexivity. Qed.
Example eq_case : fixup (VStr [97; 98]) Eq (VStr [65; 66]) = Ok (VBool true). Proof. vm_compute. reflexivity. Qed.
(* antisymmetry is not vacuous: 2 <= 2.0 and 2.0 <= 2, "ab" <= "AB" and "AB" <= "ab" *)
Example anti_1 : fixup (VInt 2) LtE (VFloat (4 # 2)) = Ok (VBool true)
                 /\ fixup (VFloat (4 # 2)) LtE (VInt 2) = Ok (VBool true).
Proof. vm_compute. split; reflexivity. Qed.
Example anti_2 : fixup (VStr [97; 98]) LtE (VStr [65; 66]) = Ok (VBool true)
                 /\ fixup (VStr [65; 66]) LtE (VStr [97; 98]) = Ok (VBool true).
Proof. vm_compute. split; reflexivity. Qed.
Example lt_chain : fixup (VInt 3) Lt (VStr [97]) = Ok (VBool true)
                   /\ fixup (VStr [97]) Lt (VBool false) = Ok (VBool true).
Proof. vm_compute. split; reflexivity. Qed.
