(* Proofs/C17Base.v — definitions shared by the C17 sweeps. *)
From Coq Require Import ZArith List Bool Lia.
From PV Require Import Lib.Py Lib.PyDate Proofs.C17Cal.
From PV Require Gen.date_time.
Open Scope Z_scope.

(* DATE(YEAR n, MONTH n, DAY n) = n, on the generated code *)
Definition rt (n : Z) : bool :=
  match date_time.f_year (VInt n), date_time.f_month (VInt n), date_time.f_day (VInt n) with
  | Ok y, Ok m, Ok d =>
      match date_time.f_date y m d with Ok r => py_eq r (VInt n) | _ => false end
  | _, _, _ => false
  end.

