(* Proofs/C20TextTop.v — TEXT as pycel calls it (X_text, through apply_meta),
   the decidable membership test [parse_fmt], and concrete instances. *)
From Coq Require Import ZArith QArith Qround Qabs List Bool Lia.
From PV Require Import Lib.Py Model.Text Model.TextFormat Proofs.C20 Proofs.Radix.
From PV Require Import Proofs.C20TextSpec Proofs.C20TextTok Proofs.C20TextConv Proofs.C20Text.
From PV Require Gen.excelutil.
Import ListNotations.
Open Scope Z_scope.

(* ------------------------------------- a format is never an error code *)
Definition fchar (c : Z) : bool := ph c || (c =? 44) || (c =? 46) || (c =? 37).

Lemma int_ok_chars : forall s b, int_ok b s = true -> forallb fchar s = true.
Proof.
  induction s as [|c s IH]; intros b H; [reflexivity|].
  cbn [int_ok forallb] in *. unfold fchar at 1. destruct (ph c).
  - cbn [orb andb]. exact (IH _ H).
  - apply andb_true_iff in H. destruct H as [H H2]. apply andb_true_iff in H. destruct H as [H _].
    rewrite H. cbn [orb andb]. exact (IH _ H2).
Qed.

Lemma fmt_chars F : fmt_ok F = true -> forallb fchar (fmt_string F) = true.
Proof.
  destruct F as [ip dot fp k]. unfold fmt_ok, fmt_string. cbn [f_int f_dot f_frac f_pct].
  intros H. apply andb_true_iff in H. destruct H as [H _].
  apply andb_true_iff in H. destruct H as [H _].
  apply andb_true_iff in H. destruct H as [H1 H2].
  rewrite !forallb_app. rewrite (int_ok_chars ip false H1). cbn [andb].
  assert (Hk : forallb fchar (repeat 37 k) = true) by (induction k; [reflexivity|exact IHk]).
  rewrite Hk, andb_true_r. destruct dot; [|reflexivity].
  cbn [forallb]. change (fchar 46) with true. cbn [andb].
  apply forallb_forall. intros c Hc. unfold fchar.
  rewrite (proj1 (forallb_forall ph fp) H2 c Hc). reflexivity.
Qed.

Lemma str_eqb_true : forall a b, str_eqb a b = true -> a = b.
Proof.
  induction a as [|x a IH]; intros [|y b] H; try discriminate; [reflexivity|].
  cbn [str_eqb] in H. apply andb_true_iff in H. destruct H as [H1 H2].
  apply Z.eqb_eq in H1. subst. f_equal. exact (IH _ H2).
Qed.

Lemma not_eq_code s t : forallb fchar s = true -> forallb fchar t = false -> str_eqb s t = false.
Proof.
  intros Hs Ht. destruct (str_eqb s t) eqn:E; [|reflexivity].
  apply str_eqb_true in E. subst. congruence.
Qed.

Lemma in_codes_fmt F : fmt_ok F = true ->
  py_in (VStr (fmt_string F)) excelutil.c_ERROR_CODES = Ok false.
Proof.
  intros H. pose proof (fmt_chars F H) as Hc.
  unfold excelutil.c_ERROR_CODES. cbn [py_in hashable existsb py_eq].
  rewrite !(not_eq_code _ _ Hc) by reflexivity. reflexivity.
Qed.

(* ------------------------------------------------------------- X_text *)
Ltac text_wrap F Hok :=
  unfold X_text, wrap;
  cbn [forallb is_scalar andb negb map_idx in_idx existsb Nat.eqb orb bind first_code
       any_not_number cond_of py_truthy first_err_string];
  rewrite ?coerce_str_text;
  cbn [forallb is_scalar andb negb map_idx in_idx existsb Nat.eqb orb bind first_code
       any_not_number cond_of py_truthy first_err_string];
  rewrite ?(in_codes_fmt F Hok);
  cbn [forallb is_scalar andb negb map_idx in_idx existsb Nat.eqb orb bind first_code
       any_not_number cond_of py_truthy first_err_string];
  rewrite ?(in_codes_fmt F Hok);
  cbn [bind text_body].

Lemma X_text_float q F : fmt_ok F = true ->
  X_text [VFloat q; VStr (fmt_string F)] = Ok (VStr (text_spec half_even q F)).
Proof. intros Hok. text_wrap F Hok. rewrite (text_halfeven q F Hok). reflexivity. Qed.

Lemma X_text_int z F : fmt_ok F = true ->
  X_text [VInt z; VStr (fmt_string F)] = Ok (VStr (text_spec half_even (inject_Z z) F)).
Proof. intros Hok. text_wrap F Hok. rewrite (text_halfeven (inject_Z z) F Hok). reflexivity. Qed.

Lemma X_text_blank F : fmt_ok F = true ->
  X_text [VNone; VStr (fmt_string F)] = Ok (VStr (text_spec half_even 0 F)).
Proof. intros Hok. text_wrap F Hok. rewrite (text_halfeven 0 F Hok). reflexivity. Qed.

(* the clause of the property, on its non-tie domain *)
Lemma text_nontie_top q F : fmt_ok F = true -> ~ is_tie (text_arg q F) ->
  X_text [VFloat q; VStr (fmt_string F)] = Ok (VStr (text_spec half_away q F))
  /\ (forall z, q = inject_Z z ->
        X_text [VInt z; VStr (fmt_string F)] = Ok (VStr (text_spec half_away q F))).
Proof.
  intros Hok Ht.
  assert (E : text_spec half_even q F = text_spec half_away q F).
  { pose proof (text_halfeven q F Hok) as A. pose proof (text_nontie q F Hok Ht) as B. congruence. }
  split; [rewrite X_text_float by exact Hok; rewrite E; reflexivity|].
  intros z ->. rewrite X_text_int by exact Hok. rewrite E. reflexivity.
Qed.

Lemma text_halfeven_top q F : fmt_ok F = true ->
  X_text [VFloat q; VStr (fmt_string F)] = Ok (VStr (text_spec half_even q F))
  /\ (forall z, q = inject_Z z ->
        X_text [VInt z; VStr (fmt_string F)] = Ok (VStr (text_spec half_even q F))).
Proof.
  intros Hok. split; [apply X_text_float; exact Hok|].
  intros z ->. apply X_text_int. exact Hok.
Qed.

(* an integer is never a tie when the format has no '%'... in fact never: the
   scaled argument is an integer *)
Lemma integer_not_tie z F : ~ is_tie (text_arg (inject_Z z) F).
Proof.
  unfold is_tie, text_arg.
  assert (E : (Qabs (inject_Z z) * inject_Z (100 ^ Z.of_nat (f_pct F))
               * inject_Z (10 ^ Z.of_nat (length (f_frac F)))
               == inject_Z (Z.abs z * 100 ^ Z.of_nat (f_pct F) * 10 ^ Z.of_nat (length (f_frac F))))%Q).
  { rewrite !inject_Z_mult. unfold Qabs, inject_Z. cbn [Qnum Qden]. reflexivity. }
  set (q := (Qabs (inject_Z z) * inject_Z (100 ^ Z.of_nat (f_pct F))
             * inject_Z (10 ^ Z.of_nat (length (f_frac F))))%Q) in *.
  rewrite (Qfloor_comp _ _ E), Qfloor_Z. rewrite E.
  intros H. unfold Qeq, Qminus, Qplus, Qopp, inject_Z in H. cbn [Qnum Qden] in H. lia.
Qed.

(* --------------------------------------------------- parse_fmt is sound *)
Lemma split_pct_sound : forall s body k, split_pct s = (body, k) -> s = body ++ repeat 37 k.
Proof.
  induction s as [|c s IH]; intros body k H.
  - cbn in H. injection H as <- <-. reflexivity.
  - cbn [split_pct] in H. destruct (split_pct s) as [a j] eqn:E.
    specialize (IH a j eq_refl).
    destruct ((c =? 37) && is_nil a) eqn:C.
    + injection H as <- <-. apply andb_true_iff in C. destruct C as [C1 C2].
      apply Z.eqb_eq in C1. destruct a; [|discriminate]. subst. reflexivity.
    + injection H as <- <-. subst s. reflexivity.
Qed.

Lemma split_at_dot_sound : forall s a b, split_at_dot s = (a, b) ->
  s = a ++ match b with Some r => 46 :: r | None => [] end.
Proof.
  induction s as [|c s IH]; intros a b H.
  - cbn in H. injection H as <- <-. reflexivity.
  - cbn [split_at_dot] in H. destruct (Z.eqb_spec c 46) as [->|Hc].
    + injection H as <- <-. reflexivity.
    + destruct (split_at_dot s) as [a' b'] eqn:E. injection H as <- <-.
      rewrite (IH a' b' eq_refl) at 1. reflexivity.
Qed.

Lemma parse_fmt_sound s F : parse_fmt s = Some F -> fmt_ok F = true /\ fmt_string F = s.
Proof.
  unfold parse_fmt. destruct (split_pct s) as [body k] eqn:E1.
  destruct (split_at_dot body) as [ip fr] eqn:E2.
  match goal with |- context [fmt_ok ?G] => set (F0 := G) end.
  destruct (fmt_ok F0) eqn:Hok; [|discriminate]. intros H. injection H as <-.
  split; [exact Hok|].
  rewrite (split_pct_sound s body k E1), (split_at_dot_sound body ip fr E2).
  unfold fmt_string, F0. cbn [f_int f_dot f_frac f_pct].
  destruct fr; rewrite <- app_assoc; reflexivity.
Qed.

Lemma text_parsed_halfeven x s F : parse_fmt s = Some F ->
  text_fmt x s = Ok (text_spec half_even x F).
Proof.
  intros H. destruct (parse_fmt_sound s F H) as [Hok <-]. apply text_halfeven. exact Hok.
Qed.

Lemma text_parsed_nontie x s F : parse_fmt s = Some F -> ~ is_tie (text_arg x F) ->
  text_fmt x s = Ok (text_spec half_away x F).
Proof.
  intros H Ht. destruct (parse_fmt_sound s F H) as [Hok <-]. apply text_nontie; assumption.
Qed.

(* ... and complete: it accepts exactly the texts of the grammar *)
Lemma split_pct_repeat k : split_pct (repeat 37 k) = ([], k).
Proof. induction k as [|k IH]; [reflexivity|]. cbn [repeat split_pct]. rewrite IH. reflexivity. Qed.

Lemma split_pct_app : forall body k, last body 0 <> 37 ->
  split_pct (body ++ repeat 37 k) = (body, k).
Proof.
  induction body as [|c b IH]; intros k H; [apply split_pct_repeat|].
  cbn [app split_pct]. rewrite IH.
  - destruct b as [|d b]; [|rewrite andb_false_r; reflexivity].
    cbn [last] in H. destruct (Z.eqb_spec c 37); [contradiction|reflexivity].
  - destruct b as [|d b]; [cbn; lia|exact H].
Qed.

Definition bchar (c : Z) : bool := ph c || (c =? 44) || (c =? 46).
Lemma bchar_last : forall body, forallb bchar body = true -> last body 0 <> 37.
Proof.
  induction body as [|c b IH]; intros H; [cbn; lia|].
  cbn [forallb] in H. apply andb_true_iff in H. destruct H as [Hc Hb].
  destruct b as [|d b]; [|exact (IH Hb)].
  cbn [last]. intros ->. discriminate.
Qed.

Lemma int_ok_bchars : forall s b, int_ok b s = true ->
  forallb bchar s = true /\ forallb (fun c => negb (c =? 46)) s = true.
Proof.
  induction s as [|c s IH]; intros b H; [split; reflexivity|].
  cbn [int_ok forallb] in *. unfold bchar at 1. destruct (ph c) eqn:Ec.
  - destruct (IH _ H) as [A B]. rewrite A, B. cbn [orb andb]. split; [reflexivity|].
    unfold ph in Ec. apply orb_true_iff in Ec.
    destruct Ec as [E|E]; apply Z.eqb_eq in E; subst; reflexivity.
  - apply andb_true_iff in H. destruct H as [H H2]. apply andb_true_iff in H. destruct H as [H _].
    destruct (IH _ H2) as [A B]. rewrite A, B, H. apply Z.eqb_eq in H. subst c. split; reflexivity.
Qed.

Lemma split_at_dot_app : forall a b, forallb (fun c => negb (c =? 46)) a = true ->
  split_at_dot (a ++ 46 :: b) = (a, Some b) /\ split_at_dot a = (a, None).
Proof.
  induction a as [|c a IH]; intros b H; [split; reflexivity|].
  cbn [forallb] in H. apply andb_true_iff in H. destruct H as [Hc Ha].
  destruct (IH b Ha) as [A B]. cbn [app split_at_dot].
  destruct (c =? 46); [discriminate|]. rewrite A, B. split; reflexivity.
Qed.

Lemma parse_fmt_complete F : fmt_ok F = true -> parse_fmt (fmt_string F) = Some F.
Proof.
  intros Hok. pose proof Hok as Hok'.
  destruct F as [ip dot fp k]. unfold fmt_ok, fmt_string in *. cbn [f_int f_dot f_frac f_pct] in *.
  apply andb_true_iff in Hok. destruct Hok as [Hok H4].
  apply andb_true_iff in Hok. destruct Hok as [Hok H3].
  apply andb_true_iff in Hok. destruct Hok as [H1 H2].
  destruct (int_ok_bchars ip false H1) as [B1 B2].
  unfold parse_fmt. rewrite app_assoc. rewrite split_pct_app.
  - destruct dot.
    + rewrite (proj1 (split_at_dot_app ip fp B2)). cbn [f_int f_dot f_frac f_pct]. unfold fmt_ok.
      cbn [f_int f_dot f_frac f_pct]. rewrite H1, H2. reflexivity.
    + cbn [orb] in H3. destruct fp; [|discriminate]. rewrite app_nil_r.
      rewrite (proj2 (split_at_dot_app ip [] B2)). unfold fmt_ok.
      cbn [f_int f_dot f_frac f_pct orb] in *. rewrite H1, H4. reflexivity.
  - apply bchar_last. rewrite forallb_app, B1. cbn [andb]. destruct dot; [|reflexivity].
    cbn [forallb]. change (bchar 46) with true. cbn [andb].
    apply forallb_forall. intros c Hc. unfold bchar.
    rewrite (proj1 (forallb_forall ph fp) H2 c Hc). reflexivity.
Qed.

(* ------------------------------------------------------------ instances *)
(* "#,##0.0#%" *)
Definition F_ex : tfmt :=
  {| f_int := [35; 44; 35; 35; 48]; f_dot := true; f_frac := [48; 35]; f_pct := 1 |}.

Example ex_parse : parse_fmt [35; 44; 35; 35; 48; 46; 48; 35; 37] = Some F_ex.
Proof. vm_compute. reflexivity. Qed.

(* TEXT(-12345.678, "#,##0.0#%") = "-1,234,567.8%": meets the hypotheses of the non-tie theorem *)
Example ex_nontie :
  fmt_ok F_ex = true /\ ~ is_tie (text_arg (-12345678 # 1000) F_ex)
  /\ text_spec half_away (-12345678 # 1000) F_ex
     = [45; 49; 44; 50; 51; 52; 44; 53; 54; 55; 46; 56; 37].
Proof.
  split; [vm_compute; reflexivity|]. split; [|vm_compute; reflexivity].
  unfold is_tie. intros H. vm_compute in H. discriminate.
Qed.

(* TEXT(0.125, "0.00"): a tie with an even floor; half-even "0.12", half-away "0.13" *)
Definition F_tie : tfmt := {| f_int := [48]; f_dot := true; f_frac := [48; 48]; f_pct := 0 |}.
Example ex_tie :
  fmt_ok F_tie = true /\ is_tie (text_arg (1 # 8) F_tie)
  /\ text_spec half_even (1 # 8) F_tie = [48; 46; 49; 50]
  /\ text_spec half_away (1 # 8) F_tie = [48; 46; 49; 51].
Proof. repeat split; vm_compute; reflexivity. Qed.

(* "0,000" on 5 is "0005" (Excel: "0,005"): the padding zeros are not grouped *)
Example ex_pad_not_grouped :
  text_spec half_away 5 {| f_int := [48; 44; 48; 48; 48]; f_dot := false; f_frac := []; f_pct := 0 |}
  = [48; 48; 48; 53].
Proof. vm_compute. reflexivity. Qed.


(* hypotheses of the digit-level statements: r = 50 at d = 3 is "050", shown as "05" *)
Example ex_fraction :
  0 <= 50 < 10 ^ Z.of_nat 3 /\ zpad 3 (str_of_Z 50) = [48; 53; 48] /\ fdigits 3 50 = [48; 53].
Proof. split; [lia|]. split; vm_compute; reflexivity. Qed.
Example ex_grouping : group3 [49; 50; 51; 52; 53; 54; 55] = [49; 44; 50; 51; 52; 44; 53; 54; 55].
Proof. vm_compute. reflexivity. Qed.
(* an integer argument: TEXT(1234567, "#,##0.00") = "1,234,567.00" *)
Example ex_integer :
  text_spec half_away (inject_Z 1234567)
    {| f_int := [35; 44; 35; 35; 48]; f_dot := true; f_frac := [48; 48]; f_pct := 0 |}
  = [49; 44; 50; 51; 52; 44; 53; 54; 55; 46; 48; 48].
Proof. vm_compute. reflexivity. Qed.

(* ------------------------------------------------ the usual reading of 0 and #
   integer part "#..#0..0" (a '#', then b '0'): the digits are padded with zeros
   to b places; fraction part "0..0#..#" (a '0', then b '#'): at least a digits *)
Lemma firstn_repeat {A} (x : A) : forall n m, firstn n (repeat x m) = repeat x (Nat.min n m).
Proof. induction n as [|n IH]; intros [|m]; try reflexivity. cbn [firstn repeat Nat.min]. rewrite IH. reflexivity. Qed.
Lemma skipn_repeat {A} (x : A) : forall n m, skipn n (repeat x m) = repeat x (m - n).
Proof. induction n as [|n IH]; intros [|m]; try reflexivity. cbn [skipn repeat Nat.sub]. apply IH. Qed.
Lemma zeros_of_hashes n : zeros_of (repeat 35 n) = [].
Proof. induction n; [reflexivity|exact IHn]. Qed.
Lemma zeros_of_zeros n : zeros_of (repeat 48 n) = repeat 48 n.
Proof. induction n as [|n IH]; [reflexivity|]. cbn [repeat]. rewrite zeros_of_cons, IH. reflexivity. Qed.

Lemma text_padding_all : forall a b L : nat,
  zeros_of (firstn (a + b - L) (repeat 35 a ++ repeat 48 b)) = repeat 48 (b - L)
  /\ zeros_of (skipn L (repeat 48 a ++ repeat 35 b)) = repeat 48 (a - L).
Proof.
  intros a b L. unfold zeros_of. split.
  - rewrite firstn_app, filter_app, repeat_length, !firstn_repeat.
    fold (zeros_of (repeat 35 (Nat.min (a + b - L) a))). rewrite zeros_of_hashes.
    fold (zeros_of (repeat 48 (Nat.min (a + b - L - a) b))). rewrite zeros_of_zeros.
    cbn [app]. f_equal. lia.
  - rewrite skipn_app, filter_app, repeat_length, !skipn_repeat.
    fold (zeros_of (repeat 48 (a - L))). rewrite zeros_of_zeros.
    fold (zeros_of (repeat 35 (b - (L - a)))). rewrite zeros_of_hashes. apply app_nil_r.
Qed.

(* ------------------------------------------- the statements of Props/C20.v *)
Lemma text_halfeven_all : forall x F, fmt_ok F = true ->
  text_fmt x (fmt_string F) = Ok (text_spec half_even x F)
  /\ X_text [VFloat x; VStr (fmt_string F)] = Ok (VStr (text_spec half_even x F))
  /\ (forall z, x = inject_Z z ->
        X_text [VInt z; VStr (fmt_string F)] = Ok (VStr (text_spec half_even x F))).
Proof.
  intros x F H. split; [exact (text_halfeven x F H)|exact (text_halfeven_top x F H)].
Qed.

Lemma text_nontie_all : forall x F, fmt_ok F = true -> ~ is_tie (text_arg x F) ->
  text_fmt x (fmt_string F) = Ok (text_spec half_away x F)
  /\ X_text [VFloat x; VStr (fmt_string F)] = Ok (VStr (text_spec half_away x F))
  /\ (forall z, x = inject_Z z ->
        X_text [VInt z; VStr (fmt_string F)] = Ok (VStr (text_spec half_away x F))).
Proof.
  intros x F H T. split; [exact (text_nontie x F H T)|exact (text_nontie_top x F H T)].
Qed.

Lemma text_integer_all : forall z F, fmt_ok F = true ->
  X_text [VInt z; VStr (fmt_string F)] = Ok (VStr (text_spec half_away (inject_Z z) F)).
Proof.
  intros z F H.
  exact (proj2 (text_nontie_top (inject_Z z) F H (integer_not_tie z F)) z eq_refl).
Qed.

Lemma text_parsed_all : forall x s F, parse_fmt s = Some F ->
  s = fmt_string F /\ fmt_ok F = true
  /\ text_fmt x s = Ok (text_spec half_even x F)
  /\ (~ is_tie (text_arg x F) -> text_fmt x s = Ok (text_spec half_away x F)).
Proof.
  intros x s F H. destruct (parse_fmt_sound s F H) as [A B].
  split; [symmetry; exact B|]. split; [exact A|].
  split; [exact (text_parsed_halfeven x s F H)|exact (text_parsed_nontie x s F H)].
Qed.

Lemma text_modes_all : forall q, (0 <= q)%Q ->
  half_away q = Qround.Qfloor (q + (1 # 2))
  /\ (~ is_tie q -> half_even q = half_away q)
  /\ (is_tie q -> half_away q = Qround.Qfloor q + 1
                  /\ half_even q = if Z.even (Qround.Qfloor q) then Qround.Qfloor q
                                   else Qround.Qfloor q + 1).
Proof.
  intros q H. split; [exact (half_away_nonneg q H)|].
  split; [exact (nontie_modes q H)|exact (tie_modes q H)].
Qed.

Lemma text_digits_all : forall n, 0 <= n ->
  horner 10 0 (str_of_Z n) = n /\ Forall digitc (str_of_Z n)
  /\ (0 < n -> exists c s, str_of_Z n = c :: s /\ c <> 48).
Proof.
  intros n H. split; [|split; [exact (str_of_Z_digits n H)|exact (str_of_Z_head n)]].
  rewrite (str_of_Z_nonneg n H).
  destruct (digits_spec 10 ltac:(lia) n H) as (D & HD & _ & Hv & _). rewrite HD. exact Hv.
Qed.

Lemma text_fraction_all : forall d r, 0 <= r < 10 ^ Z.of_nat d ->
  length (zpad d (str_of_Z r)) = Nat.max d 1
  /\ horner 10 0 (zpad d (str_of_Z r)) = r
  /\ Forall digitc (zpad d (str_of_Z r))
  /\ exists j, zpad d (str_of_Z r) = fdigits d r ++ repeat 48 j /\ last (fdigits d r) 0 <> 48.
Proof.
  intros d r H. destruct (zpad_value d r H) as (A & B & C).
  split; [exact A|]. split; [exact B|]. split; [exact C|].
  exact (drop_trailing0_spec (zpad d (str_of_Z r))).
Qed.

Lemma text_grouping_all : forall s,
  ((length s <= 3)%nat -> group3 s = s)
  /\ (forall a b c, s <> [] -> group3 (s ++ [a; b; c]) = group3 s ++ [44; a; b; c])
  /\ filter (fun c => negb (c =? 44)) (group3 s) = filter (fun c => negb (c =? 44)) s.
Proof.
  intros s. split; [exact (group3_short s)|].
  split; [intros a b c; exact (group3_step s a b c)|exact (group3_digits s)].
Qed.

Lemma text_grammar_decidable_all : forall s F,
  parse_fmt s = Some F <-> (fmt_ok F = true /\ s = fmt_string F).
Proof.
  intros s F. split.
  - intros H. destruct (parse_fmt_sound s F H) as [A B]. split; [exact A|symmetry; exact B].
  - intros [A ->]. apply parse_fmt_complete. exact A.
Qed.
