From Coq Require Import ZArith QArith List Bool Lia.
From PV Require Import Lib.Py Proofs.PyTac Model.Aggregates.
From PV Require Gen.excelutil Gen.aggregates Gen.stats Gen.excelformula.
Import ListNotations.
Open Scope Z_scope.
Lemma placeholder : 1 = 1. Proof. reflexivity. Qed.
