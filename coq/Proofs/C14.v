(* Proofs/C14.v — aggregates over ranges.  The generated functions
   (Gen/aggregates.v: f__numerics, f_sum_; Gen/stats.v: f_average, f_count,
   f_max_, f_min_) are first characterised as functions of the row-major cell
   list [flatten (VTuple args)]; the property's clauses are then proved on
   those characterisations for ALL argument lists. *)
From Coq Require Import ZArith QArith Qround List Bool Lia Permutation.
From PV Require Import Lib.Py Proofs.PyTac Model.Aggregates.
From PV Require Gen.excelutil Gen.aggregates Gen.stats Gen.excelformula.
Import ListNotations.
Open Scope Z_scope.

(* ------------------------------------------------------------ vocabulary *)
(* a cell: blank, logical, number, text (error codes are texts) *)
Definition scalar (v : pyval) : bool :=
  match v with VNone | VBool _ | VInt _ | VFloat _ | VStr _ => true | _ => false end.
Definition numeric (v : pyval) : bool :=
  match v with VInt _ | VFloat _ => true | _ => false end.
Definition nums (l : list pyval) : list pyval := filter numeric l.
Definition codes : list pyval :=
  match excelutil.c_ERROR_CODES with VSet l => l | _ => [] end.
Definition is_err (v : pyval) : bool := existsb (py_eq v) codes.
(* the row-major cells of an argument list *)
Definition cells_of (args : list pyval) : list pyval := flatten (VTuple args).
Definition scalars (l : list pyval) : Prop := Forall (fun v => scalar v = true) l.
(* the number a numeric cell stands for *)
Definition qv (v : pyval) : Q :=
  match as_num v with Some n => num_q n | None => 0%Q end.
Definition sum_q (l : list pyval) : Q := fold_right (fun v a => (qv v + a)%Q) 0%Q l.
Definition first_error (l : list pyval) : option pyval := find is_err l.

Lemma py_in_codes x : scalar x = true ->
  py_in x excelutil.c_ERROR_CODES = Ok (is_err x).
Proof. destruct x; intros H; try discriminate; reflexivity. Qed.

Lemma is_err_str v : is_err v = true -> exists s, v = VStr s.
Proof.
  destruct v; intros H; try (eexists; reflexivity); exfalso;
    unfold is_err, codes in H; cbn in H; discriminate.
Qed.

(* ------------------------------------------------ list combinators of Py *)
Lemma gen_next_find elt cond p l d :
  (forall x, In x l -> cond x = Ok (p x)) -> (forall x, elt x = Ok x) ->
  gen_next elt cond l d = Ok (match find p l with Some e => e | None => d end).
Proof.
  intros Hc He. induction l as [|x l IH]; [reflexivity|].
  cbn [gen_next find]. rewrite Hc by (left; reflexivity). cbn [bind].
  destruct (p x); [apply He|]. apply IH. intros y Hy. apply Hc. right; exact Hy.
Qed.

Lemma genexp_filter elt cond p l :
  (forall x, cond x = Ok (p x)) -> (forall x, elt x = Ok x) ->
  genexp elt cond l = Ok (filter p l).
Proof.
  intros Hc He. induction l as [|x l IH]; [reflexivity|].
  cbn [genexp filter]. rewrite Hc. cbn [bind]. destruct (p x).
  - rewrite He, IH. reflexivity.
  - exact IH.
Qed.

Lemma genexp_const elt cond p c l :
  (forall x, cond x = Ok (p x)) -> (forall x, elt x = Ok c) ->
  genexp elt cond l = Ok (map (fun _ => c) (filter p l)).
Proof.
  intros Hc He. induction l as [|x l IH]; [reflexivity|].
  cbn [genexp filter]. rewrite Hc. cbn [bind]. destruct (p x).
  - rewrite He, IH. reflexivity.
  - exact IH.
Qed.

Lemma filter_filter {A} (p q : A -> bool) l :
  filter q (filter p l) = filter (fun x => p x && q x) l.
Proof.
  induction l as [|x l IH]; [reflexivity|]. cbn [filter].
  destruct (p x); cbn [filter andb]; [destruct (q x)|]; rewrite IH; reflexivity.
Qed.

Lemma filter_ext_in' {A} (p q : A -> bool) l :
  (forall x, In x l -> p x = q x) -> filter p l = filter q l.
Proof.
  induction l as [|x l IH]; intros H; [reflexivity|]. cbn [filter].
  rewrite (H x) by (left; reflexivity). rewrite IH; [reflexivity|].
  intros y Hy. apply H. right; exact Hy.
Qed.

(* ------------------------------------------- _numerics, characterised *)
Definition keep (kb : bool) (v : pyval) : bool :=
  match v with VInt _ | VFloat _ => true | VBool _ => kb | _ => false end.

Definition numerics_of (kb : bool) (cells : list pyval) : pyval :=
  match first_error cells with
  | Some e => e
  | None => VTuple (filter (keep kb) cells)
  end.

Lemma numerics_cells kb a cells :
  py_flatten a = Ok (VList cells) -> scalars cells ->
  aggregates.f__numerics (VBool kb) a = Ok (numerics_of kb cells).
Proof.
  intros Hf Hs. unfold aggregates.f__numerics.
  cbn [bind lift1]. rewrite Hf. cbn [bind lift1 py_tuple py_iter].
  erewrite gen_next_find with (p := is_err); cycle 1.
  - intros x Hx. cbn [bind]. apply py_in_codes.
    unfold scalars in Hs. rewrite Forall_forall in Hs. apply Hs, Hx.
  - reflexivity.
  - unfold numerics_of, first_error. destruct (find is_err cells) as [e|] eqn:E.
    + apply find_some in E. destruct E as [_ E]. apply is_err_str in E.
      destruct E as [s ->]. reflexivity.
    + cbn [bind b_not negb].
      erewrite genexp_filter with (p := fun v => kb || negb (py_isinstance v [TBool])); cycle 1.
      * intros x. cbn [cond_of bind b_or b_not py_truthy]. destruct kb; reflexivity.
      * intros x. reflexivity.
      * cbn [bind lift1 py_tuple py_iter].
        erewrite genexp_filter with (p := fun v => py_isinstance v [TInt; TFloat]); cycle 1.
        -- intros x. reflexivity.
        -- intros x. reflexivity.
        -- cbn [bind lift1 py_tuple py_iter]. rewrite filter_filter. f_equal. f_equal.
           apply filter_ext_in'. intros x _. destruct x, kb; reflexivity.
Qed.

Lemma keep_false_numeric l : filter (keep false) l = nums l.
Proof. apply filter_ext_in'. intros x _. destruct x; reflexivity. Qed.

Lemma flatten_args args : py_flatten (VTuple args) = Ok (VList (cells_of args)).
Proof. reflexivity. Qed.

Lemma cells_app a b : cells_of (a ++ b) = cells_of a ++ cells_of b.
Proof.
  unfold cells_of. cbn [flatten]. induction a as [|x a IH]; [reflexivity|].
  cbn [app]. rewrite IH. rewrite app_assoc. reflexivity.
Qed.

Lemma first_error_str l e : first_error l = Some e -> exists s, e = VStr s.
Proof. intros E. apply find_some in E. apply is_err_str, E. Qed.

(* the common prologue of sum_/average/max_/min_:
   data = _numerics( *args ); if isinstance(data, str): return data *)
Lemma numerics_args args : scalars (cells_of args) ->
  aggregates.f__numerics (VBool false) (VTuple args)
  = Ok (match first_error (cells_of args) with
        | Some e => e | None => VTuple (nums (cells_of args)) end).
Proof.
  intros Hs. rewrite (numerics_cells false _ _ (flatten_args args) Hs).
  unfold numerics_of. rewrite keep_false_numeric. reflexivity.
Qed.

Lemma sum_cells args : scalars (cells_of args) ->
  aggregates.f_sum_ (VTuple args)
  = match first_error (cells_of args) with
    | Some e => Ok e
    | None => py_sum_list (nums (cells_of args)) (VInt 0)
    end.
Proof.
  intros Hs. unfold aggregates.f_sum_. cbn [bind lift1 py_tuple py_iter].
  rewrite (numerics_args args Hs).
  destruct (first_error (cells_of args)) as [e|] eqn:E.
  - destruct (first_error_str _ _ E) as [s ->]. reflexivity.
  - reflexivity.
Qed.

Lemma average_cells args : scalars (cells_of args) ->
  stats.f_average (VTuple args)
  = match first_error (cells_of args) with
    | Some e => Ok e
    | None =>
        match nums (cells_of args) with
        | [] => Ok excelutil.c_DIV0
        | _ :: _ => bind (py_sum_list (nums (cells_of args)) (VInt 0))
                      (fun s => py_truediv s (VInt (zlen (nums (cells_of args)))))
        end
    end.
Proof.
  intros Hs. unfold stats.f_average. cbn [bind lift1 py_tuple py_iter].
  rewrite (numerics_args args Hs).
  destruct (first_error (cells_of args)) as [e|] eqn:E.
  - destruct (first_error_str _ _ E) as [s ->]. reflexivity.
  - cbn [bind lift1 lift2 py_isinstance existsb has_ty orb py_len].
    destruct (nums (cells_of args)) as [|x l] eqn:N.
    + reflexivity.
    + replace (py_eq (VInt (zlen (x :: l))) (VInt 0)) with false.
      * cbn [py_sum bind py_iter]. reflexivity.
      * symmetry. cbn [py_eq as_num]. apply Z.eqb_neq. unfold zlen. cbn [length]. lia.
Qed.

Lemma count_cells args : scalars (cells_of args) ->
  stats.f_count (VTuple args) = Ok (VInt (zlen (nums (cells_of args)))).
Proof.
  intros Hs. unfold stats.f_count. cbn [bind lift1]. rewrite flatten_args.
  cbn [bind lift1 py_iter].
  erewrite genexp_const with (p := numeric) (c := VInt 1); cycle 1.
  - intros x. destruct x; reflexivity.
  - intros x. reflexivity.
  - cbn [bind lift1 py_sum py_iter]. unfold nums.
    generalize (filter numeric (cells_of args)). intros l.
    assert (G : forall z, py_sum_list (map (fun _ => VInt 1) l) (VInt z) = Ok (VInt (z + zlen l))).
    { induction l as [|y l IH]; intros z.
      - cbn [map py_sum_list]. unfold zlen. cbn [length]. f_equal. f_equal. lia.
      - cbn [map py_sum_list py_add arith as_num bind]. rewrite IH. f_equal. f_equal.
        unfold zlen. cbn [length]. lia. }
    rewrite G. reflexivity.
Qed.

Lemma max_cells args : scalars (cells_of args) ->
  stats.f_max_ (VTuple args)
  = match first_error (cells_of args) with
    | Some e => Ok e
    | None => match nums (cells_of args) with
              | [] => Ok (VInt 0)
              | _ :: _ => py_max_list (nums (cells_of args))
              end
    end.
Proof.
  intros Hs. unfold stats.f_max_. cbn [bind lift1 py_tuple py_iter].
  rewrite (numerics_args args Hs).
  destruct (first_error (cells_of args)) as [e|] eqn:E.
  - destruct (first_error_str _ _ E) as [s ->]. reflexivity.
  - cbn [bind lift1 lift2 py_isinstance existsb has_ty orb py_len].
    destruct (nums (cells_of args)) as [|x l] eqn:N.
    + reflexivity.
    + cbn [py_lt scalar_lt as_num bind].
      replace (zlen (x :: l) <? 1) with false.
      * cbn [bind py_iter]. reflexivity.
      * symmetry. apply Z.ltb_ge. unfold zlen. cbn [length]. lia.
Qed.

Lemma min_cells args : scalars (cells_of args) ->
  stats.f_min_ (VTuple args)
  = match first_error (cells_of args) with
    | Some e => Ok e
    | None => match nums (cells_of args) with
              | [] => Ok (VInt 0)
              | _ :: _ => py_min_list (nums (cells_of args))
              end
    end.
Proof.
  intros Hs. unfold stats.f_min_. cbn [bind lift1 py_tuple py_iter].
  rewrite (numerics_args args Hs).
  destruct (first_error (cells_of args)) as [e|] eqn:E.
  - destruct (first_error_str _ _ E) as [s ->]. reflexivity.
  - cbn [bind lift1 lift2 py_isinstance existsb has_ty orb py_len].
    destruct (nums (cells_of args)) as [|x l] eqn:N.
    + reflexivity.
    + cbn [py_lt scalar_lt as_num bind].
      replace (zlen (x :: l) <? 1) with false.
      * cbn [bind py_iter]. reflexivity.
      * symmetry. apply Z.ltb_ge. unfold zlen. cbn [length]. lia.
Qed.

(* ------------------------------------------------------ exact numbers *)
Lemma nums_numeric l : Forall (fun v => numeric v = true) (nums l).
Proof. apply Forall_forall. intros x Hx. apply filter_In in Hx. apply Hx. Qed.

Lemma py_add_num a b : numeric a = true -> numeric b = true ->
  exists r, py_add a b = Ok r /\ numeric r = true /\ (qv r == qv a + qv b)%Q.
Proof.
  destruct a, b; intros Ha Hb; try discriminate;
    cbn [py_add arith as_num num_q mkfloat]; eexists; (split; [reflexivity|]); (split; [reflexivity|]);
    unfold qv; cbn [as_num num_q].
  - rewrite inject_Z_plus. reflexivity.
  - apply Qred_correct.
  - apply Qred_correct.
  - apply Qred_correct.
Qed.

Lemma sum_q_nil : sum_q [] = 0%Q.
Proof. reflexivity. Qed.
Lemma sum_q_cons x l : sum_q (x :: l) = (qv x + sum_q l)%Q.
Proof. reflexivity. Qed.

Lemma sum_list_num l : forall acc, Forall (fun v => numeric v = true) l -> numeric acc = true ->
  exists r, py_sum_list l acc = Ok r /\ numeric r = true /\ (qv r == qv acc + sum_q l)%Q.
Proof.
  induction l as [|x l IH]; intros acc Hl Ha.
  - exists acc. cbn [py_sum_list]. rewrite sum_q_nil. repeat split; [exact Ha|ring].
  - inversion Hl as [|? ? Hx Hl']; subst.
    destruct (py_add_num acc x Ha Hx) as (r & E & Hr & Q).
    destruct (IH r Hl' Hr) as (r' & E' & Hr' & Q').
    exists r'. cbn [py_sum_list]. rewrite E. cbn [bind]. rewrite E'.
    repeat split; [exact Hr'|]. rewrite Q', Q, sum_q_cons. ring.
Qed.

Lemma sum_q_app a b : (sum_q (a ++ b) == sum_q a + sum_q b)%Q.
Proof.
  induction a as [|x a IH]; cbn [app].
  - rewrite sum_q_nil. ring.
  - rewrite !sum_q_cons, IH. ring.
Qed.

Lemma sum_q_perm a b : Permutation a b -> (sum_q a == sum_q b)%Q.
Proof.
  induction 1.
  - reflexivity.
  - rewrite !sum_q_cons, IHPermutation. reflexivity.
  - rewrite !sum_q_cons. ring.
  - etransitivity; eassumption.
Qed.

Lemma nums_perm a b : Permutation a b -> Permutation (nums a) (nums b).
Proof.
  unfold nums. induction 1; cbn [filter].
  - constructor.
  - destruct (numeric x); [constructor|]; assumption.
  - destruct (numeric x), (numeric y); try reflexivity. constructor.
  - etransitivity; eassumption.
Qed.

Lemma nums_app a b : nums (a ++ b) = nums a ++ nums b.
Proof. apply filter_app. Qed.

(* ordering of numeric cells *)
Lemma py_lt_num a b : numeric a = true -> numeric b = true ->
  exists c, py_lt a b = Ok c /\ (c = true <-> (qv a < qv b)%Q).
Proof.
  destruct a, b; intros Ha Hb; try discriminate;
    cbn [py_lt scalar_lt as_num num_q]; eexists; (split; [reflexivity|]);
    unfold qv; cbn [as_num num_q].
  - rewrite Z.ltb_lt, Zlt_Qlt. reflexivity.
  - unfold q_ltb. rewrite Qlt_alt. destruct (Qcompare _ _); split; congruence.
  - unfold q_ltb. rewrite Qlt_alt. destruct (Qcompare _ _); split; congruence.
  - unfold q_ltb. rewrite Qlt_alt. destruct (Qcompare _ _); split; congruence.
Qed.

Lemma fold_max_num l : forall acc, Forall (fun v => numeric v = true) l -> numeric acc = true ->
  exists m, fold_minmax py_gt l acc = Ok m /\ In m (acc :: l)
            /\ forall x, In x (acc :: l) -> (qv x <= qv m)%Q.
Proof.
  induction l as [|x l IH]; intros acc Hl Ha.
  - exists acc. cbn [fold_minmax]. repeat split; [left; reflexivity|].
    intros y [<-|[]]. apply Qle_refl.
  - inversion Hl as [|? ? Hx Hl']; subst.
    destruct (py_lt_num acc x Ha Hx) as (c & E & Hc).
    cbn [fold_minmax]. unfold py_gt. rewrite E. cbn [bind].
    destruct c.
    + destruct (IH x Hl' Hx) as (m & Em & Im & Bm).
      exists m. split; [exact Em|]. split; [right; exact Im|].
      intros y [<-|Hy].
      * apply Qle_trans with (qv x); [apply Qlt_le_weak, Hc; reflexivity|].
        apply Bm. left; reflexivity.
      * apply Bm, Hy.
    + destruct (IH acc Hl' Ha) as (m & Em & Im & Bm).
      exists m. split; [exact Em|]. split.
      * destruct Im as [<-|Im]; [left; reflexivity|right; right; exact Im].
      * intros y [<-|[<-|Hy]].
        -- apply Bm. left; reflexivity.
        -- apply Qle_trans with (qv acc); [|apply Bm; left; reflexivity].
           apply Qnot_lt_le. intros C. apply Hc in C. discriminate.
        -- apply Bm. right; exact Hy.
Qed.

Lemma fold_min_num l : forall acc, Forall (fun v => numeric v = true) l -> numeric acc = true ->
  exists m, fold_minmax py_lt l acc = Ok m /\ In m (acc :: l)
            /\ forall x, In x (acc :: l) -> (qv m <= qv x)%Q.
Proof.
  induction l as [|x l IH]; intros acc Hl Ha.
  - exists acc. cbn [fold_minmax]. repeat split; [left; reflexivity|].
    intros y [<-|[]]. apply Qle_refl.
  - inversion Hl as [|? ? Hx Hl']; subst.
    destruct (py_lt_num x acc Hx Ha) as (c & E & Hc).
    cbn [fold_minmax]. rewrite E. cbn [bind].
    destruct c.
    + destruct (IH x Hl' Hx) as (m & Em & Im & Bm).
      exists m. split; [exact Em|]. split; [right; exact Im|].
      intros y [<-|Hy].
      * apply Qle_trans with (qv x); [apply Bm; left; reflexivity|].
        apply Qlt_le_weak, Hc; reflexivity.
      * apply Bm, Hy.
    + destruct (IH acc Hl' Ha) as (m & Em & Im & Bm).
      exists m. split; [exact Em|]. split.
      * destruct Im as [<-|Im]; [left; reflexivity|right; right; exact Im].
      * intros y [<-|[<-|Hy]].
        -- apply Bm. left; reflexivity.
        -- apply Qle_trans with (qv acc); [apply Bm; left; reflexivity|].
           apply Qnot_lt_le. intros C. apply Hc in C. discriminate.
        -- apply Bm. right; exact Hy.
Qed.

Lemma truediv_num s n : numeric s = true -> n <> 0 ->
  exists a, py_truediv s (VInt n) = Ok a /\ numeric a = true
            /\ (qv a == qv s / inject_Z n)%Q.
Proof.
  intros Hs Hn. destruct s; try discriminate; cbn [py_truediv as_num num_q];
    unfold q_is_zero; cbn [inject_Z Qnum];
    (replace (n =? 0) with false by (symmetry; apply Z.eqb_neq; exact Hn));
    eexists; (split; [reflexivity|]); (split; [reflexivity|]);
    unfold qv, mkfloat; cbn [as_num num_q]; apply Qred_correct.
Qed.

(* ============================================================ theorems *)
Definition sum_ (args : list pyval) := aggregates.f_sum_ (VTuple args).
Definition average (args : list pyval) := stats.f_average (VTuple args).
Definition count (args : list pyval) := stats.f_count (VTuple args).
Definition max_ (args : list pyval) := stats.f_max_ (VTuple args).
Definition min_ (args : list pyval) := stats.f_min_ (VTuple args).

Lemma zlen_pos {A} (x : A) l : zlen (x :: l) <> 0.
Proof. unfold zlen. cbn [length]. lia. Qed.

(* --- numeric_only: without an error cell every aggregate is the mathematical
   aggregate of the sub-list of numeric cells (VInt / VFloat): blanks,
   logicals, text and numeric text do not take part *)
Lemma numeric_only args :
  scalars (cells_of args) -> first_error (cells_of args) = None ->
  let ns := nums (cells_of args) in
  (exists s, sum_ args = Ok s /\ numeric s = true /\ (qv s == sum_q ns)%Q)
  /\ count args = Ok (VInt (zlen ns))
  /\ (ns <> [] -> exists a, average args = Ok a /\ numeric a = true
                            /\ (qv a == sum_q ns / inject_Z (zlen ns))%Q)
  /\ (ns <> [] -> exists m, max_ args = Ok m /\ In m ns
                            /\ forall x, In x ns -> (qv x <= qv m)%Q)
  /\ (ns <> [] -> exists m, min_ args = Ok m /\ In m ns
                            /\ forall x, In x ns -> (qv m <= qv x)%Q).
Proof.
  intros Hs He ns.
  destruct (sum_list_num ns (VInt 0) (nums_numeric _) eq_refl) as (s & Es & Ns & Qs).
  assert (Qs' : (qv s == sum_q ns)%Q).
  { rewrite Qs. unfold qv at 1. cbn [as_num num_q]. ring. }
  split; [|split; [|split; [|split]]].
  - exists s. unfold sum_. rewrite (sum_cells args Hs), He. fold ns. auto.
  - apply count_cells, Hs.
  - intros Hne. unfold average. rewrite (average_cells args Hs), He. fold ns.
    destruct ns as [|x l] eqn:N; [congruence|]. rewrite <- N in *.
    rewrite Es. cbn [bind].
    destruct (truediv_num s (zlen ns) Ns) as (a & Ea & Na & Qa).
    { rewrite N. apply zlen_pos. }
    exists a. rewrite Ea. repeat split; [exact Na|]. rewrite Qa, Qs'. reflexivity.
  - intros Hne. unfold max_. rewrite (max_cells args Hs), He. fold ns.
    destruct ns as [|x l] eqn:N; [congruence|].
    assert (Hl : Forall (fun v => numeric v = true) (x :: l)) by (rewrite <- N; apply nums_numeric).
    inversion Hl as [|? ? Hx Hl']; subst.
    cbn [py_max_list]. exact (fold_max_num l x Hl' Hx).
  - intros Hne. unfold min_. rewrite (min_cells args Hs), He. fold ns.
    destruct ns as [|x l] eqn:N; [congruence|].
    assert (Hl : Forall (fun v => numeric v = true) (x :: l)) by (rewrite <- N; apply nums_numeric).
    inversion Hl as [|? ? Hx Hl']; subst.
    cbn [py_min_list]. exact (fold_min_num l x Hl' Hx).
Qed.

(* the results depend on the cells only through the first error and the
   numeric sub-list: two argument lists that agree on both give the same
   results (inserting or changing blanks, logicals, text, numeric text
   anywhere changes nothing) *)
Lemma depends_only args args' :
  scalars (cells_of args) -> scalars (cells_of args') ->
  first_error (cells_of args) = first_error (cells_of args') ->
  nums (cells_of args) = nums (cells_of args') ->
  sum_ args = sum_ args' /\ average args = average args' /\ count args = count args'
  /\ max_ args = max_ args' /\ min_ args = min_ args'.
Proof.
  intros H H' E N. unfold sum_, average, count, max_, min_.
  rewrite (sum_cells _ H), (sum_cells _ H'), (average_cells _ H), (average_cells _ H'),
    (count_cells _ H), (count_cells _ H'), (max_cells _ H), (max_cells _ H'),
    (min_cells _ H), (min_cells _ H'), E, N. repeat split; reflexivity.
Qed.

(* --- first_error: the first error cell in row-major order of the arguments
   is the result of SUM, AVERAGE, MAX, MIN *)
Lemma first_error_at pre e post :
  is_err e = true -> Forall (fun v => is_err v = false) pre ->
  first_error (pre ++ e :: post) = Some e.
Proof.
  intros He Hp. unfold first_error. induction Hp as [|x pre Hx Hp IH].
  - cbn [app find]. rewrite He. reflexivity.
  - cbn [app find]. rewrite Hx. exact IH.
Qed.

Lemma first_error_thm args pre e post :
  scalars (cells_of args) -> cells_of args = pre ++ e :: post ->
  is_err e = true -> Forall (fun v => is_err v = false) pre ->
  sum_ args = Ok e /\ average args = Ok e /\ max_ args = Ok e /\ min_ args = Ok e.
Proof.
  intros Hs Hc He Hp. pose proof (first_error_at pre e post He Hp) as F.
  rewrite <- Hc in F. unfold sum_, average, max_, min_.
  rewrite (sum_cells _ Hs), (average_cells _ Hs), (max_cells _ Hs), (min_cells _ Hs), F.
  repeat split; reflexivity.
Qed.

(* the error codes the scan recognises *)
Lemma error_codes :
  Forall (fun c => is_err c = true)
    [excelutil.c_DIV0; excelutil.c_VALUE_ERROR; excelutil.c_NUM_ERROR; excelutil.c_NA_ERROR;
     excelutil.c_NAME_ERROR; excelutil.c_NULL_ERROR; excelutil.c_REF_ERROR].
Proof. repeat constructor. Qed.

(* COUNT never returns an error: it counts the numeric cells whatever else
   the range holds (the property's "first error" clause fails for COUNT:
   Refuted/C14_count_error.v) *)
Lemma count_thm args : scalars (cells_of args) ->
  count args = Ok (VInt (zlen (nums (cells_of args)))).
Proof. apply count_cells. Qed.

(* --- perm / reshape *)
Definition same_value (a b : res pyval) : Prop :=
  match a, b with
  | Ok x, Ok y => x = y \/ (numeric x = true /\ numeric y = true /\ (qv x == qv y)%Q)
  | _, _ => False
  end.

Lemma reshape args args' :
  scalars (cells_of args) -> cells_of args = cells_of args' ->
  sum_ args = sum_ args' /\ average args = average args' /\ count args = count args'
  /\ max_ args = max_ args' /\ min_ args = min_ args'.
Proof.
  intros H E. apply depends_only; try rewrite <- E; auto.
Qed.

Lemma zlen_perm {A} (a b : list A) : Permutation a b -> zlen a = zlen b.
Proof. intros P. unfold zlen. rewrite (Permutation_length P). reflexivity. Qed.

Lemma perm args args' :
  scalars (cells_of args) -> Permutation (cells_of args) (cells_of args') ->
  first_error (cells_of args) = first_error (cells_of args') ->
  same_value (sum_ args) (sum_ args') /\ same_value (average args) (average args')
  /\ same_value (count args) (count args')
  /\ same_value (max_ args) (max_ args') /\ same_value (min_ args) (min_ args').
Proof.
  intros Hs P E.
  assert (Hs' : scalars (cells_of args')).
  { unfold scalars in *. rewrite Forall_forall in *. intros x Hx. apply Hs.
    apply Permutation_in with (cells_of args'); [symmetry; exact P|exact Hx]. }
  pose proof (nums_perm _ _ P) as PN.
  assert (C : same_value (count args) (count args')).
  { unfold count. rewrite (count_cells _ Hs), (count_cells _ Hs'), (zlen_perm _ _ PN).
    left; reflexivity. }
  destruct (first_error (cells_of args)) as [e|] eqn:F.
  - (* the same first error on both sides *)
    unfold sum_, average, max_, min_.
    rewrite (sum_cells _ Hs), (sum_cells _ Hs'), (average_cells _ Hs), (average_cells _ Hs'),
      (max_cells _ Hs), (max_cells _ Hs'), (min_cells _ Hs), (min_cells _ Hs'), <- E, F.
    cbn [same_value]. repeat split; auto.
  - symmetry in E.
    destruct (numeric_only args Hs F) as ((s & Es & Ns & Qs) & _ & A & MX & MN).
    destruct (numeric_only args' Hs' E) as ((s' & Es' & Ns' & Qs') & _ & A' & MX' & MN').
    cbv zeta in *.
    assert (NE : nums (cells_of args) = [] <-> nums (cells_of args') = []).
    { split; intros Z; [apply Permutation_nil; rewrite <- Z; exact PN
                       |apply Permutation_nil; rewrite <- Z; symmetry; exact PN]. }
    split; [|split; [|split; [exact C|split]]].
    + rewrite Es, Es'. right. repeat split; auto. rewrite Qs, Qs'. apply sum_q_perm, PN.
    + destruct (nums (cells_of args)) as [|x l] eqn:N.
      * assert (N' : nums (cells_of args') = []) by (apply NE; reflexivity).
        unfold average. rewrite (average_cells _ Hs), (average_cells _ Hs'), F, E, N, N'.
        left; reflexivity.
      * assert (N' : nums (cells_of args') <> []).
        { intros Z. apply NE in Z. discriminate. }
        destruct (A ltac:(discriminate)) as (a & Ea & Na & Qa).
        destruct (A' N') as (a' & Ea' & Na' & Qa').
        rewrite Ea, Ea'. right. repeat split; auto.
        rewrite Qa, Qa', (zlen_perm _ _ PN), (sum_q_perm _ _ PN). reflexivity.
    + destruct (nums (cells_of args)) as [|x l] eqn:N.
      * assert (N' : nums (cells_of args') = []) by (apply NE; reflexivity).
        unfold max_. rewrite (max_cells _ Hs), (max_cells _ Hs'), F, E, N, N'. left; reflexivity.
      * assert (N' : nums (cells_of args') <> []).
        { intros Z. apply NE in Z. discriminate. }
        destruct (MX ltac:(discriminate)) as (m & Em & Im & Bm).
        destruct (MX' N') as (m' & Em' & Im' & Bm').
        rewrite Em, Em'. right.
        assert (Nm : numeric m = true).
        { pose proof (nums_numeric (cells_of args)) as G. rewrite N in G.
          rewrite Forall_forall in G. apply G, Im. }
        assert (Nm' : numeric m' = true).
        { pose proof (nums_numeric (cells_of args')) as G.
          rewrite Forall_forall in G. apply G, Im'. }
        repeat split; auto. apply Qle_antisym.
        -- apply Bm'. apply Permutation_in with (x :: l); [exact PN|exact Im].
        -- apply Bm. apply Permutation_in with (nums (cells_of args')); [symmetry; exact PN|exact Im'].
    + destruct (nums (cells_of args)) as [|x l] eqn:N.
      * assert (N' : nums (cells_of args') = []) by (apply NE; reflexivity).
        unfold min_. rewrite (min_cells _ Hs), (min_cells _ Hs'), F, E, N, N'. left; reflexivity.
      * assert (N' : nums (cells_of args') <> []).
        { intros Z. apply NE in Z. discriminate. }
        destruct (MN ltac:(discriminate)) as (m & Em & Im & Bm).
        destruct (MN' N') as (m' & Em' & Im' & Bm').
        rewrite Em, Em'. right.
        assert (Nm : numeric m = true).
        { pose proof (nums_numeric (cells_of args)) as G. rewrite N in G.
          rewrite Forall_forall in G. apply G, Im. }
        assert (Nm' : numeric m' = true).
        { pose proof (nums_numeric (cells_of args')) as G.
          rewrite Forall_forall in G. apply G, Im'. }
        repeat split; auto. apply Qle_antisym.
        -- apply Bm. apply Permutation_in with (nums (cells_of args')); [symmetry; exact PN|exact Im'].
        -- apply Bm'. apply Permutation_in with (x :: l); [exact PN|exact Im].
Qed.

(* --- additive: SUM over the concatenation of two argument lists (a partition
   of the cells into two groups of ranges) is the sum of the two SUMs *)
Lemma first_error_app_none a b :
  first_error (a ++ b) = None -> first_error a = None /\ first_error b = None.
Proof.
  unfold first_error. induction a as [|x a IH]; cbn [app find]; intros H.
  - auto.
  - destruct (is_err x); [discriminate|]. apply IH, H.
Qed.

Lemma scalars_app a b : scalars (a ++ b) -> scalars a /\ scalars b.
Proof. unfold scalars. apply Forall_app. Qed.

Lemma additive a1 a2 :
  scalars (cells_of (a1 ++ a2)) -> first_error (cells_of (a1 ++ a2)) = None ->
  exists s1 s2 s, sum_ a1 = Ok s1 /\ sum_ a2 = Ok s2 /\ sum_ (a1 ++ a2) = Ok s
                  /\ numeric s1 = true /\ numeric s2 = true /\ numeric s = true
                  /\ (qv s == qv s1 + qv s2)%Q.
Proof.
  intros Hs He. pose proof Hs as Hs0. pose proof He as He0.
  rewrite cells_app in Hs, He.
  destruct (scalars_app _ _ Hs) as [H1 H2].
  destruct (first_error_app_none _ _ He) as [E1 E2].
  destruct (numeric_only a1 H1 E1) as ((s1 & Es1 & N1 & Q1) & _).
  destruct (numeric_only a2 H2 E2) as ((s2 & Es2 & N2 & Q2) & _).
  destruct (numeric_only (a1 ++ a2) Hs0 He0) as ((s & Es & N & Q) & _).
  exists s1, s2, s. repeat split; auto.
  rewrite Q, Q1, Q2, cells_app, nums_app. apply sum_q_app.
Qed.

(* --- average: AVERAGE = SUM / COUNT, and #DIV/0! exactly when no cell is numeric *)
Lemma average_thm args :
  scalars (cells_of args) -> first_error (cells_of args) = None ->
  (nums (cells_of args) = [] -> average args = Ok excelutil.c_DIV0)
  /\ (nums (cells_of args) <> [] ->
      exists s n a, sum_ args = Ok s /\ count args = Ok (VInt n) /\ 0 < n
                    /\ average args = Ok a /\ numeric a = true
                    /\ (qv a == qv s / inject_Z n)%Q)
  /\ (average args = Ok excelutil.c_DIV0 <-> nums (cells_of args) = []).
Proof.
  intros Hs He.
  destruct (numeric_only args Hs He) as ((s & Es & Ns & Qs) & Ec & A & _). cbv zeta in *.
  assert (D : nums (cells_of args) = [] -> average args = Ok excelutil.c_DIV0).
  { intros N. unfold average. rewrite (average_cells _ Hs), He, N. reflexivity. }
  split; [exact D|]. split.
  - intros N. destruct (A N) as (a & Ea & Na & Qa).
    exists s, (zlen (nums (cells_of args))), a. repeat split; auto.
    + destruct (nums (cells_of args)); [congruence|]. unfold zlen. cbn [length]. lia.
    + rewrite Qa, Qs. reflexivity.
  - split; [|exact D]. intros Ed.
    destruct (nums (cells_of args)) as [|x l] eqn:N; [reflexivity|].
    destruct (A ltac:(discriminate)) as (a & Ea & Na & _).
    rewrite Ea in Ed. inversion Ed; subst. discriminate.
Qed.

(* --- minmax_empty: MIN = MAX = 0 when no cell is numeric (the attained /
   bounding half is part of numeric_only) *)
Lemma minmax_empty args :
  scalars (cells_of args) -> first_error (cells_of args) = None ->
  nums (cells_of args) = [] -> max_ args = Ok (VInt 0) /\ min_ args = Ok (VInt 0).
Proof.
  intros Hs He N. unfold max_, min_.
  rewrite (max_cells _ Hs), (min_cells _ Hs), He, N. split; reflexivity.
Qed.

Lemma minmax_attained args :
  scalars (cells_of args) -> first_error (cells_of args) = None ->
  nums (cells_of args) <> [] ->
  (exists m, max_ args = Ok m /\ In m (nums (cells_of args))
             /\ forall x, In x (nums (cells_of args)) -> (qv x <= qv m)%Q)
  /\ (exists m, min_ args = Ok m /\ In m (nums (cells_of args))
             /\ forall x, In x (nums (cells_of args)) -> (qv m <= qv x)%Q).
Proof.
  intros Hs He N. destruct (numeric_only args Hs He) as (_ & _ & _ & MX & MN).
  split; [apply MX, N|apply MN, N].
Qed.

(* non-vacuity: a 2 x 2 range [1, "3"; TRUE, 2.5] and a blank *)
Example ex_sum :
  sum_ [VTuple [VTuple [VInt 1; VStr [51]]; VTuple [VBool true; VFloat (5 # 2)]]; VNone]
  = Ok (VFloat (7 # 2)).
Proof. vm_compute. reflexivity. Qed.
Example ex_avg_div0 : average [VTuple [VTuple [VStr [51]; VBool true; VNone]]] = Ok excelutil.c_DIV0.
Proof. vm_compute. reflexivity. Qed.
Example ex_first_error :
  max_ [VTuple [VTuple [VInt 1; excelutil.c_NA_ERROR]; VTuple [excelutil.c_DIV0; VInt 2]]]
  = Ok excelutil.c_NA_ERROR.
Proof. vm_compute. reflexivity. Qed.

(* ------------------------------------------------------------- SUBTOTAL *)
(* the text of a literal function number, as FunctionNode emits it *)
Definition lit (s : list Z) : pyval := VStr s.

(* SUBTOTAL(n, ...) and SUBTOTAL(100+n, ...) are the aggregate the generated
   table names, for the five aggregates of this property *)
Lemma subtotal_thm : forall v_args,
  (subtotal (lit [49]) v_args = stats.f_average v_args            (* 1 *)
   /\ subtotal (lit [49; 48; 49]) v_args = stats.f_average v_args)   (* 101 *)
  /\ (subtotal (lit [50]) v_args = stats.f_count v_args
      /\ subtotal (lit [49; 48; 50]) v_args = stats.f_count v_args)
  /\ (subtotal (lit [52]) v_args = stats.f_max_ v_args
      /\ subtotal (lit [49; 48; 52]) v_args = stats.f_max_ v_args)
  /\ (subtotal (lit [53]) v_args = stats.f_min_ v_args
      /\ subtotal (lit [49; 48; 53]) v_args = stats.f_min_ v_args)
  /\ (subtotal (lit [57]) v_args = aggregates.f_sum_ v_args
      /\ subtotal (lit [49; 48; 57]) v_args = aggregates.f_sum_ v_args).
Proof.
  intros v_args. unfold subtotal, lit.
  replace (subtotal_name (VStr [49])) with (Ok (VStr [97; 118; 101; 114; 97; 103; 101]))
    by (vm_compute; reflexivity).
  replace (subtotal_name (VStr [49; 48; 49])) with (Ok (VStr [97; 118; 101; 114; 97; 103; 101]))
    by (vm_compute; reflexivity).
  replace (subtotal_name (VStr [50])) with (Ok (VStr [99; 111; 117; 110; 116]))
    by (vm_compute; reflexivity).
  replace (subtotal_name (VStr [49; 48; 50])) with (Ok (VStr [99; 111; 117; 110; 116]))
    by (vm_compute; reflexivity).
  replace (subtotal_name (VStr [52])) with (Ok (VStr [109; 97; 120; 95]))
    by (vm_compute; reflexivity).
  replace (subtotal_name (VStr [49; 48; 52])) with (Ok (VStr [109; 97; 120; 95]))
    by (vm_compute; reflexivity).
  replace (subtotal_name (VStr [53])) with (Ok (VStr [109; 105; 110; 95]))
    by (vm_compute; reflexivity).
  replace (subtotal_name (VStr [49; 48; 53])) with (Ok (VStr [109; 105; 110; 95]))
    by (vm_compute; reflexivity).
  replace (subtotal_name (VStr [57])) with (Ok (VStr [115; 117; 109; 95]))
    by (vm_compute; reflexivity).
  replace (subtotal_name (VStr [49; 48; 57])) with (Ok (VStr [115; 117; 109; 95]))
    by (vm_compute; reflexivity).
  cbn [bind named_aggregate]. repeat split; reflexivity.
Qed.

(* every other literal 0..120 either names one of the six functions outside
   this property or is rejected at compile time (ValueError) — finite domain *)
Definition subtotal_known (n : Z) : bool :=
  match subtotal_name (VStr (str_of_Z n)) with
  | Ok name => match named_aggregate name with Some _ => true | None => false end
  | Raise _ => false
  end.
Lemma subtotal_domain :
  filter subtotal_known (zrange 121 0) = [1; 2; 4; 5; 9; 101; 102; 104; 105; 109].
Proof. vm_compute. reflexivity. Qed.

(* ----------------------------------------------------------- SUMPRODUCT *)
(* a range: rows of cells *)
Definition arr (rows : list (list pyval)) : pyval := VTuple (map VTuple rows).
Definition shape (rows : list (list pyval)) : Z * Z :=
  (zlen rows, match rows with r0 :: _ => zlen r0 | [] => 0 end).
(* a rectangle of scalar cells with at least one row and one column *)
Definition rect_ok (rows : list (list pyval)) : Prop :=
  match rows with
  | [] => False
  | r0 :: _ => 1 <= zlen r0
               /\ Forall (fun row => zlen row = zlen r0 /\ scalars row) rows
  end.
(* the number a cell contributes: non-numbers count as 0 *)
Definition cellq (v : pyval) : Q := num_q (sp_cell v).
Definition cellsq (rows : list (list pyval)) : list Q := map cellq (concat rows).
Fixpoint zipq (a b : list Q) : list Q :=
  match a, b with
  | x :: a', y :: b' => (x * y)%Q :: zipq a' b'
  | _, _ => []
  end.
Definition sumq (l : list Q) : Q := fold_right Qplus 0%Q l.

Lemma cellq_numeric v : numeric v = true -> cellq v = qv v.
Proof. destruct v; intros H; try discriminate; reflexivity. Qed.
Lemma cellq_other v : numeric v = false -> cellq v = 0%Q.
Proof. destruct v; intros H; try discriminate; reflexivity. Qed.

Lemma flatten_tuple l : flatten (VTuple l) = flat_map flatten l.
Proof.
  cbn [flatten]. induction l as [|x l IH]; [reflexivity|].
  cbn [flat_map]. rewrite IH. reflexivity.
Qed.
Lemma flatten_scalar v : scalar v = true -> flatten v = [v].
Proof. destruct v; intros H; try discriminate; reflexivity. Qed.
Lemma flatten_row row : scalars row -> flatten (VTuple row) = row.
Proof.
  intros H. rewrite flatten_tuple. induction H as [|x l Hx Hl IH]; [reflexivity|].
  cbn [flat_map]. rewrite (flatten_scalar x Hx), IH. reflexivity.
Qed.
Lemma flatten_arr rows : Forall scalars rows -> flatten (arr rows) = concat rows.
Proof.
  intros H. unfold arr. rewrite flatten_tuple. induction H as [|r l Hr Hl IH]; [reflexivity|].
  cbn [map flat_map concat]. rewrite (flatten_row r Hr), IH. reflexivity.
Qed.

Lemma rect_rows rows : rect_ok rows -> Forall scalars rows.
Proof.
  destruct rows as [|r0 rest]; [intros []|]. intros [_ H].
  apply Forall_forall. intros row Hr. rewrite Forall_forall in H. apply (H row Hr).
Qed.

Lemma cells_arrays mats : Forall rect_ok mats ->
  cells_of (map arr mats) = concat (map (@concat pyval) mats).
Proof.
  intros H. unfold cells_of. rewrite flatten_tuple.
  induction H as [|m l Hm Hl IH]; [reflexivity|].
  cbn [map flat_map concat]. rewrite (flatten_arr m (rect_rows m Hm)), IH. reflexivity.
Qed.

Lemma scalars_concat (rows : list (list pyval)) : Forall scalars rows -> scalars (concat rows).
Proof.
  intros H. induction H as [|r l Hr Hl IH]; [constructor|].
  cbn [concat]. apply Forall_app. split; assumption.
Qed.

Lemma scalars_arrays mats : Forall rect_ok mats -> scalars (cells_of (map arr mats)).
Proof.
  intros H. rewrite (cells_arrays mats H).
  apply scalars_concat. apply Forall_forall. intros c Hc. apply in_map_iff in Hc.
  destruct Hc as (m & <- & Hm). apply scalars_concat, rect_rows.
  rewrite Forall_forall in H. apply H, Hm.
Qed.

Lemma is_array_arg_arr r0 rest :
  excelutil.f_is_array_arg (VTuple (VTuple r0 :: rest)) = Ok (VBool true).
Proof.
  unfold excelutil.f_is_array_arg, excelutil.f_is_address. py_run. reflexivity.
Qed.

Lemma sp_check_arrays b all mats : forall sizes, Forall rect_ok mats ->
  sp_check b all (map arr mats) sizes = Ok (inr (rev (map shape mats) ++ sizes)).
Proof.
  induction mats as [|m mats IH]; intros sizes H; [reflexivity|].
  inversion H as [|? ? Hm Hl]; subst.
  destruct m as [|r0 rest]; [destruct Hm|].
  cbn [map arr sp_check]. unfold arr at 1. cbn [map]. rewrite is_array_arg_arr. cbn [bind py_truthy].
  change (VTuple r0 :: map VTuple rest) with (map VTuple (r0 :: rest)).
  replace (zlen (map VTuple (r0 :: rest))) with (zlen (r0 :: rest))
    by (unfold zlen; rewrite map_length; reflexivity).
  fold (arr) in IH. rewrite (IH _ Hl). f_equal. f_equal.
  cbn [rev map shape]. rewrite <- app_assoc. reflexivity.
Qed.

Lemma sp_vector_arr rows : rect_ok rows ->
  sp_vector (arr rows) = Some (map sp_cell (concat rows)).
Proof.
  intros H. pose proof (rect_rows rows H) as Hr.
  destruct rows as [|r0 rest]; [destruct H|]. destruct H as [Hc H].
  unfold sp_vector. cbn [arr map].
  change (VTuple r0 :: map VTuple rest) with (map VTuple (r0 :: rest)).
  replace (1 <=? zlen r0) with true by (symmetry; apply Z.leb_le; exact Hc).
  replace (forallb (row_ok (zlen r0)) (map VTuple (r0 :: rest))) with true.
  - cbn [andb]. fold (arr (r0 :: rest)). rewrite (flatten_arr _ Hr). reflexivity.
  - symmetry. rewrite forallb_forall. intros x Hx. apply in_map_iff in Hx.
    destruct Hx as (row & <- & Hrow). rewrite Forall_forall in H.
    destruct (H row Hrow) as [L S]. cbn [row_ok]. rewrite L, Z.eqb_refl. cbn [andb].
    rewrite forallb_forall. intros v Hv. unfold scalars in S. rewrite Forall_forall in S.
    specialize (S v Hv). destruct v; try discriminate; reflexivity.
Qed.

Lemma sp_vectors_arrays mats : Forall rect_ok mats ->
  sp_vectors (map arr mats) = Some (map (fun m => map sp_cell (concat m)) mats).
Proof.
  intros H. induction H as [|m l Hm Hl IH]; [reflexivity|].
  cbn [map sp_vectors]. rewrite (sp_vector_arr m Hm), IH. reflexivity.
Qed.

Lemma is_err_truthy e : is_err e = true -> py_truthy e = true.
Proof.
  intros H. destruct (is_err_str e H) as [s ->]. destruct s; [|reflexivity].
  vm_compute in H. discriminate.
Qed.

Lemma sumproduct_scan args : scalars (cells_of args) ->
  sumproduct (VTuple args)
  = match first_error (cells_of args) with
    | Some e => Ok e
    | None =>
        bind (sp_check (forallb not_tuple args) args args [])
          (fun chk => match chk with
             | inl v => Ok v
             | inr sizes =>
                 match sizes with
                 | s0 :: ss =>
                     if forallb (size_eqb s0) ss then
                       match sp_vectors args with
                       | Some vecs => Ok (num_val (sp_value vecs))
                       | None => Raise Unmodelled
                       end
                     else Ok excelutil.c_VALUE_ERROR
                 | [] => Ok excelutil.c_VALUE_ERROR
                 end
             end)
    end.
Proof.
  intros Hs. unfold sumproduct. fold (cells_of args).
  erewrite gen_next_find with (p := is_err); cycle 1.
  - intros x Hx. apply py_in_codes. unfold scalars in Hs. rewrite Forall_forall in Hs. apply Hs, Hx.
  - reflexivity.
  - fold (first_error (cells_of args)). cbn [bind].
    destruct (first_error (cells_of args)) as [e|] eqn:E.
    + apply find_some in E. destruct E as [_ E]. rewrite (is_err_truthy e E). reflexivity.
    + reflexivity.
Qed.

Lemma sumproduct_first_error args pre e post :
  scalars (cells_of args) -> cells_of args = pre ++ e :: post ->
  is_err e = true -> Forall (fun v => is_err v = false) pre ->
  sumproduct (VTuple args) = Ok e.
Proof.
  intros Hs Hc He Hp. rewrite (sumproduct_scan args Hs), Hc, (first_error_at pre e post He Hp).
  reflexivity.
Qed.

Lemma size_eqb_eq a b : size_eqb a b = true <-> a = b.
Proof.
  destruct a as [a1 a2], b as [b1 b2]. unfold size_eqb. cbn [fst snd].
  rewrite andb_true_iff, !Z.eqb_eq. split; [intros [-> ->]; reflexivity|intros E; inversion E; auto].
Qed.

Lemma sumproduct_arrays m0 ms :
  Forall rect_ok (m0 :: ms) -> (forall m, In m ms -> shape m = shape m0) ->
  first_error (cells_of (map arr (m0 :: ms))) = None ->
  sumproduct (VTuple (map arr (m0 :: ms)))
  = Ok (num_val (sp_value (map (fun m => map sp_cell (concat m)) (m0 :: ms)))).
Proof.
  intros H S E. rewrite (sumproduct_scan _ (scalars_arrays _ H)), E.
  rewrite (sp_check_arrays _ _ _ [] H). cbn [bind]. rewrite app_nil_r.
  assert (A : forall s, In s (rev (map shape (m0 :: ms))) -> s = shape m0).
  { intros s Hs. apply in_rev in Hs. apply in_map_iff in Hs. destruct Hs as (m & <- & [<-|Hm]);
      [reflexivity|apply S, Hm]. }
  destruct (rev (map shape (m0 :: ms))) as [|s0 ss] eqn:R.
  - exfalso. apply (f_equal (@length _)) in R. rewrite rev_length, map_length in R. discriminate.
  - replace (forallb (size_eqb s0) ss) with true.
    + rewrite (sp_vectors_arrays _ H). reflexivity.
    + symmetry. rewrite forallb_forall. intros s Hs. apply size_eqb_eq.
      rewrite (A s0 (or_introl eq_refl)), (A s (or_intror Hs)). reflexivity.
Qed.

Lemma sumproduct_unequal mats m1 m2 :
  Forall rect_ok mats -> first_error (cells_of (map arr mats)) = None ->
  In m1 mats -> In m2 mats -> shape m1 <> shape m2 ->
  sumproduct (VTuple (map arr mats)) = Ok excelutil.c_VALUE_ERROR.
Proof.
  intros H E I1 I2 D. rewrite (sumproduct_scan _ (scalars_arrays _ H)), E.
  rewrite (sp_check_arrays _ _ _ [] H). cbn [bind]. rewrite app_nil_r.
  destruct (rev (map shape mats)) as [|s0 ss] eqn:R; [reflexivity|].
  destruct (forallb (size_eqb s0) ss) eqn:F; [|reflexivity].
  exfalso. apply D.
  assert (A : forall m, In m mats -> shape m = s0).
  { intros m Hm. assert (G : In (shape m) (s0 :: ss)).
    { rewrite <- R. apply -> in_rev. apply in_map, Hm. }
    destruct G as [G|G]; [symmetry; exact G|].
    rewrite forallb_forall in F. symmetry. apply size_eqb_eq, F, G. }
  rewrite (A m1 I1), (A m2 I2). reflexivity.
Qed.

(* the value: mixed int/float arithmetic of the model = exact rationals *)
Definition vq (v : list num) : list Q := map num_q v.
Definition qlist_eq (a b : list Q) : Prop := Forall2 Qeq a b.

Lemma num_mul_q a b : (num_q (num_mul a b) == num_q a * num_q b)%Q.
Proof.
  destruct a, b; cbn [num_mul num_q]; try apply Qred_correct.
  rewrite inject_Z_mult. reflexivity.
Qed.
Lemma num_add_q a b : (num_q (num_add a b) == num_q a + num_q b)%Q.
Proof.
  destruct a, b; cbn [num_add num_q]; try apply Qred_correct.
  rewrite inject_Z_plus. reflexivity.
Qed.

Lemma qlist_eq_refl a : qlist_eq a a.
Proof. induction a; constructor; [reflexivity|assumption]. Qed.
Lemma qlist_eq_trans a b c : qlist_eq a b -> qlist_eq b c -> qlist_eq a c.
Proof.
  intros H. revert c. induction H as [|x y a b Hxy Hab IH]; intros c Hc.
  - exact Hc.
  - inversion Hc as [|? z ? c' Hyz Hbc]; subst. constructor.
    + rewrite Hxy. exact Hyz.
    + apply IH, Hbc.
Qed.

Lemma zipq_proper a a' b b' : qlist_eq a a' -> qlist_eq b b' -> qlist_eq (zipq a b) (zipq a' b').
Proof.
  intros Ha. revert b b'. induction Ha as [|x x' a a' Hx Ha IH]; intros b b' Hb.
  - constructor.
  - destruct Hb as [|y y' b b' Hy Hb]; cbn [zipq]; constructor.
    + rewrite Hx, Hy. reflexivity.
    + apply IH, Hb.
Qed.

Lemma zip_mul_q a b : qlist_eq (vq (zip_mul a b)) (zipq (vq a) (vq b)).
Proof.
  revert b. induction a as [|x a IH]; intros b; [constructor|].
  destruct b as [|y b]; cbn [zip_mul vq map zipq]; constructor.
  - apply num_mul_q.
  - apply IH.
Qed.

Lemma fold_zip_q vs : forall v0 q0, qlist_eq (vq v0) q0 ->
  qlist_eq (vq (fold_left zip_mul vs v0)) (fold_left zipq (map vq vs) q0).
Proof.
  induction vs as [|v vs IH]; intros v0 q0 H; [exact H|].
  cbn [fold_left map]. apply IH.
  apply qlist_eq_trans with (zipq (vq v0) (vq v)); [apply zip_mul_q|].
  apply zipq_proper; [exact H|apply qlist_eq_refl].
Qed.

Lemma sumq_nil : sumq [] = 0%Q.
Proof. reflexivity. Qed.
Lemma sumq_cons x l : sumq (x :: l) = (x + sumq l)%Q.
Proof. reflexivity. Qed.
Lemma vq_cons x l : vq (x :: l) = num_q x :: vq l.
Proof. reflexivity. Qed.

Lemma sumq_proper a b : qlist_eq a b -> (sumq a == sumq b)%Q.
Proof.
  induction 1 as [|x y a b Hxy Hab IH]; [reflexivity|].
  rewrite !sumq_cons, Hxy, IH. reflexivity.
Qed.

Lemma fold_add_q l : forall acc,
  (num_q (fold_left num_add l acc) == num_q acc + sumq (vq l))%Q.
Proof.
  induction l as [|x l IH]; intros acc.
  - cbn [fold_left]. change (vq []) with (@nil Q). rewrite sumq_nil. ring.
  - cbn [fold_left]. rewrite IH, num_add_q, vq_cons, sumq_cons. ring.
Qed.

Lemma sp_value_q v0 vs :
  (num_q (sp_value (v0 :: vs)) == sumq (fold_left zipq (map vq vs) (vq v0)))%Q.
Proof.
  cbn [sp_value]. rewrite fold_add_q. cbn [num_q].
  rewrite (sumq_proper _ _ (fold_zip_q vs v0 (vq v0) (qlist_eq_refl _))). ring.
Qed.

Lemma num_val_numeric n : numeric (num_val n) = true /\ qv (num_val n) = num_q n.
Proof. destruct n; split; reflexivity. Qed.

Lemma vq_cells m : vq (map sp_cell (concat m)) = cellsq m.
Proof. unfold vq, cellsq, cellq. rewrite map_map. reflexivity. Qed.

(* --- sumproduct: equally shaped ranges without an error cell *)
Lemma sumproduct_thm m0 ms :
  Forall rect_ok (m0 :: ms) -> (forall m, In m ms -> shape m = shape m0) ->
  first_error (cells_of (map arr (m0 :: ms))) = None ->
  exists r, sumproduct (VTuple (map arr (m0 :: ms))) = Ok r /\ numeric r = true
            /\ (qv r == sumq (fold_left zipq (map cellsq ms) (cellsq m0)))%Q.
Proof.
  intros H S E. rewrite (sumproduct_arrays m0 ms H S E). cbn [map].
  eexists. split; [reflexivity|].
  destruct (num_val_numeric (sp_value (map sp_cell (concat m0)
              :: map (fun m => map sp_cell (concat m)) ms))) as [N Q].
  split; [exact N|]. rewrite Q, sp_value_q, map_map, vq_cells.
  apply sumq_proper. rewrite (map_ext _ cellsq); [apply qlist_eq_refl|].
  intros m. apply vq_cells.
Qed.

(* two ranges: the dot product; one range: the sum of its numeric cells *)
Lemma sumproduct_two a b :
  Forall rect_ok [a; b] -> shape b = shape a ->
  first_error (cells_of [arr a; arr b]) = None ->
  exists r, sumproduct (VTuple [arr a; arr b]) = Ok r /\ numeric r = true
            /\ (qv r == sumq (zipq (cellsq a) (cellsq b)))%Q.
Proof.
  intros H S E. apply (sumproduct_thm a [b] H); [|exact E].
  intros m [<-|[]]. exact S.
Qed.

Example ex_sumproduct :
  sumproduct (VTuple [arr [[VInt 1; VStr [97]]; [VFloat (5 # 2); VBool true]];
                      arr [[VInt 3; VInt 4]; [VInt 2; VInt 7]]]) = Ok (VFloat 8).
Proof. vm_compute. reflexivity. Qed.
Example ex_sumproduct_unequal :
  sumproduct (VTuple [arr [[VInt 1; VInt 2]]; arr [[VInt 1]; [VInt 2]]]) = Ok excelutil.c_VALUE_ERROR.
Proof. vm_compute. reflexivity. Qed.
