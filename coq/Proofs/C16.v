(* Proofs/C16.v — lookup functions: bisect_right, the linear scans of _match,
   VLOOKUP/HLOOKUP as INDEX at the position MATCH finds, transposition, bounds.
   Models: Gen/lookup.v (regenerated), Model/LookupCore.v (hand-written). *)
From Coq Require Import ZArith QArith List Bool Lia.
From PV Require Import Lib.Py Proofs.PyTac Model.Ops Proofs.C10 Model.LookupCore.
From PV Require Gen.excelutil Gen.lookup.
Import ListNotations.
Open Scope Z_scope.

(* ------------------------------------------------------------ bisect_right *)
Section Bisect.
  Variable lt : pyval -> res bool.      (* the test "x < cell" as executed *)
  Variable p : pyval -> bool.           (* its value *)
  Variable a : list pyval.

  Definition at_ (k : Z) : option pyval := nth_error a (Z.to_nat k).

  Lemma mid_bounds lo hi : lo < hi -> lo <= (lo + hi) / 2 < hi.
  Proof.
    intros H. split; [apply Z.div_le_lower_bound | apply Z.div_lt_upper_bound]; lia.
  Qed.

  Lemma at_some k : 0 <= k < zlen a -> exists c, at_ k = Some c.
  Proof.
    intros H. unfold at_. destruct (nth_error a (Z.to_nat k)) eqn:E; [eauto|].
    apply nth_error_None in E. unfold zlen in H. lia.
  Qed.

  (* CPython's loop finds the partition point of a monotone test; the fuel
     hi - lo + 1 given by [bisect_right] always suffices *)
  Lemma bisect_loop_spec : forall fuel lo hi,
    0 <= lo -> lo <= hi -> hi <= zlen a ->
    (Z.to_nat (hi - lo) < fuel)%nat ->
    (forall k c, lo <= k < hi -> at_ k = Some c -> lt c = Ok (p c)) ->
    (forall i j ci cj, lo <= i -> i <= j -> j < hi -> at_ i = Some ci -> at_ j = Some cj ->
                       p ci = true -> p cj = true) ->
    exists r, bisect_loop fuel lt a lo hi = Ok r /\ lo <= r <= hi
      /\ (forall k c, lo <= k < r -> at_ k = Some c -> p c = false)
      /\ (forall k c, r <= k < hi -> at_ k = Some c -> p c = true).
  Proof.
    induction fuel as [|f IH]; intros lo hi H0 Hle Hhi Hf Hlt Hmono; [lia|].
    cbn [bisect_loop]. destruct (Z.ltb_spec lo hi) as [Hlh|Hlh].
    - pose proof (mid_bounds lo hi Hlh) as Hm. set (mid := (lo + hi) / 2) in *.
      destruct (at_some mid) as (c & Hc); [lia|]. unfold at_ in Hc. rewrite Hc.
      rewrite (Hlt mid c) by (auto; lia). cbn [bind].
      destruct (p c) eqn:Ep.
      + destruct (IH lo mid) as (r & Hr & Hb & Hlo & Hup); try lia.
        * intros k c' Hk. apply Hlt. lia.
        * intros i j ci cj Hi Hij Hj. apply Hmono; lia.
        * exists r. split; [exact Hr|]. split; [lia|]. split; [exact Hlo|].
          intros k c' Hk Hc'. destruct (Z.ltb_spec k mid) as [Hkm|Hkm].
          -- apply (Hup k c'); [lia|exact Hc'].
          -- apply (Hmono mid k c c'); try lia; auto.
      + destruct (IH (mid + 1) hi) as (r & Hr & Hb & Hlo & Hup); try lia.
        * intros k c' Hk. apply Hlt. lia.
        * intros i j ci cj Hi Hij Hj. apply Hmono; lia.
        * exists r. split; [exact Hr|]. split; [lia|]. split; [|exact Hup].
          intros k c' Hk Hc'. destruct (Z.ltb_spec mid k) as [Hkm|Hkm].
          -- apply (Hlo k c'); [lia|exact Hc'].
          -- destruct (p c') eqn:Ep'; [|reflexivity].
             assert (p c = true) by (apply (Hmono k mid c' c); try lia; auto). congruence.
    - exists lo. split; [reflexivity|]. split; [lia|]. split; intros k c Hk; lia.
  Qed.

  Lemma bisect_right_spec lo hi :
    0 <= lo -> lo <= hi -> hi <= zlen a ->
    (forall k c, lo <= k < hi -> at_ k = Some c -> lt c = Ok (p c)) ->
    (forall i j ci cj, lo <= i -> i <= j -> j < hi -> at_ i = Some ci -> at_ j = Some cj ->
                       p ci = true -> p cj = true) ->
    exists r, bisect_right lt a lo hi = Ok r /\ lo <= r <= hi
      /\ (forall k c, lo <= k < r -> at_ k = Some c -> p c = false)
      /\ (forall k c, r <= k < hi -> at_ k = Some c -> p c = true).
  Proof. intros. unfold bisect_right. apply bisect_loop_spec; auto; lia. Qed.
End Bisect.

(* --------------------------------------------------------------- key order *)
(* keys that ExcelCmp builds from scalars: numbers type 0, text type 1,
   logicals type 2, error codes type 3 *)
Definition kwf (k : key) : Prop :=
  match snd k with
  | VInt _ | VFloat _ => fst k = 0
  | VBool _ => fst k = 2
  | VStr _ => fst k = 1 \/ fst k = 3
  | _ => False
  end.

Lemma kwf_class a b : kwf a -> kwf b -> fst a = fst b -> same_class (snd a) (snd b).
Proof.
  destruct a as [ta va], b as [tb vb]. unfold kwf. cbn [fst snd].
  destruct va, vb; cbn [same_class]; intros; try contradiction; try lia; exact I.
Qed.

Definition numeric (v : pyval) : Prop :=
  match v with VBool _ | VInt _ | VFloat _ => True | _ => False end.
Definition nq (v : pyval) : Q := match as_num v with Some n => num_q n | None => 0%Q end.

Lemma z_ltb_q x y : (x <? y) = q_ltb (inject_Z x) (inject_Z y).
Proof.
  unfold q_ltb, Qcompare, inject_Z. cbn [Qnum Qden]. rewrite !Z.mul_1_r. reflexivity.
Qed.
Lemma z_eqb_q x y : (x =? y) = q_eqb (inject_Z x) (inject_Z y).
Proof.
  unfold q_eqb, Qeq_bool, inject_Z, Zeq_bool. cbn [Qnum Qden]. rewrite !Z.mul_1_r.
  destruct (Z.eqb_spec x y) as [->|Hne].
  - rewrite Z.compare_refl. reflexivity.
  - destruct (Z.compare_spec x y); try reflexivity. contradiction.
Qed.
Lemma num_lt a b : numeric a -> numeric b -> py_lt a b = Ok (q_ltb (nq a) (nq b)).
Proof.
  destruct a, b; cbn [numeric]; try contradiction; intros _ _;
    cbn [py_lt scalar_lt as_num]; unfold nq; cbn [as_num num_q]; try reflexivity;
    rewrite z_ltb_q; reflexivity.
Qed.
Lemma num_eq a b : numeric a -> numeric b -> py_eq a b = q_eqb (nq a) (nq b).
Proof.
  destruct a, b; cbn [numeric]; try contradiction; intros _ _;
    cbn [py_eq as_num]; unfold nq; cbn [as_num num_q]; try reflexivity;
    rewrite z_eqb_q; reflexivity.
Qed.
Lemma q_ltb_lt p q : q_ltb p q = true <-> (p < q)%Q.
Proof.
  unfold q_ltb. rewrite Qlt_alt. destruct (p ?= q)%Q; split; intros; congruence.
Qed.
Lemma q_eqb_eq p q : q_eqb p q = true <-> (p == q)%Q.
Proof. apply Qeq_bool_iff. Qed.

Lemma class_cases x a : same_class x a ->
  (exists s t, x = VStr s /\ a = VStr t) \/ (numeric x /\ numeric a).
Proof.
  destruct x, a; cbn [same_class numeric]; try contradiction; intros _; eauto.
Qed.

Lemma str_lt_not_eq s u : str_ltb s u = true -> str_eqb s u = false.
Proof.
  intros H. destruct (str_trichotomy s u) as [(_ & E & _)|[(L & _ & _)|(L & _ & _)]];
    congruence.
Qed.

(* x < a, a = b  or  x < a, a < b   ==>   x < b and x <> b *)
Lemma val_lt_le_trans x a b : same_class x a -> same_class a b ->
  py_lt x a = Ok true -> (py_eq a b = true \/ py_lt a b = Ok true) ->
  py_lt x b = Ok true /\ py_eq x b = false.
Proof.
  intros Hxa Hab.
  destruct (class_cases x a Hxa) as [(s & t & -> & ->)|[Nx Na]];
    destruct (class_cases _ b Hab) as [(t' & u & Et & ->)|[Na' Nb]];
    try (injection Et as <-); try (subst; cbn [numeric] in *; contradiction).
  - cbn [py_lt scalar_lt py_eq]. intros Hst [Htu|Htu].
    + apply str_eqb_eq in Htu. subst u. split; [exact Hst|].
      injection Hst as Hst. apply str_lt_not_eq. exact Hst.
    + injection Hst as Hst. injection Htu as Htu.
      pose proof (str_ltb_trans s t u Hst Htu) as Hsu. rewrite Hsu. split; [reflexivity|].
      apply str_lt_not_eq. exact Hsu.
  - rewrite (num_lt x a Nx Na), (num_lt a b Na Nb), (num_lt x b Nx Nb),
      (num_eq a b Na Nb), (num_eq x b Nx Nb).
    intros Hxa' Hab'. injection Hxa' as Hxa'. apply q_ltb_lt in Hxa'.
    assert (Hxb : (nq x < nq b)%Q).
    { destruct Hab' as [He|Hl].
      - apply q_eqb_eq in He. rewrite <- He. exact Hxa'.
      - injection Hl as Hl. apply q_ltb_lt in Hl. eapply Qlt_trans; eauto. }
    split.
    + f_equal. apply q_ltb_lt. exact Hxb.
    + destruct (q_eqb (nq x) (nq b)) eqn:E; [|reflexivity].
      apply q_eqb_eq in E. rewrite E in Hxb. exfalso. eapply Qlt_irrefl; eauto.
Qed.

Lemma key_lt_le_trans x a b : kwf x -> kwf a -> kwf b ->
  key_lt true x a = Ok true -> key_lt false a b = Ok true -> key_lt true x b = Ok true.
Proof.
  intros Wx Wa Wb. pose proof (kwf_class x a Wx Wa) as Cxa. pose proof (kwf_class a b Wa Wb) as Cab.
  destruct x as [tx vx], a as [ta va], b as [tb vb]. cbn [fst snd] in *. unfold key_lt.
  destruct (Z.eqb_spec tx ta) as [Exa|Nxa]; destruct (Z.eqb_spec ta tb) as [Eab|Nab];
    cbn [negb].
  - (* all one type *)
    subst ta tb. rewrite Z.eqb_refl. cbn [negb].
    destruct (py_eq vx va) eqn:E1; [discriminate|]. intros Hxa.
    intros Hab.
    assert (Hab' : py_eq va vb = true \/ py_lt va vb = Ok true).
    { destruct (py_eq va vb); [left; reflexivity|right; exact Hab]. }
    destruct (val_lt_le_trans vx va vb (Cxa eq_refl) (Cab eq_refl) Hxa Hab') as [H1 H2].
    rewrite H2. exact H1.
  - subst ta. intros _ H. injection H as H. apply Z.ltb_lt in H.
    replace (tx =? tb) with false by (symmetry; apply Z.eqb_neq; lia). cbn [negb].
    f_equal. apply Z.ltb_lt. exact H.
  - subst tb. intros H _. injection H as H. apply Z.ltb_lt in H.
    replace (tx =? ta) with false by (symmetry; apply Z.eqb_neq; lia). cbn [negb].
    f_equal. apply Z.ltb_lt. exact H.
  - intros H1 H2. injection H1 as H1. injection H2 as H2. apply Z.ltb_lt in H1, H2.
    replace (tx =? tb) with false by (symmetry; apply Z.eqb_neq; lia). cbn [negb].
    f_equal. apply Z.ltb_lt. lia.
Qed.

(* not (x < k)  ==>  k <= x ; and the comparisons are total on such keys *)
Lemma key_nlt_le x k : kwf x -> kwf k ->
  key_lt true x k = Ok false -> key_lt false k x = Ok true.
Proof.
  intros Wx Wk H.
  destruct (cmp_ops_consistent k x (kwf_class k x Wk Wx))
    as (lt & eq & gt & _ & _ & Hgt & _ & _ & Hle & _).
  cbn [cmp_apply] in Hgt, Hle. rewrite H in Hgt. cbn [bind] in Hgt. injection Hgt as <-.
  destruct (key_lt false k x) as [c|e]; cbn [bind] in Hle; [|discriminate].
  injection Hle as ->. reflexivity.
Qed.
Lemma key_lt_total x k : kwf x -> kwf k -> exists b, key_lt true x k = Ok b.
Proof.
  intros Wx Wk.
  destruct (cmp_ops_consistent x k (kwf_class x k Wx Wk)) as (lt & eq & gt & Hlt & _).
  cbn [cmp_apply] in Hlt. destruct (key_lt true x k) as [c|e]; cbn [bind] in Hlt; [eauto|discriminate].
Qed.

(* ------------------------------------------------- keys of scalars are kwf *)
Lemma in_err_str s : exists b, in_error_codes (VStr s) = Ok b.
Proof. unfold in_error_codes, excelutil.c_ERROR_CODES. cbn [py_in hashable]. eauto. Qed.

Lemma tcv_err s : in_error_codes (VStr s) = Ok true ->
  excelutil.f_type_cmp_value (VStr s) = Ok (VTuple [VInt 3; VStr s]).
Proof.
  unfold in_error_codes. intros H. unfold excelutil.f_type_cmp_value.
  cbn [bind]. rewrite H. py_run. reflexivity.
Qed.

Lemma cmp_key_wf c k : is_scalar c = true -> c <> VNone -> excel_cmp_key c = Ok k -> kwf k.
Proof.
  intros Hs Hn. unfold excel_cmp_key.
  destruct c; cbn [is_scalar] in Hs; try discriminate; try congruence.
  - rewrite tcv_bool. cbn [bind]. py_run. intros H. injection H as <-. reflexivity.
  - rewrite tcv_int. cbn [bind]. py_run. intros H. injection H as <-. reflexivity.
  - rewrite tcv_float. cbn [bind]. py_run. intros H. injection H as <-. reflexivity.
  - destruct (in_err_str s) as ([|] & He).
    + rewrite (tcv_err s He). cbn [bind]. py_run. intros H. injection H as <-.
      unfold kwf. cbn [fst snd]. lia.
    + rewrite (tcv_str s He). cbn [bind]. py_run.
      destruct (str_lower (VStr s)) as [w|e] eqn:E; cbn [bind]; [|discriminate].
      destruct (str_lower_shape s w E) as (s' & ->). intros H. injection H as <-.
      unfold kwf. cbn [fst snd]. lia.
Qed.

(* a lookup key together with its [empty] value *)
Definition xwf (x : key * pyval) : Prop := kwf (fst x) /\ kwf (fst (fst x), snd x).

Lemma lv_key_wf v x : lv_key v = Ok x -> xwf x.
Proof.
  unfold lv_key. destruct (is_scalar v) eqn:Hs; cbn [negb]; [|discriminate].
  destruct v; cbn [is_scalar] in Hs; try discriminate.
  - intros H. injection H as <-. split; reflexivity.
  - unfold excel_cmp_key. rewrite tcv_bool. cbn [bind]. py_run.
    intros H. injection H as <-. split; reflexivity.
  - unfold excel_cmp_key. rewrite tcv_int. cbn [bind]. py_run.
    intros H. injection H as <-. split; reflexivity.
  - unfold excel_cmp_key. rewrite tcv_float. cbn [bind]. py_run.
    intros H. injection H as <-. split; reflexivity.
  - unfold excel_cmp_key. destruct (in_err_str s) as ([|] & He).
    + rewrite (tcv_err s He). cbn [bind]. py_run. intros H. injection H as <-.
      split; unfold kwf; cbn [fst snd]; lia.
    + rewrite (tcv_str s He). cbn [bind]. py_run.
      destruct (str_lower (VStr s)) as [w|e] eqn:E; cbn [bind]; [|discriminate].
      destruct (str_lower_shape s w E) as (s' & ->). py_run. intros H. injection H as <-.
      split; unfold kwf; cbn [fst snd]; lia.
Qed.

Lemma rel_key_wf x c k : xwf x -> rel_key x c = Ok k -> kwf k.
Proof.
  intros [W1 W2]. unfold rel_key. destruct (is_scalar c) eqn:Hs; cbn [negb]; [|discriminate].
  destruct c; try (apply cmp_key_wf; [exact Hs|discriminate]).
  intros H. injection H as <-. exact W2.
Qed.
Lemma abs_key_wf c k : abs_key c = Ok k -> kwf k.
Proof.
  unfold abs_key. destruct (is_scalar c) eqn:Hs; cbn [negb]; [|discriminate].
  destruct c; try (apply cmp_key_wf; [exact Hs|discriminate]).
  intros H. injection H as <-. reflexivity.
Qed.

(* mapM and positions *)
Lemma mapM_nth {A B} (f : A -> res B) l ks : mapM f l = Ok ks ->
  length ks = length l /\
  forall n c, nth_error l n = Some c -> exists k, f c = Ok k /\ nth_error ks n = Some k.
Proof.
  revert ks. induction l as [|a l IH]; intros ks; cbn [mapM].
  - intros H. injection H as <-. split; [reflexivity|]. intros [|n] c; discriminate.
  - destruct (f a) as [k|e] eqn:Ea; cbn [bind]; [|discriminate].
    destruct (mapM f l) as [ks'|e]; cbn [bind]; [|discriminate].
    intros H. injection H as <-. destruct (IH ks' eq_refl) as [Hl Hn].
    split; [cbn [length]; congruence|].
    intros [|n] c; cbn [nth_error].
    + intros H. injection H as <-. eauto.
    + apply Hn.
Qed.

(* C16_bisect: on cells whose keys (as bisect sees them: a blank takes the
   lookup value's type) are sorted by the model's <= between lo and hi,
   bisect_right returns the partition point: everything before it is <= x,
   everything from it on is > x.  Any length. *)
Theorem bisect_sorted v x a ks lo hi :
  lv_key v = Ok x -> mapM (rel_key x) a = Ok ks ->
  0 <= lo -> lo <= hi -> hi <= zlen a ->
  (forall i j ki kj, lo <= i -> i <= j -> j < hi ->
     nth_error ks (Z.to_nat i) = Some ki -> nth_error ks (Z.to_nat j) = Some kj ->
     key_lt false ki kj = Ok true) ->
  exists r, bisect_right (x_lt_cell x) a lo hi = Ok r /\ lo <= r <= hi
    /\ (forall k kk, lo <= k < r -> nth_error ks (Z.to_nat k) = Some kk ->
          key_lt false kk (fst x) = Ok true)
    /\ (forall k kk, r <= k < hi -> nth_error ks (Z.to_nat k) = Some kk ->
          key_lt true (fst x) kk = Ok true).
Proof.
  intros Hv Hks H0 Hle Hhi Hsorted.
  pose proof (lv_key_wf v x Hv) as Wx. destruct (mapM_nth _ _ _ Hks) as [Hlen Hnth].
  set (p := fun c => match x_lt_cell x c with Ok b => b | Raise _ => false end).
  assert (Hcell : forall k c, 0 <= k -> at_ a k = Some c ->
            exists kk, nth_error ks (Z.to_nat k) = Some kk /\ kwf kk
                       /\ x_lt_cell x c = key_lt true (fst x) kk).
  { intros k c Hk Hc. destruct (Hnth _ _ Hc) as (kk & Hr & Hn). exists kk.
    split; [exact Hn|]. split; [eapply rel_key_wf; eauto|].
    unfold x_lt_cell. rewrite Hr. reflexivity. }
  destruct (bisect_right_spec (x_lt_cell x) p a lo hi H0 Hle Hhi) as (r & Hr & Hb & Hlo & Hup).
  - intros k c Hk Hc. destruct (Hcell k c ltac:(lia) Hc) as (kk & Hn & Wk & Hx).
    unfold p. rewrite Hx. destruct (key_lt_total (fst x) kk (proj1 Wx) Wk) as (b & ->). reflexivity.
  - intros i j ci cj Hi Hij Hj Hci Hcj.
    destruct (Hcell i ci ltac:(lia) Hci) as (ki & Hni & Wi & Hxi).
    destruct (Hcell j cj ltac:(lia) Hcj) as (kj & Hnj & Wj & Hxj).
    unfold p. rewrite Hxi, Hxj.
    destruct (key_lt_total (fst x) ki (proj1 Wx) Wi) as (bi & Ebi). rewrite Ebi. intros ->.
    rewrite (key_lt_le_trans (fst x) ki kj (proj1 Wx) Wi Wj Ebi (Hsorted i j ki kj Hi Hij Hj Hni Hnj)).
    reflexivity.
  - exists r. split; [exact Hr|]. split; [exact Hb|]. split.
    + intros k kk Hk Hn.
      destruct (at_some a k) as (c & Hc); [lia|].
      destruct (Hcell k c ltac:(lia) Hc) as (kk' & Hn' & Wk & Hx).
      rewrite Hn in Hn'. injection Hn' as <-.
      apply key_nlt_le; [exact (proj1 Wx)|exact Wk|].
      pose proof (Hlo k c Hk Hc) as Hp. unfold p in Hp. rewrite Hx in Hp.
      destruct (key_lt_total (fst x) kk (proj1 Wx) Wk) as (b & Eb). rewrite Eb in Hp. subst b. exact Eb.
    + intros k kk Hk Hn.
      destruct (at_some a k) as (c & Hc); [lia|].
      destruct (Hcell k c ltac:(lia) Hc) as (kk' & Hn' & Wk & Hx).
      rewrite Hn in Hn'. injection Hn' as <-.
      pose proof (Hup k c Hk Hc) as Hp. unfold p in Hp. rewrite Hx in Hp.
      destruct (key_lt_total (fst x) kk (proj1 Wx) Wk) as (b & Eb). rewrite Eb in Hp. subst b. exact Eb.
Qed.
