(* Proofs/C16.v — lookup functions: bisect_right, the linear scans of _match,
   VLOOKUP/HLOOKUP as INDEX at the position MATCH finds, transposition, bounds.
   Models: Gen/lookup.v (regenerated), Model/LookupCore.v (hand-written). *)
From Coq Require Import ZArith QArith List Bool Lia.
From PV Require Import Lib.Py Proofs.PyTac Model.Ops Proofs.C10 Model.LookupCore.
From PV Require Gen.excelutil Gen.lookup.
Import ListNotations.
Open Scope Z_scope.

(* ------------------------------------------------------------ bisect_right *)
Section Bisect.
  Variable lt : pyval -> res bool.      (* the test "x < cell" as executed *)
  Variable p : pyval -> bool.           (* its value *)
  Variable a : list pyval.

  Definition at_ (k : Z) : option pyval := nth_error a (Z.to_nat k).

  Lemma mid_bounds lo hi : lo < hi -> lo <= (lo + hi) / 2 < hi.
  Proof.
    intros H. split; [apply Z.div_le_lower_bound | apply Z.div_lt_upper_bound]; lia.
  Qed.

  Lemma at_some k : 0 <= k < zlen a -> exists c, at_ k = Some c.
  Proof.
    intros H. unfold at_. destruct (nth_error a (Z.to_nat k)) eqn:E; [eauto|].
    apply nth_error_None in E. unfold zlen in H. lia.
  Qed.

  (* CPython's loop finds the partition point of a monotone test; the fuel
     hi - lo + 1 given by [bisect_right] always suffices *)
  Lemma bisect_loop_spec : forall fuel lo hi,
    0 <= lo -> lo <= hi -> hi <= zlen a ->
    (Z.to_nat (hi - lo) < fuel)%nat ->
    (forall k c, lo <= k < hi -> at_ k = Some c -> lt c = Ok (p c)) ->
    (forall i j ci cj, lo <= i -> i <= j -> j < hi -> at_ i = Some ci -> at_ j = Some cj ->
                       p ci = true -> p cj = true) ->
    exists r, bisect_loop fuel lt a lo hi = Ok r /\ lo <= r <= hi
      /\ (forall k c, lo <= k < r -> at_ k = Some c -> p c = false)
      /\ (forall k c, r <= k < hi -> at_ k = Some c -> p c = true).
  Proof.
    induction fuel as [|f IH]; intros lo hi H0 Hle Hhi Hf Hlt Hmono; [lia|].
    cbn [bisect_loop]. destruct (Z.ltb_spec lo hi) as [Hlh|Hlh].
    - pose proof (mid_bounds lo hi Hlh) as Hm. set (mid := (lo + hi) / 2) in *.
      destruct (at_some mid) as (c & Hc); [lia|]. unfold at_ in Hc. rewrite Hc.
      rewrite (Hlt mid c) by (auto; lia). cbn [bind].
      destruct (p c) eqn:Ep.
      + destruct (IH lo mid) as (r & Hr & Hb & Hlo & Hup); try lia.
        * intros k c' Hk. apply Hlt. lia.
        * intros i j ci cj Hi Hij Hj. apply Hmono; lia.
        * exists r. split; [exact Hr|]. split; [lia|]. split; [exact Hlo|].
          intros k c' Hk Hc'. destruct (Z.ltb_spec k mid) as [Hkm|Hkm].
          -- apply (Hup k c'); [lia|exact Hc'].
          -- apply (Hmono mid k c c'); try lia; auto.
      + destruct (IH (mid + 1) hi) as (r & Hr & Hb & Hlo & Hup); try lia.
        * intros k c' Hk. apply Hlt. lia.
        * intros i j ci cj Hi Hij Hj. apply Hmono; lia.
        * exists r. split; [exact Hr|]. split; [lia|]. split; [|exact Hup].
          intros k c' Hk Hc'. destruct (Z.ltb_spec mid k) as [Hkm|Hkm].
          -- apply (Hlo k c'); [lia|exact Hc'].
          -- destruct (p c') eqn:Ep'; [|reflexivity].
             assert (p c = true) by (apply (Hmono k mid c' c); try lia; auto). congruence.
    - exists lo. split; [reflexivity|]. split; [lia|]. split; intros k c Hk; lia.
  Qed.

  Lemma bisect_right_spec lo hi :
    0 <= lo -> lo <= hi -> hi <= zlen a ->
    (forall k c, lo <= k < hi -> at_ k = Some c -> lt c = Ok (p c)) ->
    (forall i j ci cj, lo <= i -> i <= j -> j < hi -> at_ i = Some ci -> at_ j = Some cj ->
                       p ci = true -> p cj = true) ->
    exists r, bisect_right lt a lo hi = Ok r /\ lo <= r <= hi
      /\ (forall k c, lo <= k < r -> at_ k = Some c -> p c = false)
      /\ (forall k c, r <= k < hi -> at_ k = Some c -> p c = true).
  Proof. intros. unfold bisect_right. apply bisect_loop_spec; auto; lia. Qed.
End Bisect.

(* --------------------------------------------------------------- key order *)
(* keys that ExcelCmp builds from scalars: numbers type 0, text type 1,
   logicals type 2, error codes type 3 *)
Definition kwf (k : key) : Prop :=
  match snd k with
  | VInt _ | VFloat _ => fst k = 0
  | VBool _ => fst k = 2
  | VStr _ => fst k = 1 \/ fst k = 3
  | _ => False
  end.

Lemma kwf_class a b : kwf a -> kwf b -> fst a = fst b -> same_class (snd a) (snd b).
Proof.
  destruct a as [ta va], b as [tb vb]. unfold kwf. cbn [fst snd].
  destruct va, vb; cbn [same_class]; intros; try contradiction; try lia; exact I.
Qed.

Definition numeric (v : pyval) : Prop :=
  match v with VBool _ | VInt _ | VFloat _ => True | _ => False end.
Definition nq (v : pyval) : Q := match as_num v with Some n => num_q n | None => 0%Q end.

Lemma z_ltb_q x y : (x <? y) = q_ltb (inject_Z x) (inject_Z y).
Proof.
  unfold q_ltb, Qcompare, inject_Z. cbn [Qnum Qden]. rewrite !Z.mul_1_r. reflexivity.
Qed.
Lemma z_eqb_q x y : (x =? y) = q_eqb (inject_Z x) (inject_Z y).
Proof.
  unfold q_eqb, Qeq_bool, inject_Z, Zeq_bool. cbn [Qnum Qden]. rewrite !Z.mul_1_r.
  destruct (Z.eqb_spec x y) as [->|Hne].
  - rewrite Z.compare_refl. reflexivity.
  - destruct (Z.compare_spec x y); try reflexivity. contradiction.
Qed.
Lemma num_lt a b : numeric a -> numeric b -> py_lt a b = Ok (q_ltb (nq a) (nq b)).
Proof.
  destruct a, b; cbn [numeric]; try contradiction; intros _ _;
    cbn [py_lt scalar_lt as_num]; unfold nq; cbn [as_num num_q]; try reflexivity;
    rewrite z_ltb_q; reflexivity.
Qed.
Lemma num_eq a b : numeric a -> numeric b -> py_eq a b = q_eqb (nq a) (nq b).
Proof.
  destruct a, b; cbn [numeric]; try contradiction; intros _ _;
    cbn [py_eq as_num]; unfold nq; cbn [as_num num_q]; try reflexivity;
    rewrite z_eqb_q; reflexivity.
Qed.
Lemma q_ltb_lt p q : q_ltb p q = true <-> (p < q)%Q.
Proof.
  unfold q_ltb. rewrite Qlt_alt. destruct (p ?= q)%Q; split; intros; congruence.
Qed.
Lemma q_eqb_eq p q : q_eqb p q = true <-> (p == q)%Q.
Proof. apply Qeq_bool_iff. Qed.

Lemma class_cases x a : same_class x a ->
  (exists s t, x = VStr s /\ a = VStr t) \/ (numeric x /\ numeric a).
Proof.
  destruct x, a; cbn [same_class numeric]; try contradiction; intros _; eauto.
Qed.

Lemma str_lt_not_eq s u : str_ltb s u = true -> str_eqb s u = false.
Proof.
  intros H. destruct (str_trichotomy s u) as [(_ & E & _)|[(L & _ & _)|(L & _ & _)]];
    congruence.
Qed.

(* x < a, a = b  or  x < a, a < b   ==>   x < b and x <> b *)
Lemma val_lt_le_trans x a b : same_class x a -> same_class a b ->
  py_lt x a = Ok true -> (py_eq a b = true \/ py_lt a b = Ok true) ->
  py_lt x b = Ok true /\ py_eq x b = false.
Proof.
  intros Hxa Hab.
  destruct (class_cases x a Hxa) as [(s & t & -> & ->)|[Nx Na]];
    destruct (class_cases _ b Hab) as [(t' & u & Et & ->)|[Na' Nb]];
    try (injection Et as <-); try (subst; cbn [numeric] in *; contradiction).
  - cbn [py_lt scalar_lt py_eq]. intros Hst [Htu|Htu].
    + apply str_eqb_eq in Htu. subst u. split; [exact Hst|].
      injection Hst as Hst. apply str_lt_not_eq. exact Hst.
    + injection Hst as Hst. injection Htu as Htu.
      pose proof (str_ltb_trans s t u Hst Htu) as Hsu. rewrite Hsu. split; [reflexivity|].
      apply str_lt_not_eq. exact Hsu.
  - rewrite (num_lt x a Nx Na), (num_lt a b Na Nb), (num_lt x b Nx Nb),
      (num_eq a b Na Nb), (num_eq x b Nx Nb).
    intros Hxa' Hab'. injection Hxa' as Hxa'. apply q_ltb_lt in Hxa'.
    assert (Hxb : (nq x < nq b)%Q).
    { destruct Hab' as [He|Hl].
      - apply q_eqb_eq in He. rewrite <- He. exact Hxa'.
      - injection Hl as Hl. apply q_ltb_lt in Hl. eapply Qlt_trans; eauto. }
    split.
    + f_equal. apply q_ltb_lt. exact Hxb.
    + destruct (q_eqb (nq x) (nq b)) eqn:E; [|reflexivity].
      apply q_eqb_eq in E. rewrite E in Hxb. exfalso. eapply Qlt_irrefl; eauto.
Qed.

Lemma key_lt_le_trans x a b : kwf x -> kwf a -> kwf b ->
  key_lt true x a = Ok true -> key_lt false a b = Ok true -> key_lt true x b = Ok true.
Proof.
  intros Wx Wa Wb. pose proof (kwf_class x a Wx Wa) as Cxa. pose proof (kwf_class a b Wa Wb) as Cab.
  destruct x as [tx vx], a as [ta va], b as [tb vb]. cbn [fst snd] in *. unfold key_lt.
  destruct (Z.eqb_spec tx ta) as [Exa|Nxa]; destruct (Z.eqb_spec ta tb) as [Eab|Nab];
    cbn [negb].
  - (* all one type *)
    subst ta tb. rewrite Z.eqb_refl. cbn [negb].
    destruct (py_eq vx va) eqn:E1; [discriminate|]. intros Hxa.
    intros Hab.
    assert (Hab' : py_eq va vb = true \/ py_lt va vb = Ok true).
    { destruct (py_eq va vb); [left; reflexivity|right; exact Hab]. }
    destruct (val_lt_le_trans vx va vb (Cxa eq_refl) (Cab eq_refl) Hxa Hab') as [H1 H2].
    rewrite H2. exact H1.
  - subst ta. intros _ H. injection H as H. apply Z.ltb_lt in H.
    replace (tx =? tb) with false by (symmetry; apply Z.eqb_neq; lia). cbn [negb].
    f_equal. apply Z.ltb_lt. exact H.
  - subst tb. intros H _. injection H as H. apply Z.ltb_lt in H.
    replace (tx =? ta) with false by (symmetry; apply Z.eqb_neq; lia). cbn [negb].
    f_equal. apply Z.ltb_lt. exact H.
  - intros H1 H2. injection H1 as H1. injection H2 as H2. apply Z.ltb_lt in H1, H2.
    replace (tx =? tb) with false by (symmetry; apply Z.eqb_neq; lia). cbn [negb].
    f_equal. apply Z.ltb_lt. lia.
Qed.

(* not (x < k)  ==>  k <= x ; and the comparisons are total on such keys *)
Lemma key_nlt_le x k : kwf x -> kwf k ->
  key_lt true x k = Ok false -> key_lt false k x = Ok true.
Proof.
  intros Wx Wk H.
  destruct (cmp_ops_consistent k x (kwf_class k x Wk Wx))
    as (lt & eq & gt & _ & _ & Hgt & _ & _ & Hle & _).
  cbn [cmp_apply] in Hgt, Hle. rewrite H in Hgt. cbn [bind] in Hgt. injection Hgt as <-.
  destruct (key_lt false k x) as [c|e]; cbn [bind] in Hle; [|discriminate].
  injection Hle as ->. reflexivity.
Qed.
Lemma key_lt_total x k : kwf x -> kwf k -> exists b, key_lt true x k = Ok b.
Proof.
  intros Wx Wk.
  destruct (cmp_ops_consistent x k (kwf_class x k Wx Wk)) as (lt & eq & gt & Hlt & _).
  cbn [cmp_apply] in Hlt. destruct (key_lt true x k) as [c|e]; cbn [bind] in Hlt; [eauto|discriminate].
Qed.

(* ------------------------------------------------- keys of scalars are kwf *)
Lemma in_err_str s : exists b, in_error_codes (VStr s) = Ok b.
Proof. unfold in_error_codes, excelutil.c_ERROR_CODES. cbn [py_in hashable]. eauto. Qed.

Lemma tcv_err s : in_error_codes (VStr s) = Ok true ->
  excelutil.f_type_cmp_value (VStr s) = Ok (VTuple [VInt 3; VStr s]).
Proof.
  unfold in_error_codes. intros H. unfold excelutil.f_type_cmp_value.
  cbn [bind]. rewrite H. py_run. reflexivity.
Qed.

Lemma cmp_key_wf c k : is_scalar c = true -> c <> VNone -> excel_cmp_key c = Ok k -> kwf k.
Proof.
  intros Hs Hn. unfold excel_cmp_key.
  destruct c; cbn [is_scalar] in Hs; try discriminate; try congruence.
  - rewrite tcv_bool. cbn [bind]. py_run. intros H. injection H as <-. reflexivity.
  - rewrite tcv_int. cbn [bind]. py_run. intros H. injection H as <-. reflexivity.
  - rewrite tcv_float. cbn [bind]. py_run. intros H. injection H as <-. reflexivity.
  - destruct (in_err_str s) as ([|] & He).
    + rewrite (tcv_err s He). cbn [bind]. py_run. intros H. injection H as <-.
      unfold kwf. cbn [fst snd]. lia.
    + rewrite (tcv_str s He). cbn [bind]. py_run.
      destruct (str_lower (VStr s)) as [w|e] eqn:E; cbn [bind]; [|discriminate].
      destruct (str_lower_shape s w E) as (s' & ->). intros H. injection H as <-.
      unfold kwf. cbn [fst snd]. lia.
Qed.

(* a lookup key together with its [empty] value *)
Definition xwf (x : key * pyval) : Prop := kwf (fst x) /\ kwf (fst (fst x), snd x).

Lemma lv_key_wf v x : lv_key v = Ok x -> xwf x.
Proof.
  unfold lv_key. destruct (is_scalar v) eqn:Hs; cbn [negb]; [|discriminate].
  destruct v; cbn [is_scalar] in Hs; try discriminate.
  - intros H. injection H as <-. split; reflexivity.
  - unfold excel_cmp_key. rewrite tcv_bool. cbn [bind]. py_run.
    intros H. injection H as <-. split; reflexivity.
  - unfold excel_cmp_key. rewrite tcv_int. cbn [bind]. py_run.
    intros H. injection H as <-. split; reflexivity.
  - unfold excel_cmp_key. rewrite tcv_float. cbn [bind]. py_run.
    intros H. injection H as <-. split; reflexivity.
  - unfold excel_cmp_key. destruct (in_err_str s) as ([|] & He).
    + rewrite (tcv_err s He). cbn [bind]. py_run. intros H. injection H as <-.
      split; unfold kwf; cbn [fst snd]; lia.
    + rewrite (tcv_str s He). cbn [bind]. py_run.
      destruct (str_lower (VStr s)) as [w|e] eqn:E; cbn [bind]; [|discriminate].
      destruct (str_lower_shape s w E) as (s' & ->). py_run. intros H. injection H as <-.
      split; unfold kwf; cbn [fst snd]; lia.
Qed.

Lemma rel_key_wf x c k : xwf x -> rel_key x c = Ok k -> kwf k.
Proof.
  intros [W1 W2]. unfold rel_key. destruct (is_scalar c) eqn:Hs; cbn [negb]; [|discriminate].
  destruct c; try (apply cmp_key_wf; [exact Hs|discriminate]).
  intros H. injection H as <-. exact W2.
Qed.
Lemma abs_key_wf c k : abs_key c = Ok k -> kwf k.
Proof.
  unfold abs_key. destruct (is_scalar c) eqn:Hs; cbn [negb]; [|discriminate].
  destruct c; try (apply cmp_key_wf; [exact Hs|discriminate]).
  intros H. injection H as <-. reflexivity.
Qed.

(* mapM and positions *)
Lemma mapM_nth {A B} (f : A -> res B) l ks : mapM f l = Ok ks ->
  length ks = length l /\
  forall n c, nth_error l n = Some c -> exists k, f c = Ok k /\ nth_error ks n = Some k.
Proof.
  revert ks. induction l as [|a l IH]; intros ks; cbn [mapM].
  - intros H. injection H as <-. split; [reflexivity|]. intros [|n] c; discriminate.
  - destruct (f a) as [k|e] eqn:Ea; cbn [bind]; [|discriminate].
    destruct (mapM f l) as [ks'|e]; cbn [bind]; [|discriminate].
    intros H. injection H as <-. destruct (IH ks' eq_refl) as [Hl Hn].
    split; [cbn [length]; congruence|].
    intros [|n] c; cbn [nth_error].
    + intros H. injection H as <-. eauto.
    + apply Hn.
Qed.

(* C16_bisect: on cells whose keys (as bisect sees them: a blank takes the
   lookup value's type) are sorted by the model's <= between lo and hi,
   bisect_right returns the partition point: everything before it is <= x,
   everything from it on is > x.  Any length. *)
Theorem bisect_sorted v x a ks lo hi :
  lv_key v = Ok x -> mapM (rel_key x) a = Ok ks ->
  0 <= lo -> lo <= hi -> hi <= zlen a ->
  (forall i j ki kj, lo <= i -> i <= j -> j < hi ->
     nth_error ks (Z.to_nat i) = Some ki -> nth_error ks (Z.to_nat j) = Some kj ->
     key_lt false ki kj = Ok true) ->
  exists r, bisect_right (x_lt_cell x) a lo hi = Ok r /\ lo <= r <= hi
    /\ (forall k kk, lo <= k < r -> nth_error ks (Z.to_nat k) = Some kk ->
          key_lt false kk (fst x) = Ok true)
    /\ (forall k kk, r <= k < hi -> nth_error ks (Z.to_nat k) = Some kk ->
          key_lt true (fst x) kk = Ok true).
Proof.
  intros Hv Hks H0 Hle Hhi Hsorted.
  pose proof (lv_key_wf v x Hv) as Wx. destruct (mapM_nth _ _ _ Hks) as [Hlen Hnth].
  set (p := fun c => match x_lt_cell x c with Ok b => b | Raise _ => false end).
  assert (Hcell : forall k c, 0 <= k -> at_ a k = Some c ->
            exists kk, nth_error ks (Z.to_nat k) = Some kk /\ kwf kk
                       /\ x_lt_cell x c = key_lt true (fst x) kk).
  { intros k c Hk Hc. destruct (Hnth _ _ Hc) as (kk & Hr & Hn). exists kk.
    split; [exact Hn|]. split; [eapply rel_key_wf; eauto|].
    unfold x_lt_cell. rewrite Hr. reflexivity. }
  destruct (bisect_right_spec (x_lt_cell x) p a lo hi H0 Hle Hhi) as (r & Hr & Hb & Hlo & Hup).
  - intros k c Hk Hc. destruct (Hcell k c ltac:(lia) Hc) as (kk & Hn & Wk & Hx).
    unfold p. rewrite Hx. destruct (key_lt_total (fst x) kk (proj1 Wx) Wk) as (b & ->). reflexivity.
  - intros i j ci cj Hi Hij Hj Hci Hcj.
    destruct (Hcell i ci ltac:(lia) Hci) as (ki & Hni & Wi & Hxi).
    destruct (Hcell j cj ltac:(lia) Hcj) as (kj & Hnj & Wj & Hxj).
    unfold p. rewrite Hxi, Hxj.
    destruct (key_lt_total (fst x) ki (proj1 Wx) Wi) as (bi & Ebi). rewrite Ebi. intros ->.
    rewrite (key_lt_le_trans (fst x) ki kj (proj1 Wx) Wi Wj Ebi (Hsorted i j ki kj Hi Hij Hj Hni Hnj)).
    reflexivity.
  - exists r. split; [exact Hr|]. split; [exact Hb|]. split.
    + intros k kk Hk Hn.
      destruct (at_some a k) as (c & Hc); [lia|].
      destruct (Hcell k c ltac:(lia) Hc) as (kk' & Hn' & Wk & Hx).
      rewrite Hn in Hn'. injection Hn' as <-.
      apply key_nlt_le; [exact (proj1 Wx)|exact Wk|].
      pose proof (Hlo k c Hk Hc) as Hp. unfold p in Hp. rewrite Hx in Hp.
      destruct (key_lt_total (fst x) kk (proj1 Wx) Wk) as (b & Eb). rewrite Eb in Hp. subst b. exact Eb.
    + intros k kk Hk Hn.
      destruct (at_some a k) as (c & Hc); [lia|].
      destruct (Hcell k c ltac:(lia) Hc) as (kk' & Hn' & Wk & Hx).
      rewrite Hn in Hn'. injection Hn' as <-.
      pose proof (Hup k c Hk Hc) as Hp. unfold p in Hp. rewrite Hx in Hp.
      destruct (key_lt_total (fst x) kk (proj1 Wx) Wk) as (b & Eb). rewrite Eb in Hp. subst b. exact Eb.
Qed.

(* ------------------------------------------------ MATCH(v, a, 0): first hit *)
(* the obvious definition: first position (counted from i) whose cell
   satisfies p, else #N/A *)
Fixpoint find_first (p : pyval -> res bool) (l : list pyval) (i : Z) : res pyval :=
  match l with
  | [] => Ok NA
  | c :: l' => b <- p c ;; if b then Ok (VInt i) else find_first p l' (i + 1)
  end.

(* "cell c equals the lookup value": never an error cell, type-strict, then
   the equality test t on keys (case-insensitive: keys are lower-cased; a
   wildcard pattern for text) *)
Definition matches0 (ty : Z) (t : key -> res bool) (c : pyval) : res bool :=
  e <- in_error_codes c ;;
  if e then Ok false else
  k <- abs_key c ;;
  if fst k =? ty then t k else Ok false.

Lemma scan0_find_first t ty l : forall i,
  scan0 t ty l i = find_first (matches0 ty t) l i.
Proof.
  induction l as [|c l IH]; intros i; [reflexivity|].
  cbn [scan0 find_first]. unfold matches0 at 1.
  destruct (in_error_codes c) as [[|]|e]; cbn [bind]; auto.
  destruct (abs_key c) as [k|e]; cbn [bind]; auto.
  destruct (fst k =? ty); cbn [bind]; auto.
  destruct (t k) as [[|]|e]; cbn [bind]; auto.
Qed.

Lemma match0_is_find_first v a :
  match_ v (VTuple a) (VInt 0)
  = (x <- lv_key v ;; t <- test0 (fst x) ;; find_first (matches0 (fst (fst x)) t) a 1).
Proof.
  unfold match_. cbn [seq_items bind].
  destruct (lv_key v) as [x|e]; cbn [bind]; [|reflexivity].
  replace (py_eq (VInt 0) (VInt 1)) with false by reflexivity.
  replace (py_eq (VInt 0) (VInt 0)) with true by reflexivity.
  destruct (test0 (fst x)) as [t|e]; cbn [bind]; [|reflexivity].
  apply scan0_find_first.
Qed.

(* what find_first returns *)
Lemma find_first_spec p l : forall i r, find_first p l i = Ok r ->
  (r = NA /\ forall c, In c l -> p c = Ok false)
  \/ (exists n c, r = VInt (i + Z.of_nat n) /\ nth_error l n = Some c /\ p c = Ok true
                  /\ forall m c', (m < n)%nat -> nth_error l m = Some c' -> p c' = Ok false).
Proof.
  induction l as [|c l IH]; intros i r; cbn [find_first].
  - intros H. injection H as <-. left. split; [reflexivity|]. intros c [].
  - destruct (p c) as [[|]|e] eqn:Ep; cbn [bind]; [| |discriminate].
    + intros H. injection H as <-. right. exists 0%nat, c.
      rewrite Z.add_0_r. repeat split; auto. intros m c' Hm. lia.
    + intros H. destruct (IH _ _ H) as [[-> Hall]|(n & c0 & -> & Hn & Hp & Hbefore)].
      * left. split; [reflexivity|]. intros c' [<-|Hin]; auto.
      * right. exists (S n), c0. split; [f_equal; lia|]. split; [exact Hn|]. split; [exact Hp|].
        intros [|m] c' Hm; cbn [nth_error].
        -- intros H'. injection H' as <-. exact Ep.
        -- apply Hbefore. lia.
Qed.

(* the equality test: plain key equality unless the (lower-cased) text has a
   wildcard; then the glob *)
Lemma test0_plain xk : (forall p, xk = (1, VStr p) -> existsb is_wild p = false) ->
  test0 xk = Ok (fun k => Ok (key_eq k xk)).
Proof.
  intros H. unfold test0. destruct xk as [t v].
  destruct t as [|[q|q|]|q]; try reflexivity. destruct v; try reflexivity.
  rewrite (H s eq_refl). reflexivity.
Qed.
Lemma test0_wild p : existsb is_wild p = true -> existsb regex_meta p = false ->
  test0 (1, VStr p) = Ok (fun k => match snd k with VStr s => Ok (glob p s) | _ => Raise Unmodelled end).
Proof. intros H1 H2. unfold test0. rewrite H1, H2. reflexivity. Qed.

(* ----------------------------------------- the result of _match is a position *)
Definition is_pos (n : Z) (m : pyval) : Prop := exists i, m = VInt i /\ 1 <= i <= n.

Lemma scan0_range t ty l : forall i m, scan0 t ty l i = Ok m ->
  m = NA \/ exists j, m = VInt j /\ i <= j < i + zlen l.
Proof.
  induction l as [|c l IH]; intros i m; cbn [scan0].
  - intros H. injection H as <-. auto.
  - assert (Hrec : scan0 t ty l (i + 1) = Ok m ->
              m = NA \/ exists j, m = VInt j /\ i <= j < i + zlen (c :: l)).
    { intros H. destruct (IH _ _ H) as [->|(j & -> & Hj)]; [auto|].
      right. exists j. split; [reflexivity|]. unfold zlen in *. cbn [length]. lia. }
    destruct (in_error_codes c) as [[|]|e]; cbn [bind]; auto; try discriminate.
    destruct (abs_key c) as [k|e]; cbn [bind]; auto; try discriminate.
    destruct (fst k =? ty); cbn [bind]; auto.
    destruct (t k) as [[|]|e]; cbn [bind]; auto; try discriminate.
    intros H. injection H as <-. right. exists i. split; [reflexivity|].
    unfold zlen. cbn [length]. lia.
Qed.

Lemma scan_m1_range xk l : forall i last m, scan_m1 xk l i last = Ok m ->
  m = last \/ exists j, m = VInt j /\ i <= j < i + zlen l.
Proof.
  induction l as [|c l IH]; intros i last m; cbn [scan_m1].
  - intros H. injection H as <-. auto.
  - assert (Hrec : forall last', (last' = last \/ last' = VInt i) ->
              scan_m1 xk l (i + 1) last' = Ok m ->
              m = last \/ exists j, m = VInt j /\ i <= j < i + zlen (c :: l)).
    { intros last' Hl H. destruct (IH _ _ _ H) as [->|(j & -> & Hj)].
      - destruct Hl as [->| ->]; [auto|]. right. exists i. split; [reflexivity|].
        unfold zlen. cbn [length]. lia.
      - right. exists j. split; [reflexivity|]. unfold zlen in *. cbn [length]. lia. }
    destruct (in_error_codes c) as [[|]|e]; cbn [bind]; try discriminate; try (apply Hrec; auto; fail).
    destruct (abs_key c) as [k|e]; cbn [bind]; try discriminate.
    destruct (fst k =? fst xk); cbn [bind]; try (apply Hrec; auto; fail).
    destruct (key_lt true k xk) as [[|]|e]; cbn [bind]; try discriminate.
    + intros H. injection H as <-. auto.
    + destruct (key_eq k xk); try (apply Hrec; auto; fail).
      intros H. injection H as <-. right. exists i. split; [reflexivity|].
      unfold zlen. cbn [length]. lia.
Qed.

Lemma match1_range x a m : match1 x a = Ok m -> m = NA \/ is_pos (zlen a) m.
Proof.
  unfold match1.
  destruct (bisect_right _ a _ _) as [r|e]; cbn [bind]; [|discriminate].
  destruct (backoff _ _) as [[|j]|e]; cbn [bind]; [| |discriminate].
  - intros H. injection H as <-. auto.
  - destruct (nth_error a j) as [c|] eqn:E; [|discriminate].
    assert (Hj : (j < length a)%nat) by (apply nth_error_Some; congruence).
    assert (Hpos : is_pos (zlen a) (VInt (Z.of_nat (S j)))).
    { exists (Z.of_nat (S j)). split; [reflexivity|]. unfold zlen. lia. }
    destruct c; intros H; injection H as <-; auto.
Qed.

(* whatever the match type: #N/A or a position inside the vector *)
Theorem match_range v arr mt a m :
  seq_items arr = Ok a -> match_ v arr mt = Ok m -> m = NA \/ is_pos (zlen a) m.
Proof.
  intros Ha. unfold match_. rewrite Ha. cbn [bind].
  destruct (lv_key v) as [x|e]; cbn [bind]; [|discriminate].
  destruct (py_eq mt (VInt 1)); [apply match1_range|].
  destruct (py_eq mt (VInt 0)).
  - destruct (test0 (fst x)) as [t|e]; cbn [bind]; [|discriminate].
    intros H. destruct (scan0_range _ _ _ _ _ H) as [->|(j & -> & Hj)]; [auto|].
    right. exists j. split; [reflexivity|]. lia.
  - intros H. destruct (scan_m1_range _ _ _ _ _ H) as [->|(j & -> & Hj)]; [auto|].
    right. exists j. split; [reflexivity|]. lia.
Qed.

(* --------------------------------------------- tables: VLOOKUP / HLOOKUP / INDEX *)
(* a rectangular table: every row is a tuple of w cells *)
Definition rect (w : Z) (rows : list pyval) : Prop :=
  Forall (fun row => exists cells, row = VTuple cells /\ zlen cells = w) rows.

Definition cells_of (row : pyval) : list pyval :=
  match row with VTuple l | VList l => l | _ => [] end.
Definition col_of (j : nat) (rows : list pyval) : list pyval :=
  map (fun row => nth j (cells_of row) VNone) rows.
Definition transpose (w : nat) (rows : list pyval) : list pyval :=
  map (fun j => VTuple (col_of j rows)) (seq 0 w).

Lemma list_like_tuple l : excelutil.f_list_like (VTuple l) = Ok (VBool true).
Proof. reflexivity. Qed.

Lemma index_nth_nonneg {A} (l : list A) z : 0 <= z < zlen l ->
  index_nth l z = nth_error l (Z.to_nat z).
Proof.
  intros H. unfold index_nth.
  replace (z <? 0) with false by (symmetry; apply Z.ltb_ge; lia).
  replace (z <? 0) with false by (symmetry; apply Z.ltb_ge; lia).
  replace (zlen l <=? z) with false by (symmetry; apply Z.leb_gt; lia). reflexivity.
Qed.

Lemma getitem_nth l z : 0 <= z < zlen l ->
  py_getitem (VTuple l) (VInt z) = Ok (nth (Z.to_nat z) l VNone).
Proof.
  intros H. cbn [py_getitem as_index]. rewrite index_nth_nonneg by exact H.
  destruct (nth_error l (Z.to_nat z)) as [c|] eqn:E.
  - rewrite (nth_error_nth _ _ _ E). reflexivity.
  - apply nth_error_None in E. unfold zlen in H. lia.
Qed.

Lemma rect_nth w rows n : rect w rows -> (n < length rows)%nat ->
  exists cells, nth n rows VNone = VTuple cells /\ zlen cells = w.
Proof.
  intros Hr Hn. unfold rect in Hr. rewrite Forall_forall in Hr.
  apply Hr. apply nth_In. exact Hn.
Qed.

(* array[i-1][k-1] inside a rectangular table *)
Lemma array_data_cell w rows i k : rect w rows -> 1 <= i <= zlen rows -> 1 <= k <= w ->
  array_data (VTuple rows) (VInt (i - 1)) (VInt (k - 1))
  = Ok (nth (Z.to_nat (k - 1)) (cells_of (nth (Z.to_nat (i - 1)) rows VNone)) VNone).
Proof.
  intros Hr Hi Hk. unfold array_data. rewrite getitem_nth by lia. cbn [bind].
  destruct (rect_nth w rows (Z.to_nat (i - 1)) Hr) as (cells & -> & Hw); [unfold zlen in Hi; lia|].
  rewrite getitem_nth by lia. reflexivity.
Qed.

(* INDEX(t, i, k) = t[i-1][k-1] inside the table *)
Lemma index_cell w rows i k : rect w rows -> 1 <= i <= zlen rows -> 1 <= k <= w ->
  index_ (VTuple rows) (VInt i) (VInt k)
  = array_data (VTuple rows) (VInt (i - 1)) (VInt (k - 1)).
Proof.
  intros Hr Hi Hk. rewrite (array_data_cell w rows i k Hr Hi Hk).
  unfold index_. rewrite list_like_tuple. cbn [cond_of bind py_truthy negb].
  assert (Hrows : (0 < length rows)%nat) by (unfold zlen in Hi; lia).
  rewrite getitem_nth by lia.
  destruct (rect_nth w rows 0 Hr Hrows) as (c0 & E0 & Hw0).
  change (Z.to_nat 0) with 0%nat. rewrite E0. cbn [bind]. rewrite list_like_tuple.
  cbn [cond_of bind py_truthy negb]. rewrite getitem_nth by lia. cbn [bind].
  unfold index_body. cbn [py_truthy].
  replace (i =? 0) with false by (symmetry; apply Z.eqb_neq; lia).
  replace (k =? 0) with false by (symmetry; apply Z.eqb_neq; lia).
  cbn [negb andb b_or py_lt scalar_lt as_num bind].
  replace (i <? 0) with false by (symmetry; apply Z.ltb_ge; lia).
  replace (k <? 0) with false by (symmetry; apply Z.ltb_ge; lia).
  unfold py_sub, Py.arith. cbn [as_num bind].
  rewrite (array_data_cell w rows i k Hr Hi Hk). reflexivity.
Qed.

(* INDEX bounds, any table: a negative index is #VALUE!, an index beyond a
   rectangular table is #REF! *)
Lemma index_negative w rows i k : rect w rows -> rows <> [] -> 1 <= w ->
  i <> 0 -> k <> 0 -> (i < 0 \/ k < 0) ->
  index_ (VTuple rows) (VInt i) (VInt k) = Ok VALUE.
Proof.
  intros Hr Hne Hw Hi Hk Hneg. unfold index_. rewrite list_like_tuple.
  cbn [cond_of bind py_truthy negb].
  assert (Hrows : (0 < length rows)%nat) by (destruct rows; [congruence|cbn; lia]).
  rewrite getitem_nth by (unfold zlen; lia).
  destruct (rect_nth w rows 0 Hr Hrows) as (c0 & E0 & Hw0).
  change (Z.to_nat 0) with 0%nat. rewrite E0. cbn [bind]. rewrite list_like_tuple.
  cbn [cond_of bind py_truthy negb]. rewrite getitem_nth by lia. cbn [bind].
  unfold index_body. cbn [py_truthy].
  replace (i =? 0) with false by (symmetry; apply Z.eqb_neq; lia).
  replace (k =? 0) with false by (symmetry; apply Z.eqb_neq; lia).
  cbn [negb andb b_or py_lt scalar_lt as_num bind].
  destruct (Z.ltb_spec i 0); cbn [bind try_except]; [reflexivity|].
  replace (k <? 0) with true by (symmetry; apply Z.ltb_lt; lia). reflexivity.
Qed.

Lemma getitem_beyond l z : zlen l <= z -> py_getitem (VTuple l) (VInt z) = Raise IndexError.
Proof.
  intros H. cbn [py_getitem as_index]. unfold index_nth.
  assert (0 <= zlen l) by (unfold zlen; lia).
  replace (z <? 0) with false by (symmetry; apply Z.ltb_ge; lia).
  replace (z <? 0) with false by (symmetry; apply Z.ltb_ge; lia).
  replace (zlen l <=? z) with true by (symmetry; apply Z.leb_le; lia). reflexivity.
Qed.

Lemma index_beyond w rows i k : rect w rows -> rows <> [] -> 1 <= w ->
  1 <= i -> 1 <= k -> (zlen rows < i \/ w < k) ->
  index_ (VTuple rows) (VInt i) (VInt k) = Ok REF.
Proof.
  intros Hr Hne Hw Hi Hk Hb. unfold index_. rewrite list_like_tuple.
  cbn [cond_of bind py_truthy negb].
  assert (Hrows : (0 < length rows)%nat) by (destruct rows; [congruence|cbn; lia]).
  rewrite getitem_nth by (unfold zlen; lia).
  destruct (rect_nth w rows 0 Hr Hrows) as (c0 & E0 & Hw0).
  change (Z.to_nat 0) with 0%nat. rewrite E0. cbn [bind]. rewrite list_like_tuple.
  cbn [cond_of bind py_truthy negb]. rewrite getitem_nth by lia. cbn [bind].
  unfold index_body. cbn [py_truthy].
  replace (i =? 0) with false by (symmetry; apply Z.eqb_neq; lia).
  replace (k =? 0) with false by (symmetry; apply Z.eqb_neq; lia).
  cbn [negb andb b_or py_lt scalar_lt as_num bind].
  replace (i <? 0) with false by (symmetry; apply Z.ltb_ge; lia).
  replace (k <? 0) with false by (symmetry; apply Z.ltb_ge; lia).
  unfold py_sub, Py.arith. cbn [as_num bind]. unfold array_data.
  destruct (Z.ltb_spec (zlen rows) i) as [Hbi|Hbi].
  - rewrite getitem_beyond by lia. reflexivity.
  - rewrite getitem_nth by lia. cbn [bind].
    destruct (rect_nth w rows (Z.to_nat (i - 1)) Hr) as (cells & -> & Hwc); [unfold zlen in Hbi; lia|].
    rewrite getitem_beyond by lia. reflexivity.
Qed.

(* the first column as the list comprehension of vlookup computes it *)
Lemma genexp_first_col w rows : rect w rows -> 1 <= w ->
  genexp (fun v_row => py_getitem v_row (VInt 0)) (fun _ => Ok true) rows
  = Ok (col_of 0 rows).
Proof.
  intros Hr Hw. induction rows as [|row rows IH]; [reflexivity|].
  inversion Hr as [|? ? (cells & -> & Hc) Hr']; subst.
  cbn [genexp bind]. rewrite (IH Hr'). rewrite getitem_nth by lia. reflexivity.
Qed.

Definition is_int (m : pyval) : bool := match m with VInt _ => true | _ => false end.

Lemma na_not_int : py_isinstance NA [TInt] = false.
Proof. reflexivity. Qed.

(* VLOOKUP bounds *)
Lemma vlookup_low v rows k r : k <= 0 ->
  lookup.f_vlookup v (VTuple rows) (VInt k) r = Ok VALUE.
Proof.
  intros Hk. unfold lookup.f_vlookup. py_run. rewrite list_like_tuple. py_run.
  replace (k <=? 0) with true by (symmetry; apply Z.leb_le; lia). reflexivity.
Qed.
Lemma hlookup_low v rows k r : k <= 0 ->
  lookup.f_hlookup v (VTuple rows) (VInt k) r = Ok VALUE.
Proof.
  intros Hk. unfold lookup.f_hlookup. py_run. rewrite list_like_tuple. py_run.
  replace (k <=? 0) with true by (symmetry; apply Z.leb_le; lia). reflexivity.
Qed.
Lemma vlookup_high v cells0 rows k r : zlen cells0 < k -> 0 < k ->
  lookup.f_vlookup v (VTuple (VTuple cells0 :: rows)) (VInt k) r = Ok REF.
Proof.
  intros Hk Hk0. unfold lookup.f_vlookup. py_run. rewrite list_like_tuple. py_run.
  replace (k <=? 0) with false by (symmetry; apply Z.leb_gt; lia). py_run.
  fold (zlen cells0).
  replace (zlen cells0 <? k) with true by (symmetry; apply Z.ltb_lt; lia). reflexivity.
Qed.
Lemma hlookup_high v rows k r : zlen rows < k -> 0 < k ->
  lookup.f_hlookup v (VTuple rows) (VInt k) r = Ok REF.
Proof.
  intros Hk Hk0. unfold lookup.f_hlookup. py_run. rewrite list_like_tuple. py_run.
  replace (k <=? 0) with false by (symmetry; apply Z.leb_gt; lia). py_run.
  fold (zlen rows).
  replace (zlen rows <? k) with true by (symmetry; apply Z.ltb_lt; lia). reflexivity.
Qed.

Lemma match_list_tuple v l mt : match_ v (VList l) mt = match_ v (VTuple l) mt.
Proof. reflexivity. Qed.

Lemma col_of_length j rows : length (col_of j rows) = length rows.
Proof. unfold col_of. apply map_length. Qed.

(* VLOOKUP(v, t, k, r) = INDEX(t, MATCH(v, first column, r ? 1 : 0), k):
   the error MATCH returns, or the cell INDEX returns at the position found *)
Lemma rect_head w rows : rect w rows -> rows <> [] ->
  exists c0 rest, rows = VTuple c0 :: rest /\ zlen c0 = w.
Proof.
  intros Hr Hne. destruct rows as [|r0 rest]; [congruence|].
  inversion Hr as [|? ? (c0 & -> & Hw0) _]; subst. eauto.
Qed.

Theorem vlookup_is_index_match v w rows k r :
  rect w rows -> rows <> [] -> 1 <= k <= w ->
  lookup.f_vlookup v (VTuple rows) (VInt k) r
  = (m <- match_ v (VTuple (col_of 0 rows)) (VBool (py_truthy r)) ;;
     if is_int m then index_ (VTuple rows) m (VInt k) else Ok m).
Proof.
  intros Hr Hne Hk. destruct (rect_head w rows Hr Hne) as (c0 & rest & E & Hw0).
  unfold lookup.f_vlookup. py_run. rewrite list_like_tuple. py_run.
  replace (k <=? 0) with false by (symmetry; apply Z.leb_gt; lia). py_run.
  rewrite E at 1. py_run. fold (zlen c0). rewrite Hw0.
  replace (w <? k) with false by (symmetry; apply Z.ltb_ge; lia). py_run.
  rewrite (genexp_first_col w rows Hr) by lia. py_run.
  rewrite match_list_tuple.
  destruct (match_ v (VTuple (col_of 0 rows)) (VBool (py_truthy r))) as [m|e] eqn:Em;
    cbn [bind]; [|reflexivity].
  destruct (match_range v (VTuple (col_of 0 rows)) _ (col_of 0 rows) m eq_refl Em) as [->|(i & -> & Hi)].
  - reflexivity.
  - cbn [py_isinstance existsb has_ty orb is_int]. unfold zlen in Hi. rewrite col_of_length in Hi.
    rewrite (index_cell w rows i k Hr) by (unfold zlen; lia).
    unfold array_data, lift2, py_sub, Py.arith. cbn [as_num bind]. reflexivity.
Qed.

Theorem hlookup_is_index_match v w rows k r :
  rect w rows -> 1 <= w -> 1 <= k <= zlen rows ->
  lookup.f_hlookup v (VTuple rows) (VInt k) r
  = (m <- match_ v (nth 0 rows VNone) (VBool (py_truthy r)) ;;
     if is_int m then index_ (VTuple rows) (VInt k) m else Ok m).
Proof.
  intros Hr Hw Hk.
  assert (Hne : rows <> []) by (intros ->; unfold zlen in Hk; cbn in Hk; lia).
  destruct (rect_head w rows Hr Hne) as (c0 & rest & E & Hw0).
  unfold lookup.f_hlookup. py_run. rewrite list_like_tuple. py_run.
  replace (k <=? 0) with false by (symmetry; apply Z.leb_gt; lia). py_run.
  fold (zlen rows).
  replace (zlen rows <? k) with false by (symmetry; apply Z.ltb_ge; lia). py_run.
  rewrite E at 1. py_run. rewrite E at 1. cbn [nth].
  destruct (match_ v (VTuple c0) (VBool (py_truthy r))) as [m|e] eqn:Em;
    cbn [bind]; [|reflexivity].
  destruct (match_range v (VTuple c0) _ c0 m eq_refl Em) as [->|(i & -> & Hi)].
  - reflexivity.
  - cbn [py_isinstance existsb has_ty orb is_int].
    rewrite (index_cell w rows k i Hr) by lia.
    unfold array_data, lift2, py_sub, Py.arith. cbn [as_num bind]. reflexivity.
Qed.

(* ------------------------------------------------------------- transposition *)
Lemma map_nth' {A B} (f : A -> B) l n dA dB : (n < length l)%nat ->
  nth n (map f l) dB = f (nth n l dA).
Proof.
  intros H. rewrite (nth_indep _ dB (f dA)) by (rewrite map_length; exact H). apply map_nth.
Qed.

Lemma transpose_length w rows : length (transpose w rows) = w.
Proof. unfold transpose. rewrite map_length. apply seq_length. Qed.

Lemma transpose_nth w rows j : (j < w)%nat ->
  nth j (transpose w rows) VNone = VTuple (col_of j rows).
Proof.
  intros H. unfold transpose. rewrite (map_nth' _ _ _ 0%nat) by (rewrite seq_length; exact H).
  rewrite seq_nth by exact H. reflexivity.
Qed.

Lemma transpose_rect w rows : rect (zlen rows) (transpose w rows).
Proof.
  unfold rect, transpose. apply Forall_forall. intros row Hin.
  apply in_map_iff in Hin. destruct Hin as (j & <- & _).
  exists (col_of j rows). split; [reflexivity|]. unfold zlen. rewrite col_of_length. reflexivity.
Qed.

Lemma transpose_cell w rows i k : (i < length rows)%nat -> (k < w)%nat ->
  nth i (cells_of (nth k (transpose w rows) VNone)) VNone
  = nth k (cells_of (nth i rows VNone)) VNone.
Proof.
  intros Hi Hk. rewrite transpose_nth by exact Hk. cbn [cells_of]. unfold col_of.
  rewrite (map_nth' _ _ _ VNone) by exact Hi. reflexivity.
Qed.

(* VLOOKUP on a table = HLOOKUP on its transpose: every rectangular table,
   every lookup value, every index (in range or not), every range_lookup *)
Theorem vlookup_transpose v w rows k r :
  rect w rows -> rows <> [] -> 1 <= w ->
  lookup.f_vlookup v (VTuple rows) (VInt k) r
  = lookup.f_hlookup v (VTuple (transpose (Z.to_nat w) rows)) (VInt k) r.
Proof.
  intros Hr Hne Hw.
  assert (HT : zlen (transpose (Z.to_nat w) rows) = w)
    by (unfold zlen; rewrite transpose_length; lia).
  destruct (Z.leb_spec k 0) as [Hk0|Hk0].
  { rewrite vlookup_low, hlookup_low by exact Hk0. reflexivity. }
  destruct (Z.ltb_spec w k) as [Hkw|Hkw].
  { destruct (rect_head w rows Hr Hne) as (c0 & rest & -> & Hw0).
    rewrite vlookup_high by lia. rewrite hlookup_high by lia. reflexivity. }
  rewrite (vlookup_is_index_match v w rows k r Hr Hne) by lia.
  rewrite (hlookup_is_index_match v (zlen rows) _ k r (transpose_rect _ rows)).
  2:{ destruct rows; [congruence|]. unfold zlen. cbn [length]. lia. }
  2:{ lia. }
  rewrite transpose_nth by lia.
  destruct (match_ v (VTuple (col_of 0 rows)) (VBool (py_truthy r))) as [m|e] eqn:Em;
    cbn [bind]; [|reflexivity].
  destruct (match_range v (VTuple (col_of 0 rows)) _ (col_of 0 rows) m eq_refl Em)
    as [->|(i & -> & Hi)]; [reflexivity|].
  cbn [is_int]. unfold zlen in Hi. rewrite col_of_length in Hi.
  rewrite (index_cell w rows i k Hr) by (unfold zlen; lia).
  rewrite (index_cell (zlen rows) _ k i (transpose_rect _ rows)) by (unfold zlen in *; lia).
  rewrite (array_data_cell w rows i k Hr) by (unfold zlen; lia).
  rewrite (array_data_cell (zlen rows) _ k i (transpose_rect _ rows)) by (unfold zlen in *; lia).
  f_equal. symmetry. apply transpose_cell; lia.
Qed.

(* VLOOKUP never returns a cell outside the table: #N/A, or the cell of
   column k in a row 1..h *)
Theorem vlookup_in_table v w rows k r c :
  rect w rows -> rows <> [] -> 1 <= k <= w ->
  lookup.f_vlookup v (VTuple rows) (VInt k) r = Ok c ->
  c = NA \/ exists i, 1 <= i <= zlen rows
                      /\ c = nth (Z.to_nat (k - 1)) (cells_of (nth (Z.to_nat (i - 1)) rows VNone)) VNone.
Proof.
  intros Hr Hne Hk. rewrite (vlookup_is_index_match v w rows k r Hr Hne Hk).
  destruct (match_ v (VTuple (col_of 0 rows)) (VBool (py_truthy r))) as [m|e] eqn:Em;
    cbn [bind]; [|discriminate].
  destruct (match_range v (VTuple (col_of 0 rows)) _ (col_of 0 rows) m eq_refl Em)
    as [->|(i & -> & Hi)].
  - cbn [is_int NA]. intros H. injection H as <-. auto.
  - cbn [is_int]. unfold zlen in Hi. rewrite col_of_length in Hi.
    rewrite (index_cell w rows i k Hr) by (unfold zlen; lia).
    rewrite (array_data_cell w rows i k Hr) by (unfold zlen; lia).
    intros H. injection H as <-. right. exists i. split; [unfold zlen; lia|reflexivity].
Qed.

(* -------------------------------------- MATCH(v, a, -1): what a hit guarantees *)
Lemma scan_m1_hit xk l : forall i last m, scan_m1 xk l i last = Ok m ->
  m = last \/ exists n c k, m = VInt (i + Z.of_nat n) /\ nth_error l n = Some c
                            /\ in_error_codes c = Ok false /\ abs_key c = Ok k
                            /\ fst k = fst xk /\ key_lt true k xk = Ok false.
Proof.
  induction l as [|c l IH]; intros i last m; cbn [scan_m1].
  - intros H. injection H as <-. auto.
  - assert (Hhit : forall k, in_error_codes c = Ok false -> abs_key c = Ok k -> fst k = fst xk ->
              key_lt true k xk = Ok false ->
              exists n c' k', VInt i = VInt (i + Z.of_nat n) /\ nth_error (c :: l) n = Some c'
                /\ in_error_codes c' = Ok false /\ abs_key c' = Ok k'
                /\ fst k' = fst xk /\ key_lt true k' xk = Ok false).
    { intros k H1 H2 H3 H4. exists 0%nat, c, k. rewrite Z.add_0_r. cbn [nth_error]. auto 10. }
    assert (Hrec : forall last', (last' = last \/ exists n c' k', last' = VInt (i + Z.of_nat n)
                /\ nth_error (c :: l) n = Some c'
                /\ in_error_codes c' = Ok false /\ abs_key c' = Ok k'
                /\ fst k' = fst xk /\ key_lt true k' xk = Ok false) ->
              scan_m1 xk l (i + 1) last' = Ok m ->
              m = last \/ exists n c' k', m = VInt (i + Z.of_nat n) /\ nth_error (c :: l) n = Some c'
                /\ in_error_codes c' = Ok false /\ abs_key c' = Ok k'
                /\ fst k' = fst xk /\ key_lt true k' xk = Ok false).
    { intros last' Hl H. destruct (IH _ _ _ H) as [->|(n & c' & k' & -> & Hn & Hrest)].
      - exact Hl.
      - right. exists (S n), c', k'. split; [f_equal; lia|]. cbn [nth_error]. auto. }
    destruct (in_error_codes c) as [[|]|e] eqn:Ee; cbn [bind]; try discriminate;
      try (apply Hrec; auto; fail).
    destruct (abs_key c) as [k|e] eqn:Ek; cbn [bind]; try discriminate.
    destruct (Z.eqb_spec (fst k) (fst xk)) as [Et|Et]; cbn [bind]; try (apply Hrec; auto; fail).
    destruct (key_lt true k xk) as [[|]|e] eqn:El; cbn [bind]; try discriminate.
    + intros H. injection H as <-. auto.
    + destruct (key_eq k xk).
      * intros H. injection H as <-. right. apply (Hhit k); auto.
      * apply Hrec. right. apply (Hhit k); auto.
Qed.

(* ---------------------------------------- MATCH(v, a, 1): what a hit guarantees *)
Lemma backoff_hit t l n : backoff t l = Ok n ->
  n = O \/ exists pre c post k, l = pre ++ c :: post /\ n = S (length post)
                                /\ abs_key c = Ok k /\ fst k = t.
Proof.
  revert n. induction l as [|c l IH]; intros n; cbn [backoff].
  - intros H. injection H as <-. auto.
  - destruct (abs_key c) as [k|e] eqn:Ek; cbn [bind]; [|discriminate].
    destruct (Z.eqb_spec (fst k) t) as [Et|Et].
    + intros H. injection H as <-. right. exists [], c, l, k. cbn [app length]. auto.
    + intros H. destruct (IH _ H) as [->|(pre & c' & post & k' & -> & -> & Hk & Ht)]; [auto|].
      right. exists (c :: pre), c', post, k'. auto.
Qed.

Lemma rev_prefix_nth (a : list pyval) r pre c post :
  rev (firstn r a) = pre ++ c :: post -> nth_error a (length post) = Some c.
Proof.
  intros H. apply (f_equal (@rev pyval)) in H. rewrite rev_involutive in H.
  rewrite rev_app_distr in H. cbn [rev] in H.
  rewrite <- (firstn_skipn r a). rewrite H.
  rewrite <- !app_assoc. rewrite nth_error_app2 by (rewrite rev_length; lia).
  rewrite rev_length, Nat.sub_diag. reflexivity.
Qed.

Lemma match1_hit x a i : match1 x a = Ok (VInt i) ->
  exists c k, 1 <= i <= zlen a /\ nth_error a (Z.to_nat (i - 1)) = Some c /\ c <> VNone
              /\ abs_key c = Ok k /\ fst k = fst (fst x).
Proof.
  unfold match1.
  destruct (bisect_right _ a _ _) as [r|e]; cbn [bind]; [|discriminate].
  destruct (backoff _ _) as [[|j]|e] eqn:Eb; cbn [bind]; try discriminate.
  destruct (backoff_hit _ _ _ Eb) as [H0|(pre & c & post & k & Hl & Hn & Hk & Ht)]; [discriminate|].
  injection Hn as ->. pose proof (rev_prefix_nth a _ pre c post Hl) as Hnth. rewrite Hnth.
  assert (Hlen : (length post < length a)%nat) by (apply nth_error_Some; congruence).
  intros H.
  assert (Hc : c <> VNone /\ i = Z.of_nat (S (length post))).
  { destruct c; try discriminate; injection H as <-; split; try discriminate; reflexivity. }
  destruct Hc as [Hc ->]. exists c, k. split; [unfold zlen; lia|].
  replace (Z.to_nat (Z.of_nat (S (length post)) - 1)) with (length post) by lia.
  auto.
Qed.

(* ------------------------------------------------------ examples (non-vacuity) *)
Definition s_a := VStr [97]. Definition s_B := VStr [66]. Definition s_b := VStr [98].
Example ex_match1 :
  match_ (VFloat (5 # 2)) (VTuple [VNone; VInt 1; VInt 2; VInt 3; s_a; VBool true; VNone]) (VInt 1)
  = Ok (VInt 3).
Proof. vm_compute. reflexivity. Qed.
Example ex_match1_text :
  match_ s_B (VTuple [VInt 1; s_a; s_b; VStr [99]; VBool true]) (VInt 1) = Ok (VInt 3).
Proof. vm_compute. reflexivity. Qed.
Example ex_match0_case :
  match_ s_B (VTuple [VInt 1; s_a; excelutil.c_DIV0; s_b; s_B]) (VInt 0) = Ok (VInt 4).
Proof. vm_compute. reflexivity. Qed.
Example ex_match0_wild :
  match_ (VStr [97; 42]) (VTuple [VInt 1; s_b; VStr [65; 98; 99]]) (VInt 0) = Ok (VInt 3).
Proof. vm_compute. reflexivity. Qed.
Example ex_match_m1 :
  match_ (VInt 2) (VTuple [VInt 5; VInt 3; VInt 1]) (VInt (-1)) = Ok (VInt 2).
Proof. vm_compute. reflexivity. Qed.
Example ex_vlookup :
  lookup.f_vlookup (VInt 2) (VTuple [VTuple [VInt 1; s_a]; VTuple [VInt 2; s_b]; VTuple [VInt 3; s_B]])
    (VInt 2) (VBool false) = Ok s_b.
Proof. vm_compute. reflexivity. Qed.
Example ex_transpose :
  transpose 2 [VTuple [VInt 1; s_a]; VTuple [VInt 2; s_b]]
  = [VTuple [VInt 1; VInt 2]; VTuple [s_a; s_b]].
Proof. reflexivity. Qed.

Lemma index_cell_value w rows i k : rect w rows -> 1 <= i <= zlen rows -> 1 <= k <= w ->
  index_ (VTuple rows) (VInt i) (VInt k)
  = Ok (nth (Z.to_nat (k - 1)) (cells_of (nth (Z.to_nat (i - 1)) rows VNone)) VNone).
Proof.
  intros Hr Hi Hk. rewrite (index_cell w rows i k Hr Hi Hk). apply (array_data_cell w rows i k Hr Hi Hk).
Qed.
