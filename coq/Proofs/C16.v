(* Proofs/C16.v — lookup functions (placeholder while the harness is brought up) *)
From Coq Require Import ZArith QArith List Bool Lia.
From PV Require Import Lib.Py Proofs.PyTac Model.Ops Model.LookupCore.
From PV Require Gen.excelutil Gen.lookup.
Import ListNotations.
Open Scope Z_scope.
