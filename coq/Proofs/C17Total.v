(* Proofs/C17Total.v — "out-of-range results are #NUM!, never an exception":
   which results DATE / EDATE / EOMONTH / YEAR / MONTH / DAY / WEEKDAY can have on
   integer arguments, on the generated code (Gen/date_time.v) under the decorator
   wrappers (Model/DateFuncs.v).  Since repair 7da3fd9 (dates normalised to a year
   before 1 are #NUM!) the only way the generated code raises on integers is
   running out of the recursion budget of normalize_year (one call per month
   carried): witnessed in Refuted/C17_date_exceptions.v. *)
From Coq Require Import ZArith QArith Qround List Bool Lia.
From PV Require Import Lib.Py Lib.PyDate Proofs.PyTac Proofs.NumLemmas Proofs.C17Cal Proofs.C17Base
  Proofs.C17 Proofs.C17Carry Proofs.C17Months Model.Wrap Model.DateFuncs.
From PV Require Gen.excelutil Gen.date_time.
Import ListNotations.
Open Scope Z_scope.

(* a DATE result: #NUM!, the float 60.0 (the phantom 1900-02-29) or a serial day *)
Definition date_value (v : pyval) : Prop :=
  v = excelutil.c_NUM_ERROR \/ v = VFloat 60 \/ exists z, v = VInt z /\ 0 <= z <= 2958465.
(* an EDATE/EOMONTH result *)
Definition num_or_int (v : pyval) : Prop := v = excelutil.c_NUM_ERROR \/ exists z, v = VInt z.

(* ---------------------------------------- normalize_year always returns *)
Lemma nyear_prev y m : 1 <= m <= 12 -> y - 1 <= nyear y (m - 1).
Proof. intros H. unfold nyear. Z.div_mod_to_equations. lia. Qed.
Lemma nyear_next y m : 1 <= m <= 12 -> y <= nyear y (m + 1).
Proof. intros H. unfold nyear. Z.div_mod_to_equations. lia. Qed.

(* [S f] calls suffice for 28 f + 28 days forward and 28 (f - 2) + 27 days backward
   (a borrow can overshoot by one month: the finding C17-day-borrow), for EVERY
   integer year and month: before year 1 the triple is returned at once *)
Lemma normalize_total f : forall y m d,
  (1 <= d <= 28 * Z.of_nat f + 28) \/ (d <= 0 /\ 2 <= Z.of_nat f /\ - d <= 28 * (Z.of_nat f - 2) + 27) ->
  exists y' m' d', date_time.f_normalize_year (S f) (VInt y) (VInt m) (VInt d)
                   = Ok (VTuple [VInt y'; VInt m'; VInt d']).
Proof.
  induction f as [|f IH]; intros y m d Hd; rewrite normalize_month;
    pose proof (nmonth_range m) as R; pose proof (xdim_bounds (nyear y m) (nmonth m) R) as B;
    (destruct (Z_lt_dec (nyear y m) 1) as [L|G];
     [rewrite normalize_before_year1 by assumption; eauto|]);
    rewrite (normalize_step _ _ _ _ (xdim (nyear y m) (nmonth m))) by (try lia; apply max_days_val; lia).
  - replace (d <=? 0) with false by (symmetry; apply Z.leb_gt; cbn in Hd; lia).
    replace (xdim (nyear y m) (nmonth m) <? d) with false by (symmetry; apply Z.ltb_ge; cbn in Hd; lia).
    eauto.
  - rewrite Nat2Z.inj_succ in *.
    destruct (d <=? 0) eqn:E0; [apply Z.leb_le in E0 | apply Z.leb_gt in E0].
    + destruct (IH (nyear y m) (nmonth m - 1) (d + xdim (nyear y m) (nmonth m)) ltac:(lia))
        as (y' & m' & d' & Q).
      rewrite Q, retup_ok. eauto.
    + destruct (xdim (nyear y m) (nmonth m) <? d) eqn:E1;
        [apply Z.ltb_lt in E1 | eauto].
      destruct (IH (nyear y m) (nmonth m + 1) (d - xdim (nyear y m) (nmonth m)) ltac:(lia))
        as (y' & m' & d' & Q).
      rewrite Q, retup_ok. eauto.
Qed.

(* ----------------------------------------------------------------- DATE *)
Lemma date_tail_value y m d : date_value (date_tail y m d).
Proof.
  unfold date_tail, date_value.
  destruct ((1 <=? y) && (y <=? 9999) && (1 <=? m) && (m <=? 12) && (1 <=? d) && (d <=? days_in_month y m)) eqn:V.
  - repeat (apply andb_true_iff in V; destruct V as [V ?]).
    repeat match goal with H : (_ <=? _) = true |- _ => apply Z.leb_le in H end.
    pose proof (ymd2ord_le_max y m d ltac:(lia) ltac:(lia) ltac:(lia)) as U. unfold MAXORD in U.
    cbv zeta. destruct (ymd2ord y m d - 693594 <=? 60) eqn:E60;
      [apply Z.leb_le in E60 | apply Z.leb_gt in E60].
    + destruct (ymd2ord y m d - 693594 - 1 <? 0) eqn:En; [left; reflexivity|].
      apply Z.ltb_ge in En. right. right. eexists. split; [reflexivity|lia].
    + destruct (ymd2ord y m d - 693594 <? 0) eqn:En; [left; reflexivity|].
      right. right. eexists. split; [reflexivity|lia].
  - destruct ((y =? 1900) && ((m =? 2) && ((d =? 29) && true))); [right; left|left]; reflexivity.
Qed.

Lemma yadj_range y : 0 <= y <= 9999 -> 1900 <= yadj y <= 9999.
Proof.
  intros H. unfold yadj. destruct (y <? 1900) eqn:E; [apply Z.ltb_lt in E|apply Z.ltb_ge in E]; lia.
Qed.

(* EVERY integer year and month, every day within +-25000 (the recursion budget
   of normalize_year: one nested call per month carried, 900 calls): a value *)
Lemma date_total y m d : -25000 <= d <= 25000 ->
  exists v, date_time.f_date (VInt y) (VInt m) (VInt d) = Ok v /\ date_value v.
Proof.
  intros Hd. destruct (Z_le_dec 0 y) as [H0|H0]; [destruct (Z_le_dec y 9999) as [H9|H9]|].
  - destruct (normalize_total 899 (yadj y) m d) as (y' & m' & d' & Q).
    { change (Z.of_nat 899) with 899. lia. }
    rewrite (date_norm y m d y' m' d' ltac:(lia) Q). eexists. split; [reflexivity|apply date_tail_value].
  - rewrite date_year_range by lia. eexists. split; [reflexivity|left; reflexivity].
  - rewrite date_year_range by lia. eexists. split; [reflexivity|left; reflexivity].
Qed.

(* for days 1..28 there is no bound at all: ALL integer years and months give a value
   (before repair 7da3fd9: TypeError when February of a year <= 0 was reached) *)
Lemma date_small_day y m d : 1 <= d <= 28 ->
  exists v, date_time.f_date (VInt y) (VInt m) (VInt d) = Ok v /\ date_value v.
Proof. intros Hd. apply date_total. lia. Qed.

(* and the value is #NUM! whenever the normalised year is before 1, for EVERY day *)
Lemma date_before_year1 y m d : nyear (yadj y) m < 1 ->
  date_time.f_date (VInt y) (VInt m) (VInt d) = Ok excelutil.c_NUM_ERROR.
Proof.
  intros Hy. destruct (Z_le_dec 0 y) as [H0|H0]; [destruct (Z_le_dec y 9999) as [H9|H9]|];
    try (apply date_year_range; lia).
  rewrite (date_norm y m d _ _ _ ltac:(lia) (normalize_fits 899 (yadj y) m d (or_introl Hy))).
  unfold date_tail.
  replace (1 <=? nyear (yadj y) m) with false by (symmetry; apply Z.leb_gt; lia).
  replace (nyear (yadj y) m =? 1900) with false by (symmetry; apply Z.eqb_neq; lia). reflexivity.
Qed.

(* --------------------------------------------- the parts of every serial day *)
Definition parts_ok (n : Z) : bool :=
  match date_time.f_date_from_int (VInt n) with
  | Ok (VTuple [VInt y; VInt m; VInt d]) =>
      (1900 <=? y) && (y <=? 9999) && (1 <=? m) && (m <=? 12) && (0 <=? d) && (d <=? 31)
  | _ => false
  end.
Lemma parts_early : allb parts_ok 61 0 = true.
Proof. vm_compute. reflexivity. Qed.

Lemma from_int_total n : 0 <= n <= 2958465 ->
  exists y m d, date_time.f_date_from_int (VInt n) = Ok (VTuple [VInt y; VInt m; VInt d])
    /\ 1900 <= y <= 9999 /\ 1 <= m <= 12 /\ 0 <= d <= 31.
Proof.
  intros H. destruct (Z_le_dec n 60) as [Hs|Hl].
  - pose proof (allb_spec parts_ok 61 0 parts_early n ltac:(cbn; lia)) as P. unfold parts_ok in P.
    destruct (date_time.f_date_from_int (VInt n)) as [v|]; [|discriminate P].
    destruct v as [| | | | |l| | | |]; try discriminate P.
    destruct l as [|a [|b [|c [|]]]]; try discriminate P;
      (destruct a as [| |y| | | | | | |]; try discriminate P);
      (try (destruct b as [| |m| | | | | | |]; try discriminate P));
      (try (destruct c as [| |d| | | | | | |]; try discriminate P)).
    repeat (apply andb_true_iff in P; destruct P as [P ?]).
    repeat match goal with H : (_ <=? _) = true |- _ => apply Z.leb_le in H end.
    exists y, m, d. repeat split; lia.
  - destruct (ord2ymd (693594 + n)) as [[y m] d] eqn:E.
    destruct (from_int_spec n y m d ltac:(lia) E) as (F & Hy & Hm & Hd & _).
    pose proof (dim_bounds y m Hm). exists y, m, d. repeat split; try assumption; lia.
Qed.

(* ------------------------------------------------ the decorator wrappers *)
Lemma serial_wrap_int f n : serial_wrap f [VInt n] =
  if n <? 0 then Ok excelutil.c_NUM_ERROR
  else if 2958466 <=? n then Ok excelutil.c_NUM_ERROR else f (VInt n).
Proof. reflexivity. Qed.

Lemma X_date_int y m d : X_date [VInt y; VInt m; VInt d] = date_time.f_date (VInt y) (VInt m) (VInt d).
Proof. reflexivity. Qed.
Lemma X_edate_int n k : X_edate [VInt n; VInt k] = date_time.f_edate (VInt n) (VInt k).
Proof. reflexivity. Qed.
Lemma X_eomonth_int n k : X_eomonth [VInt n; VInt k] = date_time.f_eomonth (VInt n) (VInt k).
Proof. reflexivity. Qed.

(* YEAR / MONTH / DAY / WEEKDAY of ANY integer: #NUM! outside 0..2958465, a
   number of the right range inside — never an exception *)
Lemma serial_total n :
  (0 <= n <= 2958465 ->
     exists y m d w, X_year [VInt n] = Ok (VInt y) /\ X_month [VInt n] = Ok (VInt m)
       /\ X_day [VInt n] = Ok (VInt d) /\ X_weekday [VInt n] = Ok (VInt w)
       /\ 1900 <= y <= 9999 /\ 1 <= m <= 12 /\ 0 <= d <= 31 /\ 1 <= w <= 7)
  /\ (~ 0 <= n <= 2958465 ->
     X_year [VInt n] = Ok excelutil.c_NUM_ERROR /\ X_month [VInt n] = Ok excelutil.c_NUM_ERROR
     /\ X_day [VInt n] = Ok excelutil.c_NUM_ERROR /\ X_weekday [VInt n] = Ok excelutil.c_NUM_ERROR).
Proof.
  unfold X_year, X_month, X_day, X_weekday. rewrite !serial_wrap_int. split; intros H.
  - replace (n <? 0) with false by (symmetry; apply Z.ltb_ge; lia).
    replace (2958466 <=? n) with false by (symmetry; apply Z.leb_gt; lia).
    destruct (from_int_total n H) as (y & m & d & F & Hy & Hm & Hd).
    destruct (weekday_period n) as [_ (w & W & Hw)].
    exists y, m, d, w. rewrite W.
    unfold date_time.f_year, date_time.f_month, date_time.f_day. dt_run. rewrite F. py_run.
    repeat split; lia.
  - destruct (n <? 0) eqn:E; [repeat split; reflexivity|]. apply Z.ltb_ge in E.
    replace (2958466 <=? n) with true by (symmetry; apply Z.leb_le; lia). repeat split; reflexivity.
Qed.

(* ------------------------------------------------------- EDATE / EOMONTH *)
Lemma months_out_of_range n k : ~ 0 <= n <= 2958465 ->
  date_time.f_eomonth (VInt n) (VInt k) = Ok excelutil.c_NUM_ERROR
  /\ date_time.f_edate (VInt n) (VInt k) = Ok excelutil.c_NUM_ERROR.
Proof.
  intros H. unfold date_time.f_eomonth, date_time.f_edate, date_time.f_months_inc. py_run.
  rewrite !coerce_int. py_run.
  destruct (n <? 0) eqn:E; py_run; [split; reflexivity|]. apply Z.ltb_ge in E.
  unfold date_time.c_DATE_MAX_INT. py_run.
  replace (2958466 <=? n) with true by (symmetry; apply Z.leb_le; lia). split; reflexivity.
Qed.

Lemma date_tail_first y m : num_or_int (date_tail y m 1).
Proof.
  destruct (date_tail_value y m 1) as [E|[E|(z & E & _)]]; [left; exact E| |right; eauto].
  exfalso. revert E. unfold date_tail.
  destruct ((1 <=? y) && (y <=? 9999) && (1 <=? m) && (m <=? 12) && (1 <=? 1) && (1 <=? days_in_month y m)).
  - cbv zeta. destruct (ymd2ord y m 1 - 693594 <=? 60);
      [destruct (ymd2ord y m 1 - 693594 - 1 <? 0)|destruct (ymd2ord y m 1 - 693594 <? 0)]; discriminate.
  - replace (1 =? 29) with false by reflexivity. rewrite !andb_false_r. discriminate.
Qed.

(* EVERY integer serial number and EVERY integer shift:
   EOMONTH is #NUM! or an integer, EDATE is #NUM!, a serial day or the float 60.0
   (EDATE(1900-01-29, 1) is the phantom leap day, which DATE spells 60.0) *)
Lemma months_total n k :
  (exists v, date_time.f_eomonth (VInt n) (VInt k) = Ok v /\ num_or_int v)
  /\ (exists v, date_time.f_edate (VInt n) (VInt k) = Ok v /\ date_value v).
Proof.
  destruct (Z_le_dec 0 n) as [H0|H0]; [destruct (Z_le_dec n 2958465) as [H9|H9]|];
    try (destruct (months_out_of_range n k ltac:(lia)) as [A B]; rewrite A, B;
         split; eexists; (split; [reflexivity|left; reflexivity])).
  destruct (from_int_total n ltac:(lia)) as (y & m & d & F & Hy & Hm & Hd). split.
  - rewrite (months_inc_eo n k y m d ltac:(lia) F).
    assert (Ya : yadj y = y) by (unfold yadj; replace (y <? 1900) with false by (symmetry; apply Z.ltb_ge; lia); reflexivity).
    pose proof (xdim_bounds (nyear y (m + k + 1)) (nmonth (m + k + 1)) (nmonth_range (m + k + 1))) as B.
    pose proof (normalize_fits 899 y (m + k + 1) 1 ltac:(right; lia)) as N.
    rewrite <- Ya in N at 1.
    rewrite (date_norm y (m + k + 1) 1 _ _ _ ltac:(lia) N).
    destruct (date_tail_first (nyear y (m + k + 1)) (nmonth (m + k + 1))) as [E|(z & E)];
      rewrite E; py_run; eexists; (split; [reflexivity|]).
    + left. reflexivity.
    + right. eexists. reflexivity.
  - rewrite (months_inc_ed n k y m d ltac:(lia) F).
    destruct (nyear y (m + k) <? 1); [eexists; split; [reflexivity|left; reflexivity]|].
    pose proof (xdim_bounds (nyear y (m + k)) (nmonth (m + k)) (nmonth_range (m + k))) as B.
    cbv zeta.
    apply date_total. destruct (xdim (nyear y (m + k)) (nmonth (m + k)) <? d); lia.
Qed.

Example months_total_ex :
  date_time.f_edate (VInt 29) (VInt 1) = Ok (VFloat 60)
  /\ date_time.f_eomonth (VInt 45000) (VInt (-10000)) = Ok excelutil.c_NUM_ERROR
  /\ date_time.f_edate (VInt 45000) (VInt 100000) = Ok excelutil.c_NUM_ERROR
  /\ date_time.f_date (VInt 2000) (VInt (-11000)) (VInt (-25000)) = Ok excelutil.c_NUM_ERROR
  /\ date_time.f_date (VInt 1900) (VInt (-22810)) (VInt 1) = Ok excelutil.c_NUM_ERROR
  /\ date_time.f_eomonth (VInt 100) (VInt (-22815)) = Ok excelutil.c_NUM_ERROR
  /\ date_time.f_edate (VInt 100) (VInt (-22814)) = Ok excelutil.c_NUM_ERROR
  /\ date_time.f_date (VInt 1950) (VInt 600) (VInt (-25000)) = Ok (VInt 11495).
Proof. repeat split; vm_compute; reflexivity. Qed.

(* the same through the decorator wrappers *)
Lemma wrapped_total :
  (forall y m d, -25000 <= d <= 25000 ->
     exists v, X_date [VInt y; VInt m; VInt d] = Ok v /\ date_value v)
  /\ (forall n k,
        (exists v, X_eomonth [VInt n; VInt k] = Ok v /\ num_or_int v)
        /\ (exists v, X_edate [VInt n; VInt k] = Ok v /\ date_value v)).
Proof.
  split.
  - intros y m d. rewrite X_date_int. apply date_total.
  - intros n k. rewrite X_eomonth_int, X_edate_int. apply months_total.
Qed.

(* --------------------------------- out-of-range results are exactly #NUM! *)
Lemma date_tail_num y m d : y < 1899 \/ 10000 <= y -> date_tail y m d = excelutil.c_NUM_ERROR.
Proof.
  intros Hy. unfold date_tail.
  destruct ((1 <=? y) && (y <=? 9999) && (1 <=? m) && (m <=? 12) && (1 <=? d) && (d <=? days_in_month y m)) eqn:V.
  - repeat (apply andb_true_iff in V; destruct V as [V ?]).
    repeat match goal with H : (_ <=? _) = true |- _ => apply Z.leb_le in H end.
    assert (L : ymd2ord y m d < 693594).
    { pose proof (ymd2ord_year_lt y m d 1899 1 1 ltac:(lia) ltac:(lia) ltac:(lia) ltac:(lia)) as Q.
      change (ymd2ord 1899 1 1) with 693231 in Q. lia. }
    cbv zeta. replace (ymd2ord y m d - 693594 <=? 60) with true by (symmetry; apply Z.leb_le; lia).
    replace (ymd2ord y m d - 693594 - 1 <? 0) with true by (symmetry; apply Z.ltb_lt; lia). reflexivity.
  - replace (y =? 1900) with false by (symmetry; apply Z.eqb_neq; lia). reflexivity.
Qed.

(* the forward day carry past 9999-12-31 is #NUM! *)
Lemma day_carry_overflow y m d : 1900 <= y <= 9999 ->
  1900 <= nyear y m -> (nyear y m = 1900 -> 3 <= nmonth m) ->
  1 <= d <= 25000 -> 2958465 < ymd2ord (nyear y m) (nmonth m) 1 - 693594 + d - 1 ->
  date_time.f_date (VInt y) (VInt m) (VInt d) = Ok excelutil.c_NUM_ERROR.
Proof.
  intros Hy Hy2 H3 Hd Hr. pose proof (nmonth_range m) as Hm.
  assert (Ya : yadj y = y) by (unfold yadj; replace (y <? 1900) with false by (symmetry; apply Z.ltb_ge; lia); reflexivity).
  destruct (normalize_carry 899 (nyear y m) (nmonth m) d ltac:(lia) Hm H3 ltac:(lia))
    as (y' & m' & d' & R & A1 & A2 & A3 & A4 & A5).
  rewrite (date_norm y m d y' m' d') by
    (try lia; rewrite Ya; unfold py_recursion_fuel; rewrite normalize_month; exact R).
  rewrite (ymd2ord_day (nyear y m) (nmonth m) d) in A5.
  assert (10000 <= y').
  { destruct (Z_le_dec 10000 y') as [L|G]; [exact L|].
    pose proof (ymd2ord_le_max y' m' d' ltac:(lia) ltac:(lia) ltac:(lia)). unfold MAXORD in *. lia. }
  rewrite date_tail_num by lia. reflexivity.
Qed.

(* EDATE / EOMONTH whose target month lies before 1899 or after 9999 are #NUM!,
   for EVERY integer shift (y3: the year of the month after the target, whose
   first day EOMONTH computes) *)
Lemma months_out_of_calendar n k y m d : 60 < n <= 2958465 -> ord2ymd (693594 + n) = (y, m, d) ->
  (let y2 := nyear y (m + k) in y2 < 1899 \/ 10000 <= y2 ->
   date_time.f_edate (VInt n) (VInt k) = Ok excelutil.c_NUM_ERROR)
  /\ (let y3 := nyear y (m + k + 1) in y3 < 1899 \/ 10000 <= y3 ->
      date_time.f_eomonth (VInt n) (VInt k) = Ok excelutil.c_NUM_ERROR).
Proof.
  intros Hn E. destruct (from_int_spec n y m d Hn E) as (F & Hy & Hm & Hd & Ho & HL).
  assert (Ya : yadj y = y) by (unfold yadj; replace (y <? 1900) with false by (symmetry; apply Z.ltb_ge; lia); reflexivity).
  split.
  - intros y2 Hy2. set (m2 := nmonth (m + k)).
    rewrite (months_inc_ed n k y m d ltac:(lia) F). fold y2 m2.
    destruct (y2 <? 1) eqn:E1; [reflexivity|]. apply Z.ltb_ge in E1. cbv zeta.
    pose proof (xdim_bounds y2 m2 (nmonth_range (m + k))) as B.
    set (dd := if xdim y2 m2 <? d then xdim y2 m2 else d).
    assert (Hdd : 1 <= dd <= xdim y2 m2).
    { unfold dd. destruct (xdim y2 m2 <? d) eqn:C; [apply Z.ltb_lt in C|apply Z.ltb_ge in C]; lia. }
    pose proof (normalize_fits 899 y (m + k) dd (or_intror Hdd)) as N. rewrite <- Ya in N at 1.
    rewrite (date_norm y (m + k) dd _ _ _ ltac:(lia) N). fold y2. rewrite date_tail_num by lia. reflexivity.
  - intros y3 Hy3. set (m3 := nmonth (m + k + 1)).
    rewrite (months_inc_eo n k y m d ltac:(lia) F).
    pose proof (xdim_bounds y3 m3 (nmonth_range (m + k + 1))) as B.
    pose proof (normalize_fits 899 y (m + k + 1) 1 ltac:(right; fold y3 m3; lia)) as N. rewrite <- Ya in N at 1.
    rewrite (date_norm y (m + k + 1) 1 _ _ _ ltac:(lia) N). fold y3. rewrite date_tail_num by lia.
    reflexivity.
Qed.

Example out_of_range_ex :
  date_time.f_date (VInt 9999) (VInt 12) (VInt 32) = Ok excelutil.c_NUM_ERROR
  /\ ymd2ord 9999 12 1 - 693594 + 32 - 1 = 2958466
  /\ date_time.f_edate (VInt 2958465) (VInt 1) = Ok excelutil.c_NUM_ERROR
  /\ date_time.f_eomonth (VInt 100) (VInt (-30)) = Ok excelutil.c_NUM_ERROR
  /\ date_time.f_edate (VInt 100) (VInt (-22814)) = Ok excelutil.c_NUM_ERROR
  /\ (nyear 1900 (4 - 22814), nmonth (4 - 22814)) = (-1, 2).
Proof. repeat split; vm_compute; reflexivity. Qed.
