(* Proofs/C08Walk.v — C08, part 1: the two graph walks of trim_graph.
   [dependants] (walk_dependents from every input) marks exactly the built
   strict descendants of the built inputs; [walk_prec] (walk_precedents from
   the outputs) processes every precedent of every node it walks into, freezes
   exactly the processed nodes that are neither needed nor range nodes, and
   evaluates a node before freezing it. *)
From Coq Require Import List Arith Bool Lia.
From PV Require Import Lib.Py Model.Graph Model.Trim.
From PV Require Import Proofs.C01Base Proofs.C01Reset Proofs.C01Eval Proofs.C01Inv.
Import ListNotations.

Lemma badd_same b n : badd b n n = true.
Proof. unfold badd. now rewrite Nat.eqb_refl. Qed.
Lemma badd_other b n m : m <> n -> badd b n m = b m.
Proof. unfold badd. intros H. destruct (Nat.eqb_spec m n); congruence. Qed.
Lemma badd_true b n m : badd b n m = true <-> m = n \/ b m = true.
Proof.
  unfold badd. destruct (Nat.eqb_spec m n); split; auto; intros [H|H]; auto; congruence.
Qed.
Lemma badd_mono b n m : b m = true -> badd b n m = true.
Proof. intros H. apply badd_true. auto. Qed.
Lemma memb_In l n : memb l n = true <-> In n l.
Proof.
  unfold memb. rewrite existsb_exists. split.
  - intros [x [H E]]. apply Nat.eqb_eq in E. now subst.
  - intros H. exists n. split; auto. apply Nat.eqb_refl.
Qed.
Lemma add_all_true : forall l nd m, add_all nd l m = true <-> nd m = true \/ In m l.
Proof.
  induction l as [|x l IH]; intros nd m; cbn [add_all fold_left].
  - split; auto. intros [H|[]]; auto.
  - fold (add_all (badd nd x) l). rewrite IH, badd_true. cbn [In]. split.
    + intros [[->|H]|H]; auto.
    + intros [H|[->|H]]; auto.
Qed.

Section Walk.
  Variable W : workbook.
  Variable sem : nat -> list pyval -> pyval.
  Hypothesis WF : wf W.
  Hypothesis NB : sem_nonblank W sem.

  Notation N := (wb_n W).
  Notation deps := (wb_deps W).
  Notation isinput := (wb_input W).
  Notation anc := (anc W).

  Variable b : bset.                     (* the built set while trim_graph runs *)
  Hypothesis BL : forall n, b n = true -> n < N.
  Hypothesis BD : forall n d, b n = true -> In d (deps n) -> b d = true.

  Notation succs := (succs W b).
  Notation bdesc := (bdesc W b).

  Lemma succs_bdesc n ch : In ch (succs n) -> bdesc n ch.
  Proof. intros H. apply succs_spec in H. destruct H as (L & B & D). split; [now constructor|auto]. Qed.
  Lemma bdesc_step n ch m : In ch (succs n) -> bdesc ch m -> bdesc n m.
  Proof.
    intros H (A & L & B). apply succs_spec in H. destruct H as (_ & _ & D).
    split; auto. eapply anc_step; eauto.
  Qed.

  (* ------------------------------------------------------ walk_dependents *)
  Definition wd_step (f : nat) (nd : bset) (ch : nat) : bset :=
    if nd ch then nd else walk_dep W f b ch (badd nd ch).
  Lemma walk_dep_unfold f n nd : walk_dep W (S f) b n nd = fold_left (wd_step f) (succs n) nd.
  Proof. reflexivity. Qed.

  Definition wd_ok (f : nat) := forall n nd, n + f >= N -> n < N ->
    let nd' := walk_dep W f b n nd in
    (forall m, nd m = true -> nd' m = true) /\
    (forall ch, In ch (succs n) -> nd' ch = true) /\
    (forall m, nd' m = true -> nd m = true \/ bdesc n m) /\
    (forall m, nd' m = true -> nd m = false -> forall d, In d (succs m) -> nd' d = true).

  Lemma wd_fold f n : wd_ok f -> S n + f >= N ->
    forall l nd1, (forall ch, In ch l -> In ch (succs n)) ->
    let nd2 := fold_left (wd_step f) l nd1 in
    (forall m, nd1 m = true -> nd2 m = true) /\
    (forall ch, In ch l -> nd2 ch = true) /\
    (forall m, nd2 m = true -> nd1 m = true \/ bdesc n m) /\
    (forall m, nd2 m = true -> nd1 m = false -> forall d, In d (succs m) -> nd2 d = true).
  Proof.
    intros IH F. induction l as [|ch l IHl]; intros nd1 Sub; cbn [fold_left].
    - cbn zeta. split; [auto|]. split; [intros ? []|]. split; [auto|]. intros m H1 H2. congruence.
    - assert (Sch: In ch (succs n)) by (apply Sub; left; auto).
      pose proof Sch as Sch'. apply succs_spec in Sch'. destruct Sch' as (Lch & Bch & Dch).
      pose proof (deps_lt W WF _ _ Lch Dch) as Lt.
      set (nd1' := wd_step f nd1 ch).
      assert (St: (forall m, nd1 m = true -> nd1' m = true) /\ nd1' ch = true /\
                  (forall m, nd1' m = true -> nd1 m = true \/ bdesc n m) /\
                  (forall m, nd1' m = true -> nd1 m = false ->
                             forall d, In d (succs m) -> nd1' d = true)).
      { unfold nd1', wd_step. destruct (nd1 ch) eqn:E.
        - split; [auto|]. split; [auto|]. split; [auto|]. intros m H1 H2. congruence.
        - destruct (IH ch (badd nd1 ch) ltac:(lia) Lch) as (A & B & C & D). cbn zeta in *.
          split; [|split; [|split]].
          + intros m Hm. apply A. now apply badd_mono.
          + apply A. apply badd_same.
          + intros m Hm. destruct (C m Hm) as [H|H].
            * apply badd_true in H. destruct H as [->|H]; auto. right. now apply succs_bdesc.
            * right. eapply bdesc_step; eauto.
          + intros m Hm Hn d Hd. destruct (Nat.eq_dec m ch) as [->|NE]; [now apply B|].
            apply (D m Hm); auto. rewrite badd_other; auto. }
      destruct St as (A1 & B1 & C1 & D1).
      destruct (IHl nd1' ltac:(intros; apply Sub; right; auto)) as (A2 & B2 & C2 & D2).
      cbn zeta in *. split; [|split; [|split]].
      + auto.
      + intros x [->|Hx]; auto.
      + intros m Hm. destruct (C2 m Hm) as [H|H]; auto.
      + intros m Hm Hn d Hd. destruct (nd1' m) eqn:E.
        * apply A2. eapply D1; eauto.
        * eapply D2; eauto.
  Qed.

  Lemma walk_dep_ok : forall f, wd_ok f.
  Proof.
    induction f as [|f IH]; intros n nd F L; [exfalso; lia|].
    rewrite walk_dep_unfold. apply (wd_fold f n IH ltac:(lia) (succs n) nd). auto.
  Qed.

  (* [dependants]: the fold over the inputs *)
  Definition dp_step (nd : bset) (a : nat) : bset := if b a then walk_dep W N b a nd else nd.
  Lemma dependants_unfold I : dependants W b I = fold_left dp_step I (fun _ => false).
  Proof. reflexivity. Qed.

  Definition dclosed (nd : bset) := forall m, nd m = true -> forall d, In d (succs m) -> nd d = true.

  Lemma dp_fold : forall l nd (src : nat -> Prop),
    dclosed nd ->
    (forall m, nd m = true -> exists a, src a /\ b a = true /\ bdesc a m) ->
    (forall a, src a -> b a = true -> forall d, In d (succs a) -> nd d = true) ->
    let nd' := fold_left dp_step l nd in
    dclosed nd' /\
    (forall m, nd' m = true -> exists a, (src a \/ In a l) /\ b a = true /\ bdesc a m) /\
    (forall a, src a \/ In a l -> b a = true -> forall d, In d (succs a) -> nd' d = true).
  Proof.
    induction l as [|a l IH]; intros nd src Cl So Co; cbn [fold_left].
    - cbn zeta. split; [auto|]. split.
      + intros m Hm. destruct (So m Hm) as (x & Hx & R). exists x. auto.
      + intros x [Hx|[]]. eauto.
    - set (nd1 := dp_step nd a).
      assert (St: dclosed nd1 /\
                  (forall m, nd1 m = true -> exists x, (src x \/ x = a) /\ b x = true /\ bdesc x m) /\
                  (forall x, src x \/ x = a -> b x = true -> forall d, In d (succs x) -> nd1 d = true)).
      { unfold nd1, dp_step. destruct (b a) eqn:Ba.
        - destruct (walk_dep_ok N a nd ltac:(lia) (BL a Ba)) as (A & B & C & D). cbn zeta in *.
          split; [|split].
          + intros m Hm d Hd. destruct (nd m) eqn:E; [apply A; eapply Cl; eauto|eapply D; eauto].
          + intros m Hm. destruct (C m Hm) as [H|H].
            * destruct (So m H) as (x & Hx & R). exists x. auto.
            * exists a. auto.
          + intros x [Hx| ->] Bx d Hd; [apply A; eapply Co; eauto|now apply B].
        - split; [auto|]. split.
          + intros m Hm. destruct (So m Hm) as (x & Hx & R). exists x. auto.
          + intros x [Hx| ->] Bx; [eauto|congruence]. }
      destruct St as (Cl1 & So1 & Co1).
      destruct (IH nd1 (fun x => src x \/ x = a) Cl1 So1 Co1) as (A & B & C). cbn zeta in *.
      split; [auto|]. split.
      + intros m Hm. destruct (B m Hm) as (x & Hx & R). exists x. split; [|exact R].
        cbn [In]. destruct Hx as [[Hx|Hx]|Hx]; auto.
      + intros x Hx. apply C. cbn [In] in Hx. destruct Hx as [Hx|[->|Hx]]; auto.
  Qed.

  (* the characterisation of needed_cells after step 2 *)
  Lemma dependants_spec I m :
    dependants W b I m = true <-> exists a, In a I /\ b a = true /\ bdesc a m.
  Proof.
    rewrite dependants_unfold.
    destruct (dp_fold I (fun _ => false) (fun _ => False)) as (Cl & So & Co);
      try (intros; discriminate); try (intros; contradiction).
    cbn zeta in *. split.
    - intros H. destruct (So m H) as (a & [[]|Ha] & R). exists a. auto.
    - intros (a & Ha & Ba & (A & Lm & Bm)). revert Lm Bm A.
      induction m as [m IHm] using lt_wf_ind. intros Lm Bm A.
      inversion A as [a' m' H|a' y m' A' H]; subst.
      + apply (Co a); auto. apply succs_spec; auto.
      + pose proof (deps_lt W WF _ _ Lm H) as Ly.
        assert (Hy: fold_left dp_step I (fun _ => false) y = true).
        { apply IHm; auto; [lia|eapply BD; eauto]. }
        apply (Cl y Hy). apply succs_spec; auto.
  Qed.

  (* ------------------------------------------------------ walk_precedents *)
  Variable nd1 : bset.                  (* needed_cells before step 3 *)
  Variable c0 : cache.                  (* the cache before step 3 *)
  Hypothesis K0 : Coherent W sem c0.

  Definition built (m : nat) : Prop := b m = true.

  (* the state invariant of step 3 *)
  Record G (st : pw) : Prop := {
    g_need : forall m, pw_need st m = true <-> nd1 m = true \/ pw_frz st m = true;
    g_frz : forall m, pw_frz st m = true ->
              pw_proc st m = true /\ nd1 m = false /\ wb_range W m = false;
    g_ext : ext W sem built c0 (pw_cache st);
    g_val : forall m, pw_frz st m = true -> isinput m = false -> pw_cache st m <> VNone;
    g_walked : forall m, pw_proc st m = true -> pw_frz st m = false ->
                 nd1 m = true \/ wb_range W m = true;
    g_built : forall m, pw_proc st m = true -> b m = true
  }.

  Definition pmono (st st' : pw) : Prop :=
    (forall m, pw_proc st m = true -> pw_proc st' m = true) /\
    (forall m, pw_frz st m = true -> pw_frz st' m = true) /\
    (forall m, pw_frz st' m = true -> pw_proc st m = true -> pw_frz st m = true).

  Lemma pmono_refl st : pmono st st.
  Proof. repeat split; auto. Qed.
  Lemma pmono_trans s1 s2 s3 : pmono s1 s2 -> pmono s2 s3 -> pmono s1 s3.
  Proof.
    intros (A1 & B1 & C1) (A2 & B2 & C2). repeat split; auto.
  Qed.

  Lemma G_coherent st : G st -> Coherent W sem (pw_cache st).
  Proof. intros g. eapply ext_coherent; eauto. apply (g_ext st g). Qed.

  Lemma G_freeze st ch : G st -> pw_proc st ch = false -> b ch = true ->
    nd1 ch = false -> wb_range W ch = false ->
    G (freeze W sem (mark st ch) ch) /\ pmono st (freeze W sem (mark st ch) ch).
  Proof.
    intros g Pc Bc Nc Rc. pose proof (BL ch Bc) as Lc.
    assert (Fc: pw_frz st ch = false).
    { destruct (pw_frz st ch) eqn:E; auto. apply (g_frz st g) in E. destruct E. congruence. }
    destruct (eval_top W sem WF NB (pw_cache st) ch Lc (G_coherent st g)) as (E & _ & V).
    assert (E': ext W sem built (pw_cache st) (fst (eval W sem (S N) (pw_cache st) ch))).
    { eapply ext_weaken; [|exact E]. intros k [->|A]; [exact Bc|].
      unfold built. eapply anc_closed; eauto. }
    split.
    - split; cbn [freeze mark pw_proc pw_need pw_frz pw_cache].
      + intros m. rewrite !badd_true. rewrite (g_need st g). tauto.
      + intros m Hm. apply badd_true in Hm. destruct Hm as [->|Hm].
        * rewrite badd_same. auto.
        * destruct (g_frz st g m Hm) as (A & B & C). split; auto. now apply badd_mono.
      + eapply ext_trans; eauto. apply (g_ext st g).
      + intros m Hm Im. apply badd_true in Hm. destruct Hm as [->|Hm]; [auto|].
        eapply ext_keeps; eauto. apply (g_val st g); auto.
      + intros m Hm Fm. destruct (Nat.eq_dec m ch) as [->|NE]; [now rewrite badd_same in Fm|].
        rewrite badd_other in Hm, Fm by auto. apply (g_walked st g); auto.
      + intros m Hm. apply badd_true in Hm. destruct Hm as [->|Hm]; auto. apply (g_built st g); auto.
    - repeat split; cbn [freeze mark pw_proc pw_frz]; intros m.
      + apply badd_mono.
      + apply badd_mono.
      + intros Hm Pm. apply badd_true in Hm. destruct Hm as [->|Hm]; auto. congruence.
  Qed.

  Lemma G_mark st ch : G st -> pw_proc st ch = false -> b ch = true ->
    nd1 ch = true \/ wb_range W ch = true ->
    G (mark st ch) /\ pmono st (mark st ch).
  Proof.
    intros g Pc Bc Wc.
    assert (Fc: pw_frz st ch = false).
    { destruct (pw_frz st ch) eqn:E; auto. apply (g_frz st g) in E. destruct E. congruence. }
    split.
    - split; cbn [mark pw_proc pw_need pw_frz pw_cache].
      + apply (g_need st g).
      + intros m Hm. destruct (g_frz st g m Hm) as (A & B & C). split; auto. now apply badd_mono.
      + apply (g_ext st g).
      + apply (g_val st g).
      + intros m Hm Fm. apply badd_true in Hm. destruct Hm as [->|Hm]; auto. apply (g_walked st g); auto.
      + intros m Hm. apply badd_true in Hm. destruct Hm as [->|Hm]; auto. apply (g_built st g); auto.
    - repeat split; cbn [mark pw_proc pw_frz]; auto. intros m. apply badd_mono.
  Qed.

  Definition wp_step (f : nat) (st : pw) (ch : nat) : pw :=
    if pw_proc st ch then st
    else let st1 := mark st ch in
         if pw_need st1 ch || wb_range W ch then walk_prec W sem f ch st1
         else freeze W sem st1 ch.
  Lemma walk_prec_unfold f n st : walk_prec W sem (S f) n st = fold_left (wp_step f) (deps n) st.
  Proof. reflexivity. Qed.

  (* nodes processed by this walk and not frozen have all precedents processed *)
  Definition wclosed (st st' : pw) : Prop :=
    forall m, pw_proc st' m = true -> pw_proc st m = false -> pw_frz st' m = false ->
              forall d, In d (deps m) -> pw_proc st' d = true.

  Definition wp_ok (f : nat) := forall n st, n < f -> b n = true -> G st ->
    let st' := walk_prec W sem f n st in
    G st' /\ pmono st st' /\ (forall d, In d (deps n) -> pw_proc st' d = true) /\ wclosed st st'.

  Lemma wp_fold f n : wp_ok f -> b n = true ->
    forall l st, (forall d, In d l -> In d (deps n) /\ d < f) -> G st ->
    let st' := fold_left (wp_step f) l st in
    G st' /\ pmono st st' /\ (forall d, In d l -> pw_proc st' d = true) /\ wclosed st st'.
  Proof.
    intros IH Bn. induction l as [|ch l IHl]; intros st Sub g; cbn [fold_left].
    - cbn zeta. split; auto. split; [apply pmono_refl|]. split; [intros ? []|].
      intros m H1 H2. congruence.
    - destruct (Sub ch ltac:(left; auto)) as [Dch Lf].
      assert (Bch: b ch = true) by (eapply BD; eauto).
      set (st1 := wp_step f st ch).
      assert (St: G st1 /\ pmono st st1 /\ pw_proc st1 ch = true /\ wclosed st st1).
      { unfold st1, wp_step. destruct (pw_proc st ch) eqn:Pc.
        - split; auto. split; [apply pmono_refl|]. split; auto. intros m H1 H2. congruence.
        - cbn zeta. cbn [mark pw_need].
          destruct (pw_need st ch || wb_range W ch) eqn:T.
          + assert (Wc: nd1 ch = true \/ wb_range W ch = true).
            { apply orb_prop in T. destruct T as [T|T]; auto.
              apply (g_need st g) in T. destruct T as [T|T]; auto.
              apply (g_frz st g) in T. destruct T. congruence. }
            destruct (G_mark st ch g Pc Bch Wc) as [g1 M1].
            destruct (IH ch (mark st ch) Lf Bch g1) as (g2 & M2 & D2 & C2). cbn zeta in *.
            split; auto. split; [eapply pmono_trans; eauto|]. split.
            * apply M2. cbn [mark pw_proc]. apply badd_same.
            * intros m Hm Pm Fm d Hd. destruct (Nat.eq_dec m ch) as [->|NE]; [now apply D2|].
              apply (C2 m Hm); auto. cbn [mark pw_proc]. rewrite badd_other; auto.
          + apply orb_false_elim in T. destruct T as [T1 T2].
            assert (Nc: nd1 ch = false).
            { destruct (nd1 ch) eqn:E; auto.
              assert (pw_need st ch = true) by (apply (g_need st g); auto). congruence. }
            destruct (G_freeze st ch g Pc Bch Nc T2) as [g1 M1].
            split; auto. split; auto. split; [cbn [freeze mark pw_proc]; apply badd_same|].
            intros m Hm Pm Fm d Hd. cbn [freeze mark pw_proc pw_frz] in Hm, Fm.
            apply badd_true in Hm. destruct Hm as [->|Hm]; [|congruence].
            now rewrite badd_same in Fm. }
      destruct St as (g1 & M1 & P1 & C1).
      destruct (IHl st1 ltac:(intros; apply Sub; right; auto) g1) as (g2 & M2 & D2 & C2).
      cbn zeta in *. split; auto. split; [eapply pmono_trans; eauto|]. split.
      + intros d [->|Hd]; auto. apply M2. auto.
      + intros m Hm Pm Fm d Hd. destruct (pw_proc st1 m) eqn:E.
        * apply M2. apply (C1 m E Pm); auto.
          destruct (pw_frz st1 m) eqn:E2; auto. apply M2 in E2. congruence.
        * apply (C2 m Hm E Fm); auto.
  Qed.

  Lemma walk_prec_ok : forall f, wp_ok f.
  Proof.
    induction f as [|f IH]; intros n st Lf Bn g; [lia|].
    rewrite walk_prec_unfold. apply (wp_fold f n IH Bn (deps n) st); auto.
    intros d Hd. split; auto. pose proof (deps_lt W WF _ _ (BL n Bn) Hd). lia.
  Qed.

  (* step 3 as a whole *)
  Definition st0 : pw :=
    {| pw_proc := fun _ => false; pw_need := nd1; pw_frz := fun _ => false; pw_cache := c0 |}.

  Lemma G_st0 : G st0.
  Proof.
    split; cbn [st0 pw_proc pw_need pw_frz pw_cache]; try discriminate.
    - intros m. split; auto. intros [H|H]; auto. discriminate.
    - apply ext_refl.
  Qed.

  Lemma walk_outputs_ok : forall O st, (forall o, In o O -> b o = true) -> G st ->
    (forall m, pw_proc st m = true -> pw_frz st m = false ->
               forall d, In d (deps m) -> pw_proc st d = true) ->
    let st' := walk_outputs W sem O st in
    G st' /\ pmono st st' /\
    (forall o d, In o O -> In d (deps o) -> pw_proc st' d = true) /\
    (forall m, pw_proc st' m = true -> pw_frz st' m = false ->
               forall d, In d (deps m) -> pw_proc st' d = true).
  Proof.
    induction O as [|o O IH]; intros st BO g Cl; cbn [walk_outputs fold_left].
    - cbn zeta. split; auto. split; [apply pmono_refl|]. split; auto.
    - fold (walk_outputs W sem O (walk_prec W sem (S N) o st)).
      assert (Bo: b o = true) by (apply BO; left; auto).
      destruct (walk_prec_ok (S N) o st ltac:(pose proof (BL o Bo); lia) Bo g) as (g1 & M1 & D1 & C1).
      cbn zeta in *. set (st1 := walk_prec W sem (S N) o st) in *.
      assert (Cl1: forall m, pw_proc st1 m = true -> pw_frz st1 m = false ->
                             forall d, In d (deps m) -> pw_proc st1 d = true).
      { intros m Hm Fm d Hd. destruct (pw_proc st m) eqn:E.
        - apply M1. apply (Cl m E); auto.
          destruct (pw_frz st m) eqn:E2; auto. apply M1 in E2. congruence.
        - apply (C1 m Hm E Fm); auto. }
      destruct (IH st1 ltac:(intros; apply BO; right; auto) g1 Cl1) as (g2 & M2 & D2 & C2).
      split; auto. split; [eapply pmono_trans; eauto|]. split; auto.
      intros x d [->|Hx] Hd; [|eapply D2; eauto]. apply M2. now apply D1.
  Qed.
End Walk.
