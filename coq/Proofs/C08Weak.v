(* Proofs/C08Weak.v — C08 under the weak non-blank condition of
   Proofs/C01Weak.v (met by a workbook with a whole-column reference, which
   does not meet sem_nonblank: C01_alias_not_strong, C01_alias_weak).

   1) the trim itself (steps 1-5 over the original workbook W) cannot tell
      [sem] from its guarded, strongly non-blank version [guard W sem]:
      [trim_guard];
   2) the machine after the trim runs over the cut workbook, in which a frozen
      formula cell is an input cell; a frozen formula cell holds a non-blank
      value ([CI_trimmed]), so by Proofs/C08WeakCut.v the runs of the property
      (writes to the inputs, evaluations of the outputs) coincide for [sem] and
      [guard W sem] — provided a frozen ("buried") formula cell is not written
      blank ([wio_op]; for inputs that are input cells of W this is no
      restriction);
   3) the theorems of Proofs/C08.v for [guard W sem] are carried back. *)
From Coq Require Import List Arith Bool Lia ZArith.
From PV Require Import Lib.Py Model.Graph Model.Trim.
From PV Require Import Proofs.C01Base Proofs.C01Reset Proofs.C01Eval Proofs.C01Inv Proofs.C01
                       Proofs.C01Weak Proofs.C05 Proofs.C08Walk Proofs.C08Run Proofs.C08Trim
                       Proofs.C08 Proofs.C08WeakCut.
Import ListNotations.
Local Open Scope nat_scope.

(* a buried input (a formula cell of W) is not written blank *)
Definition nonblank_write (W : workbook) (o : gop) : Prop :=
  match o with
  | SetValue a v => wb_input W a = true \/ v <> VNone
  | _ => True
  end.

Section C08Weak.
  Variable W : workbook.
  Variable sem : nat -> list pyval -> pyval.
  Hypothesis WF : wf W.
  Hypothesis NBW : sem_nonblank_weak W sem.

  Notation N := (wb_n W).
  Notation g := (guard W sem).

  Let NB2 : sem_nonblank W g := guard_nonblank W sem NBW.
  Let AG : forall n vals, n < N -> wb_input W n = false -> args_ok W n vals ->
             sem n vals = g n vals := fun n vals _ _ H => guard_agree W sem n vals H.

  (* ------------------------------------------------------------ the trim *)
  Lemma build_all_guard : forall O s, build_all W sem O s = build_all W g O s.
  Proof.
    unfold build_all. induction O as [|o O IH]; intros s; cbn [fold_left]; auto.
    rewrite (C01Weak.build_transfer W sem g WF NB2 AG). apply IH.
  Qed.

  Lemma freeze_guard st ch : ch < N -> freeze W sem st ch = freeze W g st ch.
  Proof.
    intros L. unfold freeze. rewrite (C01Weak.eval_transfer W sem g WF NB2 AG (S N) ch); auto.
  Qed.

  Lemma walk_prec_guard : forall f n st, n < N -> walk_prec W sem f n st = walk_prec W g f n st.
  Proof.
    induction f as [|f IH]; intros n st L; [reflexivity|].
    rewrite !walk_prec_unfold. apply fold_left_ext_in. intros st0 ch Hch.
    pose proof (deps_ltN W WF n ch L Hch) as Lc. unfold wp_step.
    destruct (pw_proc st0 ch); auto. cbv zeta.
    destruct (pw_need (mark st0 ch) ch || wb_range W ch); [now apply IH|now apply freeze_guard].
  Qed.

  Lemma walk_outputs_guard O st : (forall o, In o O -> o < N) ->
    walk_outputs W sem O st = walk_outputs W g O st.
  Proof.
    intros OL. unfold walk_outputs. apply fold_left_ext_in. intros st0 o Ho.
    apply walk_prec_guard. now apply OL.
  Qed.

  Lemma trim_guard I O s : (forall o, In o O -> o < N) -> trim W sem I O s = trim W g I O s.
  Proof.
    intros OL. unfold trim. rewrite build_all_guard. cbv zeta.
    rewrite (walk_outputs_guard O _ OL). reflexivity.
  Qed.

  (* ------------------------------------------------------- after the trim *)
  Hypothesis SO : stored_ok W sem.
  Variable I O : list nat.
  Variable s : state.
  Hypothesis INV : Inv W sem s.
  Hypothesis OL : forall o, In o O -> o < N.

  Let SO2 : stored_ok W g := stored_ok_transfer W sem g WF NB2 AG SO.
  Let INV2 : Inv W g s := proj2 (Inv_guard W sem WF NBW s) INV.

  Notation V := (tr_wb (trim W g I O s)).
  Notation t := (tr_st (trim W g I O s)).

  Lemma okb_args ds vals : okb (wb_input W) ds vals = args_okb W ds vals.
  Proof.
    revert vals. induction ds as [|d ds IH]; intros [|v vals]; cbn [okb args_okb]; auto.
  Qed.

  Lemma V_wf : wf V.
  Proof. apply (VV_wf W g WF NB2 SO2 I O s INV2 OL). Qed.
  Lemma V_nb : sem_nonblank V g.
  Proof. apply (VV_nb W g WF NB2 SO2 I O s INV2 OL). Qed.

  Lemma V_agree n vals : n < wb_n V -> wb_input V n = false ->
    okb (wb_input W) (wb_deps V n) vals = true -> sem n vals = g n vals.
  Proof.
    intros L In OK. cbn [trim tr_wb cut wb_input wb_deps wb_n] in *.
    apply orb_false_elim in In. destruct In as [Iw Fz]. rewrite Fz in OK.
    apply AG; auto.
  Qed.

  (* a frozen formula cell holds a non-blank value *)
  Lemma CI_trimmed : CI V (wb_input W) (st_cache t).
  Proof.
    intros d L Iv Iw.
    assert (Fz: pw_frz (C08Trim.st3 W g I O s) d = true).
    { cbn [trim tr_wb cut wb_input] in Iv. rewrite Iw in Iv. exact Iv. }
    change (st_cache (C08Trim.tt W g I O s) d <> VNone).
    rewrite (kept_cache W g WF NB2 SO2 I O s INV2 OL d (frz_kept W g WF NB2 SO2 I O s INV2 OL d Fz)).
    rewrite (frozen_value W g WF NB2 SO2 I O s INV2 OL d Fz).
    apply spec_nonblank; auto.
  Qed.

  Lemma io_wop o : io_op I O o -> nonblank_write W o -> wop V (wb_input W) o.
  Proof.
    destruct o as [n|a v|n]; cbn [io_op nonblank_write wop]; intros H1 H2;
      [|exact H2|contradiction].
    cbn [trim tr_wb cut wb_n]. now apply OL.
  Qed.

  Lemma io_wops h : Forall (io_op I O) h -> Forall (nonblank_write W) h ->
    Forall (wop V (wb_input W)) h.
  Proof.
    induction h as [|o h IH]; intros F1 F2; constructor;
      inversion F1; inversion F2; subst; auto using io_wop.
  Qed.

  (* the runs of the property on the trimmed machine *)
  Lemma trimmed_run_guard h : Forall (io_op I O) h -> Forall (nonblank_write W) h ->
    run (tr_wb (trim W sem I O s)) sem (tr_st (trim W sem I O s)) h = run V g t h.
  Proof.
    intros F1 F2. rewrite (trim_guard I O s OL).
    apply (C08WeakCut.run_transfer V (wb_input W) V_wf sem g V_nb V_agree h t (io_wops h F1 F2) CI_trimmed).
  Qed.

  Lemma io_lt h : Forall (io_op I O) h -> Forall (op_lt W) h.
  Proof.
    intros F. eapply Forall_impl; [|exact F]. intros [n|a v|n]; cbn; auto.
  Qed.

  (* ------------------------------------------------ C08_frozen_independent *)
  Theorem frozen_independent_weak f : tr_frz (trim W sem I O s) f = true ->
    (forall a, In a I -> ~ anc W a f) /\
    (~ In f I -> forall inp inp', (forall m, ~ In m I -> inp m = inp' m) ->
                 spec W sem inp f = spec W sem inp' f).
  Proof.
    rewrite (trim_guard I O s OL). intros F.
    destruct (frozen_independent W g WF NB2 SO2 I O s INV2 OL f F) as [A B]. split; auto.
    intros Nf inp inp' E.
    assert (L: f < N).
    { apply (lv_lt W g WF NB2 SO2 I O s INV2 OL). apply (frz_lv W g WF NB2 SO2 I O s INV2 OL). exact F. }
    rewrite !(spec_guard W sem WF NBW _ f L). now apply B.
  Qed.

  (* -------------------------------------------- C08_preserve_buried_partial *)
  Theorem trimmed_coherent_weak :
    (forall a, In a I -> wb_input (tr_wb (trim W sem I O s)) a = true
                         /\ st_built (tr_st (trim W sem I O s)) a = true
                         /\ scalar_exact (st_cache (tr_st (trim W sem I O s)) a) = true) ->
    forall h, Forall (io_op I O) h -> Forall (nonblank_write W) h ->
      snd (run (tr_wb (trim W sem I O s)) sem (tr_st (trim W sem I O s)) h)
      = run_spec (tr_wb (trim W sem I O s)) sem (st_cache (tr_st (trim W sem I O s))) h.
  Proof.
    intros HI h F1 F2. rewrite (trimmed_run_guard h F1 F2).
    rewrite (trim_guard I O s OL) in *.
    rewrite (C08WeakCut.run_spec_transfer V (wb_input W) V_wf sem g V_nb V_agree h (st_cache t)
               (io_wops h F1 F2) CI_trimmed).
    now apply (trimmed_coherent W g WF NB2 SO2 I O s INV2 OL).
  Qed.

  (* ------------------------------------------------------------ C08_preserve *)
  Hypothesis IN : forall a, In a I -> wb_input W a = true /\ exists o, In o O /\ anc W a o.
  Hypothesis IX : forall a, In a I -> scalar_exact (st_cache s a) = true.

  Lemma in_nonblank_write h : Forall (io_op I O) h -> Forall (nonblank_write W) h.
  Proof.
    intros F. eapply Forall_impl; [|exact F]. intros [n|a v|n]; cbn; auto.
    intros [Ia _]. left. now apply IN.
  Qed.

  Theorem preserve_spec_weak : forall h, Forall (io_op I O) h ->
    snd (run (tr_wb (trim W sem I O s)) sem (tr_st (trim W sem I O s)) h)
    = run_spec W sem (st_cache (build_all W sem O s)) h.
  Proof.
    intros h F. rewrite (trimmed_run_guard h F (in_nonblank_write h F)).
    rewrite build_all_guard.
    rewrite (C01Weak.run_spec_transfer W sem g WF NB2 AG h _ (io_lt h F)).
    now apply (preserve_spec W g WF NB2 SO2 I O s INV2 OL).
  Qed.

  Hypothesis EX : inputs_exact W (st_cache s).
  Hypothesis LATE : forall a, In a I -> late_ok W (build_all W sem O s) a.

  Lemma lt_history : forall h s1, Forall (op_lt W) h ->
    ok_history W sem (fun _ o => op_lt W o) s1 h.
  Proof. induction h as [|o h IH]; intros s1 F; cbn; auto. inversion F; subst. split; auto. Qed.

  Theorem preserve_machine_weak : forall h, Forall (io_op I O) h ->
    snd (run (tr_wb (trim W sem I O s)) sem (tr_st (trim W sem I O s)) h)
    = snd (run W sem (build_all W sem O s) h).
  Proof.
    intros h F. rewrite (trimmed_run_guard h F (in_nonblank_write h F)).
    destruct (C01Weak.run_transfer W sem g WF NB2 AG (fun _ o => op_lt W o) (fun _ o H => H) h
                (build_all W sem O s) (lt_history h _ (io_lt h F))) as [R _].
    rewrite R. rewrite build_all_guard in *.
    now apply (preserve_machine W g WF NB2 SO2 I O s INV2 OL).
  Qed.
End C08Weak.
