(* Proofs/C01.v — C01, lazy cache coherence: the invariant is established by
   [init] and preserved by every admissible operation; every [Evaluate] of an
   admissible history returns the from-scratch value under the inputs written
   so far.  Helper files: C01Base (spec, ancestors), C01Reset (_reset),
   C01Eval (_evaluate), C01Inv (invariant; build, evaluate, set_value). *)
From Coq Require Import List Arith Bool Lia ZArith QArith.
From PV Require Import Lib.Py Model.Graph.
From PV Require Import Proofs.C01Base Proofs.C01Reset Proofs.C01Eval Proofs.C01Inv.
Import ListNotations.
Local Open Scope nat_scope.

(* ---------------------------------------------------------------- values *)
(* the Excel scalars that can be written: blank, logical, number, text; a
   float is represented by its reduced fraction (as every float the model
   produces: Lib/Py.v mkfloat) *)
Definition q_same (a b : Q) : bool :=
  (Qnum a =? Qnum b)%Z && (Qden a =? Qden b)%positive.
Definition scalar_exact (v : pyval) : bool :=
  match v with
  | VNone | VBool _ | VInt _ | VStr _ => true
  | VFloat q => q_same q (Qred q)
  | _ => false
  end.

Lemma q_same_eq a b : q_same a b = true -> a = b.
Proof.
  unfold q_same. intros H. apply andb_prop in H. destruct H as [H1 H2].
  apply Z.eqb_eq in H1. apply Pos.eqb_eq in H2. destruct a, b; cbn in *. congruence.
Qed.
Lemma str_eqb_true : forall a b, str_eqb a b = true -> a = b.
Proof.
  induction a as [|x a IH]; intros [|y b] H; cbn in H; try discriminate; auto.
  apply andb_prop in H. destruct H as [H1 H2]. apply Z.eqb_eq in H1. f_equal; auto.
Qed.

(* set_value's guard: values that compare equal AND have the same type are the
   same value, so skipping the write loses nothing *)
Lemma scalar_same a b : scalar_exact a = true -> scalar_exact b = true ->
  py_eq a b = true -> same_type a b = true -> a = b.
Proof.
  destruct a, b; intros Ea Eb P T; try discriminate; auto.
  - destruct b, b0; auto; discriminate.
  - cbn in P. apply Z.eqb_eq in P. congruence.
  - cbn [scalar_exact] in Ea, Eb. apply q_same_eq in Ea. apply q_same_eq in Eb.
    assert (P': Qeq_bool q q0 = true) by exact P.
    apply Qeq_bool_iff in P'. apply Qred_complete in P'. congruence.
  - cbn in P. apply str_eqb_true in P. congruence.
Qed.

Section Main.
  Variable W : workbook.
  Variable sem : nat -> list pyval -> pyval.

  Notation N := (wb_n W).
  Notation isinput := (wb_input W).
  Notation spec := (spec W sem).
  Notation step := (step W sem).
  Notation run := (run W sem).
  Notation Inv := (Inv W sem).

  (* ------------------------------------------- admissible operations *)
  (* side condition (c), general form: see C01Inv.late_ok *)
  Definition ok_op (s : state) (o : gop) : Prop :=
    match o with
    | Evaluate n => n < N
    | Build n => n < N
    | SetValue a v => st_built s a = true /\ isinput a = true /\ scalar_exact v = true
                      /\ late_ok W s a
    end.
  (* no condition on the build order (for workbooks without stored results) *)
  Definition ok_op_free (s : state) (o : gop) : Prop :=
    match o with
    | Evaluate n => n < N
    | Build n => n < N
    | SetValue a v => st_built s a = true /\ isinput a = true /\ scalar_exact v = true
    end.
  (* every descendant of the written cell is built already *)
  Definition ok_op_built (s : state) (o : gop) : Prop :=
    match o with
    | Evaluate n => n < N
    | Build n => n < N
    | SetValue a v => st_built s a = true /\ isinput a = true /\ scalar_exact v = true
                      /\ forall d, d < N -> anc W a d -> st_built s d = true
    end.

  Fixpoint ok_history (P : state -> gop -> Prop) (s : state) (h : list gop) : Prop :=
    match h with
    | [] => True
    | o :: h' => P s o /\ ok_history P (fst (step s o)) h'
    end.

  Lemma ok_history_weaken (P Q : state -> gop -> Prop) :
    (forall s o, P s o -> Q s o) -> forall h s, ok_history P s h -> ok_history Q s h.
  Proof. intros PQ. induction h as [|o h IH]; intros s; cbn; auto. intros [A B]. auto. Qed.

  Lemma ok_built_ok s o : ok_op_built s o -> ok_op s o.
  Proof.
    destruct o; cbn; auto. intros (A&B&C&D). repeat split; auto.
    intros d Ld Ad Bd. rewrite (D d Ld Ad) in Bd. discriminate.
  Qed.
  Lemma ok_free_ok s o : (forall n, wb_stored W n = VNone) -> ok_op_free s o -> ok_op s o.
  Proof.
    intros NS. destruct o; cbn; auto. intros (A&B&C). repeat split; auto.
    intros d _ _ _. right. apply NS.
  Qed.

  (* ------------------------------------------- the specification of a run *)
  (* the inputs written so far, and the trace a from-scratch evaluation gives *)
  Definition written (o : gop) (inp : nat -> pyval) : nat -> pyval :=
    match o with SetValue a v => upd inp a v | _ => inp end.
  Fixpoint run_spec (inp : nat -> pyval) (h : list gop) : list pyval :=
    match h with
    | [] => []
    | o :: h' => (match o with Evaluate n => spec inp n | _ => VNone end)
                 :: run_spec (written o inp) h'
    end.

  Definition agrees (c : cache) (inp : nat -> pyval) : Prop :=
    forall m, m < N -> isinput m = true -> c m = inp m.
  Definition inputs_exact (inp : nat -> pyval) : Prop :=
    forall m, m < N -> isinput m = true -> scalar_exact (inp m) = true.

  Lemma run_cons s o h :
    run s (o :: h) = (fst (run (fst (step s o)) h), snd (step s o) :: snd (run (fst (step s o)) h)).
  Proof. cbn [Graph.run]. destruct (step s o) as [s1 v]. cbn [fst snd]. destruct (run s1 h); auto. Qed.

  Hypothesis WF : wf W.
  Hypothesis NB : sem_nonblank W sem.
  Hypothesis SO : stored_ok W sem.

  (* ------------------------------------------------------ C01_invariant *)
  Lemma step_inv s o : Inv s -> ok_op s o -> Inv (fst (step s o)).
  Proof.
    intros I OK. destruct o as [n|a v|n]; cbn [Graph.step fst].
    - now apply (evaluate_inv W sem WF NB s n SO I).
    - destruct OK as (Ba & Ia & _ & Late). rewrite set_value_unfold, Ba. cbn [negb].
      destruct (py_eq (st_cache s a) v && same_type (st_cache s a) v); auto.
      now apply (write_inv W sem WF s a v I Ba Ia Late).
    - now apply build_inv.
  Qed.

  Theorem invariant : Inv (init W) /\ forall s o, Inv s -> ok_op s o -> Inv (fst (step s o)).
  Proof. split; [now apply Inv_init|apply step_inv]. Qed.

  (* the machine's input entries are the inputs written so far *)
  Lemma step_track s o inp : Inv s -> ok_op s o -> agrees (st_cache s) inp -> inputs_exact inp ->
    agrees (st_cache (fst (step s o))) (written o inp) /\ inputs_exact (written o inp).
  Proof.
    intros I OK Ag Ex. destruct o as [n|a v|n]; cbn [Graph.step fst written].
    - split; auto. intros m Lm Im.
      destruct (evaluate_inv W sem WF NB s n SO I OK) as (_&_&Inp). rewrite Inp; auto.
    - destruct OK as (Ba & Ia & Ev & Late). pose proof (inv_lt W sem s I a Ba) as La.
      split.
      2:{ intros m Lm Im. unfold upd. destruct (Nat.eqb m a); auto. }
      rewrite set_value_unfold, Ba. cbn [negb].
      destruct (py_eq (st_cache s a) v && same_type (st_cache s a) v) eqn:G.
      + apply andb_prop in G. destruct G as [G1 G2].
        assert (E: st_cache s a = v).
        { apply scalar_same; auto. rewrite (Ag a La Ia). now apply Ex. }
        intros m Lm Im. unfold upd. destruct (Nat.eqb_spec m a) as [->|NE]; auto.
      + destruct (write_inv W sem WF s a v I Ba Ia Late) as (_ & Wa & Wo).
        cbn zeta in Wa, Wo. intros m Lm Im. destruct (Nat.eq_dec m a) as [->|NE].
        * rewrite Wa. now rewrite upd_same.
        * rewrite Wo by auto. rewrite upd_other by auto. auto.
    - split; auto. intros m Lm Im. rewrite (build_inputs W sem WF NB s n I OK m Im). auto.
  Qed.

  Lemma step_value s n inp : Inv s -> n < N -> agrees (st_cache s) inp ->
    snd (step s (Evaluate n)) = spec inp n.
  Proof.
    intros I L Ag. cbn [Graph.step].
    destruct (evaluate_inv W sem WF NB s n SO I L) as (_&V&_). rewrite V.
    apply spec_ext; auto.
  Qed.

  Lemma run_coherent : forall h s inp, Inv s -> agrees (st_cache s) inp -> inputs_exact inp ->
    ok_history ok_op s h ->
    snd (run s h) = run_spec inp h /\ Inv (fst (run s h)).
  Proof.
    induction h as [|o h IH]; intros s inp I Ag Ex OK; [cbn; auto|].
    destruct OK as [OKo OKh]. rewrite run_cons. cbn [fst snd run_spec].
    destruct (step_track s o inp I OKo Ag Ex) as [Ag' Ex'].
    destruct (IH (fst (step s o)) (written o inp) (step_inv s o I OKo) Ag' Ex' OKh) as [T I'].
    split; auto. rewrite T. f_equal.
    destruct o as [n|a v|n]; auto. now apply step_value.
  Qed.

  (* ------------------------------------------------ C01_coherent_partial *)
  Theorem coherent : inputs_exact (wb_inp0 W) -> forall h, ok_history ok_op (init W) h ->
    snd (run (init W) h) = run_spec (wb_inp0 W) h.
  Proof.
    intros Ex h OK. apply run_coherent; auto.
    - now apply Inv_init.
    - intros m _ Im. cbn. now rewrite Im.
  Qed.

  (* pointwise form: after any admissible history the invariant holds and an
     evaluation returns the from-scratch value under the current input entries *)
  Theorem coherent_pointwise : inputs_exact (wb_inp0 W) -> forall h n,
    ok_history ok_op (init W) h -> n < N ->
    let s := fst (run (init W) h) in
    Inv s /\ snd (step s (Evaluate n)) = spec (st_cache s) n.
  Proof.
    intros Ex h n OK L.
    destruct (run_coherent h (init W) (wb_inp0 W)) as [_ I]; auto.
    - now apply Inv_init.
    - intros m _ Im. cbn. now rewrite Im.
    - cbn zeta. split; auto. apply step_value; auto. intros m _ _. reflexivity.
  Qed.
End Main.

(* ------------------------------------------------- the two configurations *)
Section Configs.
  Variable W : workbook.
  Variable sem : nat -> list pyval -> pyval.
  Hypothesis WF : wf W.
  Hypothesis NB : sem_nonblank W sem.

  (* no stored results (in-memory workbook, deserialized model) *)
  Lemma stored_ok_nodata : (forall n, wb_stored W n = VNone) -> stored_ok W sem.
  Proof. intros NS. split; intros; [exfalso|]; auto. Qed.

  Theorem coherent_nodata : (forall n, wb_stored W n = VNone) ->
    inputs_exact W (wb_inp0 W) ->
    forall h, ok_history W sem (ok_op_free W) (init W) h ->
      snd (run W sem (init W) h) = run_spec W sem (wb_inp0 W) h.
  Proof.
    intros NS Ex h OK. apply coherent; auto using stored_ok_nodata.
    eapply ok_history_weaken; [|exact OK]. intros s o. now apply ok_free_ok.
  Qed.

  (* stored results that are the from-scratch values of the workbook's inputs *)
  Definition stored_consistent : Prop :=
    forall n, n < wb_n W -> wb_input W n = false -> wb_range W n = false ->
              wb_stored W n = spec W sem (wb_inp0 W) n.

  Lemma stored_ok_consistent : stored_consistent -> stored_ok W sem.
  Proof.
    intros SC. split.
    - intros n L I R _. now apply SC.
    - intros p d Ld Hd Ip Rp Sp _. exfalso.
      pose proof (deps_ltN W WF _ _ Ld Hd) as Lp.
      rewrite (SC p Lp Ip Rp) in Sp. revert Sp. now apply spec_nonblank.
  Qed.

  Theorem coherent_stored : stored_consistent -> inputs_exact W (wb_inp0 W) ->
    forall h, ok_history W sem (ok_op_built W) (init W) h ->
      snd (run W sem (init W) h) = run_spec W sem (wb_inp0 W) h.
  Proof.
    intros SC Ex h OK. apply coherent; auto using stored_ok_consistent.
    eapply ok_history_weaken; [|exact OK]. intros s o. now apply ok_built_ok.
  Qed.
End Configs.
