(* Proofs/C13Ranges.v — C13: ANY range of a sheet with array formulas shows at
   each position what the cell there shows (Model/CseCells.v sheet_range_value,
   range_formula after repair 50c2e69). *)
From Coq Require Import ZArith QArith List Bool Arith Lia.
From PV Require Import Lib.Py Model.Ops Model.Arrays Model.LookupCore Model.Lookup Model.CseCells
  Proofs.PyTac Proofs.C10 Proofs.C13 Proofs.C13Cells.
From PV Require Gen.excelutil Gen.arrayfit.
Import ListNotations.
Open Scope Z_scope.

(* ======================================== a formula's value as rows: array or scalar *)
Definition result_rows (v : pyval) (rows : list (list pyval)) : Prop :=
  (exists C, v = matrix rows /\ rows <> [] /\ (1 <= C)%nat /\ rectangular C rows)
  \/ (scalar_like v = true /\ rows = [[v]]).

Lemma fit_result v rows h w : result_rows v rows -> 1 <= h -> 1 <= w ->
  fit (target h w) v = Ok (matrix (fit_spec h w rows))
  /\ length (fit_spec h w rows) = Z.to_nat h /\ rectangular (Z.to_nat w) (fit_spec h w rows)
  /\ forall i j, (i < Z.to_nat h)%nat -> (j < Z.to_nat w)%nat ->
                 elem2 (fit_spec h w rows) i j = Some (fit_elem rows i j).
Proof.
  intros [(C & -> & Hne & HC & Hrect)|(Hs & ->)] Hh Hw.
  - destruct (fit_spec_shape rows C h w Hne HC Hrect Hh Hw) as [L Rc].
    split; [destruct rows as [|r0 rest]; [congruence|]; apply fit_translated; assumption|].
    split; [exact L|]. split; [exact Rc|].
    intros i j Hi Hj. apply (fit_spec_elem rows C); assumption.
  - assert (R1 : rectangular 1 [[v]]) by (repeat constructor).
    assert (N1 : [[v]] <> []) by discriminate.
    destruct (fit_spec_shape [[v]] 1%nat h w N1 (le_n 1) R1 Hh Hw) as [L Rc].
    split; [apply fit_translated_scalar; assumption|].
    split; [exact L|]. split; [exact Rc|].
    intros i j Hi Hj. apply (fit_spec_elem [[v]] 1%nat); try assumption. apply le_n.
Qed.

Lemma member_result v rows h w i j : result_rows v rows -> 1 <= i <= h -> 1 <= j <= w ->
  cse_member h w v i j = shown (fit_elem rows (pos i) (pos j)).
Proof.
  intros Hr Hi Hj.
  destruct (fit_result v rows h w Hr) as (Hf & L & Rc & E); try lia.
  apply (member_of_fitted v (fit_spec h w rows)); try assumption.
  apply E; unfold pos; lia.
Qed.

Lemma range_value_result v rows h w : result_rows v rows -> 1 <= h -> 1 <= w ->
  cse_range_value h w v = Ok (matrix (fit_spec h w rows)).
Proof.
  intros Hr Hh Hw. destruct (fit_result v rows h w Hr Hh Hw) as (Hf & _).
  unfold cse_range_value, eval_formula.
  change (arrayfit.f__ArrayFormulaContext_fit_to_range (VTuple [VInt h; VInt w]) v)
    with (fit (target h w) v).
  rewrite Hf. cbn [bind]. unfold matrix at 1. rewrite blank_tuple. reflexivity.
Qed.

(* =========================================================== range_formula *)
Lemma range_formula_some cells f : range_formula cells = Some f ->
  exists row rest h w, cells = (Member f (1, 1, h, w) :: row) :: rest
                       /\ zlen cells <= h /\ zlen (hd [] cells) <= w.
Proof.
  unfold range_formula.
  destruct cells as [|[|[|g [[[i j] h] w]] row] rest]; try discriminate.
  match goal with |- (if ?c then _ else _) = _ -> _ => destruct c eqn:E; [|discriminate] end.
  intros H. injection H as <-.
  apply andb_true_iff in E. destruct E as [E Es]. apply andb_true_iff in E. destruct E as [E _].
  apply andb_true_iff in E. destruct E as [Ei Ej]. apply Z.eqb_eq in Ei, Ej. subst i j.
  apply andb_true_iff in Es. destruct Es as [E1 E2]. apply Z.leb_le in E1, E2.
  exists row, rest, h, w. split; [reflexivity|]. split; assumption.
Qed.

(* ====================================================== the sheet, any range *)
(* every member belongs to a complete array formula: the cells of its
   reference range carry the same text and size, each its own offset *)
Definition coherent (sh : sheet) : Prop :=
  forall row col f i j h w, sh row col = Member f (i, j, h, w) ->
    1 <= i <= h /\ 1 <= j <= w /\
    forall p q, 0 <= p < h -> 0 <= q < w ->
      sh (row - i + 1 + p) (col - j + 1 + q) = Member f (p + 1, q + 1, h, w).

(* every array formula of the sheet returns a scalar or a non-empty rectangular
   array, of scalars *)
Definition results_ok (sh : sheet) (fv : str -> pyval) (rowsf : str -> list (list pyval)) : Prop :=
  forall row col f s, sh row col = Member f s ->
    result_rows (fv f) (rowsf f) /\ all_scalar (rowsf f).

(* the value a cell shows, as a function *)
Definition shows_val (sh : sheet) (rowsf : str -> list (list pyval)) (plain : Z -> Z -> pyval)
                     (row col : Z) : pyval :=
  match sh row col with
  | Member f (i, j, _, _) => blank0 (fit_elem (rowsf f) (pos i) (pos j))
  | Other => plain row col
  end.

Lemma cell_shows_val sh fv rowsf plain row col :
  coherent sh -> results_ok sh fv rowsf ->
  cell_shows sh fv plain row col = Ok (shows_val sh rowsf plain row col).
Proof.
  intros Hc Hr. unfold cell_shows, shows_val.
  destruct (sh row col) as [|f [[[i j] h] w]] eqn:E; [reflexivity|].
  destruct (Hc row col f i j h w E) as (Hi & Hj & _).
  destruct (Hr row col f _ E) as [Hres Hsc].
  rewrite (member_result (fv f) (rowsf f) h w i j Hres Hi Hj).
  apply shown_scalar. apply fit_elem_scalar. exact Hsc.
Qed.

Lemma rect_cells_shape sh r0 c0 nr nc : (1 <= nr)%nat -> (1 <= nc)%nat ->
  exists row rest, rect_cells sh r0 c0 nr nc = (sh (r0 + 0) (c0 + 0) :: row) :: rest
                   /\ zlen (rect_cells sh r0 c0 nr nc) = Z.of_nat nr
                   /\ zlen (hd [] (rect_cells sh r0 c0 nr nc)) = Z.of_nat nc.
Proof.
  intros Hr Hc. unfold rect_cells.
  destruct nr as [|nr]; [lia|]. destruct nc as [|nc]; [lia|].
  cbn [seq map hd]. change (Z.of_nat 0) with 0. eexists. eexists. split; [reflexivity|].
  unfold zlen. cbn [length]. rewrite !map_length, !seq_length. split; reflexivity.
Qed.

(* C13_range_shows_cells: EVERY rectangle of a sheet whose members belong to
   complete array formulas evaluates to an nr x nc matrix, and at each position
   the cell there shows that element (a member cell shows a blank element as 0) *)
Theorem range_shows_cells sh fv rowsf plain r0 c0 nr nc :
  coherent sh -> results_ok sh fv rowsf -> (1 <= nr)%nat -> (1 <= nc)%nat ->
  exists V, sheet_range_value sh fv plain r0 c0 nr nc = Ok (matrix V)
            /\ length V = nr /\ rectangular nc V
            /\ forall p q, (p < nr)%nat -> (q < nc)%nat ->
                 exists e y, elem2 V p q = Some e
                             /\ cell_shows sh fv plain (r0 + Z.of_nat p) (c0 + Z.of_nat q) = Ok y
                             /\ (y = e \/ y = blank0 e).
Proof.
  intros Hc Hr Hnr Hnc. unfold sheet_range_value.
  destruct (rect_cells_shape sh r0 c0 nr nc Hnr Hnc) as (row & rest & Ecells & Lr & Lc).
  destruct (range_formula (rect_cells sh r0 c0 nr nc)) as [f|] eqn:Erf.
  - (* the range has the formula f of its own *)
    destruct (range_formula_some _ f Erf) as (row' & rest' & h & w & Ec' & Hh & Hw).
    rewrite Lr in Hh. rewrite Lc in Hw.
    assert (Etl : sh (r0 + 0) (c0 + 0) = Member f (1, 1, h, w)) by congruence.
    destruct (Hc _ _ f 1 1 h w Etl) as (_ & _ & Hall).
    destruct (Hr _ _ f _ Etl) as [Hres Hsc].
    assert (H1 : 1 <= Z.of_nat nr) by lia. assert (H2 : 1 <= Z.of_nat nc) by lia.
    destruct (fit_result (fv f) (rowsf f) (Z.of_nat nr) (Z.of_nat nc) Hres H1 H2) as (_ & L & Rc & E).
    rewrite ?Nat2Z.id in L, Rc, E.
    exists (fit_spec (Z.of_nat nr) (Z.of_nat nc) (rowsf f)).
    split; [apply range_value_result; assumption|]. split; [exact L|]. split; [exact Rc|].
    intros p q Hp Hq. exists (fit_elem (rowsf f) p q), (blank0 (fit_elem (rowsf f) p q)).
    split; [apply E; rewrite ?Nat2Z.id; assumption|]. split; [|right; reflexivity].
    assert (Ecell : sh (r0 + Z.of_nat p) (c0 + Z.of_nat q)
                    = Member f (Z.of_nat p + 1, Z.of_nat q + 1, h, w)).
    { replace (r0 + Z.of_nat p) with (r0 + 0 - 1 + 1 + Z.of_nat p) by lia.
      replace (c0 + Z.of_nat q) with (c0 + 0 - 1 + 1 + Z.of_nat q) by lia.
      apply Hall; lia. }
    unfold cell_shows. rewrite Ecell.
    rewrite (member_result (fv f) (rowsf f) h w _ _ Hres) by lia.
    unfold pos. replace (Z.to_nat (Z.of_nat p + 1 - 1)) with p by lia.
    replace (Z.to_nat (Z.of_nat q + 1 - 1)) with q by lia.
    apply shown_scalar. apply fit_elem_scalar. exact Hsc.
  - (* cell by cell *)
    set (Y := fun p q : nat => shows_val sh rowsf plain (r0 + Z.of_nat p) (c0 + Z.of_nat q)).
    set (F := fun p : nat => map (Y p) (seq 0 nc)).
    exists (map F (seq 0 nr)).
    split; [|split; [|split]].
    + rewrite (mapM_ok_map _ (fun p => VTuple (F p))).
      * cbn [bind]. unfold matrix. rewrite map_map. reflexivity.
      * intros p _. rewrite (mapM_ok_map _ (Y p)); [reflexivity|].
        intros q _. unfold Y. apply cell_shows_val; assumption.
    + rewrite map_length, seq_length. reflexivity.
    + unfold rectangular. apply Forall_map. apply Forall_forall. intros p _.
      unfold F. rewrite map_length, seq_length. reflexivity.
    + intros p q Hp Hq. exists (Y p q), (Y p q). split; [|split; [|left; reflexivity]].
      * unfold elem2. rewrite nth_error_map, nth_error_seq_lt by exact Hp. cbn [option_map].
        unfold F. rewrite nth_error_map, nth_error_seq_lt by exact Hq. reflexivity.
      * unfold Y. apply cell_shows_val; assumption.
Qed.

(* … and which branch is taken: a range reaching beyond the array formula of
   its top left cell is evaluated cell by cell (the repair) *)
Theorem range_formula_larger f i j h w row rest :
  h < zlen ((Member f (i, j, h, w) :: row) :: rest) \/ w < zlen (Member f (i, j, h, w) :: row) ->
  range_formula ((Member f (i, j, h, w) :: row) :: rest) = None.
Proof.
  intros Hl. unfold range_formula. cbn [hd].
  match goal with |- (if ?a && ?b then _ else _) = _ => destruct a; [|reflexivity]; destruct b eqn:E; [|reflexivity] end.
  apply andb_true_iff in E. destruct E as [E1 E2]. apply Z.leb_le in E1, E2. lia.
Qed.

(* ========================================= sheets written by load_array_formulas *)
Definition disjoint (a b : array_formula) : Prop :=
  forall row col, in_ref a row col = true -> in_ref b row col = true -> False.

Fixpoint pairwise_disjoint (fs : list array_formula) : Prop :=
  match fs with
  | [] => True
  | a :: fs' => Forall (disjoint a) fs' /\ pairwise_disjoint fs'
  end.

Definition stamp_at (a : array_formula) (row col : Z) : stamp :=
  (row - af_r0 a + 1, col - af_c0 a + 1, af_h a, af_w a).

Lemma sheet_of_in fs row col f s : sheet_of fs row col = Member f s ->
  exists a, In a fs /\ in_ref a row col = true /\ f = af_text a /\ s = stamp_at a row col.
Proof.
  induction fs as [|b fs IH]; cbn [sheet_of]; [discriminate|].
  destruct (in_ref b row col) eqn:E.
  - intros H. injection H as <- <-. exists b. repeat split; [left; reflexivity|exact E].
  - intros H. destruct (IH H) as (a & Ha & Hrest). exists a. split; [right; exact Ha|exact Hrest].
Qed.

Lemma sheet_of_first fs a row col : pairwise_disjoint fs -> In a fs -> in_ref a row col = true ->
  sheet_of fs row col = Member (af_text a) (stamp_at a row col).
Proof.
  induction fs as [|b fs IH]; intros Hd Hin Href; [contradiction|].
  cbn [sheet_of]. destruct Hd as [Hb Hd]. destruct Hin as [->|Hin].
  - rewrite Href. reflexivity.
  - destruct (in_ref b row col) eqn:E.
    + exfalso. rewrite Forall_forall in Hb. exact (Hb a Hin row col E Href).
    + apply IH; assumption.
Qed.

Lemma in_ref_bounds a row col : in_ref a row col = true ->
  af_r0 a <= row < af_r0 a + af_h a /\ af_c0 a <= col < af_c0 a + af_w a.
Proof.
  unfold in_ref. intros H. repeat (apply andb_true_iff in H; destruct H as [H ?]).
  apply Z.leb_le in H. apply Z.ltb_lt in H0, H2. apply Z.leb_le in H1. lia.
Qed.

Lemma in_ref_of_bounds a row col :
  af_r0 a <= row < af_r0 a + af_h a -> af_c0 a <= col < af_c0 a + af_w a -> in_ref a row col = true.
Proof.
  intros H1 H2. unfold in_ref. repeat (apply andb_true_iff; split);
    try (apply Z.leb_le; lia); apply Z.ltb_lt; lia.
Qed.

(* C13_sheet_of_coherent: array formulas over reference ranges that do not
   overlap give a coherent sheet *)
Theorem sheet_of_coherent fs : pairwise_disjoint fs -> coherent (sheet_of fs).
Proof.
  intros Hd row col f i j h w E.
  destruct (sheet_of_in fs row col f _ E) as (a & Ha & Href & -> & Es).
  unfold stamp_at in Es. injection Es as -> -> -> ->.
  pose proof (in_ref_bounds a row col Href) as [Hb1 Hb2].
  split; [lia|]. split; [lia|]. intros p q Hp Hq.
  rewrite (sheet_of_first fs a _ _ Hd Ha) by (apply in_ref_of_bounds; lia).
  unfold stamp_at. do 2 f_equal. repeat f_equal; lia.
Qed.

(* the sheet of ONE array formula is what load_members writes *)
Lemma sheet_of_load_members a row col s :
  In ((row, col), s) (load_members (af_r0 a) (af_c0 a) (af_h a) (af_w a)) ->
  sheet_of [a] row col = Member (af_text a) s.
Proof.
  intros H. apply load_members_spec in H. destruct H as (i & j & Hi & Hj & -> & -> & ->).
  cbn [sheet_of]. rewrite in_ref_of_bounds by lia. do 2 f_equal. repeat f_equal; lia.
Qed.

(* ================================================== examples (non-vacuity) *)
(* =A1:B1*2 (text "f") over F10:G10 and again over H10:I10 — the sheet of the
   repaired finding: the range F10:I10 is now evaluated cell by cell *)
Definition af1 : array_formula := {| af_r0 := 10; af_c0 := 6; af_h := 1; af_w := 2; af_text := [102] |}.
Definition af2 : array_formula := {| af_r0 := 10; af_c0 := 8; af_h := 1; af_w := 2; af_text := [102] |}.
Definition sh12 : sheet := sheet_of [af1; af2].
Definition fv12 (_ : str) : pyval := matrix [[VInt 2; VInt 4]].
Definition plain0 (_ _ : Z) : pyval := VNone.

Example ex_adjacent_repaired :
  range_formula (rect_cells sh12 10 6 1 4) = None
  /\ sheet_range_value sh12 fv12 plain0 10 6 1 4 = Ok (matrix [[VInt 2; VInt 4; VInt 2; VInt 4]])
  /\ range_formula (rect_cells sh12 10 6 1 2) = Some [102]
  /\ sheet_range_value sh12 fv12 plain0 10 7 1 3 = Ok (matrix [[VInt 4; VInt 2; VInt 4]])
  /\ sheet_range_value sh12 fv12 plain0 10 6 2 5
     = Ok (matrix [[VInt 2; VInt 4; VInt 2; VInt 4; VNone]; [VNone; VNone; VNone; VNone; VNone]]).
Proof. repeat split; vm_compute; reflexivity. Qed.

Example ex_range_hyps :
  pairwise_disjoint [af1; af2]
  /\ results_ok sh12 fv12 (fun _ => [[VInt 2; VInt 4]]).
Proof.
  split.
  - cbn [pairwise_disjoint]. split; [|split; [constructor|exact I]].
    constructor; [|constructor]. intros row col H1 H2.
    apply in_ref_bounds in H1, H2. cbn in H1, H2. lia.
  - intros row col f s _. split.
    + left. exists 2%nat. repeat split; try discriminate; try lia. repeat constructor.
    + repeat constructor.
Qed.
