(* Proofs/C03Graph.v — C03, part 2: facts about the machine of Model/Graph.v
   that persistence needs on top of the C01 development: the built set made by
   _gen_graph is the LEAST precedent-closed set containing the seed; building a
   list of cells; histories on a model in which every cell is built; the
   from-scratch value only depends on the part of the workbook it reads. *)
From Coq Require Import List Arith Bool Lia.
From PV Require Import Lib.Py Model.Graph.
From PV Require Import Proofs.C01Base Proofs.C01Reset Proofs.C01Eval Proofs.C01Inv Proofs.C01.
Import ListNotations.
Local Open Scope nat_scope.

Section Closure.
  Variable W : workbook.
  Notation N := (wb_n W).
  Notation deps := (wb_deps W).

  Lemma closure_min (B : nat -> Prop) :
    (forall m d, B m -> In d (deps m) -> B d) ->
    forall f b n, (forall m, b m = true -> B m) -> B n ->
      forall m, closure W f b n m = true -> B m.
  Proof.
    intros BD. induction f as [|f IH]; intros b n Hb Hn m; [cbn; auto|].
    rewrite closure_unfold. destruct (b n) eqn:Bn; auto.
    set (b0 := fun m => if Nat.eqb m n then true else b m).
    assert (H0: forall m, b0 m = true -> B m).
    { intros x. unfold b0. destruct (Nat.eqb_spec x n) as [->|_]; auto. }
    assert (Hl: forall d, In d (deps n) -> B d) by (intros d Hd; eapply BD; eauto).
    clearbody b0. revert b0 H0 Hl. generalize (deps n) as l.
    induction l as [|d l IHl]; intros b0 H0 Hl; cbn [fold_left]; auto.
    apply IHl.
    - intros x. apply IH; auto. apply Hl. now left.
    - intros x Hx. apply Hl. now right.
  Qed.
End Closure.

Section Build.
  Variable W : workbook.
  Variable sem : nat -> list pyval -> pyval.
  Hypothesis WF : wf W.
  Hypothesis NB : sem_nonblank W sem.
  Hypothesis SO : stored_ok W sem.
  Notation N := (wb_n W).
  Notation deps := (wb_deps W).
  Notation Inv := (Inv W sem).

  Definition build_list (s : state) (l : list nat) : state :=
    fold_left (fun s n => build W sem s n) l s.

  (* nothing but the precedent closure of the seeds is built *)
  Lemma build_list_sub (B : nat -> Prop) :
    (forall m d, B m -> In d (deps m) -> B d) ->
    forall l s, (forall m, st_built s m = true -> B m) -> (forall n, In n l -> B n) ->
      forall m, st_built (build_list s l) m = true -> B m.
  Proof.
    intros BD. induction l as [|n l IH]; intros s Hs Hl; cbn [build_list fold_left]; auto.
    apply IH.
    - rewrite build_unfold. cbn zeta. cbn [st_built]. apply closure_min; auto. apply Hl. now left.
    - intros x Hx. apply Hl. now right.
  Qed.

  Lemma build_mono s n : Inv s -> n < N ->
    forall m, st_built s m = true -> st_built (build W sem s n) m = true.
  Proof.
    intros I L m Hm. rewrite build_unfold. cbn zeta. cbn [st_built].
    now apply (closure_props W WF (st_built s) n L (inv_lt W sem s I) (inv_deps W sem s I)).
  Qed.

  Lemma build_list_inv : forall l s, Inv s -> (forall n, In n l -> n < N) ->
    Inv (build_list s l)
    /\ (forall m, st_built s m = true \/ In m l -> st_built (build_list s l) m = true)
    /\ (forall k, wb_input W k = true -> st_cache (build_list s l) k = st_cache s k).
  Proof.
    induction l as [|n l IH]; intros s I Hl; cbn [build_list fold_left].
    - split; [auto|split]; auto. intros m [H|H]; [auto|destruct H].
    - assert (L: n < N) by (apply Hl; now left).
      destruct (IH (build W sem s n) (build_inv W sem WF NB s n SO I L)
                   ltac:(intros x Hx; apply Hl; now right)) as (I' & B' & C').
      split; [auto|split].
      + intros m [H|[->|H]]; apply B'; auto.
        * left. now apply build_mono.
        * left. now apply (build_built W sem WF).
      + intros k Ik. fold (build_list (build W sem s n) l). rewrite C' by auto.
        now apply (build_inputs W sem WF NB).
  Qed.

  (* -------------------------------------------- every cell is built *)
  Definition allcells (s : state) : Prop :=
    forall n, n < N -> wb_range W n = false -> st_built s n = true.

  (* operations of a post-load history, no reference to the state *)
  Definition post_ok (o : gop) : Prop :=
    match o with
    | Evaluate n => n < N
    | Build n => n < N
    | SetValue a v => a < N /\ wb_input W a = true /\ scalar_exact v = true
    end.

  Lemma step_built_mono s o : Inv s -> post_ok o ->
    forall m, st_built s m = true -> st_built (fst (step W sem s o)) m = true.
  Proof.
    intros I OK m Hm. destruct o as [n|a v|n]; cbn [step fst].
    - rewrite evaluate_unfold. cbn [fst st_built]. now apply build_mono.
    - rewrite set_value_unfold. destruct (negb (st_built s a)); auto.
      destruct (py_eq (st_cache s a) v && same_type (st_cache s a) v); auto.
    - now apply build_mono.
  Qed.

  Lemma post_ok_op s o : allcells s -> post_ok o -> ok_op W s o.
  Proof.
    intros AC OK. destruct o as [n|a v|n]; cbn in *; auto.
    destruct OK as (La & Ia & Ev).
    assert (Ra: wb_range W a = false).
    { destruct (wb_range W a) eqn:R; auto. rewrite (range_noninput W WF a La R) in Ia. discriminate. }
    repeat split; auto. intros d Ld _ Bd. left.
    destruct (wb_range W d) eqn:R; auto. rewrite (AC d Ld R) in Bd. discriminate.
  Qed.

  Lemma post_history_ok : forall h s, Inv s -> allcells s -> Forall post_ok h ->
    ok_history W sem (ok_op W) s h.
  Proof.
    induction h as [|o h IH]; intros s I AC F; cbn [ok_history]; auto.
    inversion F as [|? ? Ho Fh]; subst.
    pose proof (post_ok_op s o AC Ho) as OK. split; auto.
    apply IH; auto.
    - now apply (step_inv W sem WF NB SO).
    - intros n Ln Rn. apply step_built_mono; auto.
  Qed.

  (* the same for a model without stored results in which the cells that are
     written are built (a loaded model: no condition on the order of building) *)
  Definition op_in (P : nat -> Prop) (o : gop) : Prop :=
    match o with
    | Evaluate n => n < N
    | Build n => n < N
    | SetValue a v => P a /\ wb_input W a = true /\ scalar_exact v = true
    end.

  Lemma nodata_history_ok (P : nat -> Prop) : (forall n, wb_stored W n = VNone) ->
    forall h s, Inv s -> (forall a, P a -> st_built s a = true) -> Forall (op_in P) h ->
      ok_history W sem (ok_op W) s h.
  Proof.
    intros ND. induction h as [|o h IH]; intros s I PB F; cbn [ok_history]; auto.
    inversion F as [|? ? Ho Fh]; subst.
    assert (PO: post_ok o).
    { destruct o as [n|a v|n]; cbn in *; auto. destruct Ho as (Pa & Ia & Ev).
      repeat split; auto. apply (inv_lt W sem s I). auto. }
    assert (OK: ok_op W s o).
    { destruct o as [n|a v|n]; cbn in *; auto. destruct Ho as (Pa & Ia & Ev).
      repeat split; auto. intros d _ _ _. right. apply ND. }
    split; auto. apply IH; auto.
    - now apply (step_inv W sem WF NB SO).
    - intros a Pa. apply step_built_mono; auto.
  Qed.
End Build.

(* ---------------------------------------------------------- congruence *)
(* two workbooks that agree, below N, on which nodes are inputs, on the
   precedents and on the meaning of the formula/range nodes have the same
   from-scratch values (inp0 and the stored results play no role) *)
Section Congr.
  Variables W1 W2 : workbook.
  Variables sem1 sem2 : nat -> list pyval -> pyval.
  Hypothesis WF1 : wf W1.
  Hypothesis WF2 : wf W2.
  Hypothesis EN : wb_n W1 = wb_n W2.
  Hypothesis EI : forall n, n < wb_n W1 -> wb_input W1 n = wb_input W2 n.
  Hypothesis ED : forall n, n < wb_n W1 -> wb_deps W1 n = wb_deps W2 n.
  Hypothesis ES : forall n vals, n < wb_n W1 -> wb_input W1 n = false -> sem1 n vals = sem2 n vals.

  Lemma spec_congr inp : forall n, n < wb_n W1 -> spec W1 sem1 inp n = spec W2 sem2 inp n.
  Proof.
    induction n as [n IH] using lt_wf_ind. intros L.
    rewrite (spec_unfold W1 sem1 WF1) by auto.
    rewrite (spec_unfold W2 sem2 WF2) by (rewrite <- EN; auto).
    rewrite <- EI, <- ED by auto. destruct (wb_input W1 n) eqn:I; auto.
    rewrite <- ES by auto. f_equal. apply map_ext_in. intros d Hd.
    pose proof (deps_lt W1 WF1 n d L Hd). apply IH; lia.
  Qed.

  Lemma run_spec_congr : forall h inp, Forall (post_ok W1) h ->
    run_spec W1 sem1 inp h = run_spec W2 sem2 inp h.
  Proof.
    induction h as [|o h IH]; intros inp F; cbn [run_spec]; auto.
    inversion F as [|? ? Ho Fh]; subst. f_equal; auto.
    destruct o; auto. now apply spec_congr.
  Qed.

  Lemma post_ok_congr o : post_ok W1 o -> post_ok W2 o.
  Proof.
    destruct o as [n|a v|n]; cbn; rewrite <- ?EN; auto.
    intros (A & B & C). rewrite <- EI; auto.
  Qed.
End Congr.
