(* Proofs/C06Lin.v — linear systems x = A x + b under the pass discipline of
   Model/Iter.v: the contraction step, the a-posteriori bound, and one pass of
   the model on a workbook of linear formulas (no SUM terms). *)
From Coq Require Import ZArith QArith Qabs List Bool Lia Lqa.
From PV Require Import Lib.Py Model.Iter Proofs.C06.
Import ListNotations.
Open Scope Q_scope.

(* ------------------------------------------------------------------ *)
(* 1. Arithmetic.                                                       *)

Lemma abs_le : forall x y : Q, Qabs x <= y <-> - y <= x <= y.
Proof. exact Qabs_Qle_condition. Qed.

Lemma mul_bound : forall a d E, Qabs d <= E -> Qabs (a * d) <= Qabs a * E.
Proof.
  intros a d E H. rewrite Qabs_Qmult. rewrite (Qmult_comm (Qabs a) (Qabs d)), (Qmult_comm (Qabs a) E).
  apply Qmult_le_compat_r; [exact H | apply Qabs_nonneg].
Qed.

Lemma abs_add : forall x y A B, Qabs x <= A -> Qabs y <= B -> Qabs (x + y) <= A + B.
Proof.
  intros x y A B Hx Hy. apply abs_le in Hx. apply abs_le in Hy. apply abs_le. lra.
Qed.

(* a row of the system: coefficients with the cell they multiply *)
Fixpoint tdot (ts : list term) (x : nat -> Q) : Q :=
  match ts with
  | [] => 0
  | TCell a j :: ts' => a * x j + tdot ts' x
  | TSum _ _ :: ts' => tdot ts' x
  end.
Fixpoint tnorm (ts : list term) : Q :=
  match ts with
  | [] => 0
  | TCell a _ :: ts' => Qabs a + tnorm ts'
  | TSum _ _ :: ts' => tnorm ts'
  end.
Definition no_sum_terms (ts : list term) : Prop :=
  forall t, In t ts -> match t with TCell _ _ => True | TSum _ _ => False end.

Lemma tnorm_nonneg : forall ts, 0 <= tnorm ts.
Proof.
  induction ts as [|[a j|a r] ts IH]; cbn [tnorm]; try lra.
  pose proof (Qabs_nonneg a). lra.
Qed.

(* C06_contraction_step: a value computed from readings that are each within E
   of the fixed point is within (sum |a_ij|) E of it — whatever mixture of
   new and previous-pass values the readings are. *)
Lemma contraction_step : forall ts (xs y : nat -> Q) b E,
  (forall a j, In (TCell a j) ts -> Qabs (y j - xs j) <= E) ->
  Qabs ((b + tdot ts y) - (b + tdot ts xs)) <= tnorm ts * E.
Proof.
  induction ts as [|[a j|a r] ts IH]; intros xs y b E H; cbn [tdot tnorm].
  - apply abs_le. lra.
  - assert (H1 : Qabs (a * (y j - xs j)) <= Qabs a * E) by (apply mul_bound, (H a j); left; reflexivity).
    assert (H2 : Qabs (b + tdot ts y - (b + tdot ts xs)) <= tnorm ts * E)
      by (apply IH; intros a' j' Hin; apply (H a' j'); right; assumption).
    apply abs_le in H1. apply abs_le in H2. apply abs_le. lra.
  - apply IH. intros a' j' Hin; apply (H a' j'); right; assumption.
Qed.

(* C06_contraction_bound: if one pass maps every E-ball around the fixed point
   into the qE-ball (q < 1) and no component moved by more than d, then every
   component is within q/(1-q) d of the fixed point. *)
Lemma max_dist : forall (cs : list nat) (f : nat -> Q),
  exists E, 0 <= E /\ (forall c, In c cs -> f c <= E) /\ (E == 0 \/ exists c, In c cs /\ E == f c).
Proof.
  induction cs as [|c cs IH]; intros f.
  - exists 0. split; [lra|]. split; [intros ? []|left; reflexivity].
  - destruct (IH f) as (E & H0 & Hle & Hat).
    destruct (Qlt_le_dec E (f c)) as [L|L].
    + exists (f c). split; [lra|]. split.
      * intros c' [->|Hin]; [lra|]. specialize (Hle _ Hin). lra.
      * right. exists c. split; [left; reflexivity|reflexivity].
    + exists E. split; [exact H0|]. split.
      * intros c' [->|Hin]; auto.
      * destruct Hat as [Z|(c' & Hin & Ec)]; [left; exact Z|right; exists c'; split; [right|]; auto].
Qed.

Lemma contraction_bound : forall (cs : list nat) (xs old new : nat -> Q) q d,
  0 <= q -> q < 1 -> 0 <= d ->
  (forall c, In c cs -> Qabs (new c - old c) <= d) ->
  (forall E, 0 <= E -> (forall c, In c cs -> Qabs (old c - xs c) <= E) ->
             forall c, In c cs -> Qabs (new c - xs c) <= q * E) ->
  forall c, In c cs -> Qabs (new c - xs c) <= q / (1 - q) * d.
Proof.
  intros cs xs old new q d Hq0 Hq1 Hd Hmove Hpass c Hc.
  destruct (max_dist cs (fun c => Qabs (old c - xs c))) as (E & HE0 & Hle & Hat).
  assert (HE : E <= d / (1 - q)).
  { destruct Hat as [Z|(c0 & Hin & Ec)].
    - rewrite Z. apply Qle_shift_div_l; lra.
    - pose proof (Hpass E HE0 Hle c0 Hin) as H1. pose proof (Hmove c0 Hin) as H2.
      apply abs_le in H1. apply abs_le in H2.
      assert (H3 : Qabs (old c0 - xs c0) <= d + q * E) by (apply abs_le; lra).
      apply Qle_shift_div_l; lra. }
  pose proof (Hpass E HE0 Hle c Hc) as H1.
  assert (H2 : q * E <= q / (1 - q) * d).
  { unfold Qdiv. rewrite <- Qmult_assoc. rewrite (Qmult_comm (/ (1 - q)) d).
    rewrite (Qmult_comm q E), (Qmult_comm q (d * / (1 - q))).
    apply Qmult_le_compat_r; auto. }
  lra.
Qed.

(* ------------------------------------------------------------------ *)
(* 2. One pass of the model on a workbook of linear formulas.           *)

Definition no_sum (w : wbook) : Prop :=
  forall c b ts, formula (spec w c) = Some (b, ts) -> no_sum_terms ts.
Definition fixed_point (w : wbook) (xs : nat -> Q) : Prop :=
  forall c b ts, formula (spec w c) = Some (b, ts) -> xs c == b + tdot ts xs.
Definition row_bound (w : wbook) (q : Q) : Prop :=
  forall c b ts, formula (spec w c) = Some (b, ts) -> tnorm ts <= q.

Definition dist (xs : nat -> Q) (c : nat) (v : val) : Q := Qabs (num v - xs c).

(* every stored number (current and previous-pass) of a built cell is within E
   of the fixed point; the formula cells computed in this pass within qE *)
Definition near (w : wbook) (xs : nat -> Q) (q E : Q) (st : state) : Prop :=
  (forall c, built (getc st c) = true ->
             dist xs c (value (getc st c)) <= E /\ dist xs c (prev (getc st c)) <= E) /\
  (forall c, memb c (computed (tr st)) = true -> built (getc st c) = true ->
             is_formula w c = true -> dist xs c (value (getc st c)) <= q * E).

Definition frame (st st' : state) : Prop :=
  length (cells st') = length (cells st) /\ forall c, built (getc st' c) = built (getc st c).

Lemma frame_refl : forall st, frame st st.
Proof. split; auto. Qed.
Lemma frame_trans : forall a b c, frame a b -> frame b c -> frame a c.
Proof. intros a b c [L1 B1] [L2 B2]; split; [congruence|intros; rewrite B2; auto]. Qed.

Section Pass.
Variable w : wbook.
Variable xs : nat -> Q.
Variables q E : Q.
Hypothesis Hns : no_sum w.
Hypothesis Hfp : fixed_point w xs.
Hypothesis Hrow : row_bound w q.
Hypothesis Hq1 : q <= 1.
Hypothesis HE : 0 <= E.

Lemma qE_le_E : q * E <= E.
Proof. rewrite <- (Qmult_1_l E) at 2. apply Qmult_le_compat_r; auto. Qed.

Notation near' := (near w xs q E).

Section Rec.
Variable rec_c : nat -> state -> res (val * state).
Hypothesis Hrec : forall j st v st', near' st -> rec_c j st = Ok (v, st') ->
  near' st' /\ frame st st' /\ dist xs j v <= E.

Lemma eval_terms_near : forall ts acc st q' st',
  no_sum_terms ts -> near' st -> eval_terms w rec_c ts acc st = Ok (q', st') ->
  near' st' /\ frame st st' /\ Qabs (q' - (acc + tdot ts xs)) <= tnorm ts * E.
Proof.
  induction ts as [|[a j|a r] ts IH]; intros acc st q' st' Hn H Ev; cbn [eval_terms] in Ev.
  - inversion Ev; subst. split; [exact H|]. split; [apply frame_refl|].
    cbn [tdot tnorm]. apply abs_le. lra.
  - destruct (rec_c j st) as [[v s1]|e] eqn:E1; [|discriminate].
    destruct (Hrec _ _ _ _ H E1) as (N1 & F1 & D1).
    assert (Hn' : no_sum_terms ts) by (intros t Ht; apply Hn; right; exact Ht).
    destruct (IH _ _ _ _ Hn' N1 Ev) as (N2 & F2 & D2).
    split; [exact N2|]. split; [eapply frame_trans; eauto|].
    cbn [tdot tnorm]. unfold dist in D1.
    pose proof (Qred_correct (acc + a * num v)) as Hr.
    set (r := Qred (acc + a * num v)) in *.
    assert (H1 : Qabs (a * (num v - xs j)) <= Qabs a * E) by (apply mul_bound; exact D1).
    apply abs_le in H1. apply abs_le in D2. apply abs_le. lra.
  - exfalso. apply (Hn (TSum a r)). left; reflexivity.
Qed.

Lemma near_start : forall c st, near' st -> built (getc st c) = true ->
  near' (start_calcs c st) /\ frame st (start_calcs c st).
Proof.
  intros c st [N1 N2] B. pose proof (built_in_range _ _ B) as L. unfold start_calcs.
  split; [split|split].
  - intros c' B'. destruct (Nat.eq_dec c c') as [<-|Hne].
    + rewrite getc_setc_same by exact L. cbn [value prev]. destruct (N1 c B); auto.
    + rewrite getc_setc_other in * by exact Hne. apply N1; auto.
  - intros c' Hc B' F. cbn [setc tr] in Hc. destruct (Nat.eq_dec c c') as [<-|Hne].
    + rewrite getc_setc_same by exact L. cbn [value]. apply N2; auto.
    + rewrite getc_setc_other in * by exact Hne. apply N2; auto.
  - cbn. apply upd_length.
  - intros c'. destruct (Nat.eq_dec c c') as [<-|Hne].
    + rewrite getc_setc_same by exact L. reflexivity.
    + rewrite getc_setc_other by exact Hne. reflexivity.
Qed.

Lemma near_setter : forall c v st, near' st -> built (getc st c) = true ->
  dist xs c (Some v) <= q * E ->
  near' (setter c (Some v) st) /\ frame st (setter c (Some v) st).
Proof.
  intros c v st [N1 N2] B D. pose proof (built_in_range _ _ B) as L. pose proof qE_le_E as HqE.
  split; [split|split].
  - intros c' B'. destruct (Nat.eq_dec c c') as [<-|Hne].
    + rewrite getc_setter_same by exact L. cbn [value prev]. split; [lra|]. apply N1; auto.
    + rewrite getc_setter_other in * by exact Hne. apply N1; auto.
  - intros c' Hc B' F. destruct (Nat.eq_dec c c') as [<-|Hne].
    + rewrite getc_setter_same by exact L. cbn [value]. exact D.
    + rewrite getc_setter_other in * by exact Hne. cbn [setter tr computed] in Hc.
      rewrite memb_add_other in Hc by auto. apply N2; auto.
  - cbn. apply upd_length.
  - intros c'. destruct (Nat.eq_dec c c') as [<-|Hne].
    + rewrite getc_setter_same by exact L. reflexivity.
    + rewrite getc_setter_other by exact Hne. reflexivity.
Qed.

Lemma eval_body_near : forall c st v st',
  near' st -> eval_body w rec_c c st = Ok (v, st') ->
  near' st' /\ frame st st' /\ dist xs c v <= E.
Proof.
  intros c st v st' H Ev. unfold eval_body in Ev.
  destruct (built (getc st c)) eqn:B; cbn [negb] in Ev; [|discriminate].
  assert (Hread : dist xs c (readv st c) <= E).
  { unfold readv. destruct H as [N1 _]. destruct (N1 c B). destruct (wip (getc st c)); auto. }
  destruct (needs_calc st c) eqn:N.
  - destruct (formula (spec w c)) as [[b ts]|] eqn:F.
    + destruct (near_start c st H B) as (N0 & F0).
      destruct (eval_terms w rec_c ts (Qred b) (start_calcs c st)) as [[qv s2]|e] eqn:E1; [|discriminate].
      destruct (eval_terms_near _ _ _ _ _ (Hns _ _ _ F) N0 E1) as (N2 & F2 & D2).
      inversion Ev; subst. pose proof (frame_trans _ _ _ F0 F2) as F02.
      assert (B2 : built (getc s2 c) = true) by (destruct F02 as [_ Bq]; rewrite Bq; exact B).
      assert (D : dist xs c (Some qv) <= q * E).
      { unfold dist. cbn [num]. pose proof (Hfp _ _ _ F) as Hx. pose proof (Hrow _ _ _ F) as Hr.
        pose proof (Qred_correct b) as Hb. set (rb := Qred b) in *.
        assert (Hm : tnorm ts * E <= q * E) by (apply Qmult_le_compat_r; auto).
        apply abs_le in D2. apply abs_le. lra. }
      destruct (near_setter c qv s2 N2 B2 D) as (N3 & F3).
      split; [exact N3|]. split; [eapply frame_trans; eauto|].
      unfold readv. rewrite getc_setter_same by (apply built_in_range; exact B2). cbn [wip value].
      pose proof qE_le_E. lra.
    + inversion Ev; subst. split; [exact H|]. split; [apply frame_refl|exact Hread].
  - inversion Ev; subst. split; [exact H|]. split; [apply frame_refl|exact Hread].
Qed.
End Rec.

(* C06_contraction_pass *)
Lemma eval_cell_near : forall fuel c st v st',
  near' st -> eval_cell w fuel c st = Ok (v, st') ->
  near' st' /\ frame st st' /\ dist xs c v <= E.
Proof.
  induction fuel as [|f IH]; intros c st v st' H Ev; cbn [eval_cell] in Ev; [discriminate|].
  eapply eval_body_near; eauto.
Qed.
End Pass.

(* ------------------------------------------------------------------ *)
(* 3. Acyclic workbooks of linear formulas (no range nodes): a pass     *)
(*    returns the from-scratch value.                                   *)

Definition acyclic (w : wbook) (rank : nat -> nat) : Prop :=
  forall c b ts a j, formula (spec w c) = Some (b, ts) -> In (TCell a j) ts -> (rank j < rank c)%nat.

(* the state agrees with the from-scratch valuation sv on constants and on
   everything computed in this pass *)
Definition agrees (w : wbook) (sv : nat -> Q) (st : state) : Prop :=
  (forall c, built (getc st c) = true -> is_formula w c = false ->
             wip (getc st c) = false /\ num (value (getc st c)) == sv c) /\
  (forall c, built (getc st c) = true -> is_formula w c = true -> memb c (computed (tr st)) = true ->
             wip (getc st c) = false /\ num (value (getc st c)) == sv c /\ value (getc st c) <> None).

Definition wip_above (rank : nat -> nat) (R : nat) (st : state) : Prop :=
  forall c, wip (getc st c) = true -> (R < rank c)%nat.
Definition same_wip (st st' : state) : Prop := forall c, wip (getc st' c) = wip (getc st c).

Section Acyclic.
Variable w : wbook.
Variable sv : nat -> Q.
Variable rank : nat -> nat.
Hypothesis Hns : no_sum w.
Hypothesis Hsv : fixed_point w sv.
Hypothesis Hacy : acyclic w rank.

Notation agrees' := (agrees w sv).

Definition good (c : nat) (v : val) : Prop := num v == sv c /\ (is_formula w c = true -> v <> None).

Section Rec.
Variable rec_c : nat -> state -> res (val * state).
Hypothesis Hrec : forall j st v st', agrees' st -> wip_above rank (rank j) st -> rec_c j st = Ok (v, st') ->
  agrees' st' /\ frame st st' /\ same_wip st st' /\ good j v.

Lemma eval_terms_agrees : forall ts acc st q' st',
  no_sum_terms ts -> (forall a j, In (TCell a j) ts -> wip_above rank (rank j) st) ->
  agrees' st -> eval_terms w rec_c ts acc st = Ok (q', st') ->
  agrees' st' /\ frame st st' /\ same_wip st st' /\ q' == acc + tdot ts sv.
Proof.
  induction ts as [|[a j|a r] ts IH]; intros acc st q' st' Hn HW H Ev; cbn [eval_terms] in Ev.
  - inversion Ev; subst. split; [exact H|]. split; [apply frame_refl|]. split; [intros c; reflexivity|].
    cbn [tdot]. lra.
  - destruct (rec_c j st) as [[v s1]|e] eqn:E1; [|discriminate].
    destruct (Hrec _ _ _ _ H (HW a j (or_introl eq_refl)) E1) as (A1 & F1 & W1 & [G1 _]).
    assert (Hn' : no_sum_terms ts) by (intros t Ht; apply Hn; right; exact Ht).
    assert (HW' : forall a' j', In (TCell a' j') ts -> wip_above rank (rank j') s1).
    { intros a' j' Hin c Hc. rewrite W1 in Hc. apply (HW a' j' (or_intror Hin)); exact Hc. }
    destruct (IH _ _ _ _ Hn' HW' A1 Ev) as (A2 & F2 & W2 & Q2).
    split; [exact A2|]. split; [eapply frame_trans; eauto|].
    split; [intros c; rewrite W2; apply W1|].
    cbn [tdot]. pose proof (Qred_correct (acc + a * num v)) as Hr.
    set (r := Qred (acc + a * num v)) in *. rewrite Q2, Hr, G1. ring.
  - exfalso. apply (Hn (TSum a r)). left; reflexivity.
Qed.

Lemma eval_body_agrees : forall c st v st',
  agrees' st -> wip_above rank (rank c) st -> eval_body w rec_c c st = Ok (v, st') ->
  agrees' st' /\ frame st st' /\ same_wip st st' /\ good c v.
Proof.
  intros c st v st' H HW Ev. unfold eval_body in Ev.
  destruct (built (getc st c)) eqn:B; cbn [negb] in Ev; [|discriminate].
  pose proof (built_in_range _ _ B) as L.
  assert (Wc : wip (getc st c) = false).
  { destruct (wip (getc st c)) eqn:Wc; auto. apply HW in Wc. lia. }
  assert (Hdone : forall fv, (fv = true -> memb c (computed (tr st)) = true) -> is_formula w c = fv ->
                             good c (readv st c)).
  { intros fv Hc F. unfold readv. rewrite Wc. destruct H as [A1 A2]. destruct fv.
    - destruct (A2 c B F (Hc eq_refl)) as (_ & Hv & Hnn). split; auto.
    - destruct (A1 c B F) as (_ & Hv). split; auto. congruence. }
  destruct (needs_calc st c) eqn:N.
  - destruct (formula (spec w c)) as [[b ts]|] eqn:F.
    + assert (Fc : is_formula w c = true) by (unfold is_formula; rewrite F; reflexivity).
      unfold needs_calc in N. apply andb_true_iff in N. destruct N as [_ N]. apply negb_true_iff in N.
      set (st1 := start_calcs c st) in *.
      assert (G1 : forall c', c <> c' -> getc st1 c' = getc st c')
        by (intros; apply getc_setc_other; auto).
      assert (G0 : getc st1 c = {| built := built (getc st c); value := value (getc st c);
                                   prev := value (getc st c); wip := true |})
        by (apply getc_setc_same; exact L).
      assert (A1 : agrees' st1).
      { destruct H as [A1 A2]. split.
        - intros c' B' F'. destruct (Nat.eq_dec c c') as [<-|Hne]; [congruence|].
          rewrite G1 in * by exact Hne. apply A1; auto.
        - intros c' B' F' Hc. destruct (Nat.eq_dec c c') as [<-|Hne].
          + cbn in Hc. congruence.
          + rewrite G1 in * by exact Hne. apply A2; auto. }
      assert (HW1 : forall a j, In (TCell a j) ts -> wip_above rank (rank j) st1).
      { intros a j Hin c' Hc'. pose proof (Hacy _ _ _ _ _ F Hin) as Hr.
        destruct (Nat.eq_dec c c') as [<-|Hne]; [exact Hr|].
        rewrite G1 in Hc' by exact Hne. apply HW in Hc'. lia. }
      destruct (eval_terms w rec_c ts (Qred b) st1) as [[qv s2]|e] eqn:E1; [|discriminate].
      destruct (eval_terms_agrees _ _ _ _ _ (Hns _ _ _ F) HW1 A1 E1) as (A2 & F2 & W2 & Q2).
      inversion Ev; subst.
      assert (F02 : frame st s2).
      { eapply frame_trans; [|exact F2]. split; [cbn; apply upd_length|].
        intros c'. destruct (Nat.eq_dec c c') as [<-|Hne]; [rewrite G0; reflexivity|rewrite G1; auto]. }
      assert (L2 : (c < length (cells s2))%nat) by (destruct F02 as [Lq _]; rewrite Lq; exact L).
      assert (Hq : qv == sv c).
      { rewrite Q2, (Qred_correct b). symmetry. apply (Hsv _ _ _ F). }
      split; [|split; [|split]].
      * destruct A2 as [A21 A22]. split.
        -- intros c' B' F'. destruct (Nat.eq_dec c c') as [<-|Hne]; [congruence|].
           rewrite getc_setter_other in * by exact Hne. apply A21; auto.
        -- intros c' B' F' Hc. destruct (Nat.eq_dec c c') as [<-|Hne].
           ++ rewrite getc_setter_same by exact L2. cbn [wip value num]. repeat split; auto. discriminate.
           ++ rewrite getc_setter_other in * by exact Hne. cbn [setter tr computed] in Hc.
              rewrite memb_add_other in Hc by auto. apply A22; auto.
      * eapply frame_trans; [exact F02|]. split; [cbn; apply upd_length|].
        intros c'. destruct (Nat.eq_dec c c') as [<-|Hne].
        -- rewrite getc_setter_same by exact L2. reflexivity.
        -- rewrite getc_setter_other by exact Hne. reflexivity.
      * intros c'. destruct (Nat.eq_dec c c') as [<-|Hne].
        -- rewrite getc_setter_same by exact L2. cbn [wip]. auto.
        -- rewrite getc_setter_other by exact Hne. rewrite W2. rewrite G1 by exact Hne. reflexivity.
      * unfold readv. rewrite getc_setter_same by exact L2. cbn [wip value].
        split; [exact Hq|discriminate].
    + inversion Ev; subst.
      assert (Fc : is_formula w c = false) by (unfold is_formula; rewrite F; reflexivity).
      split; [exact H|]. split; [apply frame_refl|]. split; [intros c'; reflexivity|].
      apply (Hdone false); auto. discriminate.
  - inversion Ev; subst.
    unfold needs_calc in N. rewrite Wc in N. cbn [negb andb] in N. apply negb_false_iff in N.
    split; [exact H|]. split; [apply frame_refl|]. split; [intros c'; reflexivity|].
    apply (Hdone (is_formula w c)); auto.
Qed.
End Rec.

Lemma eval_cell_agrees : forall fuel c st v st',
  agrees' st -> wip_above rank (rank c) st -> eval_cell w fuel c st = Ok (v, st') ->
  agrees' st' /\ frame st st' /\ same_wip st st' /\ good c v.
Proof.
  induction fuel as [|f IH]; intros c st v st' H HW Ev; cbn [eval_cell] in Ev; [discriminate|].
  eapply eval_body_agrees; eauto.
Qed.

(* a quiescent state: nothing on the stack, constants carry the valuation *)
Definition quiet (t : nat) (st : state) : Prop :=
  built (getc st t) = true /\
  (forall c, wip (getc st c) = false) /\
  (forall c, built (getc st c) = true -> is_formula w c = false -> num (value (getc st c)) == sv c).

Lemma pass_quiet : forall t st v st',
  quiet t st -> evaluate_pass w t (inc_iteration st) = Ok (v, st') -> quiet t st' /\ good t v.
Proof.
  intros t st v st' (B & Wn & Cn) Ev. unfold evaluate_pass in Ev.
  change (getc (inc_iteration st) t) with (getc st t) in Ev. rewrite B in Ev.
  assert (A0 : agrees' (inc_iteration st)).
  { split.
    - intros c Bc Fc. change (getc (inc_iteration st) c) with (getc st c) in *. split; auto.
    - intros c _ _ Hc. cbn in Hc. discriminate. }
  assert (W0 : wip_above rank (rank t) (inc_iteration st)).
  { intros c Hc. change (getc (inc_iteration st) c) with (getc st c) in Hc. rewrite Wn in Hc. discriminate. }
  destruct (eval_cell_agrees _ _ _ _ _ A0 W0 Ev) as ([A1 _] & [_ Fb] & Ws & G).
  split; [|exact G]. split; [|split].
  - rewrite Fb. exact B.
  - intros c. rewrite Ws. apply Wn.
  - intros c Bc Fc. apply A1; auto.
Qed.

Lemma pass_loop_quiet : forall fuel t st v st',
  quiet t st -> pass_loop w fuel t st = Ok (v, st') -> quiet t st' /\ good t v.
Proof.
  induction fuel as [|f IH]; intros t st v st' Hq Ev; cbn [pass_loop] in Ev;
    destruct (evaluate_pass w t (inc_iteration st)) as [[u s1]|e] eqn:E1; try discriminate;
    destruct (pass_quiet _ _ _ _ Hq E1) as [Q1 G1]; destruct (done s1); try discriminate.
  - inversion Ev; subst; auto.
  - inversion Ev; subst; auto.
  - eapply IH; eauto.
Qed.

Lemma acyclic_value : forall t it tolv st v st',
  quiet t st -> evaluate_iterative w t it tolv st = Ok (v, st') ->
  num v == sv t /\ (is_formula w t = true -> v <> None) /\ quiet t st'.
Proof.
  intros t it tolv st v st' Hq Ev. unfold evaluate_iterative in Ev.
  apply pass_loop_quiet in Ev; [|exact Hq].
  destruct Ev as [Q [G1 G2]]. auto.
Qed.

(* writes to constants keep the state quiet for the new valuation's constants *)
End Acyclic.

(* ------------------------------------------------------------------ *)
(* 4. Statements in the form used by Props/C06.v.                       *)

Lemma contraction_pass : forall w xs q E,
  no_sum w -> fixed_point w xs -> row_bound w q -> q <= 1 -> 0 <= E ->
  forall t st v st',
  built (getc st t) = true ->
  (forall c, built (getc st c) = true ->
             dist xs c (value (getc st c)) <= E /\ dist xs c (prev (getc st c)) <= E) ->
  evaluate_pass w t (inc_iteration st) = Ok (v, st') ->
  (forall c, built (getc st' c) = true -> dist xs c (value (getc st' c)) <= E) /\
  (forall c, In c (computed (tr st')) -> built (getc st' c) = true -> is_formula w c = true ->
             dist xs c (value (getc st' c)) <= q * E).
Proof.
  intros w xs q E Hns Hfp Hrow Hq1 HE t st v st' B H0 Ev. unfold evaluate_pass in Ev.
  change (getc (inc_iteration st) t) with (getc st t) in Ev. rewrite B in Ev.
  assert (N0 : near w xs q E (inc_iteration st)).
  { split.
    - intros c Bc. change (getc (inc_iteration st) c) with (getc st c) in *. auto.
    - intros c Hc. cbn in Hc. discriminate. }
  destruct (eval_cell_near w xs q E Hns Hfp Hrow Hq1 HE _ _ _ _ _ N0 Ev) as ([N1 N2] & _ & _).
  split.
  - intros c Bc. apply N1; auto.
  - intros c Hc Bc Fc. apply N2; auto. apply memb_In; auto.
Qed.

Lemma set_value_quiet : forall w sv sv' t c v st st',
  quiet w sv t st -> is_formula w c = false -> set_value c v st = Ok st' ->
  sv' c == num v ->
  (forall c', c' <> c -> is_formula w c' = false -> sv' c' == sv c') ->
  quiet w sv' t st'.
Proof.
  intros w sv sv' t c v st st' (B & Wn & Cn) Fc Ev Hc Ho. unfold set_value in Ev.
  destruct (built (getc st c)) eqn:Bc; cbn [negb] in Ev; [|discriminate].
  pose proof (built_in_range _ _ Bc) as L.
  destruct (val_eqb (readv st c) v) eqn:Eq.
  - inversion Ev; subst. split; [exact B|]. split; [exact Wn|].
    intros c' Bc' Fc'. destruct (Nat.eq_dec c' c) as [->|Hne].
    + rewrite Hc. unfold readv in Eq. rewrite Wn in Eq.
      destruct (value (getc st' c)) as [x|], v as [y|]; cbn in Eq |- *; try discriminate; try reflexivity.
      apply Qeq_bool_iff in Eq. exact Eq.
    + rewrite (Ho c' Hne Fc'). apply Cn; auto.
  - inversion Ev; subst. clear Ev.
    assert (L1 : (c < length (cells (setter c v st)))%nat) by (cbn; rewrite upd_length; exact L).
    assert (G : forall c', getc (setter c v (setter c v st)) c' =
                           if Nat.eq_dec c c' then {| built := built (getc st c); value := v;
                                                      prev := prev (getc st c); wip := false |}
                           else getc st c').
    { intros c'. destruct (Nat.eq_dec c c') as [<-|Hne].
      - rewrite getc_setter_same by exact L1. rewrite getc_setter_same by exact L. reflexivity.
      - rewrite !getc_setter_other by exact Hne. reflexivity. }
    split; [|split].
    + rewrite G. destruct (Nat.eq_dec c t) as [<-|_]; auto.
    + intros c'. rewrite G. destruct (Nat.eq_dec c c'); auto.
    + intros c' Bc' Fc'. rewrite G in *. destruct (Nat.eq_dec c c') as [<-|Hne].
      * cbn [value]. rewrite Hc. reflexivity.
      * rewrite (Ho c') by auto. apply Cn; auto.
Qed.
