(* Proofs/C19Bracket.v — C19, the clause "ROUNDDOWN <= |x| <= ROUNDUP in
   magnitude": for every rational x and every positive unit u (u = 10^-d),
   |trunc(x/u) * u| <= |x| <= |round_up(x/u) * u|, and ROUND is between the two. *)
From Coq Require Import ZArith QArith Qround Qabs Lia Lqa.
From PV Require Import Lib.Py Proofs.NumLemmas Proofs.C19.
From PV Require Gen.excellib.
Open Scope Q_scope.

Lemma inj_le0 z : (z < 1)%Z -> inject_Z z <= 0.
Proof. intros H. change 0 with (inject_Z 0). rewrite <- Zle_Qle. lia. Qed.
Lemma inj_ge0 z : (-1 < z)%Z -> 0 <= inject_Z z.
Proof. intros H. change 0 with (inject_Z 0). rewrite <- Zle_Qle. lia. Qed.
Lemma inj_lt1 z : inject_Z z < 1 -> (z < 1)%Z.
Proof. intros H. rewrite Zlt_Qlt. exact H. Qed.
Lemma inj_gtm1 z : -(1) < inject_Z z -> (-1 < z)%Z.
Proof. intros H. rewrite Zlt_Qlt. exact H. Qed.

Lemma trunc_le_abs q : Qabs (inject_Z (q_trunc q)) <= Qabs q.
Proof.
  destruct (trunc_toward_zero q) as [P Ng]. set (z := q_trunc q) in *.
  destruct (Qlt_le_dec q 0) as [H|H].
  - destruct (Ng H) as [A B].
    assert (Hz: inject_Z z <= 0) by (apply inj_le0, inj_lt1; lra).
    rewrite (Qabs_neg _ Hz), (Qabs_neg q) by lra. lra.
  - destruct (P H) as [A B].
    assert (Hz: 0 <= inject_Z z) by (apply inj_ge0, inj_gtm1; lra).
    rewrite (Qabs_pos _ Hz), (Qabs_pos q) by lra. lra.
Qed.

Lemma abs_le_round_up q : Qabs q <= Qabs (inject_Z (q_round_up q)).
Proof.
  destruct (round_up_away q) as [P Ng]. set (z := q_round_up q) in *.
  destruct (Qlt_le_dec q 0) as [H|H].
  - destruct (Ng H) as [A B].
    assert (Hz: inject_Z z <= 0) by lra.
    rewrite (Qabs_neg _ Hz), (Qabs_neg q) by lra. lra.
  - destruct (P H) as [A B].
    assert (Hz: 0 <= inject_Z z) by lra.
    rewrite (Qabs_pos _ Hz), (Qabs_pos q) by lra. lra.
Qed.

Lemma abs_scale x u : 0 < u -> Qabs x == Qabs (x / u) * u.
Proof.
  intros Hu. rewrite <- (Qabs_pos u) at 2 by lra. rewrite <- Qabs_Qmult.
  apply Qabs_wd. field. lra.
Qed.

Theorem magnitude_bracket x u : 0 < u ->
  Qabs (inject_Z (q_trunc (x / u)) * u) <= Qabs x /\
  Qabs x <= Qabs (inject_Z (q_round_up (x / u)) * u).
Proof.
  intros Hu. rewrite !Qabs_Qmult, (Qabs_pos u) by lra. rewrite (abs_scale x u Hu).
  split; apply Qmult_le_compat_r; try lra; [apply trunc_le_abs|apply abs_le_round_up].
Qed.

Theorem magnitude_bracket_digits x d :
  Qabs (inject_Z (q_trunc (x / digits_unit d)) * digits_unit d) <= Qabs x /\
  Qabs x <= Qabs (inject_Z (q_round_up (x / digits_unit d)) * digits_unit d).
Proof. apply magnitude_bracket. apply pow10_pos. Qed.

(* ODD: the result is an odd integer 2k+1 in magnitude, the next one at or above
   |x| (ODD(0) = 1), with the sign of x (positive at 0) *)
Theorem odd_bracket x : numeric x ->
  exists r k, excellib.f_odd x = Ok r
    /\ Qabs (qv r) == inject_Z (2 * k + 1) /\ Qabs (qv x) <= Qabs (qv r)
    /\ Qabs (qv r) < Qabs (qv x) + 2
    /\ (qv x < 0 -> qv r < 0) /\ (0 <= qv x -> 0 < qv r).
Proof.
  intros Hx. destruct (odd_closed x Hx) as (r & Hr & _ & E).
  assert (D: 2 * ((Qabs (qv x) - 1) / 2) == Qabs (qv x) - 1) by field.
  set (t := (Qabs (qv x) - 1) / 2) in *.
  set (c := Qceiling t) in *.
  exists r, c. split; [exact Hr|].
  destruct (ceiling_spec t) as [C1 C2]. fold c in C1, C2.
  pose proof (Qabs_nonneg (qv x)) as Hax. clearbody t.
  assert (Hc: 0 <= inject_Z c) by (apply inj_ge0, inj_gtm1; lra).
  assert (EA: inject_Z (2 * c + 1) == 2 * inject_Z c + 1).
  { rewrite inject_Z_plus, inject_Z_mult. reflexivity. }
  assert (HA: 0 <= inject_Z (2 * c + 1)) by lra.
  rewrite (Qabs_pos _ HA) in E.
  destruct (q_ltb (qv x) 0) eqn:S.
  - apply q_ltb_lt in S.
    assert (Er: Qabs (qv r) == inject_Z (2 * c + 1)).
    { rewrite E. rewrite Qabs_neg by lra. lra. }
    rewrite Er. repeat split; lra.
  - apply q_ltb_ge in S.
    assert (Er: Qabs (qv r) == inject_Z (2 * c + 1)).
    { rewrite E. rewrite Qabs_pos by lra. lra. }
    rewrite Er. repeat split; lra.
Qed.
