(* Proofs/C01Eval.v — C01, part 3: [_evaluate].  On a coherent cache (every
   cached formula value is the from-scratch value under the current inputs),
   [eval] with fuel > n returns [spec c n], touches only n and its ancestors,
   changes an entry only from VNone to its from-scratch value, and every entry
   it fills has all its formula precedents filled (this re-establishes the
   closure invariant I2; it needs [sem_nonblank]). *)
From Coq Require Import List Arith Bool Lia.
From PV Require Import Lib.Py Model.Graph Proofs.C01Base.
Import ListNotations.

Section Eval.
  Variable W : workbook.
  Variable sem : nat -> list pyval -> pyval.
  Hypothesis WF : wf W.
  Hypothesis NB : sem_nonblank W sem.

  Notation N := (wb_n W).
  Notation deps := (wb_deps W).
  Notation isinput := (wb_input W).
  Notation spec := (spec W sem).
  Notation eval := (eval W sem).
  Notation anc := (anc W).

  (* c' extends c inside the region R: an entry is unchanged, or it was an
     empty formula entry of R that now holds its from-scratch value, which is
     not blank, and all its formula precedents are filled *)
  Definition ext (R : nat -> Prop) (c c' : cache) := forall m,
    c' m = c m \/
    (R m /\ m < N /\ isinput m = false /\ c m = VNone /\ c' m = spec c m /\ c' m <> VNone
     /\ forall p, In p (deps m) -> isinput p = false -> c' p <> VNone).

  Definition Coherent (c : cache) :=
    forall m, m < N -> isinput m = false -> c m <> VNone -> c m = spec c m.

  Lemma ext_refl R c : ext R c c. Proof. intros m; auto. Qed.
  Lemma ext_inputs R c c' : ext R c c' -> forall k, isinput k = true -> c' k = c k.
  Proof. intros E k I. destruct (E k) as [H|(_&_&I'&_)]; auto. congruence. Qed.
  Lemma ext_some R c c' m : ext R c c' -> c m <> VNone -> c' m = c m.
  Proof. intros E H. destruct (E m) as [H'|(_&_&_&H'&_)]; auto. congruence. Qed.
  Lemma ext_keeps R c c' m : ext R c c' -> c m <> VNone -> c' m <> VNone.
  Proof. intros E H. rewrite (ext_some R c c' m E H). auto. Qed.
  Lemma ext_none R c c' m : ext R c c' -> c' m = VNone -> c m = VNone.
  Proof. intros E H. destruct (E m) as [H'|(_&_&_&_&_&H'&_)]; congruence. Qed.
  Lemma ext_region R c c' m : ext R c c' -> c' m = c m \/ R m.
  Proof. intros E. destruct (E m) as [H'|(H'&_)]; auto. Qed.
  Lemma ext_weaken (R R' : nat -> Prop) c c' :
    (forall m, R m -> R' m) -> ext R c c' -> ext R' c c'.
  Proof. intros H E m. destruct (E m) as [H'|(A&B)]; auto. Qed.
  Lemma ext_spec R c c' n : ext R c c' -> n < N -> spec c' n = spec c n.
  Proof. intros E L. apply spec_ext; auto. intros; eapply ext_inputs; eauto. Qed.

  Lemma ext_trans R c0 c1 c2 : ext R c0 c1 -> ext R c1 c2 -> ext R c0 c2.
  Proof.
    intros E1 E2 m. destruct (E2 m) as [H2|(R2&L2&I2&N2&S2&NN2&F2)].
    - destruct (E1 m) as [H1|(R1&L1&I1&N1&S1&NN1&F1)]; [left; congruence|].
      right. repeat split; auto; try congruence.
      intros p Hp Ip. eapply ext_keeps; eauto.
    - right. assert (c0 m = VNone) by (eapply ext_none; eauto).
      repeat split; auto. rewrite S2. eapply ext_spec; eauto.
  Qed.

  Lemma ext_coherent R c c' : Coherent c -> ext R c c' -> Coherent c'.
  Proof.
    intros K E m L I H. rewrite (ext_spec R c c' m E L).
    destruct (E m) as [H'|(_&_&_&_&H'&_)]; auto. rewrite H' in *. auto.
  Qed.

  (* ------------------------------------------------------------ eval *)
  Definition estep (f : nat) (acc : cache * list pyval) (d : nat) : cache * list pyval :=
    let '(c1, vs) := acc in let '(c2, v) := eval f c1 d in (c2, vs ++ [v]).

  Lemma eval_unfold f c n : eval (S f) c n =
    if isinput n then (c, c n)
    else if is_none (c n) then
      let '(c', vals) := fold_left (estep f) (deps n) (c, []) in
      (upd c' n (sem n vals), sem n vals)
    else (c, c n).
  Proof. reflexivity. Qed.

  Definition anceq (n m : nat) : Prop := m = n \/ anc m n.

  Definition eval_ok (f : nat) := forall n c, n < f -> n < N -> Coherent c ->
    ext (anceq n) c (fst (eval f c n)) /\ snd (eval f c n) = spec c n /\
    (isinput n = false -> fst (eval f c n) n <> VNone).

  Lemma efold f n : eval_ok f -> n < N ->
    forall l, (forall d, In d l -> In d (deps n)) -> (forall d, In d l -> d < f) ->
    forall c1 vs, Coherent c1 ->
      ext (anceq n) c1 (fst (fold_left (estep f) l (c1, vs))) /\
      snd (fold_left (estep f) l (c1, vs)) = vs ++ map (spec c1) l /\
      (forall d, In d l -> isinput d = false -> fst (fold_left (estep f) l (c1, vs)) d <> VNone).
  Proof.
    intros IH L. induction l as [|d l IHl]; intros Sub Fu c1 vs K; cbn [fold_left].
    - cbn. rewrite app_nil_r. split; [apply ext_refl|split; [auto|intros ? []]].
    - unfold estep at 2 4 6. destruct (eval f c1 d) as [c2 v] eqn:Ev.
      assert (Dn: In d (deps n)) by (apply Sub; left; auto).
      assert (Ld: d < N) by (eapply deps_ltN; eauto).
      destruct (IH d c1 ltac:(apply Fu; left; auto) Ld K) as (E1 & V1 & F1).
      rewrite Ev in E1, V1, F1. cbn [fst snd] in E1, V1, F1.
      assert (E1': ext (anceq n) c1 c2).
      { eapply ext_weaken; [|exact E1]. intros m [->|A]; right.
        - now constructor.
        - eapply anc_trans; eauto. }
      assert (K2: Coherent c2) by (eapply ext_coherent; eauto).
      destruct (IHl ltac:(intros; apply Sub; right; auto) ltac:(intros; apply Fu; right; auto)
                    c2 (vs ++ [v]) K2) as (E2 & V2 & F2).
      split; [eapply ext_trans; eauto|]. split.
      + rewrite V2, <- app_assoc. cbn [app map]. f_equal. f_equal; [auto|].
        apply map_ext_in. intros x Hx. eapply ext_spec; eauto.
        apply (deps_ltN W WF n x L). apply Sub. right; auto.
      + intros x [->|Hx] Ix; [|apply F2; auto].
        eapply ext_keeps; eauto.
  Qed.

  Lemma eval_spec : forall f, eval_ok f.
  Proof.
    induction f as [|f IH]; intros n c Lf L K; [lia|]. rewrite eval_unfold.
    destruct (isinput n) eqn:I.
    { cbn [fst snd]. split; [apply ext_refl|]. split; [|discriminate].
      symmetry. now apply spec_input. }
    destruct (is_none (c n)) eqn:E.
    2:{ apply is_none_false in E. cbn [fst snd]. split; [apply ext_refl|]. split; auto. }
    apply is_none_true in E.
    destruct (efold f n IH L (deps n) ltac:(auto)
                    ltac:(intros d Hd; pose proof (deps_lt W WF _ _ L Hd); lia) c [] K)
      as (E1 & V1 & F1).
    destruct (fold_left (estep f) (deps n) (c, [])) as [c' vals]. cbn [fst snd] in *.
    cbn [app] in V1.
    assert (Sv: sem n vals = spec c n) by (rewrite (spec_unfold W sem WF c n L), I, V1; auto).
    assert (NNv: sem n vals <> VNone) by (apply NB; auto).
    split; [|split; [auto|intros _; rewrite upd_same; auto]].
    intros m. destruct (Nat.eq_dec m n) as [->|NE].
    - right. rewrite upd_same. repeat split; auto; [left; auto|].
      intros p Hp Ip. pose proof (deps_lt W WF _ _ L Hp). rewrite upd_other by lia. auto.
    - rewrite upd_other by auto. destruct (E1 m) as [H|(A1&A2&A3&A4&A5&A6&A7)]; auto.
      right. repeat split; auto. intros p Hp Ip.
      destruct (Nat.eq_dec p n) as [->|NP]; [rewrite upd_same; auto|rewrite upd_other; auto].
  Qed.

  (* the form used by the machine: fuel S N *)
  Lemma eval_top c n : n < N -> Coherent c ->
    ext (anceq n) c (fst (eval (S N) c n)) /\ snd (eval (S N) c n) = spec c n /\
    (isinput n = false -> fst (eval (S N) c n) n <> VNone).
  Proof. intros L K. apply eval_spec; auto. Qed.
End Eval.
