(* placeholder *)
