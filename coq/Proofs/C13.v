(* Proofs/C13.v — array (CSE) formulas: target shape and pointwise lifting. *)
From Coq Require Import ZArith QArith List Bool Arith Lia.
From PV Require Import Lib.Py Model.Ops Model.Arrays Proofs.PyTac Proofs.C10.
From PV Require Gen.excelutil Gen.arrayfit.
Import ListNotations.
Open Scope Z_scope.

(* ================================================================ lists *)
Lemma rep_list_length {A} n (l : list A) : length (rep_list n l) = (n * length l)%nat.
Proof. induction n; cbn [rep_list]; [reflexivity|]. rewrite app_length, IHn. lia. Qed.

Lemma rep_list_single {A} n (x : A) : rep_list n [x] = repeat x n.
Proof. induction n; cbn [rep_list repeat app]; congruence. Qed.

Lemma rep_list_map {A B} (f : A -> B) n l : rep_list n (map f l) = map f (rep_list n l).
Proof. induction n; cbn [rep_list map]; [reflexivity|]. rewrite map_app, IHn. reflexivity. Qed.

Lemma nth_error_repeat {A} (x : A) n k : (k < n)%nat -> nth_error (repeat x n) k = Some x.
Proof.
  revert k. induction n; intros k Hk; [lia|]. destruct k; cbn [repeat nth_error]; [reflexivity|].
  apply IHn. lia.
Qed.

Lemma nth_error_firstn_lt {A} (l : list A) n k : (k < n)%nat -> nth_error (firstn n l) k = nth_error l k.
Proof.
  revert n k. induction l as [|x l IH]; intros n k Hk.
  - rewrite firstn_nil. reflexivity.
  - destruct n; [lia|]. destruct k; cbn [firstn nth_error]; [reflexivity|]. apply IH. lia.
Qed.

Lemma zlen_map {A B} (f : A -> B) l : zlen (map f l) = zlen l.
Proof. unfold zlen. rewrite map_length. reflexivity. Qed.

Lemma Forall_rep_list {A} (P : A -> Prop) n l : Forall P l -> Forall P (rep_list n l).
Proof. intros H. induction n; cbn [rep_list]; [constructor|]. apply Forall_app. split; assumption. Qed.

Lemma Forall_firstn {A} (P : A -> Prop) n l : Forall P l -> Forall P (firstn n l).
Proof.
  intros H. revert n. induction H; intros n; destruct n; cbn [firstn]; constructor; auto.
Qed.

(* ============================================================= fit_axis *)
Section FitAxis.
  Context {A : Type}.
  Variables (fill : A) (l : list A) (n : Z).
  Hypothesis Hn : 1 <= n.
  Hypothesis Hl : (1 <= length l)%nat.

  Lemma fit_axis_length : length (fit_axis n (zlen l) fill l) = Z.to_nat n.
  Proof.
    unfold fit_axis, zlen, seq_mul.
    destruct (Z.eqb_spec (Z.of_nat (length l)) 1) as [E1|E1]; cbn [andb].
    - destruct (Z.eqb_spec n 1) as [En|En]; cbn [negb].
      + replace (n <? Z.of_nat (length l)) with false by (symmetry; apply Z.ltb_ge; lia).
        replace (Z.of_nat (length l) <? n) with false by (symmetry; apply Z.ltb_ge; lia). lia.
      + rewrite rep_list_length. nia.
    - destruct (Z.ltb_spec n (Z.of_nat (length l))) as [L1|L1].
      + rewrite firstn_length. lia.
      + destruct (Z.ltb_spec (Z.of_nat (length l)) n) as [L2|L2].
        * rewrite app_length, rep_list_length. cbn [length]. lia.
        * lia.
  Qed.

  Lemma fit_axis_nth k : (k < Z.to_nat n)%nat ->
    nth_error (fit_axis n (zlen l) fill l) k
    = Some match nth_error l (if Nat.eqb (length l) 1 then O else k) with
           | Some x => x | None => fill end.
  Proof.
    intros Hk. unfold fit_axis, zlen, seq_mul.
    destruct (Z.eqb_spec (Z.of_nat (length l)) 1) as [E1|E1]; cbn [andb].
    - replace (Nat.eqb (length l) 1) with true by (symmetry; apply Nat.eqb_eq; lia).
      destruct l as [|x [|y l']]; cbn [length] in *; try lia. cbn [nth_error].
      destruct (Z.eqb_spec n 1) as [En|En]; cbn [negb].
      + replace (n <? Z.of_nat 1) with false by (symmetry; apply Z.ltb_ge; lia).
        replace (Z.of_nat 1 <? n) with false by (symmetry; apply Z.ltb_ge; lia).
        replace k with O by lia. reflexivity.
      + rewrite rep_list_single. apply nth_error_repeat. exact Hk.
    - replace (Nat.eqb (length l) 1) with false by (symmetry; apply Nat.eqb_neq; lia).
      destruct (Z.ltb_spec n (Z.of_nat (length l))) as [L1|L1].
      + rewrite nth_error_firstn_lt by exact Hk.
        destruct (nth_error l k) eqn:E; [reflexivity|].
        apply nth_error_None in E. lia.
      + destruct (Z.ltb_spec (Z.of_nat (length l)) n) as [L2|L2].
        * destruct (Nat.lt_ge_cases k (length l)) as [K|K].
          -- rewrite nth_error_app1 by exact K.
             destruct (nth_error l k) eqn:E; [reflexivity|]. apply nth_error_None in E. lia.
          -- rewrite nth_error_app2 by exact K. rewrite rep_list_single.
             rewrite nth_error_repeat by lia.
             destruct (nth_error l k) eqn:E; [|reflexivity].
             assert (nth_error l k <> None) as N by congruence. apply nth_error_Some in N. lia.
        * destruct (nth_error l k) eqn:E; [reflexivity|]. apply nth_error_None in E. lia.
  Qed.

  Lemma fit_axis_Forall (P : A -> Prop) : Forall P l -> P fill -> Forall P (fit_axis n (zlen l) fill l).
  Proof.
    intros Hall Hf. unfold fit_axis, seq_mul.
    destruct ((zlen l =? 1) && negb (n =? 1)); [apply Forall_rep_list; exact Hall|].
    destruct (n <? zlen l); [apply Forall_firstn; exact Hall|].
    destruct (zlen l <? n); [|exact Hall].
    apply Forall_app. split; [exact Hall|]. apply Forall_rep_list. constructor; [exact Hf|constructor].
  Qed.
End FitAxis.

(* ============================================================= fit_spec *)
Definition rectangular (C : nat) (rows : list (list pyval)) : Prop :=
  Forall (fun r => length r = C) rows.

(* element (i, j) of a matrix *)
Definition elem2 (m : list (list pyval)) (i j : nat) : option pyval :=
  match nth_error m i with Some r => nth_error r j | None => None end.

(* the element the statement asks for at (i, j) of the target: the result's
   own element, with a single row / column / scalar repeated, #N/A outside *)
Definition fit_elem (rows : list (list pyval)) (i j : nat) : pyval :=
  let ii := if Nat.eqb (length rows) 1 then O else i in
  let jj := if Nat.eqb (length (hd [] rows)) 1 then O else j in
  match elem2 rows ii jj with Some x => x | None => NA end.

Lemma hd_length C r0 rest : rectangular C (r0 :: rest) -> length (hd [] (r0 :: rest)) = C.
Proof. intros H. inversion H; subst. reflexivity. Qed.

Lemma fit_spec_shape rows C h w :
  rows <> [] -> (1 <= C)%nat -> rectangular C rows -> 1 <= h -> 1 <= w ->
  length (fit_spec h w rows) = Z.to_nat h /\ rectangular (Z.to_nat w) (fit_spec h w rows).
Proof.
  intros Hne HC Hrect Hh Hw. unfold fit_spec.
  destruct rows as [|r0 rest]; [congruence|].
  pose proof (hd_length C r0 rest Hrect) as Hhd.
  set (rows := r0 :: rest) in *.
  assert (Hlen : (1 <= length (map (fit_axis w (zlen (hd [] rows)) NA) rows))%nat)
    by (rewrite map_length; unfold rows; cbn [length]; apply le_n_S, Nat.le_0_l).
  rewrite <- (zlen_map (fit_axis w (zlen (hd [] rows)) NA) rows).
  split.
  - apply fit_axis_length; assumption.
  - apply fit_axis_Forall.
    + apply Forall_map. unfold rectangular in Hrect.
      eapply Forall_impl; [|exact Hrect]. intros r Hr. cbv beta in Hr |- *.
      replace (zlen (hd [] rows)) with (zlen r) by (unfold zlen; rewrite Hhd, Hr; reflexivity).
      apply fit_axis_length; [exact Hw|lia].
    + unfold seq_mul. rewrite rep_list_length. cbn [length]. lia.
Qed.

Lemma fit_spec_elem rows C h w i j :
  rows <> [] -> (1 <= C)%nat -> rectangular C rows -> 1 <= h -> 1 <= w ->
  (i < Z.to_nat h)%nat -> (j < Z.to_nat w)%nat ->
  elem2 (fit_spec h w rows) i j = Some (fit_elem rows i j).
Proof.
  intros Hne HC Hrect Hh Hw Hi Hj. unfold fit_spec, elem2, fit_elem.
  destruct rows as [|r0 rest]; [congruence|].
  pose proof (hd_length C r0 rest Hrect) as Hhd.
  set (rows := r0 :: rest) in *.
  assert (Hlen : (1 <= length (map (fit_axis w (zlen (hd [] rows)) NA) rows))%nat)
    by (rewrite map_length; unfold rows; cbn [length]; apply le_n_S, Nat.le_0_l).
  rewrite <- (zlen_map (fit_axis w (zlen (hd [] rows)) NA) rows).
  rewrite fit_axis_nth by assumption.
  rewrite map_length. rewrite nth_error_map.
  set (ii := if Nat.eqb (length rows) 1 then O else i).
  destruct (nth_error rows ii) as [r|] eqn:Er; cbn [option_map].
  - assert (Hr : length r = C).
    { unfold rectangular in Hrect. rewrite Forall_forall in Hrect. apply Hrect.
      eapply nth_error_In. exact Er. }
    replace (zlen (hd [] rows)) with (zlen r) by (unfold zlen; rewrite Hhd, Hr; reflexivity).
    rewrite fit_axis_nth by (try assumption; lia). rewrite Hr, Hhd. unfold elem2. rewrite Er. reflexivity.
  - unfold seq_mul. rewrite rep_list_single. rewrite nth_error_repeat by exact Hj.
    unfold elem2. rewrite Er. reflexivity.
Qed.

(* ===================================== the translated fit_to_range = fit_spec *)
Lemma list_like_tuple l : excelutil.f_list_like (VTuple l) = Ok (VBool true).
Proof. reflexivity. Qed.

Lemma index0_rows r0 rest : index_nth (map VTuple (r0 :: rest)) 0 = Some (VTuple r0).
Proof. cbn [map]. apply index_nth_0. Qed.

Lemma genexp_rows (elt : pyval -> res pyval) (g : list pyval -> list pyval) rows :
  (forall r, elt (VTuple r) = Ok (VTuple (g r))) ->
  genexp elt (fun _ => Ok true) (map VTuple rows) = Ok (map VTuple (map g rows)).
Proof.
  intros H. induction rows as [|r rows IH]; [reflexivity|].
  cbn [map genexp bind]. rewrite H, IH. reflexivity.
Qed.

Lemma slice_firstn {A} (l : list A) w : 0 <= w -> slice_list l None (Some w) = firstn (Z.to_nat w) l.
Proof.
  intros Hw. unfold slice_list, clamp_idx.
  replace (w <? 0) with false by (symmetry; apply Z.ltb_ge; lia).
  replace (Z.to_nat 0) with O by reflexivity. cbn [skipn]. rewrite Z.sub_0_r.
  destruct (Z.le_ge_cases w (zlen l)) as [L|L].
  - rewrite Z.min_r, Z.max_r by lia. reflexivity.
  - rewrite Z.min_l, Z.max_r by (unfold zlen in *; lia).
    unfold zlen in *. rewrite !firstn_all2 by lia. reflexivity.
Qed.

Lemma index0 rows r0 rest : rows = r0 :: rest -> index_nth (map VTuple rows) 0 = Some (VTuple r0).
Proof. intros ->. apply index0_rows. Qed.

Lemma height_ok h w n (R : list (list pyval)) : 1 <= h ->
  (c_0 <- (if n =? 1 then Ok (negb (h =? 1)) else Ok false);;
   (if c_0 then Ok (VTuple (seq_mul (map VTuple R) h))
    else if h <? n then Ok (VTuple (slice_list (map VTuple R) None (Some h)))
    else if n <? h
         then Ok (VTuple (map VTuple R ++
                          seq_mul [VTuple (seq_mul [excelutil.c_NA_ERROR] w)] (h - n)))
         else Ok (VTuple (map VTuple R))))
  = Ok (VTuple (map VTuple (fit_axis h n (seq_mul [NA] w) R))).
Proof.
  intros Hh. unfold fit_axis.
  assert (S1 : forall k (X : list (list pyval)), seq_mul (map VTuple X) k = map VTuple (seq_mul X k))
    by (intros; unfold seq_mul; apply rep_list_map).
  destruct (n =? 1); cbn [bind andb].
  - destruct (h =? 1); cbn [negb].
    + destruct (h <? n); [rewrite slice_firstn, firstn_map by lia; reflexivity|].
      destruct (n <? h); [|reflexivity].
      rewrite map_app, <- S1. reflexivity.
    + rewrite S1. reflexivity.
  - destruct (h <? n); [rewrite slice_firstn, firstn_map by lia; reflexivity|].
    destruct (n <? h); [|reflexivity].
    rewrite map_app, <- S1. reflexivity.
Qed.

Lemma fit_translated r0 rest h w : 1 <= h -> 1 <= w ->
  arrayfit.f__ArrayFormulaContext_fit_to_range (VTuple [VInt h; VInt w]) (matrix (r0 :: rest))
  = Ok (matrix (fit_spec h w (r0 :: rest))).
Proof.
  intros Hh Hw. unfold arrayfit.f__ArrayFormulaContext_fit_to_range, matrix.
  set (rows := r0 :: rest).
  unfold attr_ctx_address, attr_size, attr_height, attr_width, py_address_size.
  repeat (progress (py_step; rewrite ?list_like_tuple, ?(index0 rows r0 rest eq_refl), ?zlen_map)).
  unfold fit_spec. replace (hd [] rows) with r0 by reflexivity.
  unfold fit_axis at 2.
  destruct (zlen r0 =? 1) eqn:E1; cbn [andb bind].
  - destruct (w =? 1) eqn:E2; cbn [negb].
    + (* width 1 result, width 1 target: unchanged *)
      destruct (w <? zlen r0) eqn:E3; [apply Z.eqb_eq in E1, E2; apply Z.ltb_lt in E3; lia|].
      destruct (zlen r0 <? w) eqn:E4; [apply Z.eqb_eq in E1, E2; apply Z.ltb_lt in E4; lia|].
      rewrite map_id. apply height_ok. exact Hh.
    + rewrite (genexp_rows _ (fun r => seq_mul r w)) by (intros; reflexivity).
      py_run. apply height_ok. exact Hh.
  - destruct (w <? zlen r0) eqn:E3.
    + rewrite (genexp_rows _ (fun r => slice_list r None (Some w))) by (intros; reflexivity).
      py_run. rewrite height_ok by exact Hh.
      do 3 f_equal. f_equal. apply map_ext. intros r. apply slice_firstn. lia.
    + destruct (zlen r0 <? w) eqn:E4.
      * rewrite (genexp_rows _ (fun r => r ++ seq_mul [excelutil.c_NA_ERROR] (w - zlen r0)))
          by (intros; reflexivity).
        py_run. apply height_ok. exact Hh.
      * rewrite map_id. apply height_ok. exact Hh.
Qed.

Lemma fit_translated_scalar v h w : scalar_like v = true -> 1 <= h -> 1 <= w ->
  arrayfit.f__ArrayFormulaContext_fit_to_range (VTuple [VInt h; VInt w]) v
  = Ok (matrix (fit_spec h w [[v]])).
Proof.
  intros Hs Hh Hw.
  assert (LL : excelutil.f_list_like v = Ok (VBool false)) by (destruct v; try discriminate; reflexivity).
  unfold arrayfit.f__ArrayFormulaContext_fit_to_range, matrix.
  unfold attr_ctx_address, attr_size, attr_height, attr_width, py_address_size.
  repeat (progress (py_step; rewrite ?LL)).
  change [VTuple [v]] with (map VTuple [[v]]).
  unfold fit_spec. replace (hd [] [[v]]) with [v] by reflexivity.
  replace (zlen [[v]]) with 1 by reflexivity. replace (zlen [v]) with 1 by reflexivity.
  unfold fit_axis at 2. replace (1 =? 1) with true by reflexivity. cbn [andb].
  replace (w <? 1) with false by (symmetry; apply Z.ltb_ge; lia).
  destruct (w =? 1) eqn:E2; cbn [negb].
  - destruct (1 <? w) eqn:E4; [apply Z.eqb_eq in E2; apply Z.ltb_lt in E4; lia|].
    rewrite map_id. exact (height_ok h w 1 [[v]] Hh).
  - rewrite (genexp_rows _ (fun r => seq_mul r w)) by (intros; reflexivity).
    py_run. exact (height_ok h w 1 _ Hh).
Qed.

Lemma fit_translated_no_context v :
  arrayfit.f__ArrayFormulaContext_fit_to_range VNone v = Ok v.
Proof. reflexivity. Qed.

(* ------------------------------------------------ the fit theorems, packaged *)
Definition fit := arrayfit.f__ArrayFormulaContext_fit_to_range.
Definition target (h w : Z) : pyval := VTuple [VInt h; VInt w].

Lemma fit_shape rows C h w :
  rows <> [] -> (1 <= C)%nat -> rectangular C rows -> 1 <= h -> 1 <= w ->
  exists out, fit (target h w) (matrix rows) = Ok (matrix out)
              /\ length out = Z.to_nat h /\ rectangular (Z.to_nat w) out.
Proof.
  intros Hne HC Hrect Hh Hw. exists (fit_spec h w rows). split.
  - destruct rows as [|r0 rest]; [congruence|]. apply fit_translated; assumption.
  - apply (fit_spec_shape rows C); assumption.
Qed.

Lemma fit_elem_at rows C h w :
  rows <> [] -> (1 <= C)%nat -> rectangular C rows -> 1 <= h -> 1 <= w ->
  exists out, fit (target h w) (matrix rows) = Ok (matrix out)
              /\ forall i j, (i < Z.to_nat h)%nat -> (j < Z.to_nat w)%nat ->
                             elem2 out i j = Some (fit_elem rows i j).
Proof.
  intros Hne HC Hrect Hh Hw. exists (fit_spec h w rows). split.
  - destruct rows as [|r0 rest]; [congruence|]. apply fit_translated; assumption.
  - intros i j Hi Hj. apply (fit_spec_elem rows C); assumption.
Qed.

Lemma fit_scalar v h w : scalar_like v = true -> 1 <= h -> 1 <= w ->
  exists out, fit (target h w) v = Ok (matrix out)
              /\ length out = Z.to_nat h /\ rectangular (Z.to_nat w) out
              /\ forall i j, (i < Z.to_nat h)%nat -> (j < Z.to_nat w)%nat -> elem2 out i j = Some v.
Proof.
  intros Hs Hh Hw. exists (fit_spec h w [[v]]).
  assert (R1 : rectangular 1 [[v]]) by (repeat constructor).
  assert (N1 : [[v]] <> []) by discriminate.
  split; [apply fit_translated_scalar; assumption|].
  destruct (fit_spec_shape [[v]] 1%nat h w N1 (le_n 1) R1 Hh Hw) as [L Rc].
  split; [exact L|]. split; [exact Rc|].
  intros i j Hi Hj. rewrite (fit_spec_elem [[v]] 1%nat h w i j N1 (le_n 1) R1 Hh Hw Hi Hj).
  reflexivity.
Qed.

(* the cases of fit_elem spelled out: inside, single row, single column, outside *)
Lemma fit_elem_cases rows R C i j :
  length rows = R -> rectangular C rows -> rows <> [] ->
  (forall x, elem2 rows (if Nat.eqb R 1 then O else i) (if Nat.eqb C 1 then O else j) = Some x ->
             fit_elem rows i j = x)
  /\ ((R <> 1%nat /\ (R <= i)%nat) \/ (C <> 1%nat /\ (C <= j)%nat) -> fit_elem rows i j = NA).
Proof.
  intros HR Hrect Hne. destruct rows as [|r0 rest]; [congruence|].
  pose proof (hd_length C r0 rest Hrect) as Hhd.
  unfold fit_elem. rewrite Hhd, HR. split.
  - intros x Hx. rewrite Hx. reflexivity.
  - intros Hout. unfold elem2.
    destruct (nth_error (r0 :: rest) (if Nat.eqb R 1 then O else i)) as [r|] eqn:Er; [|reflexivity].
    assert (Hr : length r = C).
    { unfold rectangular in Hrect. rewrite Forall_forall in Hrect. apply Hrect.
      eapply nth_error_In. exact Er. }
    destruct Hout as [[HR1 HRi]|[HC1 HCj]].
    + replace (Nat.eqb R 1) with false in Er by (symmetry; apply Nat.eqb_neq; exact HR1).
      assert (nth_error (r0 :: rest) i <> None) as N by congruence.
      apply nth_error_Some in N. lia.
    + replace (Nat.eqb C 1) with false by (symmetry; apply Nat.eqb_neq; exact HC1).
      destruct (nth_error r j) eqn:Ej; [|reflexivity].
      assert (nth_error r j <> None) as N by congruence. apply nth_error_Some in N. lia.
Qed.

(* ============================================================ array_fixup *)
Lemma mapM_nth {A B} (f : A -> res B) l ys :
  mapM f l = Ok ys ->
  length ys = length l /\
  forall k x, nth_error l k = Some x -> exists y, nth_error ys k = Some y /\ f x = Ok y.
Proof.
  revert ys. induction l as [|a l IH]; intros ys H.
  - cbn [mapM] in H. injection H as <-. split; [reflexivity|]. intros [|k] x E; discriminate.
  - cbn [mapM bind] in H. destruct (f a) as [y|e] eqn:Ey; [|discriminate]. cbn [bind] in H.
    destruct (mapM f l) as [ys'|e] eqn:El; [|discriminate]. cbn [bind] in H. injection H as <-.
    destruct (IH ys' eq_refl) as [Hlen Hnth]. split; [cbn [length]; congruence|].
    intros [|k] x E; cbn [nth_error] in *.
    + injection E as <-. exists y. split; [reflexivity|exact Ey].
    + apply Hnth. exact E.
Qed.

Lemma mapM_all_ok {A B} (f : A -> res B) l :
  (forall x, In x l -> exists y, f x = Ok y) -> exists ys, mapM f l = Ok ys.
Proof.
  induction l as [|a l IH]; intros H; [exists []; reflexivity|].
  destruct (H a (or_introl eq_refl)) as [y Ey].
  destruct IH as [ys Eys]; [intros x Hx; apply H; right; exact Hx|].
  exists (y :: ys). cbn [mapM bind]. rewrite Ey. cbn [bind]. rewrite Eys. reflexivity.
Qed.

Lemma mapM_tuple_rows {A} (g : A -> res (list pyval)) P ys :
  mapM (fun ch => r <- g ch ;; Ok (VTuple r)) P = Ok ys ->
  exists out, ys = map VTuple out /\ mapM g P = Ok out.
Proof.
  revert ys. induction P as [|p P IH]; intros ys H.
  - cbn [mapM] in H. injection H as <-. exists []. split; reflexivity.
  - cbn [mapM bind] in H. destruct (g p) as [r|e] eqn:Eg; [|discriminate]. cbn [bind] in H.
    destruct (mapM (fun ch => r <- g ch ;; Ok (VTuple r)) P) as [ys'|e] eqn:El; [|discriminate].
    cbn [bind] in H. injection H as <-.
    destruct (IH ys' eq_refl) as (out & -> & Eo). exists (r :: out). split; [reflexivity|].
    cbn [mapM bind]. rewrite Eg. cbn [bind]. rewrite Eo. reflexivity.
Qed.

Lemma combine_app {A B} (a1 a2 : list A) (b1 b2 : list B) :
  length a1 = length b1 -> combine (a1 ++ a2) (b1 ++ b2) = combine a1 b1 ++ combine a2 b2.
Proof.
  revert b1. induction a1 as [|x a1 IH]; intros [|y b1] H; cbn [length] in H; try discriminate.
  - reflexivity.
  - cbn [app combine]. f_equal. apply IH. congruence.
Qed.

Lemma nth_error_combine {A B} (l1 : list A) (l2 : list B) k x y :
  nth_error l1 k = Some x -> nth_error l2 k = Some y -> nth_error (combine l1 l2) k = Some (x, y).
Proof.
  revert l2 k. induction l1 as [|a l1 IH]; intros [|b l2] [|k] H1 H2; cbn [nth_error combine] in *;
    try discriminate.
  - congruence.
  - apply IH; assumption.
Qed.

Definition zip_rows {A B} (M : list (list A)) (N : list (list B)) : list (list (A * B)) :=
  map (fun ab => combine (fst ab) (snd ab)) (combine M N).

Definition uniform {A} (C : nat) (M : list (list A)) : Prop := Forall (fun r => length r = C) M.

Lemma concat_zip {A B} C (M : list (list A)) (N : list (list B)) :
  uniform C M -> uniform C N -> length M = length N ->
  combine (concat M) (concat N) = concat (zip_rows M N).
Proof.
  intros HM. revert N. induction HM as [|r M Hr _ IH]; intros N HN Hlen.
  - destruct N; [reflexivity|discriminate].
  - destruct N as [|s N]; [discriminate|]. inversion HN; subst.
    unfold zip_rows. cbn [concat combine map fst snd]. rewrite combine_app by congruence.
    f_equal. apply IH; [assumption|]. cbn [length] in Hlen. congruence.
Qed.

Lemma zip_rows_uniform {A B} C (M : list (list A)) (N : list (list B)) :
  uniform C M -> uniform C N -> uniform C (zip_rows M N).
Proof.
  intros HM. revert N. induction HM as [|r M Hr _ IH]; intros N HN.
  - constructor.
  - destruct N as [|s N]; [constructor|]. inversion HN; subst. unfold zip_rows.
    cbn [combine map fst snd]. constructor; [|apply IH; assumption].
    rewrite combine_length. lia.
Qed.

Lemma zip_rows_length {A B} (M : list (list A)) (N : list (list B)) :
  length M = length N -> length (zip_rows M N) = length M.
Proof. intros H. unfold zip_rows. rewrite map_length, combine_length. lia. Qed.

Lemma concat_length_uniform {A} C (M : list (list A)) :
  uniform C M -> length (concat M) = (length M * C)%nat.
Proof.
  induction 1 as [|r M Hr _ IH]; [reflexivity|]. cbn [concat length]. rewrite app_length. lia.
Qed.

Lemma chunks_concat {A} C (M : list (list A)) :
  uniform C M -> chunks (length M) C (concat M) = M.
Proof.
  induction 1 as [|r M Hr _ IH]; [reflexivity|].
  cbn [length chunks concat]. rewrite <- Hr.
  rewrite firstn_app, Nat.sub_diag, firstn_all, firstn_O, app_nil_r.
  rewrite skipn_app, Nat.sub_diag, skipn_all. cbn [skipn app]. rewrite Hr. rewrite IH. reflexivity.
Qed.

Lemma range_count R C : (1 <= C)%nat -> ((R * C + C - 1) / C = R)%nat.
Proof.
  intros HC. replace (R * C + C - 1)%nat with (R * C + (C - 1))%nat by lia.
  rewrite Nat.div_add_l by lia. rewrite Nat.div_small by lia. lia.
Qed.

(* the operand's element at (i, j) under numpy broadcasting: a scalar, a single
   row and a single column are repeated *)
Definition belem (a : nd) (i j : nat) : option pyval :=
  match a with
  | Nd0 v => Some v
  | Nd2 rows =>
      match nth_error rows (if Nat.eqb (length rows) 1 then O else i) with
      | Some row => nth_error row (if Nat.eqb (length row) 1 then O else j)
      | None => None
      end
  end.

(* [a] can be broadcast to R x C *)
Definition fits (a : nd) (R C : nat) : Prop :=
  match a with
  | Nd0 _ => True
  | Nd2 rows =>
      (length rows = R \/ length rows = 1%nat) /\
      exists c, (c = C \/ c = 1%nat) /\ rectangular c rows
  end.

Lemma rect_Forall c rows : rect c rows = true -> rectangular c rows.
Proof.
  unfold rect, rectangular. intros H. rewrite forallb_forall in H. apply Forall_forall.
  intros r Hr. apply Nat.eqb_eq. apply H. exact Hr.
Qed.

Definition nd_wf (a : nd) : Prop :=
  match a with
  | Nd0 _ => True
  | Nd2 rows => rows <> [] /\ (1 <= length (hd [] rows))%nat /\ rectangular (length (hd [] rows)) rows
  end.

Lemma to_nd_wf l a : to_nd l = Ok a -> nd_wf a.
Proof.
  unfold to_nd. destruct l; try discriminate; try (intros H; injection H as <-; exact I).
  destruct (rows_of l) as [[|r0 rest]|]; try discriminate.
  destruct (negb (Nat.eqb (length r0) 0) && rect (length r0) (r0 :: rest)
            && forallb (forallb scalar_like) (r0 :: rest)) eqn:E; [|discriminate].
  intros H. injection H as <-. apply andb_true_iff in E. destruct E as [E _].
  apply andb_true_iff in E. destruct E as [E1 E2].
  cbn [nd_wf hd]. split; [discriminate|]. split.
  - apply negb_true_iff, Nat.eqb_neq in E1. lia.
  - apply rect_Forall. exact E2.
Qed.

Lemma bdim_some a b n : bdim a b = Some n ->
  (a = n \/ a = 1%nat) /\ (b = n \/ b = 1%nat) /\ (n = a \/ n = b).
Proof.
  unfold bdim. destruct (Nat.eqb_spec a b) as [->|N]; [intros H; injection H as <-; auto|].
  destruct (Nat.eqb_spec a 1) as [->|N1]; [intros H; injection H as <-; auto|].
  destruct (Nat.eqb_spec b 1) as [->|N2]; [intros H; injection H as <-; auto|discriminate].
Qed.

Lemma bshape_fits a b R C : nd_wf a -> nd_wf b -> bshape a b = Some (R, C) ->
  fits a R C /\ fits b R C /\ (1 <= R)%nat /\ (1 <= C)%nat.
Proof.
  intros Wa Wb. unfold bshape.
  assert (L : forall rows : list (list pyval), rows <> [] -> (1 <= length rows)%nat)
    by (intros [|? ?] ?; [congruence|cbn [length]; lia]).
  destruct a as [va|ra], b as [vb|rb]; cbn [nd_shape]; try discriminate.
  - intros H. injection H as <- <-. destruct Wb as (Hne & Hc & Hrect).
    repeat split; auto. exists (length (hd [] rb)). auto.
  - intros H. injection H as <- <-. destruct Wa as (Hne & Hc & Hrect).
    repeat split; auto. exists (length (hd [] ra)). auto.
  - destruct Wa as (Hna & Hca & Hra), Wb as (Hnb & Hcb & Hrb).
    destruct (bdim (length ra) (length rb)) as [r|] eqn:Er; [|discriminate].
    destruct (bdim (length (hd [] ra)) (length (hd [] rb))) as [c|] eqn:Ec; [|discriminate].
    intros H. injection H as <- <-.
    apply bdim_some in Er, Ec. destruct Er as (Er1 & Er2 & Er3), Ec as (Ec1 & Ec2 & Ec3).
    pose proof (L ra Hna). pose proof (L rb Hnb).
    split; [|split; [|split]].
    + split; [exact Er1|]. exists (length (hd [] ra)). auto.
    + split; [exact Er2|]. exists (length (hd [] rb)). auto.
    + lia.
    + lia.
Qed.

Lemma expand_row_ok C row c : length row = c -> (c = C \/ c = 1%nat) -> (1 <= C)%nat ->
  length (expand_row C row) = C /\
  forall j, (j < C)%nat -> nth_error (expand_row C row) j
                           = nth_error row (if Nat.eqb (length row) 1 then O else j).
Proof.
  intros Hlen Hc HC. unfold expand_row.
  destruct row as [|x [|y row']]; cbn [length] in *.
  - split; [lia|]. intros j _. destruct j; reflexivity.
  - split; [apply repeat_length|]. intros j Hj. cbn [Nat.eqb nth_error].
    apply nth_error_repeat. exact Hj.
  - split; [lia|]. intros j _. reflexivity.
Qed.

Lemma expand_ok a R C : fits a R C -> (1 <= R)%nat -> (1 <= C)%nat ->
  length (expand a R C) = R /\ uniform C (expand a R C) /\
  forall i j, (i < R)%nat -> (j < C)%nat -> elem2 (expand a R C) i j = belem a i j.
Proof.
  intros Hf HR HC. destruct a as [v|rows]; cbn [expand belem].
  - split; [apply repeat_length|]. split.
    + unfold uniform. apply Forall_forall. intros r Hr. apply repeat_spec in Hr. subst.
      apply repeat_length.
    + intros i j Hi Hj. unfold elem2. rewrite nth_error_repeat by exact Hi.
      apply nth_error_repeat. exact Hj.
  - destruct Hf as (Hr & c & Hc & Hrect).
    set (rows' := map (expand_row C) rows).
    assert (U : uniform C rows').
    { unfold uniform, rows'. apply Forall_map. eapply Forall_impl; [|exact Hrect].
      intros r Hlr. cbv beta in Hlr |- *. apply (expand_row_ok C r c); assumption. }
    assert (Lr : length rows' = length rows) by apply map_length.
    assert (N : forall i j row, nth_error rows i = Some row -> (j < C)%nat ->
                elem2 rows' i j = nth_error row (if Nat.eqb (length row) 1 then O else j)).
    { intros i j row Ei Hj. unfold elem2, rows'. rewrite nth_error_map, Ei. cbn [option_map].
      assert (Hlr : length row = c).
      { unfold rectangular in Hrect. rewrite Forall_forall in Hrect. apply Hrect.
        eapply nth_error_In. exact Ei. }
      apply (expand_row_ok C row c); assumption. }
    destruct (Nat.eqb_spec (length rows) 1) as [E1|E1].
    + (* a single row, repeated *)
      destruct rows as [|row0 [|? ?]]; cbn [length] in E1; try lia.
      unfold rows' in *. cbn [map] in *.
      split; [apply repeat_length|]. split.
      * unfold uniform. apply Forall_forall. intros r Hr'. apply repeat_spec in Hr'. subst.
        inversion U; subst. assumption.
      * intros i j Hi Hj. unfold elem2 at 1. rewrite nth_error_repeat by exact Hi.
        cbn [nth_error]. specialize (N O j row0 eq_refl Hj). unfold elem2 in N.
        cbn [nth_error] in N. exact N.
    + assert (HRr : length rows = R) by (destruct Hr; [assumption|contradiction]).
      assert (Same : match rows' with [r] => repeat r R | _ => rows' end = rows').
      { destruct rows' as [|r1 [|? ?]] eqn:Erows; try reflexivity.
        cbn [length] in Lr. lia. }
      rewrite Same. split; [lia|]. split; [exact U|].
      intros i j Hi Hj.
      destruct (nth_error rows i) as [row|] eqn:Ei.
      * apply N; assumption.
      * apply nth_error_None in Ei. lia.
Qed.

Lemma elem2_zip (M N : list (list pyval)) i j u v :
  elem2 M i j = Some u -> elem2 N i j = Some v ->
  exists ch, nth_error (zip_rows M N) i = Some ch /\ nth_error ch j = Some (u, v).
Proof.
  unfold elem2, zip_rows. intros HM HN.
  destruct (nth_error M i) as [rm|] eqn:Em; [|discriminate].
  destruct (nth_error N i) as [rn|] eqn:En; [|discriminate].
  exists (combine rm rn). split.
  - rewrite nth_error_map. rewrite (nth_error_combine M N i rm rn Em En). reflexivity.
  - apply nth_error_combine; assumption.
Qed.

Lemma array_fixup_unfold l o r a b R C :
  to_nd l = Ok a -> to_nd r = Ok b -> bshape a b = Some (R, C) ->
  array_fixup l o r
  = (rows <- mapM (fix_row o) (zip_rows (expand a R C) (expand b R C)) ;; Ok (VTuple rows)).
Proof.
  intros Ha Hb Hs. unfold array_fixup. rewrite Ha, Hb. cbn [bind]. rewrite Hs.
  destruct (bshape_fits a b R C (to_nd_wf l a Ha) (to_nd_wf r b Hb) Hs) as (Fa & Fb & HR & HC).
  destruct (expand_ok a R C Fa HR HC) as (La & Ua & _).
  destruct (expand_ok b R C Fb HR HC) as (Lb & Ub & _).
  cbv zeta. rewrite (concat_zip C) by (try assumption; congruence).
  pose proof (zip_rows_uniform C _ _ Ua Ub) as Uz.
  rewrite (concat_length_uniform C) by exact Uz.
  rewrite zip_rows_length by congruence. rewrite La.
  rewrite range_count by exact HC.
  replace R with (length (zip_rows (expand a R C) (expand b R C))) at 1
    by (rewrite zip_rows_length by congruence; exact La).
  rewrite chunks_concat by exact Uz. reflexivity.
Qed.

(* C13_op_pointwise *)
Lemma op_pointwise l o r a b R C res :
  to_nd l = Ok a -> to_nd r = Ok b -> bshape a b = Some (R, C) ->
  array_fixup l o r = Ok res ->
  exists out, res = matrix out /\ length out = R /\ rectangular C out /\
    forall i j, (i < R)%nat -> (j < C)%nat ->
      exists u v x, belem a i j = Some u /\ belem b i j = Some v
                    /\ fixup u o v = Ok x /\ elem2 out i j = Some x.
Proof.
  intros Ha Hb Hs H. rewrite (array_fixup_unfold l o r a b R C Ha Hb Hs) in H.
  destruct (bshape_fits a b R C (to_nd_wf l a Ha) (to_nd_wf r b Hb) Hs) as (Fa & Fb & HR & HC).
  destruct (expand_ok a R C Fa HR HC) as (La & Ua & Ea).
  destruct (expand_ok b R C Fb HR HC) as (Lb & Ub & Eb).
  set (P := zip_rows (expand a R C) (expand b R C)) in *.
  destruct (mapM (fix_row o) P) as [ys|e] eqn:Ey; [|discriminate]. cbn [bind] in H.
  injection H as <-.
  destruct (mapM_tuple_rows (mapM (fix_pair o)) P ys Ey) as (out & -> & Eo).
  exists out. split; [reflexivity|].
  destruct (mapM_nth _ _ _ Eo) as [Lo No].
  assert (LP : length P = R) by (unfold P; rewrite zip_rows_length by congruence; exact La).
  pose proof (zip_rows_uniform C _ _ Ua Ub) as UP. fold P in UP.
  split; [congruence|]. split.
  - unfold rectangular. apply Forall_forall. intros ro Hro.
    apply In_nth_error in Hro. destruct Hro as [k Hk].
    assert (Hk' : (k < length P)%nat).
    { rewrite <- Lo. apply nth_error_Some. congruence. }
    destruct (nth_error P k) as [ch|] eqn:Ech; [|apply nth_error_None in Ech; lia].
    destruct (No k ch Ech) as (y & Ey' & Ef). rewrite Hk in Ey'. injection Ey' as <-.
    destruct (mapM_nth _ _ _ Ef) as [Lro _]. rewrite Lro.
    unfold uniform in UP. rewrite Forall_forall in UP. apply UP. eapply nth_error_In. exact Ech.
  - intros i j Hi Hj.
    assert (Hu : exists u, belem a i j = Some u).
    { rewrite <- Ea by assumption. unfold elem2.
      destruct (nth_error (expand a R C) i) as [ra|] eqn:E1; [|apply nth_error_None in E1; lia].
      assert (length ra = C) as Lra
        by (unfold uniform in Ua; rewrite Forall_forall in Ua; apply Ua; eapply nth_error_In; exact E1).
      destruct (nth_error ra j) as [u|] eqn:E2; [exists u; reflexivity|apply nth_error_None in E2; lia]. }
    assert (Hv : exists v, belem b i j = Some v).
    { rewrite <- Eb by assumption. unfold elem2.
      destruct (nth_error (expand b R C) i) as [rb|] eqn:E1; [|apply nth_error_None in E1; lia].
      assert (length rb = C) as Lrb
        by (unfold uniform in Ub; rewrite Forall_forall in Ub; apply Ub; eapply nth_error_In; exact E1).
      destruct (nth_error rb j) as [v|] eqn:E2; [exists v; reflexivity|apply nth_error_None in E2; lia]. }
    destruct Hu as [u Hu], Hv as [v Hv]. exists u, v.
    destruct (elem2_zip (expand a R C) (expand b R C) i j u v) as (ch & Ech & Ej).
    { rewrite Ea by assumption. exact Hu. }
    { rewrite Eb by assumption. exact Hv. }
    fold P in Ech. destruct (No i ch Ech) as (ro & Ero & Ef).
    destruct (mapM_nth _ _ _ Ef) as [_ Nro]. destruct (Nro j (u, v) Ej) as (x & Ex & Efx).
    exists x. repeat split; try assumption.
    unfold elem2. rewrite Ero. exact Ex.
Qed.

(* … and the array result is defined as soon as every scalar application is *)
Lemma op_defined l o r a b R C :
  to_nd l = Ok a -> to_nd r = Ok b -> bshape a b = Some (R, C) ->
  (forall i j u v, (i < R)%nat -> (j < C)%nat -> belem a i j = Some u -> belem b i j = Some v ->
                   exists x, fixup u o v = Ok x) ->
  exists res, array_fixup l o r = Ok res.
Proof.
  intros Ha Hb Hs Hall. rewrite (array_fixup_unfold l o r a b R C Ha Hb Hs).
  destruct (bshape_fits a b R C (to_nd_wf l a Ha) (to_nd_wf r b Hb) Hs) as (Fa & Fb & HR & HC).
  destruct (expand_ok a R C Fa HR HC) as (La & Ua & Ea).
  destruct (expand_ok b R C Fb HR HC) as (Lb & Ub & Eb).
  destruct (mapM_all_ok (fix_row o) (zip_rows (expand a R C) (expand b R C))) as [ys Eys].
  - intros ch Hch. unfold zip_rows in Hch. apply in_map_iff in Hch.
    destruct Hch as ([ra rb] & <- & Hin). cbn [fst snd].
    apply In_nth_error in Hin. destruct Hin as [i Hi].
    assert (Hi' : (i < R)%nat).
    { rewrite <- La. assert (nth_error (combine (expand a R C) (expand b R C)) i <> None) as N by congruence.
      apply nth_error_Some in N. rewrite combine_length in N. lia. }
    assert (Era : nth_error (expand a R C) i = Some ra /\ nth_error (expand b R C) i = Some rb).
    { destruct (nth_error (expand a R C) i) as [ra'|] eqn:E1; [|apply nth_error_None in E1; lia].
      destruct (nth_error (expand b R C) i) as [rb'|] eqn:E2; [|apply nth_error_None in E2; lia].
      rewrite (nth_error_combine _ _ i ra' rb' E1 E2) in Hi. injection Hi as <- <-. auto. }
    destruct Era as [Era Erb].
    destruct (mapM_all_ok (fix_pair o) (combine ra rb)) as [rs Ers].
    + intros [u v] Huv. apply In_nth_error in Huv. destruct Huv as [j Hj].
      assert (Lra : length ra = C)
        by (unfold uniform in Ua; rewrite Forall_forall in Ua; apply Ua; eapply nth_error_In; exact Era).
      assert (Hj' : (j < C)%nat).
      { assert (nth_error (combine ra rb) j <> None) as N by congruence.
        apply nth_error_Some in N. rewrite combine_length in N. lia. }
      assert (Lrb : length rb = C)
        by (unfold uniform in Ub; rewrite Forall_forall in Ub; apply Ub; eapply nth_error_In; exact Erb).
      destruct (nth_error ra j) as [u'|] eqn:E1; [|apply nth_error_None in E1; lia].
      destruct (nth_error rb j) as [v'|] eqn:E2; [|apply nth_error_None in E2; lia].
      rewrite (nth_error_combine _ _ j u' v' E1 E2) in Hj. injection Hj as <- <-.
      unfold fix_pair. cbn [fst snd]. apply (Hall i j); try assumption.
      * rewrite <- Ea by assumption. unfold elem2. rewrite Era. exact E1.
      * rewrite <- Eb by assumption. unfold elem2. rewrite Erb. exact E2.
    + exists (VTuple rs). unfold fix_row. rewrite Ers. reflexivity.
  - rewrite Eys. cbn [bind]. eexists. reflexivity.
Qed.

Lemma op_incompatible l o r a b :
  to_nd l = Ok a -> to_nd r = Ok b -> bshape a b = None -> array_fixup l o r = Raise ValueError.
Proof. intros Ha Hb Hs. unfold array_fixup. rewrite Ha, Hb. cbn [bind]. rewrite Hs. reflexivity. Qed.

(* ------------------------------------------- the dispatch in front of array_fixup *)
Definition operand (v : pyval) : Prop :=
  scalar_like v = true \/ exists l, v = VTuple l.

Lemma list_like_scalar v : scalar_like v = true -> list_like_b v = Ok false.
Proof. destruct v; try discriminate; reflexivity. Qed.
Lemma list_like_array l : list_like_b (VTuple l) = Ok true.
Proof. reflexivity. Qed.

(* no scalar operand is an error: the array branch decides *)
Lemma op_dispatch l o r :
  operand l -> operand r ->
  (scalar_like l = true -> in_error_codes l = Ok false) ->
  (scalar_like r = true -> in_error_codes r = Ok false) ->
  (exists x, l = VTuple x) \/ (exists x, r = VTuple x) ->
  op_fixup l o r = array_fixup l o r.
Proof.
  intros [Sl|[xl ->]] [Sr|[xr ->]] El Er Harr; unfold op_fixup.
  - destruct Harr as [[x ->]|[x ->]]; discriminate.
  - rewrite (list_like_scalar l Sl), list_like_array. cbn [bind]. rewrite (El Sl). reflexivity.
  - rewrite (list_like_scalar r Sr), list_like_array. cbn [bind]. rewrite (Er Sr). reflexivity.
  - rewrite !list_like_array. reflexivity.
Qed.

(* a scalar error on the left wins, and it is what the scalar operator gives
   against every element: the scalar result stands for itself at every position *)
Lemma op_scalar_error_left l o r :
  scalar_like l = true -> operand r -> in_error_codes l = Ok true ->
  op_fixup l o r = Ok l /\ forall v, fixup l o v = Ok l.
Proof.
  intros Sl Or El. split; [|intros v; apply error_left; exact El].
  unfold op_fixup. rewrite (list_like_scalar l Sl).
  destruct Or as [Sr|[x ->]].
  - rewrite (list_like_scalar r Sr). cbn [bind]. rewrite El. reflexivity.
  - rewrite list_like_array. cbn [bind]. rewrite El. reflexivity.
Qed.

(* a scalar error on the right of an array: returned for the whole array; this
   is the pointwise value only where the array's own element is not an error.
   MISSING for the full statement (every position): positions whose left element
   is itself an error — refuted in Refuted/C13_scalar_error.v *)
Lemma op_scalar_error_right_partial x o r :
  scalar_like r = true -> in_error_codes r = Ok true ->
  op_fixup (VTuple x) o r = Ok r /\
  forall u, in_error_codes u = Ok false -> fixup u o r = Ok r.
Proof.
  intros Sr Er. split; [|intros u Eu; apply error_right; assumption].
  unfold op_fixup. rewrite list_like_array, (list_like_scalar r Sr). cbn [bind]. rewrite Er.
  reflexivity.
Qed.

(* ====================================================== cse_array_wrapper *)
Lemma nth_error_seq_lt s n k : (k < n)%nat -> nth_error (seq s n) k = Some (s + k)%nat.
Proof.
  revert s k. induction n; intros s k Hk; [lia|]. destruct k; cbn [seq nth_error].
  - f_equal. lia.
  - rewrite IHn by lia. f_equal. lia.
Qed.

Lemma getitem_nat l k x : nth_error l k = Some x -> py_getitem (VTuple l) (znat k) = Ok x.
Proof.
  intros H. assert (Hk : (k < length l)%nat) by (apply nth_error_Some; congruence).
  unfold znat. cbn [py_getitem as_index]. unfold index_nth, zlen. cbv zeta.
  assert (E1 : (Z.of_nat k <? 0) = false) by (apply Z.ltb_ge; lia).
  rewrite E1. rewrite E1.
  replace (Z.of_nat (length l) <=? Z.of_nat k) with false by (symmetry; apply Z.leb_gt; lia).
  cbn [orb]. rewrite Nat2Z.id, H. reflexivity.
Qed.

Section CseProofs.
  Variable f : list pyval -> res pyval.
  Variable idx : nat -> bool.
  Variables R C : nat.

  (* an argument in an array position is an R x C matrix *)
  Definition arg_shape (b : bool) (a : pyval) : Prop :=
    b = true -> exists rows, a = matrix rows /\ length rows = R /\ rectangular C rows.

  (* the argument the scalar call receives at position (i, j) *)
  Definition arg_at (i j : nat) (ba : bool * pyval) : option pyval :=
    if fst ba
    then match snd ba with
         | VTuple rs => match nth_error rs i with
                        | Some (VTuple r) => nth_error r j
                        | _ => None end
         | _ => None end
    else Some (snd ba).

  Lemma pick_ok fl args i j : Forall2 arg_shape fl args -> (i < R)%nat -> (j < C)%nat ->
    exists picked, pick_args fl args (znat i) (znat j) = Ok picked
                   /\ Forall2 (fun ba p => arg_at i j ba = Some p) (combine fl args) picked.
  Proof.
    intros H Hi Hj. induction H as [|b a fl args Hs _ IH].
    - exists []. split; [reflexivity|constructor].
    - destruct IH as (ps & Eps & Fps). cbn [pick_args combine].
      destruct b.
      + destruct (Hs eq_refl) as (rows & -> & HR & Hrect).
        destruct (nth_error rows i) as [r|] eqn:Er; [|apply nth_error_None in Er; lia].
        assert (Lr : length r = C).
        { unfold rectangular in Hrect. rewrite Forall_forall in Hrect. apply Hrect.
          eapply nth_error_In. exact Er. }
        destruct (nth_error r j) as [x|] eqn:Ex; [|apply nth_error_None in Ex; lia].
        exists (x :: ps). split.
        * unfold matrix. rewrite (getitem_nat (map VTuple rows) i (VTuple r))
            by (rewrite nth_error_map, Er; reflexivity).
          cbn [bind]. rewrite (getitem_nat r j x Ex). cbn [bind]. rewrite Eps. reflexivity.
        * constructor; [|exact Fps]. unfold arg_at, matrix. cbn [fst snd].
          rewrite nth_error_map, Er. cbn [option_map]. exact Ex.
      + exists (a :: ps). split; [cbn [bind]; rewrite Eps; reflexivity|].
        constructor; [reflexivity|exact Fps].
  Qed.

  Lemma first_true_shape fl args a : Forall2 arg_shape fl args -> first_true fl args = Some a ->
    exists rows, a = matrix rows /\ length rows = R /\ rectangular C rows.
  Proof.
    intros H. induction H as [|b x fl args Hs _ IH]; [discriminate|].
    cbn [first_true]. destruct b.
    - intros E. injection E as <-. apply Hs. reflexivity.
    - exact IH.
  Qed.

  (* C13_fun_pointwise *)
  Lemma fun_pointwise args fl a res :
    (1 <= R)%nat -> (1 <= C)%nat ->
    mapM (cse_flag idx) (enumerate 0 args) = Ok fl ->
    Forall2 arg_shape fl args ->
    first_true fl args = Some a ->
    cse_wrapper f idx args = Ok res ->
    exists out, res = matrix out /\ length out = R /\ rectangular C out /\
      forall i j, (i < R)%nat -> (j < C)%nat ->
        exists picked x, Forall2 (fun ba p => arg_at i j ba = Some p) (combine fl args) picked
                         /\ f picked = Ok x /\ elem2 out i j = Some x.
  Proof.
    intros HR HC Efl Hshape Efirst H. unfold cse_wrapper in H. rewrite Efl in H. cbn [bind] in H.
    rewrite Efirst in H.
    destruct (first_true_shape fl args a Hshape Efirst) as (rows & -> & Lrows & Hrect).
    destruct rows as [|r0 rest]; [cbn [length] in Lrows; lia|].
    assert (Lr0 : length r0 = C) by (inversion Hrect; assumption).
    unfold matrix in H. cbn [py_len bind py_getitem as_index] in H. rewrite index0_rows in H.
    cbn [bind py_len] in H.
    rewrite zlen_map in H. unfold zlen in H. rewrite !Nat2Z.id, Lrows, Lr0 in H.
    match type of H with (rows <- ?m ;; _) = _ => destruct m as [ys|e] eqn:Ey; [|discriminate] end.
    cbn [bind] in H. injection H as <-.
    apply mapM_tuple_rows in Ey. destruct Ey as (out & -> & Eo).
    exists out. split; [reflexivity|].
    destruct (mapM_nth _ _ _ Eo) as [Lo No]. rewrite seq_length in Lo.
    split; [exact Lo|]. split.
    - unfold rectangular. apply Forall_forall. intros ro Hro.
      apply In_nth_error in Hro. destruct Hro as [k Hk].
      assert (Hk' : (k < R)%nat) by (rewrite <- Lo; apply nth_error_Some; congruence).
      destruct (No k k) as (y & Ey' & Ef); [rewrite nth_error_seq_lt by exact Hk'; reflexivity|].
      rewrite Hk in Ey'. injection Ey' as <-.
      destruct (mapM_nth _ _ _ Ef) as [Lro _]. rewrite Lro. apply seq_length.
    - intros i j Hi Hj.
      destruct (No i i) as (ro & Ero & Ef); [rewrite nth_error_seq_lt by exact Hi; reflexivity|].
      destruct (mapM_nth _ _ _ Ef) as [_ Nro].
      destruct (Nro j j) as (x & Ex & Efx); [rewrite nth_error_seq_lt by exact Hj; reflexivity|].
      destruct (pick_ok fl args i j Hshape Hi Hj) as (picked & Ep & Fp).
      rewrite Ep in Efx. cbn [bind] in Efx.
      exists picked, x. split; [exact Fp|]. split; [exact Efx|].
      unfold elem2. rewrite Ero. exact Ex.
  Qed.

  (* no array in an array position: the function is called as is *)
  Lemma fun_no_array args fl :
    mapM (cse_flag idx) (enumerate 0 args) = Ok fl -> first_true fl args = None ->
    cse_wrapper f idx args = f args.
  Proof. intros Efl E. unfold cse_wrapper. rewrite Efl. cbn [bind]. rewrite E. reflexivity. Qed.
End CseProofs.

(* ================================================== examples (non-vacuity) *)
Example ex_fit_trim :
  fit (target 1 2) (matrix [[VInt 1; VInt 2; VInt 3]; [VInt 4; VInt 5; VInt 6]])
  = Ok (matrix [[VInt 1; VInt 2]]).
Proof. vm_compute. reflexivity. Qed.
Example ex_fit_fill :
  fit (target 2 3) (matrix [[VInt 1; VInt 2]])
  = Ok (matrix [[VInt 1; VInt 2; NA]; [VInt 1; VInt 2; NA]]).
Proof. vm_compute. reflexivity. Qed.
Example ex_fit_column :
  fit (target 3 2) (matrix [[VInt 1]; [VInt 2]])
  = Ok (matrix [[VInt 1; VInt 1]; [VInt 2; VInt 2]; [NA; NA]]).
Proof. vm_compute. reflexivity. Qed.
Example ex_op_row_col :
  array_fixup (matrix [[VInt 1; VInt 2]]) Add (matrix [[VInt 10]; [VInt 20]])
  = Ok (matrix [[VInt 11; VInt 12]; [VInt 21; VInt 22]]).
Proof. vm_compute. reflexivity. Qed.
Example ex_op_mismatch :
  array_fixup (matrix [[VInt 1; VInt 2]]) Add (matrix [[VInt 1; VInt 2; VInt 3]]) = Raise ValueError.
Proof. vm_compute. reflexivity. Qed.
Example ex_cse :
  cse_wrapper (fun xs => Ok (VTuple xs)) (fun _ => true)
              [matrix [[VInt 1; VInt 2]]; VInt 7]
  = Ok (matrix [[VTuple [VInt 1; VInt 7]; VTuple [VInt 2; VInt 7]]]).
Proof. vm_compute. reflexivity. Qed.
