(* Proofs/C13.v — array (CSE) formulas: target shape and pointwise lifting. *)
From Coq Require Import ZArith QArith List Bool Arith Lia.
From PV Require Import Lib.Py Model.Ops Model.Arrays Proofs.PyTac Proofs.C10.
From PV Require Gen.excelutil Gen.arrayfit.
Import ListNotations.
Open Scope Z_scope.

(* ================================================================ lists *)
Lemma rep_list_length {A} n (l : list A) : length (rep_list n l) = (n * length l)%nat.
Proof. induction n; cbn [rep_list]; [reflexivity|]. rewrite app_length, IHn. lia. Qed.

Lemma rep_list_single {A} n (x : A) : rep_list n [x] = repeat x n.
Proof. induction n; cbn [rep_list repeat app]; congruence. Qed.

Lemma rep_list_map {A B} (f : A -> B) n l : rep_list n (map f l) = map f (rep_list n l).
Proof. induction n; cbn [rep_list map]; [reflexivity|]. rewrite map_app, IHn. reflexivity. Qed.

Lemma nth_error_repeat {A} (x : A) n k : (k < n)%nat -> nth_error (repeat x n) k = Some x.
Proof.
  revert k. induction n; intros k Hk; [lia|]. destruct k; cbn [repeat nth_error]; [reflexivity|].
  apply IHn. lia.
Qed.

Lemma nth_error_firstn_lt {A} (l : list A) n k : (k < n)%nat -> nth_error (firstn n l) k = nth_error l k.
Proof.
  revert n k. induction l as [|x l IH]; intros n k Hk.
  - rewrite firstn_nil. reflexivity.
  - destruct n; [lia|]. destruct k; cbn [firstn nth_error]; [reflexivity|]. apply IH. lia.
Qed.

Lemma zlen_map {A B} (f : A -> B) l : zlen (map f l) = zlen l.
Proof. unfold zlen. rewrite map_length. reflexivity. Qed.

Lemma Forall_rep_list {A} (P : A -> Prop) n l : Forall P l -> Forall P (rep_list n l).
Proof. intros H. induction n; cbn [rep_list]; [constructor|]. apply Forall_app. split; assumption. Qed.

Lemma Forall_firstn {A} (P : A -> Prop) n l : Forall P l -> Forall P (firstn n l).
Proof.
  intros H. revert n. induction H; intros n; destruct n; cbn [firstn]; constructor; auto.
Qed.

(* ============================================================= fit_axis *)
Section FitAxis.
  Context {A : Type}.
  Variables (fill : A) (l : list A) (n : Z).
  Hypothesis Hn : 1 <= n.
  Hypothesis Hl : (1 <= length l)%nat.

  Lemma fit_axis_length : length (fit_axis n (zlen l) fill l) = Z.to_nat n.
  Proof.
    unfold fit_axis, zlen, seq_mul.
    destruct (Z.eqb_spec (Z.of_nat (length l)) 1) as [E1|E1]; cbn [andb].
    - destruct (Z.eqb_spec n 1) as [En|En]; cbn [negb].
      + replace (n <? Z.of_nat (length l)) with false by (symmetry; apply Z.ltb_ge; lia).
        replace (Z.of_nat (length l) <? n) with false by (symmetry; apply Z.ltb_ge; lia). lia.
      + rewrite rep_list_length. nia.
    - destruct (Z.ltb_spec n (Z.of_nat (length l))) as [L1|L1].
      + rewrite firstn_length. lia.
      + destruct (Z.ltb_spec (Z.of_nat (length l)) n) as [L2|L2].
        * rewrite app_length, rep_list_length. cbn [length]. lia.
        * lia.
  Qed.

  Lemma fit_axis_nth k : (k < Z.to_nat n)%nat ->
    nth_error (fit_axis n (zlen l) fill l) k
    = Some match nth_error l (if Nat.eqb (length l) 1 then O else k) with
           | Some x => x | None => fill end.
  Proof.
    intros Hk. unfold fit_axis, zlen, seq_mul.
    destruct (Z.eqb_spec (Z.of_nat (length l)) 1) as [E1|E1]; cbn [andb].
    - replace (Nat.eqb (length l) 1) with true by (symmetry; apply Nat.eqb_eq; lia).
      destruct l as [|x [|y l']]; cbn [length] in *; try lia. cbn [nth_error].
      destruct (Z.eqb_spec n 1) as [En|En]; cbn [negb].
      + replace (n <? Z.of_nat 1) with false by (symmetry; apply Z.ltb_ge; lia).
        replace (Z.of_nat 1 <? n) with false by (symmetry; apply Z.ltb_ge; lia).
        replace k with O by lia. reflexivity.
      + rewrite rep_list_single. apply nth_error_repeat. exact Hk.
    - replace (Nat.eqb (length l) 1) with false by (symmetry; apply Nat.eqb_neq; lia).
      destruct (Z.ltb_spec n (Z.of_nat (length l))) as [L1|L1].
      + rewrite nth_error_firstn_lt by exact Hk.
        destruct (nth_error l k) eqn:E; [reflexivity|].
        apply nth_error_None in E. lia.
      + destruct (Z.ltb_spec (Z.of_nat (length l)) n) as [L2|L2].
        * destruct (Nat.lt_ge_cases k (length l)) as [K|K].
          -- rewrite nth_error_app1 by exact K.
             destruct (nth_error l k) eqn:E; [reflexivity|]. apply nth_error_None in E. lia.
          -- rewrite nth_error_app2 by exact K. rewrite rep_list_single.
             rewrite nth_error_repeat by lia.
             destruct (nth_error l k) eqn:E; [|reflexivity].
             assert (nth_error l k <> None) as N by congruence. apply nth_error_Some in N. lia.
        * destruct (nth_error l k) eqn:E; [reflexivity|]. apply nth_error_None in E. lia.
  Qed.

  Lemma fit_axis_Forall (P : A -> Prop) : Forall P l -> P fill -> Forall P (fit_axis n (zlen l) fill l).
  Proof.
    intros Hall Hf. unfold fit_axis, seq_mul.
    destruct ((zlen l =? 1) && negb (n =? 1)); [apply Forall_rep_list; exact Hall|].
    destruct (n <? zlen l); [apply Forall_firstn; exact Hall|].
    destruct (zlen l <? n); [|exact Hall].
    apply Forall_app. split; [exact Hall|]. apply Forall_rep_list. constructor; [exact Hf|constructor].
  Qed.
End FitAxis.

(* ============================================================= fit_spec *)
Definition rectangular (C : nat) (rows : list (list pyval)) : Prop :=
  Forall (fun r => length r = C) rows.

(* element (i, j) of a matrix *)
Definition elem2 (m : list (list pyval)) (i j : nat) : option pyval :=
  match nth_error m i with Some r => nth_error r j | None => None end.

(* the element the statement asks for at (i, j) of the target: the result's
   own element, with a single row / column / scalar repeated, #N/A outside *)
Definition fit_elem (rows : list (list pyval)) (i j : nat) : pyval :=
  let ii := if Nat.eqb (length rows) 1 then O else i in
  let jj := if Nat.eqb (length (hd [] rows)) 1 then O else j in
  match elem2 rows ii jj with Some x => x | None => NA end.

Lemma hd_length C r0 rest : rectangular C (r0 :: rest) -> length (hd [] (r0 :: rest)) = C.
Proof. intros H. inversion H; subst. reflexivity. Qed.

Lemma fit_spec_shape rows C h w :
  rows <> [] -> (1 <= C)%nat -> rectangular C rows -> 1 <= h -> 1 <= w ->
  length (fit_spec h w rows) = Z.to_nat h /\ rectangular (Z.to_nat w) (fit_spec h w rows).
Proof.
  intros Hne HC Hrect Hh Hw. unfold fit_spec.
  destruct rows as [|r0 rest]; [congruence|].
  pose proof (hd_length C r0 rest Hrect) as Hhd.
  set (rows := r0 :: rest) in *.
  assert (Hlen : (1 <= length (map (fit_axis w (zlen (hd [] rows)) NA) rows))%nat)
    by (rewrite map_length; unfold rows; cbn [length]; apply le_n_S, Nat.le_0_l).
  rewrite <- (zlen_map (fit_axis w (zlen (hd [] rows)) NA) rows).
  split.
  - apply fit_axis_length; assumption.
  - apply fit_axis_Forall.
    + apply Forall_map. unfold rectangular in Hrect.
      eapply Forall_impl; [|exact Hrect]. intros r Hr. cbv beta in Hr |- *.
      replace (zlen (hd [] rows)) with (zlen r) by (unfold zlen; rewrite Hhd, Hr; reflexivity).
      apply fit_axis_length; [exact Hw|lia].
    + unfold seq_mul. rewrite rep_list_length. cbn [length]. lia.
Qed.

Lemma fit_spec_elem rows C h w i j :
  rows <> [] -> (1 <= C)%nat -> rectangular C rows -> 1 <= h -> 1 <= w ->
  (i < Z.to_nat h)%nat -> (j < Z.to_nat w)%nat ->
  elem2 (fit_spec h w rows) i j = Some (fit_elem rows i j).
Proof.
  intros Hne HC Hrect Hh Hw Hi Hj. unfold fit_spec, elem2, fit_elem.
  destruct rows as [|r0 rest]; [congruence|].
  pose proof (hd_length C r0 rest Hrect) as Hhd.
  set (rows := r0 :: rest) in *.
  assert (Hlen : (1 <= length (map (fit_axis w (zlen (hd [] rows)) NA) rows))%nat)
    by (rewrite map_length; unfold rows; cbn [length]; apply le_n_S, Nat.le_0_l).
  rewrite <- (zlen_map (fit_axis w (zlen (hd [] rows)) NA) rows).
  rewrite fit_axis_nth by assumption.
  rewrite map_length. rewrite nth_error_map.
  set (ii := if Nat.eqb (length rows) 1 then O else i).
  destruct (nth_error rows ii) as [r|] eqn:Er; cbn [option_map].
  - assert (Hr : length r = C).
    { unfold rectangular in Hrect. rewrite Forall_forall in Hrect. apply Hrect.
      eapply nth_error_In. exact Er. }
    replace (zlen (hd [] rows)) with (zlen r) by (unfold zlen; rewrite Hhd, Hr; reflexivity).
    rewrite fit_axis_nth by (try assumption; lia). rewrite Hr, Hhd. unfold elem2. rewrite Er. reflexivity.
  - unfold seq_mul. rewrite rep_list_single. rewrite nth_error_repeat by exact Hj.
    unfold elem2. rewrite Er. reflexivity.
Qed.

(* ===================================== the translated fit_to_range = fit_spec *)
Lemma list_like_tuple l : excelutil.f_list_like (VTuple l) = Ok (VBool true).
Proof. reflexivity. Qed.

Lemma index0_rows r0 rest : index_nth (map VTuple (r0 :: rest)) 0 = Some (VTuple r0).
Proof. cbn [map]. apply index_nth_0. Qed.

Lemma genexp_rows (elt : pyval -> res pyval) (g : list pyval -> list pyval) rows :
  (forall r, elt (VTuple r) = Ok (VTuple (g r))) ->
  genexp elt (fun _ => Ok true) (map VTuple rows) = Ok (map VTuple (map g rows)).
Proof.
  intros H. induction rows as [|r rows IH]; [reflexivity|].
  cbn [map genexp bind]. rewrite H, IH. reflexivity.
Qed.

Lemma slice_firstn {A} (l : list A) w : 0 <= w -> slice_list l None (Some w) = firstn (Z.to_nat w) l.
Proof.
  intros Hw. unfold slice_list, clamp_idx.
  replace (w <? 0) with false by (symmetry; apply Z.ltb_ge; lia).
  replace (Z.to_nat 0) with O by reflexivity. cbn [skipn]. rewrite Z.sub_0_r.
  destruct (Z.le_ge_cases w (zlen l)) as [L|L].
  - rewrite Z.min_r, Z.max_r by lia. reflexivity.
  - rewrite Z.min_l, Z.max_r by (unfold zlen in *; lia).
    unfold zlen in *. rewrite !firstn_all2 by lia. reflexivity.
Qed.

Lemma index0 rows r0 rest : rows = r0 :: rest -> index_nth (map VTuple rows) 0 = Some (VTuple r0).
Proof. intros ->. apply index0_rows. Qed.

Lemma height_ok h w n (R : list (list pyval)) : 1 <= h ->
  (c_0 <- (if n =? 1 then Ok (negb (h =? 1)) else Ok false);;
   (if c_0 then Ok (VTuple (seq_mul (map VTuple R) h))
    else if h <? n then Ok (VTuple (slice_list (map VTuple R) None (Some h)))
    else if n <? h
         then Ok (VTuple (map VTuple R ++
                          seq_mul [VTuple (seq_mul [excelutil.c_NA_ERROR] w)] (h - n)))
         else Ok (VTuple (map VTuple R))))
  = Ok (VTuple (map VTuple (fit_axis h n (seq_mul [NA] w) R))).
Proof.
  intros Hh. unfold fit_axis.
  assert (S1 : forall k (X : list (list pyval)), seq_mul (map VTuple X) k = map VTuple (seq_mul X k))
    by (intros; unfold seq_mul; apply rep_list_map).
  destruct (n =? 1); cbn [bind andb].
  - destruct (h =? 1); cbn [negb].
    + destruct (h <? n); [rewrite slice_firstn, firstn_map by lia; reflexivity|].
      destruct (n <? h); [|reflexivity].
      rewrite map_app, <- S1. reflexivity.
    + rewrite S1. reflexivity.
  - destruct (h <? n); [rewrite slice_firstn, firstn_map by lia; reflexivity|].
    destruct (n <? h); [|reflexivity].
    rewrite map_app, <- S1. reflexivity.
Qed.

Lemma fit_translated r0 rest h w : 1 <= h -> 1 <= w ->
  arrayfit.f__ArrayFormulaContext_fit_to_range (VTuple [VInt h; VInt w]) (matrix (r0 :: rest))
  = Ok (matrix (fit_spec h w (r0 :: rest))).
Proof.
  intros Hh Hw. unfold arrayfit.f__ArrayFormulaContext_fit_to_range, matrix.
  set (rows := r0 :: rest).
  unfold attr_ctx_address, attr_size, attr_height, attr_width, py_address_size.
  repeat (progress (py_step; rewrite ?list_like_tuple, ?(index0 rows r0 rest eq_refl), ?zlen_map)).
  unfold fit_spec. replace (hd [] rows) with r0 by reflexivity.
  unfold fit_axis at 2.
  destruct (zlen r0 =? 1) eqn:E1; cbn [andb bind].
  - destruct (w =? 1) eqn:E2; cbn [negb].
    + (* width 1 result, width 1 target: unchanged *)
      destruct (w <? zlen r0) eqn:E3; [apply Z.eqb_eq in E1, E2; apply Z.ltb_lt in E3; lia|].
      destruct (zlen r0 <? w) eqn:E4; [apply Z.eqb_eq in E1, E2; apply Z.ltb_lt in E4; lia|].
      rewrite map_id. apply height_ok. exact Hh.
    + rewrite (genexp_rows _ (fun r => seq_mul r w)) by (intros; reflexivity).
      py_run. apply height_ok. exact Hh.
  - destruct (w <? zlen r0) eqn:E3.
    + rewrite (genexp_rows _ (fun r => slice_list r None (Some w))) by (intros; reflexivity).
      py_run. rewrite height_ok by exact Hh.
      do 3 f_equal. f_equal. apply map_ext. intros r. apply slice_firstn. lia.
    + destruct (zlen r0 <? w) eqn:E4.
      * rewrite (genexp_rows _ (fun r => r ++ seq_mul [excelutil.c_NA_ERROR] (w - zlen r0)))
          by (intros; reflexivity).
        py_run. apply height_ok. exact Hh.
      * rewrite map_id. apply height_ok. exact Hh.
Qed.

Lemma fit_translated_scalar v h w : scalar_like v = true -> 1 <= h -> 1 <= w ->
  arrayfit.f__ArrayFormulaContext_fit_to_range (VTuple [VInt h; VInt w]) v
  = Ok (matrix (fit_spec h w [[v]])).
Proof.
  intros Hs Hh Hw.
  assert (LL : excelutil.f_list_like v = Ok (VBool false)) by (destruct v; try discriminate; reflexivity).
  unfold arrayfit.f__ArrayFormulaContext_fit_to_range, matrix.
  unfold attr_ctx_address, attr_size, attr_height, attr_width, py_address_size.
  repeat (progress (py_step; rewrite ?LL)).
  change [VTuple [v]] with (map VTuple [[v]]).
  unfold fit_spec. replace (hd [] [[v]]) with [v] by reflexivity.
  replace (zlen [[v]]) with 1 by reflexivity. replace (zlen [v]) with 1 by reflexivity.
  unfold fit_axis at 2. replace (1 =? 1) with true by reflexivity. cbn [andb].
  replace (w <? 1) with false by (symmetry; apply Z.ltb_ge; lia).
  destruct (w =? 1) eqn:E2; cbn [negb].
  - destruct (1 <? w) eqn:E4; [apply Z.eqb_eq in E2; apply Z.ltb_lt in E4; lia|].
    rewrite map_id. exact (height_ok h w 1 [[v]] Hh).
  - rewrite (genexp_rows _ (fun r => seq_mul r w)) by (intros; reflexivity).
    py_run. exact (height_ok h w 1 _ Hh).
Qed.

Lemma fit_translated_no_context v :
  arrayfit.f__ArrayFormulaContext_fit_to_range VNone v = Ok v.
Proof. reflexivity. Qed.

(* ------------------------------------------------ the fit theorems, packaged *)
Definition fit := arrayfit.f__ArrayFormulaContext_fit_to_range.
Definition target (h w : Z) : pyval := VTuple [VInt h; VInt w].

Lemma fit_shape rows C h w :
  rows <> [] -> (1 <= C)%nat -> rectangular C rows -> 1 <= h -> 1 <= w ->
  exists out, fit (target h w) (matrix rows) = Ok (matrix out)
              /\ length out = Z.to_nat h /\ rectangular (Z.to_nat w) out.
Proof.
  intros Hne HC Hrect Hh Hw. exists (fit_spec h w rows). split.
  - destruct rows as [|r0 rest]; [congruence|]. apply fit_translated; assumption.
  - apply (fit_spec_shape rows C); assumption.
Qed.

Lemma fit_elem_at rows C h w :
  rows <> [] -> (1 <= C)%nat -> rectangular C rows -> 1 <= h -> 1 <= w ->
  exists out, fit (target h w) (matrix rows) = Ok (matrix out)
              /\ forall i j, (i < Z.to_nat h)%nat -> (j < Z.to_nat w)%nat ->
                             elem2 out i j = Some (fit_elem rows i j).
Proof.
  intros Hne HC Hrect Hh Hw. exists (fit_spec h w rows). split.
  - destruct rows as [|r0 rest]; [congruence|]. apply fit_translated; assumption.
  - intros i j Hi Hj. apply (fit_spec_elem rows C); assumption.
Qed.

Lemma fit_scalar v h w : scalar_like v = true -> 1 <= h -> 1 <= w ->
  exists out, fit (target h w) v = Ok (matrix out)
              /\ length out = Z.to_nat h /\ rectangular (Z.to_nat w) out
              /\ forall i j, (i < Z.to_nat h)%nat -> (j < Z.to_nat w)%nat -> elem2 out i j = Some v.
Proof.
  intros Hs Hh Hw. exists (fit_spec h w [[v]]).
  assert (R1 : rectangular 1 [[v]]) by (repeat constructor).
  assert (N1 : [[v]] <> []) by discriminate.
  split; [apply fit_translated_scalar; assumption|].
  destruct (fit_spec_shape [[v]] 1%nat h w N1 (le_n 1) R1 Hh Hw) as [L Rc].
  split; [exact L|]. split; [exact Rc|].
  intros i j Hi Hj. rewrite (fit_spec_elem [[v]] 1%nat h w i j N1 (le_n 1) R1 Hh Hw Hi Hj).
  reflexivity.
Qed.

(* the cases of fit_elem spelled out: inside, single row, single column, outside *)
Lemma fit_elem_cases rows R C i j :
  length rows = R -> rectangular C rows -> rows <> [] ->
  (forall x, elem2 rows (if Nat.eqb R 1 then O else i) (if Nat.eqb C 1 then O else j) = Some x ->
             fit_elem rows i j = x)
  /\ ((R <> 1%nat /\ (R <= i)%nat) \/ (C <> 1%nat /\ (C <= j)%nat) -> fit_elem rows i j = NA).
Proof.
  intros HR Hrect Hne. destruct rows as [|r0 rest]; [congruence|].
  pose proof (hd_length C r0 rest Hrect) as Hhd.
  unfold fit_elem. rewrite Hhd, HR. split.
  - intros x Hx. rewrite Hx. reflexivity.
  - intros Hout. unfold elem2.
    destruct (nth_error (r0 :: rest) (if Nat.eqb R 1 then O else i)) as [r|] eqn:Er; [|reflexivity].
    assert (Hr : length r = C).
    { unfold rectangular in Hrect. rewrite Forall_forall in Hrect. apply Hrect.
      eapply nth_error_In. exact Er. }
    destruct Hout as [[HR1 HRi]|[HC1 HCj]].
    + replace (Nat.eqb R 1) with false in Er by (symmetry; apply Nat.eqb_neq; exact HR1).
      assert (nth_error (r0 :: rest) i <> None) as N by congruence.
      apply nth_error_Some in N. lia.
    + replace (Nat.eqb C 1) with false by (symmetry; apply Nat.eqb_neq; exact HC1).
      destruct (nth_error r j) eqn:Ej; [|reflexivity].
      assert (nth_error r j <> None) as N by congruence. apply nth_error_Some in N. lia.
Qed.
