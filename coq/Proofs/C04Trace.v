(* Proofs/C04Trace.v — C04, graph half, part 1: the instrumented evaluation of
   Model/ReadTrace.v.
     * erasing the trace gives back Graph.eval / build / evaluate / run
       (no hypothesis at all: the instrumentation changes nothing);
     * every (reader, read) pair of a trace is an edge of the workbook's
       dependency relation, and the reader is the evaluated node or one of its
       ancestors;
     * the trace is not vacuous: a node that is computed reads every one of
       its declared precedents / members. *)
From Coq Require Import List Arith Bool Lia Relations.
From PV Require Import Lib.Py Model.Graph Model.ReadTrace.
From PV Require Import Proofs.C01Base Proofs.C01Eval Proofs.C01Inv.
Import ListNotations.

(* ------------------------------------------------------------ ancestors *)
Section Ancestors.
  Variable W : workbook.

  Lemma ancestor_refl a : ancestor W a a.
  Proof. apply rt_refl. Qed.
  Lemma ancestor_edge p d : edge W p d -> ancestor W p d.
  Proof. intros H. apply rt_step, H. Qed.
  Lemma ancestor_trans a b c : ancestor W a b -> ancestor W b c -> ancestor W a c.
  Proof. apply rt_trans. Qed.
  Lemma ancestor_step a b c : ancestor W a b -> edge W b c -> ancestor W a c.
  Proof. intros A E. eapply rt_trans; [exact A|apply rt_step, E]. Qed.

  (* the reflexive-transitive closure of [edge] is C01Base's strict [anc] plus
     the node itself *)
  Lemma ancestor_anc a c : ancestor W a c <-> a = c \/ anc W a c.
  Proof.
    split.
    - intros A. induction A as [a c E|a|a b c _ IH1 _ IH2].
      + right. constructor. exact E.
      + left. reflexivity.
      + destruct IH1 as [->|A1]; [exact IH2|]. destruct IH2 as [<-|A2]; [right; exact A1|].
        right. eapply anc_anc; eauto.
    - intros [->|A]; [apply ancestor_refl|].
      induction A as [a n H|a b n _ IH H].
      + apply ancestor_edge, H.
      + eapply ancestor_step; [exact IH|exact H].
  Qed.
End Ancestors.

Section Trace.
  Variable W : workbook.
  Variable sem : nat -> list pyval -> pyval.

  Notation N := (wb_n W).
  Notation deps := (wb_deps W).
  Notation isinput := (wb_input W).
  Notation isrange := (wb_range W).
  Notation eval := (eval W sem).
  Notation evalT := (eval_traced W sem).

  Definition tstep (f n : nat) (acc : cache * list pyval * rtrace) (d : nat)
    : cache * list pyval * rtrace :=
    let '(c1, vs, t) := acc in
    let '(c2, v, t2) := evalT f c1 d in (c2, vs ++ [v], t ++ (n, d) :: t2).

  Lemma evalT_unfold f c n : evalT (S f) c n =
    if isinput n then (c, c n, [])
    else if is_none (c n) then
      let '(c', vals, tr) := fold_left (tstep f n) (deps n) (c, [], []) in
      (upd c' n (sem n vals), sem n vals, tr)
    else (c, c n, []).
  Proof. reflexivity. Qed.

  (* ------------------------------------------------- erasure: eval *)
  Lemma tfold_fst f n : (forall c d, fst (evalT f c d) = eval f c d) ->
    forall l acc, fst (fold_left (tstep f n) l acc) = fold_left (estep W sem f) l (fst acc).
  Proof.
    intros IH. induction l as [|d l IHl]; intros [[c vs] t]; cbn [fold_left]; [reflexivity|].
    rewrite IHl. f_equal. unfold tstep, estep. cbn [fst]. specialize (IH c d).
    destruct (evalT f c d) as [[c2 v] t2]. cbn [fst] in IH. rewrite <- IH. reflexivity.
  Qed.

  Lemma evalT_eval : forall f c n, fst (evalT f c n) = eval f c n.
  Proof.
    induction f as [|f IH]; intros c n; [reflexivity|].
    rewrite evalT_unfold, (eval_unfold W sem). destruct (isinput n); [reflexivity|].
    destruct (is_none (c n)); [|reflexivity].
    pose proof (tfold_fst f n IH (deps n) (c, [], [])) as H. cbn [fst] in H.
    destruct (fold_left (tstep f n) (deps n) (c, [], [])) as [[c' vals] tr]. cbn [fst] in H.
    rewrite <- H. reflexivity.
  Qed.

  (* --------------------------------------------- every pair is an edge *)
  Definition pair_ok (n : nat) (x : nat * nat) : Prop :=
    edge W (snd x) (fst x) /\ ancestor W (fst x) n.

  Lemma tfold_ok f n : (forall c m x, In x (snd (evalT f c m)) -> pair_ok m x) ->
    forall l, (forall d, In d l -> In d (deps n)) ->
    forall acc, (forall x, In x (snd acc) -> pair_ok n x) ->
      forall x, In x (snd (fold_left (tstep f n) l acc)) -> pair_ok n x.
  Proof.
    intros IH. induction l as [|d l IHl]; intros Sub [[c vs] t] Hacc; cbn [fold_left]; [exact Hacc|].
    apply IHl; [intros; apply Sub; right; auto|].
    unfold tstep. specialize (IH c d). destruct (evalT f c d) as [[c2 v] t2]. cbn [snd] in *.
    assert (E: edge W d n) by (apply Sub; left; reflexivity).
    intros x Hx. apply in_app_or in Hx. destruct Hx as [Hx|[<-|Hx]].
    - apply Hacc, Hx.
    - split; [exact E|apply ancestor_refl].
    - destruct (IH x Hx) as [A B]. split; [exact A|]. eapply ancestor_step; eauto.
  Qed.

  Lemma evalT_pairs : forall f c n x, In x (snd (evalT f c n)) -> pair_ok n x.
  Proof.
    induction f as [|f IH]; intros c n x; [intros []|].
    rewrite evalT_unfold. destruct (isinput n); [intros []|].
    destruct (is_none (c n)); [|intros []].
    pose proof (tfold_ok f n IH (deps n) ltac:(auto) (c, [], []) ltac:(intros ? [])) as H.
    destruct (fold_left (tstep f n) (deps n) (c, [], [])) as [[c' vals] tr]. cbn [snd] in *.
    apply H.
  Qed.

  Lemma evalT_edges f c n r d : In (r, d) (snd (evalT f c n)) ->
    edge W d r /\ ancestor W r n /\ ancestor W d n.
  Proof.
    intros H. destruct (evalT_pairs f c n (r, d) H) as [A B]. cbn [fst snd] in A, B.
    split; [exact A|]. split; [exact B|]. eapply ancestor_trans; [apply ancestor_edge, A|exact B].
  Qed.

  (* ------------------------------------- a computed node reads all its deps *)
  Lemma tfold_mono f n : forall l acc x, In x (snd acc) -> In x (snd (fold_left (tstep f n) l acc)).
  Proof.
    induction l as [|d l IHl]; intros [[c vs] t] x Hx; cbn [fold_left]; [exact Hx|].
    apply IHl. unfold tstep. destruct (evalT f c d) as [[c2 v] t2]. cbn [snd] in *.
    apply in_or_app. left. exact Hx.
  Qed.
  Lemma tfold_all f n : forall l acc d, In d l -> In (n, d) (snd (fold_left (tstep f n) l acc)).
  Proof.
    induction l as [|d0 l IHl]; intros [[c vs] t] d Hd; [destruct Hd|]. cbn [fold_left].
    destruct Hd as [->|Hd]; [|apply IHl, Hd].
    apply tfold_mono. unfold tstep. destruct (evalT f c d) as [[c2 v] t2]. cbn [snd].
    apply in_or_app. right. left. reflexivity.
  Qed.

  Lemma evalT_complete f (c : cache) n : isinput n = false -> c n = VNone ->
    forall d, In d (deps n) -> In (n, d) (snd (evalT (S f) c n)).
  Proof.
    intros I E d Hd. rewrite evalT_unfold. destruct (isinput n); [discriminate|].
    apply is_none_true in E. destruct (is_none (c n)); [|discriminate].
    pose proof (tfold_all f n (deps n) (c, [], []) d Hd) as H.
    destruct (fold_left (tstep f n) (deps n) (c, [], [])) as [[c' vals] tr]. exact H.
  Qed.

  (* a cached or input node reads nothing *)
  Lemma evalT_cached f (c : cache) n : isinput n = true \/ c n <> VNone -> snd (evalT f c n) = [].
  Proof.
    intros H. destruct f as [|f]; [reflexivity|]. rewrite evalT_unfold.
    destruct (isinput n); [reflexivity|]. destruct H as [H|H]; [discriminate|].
    apply is_none_false in H. rewrite H. reflexivity.
  Qed.

  Theorem evalT_complete_cached f (c : cache) n :
    (isinput n = false -> c n = VNone ->
       forall d, In d (deps n) -> In (n, d) (snd (evalT (S f) c n)))
    /\ (isinput n = true \/ c n <> VNone -> snd (evalT f c n) = []).
  Proof. split; [apply evalT_complete|apply evalT_cached]. Qed.

  (* ------------------- the trace contains EVERY cache entry the value depends on *)
  (* two caches that agree on the evaluated node and on every cell of the trace
     give the same value, the same trace, and caches that still agree there *)
  Definition agreeT (T : nat -> Prop) (c1 c2 : cache) : Prop := forall m, T m -> c1 m = c2 m.

  Definition det_ok (f : nat) (T : nat -> Prop) := forall (c1 c2 : cache) d, T d ->
    (forall r x, In (r, x) (snd (evalT f c1 d)) -> T x) -> agreeT T c1 c2 ->
    snd (fst (evalT f c2 d)) = snd (fst (evalT f c1 d))
    /\ snd (evalT f c2 d) = snd (evalT f c1 d)
    /\ agreeT T (fst (fst (evalT f c1 d))) (fst (fst (evalT f c2 d))).

  Lemma tfold_det f n T : det_ok f T ->
    forall l (c1 c2 : cache) (vs : list pyval) (t : list (nat * nat)),
      (forall r x, In (r, x) (snd (fold_left (tstep f n) l (c1, vs, t))) -> T x) ->
      agreeT T c1 c2 ->
      snd (fst (fold_left (tstep f n) l (c2, vs, t))) = snd (fst (fold_left (tstep f n) l (c1, vs, t)))
      /\ snd (fold_left (tstep f n) l (c2, vs, t)) = snd (fold_left (tstep f n) l (c1, vs, t))
      /\ agreeT T (fst (fst (fold_left (tstep f n) l (c1, vs, t))))
                  (fst (fst (fold_left (tstep f n) l (c2, vs, t)))).
  Proof.
    intros IH. induction l as [|d l IHl]; intros c1 c2 vs t HT Ag; cbn [fold_left].
    - cbn [fst snd]. auto.
    - cbn [fold_left] in HT. unfold tstep at 2 in HT. unfold tstep at 2 4 6 8 10 12.
      specialize (IH c1 c2 d).
      destruct (evalT f c1 d) as [[c1' v1] t1]. destruct (evalT f c2 d) as [[c2' v2] t2].
      cbn [fst snd] in IH.
      assert (In1: forall x, In x (t ++ (n, d) :: t1) ->
                     In x (snd (fold_left (tstep f n) l (c1', vs ++ [v1], t ++ (n, d) :: t1)))).
      { intros x Hx. apply tfold_mono. exact Hx. }
      destruct IH as (Ev & Et & Ag').
      + apply (HT n d). apply In1. apply in_or_app. right. left. reflexivity.
      + intros r x Hx. apply (HT r x). apply In1. apply in_or_app. right. right. exact Hx.
      + exact Ag.
      + subst v2 t2. apply IHl; [exact HT|exact Ag'].
  Qed.

  Lemma evalT_det : forall f T, det_ok f T.
  Proof.
    induction f as [|f IH]; intros T c1 c2 n Tn HT Ag.
    - cbn. auto.
    - rewrite evalT_unfold in HT. rewrite !evalT_unfold. rewrite <- (Ag n Tn).
      destruct (isinput n); [cbn [fst snd]; auto|].
      destruct (is_none (c1 n)); [|cbn [fst snd]; auto].
      pose proof (tfold_det f n T (IH T) (deps n) c1 c2 [] []) as H.
      destruct (fold_left (tstep f n) (deps n) (c1, [], [])) as [[c1' vals1] tr1].
      destruct (fold_left (tstep f n) (deps n) (c2, [], [])) as [[c2' vals2] tr2].
      cbn [fst snd] in *. destruct (H HT Ag) as (Ev & Et & Ag'). subst vals2 tr2.
      split; [reflexivity|]. split; [reflexivity|].
      intros m Tm. unfold upd. destruct (Nat.eqb m n); [reflexivity|apply Ag', Tm].
  Qed.

  Theorem trace_determines f (c1 c2 : cache) n : c1 n = c2 n ->
    (forall r d, In (r, d) (snd (evalT f c1 n)) -> c1 d = c2 d) ->
    snd (eval f c2 n) = snd (eval f c1 n) /\ snd (evalT f c2 n) = snd (evalT f c1 n).
  Proof.
    intros En Ed. rewrite <- !evalT_eval.
    destruct (evalT_det f (fun m => m = n \/ exists r, In (r, m) (snd (evalT f c1 n))) c1 c2 n)
      as (Ev & Et & _); auto.
    - intros r x Hx. right. exists r. exact Hx.
    - intros m [->|[r Hr]]; [exact En|eapply Ed; eauto].
  Qed.

  (* ---------------------------------------------------------- build *)
  Definition btstep (s : state) (b' : nat -> bool) (acc : cache * rtrace) (m : nat) : cache * rtrace :=
    let '(c, t) := acc in
    if fresh s b' m && isrange m
    then let '(c', _, t') := evalT (S N) c m in (c', t ++ t')
    else (c, t).

  Lemma buildT_unfold s n : build_traced W sem s n =
    let b' := closure W (S N) (st_built s) n in
    let '(c2, tr) := fold_left (btstep s b') (seq 0 N) (build_c1 W s b', []) in
    ({| st_cache := c2; st_built := b' |}, tr).
  Proof. reflexivity. Qed.

  Lemma btfold_fst s b' : forall l acc,
    fst (fold_left (btstep s b') l acc) = fold_left (bstep W sem s b') l (fst acc).
  Proof.
    induction l as [|m l IHl]; intros [c t]; cbn [fold_left]; [reflexivity|].
    rewrite IHl. f_equal. unfold btstep, bstep. cbn [fst].
    destruct (fresh s b' m && isrange m); [|reflexivity].
    pose proof (evalT_eval (S N) c m) as H. destruct (evalT (S N) c m) as [[c' v] t'].
    cbn [fst] in *. rewrite <- H. reflexivity.
  Qed.

  Lemma btfold_edges s b' : forall l acc, (forall r d, In (r, d) (snd acc) -> edge W d r) ->
    forall r d, In (r, d) (snd (fold_left (btstep s b') l acc)) -> edge W d r.
  Proof.
    induction l as [|m l IHl]; intros [c t] Hacc; cbn [fold_left]; [exact Hacc|].
    apply IHl. unfold btstep. destruct (fresh s b' m && isrange m); [|exact Hacc].
    pose proof (fun r d => evalT_edges (S N) c m r d) as H.
    destruct (evalT (S N) c m) as [[c' v] t']. cbn [snd] in *.
    intros r d Hx. apply in_app_or in Hx. destruct Hx as [Hx|Hx]; [eapply Hacc; eauto|].
    apply (H r d Hx).
  Qed.

  Lemma buildT_build s n : fst (build_traced W sem s n) = build W sem s n.
  Proof.
    rewrite buildT_unfold, (build_unfold W sem). cbn zeta.
    set (b' := closure W (S N) (st_built s) n).
    pose proof (btfold_fst s b' (seq 0 N) (build_c1 W s b', [])) as H. cbn [fst] in H.
    destruct (fold_left (btstep s b') (seq 0 N) (build_c1 W s b', [])) as [c2 tr].
    cbn [fst] in *. rewrite H. reflexivity.
  Qed.

  Lemma buildT_edges s n r d : In (r, d) (snd (build_traced W sem s n)) -> edge W d r.
  Proof.
    rewrite buildT_unfold. cbn zeta. set (b' := closure W (S N) (st_built s) n).
    pose proof (btfold_edges s b' (seq 0 N) (build_c1 W s b', []) ltac:(intros ? ? [])) as H.
    destruct (fold_left (btstep s b') (seq 0 N) (build_c1 W s b', [])) as [c2 tr].
    cbn [snd] in *. apply H.
  Qed.

  (* ------------------------------------------------------- evaluate *)
  Lemma evaluateT_evaluate s n : fst (evaluate_traced W sem s n) = evaluate W sem s n.
  Proof.
    unfold evaluate_traced, evaluate. pose proof (buildT_build s n) as HB.
    destruct (build_traced W sem s n) as [s1 t1]. cbn [fst] in HB. subst s1.
    pose proof (evalT_eval (S N) (st_cache (build W sem s n)) n) as HE.
    destruct (evalT (S N) (st_cache (build W sem s n)) n) as [[c v] t2]. cbn [fst] in HE.
    rewrite <- HE. reflexivity.
  Qed.

  Lemma evaluateT_edges s n r d : In (r, d) (snd (evaluate_traced W sem s n)) -> edge W d r.
  Proof.
    unfold evaluate_traced. pose proof (buildT_edges s n r d) as HB.
    destruct (build_traced W sem s n) as [s1 t1]. cbn [snd] in HB.
    pose proof (evalT_edges (S N) (st_cache s1) n r d) as HE.
    destruct (evalT (S N) (st_cache s1) n) as [[c v] t2]. cbn [snd] in *.
    intros H. apply in_app_or in H. destruct H as [H|H]; [auto|apply HE, H].
  Qed.

  (* ----------------------------------------------------- step, run *)
  Lemma stepT_step s o : fst (step_traced W sem s o) = step W sem s o.
  Proof.
    destruct o as [n|a v|n]; cbn [step_traced step].
    - apply evaluateT_evaluate.
    - reflexivity.
    - pose proof (buildT_build s n) as H. destruct (build_traced W sem s n) as [s1 t].
      cbn [fst] in *. rewrite H. reflexivity.
  Qed.

  Lemma stepT_edges s o r d : In (r, d) (snd (step_traced W sem s o)) -> edge W d r.
  Proof.
    destruct o as [n|a v|n]; cbn [step_traced].
    - apply evaluateT_edges.
    - intros [].
    - pose proof (buildT_edges s n r d) as H. destruct (build_traced W sem s n) as [s1 t].
      cbn [snd] in *. exact H.
  Qed.

  Lemma runT_cons s o h : run_traced W sem s (o :: h) =
    (fst (run_traced W sem (fst (fst (step_traced W sem s o))) h),
     (snd (fst (step_traced W sem s o)), snd (step_traced W sem s o))
       :: snd (run_traced W sem (fst (fst (step_traced W sem s o))) h)).
  Proof.
    cbn [run_traced]. destruct (step_traced W sem s o) as [[s1 v] t]. cbn [fst snd].
    destruct (run_traced W sem s1 h); reflexivity.
  Qed.

  (* erasing the traces of a whole history gives Graph.run *)
  Lemma runT_run : forall h s,
    (fst (run_traced W sem s h), map fst (snd (run_traced W sem s h))) = run W sem s h.
  Proof.
    induction h as [|o h IH]; intros s; [reflexivity|].
    rewrite runT_cons. cbn [fst snd map]. cbn [run].
    pose proof (stepT_step s o) as HS. destruct (step W sem s o) as [s1 v].
    destruct (step_traced W sem s o) as [[s1' v'] t]. cbn [fst snd] in *.
    injection HS as -> ->. specialize (IH s1). destruct (run W sem s1 h) as [s2 vs].
    injection IH as -> ->. reflexivity.
  Qed.

  Lemma runT_edges : forall h s v t r d,
    In (v, t) (snd (run_traced W sem s h)) -> In (r, d) t -> edge W d r.
  Proof.
    induction h as [|o h IH]; intros s v t r d; [intros []|].
    rewrite runT_cons. cbn [snd]. intros [E|H] Hx.
    - injection E as _ <-. eapply stepT_edges; eauto.
    - eapply IH; eauto.
  Qed.

  Theorem run_traced_ok : forall h s,
    (fst (run_traced W sem s h), map fst (snd (run_traced W sem s h))) = run W sem s h
    /\ forall v t r d, In (v, t) (snd (run_traced W sem s h)) -> In (r, d) t -> edge W d r.
  Proof. intros h s. split; [apply runT_run|apply runT_edges]. Qed.
End Trace.
