(* Proofs/C10Total.v — totality / type closure of the operators of Model/Ops.v,
   the coercion of text in arithmetic, and the "&" renderings of every scalar.

   What is outside the model (and therefore excluded by a decidable hypothesis
   on the operands):
     arithmetic   a text operand with a non-ASCII character (int()/float() of
                  Unicode digits and spaces is not modelled), an inf/nan spelling
                  or an exponent beyond +-300            [arith_modelled]
     comparison   a text operand with a character whose case mapping is not
                  modelled                              [cmp_modelled, C10Order]
     &            a non-integral float whose repr is outside the modelled domain
                  (more than 15 significant digits, |x| < 1e-4, not a finite
                  decimal)                                     [concat_modelled]
     ^            a non-integral exponent with a non-negative base (the result
                  is irrational in general)                       [pow_modelled] *)
From Coq Require Import ZArith QArith List Bool Lia.
From PV Require Import Lib.Py Proofs.PyTac Proofs.NumLemmas Model.Ops Proofs.C10 Proofs.C10Order.
From PV Require Gen.excelutil.
Import ListNotations.
Open Scope Z_scope.

Definition number (v : pyval) : Prop := match v with VInt _ | VFloat _ => True | _ => False end.
Definition integral (q : Q) : bool := q_eqb (inject_Z (q_trunc q)) q.

Definition t_TRUE : str := [84; 82; 85; 69].
Definition t_FALSE : str := [70; 65; 76; 83; 69].
Definition t_EMPTY : str := [35; 69; 77; 80; 84; 89; 33].

(* ------------------------------------------------------ in_error_codes *)
Lemma in_error_scalar v : scalar v -> exists b, in_error_codes v = Ok b.
Proof.
  destruct v; cbn [scalar]; try contradiction; intros _; unfold in_error_codes, excelutil.c_ERROR_CODES;
    cbn [py_in hashable]; eauto.
Qed.

(* --------------------------------- coerce_to_number(v, convert_all=True) *)
Ltac coerce_run :=
  unfold py_fuel, excelutil.f_is_number, excelutil.f_is_array_arg, excelutil.f_is_address, excelutil.c_EMPTY;
  repeat (progress (py_step; cbn [excelutil.f_coerce_to_number py_float py_str])).

Lemma coerce_none : excelutil.f_coerce_to_number py_fuel VNone (VBool true) = Ok (VInt 0).
Proof. coerce_run. reflexivity. Qed.
Lemma coerce_bool b : excelutil.f_coerce_to_number py_fuel (VBool b) (VBool true) = Ok (VInt (b2z b)).
Proof. destruct b; coerce_run; reflexivity. Qed.
Lemma coerce_int z c : excelutil.f_coerce_to_number py_fuel (VInt z) (VBool c) = Ok (VInt z).
Proof. destruct c; coerce_run; reflexivity. Qed.
Lemma coerce_float q c : excelutil.f_coerce_to_number py_fuel (VFloat q) (VBool c)
  = Ok (if integral q then VInt (q_trunc q) else VFloat q).
Proof.
  unfold integral. destruct c; coerce_run; destruct (q_eqb (inject_Z (q_trunc q)) q); coerce_run; reflexivity.
Qed.

(* ------------------------------------------------- int() / float() of text *)
Lemma py_int_base_cases s : non_ascii s = false ->
  (exists z, py_int_base s 10 = Ok (VInt z)) \/ py_int_base s 10 = Raise ValueError.
Proof.
  intros H. unfold py_int_base. rewrite H.
  match goal with |- context [match ?E with pair _ _ => _ end] => destruct E as [neg t] end.
  cbv zeta.
  match goal with |- context [match ?E with Some _ => _ | None => _ end] => destruct E as [z|] end; eauto.
Qed.

(* float(text) answers a value, ValueError, or is outside the model *)
Definition pf_good (r : res Q) : Prop :=
  match r with Ok _ | Raise ValueError | Raise Unmodelled => True | _ => False end.

Ltac pf_step :=
  first
  [ exact I
  | match goal with |- context [match ?E with pair _ _ => _ end] => destruct E as [? ?] end
  | match goal with |- context [match ?E with Some _ => _ | None => _ end] => destruct E as [[[? ?] ?]|] end
  | match goal with |- context [match ?E with nil => _ | cons _ _ => _ end] => is_var E; destruct E end
  | match goal with |- context [if ?b then _ else _] => destruct b end ].

Lemma parse_float_good s : pf_good (parse_float s).
Proof. unfold parse_float. cbv beta zeta. repeat pf_step. Qed.

Lemma parse_float_raise s e : parse_float s = Raise e -> e = ValueError \/ e = Unmodelled.
Proof.
  intros H. pose proof (parse_float_good s) as G. rewrite H in G.
  destruct e; cbn in G; try contradiction; auto.
Qed.

(* int() accepts only what float() models: digits and single underscores *)
Lemma base_prefix_10 t : base_prefix 10 t = None.
Proof.
  unfold base_prefix. destruct t as [|a l]; [reflexivity|].
  destruct a as [|p|p]; try reflexivity.
  do 6 (destruct p as [p|p|]; try reflexivity). destruct l; reflexivity.
Qed.

Definition dig_or_us (c : Z) : bool := ((48 <=? c) && (c <=? 57)) || (c =? 95).

Lemma digit_val_lt10 c d : digit_val c = Some d -> (d <? 10) = true -> (48 <=? c) && (c <=? 57) = true.
Proof.
  unfold digit_val. destruct ((48 <=? c) && (c <=? 57)); [reflexivity|].
  destruct ((97 <=? c) && (c <=? 122)) eqn:E1.
  - intros H. injection H as <-. intros H. apply Z.ltb_lt in H.
    apply andb_true_iff in E1. destruct E1 as [E1 _]. apply Z.leb_le in E1. lia.
  - destruct ((65 <=? c) && (c <=? 90)) eqn:E2; [|discriminate].
    intros H. injection H as <-. intros H. apply Z.ltb_lt in H.
    apply andb_true_iff in E2. destruct E2 as [E2 _]. apply Z.leb_le in E2. lia.
Qed.

Lemma parse_digits_all t : forall acc pd v, parse_digits 10 t acc pd = Some v -> forallb dig_or_us t = true.
Proof.
  induction t as [|c t IH]; intros acc pd v; cbn [parse_digits forallb]; [reflexivity|].
  unfold dig_or_us at 1. destruct (c =? 95) eqn:E95.
  - rewrite orb_true_r. cbn [andb]. destruct pd; [|discriminate].
    destruct t as [|c' t']; [discriminate|]. apply IH.
  - rewrite orb_false_r. destruct (digit_val c) as [d|] eqn:Ed; [|discriminate].
    destruct (d <? 10) eqn:Elt; [|discriminate].
    rewrite (digit_val_lt10 c d Ed Elt). cbn [andb]. apply IH.
Qed.

Lemma split_digits_all t : forall acc n pd, forallb dig_or_us t = true ->
  split_digits t acc n pd = None \/ exists v m, split_digits t acc n pd = Some (v, m, []).
Proof.
  induction t as [|c t IH]; intros acc n pd; cbn [split_digits forallb]; [eauto|].
  intros H. apply andb_true_iff in H. destruct H as [Hc Ht]. unfold dig_or_us in Hc.
  destruct ((48 <=? c) && (c <=? 57)) eqn:Ed.
  - apply IH. exact Ht.
  - cbn [orb] in Hc. rewrite Hc. destruct pd; [|auto].
    destruct t as [|d t']; [auto|]. destruct ((48 <=? d) && (d <=? 57)); [|auto].
    apply IH. exact Ht.
Qed.

Lemma int_ok_float_modelled s z : non_ascii s = false -> py_int_base s 10 = Ok (VInt z) ->
  parse_float s <> Raise Unmodelled.
Proof.
  intros Hna. unfold py_int_base, parse_float. rewrite Hna.
  match goal with |- context [match ?E with pair _ _ => _ end] => destruct E as [neg t] end.
  cbv zeta. rewrite base_prefix_10.
  destruct (parse_digits 10 t 0 false) as [v|] eqn:Ed; [|discriminate]. intros _.
  pose proof (parse_digits_all t 0 false v Ed) as Hall.
  destruct t as [|c t']; [discriminate|].
  assert (Hc : (c =? 105) || (c =? 73) || (c =? 110) || (c =? 78) = false).
  { cbn [forallb] in Hall. apply andb_true_iff in Hall. destruct Hall as [Hc _]. unfold dig_or_us in Hc.
    apply orb_true_iff in Hc. destruct Hc as [Hc|Hc].
    - apply andb_true_iff in Hc. destruct Hc as [H1 H2]. apply Z.leb_le in H1. apply Z.leb_le in H2.
      repeat (apply orb_false_iff; split); apply Z.eqb_neq; lia.
    - apply Z.eqb_eq in Hc. repeat (apply orb_false_iff; split); apply Z.eqb_neq; lia. }
  rewrite Hc.
  destruct (split_digits_all (c :: t') 0 0 false Hall) as [-> | (ip & ni & ->)]; [discriminate|].
  cbv iota beta. destruct ((ni =? 0) && (0 =? 0)); [discriminate|].
  replace (300 <? Z.abs 0) with false by reflexivity. discriminate.
Qed.

Definition is_logical_text (s : str) : bool :=
  let u := map ascii_upper s in str_eqb u t_TRUE || str_eqb u t_FALSE || str_eqb u t_EMPTY.

Definition text_num (s : str) : res pyval :=
  if is_logical_text s then Ok (VInt (if zlen s =? 4 then 1 else 0))
  else match (if str_contains [46] s then Raise ValueError else py_int_base s 10) with
       | Ok v => Ok v
       | Raise _ =>
           match parse_float s with
           | Ok q => Ok (VFloat q)
           | Raise ValueError => Ok (VStr s)
           | Raise e => Raise e
           end
       end.

Lemma coerce_text s : non_ascii s = false ->
  excelutil.f_coerce_to_number py_fuel (VStr s) (VBool true) = text_num s.
Proof.
  intros Hna. unfold text_num, is_logical_text, t_TRUE, t_FALSE, t_EMPTY.
  coerce_run. unfold str_upper. rewrite Hna. coerce_run.
  rewrite orb_false_r, orb_assoc.
  match goal with |- (if ?b then _ else _) = _ => destruct b end; [reflexivity|].
  destruct (str_contains [46] s); cbn [negb bind].
  - destruct (parse_float s) as [q|e] eqn:E; cbn [bind]; [reflexivity|].
    destruct (parse_float_raise s e E) as [-> | ->]; reflexivity.
  - destruct (py_int_base_cases s Hna) as [(z & ->)| ->]; cbn [bind catches existsb exn_eqb orb]; [reflexivity|].
    destruct (parse_float s) as [q|e] eqn:E; cbn [bind]; [reflexivity|].
    destruct (parse_float_raise s e E) as [-> | ->]; reflexivity.
Qed.

(* a text operand is inside the model of arithmetic iff it is ASCII and is a
   TRUE/FALSE/#EMPTY! spelling or float() of it is inside the model of Lib/Py.v
   (no inf/nan spelling, exponent within +-300) *)
Definition arith_modelled (v : pyval) : bool :=
  match v with
  | VStr s => negb (non_ascii s)
              && (is_logical_text s
                  || match parse_float s with Raise Unmodelled => false | _ => true end)
  | _ => true
  end.

(* what coerce_to_number(_, True) returns for a scalar: a number, or the text
   itself when float() rejects it *)
Definition coerced (v : pyval) : Prop :=
  match v with
  | VInt _ | VFloat _ => True
  | VStr s => parse_float s = Raise ValueError
  | _ => False
  end.
Definition is_num_b (v : pyval) : bool := match v with VInt _ | VFloat _ => true | _ => false end.

Lemma is_number_coerced v : coerced v -> excelutil.f_is_number v = Ok (VBool (is_num_b v)).
Proof.
  destruct v; cbn [coerced]; try contradiction; intros H; unfold excelutil.f_is_number;
    cbn [lift1 bind py_float]; try reflexivity.
  rewrite H. reflexivity.
Qed.

Lemma text_num_coerced s v : non_ascii s = false -> text_num s = Ok v -> coerced v.
Proof.
  intros Hna. unfold text_num. destruct (is_logical_text s); [intros H; injection H as <-; exact I|].
  assert (Hf : match parse_float s with
               | Ok q => Ok (VFloat q) | Raise ValueError => Ok (VStr s) | Raise e => Raise e end = Ok v
               -> coerced v).
  { destruct (parse_float s) as [q|e] eqn:E; [intros H; injection H as <-; exact I|].
    destruct e; try discriminate. intros H. injection H as <-. exact E. }
  destruct (str_contains [46] s); [exact Hf|].
  destruct (py_int_base_cases s Hna) as [(z & ->)| ->]; [intros H; injection H as <-; exact I|exact Hf].
Qed.

Lemma text_num_defined s : arith_modelled (VStr s) = true -> exists v, text_num s = Ok v.
Proof.
  cbn [arith_modelled]. intros H. apply andb_true_iff in H. destruct H as [Hna Hpf].
  apply negb_true_iff in Hna. unfold text_num. destruct (is_logical_text s); [eauto|]. cbn [orb] in Hpf.
  assert (Hf : exists v, match parse_float s with
               | Ok q => Ok (VFloat q) | Raise ValueError => Ok (VStr s) | Raise e => Raise e end = Ok v).
  { destruct (parse_float s) as [q|e] eqn:E; [eauto|].
    destruct (parse_float_raise s e E) as [-> | ->]; [eauto|discriminate]. }
  destruct (str_contains [46] s); [exact Hf|].
  destruct (py_int_base_cases s Hna) as [(z & ->)| ->]; [eauto|exact Hf].
Qed.

Lemma coerce_scalar v : scalar v -> arith_modelled v = true ->
  exists v1, excelutil.f_coerce_to_number py_fuel v (VBool true) = Ok v1 /\ coerced v1.
Proof.
  destruct v; cbn [scalar]; try contradiction; intros _ Hm.
  - rewrite coerce_none. eexists; split; [reflexivity|exact I].
  - rewrite coerce_bool. eexists; split; [reflexivity|exact I].
  - rewrite coerce_int. eexists; split; [reflexivity|exact I].
  - rewrite coerce_float. destruct (integral q); eexists; split; try reflexivity; exact I.
  - destruct (text_num_defined s Hm) as (v & Hv).
    cbn [arith_modelled] in Hm. apply andb_true_iff in Hm. destruct Hm as [Hna _].
    apply negb_true_iff in Hna. rewrite (coerce_text s Hna), Hv.
    eexists; split; [reflexivity|]. eapply text_num_coerced; eauto.
Qed.

(* ------------------------------------------- the arithmetic operators *)
Definition arith_result (v : pyval) : Prop :=
  number v \/ v = excelutil.c_VALUE_ERROR \/ v = excelutil.c_DIV0 \/ v = excelutil.c_NUM_ERROR.

Definition trap (x : res pyval) : res pyval :=
  match x with
  | Raise ZeroDivisionError => Ok excelutil.c_DIV0
  | Raise TypeError => Ok excelutil.c_VALUE_ERROR
  | Raise OverflowError => Ok excelutil.c_NUM_ERROR
  | x => x
  end.

Definition arith_op (o : op) : bool :=
  match o with Add | Sub | Mult | Div | Pow | USub => true | _ => false end.

Lemma fixup_arith l o r l1 r1 :
  in_error_codes l = Ok false -> in_error_codes r = Ok false ->
  excelutil.f_coerce_to_number py_fuel l (VBool true) = Ok l1 ->
  excelutil.f_coerce_to_number py_fuel r (VBool true) = Ok r1 ->
  coerced l1 -> coerced r1 -> arith_op o = true ->
  fixup l o r = match o, is_num_b l1 && is_num_b r1 with
                | USub, _ | _, true => trap (num_apply o l1 r1)
                | _, false => Ok excelutil.c_VALUE_ERROR
                end.
Proof.
  intros Hel Her Hl Hr Cl Cr Ho. unfold fixup. rewrite Hel. cbn [bind]. rewrite Her. cbn [bind].
  destruct o; try discriminate Ho; cbn [is_cmp]; rewrite Hl, Hr; cbn [bind];
    rewrite (is_number_coerced l1 Cl), (is_number_coerced r1 Cr); cbn [bind py_truthy]; unfold trap;
    match goal with |- context [num_apply ?o ?a ?b] => destruct (num_apply o a b) as [?|[]] end; reflexivity.
Qed.

Lemma num_apply_basic o a b : number a -> number b ->
  o = Add \/ o = Sub \/ o = Mult \/ o = Div \/ o = USub ->
  (exists v, num_apply o a b = Ok v /\ number v) \/ num_apply o a b = Raise ZeroDivisionError.
Proof.
  intros Ha Hb Ho.
  destruct a; cbn [number] in Ha; try contradiction; destruct b; cbn [number] in Hb; try contradiction;
    destruct Ho as [->|[->|[->|[->| ->]]]]; cbn [num_apply py_add py_sub py_mul py_neg arith as_num];
    unfold py_sub, py_truediv, mkfloat; cbn [arith as_num];
    try (left; eexists; split; [reflexivity|exact I]);
    match goal with |- context [if ?c then _ else _] => destruct c end;
    try (right; reflexivity); left; eexists; split; try reflexivity; exact I.
Qed.

Lemma is_num_b_number v : is_num_b v = true <-> number v.
Proof. destruct v; cbn; split; intros; try discriminate; try contradiction; auto. Qed.

Definition basic_result (v : pyval) : Prop :=      (* + - * / unary minus: never #NUM! *)
  number v \/ v = excelutil.c_VALUE_ERROR \/ v = excelutil.c_DIV0.
Lemma basic_arith_result v : basic_result v -> arith_result v.
Proof. unfold basic_result, arith_result. intuition. Qed.

Lemma neg_coerced r1 : coerced r1 -> exists v, trap (py_neg r1) = Ok v /\ basic_result v.
Proof.
  destruct r1; cbn [coerced]; try contradiction; intros _; unfold py_neg, mkfloat; cbn [as_num trap];
    eexists; (split; [reflexivity|]); unfold basic_result; cbn [number]; auto.
Qed.

(* + - * / and unary minus never fail on modelled operands *)
Lemma arith_total l o r : scalar l -> scalar r ->
  in_error_codes l = Ok false -> in_error_codes r = Ok false ->
  arith_modelled l = true -> arith_modelled r = true ->
  o = Add \/ o = Sub \/ o = Mult \/ o = Div \/ o = USub ->
  exists v, fixup l o r = Ok v /\ basic_result v.
Proof.
  intros Hsl Hsr Hel Her Hml Hmr Ho.
  destruct (coerce_scalar l Hsl Hml) as (l1 & Hl & Cl).
  destruct (coerce_scalar r Hsr Hmr) as (r1 & Hr & Cr).
  assert (Hao : arith_op o = true) by (destruct Ho as [->|[->|[->|[->| ->]]]]; reflexivity).
  rewrite (fixup_arith l o r l1 r1 Hel Her Hl Hr Cl Cr Hao).
  assert (Hu : o = USub -> exists v, trap (num_apply o l1 r1) = Ok v /\ basic_result v).
  { intros ->. cbn [num_apply]. apply neg_coerced. exact Cr. }
  destruct (is_num_b l1 && is_num_b r1) eqn:Eb.
  - assert (Hn : exists v, trap (num_apply o l1 r1) = Ok v /\ basic_result v).
    { apply andb_true_iff in Eb. destruct Eb as [Nl Nr].
      apply is_num_b_number in Nl. apply is_num_b_number in Nr.
      destruct (num_apply_basic o l1 r1 Nl Nr Ho) as [(v & -> & Hv)| ->]; cbn [trap].
      - exists v. split; [reflexivity|left; exact Hv].
      - eexists. split; [reflexivity|]. right. right. reflexivity. }
    destruct o; exact Hn.
  - destruct Ho as [->|[->|[->|[->| ->]]]];
      try (eexists; split; [reflexivity|right; left; reflexivity]).
    apply Hu. reflexivity.
Qed.

(* ^ : outside the model exactly when both operands are numbers, the exponent
   is a non-integral float and the base is not negative *)
Definition pow_modelled (l1 r1 : pyval) : bool :=
  match r1 with
  | VFloat q => negb (is_num_b l1) || (Zpos (Qden (Qred q)) =? 1) || neg_frac_pow l1 r1
  | _ => true
  end.

Lemma pow_cases a b : number a -> number b -> pow_modelled a b = true ->
  (exists v, num_apply Pow a b = Ok v /\ (number v \/ v = excelutil.c_NUM_ERROR))
  \/ num_apply Pow a b = Raise ZeroDivisionError.
Proof.
  intros Ha Hb Hm. cbn [num_apply].
  destruct (neg_frac_pow a b) eqn:En; [left; eexists; split; [reflexivity|right; reflexivity]|].
  destruct a; cbn [number] in Ha; try contradiction; destruct b; cbn [number] in Hb; try contradiction;
    unfold py_pow, mkfloat; cbn [as_num num_q];
    cbn [pow_modelled is_num_b negb orb] in Hm; try rewrite En in Hm; try rewrite orb_false_r in Hm;
    try rewrite Hm;
    repeat match goal with |- context [if ?c then _ else _] => destruct c end;
    try (right; reflexivity); left; eexists; (split; [reflexivity|left; exact I]).
Qed.

Lemma pow_unmodelled a b : number a -> number b -> pow_modelled a b = false ->
  num_apply Pow a b = Raise Unmodelled.
Proof.
  intros Ha Hb Hm. cbn [num_apply].
  destruct b; cbn [number pow_modelled] in *; try contradiction; try discriminate.
  apply orb_false_iff in Hm. destruct Hm as [Hm ->]. apply orb_false_iff in Hm. destruct Hm as [_ Hd].
  destruct a; cbn [number] in Ha; try contradiction; unfold py_pow; cbn [as_num]; rewrite Hd; reflexivity.
Qed.

Lemma pow_total l r : scalar l -> scalar r ->
  in_error_codes l = Ok false -> in_error_codes r = Ok false ->
  arith_modelled l = true -> arith_modelled r = true ->
  exists l1 r1,
    excelutil.f_coerce_to_number py_fuel l (VBool true) = Ok l1 /\ coerced l1
    /\ excelutil.f_coerce_to_number py_fuel r (VBool true) = Ok r1 /\ coerced r1
    /\ (pow_modelled l1 r1 = true -> exists v, fixup l Pow r = Ok v /\ arith_result v)
    /\ (pow_modelled l1 r1 = false -> fixup l Pow r = Raise Unmodelled).
Proof.
  intros Hsl Hsr Hel Her Hml Hmr.
  destruct (coerce_scalar l Hsl Hml) as (l1 & Hl & Cl).
  destruct (coerce_scalar r Hsr Hmr) as (r1 & Hr & Cr).
  exists l1, r1. repeat (split; [assumption|]).
  rewrite (fixup_arith l Pow r l1 r1 Hel Her Hl Hr Cl Cr eq_refl).
  destruct (is_num_b l1 && is_num_b r1) eqn:Eb.
  - apply andb_true_iff in Eb. destruct Eb as [Nl Nr].
    apply is_num_b_number in Nl. apply is_num_b_number in Nr. split; intros Hm.
    + destruct (pow_cases l1 r1 Nl Nr Hm) as [(v & -> & Hv)| ->]; cbn [trap].
      * exists v. split; [reflexivity|]. destruct Hv as [Hv| ->]; [left; exact Hv|].
        right. right. right. reflexivity.
      * eexists. split; [reflexivity|]. right. right. left. reflexivity.
    + rewrite (pow_unmodelled l1 r1 Nl Nr Hm). reflexivity.
  - split; intros Hm.
    + eexists. split; [reflexivity|]. right. left. reflexivity.
    + exfalso. destruct r1; cbn [pow_modelled] in Hm; try discriminate.
      cbn [is_num_b] in Eb. rewrite andb_true_r in Eb. rewrite Eb in Hm. discriminate.
Qed.

(* ------------------------------------------------------- comparisons *)
Lemma tcv_shape_m v : scalar v -> in_error_codes v = Ok false ->
  exists t d, excelutil.f_type_cmp_value v = Ok (VTuple [VInt t; d])
              /\ scalar d /\ d <> VNone /\ in_error_codes d = Ok false /\ cmp_modelled d = true.
Proof.
  intros Hs He. destruct v; cbn [scalar] in Hs; try contradiction.
  - exists 0, (VFloat 0). rewrite tcv_none. repeat split; discriminate.
  - exists 2, (VBool false). rewrite tcv_bool. repeat split; discriminate.
  - exists 0, (VFloat 0). rewrite tcv_int. repeat split; discriminate.
  - exists 0, (VFloat 0). rewrite tcv_float. repeat split; discriminate.
  - exists 1, (VStr []). rewrite (tcv_str s He). repeat split; discriminate.
Qed.

Lemma cmp_keys_defined l r : scalar l -> scalar r ->
  in_error_codes l = Ok false -> in_error_codes r = Ok false ->
  cmp_modelled l = true -> cmp_modelled r = true ->
  exists ks, cmp_keys l r = Ok ks.
Proof.
  intros Hsl Hsr Hel Her Hml Hmr. unfold cmp_keys.
  destruct (tcv_shape_m r Hsr Her) as (tr & dr & Htr & Hdr1 & Hdr2 & Hdr3 & Hdr4).
  rewrite Htr. cbn [bind].
  assert (Hl1 : exists l1, (if is_blank l then py_getitem (VTuple [VInt tr; dr]) (VInt 1) else Ok l) = Ok l1
                           /\ scalar l1 /\ l1 <> VNone /\ in_error_codes l1 = Ok false
                           /\ cmp_modelled l1 = true).
  { destruct (is_blank l) eqn:Eb.
    - exists dr. cbn [py_getitem as_index]. rewrite index_nth_1. auto.
    - exists l. repeat split; auto. apply not_blank_not_none. exact Eb. }
  destruct Hl1 as (l1 & -> & Hs1 & Hn1 & He1 & Hm1). cbn [bind].
  destruct (tcv_shape_m l1 Hs1 He1) as (tl & dl & Htl & Hdl1 & Hdl2 & Hdl3 & Hdl4).
  rewrite Htl. cbn [bind].
  assert (Hr1 : exists r1, (if is_blank r then py_getitem (VTuple [VInt tl; dl]) (VInt 1) else Ok r) = Ok r1
                           /\ scalar r1 /\ r1 <> VNone /\ in_error_codes r1 = Ok false
                           /\ cmp_modelled r1 = true).
  { destruct (is_blank r) eqn:Eb.
    - exists dl. cbn [py_getitem as_index]. rewrite index_nth_1. auto.
    - exists r. repeat split; auto. apply not_blank_not_none. exact Eb. }
  destruct Hr1 as (r1 & -> & Hs2 & Hn2 & He2 & Hm2). cbn [bind].
  rewrite (excel_cmp_key_of l1 Hs1 Hn1 He1), (excel_cmp_key_of r1 Hs2 Hn2 He2).
  destruct (key_of_defined l1 Hs1 Hn1 Hm1) as (k1 & ->).
  destruct (key_of_defined r1 Hs2 Hn2 Hm2) as (k2 & ->). cbn [bind]. eauto.
Qed.

Lemma cmp_total l o r : scalar l -> scalar r ->
  in_error_codes l = Ok false -> in_error_codes r = Ok false ->
  cmp_modelled l = true -> cmp_modelled r = true -> is_cmp o = true ->
  exists b, fixup l o r = Ok (VBool b).
Proof.
  intros Hsl Hsr Hel Her Hml Hmr Ho.
  destruct (cmp_keys_defined l r Hsl Hsr Hel Her Hml Hmr) as (ks & Hk).
  destruct (trichotomy l r ks Hsl Hsr Hel Her Hk) as (lt & eq & gt & H1 & H2 & H3 & _ & H5 & H6 & H7).
  destruct o; try discriminate Ho; eauto.
Qed.

(* an unmodelled text is neither blank nor an error value *)
Lemma unmodelled_text v : scalar v -> cmp_modelled v = false ->
  exists s, v = VStr s /\ non_ascii s = true /\ case_ok s = false.
Proof.
  destruct v; cbn [scalar cmp_modelled]; try contradiction; try discriminate. intros _ H.
  exists s. apply orb_false_iff in H. destruct H as [H1 H2]. apply negb_false_iff in H1. auto.
Qed.
Lemma non_ascii_not_blank s : non_ascii s = true -> is_blank (VStr s) = false.
Proof.
  intros H. destruct (is_blank (VStr s)) eqn:E; [|reflexivity].
  cbn [is_blank py_eq] in E. unfold excelutil.c_EMPTY in E. cbn [py_eq] in E.
  apply str_eqb_eq in E. subst s. discriminate.
Qed.

Lemma cmp_unmodelled l o r : scalar l -> scalar r ->
  in_error_codes l = Ok false -> in_error_codes r = Ok false -> is_cmp o = true ->
  cmp_modelled l = false \/ cmp_modelled r = false ->
  fixup l o r = Raise Unmodelled.
Proof.
  intros Hsl Hsr Hel Her Ho Hm. unfold fixup. rewrite Hel. cbn [bind]. rewrite Her. cbn [bind]. rewrite Ho.
  assert (Hk : cmp_keys l r = Raise Unmodelled); [|rewrite Hk; reflexivity].
  unfold cmp_keys.
  destruct (tcv_shape_m r Hsr Her) as (tr & dr & Htr & Hdr1 & Hdr2 & Hdr3 & Hdr4).
  rewrite Htr. cbn [bind].
  assert (Hl1 : exists l1, (if is_blank l then py_getitem (VTuple [VInt tr; dr]) (VInt 1) else Ok l) = Ok l1
                           /\ scalar l1 /\ l1 <> VNone /\ in_error_codes l1 = Ok false
                           /\ cmp_modelled l1 = cmp_modelled l).
  { destruct (is_blank l) eqn:Eb.
    - exists dr. cbn [py_getitem as_index]. rewrite index_nth_1. repeat split; auto.
      destruct (cmp_modelled l) eqn:El; [exact Hdr4|].
      destruct (unmodelled_text l Hsl El) as (s & -> & Hna & _).
      rewrite (non_ascii_not_blank s Hna) in Eb. discriminate.
    - exists l. repeat split; auto. apply not_blank_not_none. exact Eb. }
  destruct Hl1 as (l1 & -> & Hs1 & Hn1 & He1 & Hm1). cbn [bind].
  destruct (tcv_shape_m l1 Hs1 He1) as (tl & dl & Htl & Hdl1 & Hdl2 & Hdl3 & Hdl4).
  rewrite Htl. cbn [bind].
  assert (Hr1 : exists r1, (if is_blank r then py_getitem (VTuple [VInt tl; dl]) (VInt 1) else Ok r) = Ok r1
                           /\ scalar r1 /\ r1 <> VNone /\ in_error_codes r1 = Ok false
                           /\ cmp_modelled r1 = cmp_modelled r).
  { destruct (is_blank r) eqn:Eb.
    - exists dl. cbn [py_getitem as_index]. rewrite index_nth_1. repeat split; auto.
      destruct (cmp_modelled r) eqn:Er; [exact Hdl4|].
      destruct (unmodelled_text r Hsr Er) as (s & -> & Hna & _).
      rewrite (non_ascii_not_blank s Hna) in Eb. discriminate.
    - exists r. repeat split; auto. apply not_blank_not_none. exact Eb. }
  destruct Hr1 as (r1 & -> & Hs2 & Hn2 & He2 & Hm2). cbn [bind].
  rewrite (excel_cmp_key_of l1 Hs1 Hn1 He1), (excel_cmp_key_of r1 Hs2 Hn2 He2).
  destruct (cmp_modelled l) eqn:El.
  - destruct Hm as [Hm|Hm]; [discriminate|]. rewrite Hm in Hm2.
    destruct (key_of_defined l1 Hs1 Hn1 Hm1) as (k1 & ->). cbn [bind].
    rewrite (key_of_undefined r1 Hs2 Hn2 Hm2). reflexivity.
  - rewrite (key_of_undefined l1 Hs1 Hn1 Hm1). reflexivity.
Qed.

(* ------------------------------------------------------------------- & *)
(* the Excel rendering of a scalar, written independently of the code:
   blank as empty, TRUE/FALSE, integers and integral floats without ".0",
   other floats as Python's repr, text unchanged *)
Definition xl_render (v : pyval) : res str :=
  if is_blank v then Ok [] else
  match v with
  | VBool b => Ok (if b then t_TRUE else t_FALSE)
  | VInt z => Ok (str_of_Z z)
  | VFloat q => if integral q then Ok (str_of_Z (q_trunc q)) else float_repr q
  | VStr s => Ok s
  | _ => Raise Unmodelled
  end.

Lemma concat_render_spec v : scalar v -> concat_render v = (s <- xl_render v ;; Ok (VStr s)).
Proof.
  intros Hs. unfold concat_render, xl_render. destruct (is_blank v) eqn:Eb; [reflexivity|].
  destruct v; cbn [scalar] in Hs; try contradiction.
  - discriminate Eb.
  - destruct b; reflexivity.
  - rewrite coerce_int. reflexivity.
  - rewrite coerce_float. destruct (integral q); cbn [lift1 bind py_str]; [reflexivity|].
    destruct (float_repr q); reflexivity.
  - reflexivity.
Qed.

Lemma concat_spec l r : scalar l -> scalar r ->
  in_error_codes l = Ok false -> in_error_codes r = Ok false ->
  fixup l BitAnd r = (a <- xl_render l ;; b <- xl_render r ;; Ok (VStr (a ++ b))).
Proof.
  intros Hsl Hsr Hel Her. unfold fixup. rewrite Hel. cbn [bind]. rewrite Her. cbn [bind is_cmp].
  rewrite (concat_render_spec l Hsl), (concat_render_spec r Hsr).
  destruct (xl_render l) as [a|e]; cbn [bind]; [|reflexivity].
  destruct (xl_render r) as [b|e]; cbn [bind]; reflexivity.
Qed.

Definition concat_modelled (v : pyval) : bool :=
  match v with
  | VFloat q => integral q || match float_repr q with Ok _ => true | Raise _ => false end
  | _ => true
  end.

Lemma float_repr_raise q e : float_repr q = Raise e -> e = Unmodelled.
Proof.
  unfold float_repr.
  repeat match goal with
         | |- context [match ?E with pair _ _ => _ end] => destruct E as [? ?]
         | |- context [if ?b then _ else _] => destruct b
         end; congruence.
Qed.

Lemma xl_render_defined v : scalar v -> concat_modelled v = true -> exists s, xl_render v = Ok s.
Proof.
  intros Hs Hm. unfold xl_render. destruct (is_blank v) eqn:Eb; [eauto|].
  destruct v; cbn [scalar] in Hs; try contradiction; try discriminate Eb; eauto.
  cbn [concat_modelled] in Hm. destruct (integral q); [eauto|]. cbn [orb] in Hm.
  destruct (float_repr q); [eauto|discriminate].
Qed.
Lemma xl_render_undefined v : scalar v -> concat_modelled v = false -> xl_render v = Raise Unmodelled.
Proof.
  intros Hs Hm. destruct v; cbn [scalar concat_modelled] in *; try contradiction; try discriminate.
  apply orb_false_iff in Hm. destruct Hm as [Hi Hf]. unfold xl_render. cbn [is_blank py_eq as_num].
  replace (py_eq (VFloat q) excelutil.c_EMPTY) with false by reflexivity. rewrite Hi.
  destruct (float_repr q) as [s|e] eqn:E; [discriminate|]. rewrite (float_repr_raise q e E). reflexivity.
Qed.

Lemma concat_total l r : scalar l -> scalar r ->
  in_error_codes l = Ok false -> in_error_codes r = Ok false ->
  concat_modelled l = true -> concat_modelled r = true ->
  exists s, fixup l BitAnd r = Ok (VStr s).
Proof.
  intros Hsl Hsr Hel Her Hml Hmr. rewrite (concat_spec l r Hsl Hsr Hel Her).
  destruct (xl_render_defined l Hsl Hml) as (a & ->). destruct (xl_render_defined r Hsr Hmr) as (b & ->).
  cbn [bind]. eauto.
Qed.
Lemma concat_unmodelled l r : scalar l -> scalar r ->
  in_error_codes l = Ok false -> in_error_codes r = Ok false ->
  concat_modelled l = false \/ concat_modelled r = false ->
  fixup l BitAnd r = Raise Unmodelled.
Proof.
  intros Hsl Hsr Hel Her Hm. rewrite (concat_spec l r Hsl Hsr Hel Her).
  destruct (concat_modelled l) eqn:El.
  - destruct Hm as [Hm|Hm]; [discriminate|].
    destruct (xl_render_defined l Hsl El) as (a & ->). cbn [bind].
    rewrite (xl_render_undefined r Hsr Hm). reflexivity.
  - rewrite (xl_render_undefined l Hsl El). reflexivity.
Qed.

(* integral floats render without ".0", whatever their magnitude *)
Lemma integral_inject q z : (q == inject_Z z)%Q -> integral q = true /\ q_trunc q = z.
Proof.
  intros H. assert (Ht : q_trunc q = z) by (rewrite (q_trunc_comp q (inject_Z z) H); apply q_trunc_inject).
  split; [|exact Ht]. unfold integral. rewrite Ht. apply q_eqb_eq. symmetry. exact H.
Qed.
Lemma render_integral_float q z : (q == inject_Z z)%Q -> xl_render (VFloat q) = Ok (str_of_Z z).
Proof.
  intros H. destruct (integral_inject q z H) as [Hi Ht]. unfold xl_render.
  replace (is_blank (VFloat q)) with false by reflexivity. rewrite Hi, Ht. reflexivity.
Qed.
Lemma concat_integral_float q z r b : (q == inject_Z z)%Q -> scalar r ->
  in_error_codes r = Ok false -> xl_render r = Ok b ->
  fixup (VFloat q) BitAnd r = Ok (VStr (str_of_Z z ++ b))
  /\ fixup r BitAnd (VFloat q) = Ok (VStr (b ++ str_of_Z z)).
Proof.
  intros H Hs He Hb.
  rewrite (concat_spec (VFloat q) r I Hs eq_refl He), (concat_spec r (VFloat q) Hs I He eq_refl).
  rewrite (render_integral_float q z H), Hb. split; reflexivity.
Qed.

(* ------------------------- arithmetic depends only on the exact values *)
Definition q_op (o : op) (x y : Q) : option Q :=
  match o with
  | Add => Some (x + y)%Q
  | Sub => Some (x - y)%Q
  | Mult => Some (x * y)%Q
  | Div => if q_is_zero y then None else Some (x / y)%Q
  | _ => None
  end.

Lemma number_numeric v : number v -> numeric v.
Proof. destruct v; cbn; auto. Qed.

Lemma q_is_zero_comp x y : (x == y)%Q -> q_is_zero x = q_is_zero y.
Proof.
  intros H. destruct (q_is_zero x) eqn:Ex; destruct (q_is_zero y) eqn:Ey; try reflexivity.
  - apply q_is_zero_spec in Ex. rewrite H in Ex. apply q_is_zero_spec in Ex. congruence.
  - apply q_is_zero_spec in Ey. rewrite <- H in Ey. apply q_is_zero_spec in Ey. congruence.
Qed.

Lemma num_apply_value o a b : number a -> number b -> arith o ->
  match q_op o (qv a) (qv b) with
  | Some q => exists v, num_apply o a b = Ok v /\ number v /\ (qv v == q)%Q
  | None => num_apply o a b = Raise ZeroDivisionError
  end.
Proof.
  intros Ha Hb Ho.
  assert (Na := number_numeric a Ha). assert (Nb := number_numeric b Hb).
  assert (Hbasic : forall o', o' = o -> o' = Add \/ o' = Sub \/ o' = Mult \/ o' = Div \/ o' = USub).
  { intros o' ->. destruct Ho as [->|[->|[->| ->]]]; auto. }
  destruct Ho as [->|[->|[->| ->]]]; cbn [q_op num_apply].
  - destruct (py_add_num a b Na Nb) as (v & Hv & _ & Qv).
    destruct (num_apply_basic Add a b Ha Hb (Hbasic _ eq_refl)) as [(v' & Hv' & Nv')|Hz];
      cbn [num_apply] in *; [|congruence].
    exists v. rewrite Hv in Hv'. injection Hv' as <-. auto.
  - destruct (py_sub_num a b Na Nb) as (v & Hv & _ & Qv).
    destruct (num_apply_basic Sub a b Ha Hb (Hbasic _ eq_refl)) as [(v' & Hv' & Nv')|Hz];
      cbn [num_apply] in *; [|congruence].
    exists v. rewrite Hv in Hv'. injection Hv' as <-. auto.
  - destruct (py_mul_num a b Na Nb) as (v & Hv & _ & Qv).
    destruct (num_apply_basic Mult a b Ha Hb (Hbasic _ eq_refl)) as [(v' & Hv' & Nv')|Hz];
      cbn [num_apply] in *; [|congruence].
    exists v. rewrite Hv in Hv'. injection Hv' as <-. auto.
  - destruct (q_is_zero (qv b)) eqn:Ez.
    + apply q_is_zero_spec in Ez. apply py_truediv_zero; assumption.
    + assert (Hnz : ~ (qv b == 0)%Q).
      { intros E. apply q_is_zero_spec in E. congruence. }
      rewrite (py_truediv_num a b Na Nb Hnz). eexists. split; [reflexivity|].
      split; [exact I|apply qv_mkfloat].
Qed.

(* equality of results up to the kind of number (Excel has one number type:
   4 and 4.0 are the same value) *)
Definition res_eqv (a b : res pyval) : Prop :=
  match a, b with
  | Ok x, Ok y => x = y \/ (number x /\ number y /\ (qv x == qv y)%Q)
  | Raise e, Raise e' => e = e'
  | _, _ => False
  end.

(* two operands that stand for the same number (or are the same non-number) *)
Definition same_coerced (a a' : pyval) : Prop :=
  (number a /\ number a' /\ (qv a == qv a')%Q) \/ (a = a' /\ is_num_b a = false).

Lemma q_op_comp o x x' y y' : (x == x')%Q -> (y == y')%Q ->
  match q_op o x y, q_op o x' y' with
  | Some p, Some p' => (p == p')%Q
  | None, None => True
  | _, _ => False
  end.
Proof.
  intros Hx Hy. destruct o; cbn [q_op]; try exact I; try (rewrite Hx, Hy; reflexivity).
  rewrite (q_is_zero_comp y y' Hy). destruct (q_is_zero y'); [exact I|]. rewrite Hx, Hy. reflexivity.
Qed.

Lemma arith_congr l l' r r' l1 l1' r1 r1' o : arith o ->
  in_error_codes l = Ok false -> in_error_codes l' = Ok false ->
  in_error_codes r = Ok false -> in_error_codes r' = Ok false ->
  excelutil.f_coerce_to_number py_fuel l (VBool true) = Ok l1 ->
  excelutil.f_coerce_to_number py_fuel l' (VBool true) = Ok l1' ->
  excelutil.f_coerce_to_number py_fuel r (VBool true) = Ok r1 ->
  excelutil.f_coerce_to_number py_fuel r' (VBool true) = Ok r1' ->
  coerced l1 -> coerced l1' -> coerced r1 -> coerced r1' ->
  same_coerced l1 l1' -> same_coerced r1 r1' ->
  res_eqv (fixup l o r) (fixup l' o r').
Proof.
  intros Ho Hel Hel' Her Her' Hl Hl' Hr Hr' Cl Cl' Cr Cr' Sl Sr.
  assert (Hao : arith_op o = true) by (destruct Ho as [->|[->|[->| ->]]]; reflexivity).
  rewrite (fixup_arith l o r l1 r1 Hel Her Hl Hr Cl Cr Hao).
  rewrite (fixup_arith l' o r' l1' r1' Hel' Her' Hl' Hr' Cl' Cr' Hao).
  assert (Hb : is_num_b l1' = is_num_b l1 /\ is_num_b r1' = is_num_b r1).
  { split.
    - destruct Sl as [(A & B & _)|(<- & _)]; [|reflexivity].
      apply is_num_b_number in A. apply is_num_b_number in B. congruence.
    - destruct Sr as [(A & B & _)|(<- & _)]; [|reflexivity].
      apply is_num_b_number in A. apply is_num_b_number in B. congruence. }
  destruct Hb as [-> ->].
  assert (Hnum : is_num_b l1 && is_num_b r1 = true ->
                 res_eqv (trap (num_apply o l1 r1)) (trap (num_apply o l1' r1'))).
  { intros Eb. apply andb_true_iff in Eb. destruct Eb as [Nl Nr].
    destruct Sl as [(Al & Al' & Ql)|(_ & F)]; [|congruence].
    destruct Sr as [(Ar & Ar' & Qr)|(_ & F)]; [|congruence].
    pose proof (num_apply_value o l1 r1 Al Ar Ho) as V.
    pose proof (num_apply_value o l1' r1' Al' Ar' Ho) as V'.
    pose proof (q_op_comp o (qv l1) (qv l1') (qv r1) (qv r1') Ql Qr) as Hc.
    destruct (q_op o (qv l1) (qv r1)) as [p|]; destruct (q_op o (qv l1') (qv r1')) as [p'|];
      try contradiction.
    - destruct V as (v & -> & Nv & Qv). destruct V' as (v' & -> & Nv' & Qv'). cbn [trap res_eqv].
      right. repeat split; auto. rewrite Qv, Qv'. exact Hc.
    - rewrite V, V'. cbn [trap res_eqv]. left. reflexivity. }
  destruct (is_num_b l1 && is_num_b r1) eqn:Eb.
  - destruct Ho as [->|[->|[->| ->]]]; apply Hnum; reflexivity.
  - destruct Ho as [->|[->|[->| ->]]]; cbn [res_eqv]; left; reflexivity.
Qed.

Lemma same_coerced_refl v : coerced v -> same_coerced v v.
Proof.
  destruct v; cbn [coerced]; try contradiction; intros _.
  - left. repeat split. - left. repeat split. - right. split; reflexivity.
Qed.

(* re-coercing a number does not change its value *)
Lemma coerce_number n : number n ->
  exists n', excelutil.f_coerce_to_number py_fuel n (VBool true) = Ok n' /\ coerced n'
             /\ same_coerced n n'.
Proof.
  destruct n; cbn [number]; try contradiction; intros _.
  - rewrite coerce_int. eexists. split; [reflexivity|]. split; [exact I|]. left. repeat split.
  - rewrite coerce_float. destruct (integral q) eqn:E.
    + eexists. split; [reflexivity|]. split; [exact I|]. left. repeat split.
      unfold integral in E. apply q_eqb_eq in E. unfold qv. cbn [as_num num_q]. symmetry. exact E.
    + eexists. split; [reflexivity|]. split; [exact I|]. left. repeat split.
Qed.

Lemma number_not_error n : number n -> in_error_codes n = Ok false.
Proof. destruct n; cbn [number]; try contradiction; reflexivity. Qed.

(* TEXT IN ARITHMETIC, numeric text: the text behaves as the number the model's
   parser [text_num] reads from it — on either side, against any modelled scalar *)
Lemma text_as_number s n o r : arith o -> non_ascii s = false ->
  in_error_codes (VStr s) = Ok false -> text_num s = Ok n -> number n ->
  scalar r -> arith_modelled r = true ->
  res_eqv (fixup (VStr s) o r) (fixup n o r) /\ res_eqv (fixup r o (VStr s)) (fixup r o n).
Proof.
  intros Ho Hna He Ht Nn Hsr Hmr.
  assert (Hcs : excelutil.f_coerce_to_number py_fuel (VStr s) (VBool true) = Ok n)
    by (rewrite (coerce_text s Hna); exact Ht).
  destruct (coerce_number n Nn) as (n' & Hcn & Cn' & Sn).
  assert (Cn : coerced n) by (destruct n; cbn [number] in Nn; try contradiction; exact I).
  assert (Hen := number_not_error n Nn).
  destruct (in_error_scalar r Hsr) as ([|] & Her).
  - split.
    + rewrite (error_right (VStr s) o r He Her), (error_right n o r Hen Her). left. reflexivity.
    + rewrite !(error_left r o _ Her). left. reflexivity.
  - destruct (coerce_scalar r Hsr Hmr) as (r1 & Hr & Cr). split.
    + apply (arith_congr (VStr s) n r r n n' r1 r1 o); auto using same_coerced_refl.
    + apply (arith_congr r r (VStr s) n r1 r1 n n' o); auto using same_coerced_refl.
Qed.

(* TEXT IN ARITHMETIC, other text: #VALUE! (also for ^), unless the other
   operand is an error value *)
Definition binary_arith (o : op) : Prop := o = Add \/ o = Sub \/ o = Mult \/ o = Div \/ o = Pow.

Lemma text_not_number s o r : binary_arith o -> non_ascii s = false ->
  in_error_codes (VStr s) = Ok false -> text_num s = Ok (VStr s) ->
  scalar r -> in_error_codes r = Ok false -> arith_modelled r = true ->
  fixup (VStr s) o r = Ok excelutil.c_VALUE_ERROR /\ fixup r o (VStr s) = Ok excelutil.c_VALUE_ERROR.
Proof.
  intros Ho Hna He Ht Hsr Her Hmr.
  assert (Hcs : excelutil.f_coerce_to_number py_fuel (VStr s) (VBool true) = Ok (VStr s))
    by (rewrite (coerce_text s Hna); exact Ht).
  assert (Cs : coerced (VStr s)) by (apply (text_num_coerced s _ Hna Ht)).
  destruct (coerce_scalar r Hsr Hmr) as (r1 & Hr & Cr).
  assert (Hao : arith_op o = true) by (destruct Ho as [->|[->|[->|[->| ->]]]]; reflexivity).
  rewrite (fixup_arith (VStr s) o r (VStr s) r1 He Her Hcs Hr Cs Cr Hao).
  rewrite (fixup_arith r o (VStr s) r1 (VStr s) Her He Hr Hcs Cr Cs Hao).
  cbn [is_num_b andb]. rewrite andb_false_r.
  destruct Ho as [->|[->|[->|[->| ->]]]]; split; reflexivity.
Qed.

(* ------------------------------------------- TOTALITY / TYPE CLOSURE *)
Definition op_modelled (o : op) (v : pyval) : bool :=
  if is_cmp o then cmp_modelled v
  else match o with BitAnd => concat_modelled v | _ => arith_modelled v end.

(* the kind of value each operator returns *)
Definition result_ok (o : op) (v : pyval) : Prop :=
  if is_cmp o then exists b, v = VBool b
  else match o with BitAnd => exists s, v = VStr s | _ => basic_result v end.

Lemma total l o r : scalar l -> scalar r ->
  in_error_codes l = Ok false -> in_error_codes r = Ok false -> o <> Pow ->
  op_modelled o l = true -> op_modelled o r = true ->
  exists v, fixup l o r = Ok v /\ result_ok o v.
Proof.
  intros Hsl Hsr Hel Her Ho Hml Hmr. unfold op_modelled, result_ok in *.
  destruct (is_cmp o) eqn:Ec.
  - destruct (cmp_total l o r Hsl Hsr Hel Her Hml Hmr Ec) as (b & Hb). eauto.
  - destruct o; try discriminate Ec; try congruence.
    + apply arith_total; auto.
    + apply arith_total; auto.
    + apply arith_total; auto.
    + apply arith_total; auto.
    + destruct (concat_total l r Hsl Hsr Hel Her Hml Hmr) as (s & Hs). eauto.
    + apply arith_total; auto 6.
Qed.

(* a value of Excel: number, text (the error values are text), logical *)
Definition xl_value (v : pyval) : Prop :=
  match v with VBool _ | VInt _ | VFloat _ | VStr _ => True | _ => False end.

Lemma result_ok_value o v : result_ok o v -> xl_value v.
Proof.
  unfold result_ok. destruct (is_cmp o); [intros (b & ->); exact I|].
  assert (H : basic_result v -> xl_value v).
  { intros [H|[->| ->]]; try exact I. destruct v; cbn in *; auto. }
  destruct o; auto. intros (s & ->). exact I.
Qed.

Lemma closed l o r : scalar l -> scalar r -> o <> Pow ->
  op_modelled o l = true -> op_modelled o r = true ->
  exists v, fixup l o r = Ok v /\ xl_value v.
Proof.
  intros Hsl Hsr Ho Hml Hmr.
  assert (Hv : forall x, scalar x -> in_error_codes x = Ok true -> xl_value x).
  { intros x Hx He. destruct x; cbn [scalar] in Hx; try contradiction; try exact I; discriminate He. }
  destruct (in_error_scalar l Hsl) as ([|] & Hel).
  - exists l. split; [apply error_left; exact Hel|apply Hv; assumption].
  - destruct (in_error_scalar r Hsr) as ([|] & Her).
    + exists r. split; [apply error_right; assumption|apply Hv; assumption].
    + destruct (total l o r Hsl Hsr Hel Her Ho Hml Hmr) as (v & Hf & Hr).
      exists v. split; [exact Hf|eapply result_ok_value; eauto].
Qed.

(* arithmetic on a text with a non-ASCII character is outside the model *)
Lemma uni_upper_non_ascii c : (127 <? c) = true -> (127 <? uni_upper c) = true.
Proof.
  intros H. apply Z.ltb_lt in H. apply Z.ltb_lt. unfold uni_upper, ascii_upper.
  destruct ((224 <=? c) && (c <=? 254) && negb (c =? 247)) eqn:E.
  - apply andb_true_iff in E. destruct E as [E _]. apply andb_true_iff in E. destruct E as [E _].
    apply Z.leb_le in E. lia.
  - destruct ((97 <=? c) && (c <=? 122)) eqn:E2; [|lia].
    apply andb_true_iff in E2. destruct E2 as [_ E2]. apply Z.leb_le in E2. lia.
Qed.
Lemma non_ascii_upper s : non_ascii s = true -> non_ascii (map uni_upper s) = true.
Proof.
  unfold non_ascii. induction s as [|c s IH]; cbn [map existsb]; [discriminate|].
  intros H. apply orb_true_iff in H. apply orb_true_iff. destruct H as [H|H].
  - left. apply uni_upper_non_ascii. exact H.
  - right. apply IH. exact H.
Qed.
Lemma non_ascii_neq u lit : non_ascii u = true -> non_ascii lit = false -> str_eqb u lit = false.
Proof.
  intros Hu Hl. destruct (str_eqb u lit) eqn:E; [|reflexivity].
  apply str_eqb_eq in E. subst. congruence.
Qed.

Lemma coerce_non_ascii s : non_ascii s = true ->
  excelutil.f_coerce_to_number py_fuel (VStr s) (VBool true) = Raise Unmodelled.
Proof.
  intros Hna. coerce_run. unfold str_upper. rewrite Hna.
  destruct (case_ok s); cbn [bind]; [|reflexivity]. coerce_run.
  pose proof (non_ascii_upper s Hna) as Hu.
  rewrite (non_ascii_neq (map uni_upper s) [84; 82; 85; 69] Hu eq_refl),
          (non_ascii_neq (map uni_upper s) [70; 65; 76; 83; 69] Hu eq_refl),
          (non_ascii_neq (map uni_upper s) [35; 69; 77; 80; 84; 89; 33] Hu eq_refl). cbn [orb].
  unfold py_int_base, parse_float. rewrite Hna.
  destruct (str_contains [46] s); reflexivity.
Qed.

Lemma arith_non_ascii s o r : arith_op o = true -> non_ascii s = true -> scalar r ->
  in_error_codes r = Ok false ->
  fixup (VStr s) o r = Raise Unmodelled
  /\ (arith_modelled r = true -> fixup r o (VStr s) = Raise Unmodelled).
Proof.
  intros Ho Hna Hsr Her.
  assert (He : in_error_codes (VStr s) = Ok false).
  { unfold in_error_codes, excelutil.c_ERROR_CODES. cbn [py_in hashable existsb py_eq].
    repeat match goal with |- context [str_eqb s ?lit] =>
      rewrite (non_ascii_neq s lit Hna eq_refl) end. reflexivity. }
  split.
  - unfold fixup. rewrite He. cbn [bind]. rewrite Her. cbn [bind].
    destruct o; try discriminate Ho; cbn [is_cmp]; rewrite (coerce_non_ascii s Hna); reflexivity.
  - intros Hmr. destruct (coerce_scalar r Hsr Hmr) as (r1 & Hr & _).
    unfold fixup. rewrite Her. cbn [bind]. rewrite He. cbn [bind].
    destruct o; try discriminate Ho; cbn [is_cmp]; rewrite Hr; cbn [bind];
      rewrite (coerce_non_ascii s Hna); reflexivity.
Qed.

(* an operand outside arith_modelled makes the model answer Unmodelled *)
Lemma coerce_unmodelled v : scalar v -> arith_modelled v = false ->
  excelutil.f_coerce_to_number py_fuel v (VBool true) = Raise Unmodelled.
Proof.
  destruct v; cbn [scalar arith_modelled]; try contradiction; try discriminate. intros _ Hm.
  destruct (non_ascii s) eqn:Hna; [apply coerce_non_ascii; exact Hna|].
  cbn [negb andb] in Hm. apply orb_false_iff in Hm. destruct Hm as [Hl Hp].
  assert (Hpf : parse_float s = Raise Unmodelled).
  { destruct (parse_float s) as [q|e]; [discriminate|]. destruct e; try discriminate. reflexivity. }
  rewrite (coerce_text s Hna). unfold text_num. rewrite Hl, Hpf.
  destruct (str_contains [46] s); [reflexivity|].
  destruct (py_int_base_cases s Hna) as [(z & Hz)| ->]; [|reflexivity].
  exfalso. exact (int_ok_float_modelled s z Hna Hz Hpf).
Qed.

Lemma arith_unmodelled l o r : scalar l -> scalar r ->
  in_error_codes l = Ok false -> in_error_codes r = Ok false -> arith_op o = true ->
  arith_modelled l = false \/ arith_modelled r = false ->
  fixup l o r = Raise Unmodelled.
Proof.
  intros Hsl Hsr Hel Her Ho Hm. unfold fixup. rewrite Hel. cbn [bind]. rewrite Her. cbn [bind].
  destruct (arith_modelled l) eqn:El.
  - destruct Hm as [Hm|Hm]; [discriminate|].
    destruct (coerce_scalar l Hsl El) as (l1 & Hl & _).
    destruct o; try discriminate Ho; cbn [is_cmp]; rewrite Hl; cbn [bind];
      rewrite (coerce_unmodelled r Hsr Hm); reflexivity.
  - destruct o; try discriminate Ho; cbn [is_cmp]; rewrite (coerce_unmodelled l Hsl El); reflexivity.
Qed.

(* the domain predicate is EXACT for every operator: outside it the model
   answers Unmodelled and nothing else (^ has the further restriction pow_modelled) *)
Lemma unmodelled_exact l o r : scalar l -> scalar r ->
  in_error_codes l = Ok false -> in_error_codes r = Ok false ->
  op_modelled o l = false \/ op_modelled o r = false ->
  fixup l o r = Raise Unmodelled.
Proof.
  intros Hsl Hsr Hel Her Hm. unfold op_modelled in Hm. destruct (is_cmp o) eqn:Ec.
  - apply cmp_unmodelled; auto.
  - destruct o; try discriminate Ec; try (apply arith_unmodelled; auto; fail).
    apply concat_unmodelled; auto.
Qed.

(* the domain of ^ in plain terms: the exponent (when a float after coercion)
   has an integral value, or the base is negative *)
Lemma Qred_inject z : Qred (inject_Z z) = inject_Z z.
Proof.
  unfold Qred, inject_Z.
  generalize (Z.ggcd_gcd z 1) (Z.ggcd_correct_divisors z 1).
  destruct (Z.ggcd z 1) as (g, (r1, r2)). cbn [fst snd]. intros Hg [H1 H2].
  rewrite Z.gcd_1_r in Hg. subst g. rewrite Z.mul_1_l in H1, H2. subst r1 r2. reflexivity.
Qed.
Lemma den1_integral q : (Zpos (Qden (Qred q)) =? 1) = integral q.
Proof.
  destruct (Zpos (Qden (Qred q)) =? 1) eqn:E.
  - symmetry. apply Z.eqb_eq in E.
    assert (Hq : (q == inject_Z (Qnum (Qred q)))%Q).
    { rewrite <- (Qred_correct q) at 1. destruct (Qred q) as [n d]. cbn [Qnum Qden] in *.
      injection E as ->. reflexivity. }
    apply (integral_inject q _ Hq).
  - symmetry. destruct (integral q) eqn:Ei; [|reflexivity].
    unfold integral in Ei. apply q_eqb_eq in Ei.
    rewrite <- (Qred_complete _ _ Ei), Qred_inject in E. discriminate E.
Qed.
Lemma pow_domain l1 q : number l1 -> pow_modelled l1 (VFloat q) = integral q || q_ltb (qv l1) 0.
Proof.
  intros Hn. unfold pow_modelled. rewrite den1_integral.
  assert (Hb : is_num_b l1 = true) by (apply is_num_b_number; exact Hn). rewrite Hb. cbn [negb orb].
  assert (Hf : neg_frac_pow l1 (VFloat q) = q_ltb (qv l1) 0 && negb (integral q)).
  { destruct l1; cbn [number] in Hn; try contradiction; reflexivity. }
  rewrite Hf. destruct (integral q); destruct (q_ltb (qv l1) 0); reflexivity.
Qed.

(* ------------------------------------------------------------ examples *)
(* the model's reading of text: "12", " 3.5 ", "1e3", "-7", "TRUE" are numbers;
   "abc", "" and "1,5" are not; "inf" and "1e400" are outside the model *)
Example tn_12 : text_num [49; 50] = Ok (VInt 12). Proof. vm_compute. reflexivity. Qed.
Example tn_3_5 : text_num [32; 51; 46; 53; 32] = Ok (VFloat (7 # 2)). Proof. vm_compute. reflexivity. Qed.
Example tn_1e3 : text_num [49; 101; 51] = Ok (VFloat (1000 # 1)). Proof. vm_compute. reflexivity. Qed.
Example tn_m7 : text_num [45; 55] = Ok (VInt (-7)). Proof. vm_compute. reflexivity. Qed.
Example tn_true : text_num [116; 114; 117; 101] = Ok (VInt 1). Proof. vm_compute. reflexivity. Qed.
Example tn_abc : text_num [97; 98; 99] = Ok (VStr [97; 98; 99]). Proof. vm_compute. reflexivity. Qed.
Example tn_empty : text_num [] = Ok (VStr []). Proof. vm_compute. reflexivity. Qed.
Example tn_comma : text_num [49; 44; 53] = Ok (VStr [49; 44; 53]). Proof. vm_compute. reflexivity. Qed.
Example am_inf : arith_modelled (VStr [105; 110; 102]) = false. Proof. vm_compute. reflexivity. Qed.
Example am_1e400 : arith_modelled (VStr [49; 101; 52; 48; 48]) = false. Proof. vm_compute. reflexivity. Qed.
Example am_abc : arith_modelled (VStr [97; 98; 99]) = true. Proof. vm_compute. reflexivity. Qed.
Example am_3_5 : arith_modelled (VStr [32; 51; 46; 53; 32]) = true. Proof. vm_compute. reflexivity. Qed.
(* " 3.5 " + 2 = 5.5, "12" * "3" = 36, "abc" + 1 = #VALUE!, "3.0" + 1 = 4.0 against 3.0 + 1 = 4 *)
Example ex_text_add : fixup (VStr [32; 51; 46; 53; 32]) Add (VInt 2) = Ok (VFloat (11 # 2)).
Proof. vm_compute. reflexivity. Qed.
Example ex_text_mul : fixup (VStr [49; 50]) Mult (VStr [51]) = Ok (VInt 36).
Proof. vm_compute. reflexivity. Qed.
Example ex_text_value : fixup (VStr [97; 98; 99]) Add (VInt 1) = Ok excelutil.c_VALUE_ERROR.
Proof. vm_compute. reflexivity. Qed.
Example ex_kind_text : fixup (VStr [51; 46; 48]) Add (VInt 1) = Ok (VFloat (4 # 1)).
Proof. vm_compute. reflexivity. Qed.
Example ex_kind_float : fixup (VFloat (3 # 1)) Add (VInt 1) = Ok (VInt 4).
Proof. vm_compute. reflexivity. Qed.
(* modelled operands of every kind *)
Example om_cmp : op_modelled Lt (VStr [233; 28450]) = true. Proof. vm_compute. reflexivity. Qed.
Example om_cmp_no : op_modelled Lt (VStr [946]) = false. Proof. vm_compute. reflexivity. Qed.
Example om_concat : op_modelled BitAnd (VFloat (3 # 2)) = true. Proof. vm_compute. reflexivity. Qed.
Example om_concat_no : op_modelled BitAnd (VFloat (1 # 3)) = false. Proof. vm_compute. reflexivity. Qed.
(* ^ : 2 ^ 0.5 is outside the model, (-8) ^ 0.5 is #NUM!, 2 ^ "3.0" = 8.0, 0 ^ -1 = #DIV/0! *)
Example pm_sqrt : pow_modelled (VInt 2) (VFloat (1 # 2)) = false. Proof. vm_compute. reflexivity. Qed.
Example pm_neg : pow_modelled (VInt (-8)) (VFloat (1 # 2)) = true. Proof. vm_compute. reflexivity. Qed.
Example ex_pow_num : fixup (VInt (-8)) Pow (VFloat (1 # 2)) = Ok excelutil.c_NUM_ERROR.
Proof. vm_compute. reflexivity. Qed.
Example ex_pow_text : fixup (VInt 2) Pow (VStr [51; 46; 48]) = Ok (VFloat (8 # 1)).
Proof. vm_compute. reflexivity. Qed.
Example ex_pow_div0 : fixup (VInt 0) Pow (VInt (-1)) = Ok excelutil.c_DIV0.
Proof. vm_compute. reflexivity. Qed.
(* & : 3.0 -> "3", 1.5 -> "1.5", -2.0 & TRUE -> "-2TRUE" *)
Example ex_concat_3 : fixup (VFloat (3 # 1)) BitAnd (VStr [120]) = Ok (VStr [51; 120]).
Proof. vm_compute. reflexivity. Qed.
Example ex_concat_1_5 : fixup (VFloat (3 # 2)) BitAnd (VStr [120]) = Ok (VStr [49; 46; 53; 120]).
Proof. vm_compute. reflexivity. Qed.
Example ex_concat_neg : fixup (VFloat (-4 # 2)) BitAnd (VBool true) = Ok (VStr [45; 50; 84; 82; 85; 69]).
Proof. vm_compute. reflexivity. Qed.
Example ex_integral : ((-4 # 2) == inject_Z (-2))%Q. Proof. reflexivity. Qed.
