(* Proofs/C10Total.v — totality / type closure of the operators of Model/Ops.v,
   the coercion of text in arithmetic, and the "&" renderings of every scalar.

   What is outside the model (and therefore excluded by a decidable hypothesis
   on the operands):
     arithmetic   a text operand with a non-ASCII character (int()/float() of
                  Unicode digits and spaces is not modelled), an inf/nan spelling
                  or an exponent beyond +-300            [arith_modelled]
     comparison   a text operand with a character whose case mapping is not
                  modelled                              [cmp_modelled, C10Order]
     &            a non-integral float whose repr is outside the modelled domain
                  (more than 15 significant digits, |x| < 1e-4, not a finite
                  decimal)                                     [concat_modelled]
     ^            a non-integral exponent with a non-negative base (the result
                  is irrational in general)                       [pow_modelled] *)
From Coq Require Import ZArith QArith List Bool Lia.
From PV Require Import Lib.Py Proofs.PyTac Proofs.NumLemmas Model.Ops Proofs.C10 Proofs.C10Order.
From PV Require Gen.excelutil.
Import ListNotations.
Open Scope Z_scope.

Definition number (v : pyval) : Prop := match v with VInt _ | VFloat _ => True | _ => False end.
Definition integral (q : Q) : bool := q_eqb (inject_Z (q_trunc q)) q.

Definition t_TRUE : str := [84; 82; 85; 69].
Definition t_FALSE : str := [70; 65; 76; 83; 69].
Definition t_EMPTY : str := [35; 69; 77; 80; 84; 89; 33].

(* ------------------------------------------------------ in_error_codes *)
Lemma in_error_scalar v : scalar v -> exists b, in_error_codes v = Ok b.
Proof.
  destruct v; cbn [scalar]; try contradiction; intros _; unfold in_error_codes, excelutil.c_ERROR_CODES;
    cbn [py_in hashable]; eauto.
Qed.

(* --------------------------------- coerce_to_number(v, convert_all=True) *)
Ltac coerce_run :=
  unfold py_fuel, excelutil.f_is_number, excelutil.f_is_array_arg, excelutil.f_is_address, excelutil.c_EMPTY;
  repeat (progress (py_step; cbn [excelutil.f_coerce_to_number py_float py_str])).

Lemma coerce_none : excelutil.f_coerce_to_number py_fuel VNone (VBool true) = Ok (VInt 0).
Proof. coerce_run. reflexivity. Qed.
Lemma coerce_bool b : excelutil.f_coerce_to_number py_fuel (VBool b) (VBool true) = Ok (VInt (b2z b)).
Proof. destruct b; coerce_run; reflexivity. Qed.
Lemma coerce_int z c : excelutil.f_coerce_to_number py_fuel (VInt z) (VBool c) = Ok (VInt z).
Proof. destruct c; coerce_run; reflexivity. Qed.
Lemma coerce_float q c : excelutil.f_coerce_to_number py_fuel (VFloat q) (VBool c)
  = Ok (if integral q then VInt (q_trunc q) else VFloat q).
Proof.
  unfold integral. destruct c; coerce_run; destruct (q_eqb (inject_Z (q_trunc q)) q); coerce_run; reflexivity.
Qed.

(* ------------------------------------------------- int() / float() of text *)
Lemma py_int_base_cases s : non_ascii s = false ->
  (exists z, py_int_base s 10 = Ok (VInt z)) \/ py_int_base s 10 = Raise ValueError.
Proof.
  intros H. unfold py_int_base. rewrite H.
  match goal with |- context [match ?E with pair _ _ => _ end] => destruct E as [neg t] end.
  cbv zeta.
  match goal with |- context [match ?E with Some _ => _ | None => _ end] => destruct E as [z|] end; eauto.
Qed.

(* float(text) answers a value, ValueError, or is outside the model *)
Definition pf_good (r : res Q) : Prop :=
  match r with Ok _ | Raise ValueError | Raise Unmodelled => True | _ => False end.

Ltac pf_step :=
  first
  [ exact I
  | match goal with |- context [match ?E with pair _ _ => _ end] => destruct E as [? ?] end
  | match goal with |- context [match ?E with Some _ => _ | None => _ end] => destruct E as [[[? ?] ?]|] end
  | match goal with |- context [match ?E with nil => _ | cons _ _ => _ end] => is_var E; destruct E end
  | match goal with |- context [if ?b then _ else _] => destruct b end ].

Lemma parse_float_good s : pf_good (parse_float s).
Proof. unfold parse_float. cbv beta zeta. repeat pf_step. Qed.

Lemma parse_float_raise s e : parse_float s = Raise e -> e = ValueError \/ e = Unmodelled.
Proof.
  intros H. pose proof (parse_float_good s) as G. rewrite H in G.
  destruct e; cbn in G; try contradiction; auto.
Qed.

Definition is_logical_text (s : str) : bool :=
  let u := map ascii_upper s in str_eqb u t_TRUE || str_eqb u t_FALSE || str_eqb u t_EMPTY.

Definition text_num (s : str) : res pyval :=
  if is_logical_text s then Ok (VInt (if zlen s =? 4 then 1 else 0))
  else match (if str_contains [46] s then Raise ValueError else py_int_base s 10) with
       | Ok v => Ok v
       | Raise _ =>
           match parse_float s with
           | Ok q => Ok (VFloat q)
           | Raise ValueError => Ok (VStr s)
           | Raise e => Raise e
           end
       end.

Lemma coerce_text s : non_ascii s = false ->
  excelutil.f_coerce_to_number py_fuel (VStr s) (VBool true) = text_num s.
Proof.
  intros Hna. unfold text_num, is_logical_text, t_TRUE, t_FALSE, t_EMPTY.
  coerce_run. unfold str_upper. rewrite Hna. coerce_run.
  rewrite orb_false_r, orb_assoc.
  match goal with |- (if ?b then _ else _) = _ => destruct b end; [reflexivity|].
  destruct (str_contains [46] s); cbn [negb bind].
  - destruct (parse_float s) as [q|e] eqn:E; cbn [bind]; [reflexivity|].
    destruct (parse_float_raise s e E) as [-> | ->]; reflexivity.
  - destruct (py_int_base_cases s Hna) as [(z & ->)| ->]; cbn [bind catches existsb exn_eqb orb]; [reflexivity|].
    destruct (parse_float s) as [q|e] eqn:E; cbn [bind]; [reflexivity|].
    destruct (parse_float_raise s e E) as [-> | ->]; reflexivity.
Qed.

(* a text operand is inside the model of arithmetic iff it is ASCII and
   float() of it is inside the model of Lib/Py.v *)
Definition arith_modelled (v : pyval) : bool :=
  match v with
  | VStr s => negb (non_ascii s)
              && match parse_float s with Raise Unmodelled => false | _ => true end
  | _ => true
  end.

(* what coerce_to_number(_, True) returns for a scalar: a number, or the text
   itself when float() rejects it *)
Definition coerced (v : pyval) : Prop :=
  match v with
  | VInt _ | VFloat _ => True
  | VStr s => parse_float s = Raise ValueError
  | _ => False
  end.
Definition is_num_b (v : pyval) : bool := match v with VInt _ | VFloat _ => true | _ => false end.

Lemma is_number_coerced v : coerced v -> excelutil.f_is_number v = Ok (VBool (is_num_b v)).
Proof.
  destruct v; cbn [coerced]; try contradiction; intros H; unfold excelutil.f_is_number;
    cbn [lift1 bind py_float]; try reflexivity.
  rewrite H. reflexivity.
Qed.

Lemma text_num_coerced s v : non_ascii s = false -> text_num s = Ok v -> coerced v.
Proof.
  intros Hna. unfold text_num. destruct (is_logical_text s); [intros H; injection H as <-; exact I|].
  assert (Hf : match parse_float s with
               | Ok q => Ok (VFloat q) | Raise ValueError => Ok (VStr s) | Raise e => Raise e end = Ok v
               -> coerced v).
  { destruct (parse_float s) as [q|e] eqn:E; [intros H; injection H as <-; exact I|].
    destruct e; try discriminate. intros H. injection H as <-. exact E. }
  destruct (str_contains [46] s); [exact Hf|].
  destruct (py_int_base_cases s Hna) as [(z & ->)| ->]; [intros H; injection H as <-; exact I|exact Hf].
Qed.

Lemma text_num_defined s : arith_modelled (VStr s) = true -> exists v, text_num s = Ok v.
Proof.
  cbn [arith_modelled]. intros H. apply andb_true_iff in H. destruct H as [Hna Hpf].
  apply negb_true_iff in Hna. unfold text_num. destruct (is_logical_text s); [eauto|].
  assert (Hf : exists v, match parse_float s with
               | Ok q => Ok (VFloat q) | Raise ValueError => Ok (VStr s) | Raise e => Raise e end = Ok v).
  { destruct (parse_float s) as [q|e] eqn:E; [eauto|].
    destruct (parse_float_raise s e E) as [-> | ->]; [eauto|discriminate]. }
  destruct (str_contains [46] s); [exact Hf|].
  destruct (py_int_base_cases s Hna) as [(z & ->)| ->]; [eauto|exact Hf].
Qed.

Lemma coerce_scalar v : scalar v -> arith_modelled v = true ->
  exists v1, excelutil.f_coerce_to_number py_fuel v (VBool true) = Ok v1 /\ coerced v1.
Proof.
  destruct v; cbn [scalar]; try contradiction; intros _ Hm.
  - rewrite coerce_none. eexists; split; [reflexivity|exact I].
  - rewrite coerce_bool. eexists; split; [reflexivity|exact I].
  - rewrite coerce_int. eexists; split; [reflexivity|exact I].
  - rewrite coerce_float. destruct (integral q); eexists; split; try reflexivity; exact I.
  - destruct (text_num_defined s Hm) as (v & Hv).
    cbn [arith_modelled] in Hm. apply andb_true_iff in Hm. destruct Hm as [Hna _].
    apply negb_true_iff in Hna. rewrite (coerce_text s Hna), Hv.
    eexists; split; [reflexivity|]. eapply text_num_coerced; eauto.
Qed.

(* ------------------------------------------- the arithmetic operators *)
Definition arith_result (v : pyval) : Prop :=
  number v \/ v = excelutil.c_VALUE_ERROR \/ v = excelutil.c_DIV0 \/ v = excelutil.c_NUM_ERROR.

Definition trap (x : res pyval) : res pyval :=
  match x with
  | Raise ZeroDivisionError => Ok excelutil.c_DIV0
  | Raise TypeError => Ok excelutil.c_VALUE_ERROR
  | Raise OverflowError => Ok excelutil.c_NUM_ERROR
  | x => x
  end.

Definition arith_op (o : op) : bool :=
  match o with Add | Sub | Mult | Div | Pow | USub => true | _ => false end.

Lemma fixup_arith l o r l1 r1 :
  in_error_codes l = Ok false -> in_error_codes r = Ok false ->
  excelutil.f_coerce_to_number py_fuel l (VBool true) = Ok l1 ->
  excelutil.f_coerce_to_number py_fuel r (VBool true) = Ok r1 ->
  coerced l1 -> coerced r1 -> arith_op o = true ->
  fixup l o r = match o, is_num_b l1 && is_num_b r1 with
                | USub, _ | _, true => trap (num_apply o l1 r1)
                | _, false => Ok excelutil.c_VALUE_ERROR
                end.
Proof.
  intros Hel Her Hl Hr Cl Cr Ho. unfold fixup. rewrite Hel. cbn [bind]. rewrite Her. cbn [bind].
  destruct o; try discriminate Ho; cbn [is_cmp]; rewrite Hl, Hr; cbn [bind];
    rewrite (is_number_coerced l1 Cl), (is_number_coerced r1 Cr); cbn [bind py_truthy]; unfold trap;
    match goal with |- context [num_apply ?o ?a ?b] => destruct (num_apply o a b) as [?|[]] end; reflexivity.
Qed.

Lemma num_apply_basic o a b : number a -> number b ->
  o = Add \/ o = Sub \/ o = Mult \/ o = Div \/ o = USub ->
  (exists v, num_apply o a b = Ok v /\ number v) \/ num_apply o a b = Raise ZeroDivisionError.
Proof.
  intros Ha Hb Ho.
  destruct a; cbn [number] in Ha; try contradiction; destruct b; cbn [number] in Hb; try contradiction;
    destruct Ho as [->|[->|[->|[->| ->]]]]; cbn [num_apply py_add py_sub py_mul py_neg arith as_num];
    unfold py_sub, py_truediv, mkfloat; cbn [arith as_num];
    try (left; eexists; split; [reflexivity|exact I]);
    match goal with |- context [if ?c then _ else _] => destruct c end;
    try (right; reflexivity); left; eexists; split; try reflexivity; exact I.
Qed.

Lemma is_num_b_number v : is_num_b v = true <-> number v.
Proof. destruct v; cbn; split; intros; try discriminate; try contradiction; auto. Qed.

Lemma neg_coerced r1 : coerced r1 -> exists v, trap (py_neg r1) = Ok v /\ arith_result v.
Proof.
  destruct r1; cbn [coerced]; try contradiction; intros _; unfold py_neg, mkfloat; cbn [as_num trap];
    eexists; (split; [reflexivity|]); unfold arith_result; cbn [number]; auto.
Qed.

(* + - * / and unary minus never fail on modelled operands *)
Lemma arith_total l o r : scalar l -> scalar r ->
  in_error_codes l = Ok false -> in_error_codes r = Ok false ->
  arith_modelled l = true -> arith_modelled r = true ->
  o = Add \/ o = Sub \/ o = Mult \/ o = Div \/ o = USub ->
  exists v, fixup l o r = Ok v /\ arith_result v.
Proof.
  intros Hsl Hsr Hel Her Hml Hmr Ho.
  destruct (coerce_scalar l Hsl Hml) as (l1 & Hl & Cl).
  destruct (coerce_scalar r Hsr Hmr) as (r1 & Hr & Cr).
  assert (Hao : arith_op o = true) by (destruct Ho as [->|[->|[->|[->| ->]]]]; reflexivity).
  rewrite (fixup_arith l o r l1 r1 Hel Her Hl Hr Cl Cr Hao).
  assert (Hu : o = USub -> exists v, trap (num_apply o l1 r1) = Ok v /\ arith_result v).
  { intros ->. cbn [num_apply]. apply neg_coerced. exact Cr. }
  destruct (is_num_b l1 && is_num_b r1) eqn:Eb.
  - assert (Hn : exists v, trap (num_apply o l1 r1) = Ok v /\ arith_result v).
    { apply andb_true_iff in Eb. destruct Eb as [Nl Nr].
      apply is_num_b_number in Nl. apply is_num_b_number in Nr.
      destruct (num_apply_basic o l1 r1 Nl Nr Ho) as [(v & -> & Hv)| ->]; cbn [trap].
      - exists v. split; [reflexivity|left; exact Hv].
      - eexists. split; [reflexivity|]. right. right. left. reflexivity. }
    destruct o; exact Hn.
  - destruct Ho as [->|[->|[->|[->| ->]]]];
      try (eexists; split; [reflexivity|right; left; reflexivity]).
    apply Hu. reflexivity.
Qed.

(* ^ : outside the model exactly when both operands are numbers, the exponent
   is a non-integral float and the base is not negative *)
Definition pow_modelled (l1 r1 : pyval) : bool :=
  match r1 with
  | VFloat q => negb (is_num_b l1) || (Zpos (Qden (Qred q)) =? 1) || neg_frac_pow l1 r1
  | _ => true
  end.

Lemma pow_cases a b : number a -> number b -> pow_modelled a b = true ->
  (exists v, num_apply Pow a b = Ok v /\ (number v \/ v = excelutil.c_NUM_ERROR))
  \/ num_apply Pow a b = Raise ZeroDivisionError.
Proof.
  intros Ha Hb Hm. cbn [num_apply].
  destruct (neg_frac_pow a b) eqn:En; [left; eexists; split; [reflexivity|right; reflexivity]|].
  destruct a; cbn [number] in Ha; try contradiction; destruct b; cbn [number] in Hb; try contradiction;
    unfold py_pow, mkfloat; cbn [as_num num_q];
    cbn [pow_modelled is_num_b negb orb] in Hm; try rewrite En in Hm; try rewrite orb_false_r in Hm;
    try rewrite Hm;
    repeat match goal with |- context [if ?c then _ else _] => destruct c end;
    try (right; reflexivity); left; eexists; (split; [reflexivity|left; exact I]).
Qed.

Lemma pow_unmodelled a b : number a -> number b -> pow_modelled a b = false ->
  num_apply Pow a b = Raise Unmodelled.
Proof.
  intros Ha Hb Hm. cbn [num_apply].
  destruct b; cbn [number pow_modelled] in *; try contradiction; try discriminate.
  apply orb_false_iff in Hm. destruct Hm as [Hm ->]. apply orb_false_iff in Hm. destruct Hm as [_ Hd].
  destruct a; cbn [number] in Ha; try contradiction; unfold py_pow; cbn [as_num]; rewrite Hd; reflexivity.
Qed.

Lemma pow_total l r : scalar l -> scalar r ->
  in_error_codes l = Ok false -> in_error_codes r = Ok false ->
  arith_modelled l = true -> arith_modelled r = true ->
  exists l1 r1,
    excelutil.f_coerce_to_number py_fuel l (VBool true) = Ok l1 /\ coerced l1
    /\ excelutil.f_coerce_to_number py_fuel r (VBool true) = Ok r1 /\ coerced r1
    /\ (pow_modelled l1 r1 = true -> exists v, fixup l Pow r = Ok v /\ arith_result v)
    /\ (pow_modelled l1 r1 = false -> fixup l Pow r = Raise Unmodelled).
Proof.
  intros Hsl Hsr Hel Her Hml Hmr.
  destruct (coerce_scalar l Hsl Hml) as (l1 & Hl & Cl).
  destruct (coerce_scalar r Hsr Hmr) as (r1 & Hr & Cr).
  exists l1, r1. repeat (split; [assumption|]).
  rewrite (fixup_arith l Pow r l1 r1 Hel Her Hl Hr Cl Cr eq_refl).
  destruct (is_num_b l1 && is_num_b r1) eqn:Eb.
  - apply andb_true_iff in Eb. destruct Eb as [Nl Nr].
    apply is_num_b_number in Nl. apply is_num_b_number in Nr. split; intros Hm.
    + destruct (pow_cases l1 r1 Nl Nr Hm) as [(v & -> & Hv)| ->]; cbn [trap].
      * exists v. split; [reflexivity|]. destruct Hv as [Hv| ->]; [left; exact Hv|].
        right. right. right. reflexivity.
      * eexists. split; [reflexivity|]. right. right. left. reflexivity.
    + rewrite (pow_unmodelled l1 r1 Nl Nr Hm). reflexivity.
  - split; intros Hm.
    + eexists. split; [reflexivity|]. right. left. reflexivity.
    + exfalso. destruct r1; cbn [pow_modelled] in Hm; try discriminate.
      cbn [is_num_b] in Eb. rewrite andb_true_r in Eb. rewrite Eb in Hm. discriminate.
Qed.
