(* Proofs/C10Total.v — totality / type closure of the operators of Model/Ops.v,
   the coercion of text in arithmetic, and the "&" renderings of every scalar.

   What is outside the model (and therefore excluded by a decidable hypothesis
   on the operands):
     arithmetic   a text operand with a non-ASCII character (int()/float() of
                  Unicode digits and spaces is not modelled), an inf/nan spelling
                  or an exponent beyond +-300            [arith_modelled]
     comparison   a text operand with a character whose case mapping is not
                  modelled                              [cmp_modelled, C10Order]
     &            a non-integral float whose repr is outside the modelled domain
                  (more than 15 significant digits, |x| < 1e-4, not a finite
                  decimal)                                     [concat_modelled]
     ^            a non-integral exponent with a non-negative base (the result
                  is irrational in general)                       [pow_modelled] *)
From Coq Require Import ZArith QArith List Bool Lia.
From PV Require Import Lib.Py Proofs.PyTac Proofs.NumLemmas Model.Ops Proofs.C10 Proofs.C10Order.
From PV Require Gen.excelutil.
Import ListNotations.
Open Scope Z_scope.

Definition number (v : pyval) : Prop := match v with VInt _ | VFloat _ => True | _ => False end.
Definition integral (q : Q) : bool := q_eqb (inject_Z (q_trunc q)) q.

Definition t_TRUE : str := [84; 82; 85; 69].
Definition t_FALSE : str := [70; 65; 76; 83; 69].
Definition t_EMPTY : str := [35; 69; 77; 80; 84; 89; 33].

(* ------------------------------------------------------ in_error_codes *)
Lemma in_error_scalar v : scalar v -> exists b, in_error_codes v = Ok b.
Proof.
  destruct v; cbn [scalar]; try contradiction; intros _; unfold in_error_codes, excelutil.c_ERROR_CODES;
    cbn [py_in hashable]; eauto.
Qed.

(* --------------------------------- coerce_to_number(v, convert_all=True) *)
Ltac coerce_run :=
  unfold py_fuel, excelutil.f_is_number, excelutil.f_is_array_arg, excelutil.f_is_address, excelutil.c_EMPTY;
  repeat (progress (py_step; cbn [excelutil.f_coerce_to_number py_float py_str])).

Lemma coerce_none : excelutil.f_coerce_to_number py_fuel VNone (VBool true) = Ok (VInt 0).
Proof. coerce_run. reflexivity. Qed.
Lemma coerce_bool b : excelutil.f_coerce_to_number py_fuel (VBool b) (VBool true) = Ok (VInt (b2z b)).
Proof. destruct b; coerce_run; reflexivity. Qed.
Lemma coerce_int z c : excelutil.f_coerce_to_number py_fuel (VInt z) (VBool c) = Ok (VInt z).
Proof. destruct c; coerce_run; reflexivity. Qed.
Lemma coerce_float q c : excelutil.f_coerce_to_number py_fuel (VFloat q) (VBool c)
  = Ok (if integral q then VInt (q_trunc q) else VFloat q).
Proof.
  unfold integral. destruct c; coerce_run; destruct (q_eqb (inject_Z (q_trunc q)) q); coerce_run; reflexivity.
Qed.

(* ------------------------------------------------- int() / float() of text *)
Lemma py_int_base_cases s : non_ascii s = false ->
  (exists z, py_int_base s 10 = Ok (VInt z)) \/ py_int_base s 10 = Raise ValueError.
Proof.
  intros H. unfold py_int_base. rewrite H.
  match goal with |- context [match ?E with pair _ _ => _ end] => destruct E as [neg t] end.
  cbv zeta.
  match goal with |- context [match ?E with Some _ => _ | None => _ end] => destruct E as [z|] end; eauto.
Qed.

(* float(text) answers a value, ValueError, or is outside the model *)
Definition pf_good (r : res Q) : Prop :=
  match r with Ok _ | Raise ValueError | Raise Unmodelled => True | _ => False end.

Ltac pf_step :=
  first
  [ exact I
  | match goal with |- context [match ?E with pair _ _ => _ end] => destruct E as [? ?] end
  | match goal with |- context [match ?E with Some _ => _ | None => _ end] => destruct E as [[[? ?] ?]|] end
  | match goal with |- context [match ?E with nil => _ | cons _ _ => _ end] => is_var E; destruct E end
  | match goal with |- context [if ?b then _ else _] => destruct b end ].

Lemma parse_float_good s : pf_good (parse_float s).
Proof. unfold parse_float. cbv beta zeta. repeat pf_step. Qed.

Lemma parse_float_raise s e : parse_float s = Raise e -> e = ValueError \/ e = Unmodelled.
Proof.
  intros H. pose proof (parse_float_good s) as G. rewrite H in G.
  destruct e; cbn in G; try contradiction; auto.
Qed.

Definition is_logical_text (s : str) : bool :=
  let u := map ascii_upper s in str_eqb u t_TRUE || str_eqb u t_FALSE || str_eqb u t_EMPTY.

Definition text_num (s : str) : res pyval :=
  if is_logical_text s then Ok (VInt (if zlen s =? 4 then 1 else 0))
  else match (if str_contains [46] s then Raise ValueError else py_int_base s 10) with
       | Ok v => Ok v
       | Raise _ =>
           match parse_float s with
           | Ok q => Ok (VFloat q)
           | Raise ValueError => Ok (VStr s)
           | Raise e => Raise e
           end
       end.

Lemma coerce_text s : non_ascii s = false ->
  excelutil.f_coerce_to_number py_fuel (VStr s) (VBool true) = text_num s.
Proof.
  intros Hna. unfold text_num, is_logical_text, t_TRUE, t_FALSE, t_EMPTY.
  coerce_run. unfold str_upper. rewrite Hna. coerce_run.
  rewrite orb_false_r, orb_assoc.
  match goal with |- (if ?b then _ else _) = _ => destruct b end; [reflexivity|].
  destruct (str_contains [46] s); cbn [negb bind].
  - destruct (parse_float s) as [q|e] eqn:E; cbn [bind]; [reflexivity|].
    destruct (parse_float_raise s e E) as [-> | ->]; reflexivity.
  - destruct (py_int_base_cases s Hna) as [(z & ->)| ->]; cbn [bind catches existsb exn_eqb orb]; [reflexivity|].
    destruct (parse_float s) as [q|e] eqn:E; cbn [bind]; [reflexivity|].
    destruct (parse_float_raise s e E) as [-> | ->]; reflexivity.
Qed.

(* a text operand is inside the model of arithmetic iff it is ASCII and
   float() of it is inside the model of Lib/Py.v *)
Definition arith_modelled (v : pyval) : bool :=
  match v with
  | VStr s => negb (non_ascii s)
              && match parse_float s with Raise Unmodelled => false | _ => true end
  | _ => true
  end.

(* what coerce_to_number(_, True) returns for a scalar: a number, or the text
   itself when float() rejects it *)
Definition coerced (v : pyval) : Prop :=
  match v with
  | VInt _ | VFloat _ => True
  | VStr s => parse_float s = Raise ValueError
  | _ => False
  end.
Definition is_num_b (v : pyval) : bool := match v with VInt _ | VFloat _ => true | _ => false end.

Lemma is_number_coerced v : coerced v -> excelutil.f_is_number v = Ok (VBool (is_num_b v)).
Proof.
  destruct v; cbn [coerced]; try contradiction; intros H; unfold excelutil.f_is_number;
    cbn [lift1 bind py_float]; try reflexivity.
  rewrite H. reflexivity.
Qed.

Lemma text_num_coerced s v : non_ascii s = false -> text_num s = Ok v -> coerced v.
Proof.
  intros Hna. unfold text_num. destruct (is_logical_text s); [intros H; injection H as <-; exact I|].
  assert (Hf : match parse_float s with
               | Ok q => Ok (VFloat q) | Raise ValueError => Ok (VStr s) | Raise e => Raise e end = Ok v
               -> coerced v).
  { destruct (parse_float s) as [q|e] eqn:E; [intros H; injection H as <-; exact I|].
    destruct e; try discriminate. intros H. injection H as <-. exact E. }
  destruct (str_contains [46] s); [exact Hf|].
  destruct (py_int_base_cases s Hna) as [(z & ->)| ->]; [intros H; injection H as <-; exact I|exact Hf].
Qed.

Lemma text_num_defined s : arith_modelled (VStr s) = true -> exists v, text_num s = Ok v.
Proof.
  cbn [arith_modelled]. intros H. apply andb_true_iff in H. destruct H as [Hna Hpf].
  apply negb_true_iff in Hna. unfold text_num. destruct (is_logical_text s); [eauto|].
  assert (Hf : exists v, match parse_float s with
               | Ok q => Ok (VFloat q) | Raise ValueError => Ok (VStr s) | Raise e => Raise e end = Ok v).
  { destruct (parse_float s) as [q|e] eqn:E; [eauto|].
    destruct (parse_float_raise s e E) as [-> | ->]; [eauto|discriminate]. }
  destruct (str_contains [46] s); [exact Hf|].
  destruct (py_int_base_cases s Hna) as [(z & ->)| ->]; [eauto|exact Hf].
Qed.

Lemma coerce_scalar v : scalar v -> arith_modelled v = true ->
  exists v1, excelutil.f_coerce_to_number py_fuel v (VBool true) = Ok v1 /\ coerced v1.
Proof.
  destruct v; cbn [scalar]; try contradiction; intros _ Hm.
  - rewrite coerce_none. eexists; split; [reflexivity|exact I].
  - rewrite coerce_bool. eexists; split; [reflexivity|exact I].
  - rewrite coerce_int. eexists; split; [reflexivity|exact I].
  - rewrite coerce_float. destruct (integral q); eexists; split; try reflexivity; exact I.
  - destruct (text_num_defined s Hm) as (v & Hv).
    cbn [arith_modelled] in Hm. apply andb_true_iff in Hm. destruct Hm as [Hna _].
    apply negb_true_iff in Hna. rewrite (coerce_text s Hna), Hv.
    eexists; split; [reflexivity|]. eapply text_num_coerced; eauto.
Qed.

(* ------------------------------------------- the arithmetic operators *)
Definition arith_result (v : pyval) : Prop :=
  number v \/ v = excelutil.c_VALUE_ERROR \/ v = excelutil.c_DIV0 \/ v = excelutil.c_NUM_ERROR.

Definition trap (x : res pyval) : res pyval :=
  match x with
  | Raise ZeroDivisionError => Ok excelutil.c_DIV0
  | Raise TypeError => Ok excelutil.c_VALUE_ERROR
  | Raise OverflowError => Ok excelutil.c_NUM_ERROR
  | x => x
  end.

Definition arith_op (o : op) : bool :=
  match o with Add | Sub | Mult | Div | Pow | USub => true | _ => false end.

Lemma fixup_arith l o r l1 r1 :
  in_error_codes l = Ok false -> in_error_codes r = Ok false ->
  excelutil.f_coerce_to_number py_fuel l (VBool true) = Ok l1 ->
  excelutil.f_coerce_to_number py_fuel r (VBool true) = Ok r1 ->
  coerced l1 -> coerced r1 -> arith_op o = true ->
  fixup l o r = match o, is_num_b l1 && is_num_b r1 with
                | USub, _ | _, true => trap (num_apply o l1 r1)
                | _, false => Ok excelutil.c_VALUE_ERROR
                end.
Proof.
  intros Hel Her Hl Hr Cl Cr Ho. unfold fixup. rewrite Hel. cbn [bind]. rewrite Her. cbn [bind].
  destruct o; try discriminate Ho; cbn [is_cmp]; rewrite Hl, Hr; cbn [bind];
    rewrite (is_number_coerced l1 Cl), (is_number_coerced r1 Cr); cbn [bind py_truthy]; unfold trap;
    match goal with |- context [num_apply ?o ?a ?b] => destruct (num_apply o a b) as [?|[]] end; reflexivity.
Qed.

Lemma num_apply_basic o a b : number a -> number b ->
  o = Add \/ o = Sub \/ o = Mult \/ o = Div \/ o = USub ->
  (exists v, num_apply o a b = Ok v /\ number v) \/ num_apply o a b = Raise ZeroDivisionError.
Proof.
  intros Ha Hb Ho.
  destruct a; cbn [number] in Ha; try contradiction; destruct b; cbn [number] in Hb; try contradiction;
    destruct Ho as [->|[->|[->|[->| ->]]]]; cbn [num_apply py_add py_sub py_mul py_neg arith as_num];
    unfold py_sub, py_truediv, mkfloat; cbn [arith as_num];
    try (left; eexists; split; [reflexivity|exact I]);
    match goal with |- context [if ?c then _ else _] => destruct c end;
    try (right; reflexivity); left; eexists; split; try reflexivity; exact I.
Qed.

Lemma is_num_b_number v : is_num_b v = true <-> number v.
Proof. destruct v; cbn; split; intros; try discriminate; try contradiction; auto. Qed.

Lemma neg_coerced r1 : coerced r1 -> exists v, trap (py_neg r1) = Ok v /\ arith_result v.
Proof.
  destruct r1; cbn [coerced]; try contradiction; intros _; unfold py_neg, mkfloat; cbn [as_num trap];
    eexists; (split; [reflexivity|]); unfold arith_result; cbn [number]; auto.
Qed.

(* + - * / and unary minus never fail on modelled operands *)
Lemma arith_total l o r : scalar l -> scalar r ->
  in_error_codes l = Ok false -> in_error_codes r = Ok false ->
  arith_modelled l = true -> arith_modelled r = true ->
  o = Add \/ o = Sub \/ o = Mult \/ o = Div \/ o = USub ->
  exists v, fixup l o r = Ok v /\ arith_result v.
Proof.
  intros Hsl Hsr Hel Her Hml Hmr Ho.
  destruct (coerce_scalar l Hsl Hml) as (l1 & Hl & Cl).
  destruct (coerce_scalar r Hsr Hmr) as (r1 & Hr & Cr).
  assert (Hao : arith_op o = true) by (destruct Ho as [->|[->|[->|[->| ->]]]]; reflexivity).
  rewrite (fixup_arith l o r l1 r1 Hel Her Hl Hr Cl Cr Hao).
  assert (Hu : o = USub -> exists v, trap (num_apply o l1 r1) = Ok v /\ arith_result v).
  { intros ->. cbn [num_apply]. apply neg_coerced. exact Cr. }
  destruct (is_num_b l1 && is_num_b r1) eqn:Eb.
  - assert (Hn : exists v, trap (num_apply o l1 r1) = Ok v /\ arith_result v).
    { apply andb_true_iff in Eb. destruct Eb as [Nl Nr].
      apply is_num_b_number in Nl. apply is_num_b_number in Nr.
      destruct (num_apply_basic o l1 r1 Nl Nr Ho) as [(v & -> & Hv)| ->]; cbn [trap].
      - exists v. split; [reflexivity|left; exact Hv].
      - eexists. split; [reflexivity|]. right. right. left. reflexivity. }
    destruct o; exact Hn.
  - destruct Ho as [->|[->|[->|[->| ->]]]];
      try (eexists; split; [reflexivity|right; left; reflexivity]).
    apply Hu. reflexivity.
Qed.

(* ^ : outside the model exactly when both operands are numbers, the exponent
   is a non-integral float and the base is not negative *)
Definition pow_modelled (l1 r1 : pyval) : bool :=
  match r1 with
  | VFloat q => negb (is_num_b l1) || (Zpos (Qden (Qred q)) =? 1) || neg_frac_pow l1 r1
  | _ => true
  end.

Lemma pow_cases a b : number a -> number b -> pow_modelled a b = true ->
  (exists v, num_apply Pow a b = Ok v /\ (number v \/ v = excelutil.c_NUM_ERROR))
  \/ num_apply Pow a b = Raise ZeroDivisionError.
Proof.
  intros Ha Hb Hm. cbn [num_apply].
  destruct (neg_frac_pow a b) eqn:En; [left; eexists; split; [reflexivity|right; reflexivity]|].
  destruct a; cbn [number] in Ha; try contradiction; destruct b; cbn [number] in Hb; try contradiction;
    unfold py_pow, mkfloat; cbn [as_num num_q];
    cbn [pow_modelled is_num_b negb orb] in Hm; try rewrite En in Hm; try rewrite orb_false_r in Hm;
    try rewrite Hm;
    repeat match goal with |- context [if ?c then _ else _] => destruct c end;
    try (right; reflexivity); left; eexists; (split; [reflexivity|left; exact I]).
Qed.

Lemma pow_unmodelled a b : number a -> number b -> pow_modelled a b = false ->
  num_apply Pow a b = Raise Unmodelled.
Proof.
  intros Ha Hb Hm. cbn [num_apply].
  destruct b; cbn [number pow_modelled] in *; try contradiction; try discriminate.
  apply orb_false_iff in Hm. destruct Hm as [Hm ->]. apply orb_false_iff in Hm. destruct Hm as [_ Hd].
  destruct a; cbn [number] in Ha; try contradiction; unfold py_pow; cbn [as_num]; rewrite Hd; reflexivity.
Qed.

Lemma pow_total l r : scalar l -> scalar r ->
  in_error_codes l = Ok false -> in_error_codes r = Ok false ->
  arith_modelled l = true -> arith_modelled r = true ->
  exists l1 r1,
    excelutil.f_coerce_to_number py_fuel l (VBool true) = Ok l1 /\ coerced l1
    /\ excelutil.f_coerce_to_number py_fuel r (VBool true) = Ok r1 /\ coerced r1
    /\ (pow_modelled l1 r1 = true -> exists v, fixup l Pow r = Ok v /\ arith_result v)
    /\ (pow_modelled l1 r1 = false -> fixup l Pow r = Raise Unmodelled).
Proof.
  intros Hsl Hsr Hel Her Hml Hmr.
  destruct (coerce_scalar l Hsl Hml) as (l1 & Hl & Cl).
  destruct (coerce_scalar r Hsr Hmr) as (r1 & Hr & Cr).
  exists l1, r1. repeat (split; [assumption|]).
  rewrite (fixup_arith l Pow r l1 r1 Hel Her Hl Hr Cl Cr eq_refl).
  destruct (is_num_b l1 && is_num_b r1) eqn:Eb.
  - apply andb_true_iff in Eb. destruct Eb as [Nl Nr].
    apply is_num_b_number in Nl. apply is_num_b_number in Nr. split; intros Hm.
    + destruct (pow_cases l1 r1 Nl Nr Hm) as [(v & -> & Hv)| ->]; cbn [trap].
      * exists v. split; [reflexivity|]. destruct Hv as [Hv| ->]; [left; exact Hv|].
        right. right. right. reflexivity.
      * eexists. split; [reflexivity|]. right. right. left. reflexivity.
    + rewrite (pow_unmodelled l1 r1 Nl Nr Hm). reflexivity.
  - split; intros Hm.
    + eexists. split; [reflexivity|]. right. left. reflexivity.
    + exfalso. destruct r1; cbn [pow_modelled] in Hm; try discriminate.
      cbn [is_num_b] in Eb. rewrite andb_true_r in Eb. rewrite Eb in Hm. discriminate.
Qed.

(* ------------------------------------------------------- comparisons *)
Lemma tcv_shape_m v : scalar v -> in_error_codes v = Ok false ->
  exists t d, excelutil.f_type_cmp_value v = Ok (VTuple [VInt t; d])
              /\ scalar d /\ d <> VNone /\ in_error_codes d = Ok false /\ cmp_modelled d = true.
Proof.
  intros Hs He. destruct v; cbn [scalar] in Hs; try contradiction.
  - exists 0, (VFloat 0). rewrite tcv_none. repeat split; discriminate.
  - exists 2, (VBool false). rewrite tcv_bool. repeat split; discriminate.
  - exists 0, (VFloat 0). rewrite tcv_int. repeat split; discriminate.
  - exists 0, (VFloat 0). rewrite tcv_float. repeat split; discriminate.
  - exists 1, (VStr []). rewrite (tcv_str s He). repeat split; discriminate.
Qed.

Lemma cmp_keys_defined l r : scalar l -> scalar r ->
  in_error_codes l = Ok false -> in_error_codes r = Ok false ->
  cmp_modelled l = true -> cmp_modelled r = true ->
  exists ks, cmp_keys l r = Ok ks.
Proof.
  intros Hsl Hsr Hel Her Hml Hmr. unfold cmp_keys.
  destruct (tcv_shape_m r Hsr Her) as (tr & dr & Htr & Hdr1 & Hdr2 & Hdr3 & Hdr4).
  rewrite Htr. cbn [bind].
  assert (Hl1 : exists l1, (if is_blank l then py_getitem (VTuple [VInt tr; dr]) (VInt 1) else Ok l) = Ok l1
                           /\ scalar l1 /\ l1 <> VNone /\ in_error_codes l1 = Ok false
                           /\ cmp_modelled l1 = true).
  { destruct (is_blank l) eqn:Eb.
    - exists dr. cbn [py_getitem as_index]. rewrite index_nth_1. auto.
    - exists l. repeat split; auto. apply not_blank_not_none. exact Eb. }
  destruct Hl1 as (l1 & -> & Hs1 & Hn1 & He1 & Hm1). cbn [bind].
  destruct (tcv_shape_m l1 Hs1 He1) as (tl & dl & Htl & Hdl1 & Hdl2 & Hdl3 & Hdl4).
  rewrite Htl. cbn [bind].
  assert (Hr1 : exists r1, (if is_blank r then py_getitem (VTuple [VInt tl; dl]) (VInt 1) else Ok r) = Ok r1
                           /\ scalar r1 /\ r1 <> VNone /\ in_error_codes r1 = Ok false
                           /\ cmp_modelled r1 = true).
  { destruct (is_blank r) eqn:Eb.
    - exists dl. cbn [py_getitem as_index]. rewrite index_nth_1. auto.
    - exists r. repeat split; auto. apply not_blank_not_none. exact Eb. }
  destruct Hr1 as (r1 & -> & Hs2 & Hn2 & He2 & Hm2). cbn [bind].
  rewrite (excel_cmp_key_of l1 Hs1 Hn1 He1), (excel_cmp_key_of r1 Hs2 Hn2 He2).
  destruct (key_of_defined l1 Hs1 Hn1 Hm1) as (k1 & ->).
  destruct (key_of_defined r1 Hs2 Hn2 Hm2) as (k2 & ->). cbn [bind]. eauto.
Qed.

Lemma cmp_total l o r : scalar l -> scalar r ->
  in_error_codes l = Ok false -> in_error_codes r = Ok false ->
  cmp_modelled l = true -> cmp_modelled r = true -> is_cmp o = true ->
  exists b, fixup l o r = Ok (VBool b).
Proof.
  intros Hsl Hsr Hel Her Hml Hmr Ho.
  destruct (cmp_keys_defined l r Hsl Hsr Hel Her Hml Hmr) as (ks & Hk).
  destruct (trichotomy l r ks Hsl Hsr Hel Her Hk) as (lt & eq & gt & H1 & H2 & H3 & _ & H5 & H6 & H7).
  destruct o; try discriminate Ho; eauto.
Qed.

(* an unmodelled text is neither blank nor an error value *)
Lemma unmodelled_text v : scalar v -> cmp_modelled v = false ->
  exists s, v = VStr s /\ non_ascii s = true /\ case_ok s = false.
Proof.
  destruct v; cbn [scalar cmp_modelled]; try contradiction; try discriminate. intros _ H.
  exists s. apply orb_false_iff in H. destruct H as [H1 H2]. apply negb_false_iff in H1. auto.
Qed.
Lemma non_ascii_not_blank s : non_ascii s = true -> is_blank (VStr s) = false.
Proof.
  intros H. destruct (is_blank (VStr s)) eqn:E; [|reflexivity].
  cbn [is_blank py_eq] in E. unfold excelutil.c_EMPTY in E. cbn [py_eq] in E.
  apply str_eqb_eq in E. subst s. discriminate.
Qed.

Lemma cmp_unmodelled l o r : scalar l -> scalar r ->
  in_error_codes l = Ok false -> in_error_codes r = Ok false -> is_cmp o = true ->
  cmp_modelled l = false \/ cmp_modelled r = false ->
  fixup l o r = Raise Unmodelled.
Proof.
  intros Hsl Hsr Hel Her Ho Hm. unfold fixup. rewrite Hel. cbn [bind]. rewrite Her. cbn [bind]. rewrite Ho.
  assert (Hk : cmp_keys l r = Raise Unmodelled); [|rewrite Hk; reflexivity].
  unfold cmp_keys.
  destruct (tcv_shape_m r Hsr Her) as (tr & dr & Htr & Hdr1 & Hdr2 & Hdr3 & Hdr4).
  rewrite Htr. cbn [bind].
  assert (Hl1 : exists l1, (if is_blank l then py_getitem (VTuple [VInt tr; dr]) (VInt 1) else Ok l) = Ok l1
                           /\ scalar l1 /\ l1 <> VNone /\ in_error_codes l1 = Ok false
                           /\ cmp_modelled l1 = cmp_modelled l).
  { destruct (is_blank l) eqn:Eb.
    - exists dr. cbn [py_getitem as_index]. rewrite index_nth_1. repeat split; auto.
      destruct (cmp_modelled l) eqn:El; [exact Hdr4|].
      destruct (unmodelled_text l Hsl El) as (s & -> & Hna & _).
      rewrite (non_ascii_not_blank s Hna) in Eb. discriminate.
    - exists l. repeat split; auto. apply not_blank_not_none. exact Eb. }
  destruct Hl1 as (l1 & -> & Hs1 & Hn1 & He1 & Hm1). cbn [bind].
  destruct (tcv_shape_m l1 Hs1 He1) as (tl & dl & Htl & Hdl1 & Hdl2 & Hdl3 & Hdl4).
  rewrite Htl. cbn [bind].
  assert (Hr1 : exists r1, (if is_blank r then py_getitem (VTuple [VInt tl; dl]) (VInt 1) else Ok r) = Ok r1
                           /\ scalar r1 /\ r1 <> VNone /\ in_error_codes r1 = Ok false
                           /\ cmp_modelled r1 = cmp_modelled r).
  { destruct (is_blank r) eqn:Eb.
    - exists dl. cbn [py_getitem as_index]. rewrite index_nth_1. repeat split; auto.
      destruct (cmp_modelled r) eqn:Er; [exact Hdl4|].
      destruct (unmodelled_text r Hsr Er) as (s & -> & Hna & _).
      rewrite (non_ascii_not_blank s Hna) in Eb. discriminate.
    - exists r. repeat split; auto. apply not_blank_not_none. exact Eb. }
  destruct Hr1 as (r1 & -> & Hs2 & Hn2 & He2 & Hm2). cbn [bind].
  rewrite (excel_cmp_key_of l1 Hs1 Hn1 He1), (excel_cmp_key_of r1 Hs2 Hn2 He2).
  destruct (cmp_modelled l) eqn:El.
  - destruct Hm as [Hm|Hm]; [discriminate|]. rewrite Hm in Hm2.
    destruct (key_of_defined l1 Hs1 Hn1 Hm1) as (k1 & ->). cbn [bind].
    rewrite (key_of_undefined r1 Hs2 Hn2 Hm2). reflexivity.
  - rewrite (key_of_undefined l1 Hs1 Hn1 Hm1). reflexivity.
Qed.

(* ------------------------------------------------------------------- & *)
(* the Excel rendering of a scalar, written independently of the code:
   blank as empty, TRUE/FALSE, integers and integral floats without ".0",
   other floats as Python's repr, text unchanged *)
Definition xl_render (v : pyval) : res str :=
  if is_blank v then Ok [] else
  match v with
  | VBool b => Ok (if b then t_TRUE else t_FALSE)
  | VInt z => Ok (str_of_Z z)
  | VFloat q => if integral q then Ok (str_of_Z (q_trunc q)) else float_repr q
  | VStr s => Ok s
  | _ => Raise Unmodelled
  end.

Lemma concat_render_spec v : scalar v -> concat_render v = (s <- xl_render v ;; Ok (VStr s)).
Proof.
  intros Hs. unfold concat_render, xl_render. destruct (is_blank v) eqn:Eb; [reflexivity|].
  destruct v; cbn [scalar] in Hs; try contradiction.
  - discriminate Eb.
  - destruct b; reflexivity.
  - rewrite coerce_int. reflexivity.
  - rewrite coerce_float. destruct (integral q); cbn [lift1 bind py_str]; [reflexivity|].
    destruct (float_repr q); reflexivity.
  - reflexivity.
Qed.

Lemma concat_spec l r : scalar l -> scalar r ->
  in_error_codes l = Ok false -> in_error_codes r = Ok false ->
  fixup l BitAnd r = (a <- xl_render l ;; b <- xl_render r ;; Ok (VStr (a ++ b))).
Proof.
  intros Hsl Hsr Hel Her. unfold fixup. rewrite Hel. cbn [bind]. rewrite Her. cbn [bind is_cmp].
  rewrite (concat_render_spec l Hsl), (concat_render_spec r Hsr).
  destruct (xl_render l) as [a|e]; cbn [bind]; [|reflexivity].
  destruct (xl_render r) as [b|e]; cbn [bind]; reflexivity.
Qed.

Definition concat_modelled (v : pyval) : bool :=
  match v with
  | VFloat q => integral q || match float_repr q with Ok _ => true | Raise _ => false end
  | _ => true
  end.

Lemma float_repr_raise q e : float_repr q = Raise e -> e = Unmodelled.
Proof.
  unfold float_repr.
  repeat match goal with
         | |- context [match ?E with pair _ _ => _ end] => destruct E as [? ?]
         | |- context [if ?b then _ else _] => destruct b
         end; congruence.
Qed.

Lemma xl_render_defined v : scalar v -> concat_modelled v = true -> exists s, xl_render v = Ok s.
Proof.
  intros Hs Hm. unfold xl_render. destruct (is_blank v) eqn:Eb; [eauto|].
  destruct v; cbn [scalar] in Hs; try contradiction; try discriminate Eb; eauto.
  cbn [concat_modelled] in Hm. destruct (integral q); [eauto|]. cbn [orb] in Hm.
  destruct (float_repr q); [eauto|discriminate].
Qed.
Lemma xl_render_undefined v : scalar v -> concat_modelled v = false -> xl_render v = Raise Unmodelled.
Proof.
  intros Hs Hm. destruct v; cbn [scalar concat_modelled] in *; try contradiction; try discriminate.
  apply orb_false_iff in Hm. destruct Hm as [Hi Hf]. unfold xl_render. cbn [is_blank py_eq as_num].
  replace (py_eq (VFloat q) excelutil.c_EMPTY) with false by reflexivity. rewrite Hi.
  destruct (float_repr q) as [s|e] eqn:E; [discriminate|]. rewrite (float_repr_raise q e E). reflexivity.
Qed.

Lemma concat_total l r : scalar l -> scalar r ->
  in_error_codes l = Ok false -> in_error_codes r = Ok false ->
  concat_modelled l = true -> concat_modelled r = true ->
  exists s, fixup l BitAnd r = Ok (VStr s).
Proof.
  intros Hsl Hsr Hel Her Hml Hmr. rewrite (concat_spec l r Hsl Hsr Hel Her).
  destruct (xl_render_defined l Hsl Hml) as (a & ->). destruct (xl_render_defined r Hsr Hmr) as (b & ->).
  cbn [bind]. eauto.
Qed.
Lemma concat_unmodelled l r : scalar l -> scalar r ->
  in_error_codes l = Ok false -> in_error_codes r = Ok false ->
  concat_modelled l = false \/ concat_modelled r = false ->
  fixup l BitAnd r = Raise Unmodelled.
Proof.
  intros Hsl Hsr Hel Her Hm. rewrite (concat_spec l r Hsl Hsr Hel Her).
  destruct (concat_modelled l) eqn:El.
  - destruct Hm as [Hm|Hm]; [discriminate|].
    destruct (xl_render_defined l Hsl El) as (a & ->). cbn [bind].
    rewrite (xl_render_undefined r Hsr Hm). reflexivity.
  - rewrite (xl_render_undefined l Hsl El). reflexivity.
Qed.

(* integral floats render without ".0", whatever their magnitude *)
Lemma integral_inject q z : (q == inject_Z z)%Q -> integral q = true /\ q_trunc q = z.
Proof.
  intros H. assert (Ht : q_trunc q = z) by (rewrite (q_trunc_comp q (inject_Z z) H); apply q_trunc_inject).
  split; [|exact Ht]. unfold integral. rewrite Ht. apply q_eqb_eq. symmetry. exact H.
Qed.
Lemma render_integral_float q z : (q == inject_Z z)%Q -> xl_render (VFloat q) = Ok (str_of_Z z).
Proof.
  intros H. destruct (integral_inject q z H) as [Hi Ht]. unfold xl_render.
  replace (is_blank (VFloat q)) with false by reflexivity. rewrite Hi, Ht. reflexivity.
Qed.
Lemma concat_integral_float q z r b : (q == inject_Z z)%Q -> scalar r ->
  in_error_codes r = Ok false -> xl_render r = Ok b ->
  fixup (VFloat q) BitAnd r = Ok (VStr (str_of_Z z ++ b))
  /\ fixup r BitAnd (VFloat q) = Ok (VStr (b ++ str_of_Z z)).
Proof.
  intros H Hs He Hb.
  rewrite (concat_spec (VFloat q) r I Hs eq_refl He), (concat_spec r (VFloat q) Hs I He eq_refl).
  rewrite (render_integral_float q z H), Hb. split; reflexivity.
Qed.
