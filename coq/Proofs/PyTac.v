(* Proofs/PyTac.v — symbolic execution of translated code.
   [py_step] unfolds only the structural combinators and the Python
   operations that dispatch on constructors; integer arithmetic stays folded
   (so that lia sees it) and closed integer tests are evaluated. *)
From Coq Require Import ZArith QArith List Bool Lia.
From PV Require Import Lib.Py.
Import ListNotations.
Open Scope Z_scope.

Ltac is_plit p := match p with xH => idtac | xO ?q => is_plit q | xI ?q => is_plit q end.
Ltac is_zlit z := match z with Z0 => idtac | Zpos ?p => is_plit p | Zneg ?p => is_plit p end.
Ltac is_natlit n := match n with O => idtac | S ?m => is_natlit m end.

(* closed integer tests and small closed arithmetic are evaluated; operands
   must be literals syntactically (vm_compute on a comparison with a symbolic
   operand normalises under the match and explodes) *)
Ltac zlit_one :=
  match goal with
  | |- context [Z.of_nat ?a] =>
      is_natlit a;
      let r := eval vm_compute in (Z.of_nat a) in change (Z.of_nat a) with r
  | |- context [Z.to_nat ?a] =>
      is_zlit a;
      let r := eval vm_compute in (Z.to_nat a) in change (Z.to_nat a) with r
  | |- context [Z.add ?a ?b] =>
      is_zlit a; is_zlit b;
      let r := eval vm_compute in (Z.add a b) in change (Z.add a b) with r
  | |- context [Z.sub ?a ?b] =>
      is_zlit a; is_zlit b;
      let r := eval vm_compute in (Z.sub a b) in change (Z.sub a b) with r
  | |- context [Z.shiftl ?a ?b] =>
      is_zlit a; is_zlit b;
      let r := eval vm_compute in (Z.shiftl a b) in change (Z.shiftl a b) with r
  | |- context [Z.lnot ?a] =>
      is_zlit a;
      let r := eval vm_compute in (Z.lnot a) in change (Z.lnot a) with r
  | |- context [Z.opp ?a] =>
      is_zlit a;
      let r := eval vm_compute in (Z.opp a) in change (Z.opp a) with r
  | |- context [Z.eqb ?a ?b] =>
      is_zlit a; is_zlit b;
      let r := eval vm_compute in (Z.eqb a b) in change (Z.eqb a b) with r
  | |- context [Z.ltb ?a ?b] =>
      is_zlit a; is_zlit b;
      let r := eval vm_compute in (Z.ltb a b) in change (Z.ltb a b) with r
  | |- context [Z.leb ?a ?b] =>
      is_zlit a; is_zlit b;
      let r := eval vm_compute in (Z.leb a b) in change (Z.leb a b) with r
  end.
Ltac zlit := repeat zlit_one.

Ltac py_cbn :=
  cbn [bind lift1 lift2 cmp2 eq2 ne2 val_of cond_of b_and b_or b_not py_and py_or
       try_except catches existsb exn_eqb is_none
       py_eq py_lt py_le py_gt py_ge scalar_lt as_num num_q arith
       py_add py_sub py_mul py_neg py_pos py_abs py_invert py_bitand py_bitor bitop
       py_lshift py_rshift py_truthy hashable py_in py_isinstance has_ty
       py_getitem as_index dict_get py_iter py_list py_tuple py_flatten flatten
       py_int py_bool py_call py_bin py_oct py_hex py_slice opt_index
       py_len zlen length index_nth nth_error
       str_eqb negb andb orb app fst snd].

Lemma index_nth_0 {A} (x : A) l : index_nth (x :: l) 0 = Some x.
Proof.
  unfold index_nth, zlen. cbn [length]. rewrite Nat2Z.inj_succ.
  replace (0 <? 0) with false by reflexivity.
  replace (Z.succ (Z.of_nat (length l)) <=? 0) with false by (symmetry; apply Z.leb_gt; lia).
  reflexivity.
Qed.
Lemma index_nth_1 {A} (x y : A) l : index_nth (x :: y :: l) 1 = Some y.
Proof.
  unfold index_nth, zlen. cbn [length]. rewrite !Nat2Z.inj_succ.
  replace (1 <? 0) with false by reflexivity.
  replace (Z.succ (Z.succ (Z.of_nat (length l))) <=? 1) with false by (symmetry; apply Z.leb_gt; lia).
  reflexivity.
Qed.
Lemma index_nth_2 {A} (x y z : A) l : index_nth (x :: y :: z :: l) 2 = Some z.
Proof.
  unfold index_nth, zlen. cbn [length]. rewrite !Nat2Z.inj_succ.
  replace (2 <? 0) with false by reflexivity.
  replace (Z.succ (Z.succ (Z.succ (Z.of_nat (length l)))) <=? 2) with false by (symmetry; apply Z.leb_gt; lia).
  reflexivity.
Qed.

Ltac py_step := py_cbn; rewrite ?index_nth_0, ?index_nth_1, ?index_nth_2; zlit; cbn [negb andb orb].
Ltac py_run := repeat (progress py_step).

Lemma slice_drop2 {A} (a b : A) D : slice_list (a :: b :: D) (Some 2) None = D.
Proof.
  unfold slice_list, clamp_idx, zlen. cbn [length].
  rewrite !Nat2Z.inj_succ.
  replace (2 <? 0) with false by reflexivity.
  rewrite Z.min_r, Z.max_r by lia.
  replace (Z.to_nat 2) with 2%nat by reflexivity. cbn [skipn].
  replace (Z.succ (Z.succ (Z.of_nat (length D))) - 2) with (Z.of_nat (length D)) by lia.
  rewrite Nat2Z.id. apply firstn_all.
Qed.
