(* Proofs/C06Ready.v — the hypothesis [cone_ready] of the end-to-end theorems is
   what every history of evaluates and constant writes from the initial state
   produces: [calm] (no cell on the stack) and [consts_ok] (the constants carry
   the valuation: built ones by their value, unbuilt ones by what the file
   stored) hold initially, are kept by every returning evaluate — of any
   workbook, cyclic or with ranges, built target or first use (graph
   construction included) — and by writes to constants (for the new valuation). *)
From Coq Require Import ZArith QArith Qabs List Bool Lia Lqa.
From PV Require Import Lib.Py Model.Iter Proofs.C06 Proofs.C06Lin Proofs.C06Struct Proofs.C06Cone Proofs.C06Conv.
Import ListNotations.
Open Scope Q_scope.

(* ------------------------------------------------------------------ *)
(* 1. Relations kept by every evaluation (generic).                     *)

Section Rel.
Variable w : wbook.
Variable R : state -> state -> Prop.
Hypothesis Rrefl : forall st, R st st.
Hypothesis Rtrans : forall a b c, R a b -> R b c -> R a c.
Hypothesis Rsetr : forall st r x, R st (setr st r x).
Hypothesis Rbracket : forall c st s2 b ts v,
  built (getc st c) = true -> needs_calc st c = true -> formula (spec w c) = Some (b, ts) ->
  R (start_calcs c st) s2 -> R st (setter c v s2).

Section Rec.
Variable rec_c : nat -> state -> res (val * state).
Hypothesis Hrec : forall c st v st', rec_c c st = Ok (v, st') -> R st st'.

Lemma eval_members_rel : forall ms st vs st',
  eval_members rec_c ms st = Ok (vs, st') -> R st st'.
Proof.
  induction ms as [|m ms IH]; intros st vs st' E; cbn in E.
  - inversion E; subst; apply Rrefl.
  - destruct (rec_c m st) as [[v s1]|e] eqn:E1; [|discriminate].
    destruct (eval_members rec_c ms s1) as [[vs2 s2]|e] eqn:E2; [|discriminate].
    inversion E; subst. eapply Rtrans; [eapply Hrec; eauto|eapply IH; eauto].
Qed.

Lemma eval_range_rel : forall r st vs st',
  eval_range w rec_c r st = Ok (vs, st') -> R st st'.
Proof.
  intros r st vs st' E. unfold eval_range in E.
  destruct (negb (rbuilt (getr st r))); [discriminate|].
  destruct (rvalue (getr st r)).
  - inversion E; subst; apply Rrefl.
  - destruct (eval_members rec_c (members w r) st) as [[vs1 s1]|e] eqn:E1; [|discriminate].
    inversion E; subst. eapply Rtrans; [eapply eval_members_rel; eauto|apply Rsetr].
Qed.

Lemma eval_terms_rel : forall ts acc st q st',
  eval_terms w rec_c ts acc st = Ok (q, st') -> R st st'.
Proof.
  induction ts as [|[a j|a r] ts IH]; intros acc st q st' E; cbn in E.
  - inversion E; subst; apply Rrefl.
  - destruct (rec_c j st) as [[v s1]|e] eqn:E1; [|discriminate].
    eapply Rtrans; [eapply Hrec; eauto|eapply IH; eauto].
  - destruct (eval_range w rec_c r st) as [[vs s1]|e] eqn:E1; [|discriminate].
    eapply Rtrans; [eapply eval_range_rel; eauto|eapply IH; eauto].
Qed.

Lemma eval_body_rel : forall c st v st',
  eval_body w rec_c c st = Ok (v, st') -> R st st'.
Proof.
  intros c st v st' E. unfold eval_body in E.
  destruct (built (getc st c)) eqn:B; cbn [negb] in E; [|discriminate].
  destruct (needs_calc st c) eqn:N.
  - destruct (formula (spec w c)) as [[b ts]|] eqn:F.
    + destruct (eval_terms w rec_c ts (Qred b) (start_calcs c st)) as [[q s2]|e] eqn:E1; [|discriminate].
      inversion E; subst. eapply Rbracket; eauto. eapply eval_terms_rel; eauto.
    + inversion E; subst; apply Rrefl.
  - inversion E; subst; apply Rrefl.
Qed.
End Rec.

Lemma eval_cell_rel : forall fuel c st v st',
  eval_cell w fuel c st = Ok (v, st') -> R st st'.
Proof.
  induction fuel as [|f IH]; intros c st v st' E; cbn [eval_cell] in E; [discriminate|].
  eapply eval_body_rel; eauto.
Qed.
End Rel.

(* an evaluation never touches a constant cell *)
Definition const_same (w : wbook) (st st' : state) : Prop :=
  forall c, is_formula w c = false -> getc st' c = getc st c.

Lemma eval_cell_const_same : forall w fuel c st v st',
  eval_cell w fuel c st = Ok (v, st') -> const_same w st st'.
Proof.
  intros w. apply (eval_cell_rel w (const_same w)).
  - intros st c _. reflexivity.
  - intros a b c H1 H2 x Hx. rewrite (H2 x Hx). apply H1; exact Hx.
  - intros st r x c _. reflexivity.
  - intros c st s2 b ts v B N F H c' Hc'.
    assert (Hne : c <> c').
    { intros <-. unfold is_formula in Hc'. rewrite F in Hc'. discriminate. }
    rewrite getc_setter_other by exact Hne. rewrite (H c' Hc'). apply getc_start_other; exact Hne.
Qed.

(* ------------------------------------------------------------------ *)
(* 2. Predicates kept by complete evaluations, cell construction and    *)
(*    range bookkeeping are kept by graph construction and by the       *)
(*    whole iterative evaluate.                                         *)

Record gstable (w : wbook) (Q : state -> Prop) : Prop := {
  gs_build : forall c st, Q st -> built (getc st c) = false -> (c < length (cells st))%nat ->
             Q (build_cell w c st);
  gs_setr : forall r x st, Q st -> Q (setr st r x);
  gs_tr : forall t st, Q st -> Q (sett st t);
  gs_eval : forall fuel c st v st', Q st -> eval_cell w fuel c st = Ok (v, st') -> Q st' }.

Section G.
Variable w : wbook.
Variable Q : state -> Prop.
Hypothesis HQ : gstable w Q.

Lemma make_cell_g : forall c g, Q (fst (fst g)) -> Q (fst (fst (make_cell w c g))).
Proof.
  intros c [[st gt] rt] H. unfold make_cell. cbn [fst] in *.
  destruct (built (getc st c)) eqn:B; cbn [orb]; [exact H|].
  destruct (c <? length (cells st))%nat eqn:L; cbn [negb fst]; [|exact H].
  apply (gs_build w Q HQ); auto. apply Nat.ltb_lt; exact L.
Qed.

Lemma fold_make_cell_g : forall ms g, Q (fst (fst g)) ->
  Q (fst (fst (fold_left (fun g m => make_cell w m g) ms g))).
Proof.
  induction ms as [|m ms IH]; intros g H; cbn [fold_left]; [exact H|].
  apply IH. apply make_cell_g; exact H.
Qed.

Lemma make_node_g : forall n g, Q (fst (fst g)) -> Q (fst (fst (make_node w n g))).
Proof.
  intros [c|r] [[st gt] rt] H; cbn [make_node].
  - apply make_cell_g; exact H.
  - destruct (rbuilt (getr st r)); [exact H|].
    apply fold_make_cell_g. cbn [fst] in *. apply (gs_setr w Q HQ); exact H.
Qed.

Lemma fold_make_node_g : forall ns g, Q (fst (fst g)) ->
  Q (fst (fst (fold_left (fun g n => make_node w n g) ns g))).
Proof.
  induction ns as [|n ns IH]; intros g H; cbn [fold_left]; [exact H|].
  apply IH. apply make_node_g; exact H.
Qed.

Lemma process_g : forall fuel g st' rt',
  Q (fst (fst g)) -> process w fuel g = Ok (st', rt') -> Q st'.
Proof.
  induction fuel as [|f IH]; intros [[st gt] rt] st' rt' H E; cbn [process] in E; [discriminate|].
  destruct gt as [|dep gt'].
  - inversion E; subst; exact H.
  - eapply IH; [|exact E]. apply fold_make_node_g. exact H.
Qed.

Lemma eval_members_g : forall fuel ms st vs st',
  Q st -> eval_members (eval_cell w fuel) ms st = Ok (vs, st') -> Q st'.
Proof.
  intros fuel; induction ms as [|m ms IH]; intros st vs st' H E; cbn in E.
  - inversion E; subst; exact H.
  - destruct (eval_cell w fuel m st) as [[v s1]|e] eqn:E1; [|discriminate].
    destruct (eval_members (eval_cell w fuel) ms s1) as [[vs2 s2]|e] eqn:E2; [|discriminate].
    inversion E; subst. eapply IH; [|exact E2]. eapply (gs_eval w Q HQ); eauto.
Qed.

Lemma eval_ranges_g : forall rs st st', Q st -> eval_ranges w rs st = Ok st' -> Q st'.
Proof.
  induction rs as [|r rs IH]; intros st st' H E; cbn [eval_ranges] in E.
  - inversion E; subst; exact H.
  - destruct (eval_range w (eval_cell w (eval_fuel w)) r st) as [[vs s1]|e] eqn:E1; [|discriminate].
    eapply IH; [|exact E]. unfold eval_range in E1.
    destruct (negb (rbuilt (getr st r))); [discriminate|].
    destruct (rvalue (getr st r)).
    + inversion E1; subst; exact H.
    + destruct (eval_members (eval_cell w (eval_fuel w)) (members w r) st) as [[vs1 s2]|e] eqn:E2; [|discriminate].
      inversion E1; subst. apply (gs_setr w Q HQ). eapply eval_members_g; eauto.
Qed.

Lemma gen_graph_g : forall seed st st', Q st -> gen_graph w seed st = Ok st' -> Q st'.
Proof.
  intros seed st st' H E. unfold gen_graph in E.
  destruct (process w (gen_fuel w) (make_cell w seed (st, [], []))) as [[s1 rt]|e] eqn:E1; [|discriminate].
  eapply eval_ranges_g; [|exact E]. eapply process_g; [|exact E1].
  apply make_cell_g. exact H.
Qed.

Lemma evaluate_pass_g : forall t st v st', Q st -> evaluate_pass w t st = Ok (v, st') -> Q st'.
Proof.
  intros t st v st' H E. unfold evaluate_pass in E.
  destruct (built (getc st t)).
  - eapply (gs_eval w Q HQ); eauto.
  - destruct (gen_graph w t st) as [s1|e] eqn:E1; [|discriminate].
    eapply (gs_eval w Q HQ); [|exact E]. eapply gen_graph_g; eauto.
Qed.

Lemma iterative_g : forall t it tolv st v st',
  Q st -> evaluate_iterative w t it tolv st = Ok (v, st') -> Q st'.
Proof.
  intros t it tolv st v st' H E. unfold evaluate_iterative in E.
  apply (pass_loop_keeps w t Q) in E; auto.
  - intros s u s1 Hs E1. eapply evaluate_pass_g; [|exact E1]. apply (gs_tr w Q HQ). exact Hs.
  - apply (gs_tr w Q HQ). exact H.
Qed.
End G.

(* a returning evaluate leaves its target built *)
Lemma evaluate_pass_built : forall w t st v st', evaluate_pass w t st = Ok (v, st') -> built (getc st' t) = true.
Proof.
  intros w t st v st' E. unfold evaluate_pass in E.
  assert (H : forall s, eval_cell w (eval_fuel w) t s = Ok (v, st') -> built (getc st' t) = true).
  { intros s Ev. pose proof (eval_cell_ext _ _ _ _ _ _ Ev) as ((_ & B) & _). rewrite B.
    unfold eval_fuel in Ev. cbn [eval_cell] in Ev. unfold eval_body in Ev.
    destruct (built (getc s t)); [reflexivity|discriminate]. }
  destruct (built (getc st t)); [eapply H; eauto|].
  destruct (gen_graph w t st) as [s1|e]; [|discriminate]. eapply H; eauto.
Qed.

Lemma iterative_built : forall w t it tolv st v st',
  evaluate_iterative w t it tolv st = Ok (v, st') -> built (getc st' t) = true.
Proof.
  intros w t it tolv st v st' E. unfold evaluate_iterative in E.
  destruct (pass_loop_last w t (fun _ => True) (fun _ _ _ _ _ => I) _ _ _ _ I E) as (s & _ & E1).
  eapply evaluate_pass_built; eauto.
Qed.

(* ------------------------------------------------------------------ *)
(* 3. calm and consts_ok.                                               *)

Definition calm (st : state) : Prop := forall c, wip (getc st c) = false.
Definition consts_ok (w : wbook) (xs : nat -> Q) (st : state) : Prop :=
  forall c, is_formula w c = false ->
    (built (getc st c) = true -> num (value (getc st c)) == xs c) /\
    (built (getc st c) = false -> num (stored (spec w c)) == xs c).

Lemma getc_build_same : forall w c st, (c < length (cells st))%nat ->
  getc (build_cell w c st) c = {| built := true; value := stored (spec w c); prev := None; wip := false |}.
Proof.
  intros w c st L. unfold build_cell.
  rewrite getc_setter_same by (cbn; rewrite upd_length; exact L).
  rewrite getc_setc_same by exact L. reflexivity.
Qed.
Lemma getc_build_other : forall w c c' st, c <> c' -> getc (build_cell w c st) c' = getc st c'.
Proof.
  intros w c c' st Hne. unfold build_cell. rewrite getc_setter_other by exact Hne.
  apply getc_setc_other; exact Hne.
Qed.

Lemma ready_gstable : forall w xs, gstable w (fun st => calm st /\ consts_ok w xs st).
Proof.
  intros w xs; split.
  - intros c st [Hc Hk] B L. split.
    + intros c'. destruct (Nat.eq_dec c c') as [<-|Hne].
      * rewrite getc_build_same by exact L. reflexivity.
      * rewrite getc_build_other by exact Hne. apply Hc.
    + intros c' Hf. destruct (Nat.eq_dec c c') as [<-|Hne].
      * rewrite getc_build_same by exact L. cbn [built value]. split; [|discriminate].
        intros _. apply (Hk c Hf). exact B.
      * rewrite getc_build_other by exact Hne. apply Hk; exact Hf.
  - intros r x st H. exact H.
  - intros t st H. exact H.
  - intros fuel c st v st' [Hc Hk] E. split.
    + intros c'. destruct (eval_cell_ext _ _ _ _ _ _ E) as (_ & W & _). rewrite W. apply Hc.
    + intros c' Hf. rewrite (eval_cell_const_same _ _ _ _ _ _ E c' Hf). apply Hk; exact Hf.
Qed.

Lemma getc_init : forall w c, getc (init_state w) c = cell0.
Proof.
  intros w c. unfold getc, init_state. cbn [cells]. revert c.
  induction (w_cells w) as [|h t IH]; intros [|c]; cbn; auto.
Qed.

Lemma ready_init : forall w xs,
  (forall c, is_formula w c = false -> num (stored (spec w c)) == xs c) ->
  calm (init_state w) /\ consts_ok w xs (init_state w).
Proof.
  intros w xs H. split.
  - intros c. rewrite getc_init. reflexivity.
  - intros c Hf. rewrite getc_init. cbn [built]. split; [discriminate|]. intros _. apply H; exact Hf.
Qed.

Lemma ready_evaluate : forall w xs t it tolv st v st',
  calm st -> consts_ok w xs st -> evaluate_iterative w t it tolv st = Ok (v, st') ->
  calm st' /\ consts_ok w xs st' /\ built (getc st' t) = true.
Proof.
  intros w xs t it tolv st v st' Hc Hk E.
  destruct (iterative_g w _ (ready_gstable w xs) t it tolv st v st' (conj Hc Hk) E) as [Hc' Hk'].
  split; [exact Hc'|]. split; [exact Hk'|]. eapply iterative_built; eauto.
Qed.

Lemma ready_write : forall w xs xs' c v st st',
  calm st -> consts_ok w xs st -> is_formula w c = false -> set_value c v st = Ok st' ->
  xs' c == num v ->
  (forall c', c' <> c -> is_formula w c' = false -> xs' c' == xs c') ->
  calm st' /\ consts_ok w xs' st'.
Proof.
  intros w xs xs' c v st st' Hc Hk Fc Ev Hv Ho. unfold set_value in Ev.
  destruct (built (getc st c)) eqn:Bc; cbn [negb] in Ev; [|discriminate].
  pose proof (built_in_range _ _ Bc) as L.
  destruct (val_eqb (readv st c) v) eqn:Eq.
  - inversion Ev; subst. split; [exact Hc|].
    intros c' Hf. destruct (Nat.eq_dec c' c) as [->|Hne].
    + split; [|congruence]. intros _. rewrite Hv. unfold readv in Eq. rewrite Hc in Eq.
      destruct (value (getc st' c)) as [x|], v as [y|]; cbn in Eq |- *; try discriminate; try reflexivity.
      apply Qeq_bool_iff in Eq. exact Eq.
    + destruct (Hk c' Hf) as [K1 K2]. split; intros Hb; rewrite (Ho c' Hne Hf); auto.
  - inversion Ev; subst. clear Ev.
    assert (L1 : (c < length (cells (setter c v st)))%nat) by (cbn; rewrite upd_length; exact L).
    assert (G : forall c', getc (setter c v (setter c v st)) c' =
                           if Nat.eq_dec c c' then {| built := built (getc st c); value := v;
                                                      prev := prev (getc st c); wip := false |}
                           else getc st c').
    { intros c'. destruct (Nat.eq_dec c c') as [<-|Hne].
      - rewrite getc_setter_same by exact L1. rewrite getc_setter_same by exact L. reflexivity.
      - rewrite !getc_setter_other by exact Hne. reflexivity. }
    split.
    + intros c'. rewrite G. destruct (Nat.eq_dec c c'); [reflexivity|apply Hc].
    + intros c' Hf. rewrite G. destruct (Nat.eq_dec c c') as [<-|Hne].
      * cbn [built value]. rewrite Bc. split; [|discriminate]. intros _. rewrite Hv. reflexivity.
      * destruct (Hk c' Hf) as [K1 K2]. split; intros Hb; rewrite (Ho c') by auto; auto.
Qed.

Lemma ready_cone : forall w xs t st,
  calm st -> consts_ok w xs st -> built (getc st t) = true -> cone_ready w xs t st.
Proof.
  intros w xs t st Hc Hk B. split; [exact B|]. split; [exact Hc|].
  intros c _ Hf Hb. apply (Hk c Hf). exact Hb.
Qed.
