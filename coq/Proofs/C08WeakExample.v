(* Proofs/C08WeakExample.v — C08: the hypotheses of the theorems of
   Proofs/C08Weak.v are satisfiable on the two-column workbook of
   Proofs/C01AliasExample.v, which has a whole-column reference and does not
   meet the strong condition of Proofs/C08.v (tests, not theorems).
     0: B1 = 3 (input)   1: B2 = 4 (input)   2: B1:B2 (range node)
     3: B:B (reference node, alias of node 2)
     4: A1 = f4(B:B)     5: A2 = f5(B1:B2, A1)
   trim([B1], [A2]): everything on the way is below B1 and stays a formula;
   B2 is kept as a constant.  trim([A1], [A2]): A1 is a buried input (frozen),
   B:B and the range below it are not needed by A2 through A1 any more. *)
From Coq Require Import List Arith Bool Lia ZArith.
From PV Require Import Lib.Py Model.Graph Model.Trim.
From PV Require Import Proofs.C01Base Proofs.C01Inv Proofs.C01 Proofs.C01Weak Proofs.C01Alias
                       Proofs.C01AliasExample Proofs.C08 Proofs.C08Weak.
Import ListNotations.
Local Open Scope nat_scope.

Example xw_stored : stored_ok exaW exa_sem.
Proof. split; intros; [exfalso|]; auto. Qed.
Example xw_inv : Inv exaW exa_sem (init exaW).
Proof. apply (invariant_weak exaW exa_sem (exa_wf _) (exa_weak _) xw_stored). Qed.
Example xw_not_strong : ~ sem_nonblank exaW exa_sem.
Proof. apply exa_not_strong. Qed.

Definition xT := trim exaW exa_sem [0] [5] (init exaW).

Example xw_kept : map (st_built (tr_st xT)) (seq 0 6) = [true; true; true; true; true; true].
Proof. vm_compute. reflexivity. Qed.
Example xw_frozen : map (tr_frz xT) (seq 0 6) = [true; true; false; false; false; false].
Proof. vm_compute. reflexivity. Qed.

Example xw_inputs : forall a, In a [0] -> wb_input exaW a = true /\ exists o, In o [5] /\ anc exaW a o.
Proof.
  intros a [<-|[]]. split; [reflexivity|]. exists 5. split; [left; auto|].
  apply anc_trans with (b := 2); [constructor|]; cbn; auto.
Qed.
Example xw_exact : inputs_exact exaW (st_cache (init exaW)).
Proof. intros m _ _. destruct m as [|[|m]]; reflexivity. Qed.
Example xw_late : forall a, In a [0] -> late_ok exaW (build_all exaW exa_sem [5] (init exaW)) a.
Proof. intros a _ d _ _ _. right. reflexivity. Qed.

Definition xw_h : list gop :=
  [ Evaluate 5; SetValue 0 (VInt 10); Evaluate 5; SetValue 0 VNone; Evaluate 5;
    SetValue 0 (VStr []); Evaluate 5 ].
Example xw_h_ok : Forall (io_op [0] [5]) xw_h.
Proof. repeat constructor. Qed.

Example xw_trace : snd (run (tr_wb xT) exa_sem (tr_st xT) xw_h)
  = [VInt 23; VNone; VInt 37; VNone; VInt 17; VNone; VInt 17].
Proof. vm_compute. reflexivity. Qed.

(* the theorems applied *)
Example xw_preserved :
  snd (run (tr_wb xT) exa_sem (tr_st xT) xw_h)
  = snd (run exaW exa_sem (build_all exaW exa_sem [5] (init exaW)) xw_h).
Proof.
  apply (preserve_machine_weak exaW exa_sem (exa_wf _) (exa_weak _) xw_stored [0] [5] (init exaW) xw_inv).
  - intros o [<-|[]]. cbn. lia.
  - apply xw_inputs.
  - intros a [<-|[]]. reflexivity.
  - apply xw_exact.
  - apply xw_late.
  - apply xw_h_ok.
Qed.

Example xw_preserved_spec :
  snd (run (tr_wb xT) exa_sem (tr_st xT) xw_h)
  = run_spec exaW exa_sem (st_cache (build_all exaW exa_sem [5] (init exaW))) xw_h.
Proof.
  apply (preserve_spec_weak exaW exa_sem (exa_wf _) (exa_weak _) xw_stored [0] [5] (init exaW) xw_inv).
  - intros o [<-|[]]. cbn. lia.
  - apply xw_inputs.
  - intros a [<-|[]]. reflexivity.
  - apply xw_h_ok.
Qed.

Example xw_frozen_independent :
  (forall a, In a [0] -> ~ anc exaW a 1) /\
  (~ In 1 [0] -> forall inp inp', (forall m, ~ In m [0] -> inp m = inp' m) ->
                  spec exaW exa_sem inp 1 = spec exaW exa_sem inp' 1).
Proof.
  apply (frozen_independent_weak exaW exa_sem (exa_wf _) (exa_weak _) xw_stored [0] [5] (init exaW) xw_inv).
  - intros o [<-|[]]. cbn. lia.
  - vm_compute. reflexivity.
Qed.

(* ---- a buried input: A1, the formula cell that reads the whole column *)
Definition xB := trim exaW exa_sem [4] [5] (init exaW).
Example xb_hyp : forall a, In a [4] -> wb_input (tr_wb xB) a = true /\ st_built (tr_st xB) a = true
                                      /\ scalar_exact (st_cache (tr_st xB) a) = true.
Proof. intros a [<-|[]]. repeat split; vm_compute; reflexivity. Qed.
Definition xb_h : list gop := [Evaluate 5; SetValue 4 (VInt 100); Evaluate 5; SetValue 4 (VBool true); Evaluate 5].
Example xb_h_ok : Forall (io_op [4] [5]) xb_h /\ Forall (nonblank_write exaW) xb_h.
Proof.
  split; [repeat constructor|].
  unfold xb_h. repeat (apply Forall_cons; [cbn; try exact I; right; discriminate|]). constructor.
Qed.
Example xb_coherent :
  snd (run (tr_wb xB) exa_sem (tr_st xB) xb_h) = run_spec (tr_wb xB) exa_sem (st_cache (tr_st xB)) xb_h.
Proof.
  apply (trimmed_coherent_weak exaW exa_sem (exa_wf _) (exa_weak _) xw_stored [4] [5] (init exaW) xw_inv).
  - intros o [<-|[]]. cbn. lia.
  - apply xb_hyp.
  - apply xb_h_ok.
  - apply xb_h_ok.
Qed.
Example xb_trace : snd (run (tr_wb xB) exa_sem (tr_st xB) xb_h)
  = [VInt 23; VNone; VInt 112; VNone; VInt 12].
Proof. vm_compute. reflexivity. Qed.
