(* Proofs/C11Unbounded.v — the rectangle operators of Model/Addr.v on UNBOUNDED
   ranges (whole columns A:C, whole rows 2:5), as pycel represents them: a corner
   coordinate 0 stands for "no limit on this axis" (AddressRange.size: `0 in
   (end.row, start.row)` -> height = MAX_ROW).

   An axis of an address is a pair (lo, hi).  It is either bounded,
   1 <= lo <= hi <= M, or of the unbounded form lo = 0 (hi = 0 when it comes from
   the parser; M-1 or M when it comes out of & or ** ).  Its cells, clipped to the
   sheet, are [ax_in].  _union_instersection computes with the "extent"
   lo .. lo + size - 1, which for an unbounded axis is 0 .. M-1, NOT 1 .. M:
   that is what the theorems below state exactly (the cell of the last row /
   column is lost when an unbounded axis meets a bounded one), and what
   Refuted/C11_unbounded.v exhibits. *)
From Coq Require Import ZArith List Bool Lia.
From PV Require Import Lib.Py Model.Addr Proofs.C11 Proofs.C11Lattice.
Import ListNotations.
Open Scope Z_scope.

(* ------------------------------------------------------------------ one axis *)
Definition ax_unb (lo hi : Z) : bool := (hi =? 0) || (lo =? 0).     (* the test of AddressRange.size *)
Definition ax_size (M lo hi : Z) : Z := if ax_unb lo hi then M else hi - lo + 1.
Definition ax_ok (M lo hi : Z) : Prop := (1 <= lo <= hi /\ hi <= M) \/ (lo = 0 /\ 0 <= hi <= M).
(* x is a coordinate of the axis, clipped to the sheet: an unbounded axis = 1..M *)
Definition ax_in (M lo hi x : Z) : Prop := 1 <= x <= M /\ (lo = 0 \/ hi = 0 \/ lo <= x <= hi).

Lemma ax_size_b M lo hi : lo <> 0 -> hi <> 0 -> ax_size M lo hi = hi - lo + 1.
Proof.
  intros A B. unfold ax_size, ax_unb.
  replace (hi =? 0) with false by (symmetry; apply Z.eqb_neq; exact B).
  replace (lo =? 0) with false by (symmetry; apply Z.eqb_neq; exact A). reflexivity.
Qed.
Lemma ax_size_u M lo hi : lo = 0 -> ax_size M lo hi = M.
Proof. intros ->. unfold ax_size, ax_unb. rewrite orb_true_r. reflexivity. Qed.
Lemma ax_ok_size M lo hi : ax_ok M lo hi ->
  (1 <= lo <= hi /\ hi <= M /\ ax_size M lo hi = hi - lo + 1) \/ (lo = 0 /\ 0 <= hi <= M /\ ax_size M lo hi = M).
Proof.
  intros [H|H]; [left|right].
  - rewrite ax_size_b by lia. lia.
  - rewrite ax_size_u by lia. lia.
Qed.
Lemma ax_unb_true lo hi : ax_unb lo hi = true <-> lo = 0 \/ hi = 0.
Proof. unfold ax_unb. rewrite orb_true_iff, !Z.eqb_eq. tauto. Qed.
Lemma ax_unb_false lo hi : ax_unb lo hi = false <-> lo <> 0 /\ hi <> 0.
Proof. unfold ax_unb. rewrite orb_false_iff, !Z.eqb_neq. tauto. Qed.

(* & on one axis *)
Definition mlo (lo1 lo2 : Z) : Z := Z.max lo1 lo2.
Definition mhi (M lo1 hi1 lo2 hi2 : Z) : Z := Z.min (lo1 + ax_size M lo1 hi1) (lo2 + ax_size M lo2 hi2) - 1.
(* ** on one axis *)
Definition jlo (lo1 lo2 : Z) : Z := Z.min lo1 lo2.
Definition jhi (M lo1 hi1 lo2 hi2 : Z) : Z := Z.max (lo1 + ax_size M lo1 hi1) (lo2 + ax_size M lo2 hi2) - 1.

(* the coordinate M survives & unless exactly one of the two axes is unbounded *)
Definition kept (M lo1 lo2 x : Z) : Prop := x < M \/ (lo1 = 0 <-> lo2 = 0).

Lemma meet_axis_ok M lo1 hi1 lo2 hi2 : 2 <= M -> ax_ok M lo1 hi1 -> ax_ok M lo2 hi2 ->
  mlo lo1 lo2 <= mhi M lo1 hi1 lo2 hi2 ->
  ax_ok M (mlo lo1 lo2) (mhi M lo1 hi1 lo2 hi2)
  /\ (mlo lo1 lo2 = mhi M lo1 hi1 lo2 hi2 -> 1 <= mlo lo1 lo2)
  /\ 0 <= mlo lo1 lo2 <= M /\ 0 <= mhi M lo1 hi1 lo2 hi2 <= M.
Proof.
  intros HM H1 H2. unfold mlo, mhi, ax_ok.
  destruct (ax_ok_size _ _ _ H1) as [(A & B & ->)|(A & B & ->)];
    destruct (ax_ok_size _ _ _ H2) as [(C & D & ->)|(C & D & ->)]; lia.
Qed.
Lemma meet_axis_in M lo1 hi1 lo2 hi2 x : 2 <= M -> ax_ok M lo1 hi1 -> ax_ok M lo2 hi2 ->
  (mlo lo1 lo2 <= mhi M lo1 hi1 lo2 hi2 /\ ax_in M (mlo lo1 lo2) (mhi M lo1 hi1 lo2 hi2) x)
  <-> (ax_in M lo1 hi1 x /\ ax_in M lo2 hi2 x /\ kept M lo1 lo2 x).
Proof.
  intros HM H1 H2. unfold mlo, mhi, ax_in, kept.
  destruct (ax_ok_size _ _ _ H1) as [(A & B & ->)|(A & B & ->)];
    destruct (ax_ok_size _ _ _ H2) as [(C & D & ->)|(C & D & ->)]; lia.
Qed.
Lemma meet_axis_witness M lo1 hi1 lo2 hi2 : 2 <= M -> ax_ok M lo1 hi1 -> ax_ok M lo2 hi2 ->
  mlo lo1 lo2 <= mhi M lo1 hi1 lo2 hi2 -> exists x, ax_in M (mlo lo1 lo2) (mhi M lo1 hi1 lo2 hi2) x.
Proof.
  intros HM H1 H2 Hne. exists (Z.max 1 (mlo lo1 lo2)). revert Hne. unfold mlo, mhi, ax_in.
  destruct (ax_ok_size _ _ _ H1) as [(A & B & ->)|(A & B & ->)];
    destruct (ax_ok_size _ _ _ H2) as [(C & D & ->)|(C & D & ->)]; lia.
Qed.

Lemma join_axis_ok M lo1 hi1 lo2 hi2 : 2 <= M -> ax_ok M lo1 hi1 -> ax_ok M lo2 hi2 ->
  ax_ok M (jlo lo1 lo2) (jhi M lo1 hi1 lo2 hi2)
  /\ jlo lo1 lo2 <= jhi M lo1 hi1 lo2 hi2
  /\ (jlo lo1 lo2 = jhi M lo1 hi1 lo2 hi2 -> 1 <= jlo lo1 lo2)
  /\ 0 <= jlo lo1 lo2 <= M /\ 0 <= jhi M lo1 hi1 lo2 hi2 <= M.
Proof.
  intros HM H1 H2. unfold jlo, jhi, ax_ok.
  destruct (ax_ok_size _ _ _ H1) as [(A & B & ->)|(A & B & ->)];
    destruct (ax_ok_size _ _ _ H2) as [(C & D & ->)|(C & D & ->)]; lia.
Qed.
Lemma join_axis_upper M lo1 hi1 lo2 hi2 x : 2 <= M -> ax_ok M lo1 hi1 -> ax_ok M lo2 hi2 ->
  ax_in M lo1 hi1 x \/ ax_in M lo2 hi2 x -> ax_in M (jlo lo1 lo2) (jhi M lo1 hi1 lo2 hi2) x.
Proof.
  intros HM H1 H2. unfold jlo, jhi, ax_in.
  destruct (ax_ok_size _ _ _ H1) as [(A & B & ->)|(A & B & ->)];
    destruct (ax_ok_size _ _ _ H2) as [(C & D & ->)|(C & D & ->)]; lia.
Qed.
(* the join is unbounded iff one of the two is; bounded joins are the usual ones *)
Lemma join_axis_least M lo1 hi1 lo2 hi2 lo hi : 2 <= M -> ax_ok M lo1 hi1 -> ax_ok M lo2 hi2 -> ax_ok M lo hi ->
  (forall x, ax_in M lo1 hi1 x \/ ax_in M lo2 hi2 x -> ax_in M lo hi x) ->
  forall x, ax_in M (jlo lo1 lo2) (jhi M lo1 hi1 lo2 hi2) x -> ax_in M lo hi x.
Proof.
  intros HM H1 H2 H3 Hu x. unfold jlo, jhi.
  destruct (ax_ok_size _ _ _ H1) as [(A & B & ->)|(A & B & ->)];
    destruct (ax_ok_size _ _ _ H2) as [(C & D & ->)|(C & D & ->)].
  - (* both bounded: the four end points are in u *)
    assert (P1 : ax_in M lo hi lo1) by (apply Hu; left; unfold ax_in; lia).
    assert (P2 : ax_in M lo hi hi1) by (apply Hu; left; unfold ax_in; lia).
    assert (P3 : ax_in M lo hi lo2) by (apply Hu; right; unfold ax_in; lia).
    assert (P4 : ax_in M lo hi hi2) by (apply Hu; right; unfold ax_in; lia).
    clear Hu H1 H2 H3. unfold ax_in in *. lia.
  - intros Hx. apply Hu. right. unfold ax_in in *. lia.
  - intros Hx. apply Hu. left. unfold ax_in in *. lia.
  - intros Hx. apply Hu. left. unfold ax_in in *. lia.
Qed.

(* ------------------------------------------------ extended rectangles *)
(* a rectangle whose axes may be unbounded; [rect] and [norm] are those of C11Lattice *)
Definition uwf (r : rect) : Prop := ax_ok MAX_COL (x1 r) (x2 r) /\ ax_ok MAX_ROW (y1 r) (y2 r).
Definition unb_rect (r : rect) : bool := ax_unb (x1 r) (x2 r) || ax_unb (y1 r) (y2 r).
(* the cells of an extended rectangle, clipped to the sheet: A:C = A1:C1048576 *)
Definition uinside (r : rect) (c row : Z) : Prop :=
  ax_in MAX_COL (x1 r) (x2 r) c /\ ax_in MAX_ROW (y1 r) (y2 r) row.
(* its address: an unbounded one is always an AddressRange (A:A, 5:5 included) *)
Definition unorm (s : str) (r : rect) : addr :=
  if unb_rect r then ARange s (x1 r) (y1 r) (x2 r) (y2 r) else norm s r.

Lemma wf_uwf r : wf r -> uwf r /\ unb_rect r = false.
Proof.
  intros (A & B & C & D). split; [split; left; lia|].
  unfold unb_rect. apply orb_false_iff. split; apply ax_unb_false; lia.
Qed.
Lemma uwf_bounded r : uwf r -> unb_rect r = false -> wf r.
Proof.
  intros (A & B) E. apply orb_false_iff in E. destruct E as [E1 E2].
  apply ax_unb_false in E1, E2. unfold wf. destruct A as [A|A], B as [B|B]; lia.
Qed.
Lemma unorm_bounded s r : wf r -> unorm s r = norm s r.
Proof. intros H. unfold unorm. destruct (wf_uwf r H) as [_ ->]. reflexivity. Qed.
Lemma uinside_bounded r c row : wf r -> uinside r c row <-> inside r c row.
Proof. intros (A & B & C & D). unfold uinside, inside, ax_in. unfold MAX_COL, MAX_ROW in *. lia. Qed.

Lemma unorm_fields s r : uwf r ->
  a_sheet (unorm s r) = s /\ a_col (unorm s r) = x1 r /\ a_row (unorm s r) = y1 r
  /\ width (unorm s r) = ax_size MAX_COL (x1 r) (x2 r) /\ height (unorm s r) = ax_size MAX_ROW (y1 r) (y2 r).
Proof.
  intros H. unfold unorm. destruct (unb_rect r) eqn:E.
  - repeat split.
  - pose proof (uwf_bounded r H E) as W. destruct (norm_fields s r W) as (A & B & C & D & F).
    apply orb_false_iff in E. destruct E as [E1 E2]. unfold ax_size. rewrite E1, E2. repeat split; assumption.
Qed.

Lemma mk_cell_ok0 s c r : 0 <= c <= 18278 -> mk_cell s c r = Ok (ACell s c r).
Proof.
  intros H. destruct (Z.eq_dec c 0) as [->|N]; [reflexivity|]. apply mk_cell_ok. lia.
Qed.
Lemma mk_range_ok0 s c1 r1 c2 r2 : 0 <= c1 <= 18278 -> 0 <= c2 <= 18278 ->
  mk_range s c1 r1 c2 r2 = Ok (ARange s c1 r1 c2 r2).
Proof. intros H1 H2. unfold mk_range. rewrite !mk_cell_ok0 by assumption. reflexivity. Qed.

(* the tail of _union_instersection builds the address of the result rectangle *)
Lemma unorm_build s m : 0 <= x1 m <= 18278 -> 0 <= x2 m <= 18278 ->
  (x1 m = x2 m -> y1 m = y2 m -> 1 <= x1 m /\ 1 <= y1 m) ->
  (if (x2 m =? x1 m) && (y2 m =? y1 m)
   then a <- mk_cell s (x1 m) (y1 m) ;; Ok (VA a)
   else a <- mk_range s (x1 m) (y1 m) (x2 m) (y2 m) ;; Ok (VA a)) = Ok (VA (unorm s m)).
Proof.
  intros H1 H2 Hd. unfold unorm, norm. rewrite (Z.eqb_sym (x2 m)), (Z.eqb_sym (y2 m)).
  rewrite mk_cell_ok0, mk_range_ok0 by assumption. cbn [bind].
  destruct ((x1 m =? x2 m) && (y1 m =? y2 m)) eqn:E.
  - apply andb_true_iff in E. destruct E as [E1 E2]. apply Z.eqb_eq in E1, E2.
    destruct (Hd E1 E2) as [P Q].
    replace (unb_rect m) with false; [reflexivity|].
    symmetry. unfold unb_rect. apply orb_false_iff. split; apply ax_unb_false; lia.
  - destruct (unb_rect m); reflexivity.
Qed.

Definition umeet (a b : rect) : rect :=
  {| x1 := mlo (x1 a) (x1 b); y1 := mlo (y1 a) (y1 b);
     x2 := mhi MAX_COL (x1 a) (x2 a) (x1 b) (x2 b); y2 := mhi MAX_ROW (y1 a) (y2 a) (y1 b) (y2 b) |}.
Definition ujoin (a b : rect) : rect :=
  {| x1 := jlo (x1 a) (x1 b); y1 := jlo (y1 a) (y1 b);
     x2 := jhi MAX_COL (x1 a) (x2 a) (x1 b) (x2 b); y2 := jhi MAX_ROW (y1 a) (y2 a) (y1 b) (y2 b) |}.
Definition umeet_val (s : str) (a b : rect) : aval :=
  if empty_rect (umeet a b) then VE NULL_ERROR else VA (unorm s (umeet a b)).

Lemma max_col_2 : 2 <= MAX_COL. Proof. unfold MAX_COL. lia. Qed.
Lemma max_row_2 : 2 <= MAX_ROW. Proof. unfold MAX_ROW. lia. Qed.

Lemma umeet_wf a b : uwf a -> uwf b -> empty_rect (umeet a b) = false ->
  uwf (umeet a b)
  /\ 0 <= x1 (umeet a b) <= 18278 /\ 0 <= x2 (umeet a b) <= 18278
  /\ (x1 (umeet a b) = x2 (umeet a b) -> y1 (umeet a b) = y2 (umeet a b) ->
      1 <= x1 (umeet a b) /\ 1 <= y1 (umeet a b)).
Proof.
  intros (Ax & Ay) (Bx & By) E. apply orb_false_iff in E. destruct E as [E1 E2].
  apply Z.ltb_ge in E1, E2. cbn [umeet x1 x2 y1 y2] in *.
  destruct (meet_axis_ok _ _ _ _ _ max_col_2 Ax Bx E1) as (P1 & P2 & P3 & P4).
  destruct (meet_axis_ok _ _ _ _ _ max_row_2 Ay By E2) as (Q1 & Q2 & Q3 & Q4).
  assert (HC : MAX_COL <= 18278) by (unfold MAX_COL; lia).
  repeat split; try assumption; try lia.
Qed.
Lemma ujoin_wf a b : uwf a -> uwf b ->
  uwf (ujoin a b)
  /\ 0 <= x1 (ujoin a b) <= 18278 /\ 0 <= x2 (ujoin a b) <= 18278
  /\ (x1 (ujoin a b) = x2 (ujoin a b) -> y1 (ujoin a b) = y2 (ujoin a b) ->
      1 <= x1 (ujoin a b) /\ 1 <= y1 (ujoin a b))
  /\ empty_rect (ujoin a b) = false.
Proof.
  intros (Ax & Ay) (Bx & By). cbn [ujoin x1 x2 y1 y2] in *.
  destruct (join_axis_ok _ _ _ _ _ max_col_2 Ax Bx) as (P1 & P0 & P2 & P3 & P4).
  destruct (join_axis_ok _ _ _ _ _ max_row_2 Ay By) as (Q1 & Q0 & Q2 & Q3 & Q4).
  assert (HC : MAX_COL <= 18278) by (unfold MAX_COL; lia).
  repeat split; try assumption; try lia.
  unfold empty_rect. cbn [ujoin x1 x2 y1 y2]. apply orb_false_iff. split; apply Z.ltb_ge; assumption.
Qed.

(* the value of & and ** on two extended rectangles of one sheet *)
Lemma uinter_value s a b : uwf a -> uwf b ->
  op_inter (VA (unorm s a)) (VA (unorm s b)) = Ok (umeet_val s a b).
Proof.
  intros Ha Hb.
  destruct (unorm_fields s a Ha) as (As & Ac & Ar & Aw & Ah).
  destruct (unorm_fields s b Hb) as (Bs & Bc & Br & Bw & Bh).
  unfold op_inter, binop, union_intersection, ui_core.
  rewrite As, Bs, Ac, Bc, Ar, Br, Aw, Bw, Ah, Bh, same_sheet_test, same_sheet_pick.
  unfold umeet_val, empty_rect.
  change (Z.max (x1 a) (x1 b)) with (x1 (umeet a b)). change (Z.max (y1 a) (y1 b)) with (y1 (umeet a b)).
  change (Z.min (x1 a + ax_size MAX_COL (x1 a) (x2 a)) (x1 b + ax_size MAX_COL (x1 b) (x2 b)) - 1)
    with (x2 (umeet a b)).
  change (Z.min (y1 a + ax_size MAX_ROW (y1 a) (y2 a)) (y1 b + ax_size MAX_ROW (y1 b) (y2 b)) - 1)
    with (y2 (umeet a b)).
  destruct ((x2 (umeet a b) <? x1 (umeet a b)) || (y2 (umeet a b) <? y1 (umeet a b))) eqn:E; [reflexivity|].
  destruct (umeet_wf a b Ha Hb E) as (_ & P1 & P2 & P3).
  apply unorm_build; assumption.
Qed.
Lemma uunion_value s a b : uwf a -> uwf b ->
  op_union (VA (unorm s a)) (VA (unorm s b)) = Ok (VA (unorm s (ujoin a b))).
Proof.
  intros Ha Hb.
  destruct (unorm_fields s a Ha) as (As & Ac & Ar & Aw & Ah).
  destruct (unorm_fields s b Hb) as (Bs & Bc & Br & Bw & Bh).
  unfold op_union, binop, union_intersection, ui_core.
  rewrite As, Bs, Ac, Bc, Ar, Br, Aw, Bw, Ah, Bh, same_sheet_test, same_sheet_pick.
  change (Z.min (x1 a) (x1 b)) with (x1 (ujoin a b)). change (Z.min (y1 a) (y1 b)) with (y1 (ujoin a b)).
  change (Z.max (x1 a + ax_size MAX_COL (x1 a) (x2 a)) (x1 b + ax_size MAX_COL (x1 b) (x2 b)) - 1)
    with (x2 (ujoin a b)).
  change (Z.max (y1 a + ax_size MAX_ROW (y1 a) (y2 a)) (y1 b + ax_size MAX_ROW (y1 b) (y2 b)) - 1)
    with (y2 (ujoin a b)).
  destruct (ujoin_wf a b Ha Hb) as (_ & P1 & P2 & P3 & E). unfold empty_rect in E. rewrite E.
  apply unorm_build; assumption.
Qed.

(* --------------------------------------------- & : the common cells, exactly *)
Definition ukept (a b : rect) (c row : Z) : Prop :=
  kept MAX_COL (x1 a) (x1 b) c /\ kept MAX_ROW (y1 a) (y1 b) row.

Lemma umeet_cells a b c row : uwf a -> uwf b ->
  (empty_rect (umeet a b) = false /\ uinside (umeet a b) c row)
  <-> (uinside a c row /\ uinside b c row /\ ukept a b c row).
Proof.
  intros (Ax & Ay) (Bx & By). unfold uinside, ukept, empty_rect. cbn [umeet x1 x2 y1 y2].
  rewrite orb_false_iff, !Z.ltb_ge.
  pose proof (meet_axis_in _ _ _ _ _ c max_col_2 Ax Bx) as P.
  pose proof (meet_axis_in _ _ _ _ _ row max_row_2 Ay By) as Q. tauto.
Qed.
Lemma umeet_empty a b : uwf a -> uwf b ->
  empty_rect (umeet a b) = true <->
  ~ exists c row, uinside a c row /\ uinside b c row /\ ukept a b c row.
Proof.
  intros Ha Hb. split.
  - intros E (c & row & H). apply (umeet_cells a b c row Ha Hb) in H. destruct H as [H _]. congruence.
  - intros H. destruct (empty_rect (umeet a b)) eqn:E; [reflexivity|]. exfalso. apply H.
    pose proof E as E'. apply orb_false_iff in E'. destruct E' as [E1 E2]. apply Z.ltb_ge in E1, E2.
    cbn [umeet x1 x2 y1 y2] in E1, E2. pose proof Ha as (Ax & Ay). pose proof Hb as (Bx & By).
    destruct (meet_axis_witness _ _ _ _ _ max_col_2 Ax Bx E1) as (c & Hc).
    destruct (meet_axis_witness _ _ _ _ _ max_row_2 Ay By E2) as (row & Hr).
    exists c, row. apply (umeet_cells a b c row Ha Hb). split; [exact E|split; assumption].
Qed.

(* nothing is lost when no bounded axis reaches the last column / row of the sheet
   where the other operand is unbounded (in particular: bounded & bounded,
   columns & columns, rows & rows, columns & rows) *)
Definition no_edge (a b : rect) : Prop :=
  (x1 a = 0 -> x1 b <> 0 -> x2 b < MAX_COL) /\ (x1 b = 0 -> x1 a <> 0 -> x2 a < MAX_COL)
  /\ (y1 a = 0 -> y1 b <> 0 -> y2 b < MAX_ROW) /\ (y1 b = 0 -> y1 a <> 0 -> y2 a < MAX_ROW).
Lemma kept_axis M lo1 hi1 lo2 hi2 x : ax_ok M lo1 hi1 -> ax_ok M lo2 hi2 ->
  (lo1 = 0 -> lo2 <> 0 -> hi2 < M) -> (lo2 = 0 -> lo1 <> 0 -> hi1 < M) ->
  ax_in M lo1 hi1 x -> ax_in M lo2 hi2 x -> kept M lo1 lo2 x.
Proof. unfold ax_ok, ax_in, kept. lia. Qed.
Lemma no_edge_kept a b c row : uwf a -> uwf b -> no_edge a b ->
  uinside a c row -> uinside b c row -> ukept a b c row.
Proof.
  intros (Ax & Ay) (Bx & By) (N1 & N2 & N3 & N4) (Ic & Ir) (Jc & Jr). split.
  - exact (kept_axis _ _ _ _ _ c Ax Bx N1 N2 Ic Jc).
  - exact (kept_axis _ _ _ _ _ row Ay By N3 N4 Ir Jr).
Qed.

Lemma uintersection_full s a b : uwf a -> uwf b ->
  op_inter (VA (unorm s a)) (VA (unorm s b)) = Ok (umeet_val s a b)
  /\ (empty_rect (umeet a b) = false -> uwf (umeet a b))
  /\ (forall c row, empty_rect (umeet a b) = false /\ uinside (umeet a b) c row
                    <-> uinside a c row /\ uinside b c row /\ ukept a b c row)
  /\ (empty_rect (umeet a b) = true <->
      ~ exists c row, uinside a c row /\ uinside b c row /\ ukept a b c row).
Proof.
  intros Ha Hb. split; [apply uinter_value; assumption|].
  split; [intros E; apply (umeet_wf a b Ha Hb E)|].
  split; [intros c row; apply umeet_cells; assumption|apply umeet_empty; assumption].
Qed.
Lemma uintersection_exact s a b : uwf a -> uwf b -> no_edge a b ->
  op_inter (VA (unorm s a)) (VA (unorm s b)) = Ok (umeet_val s a b)
  /\ (forall c row, empty_rect (umeet a b) = false /\ uinside (umeet a b) c row
                    <-> uinside a c row /\ uinside b c row)
  /\ (empty_rect (umeet a b) = true <-> ~ exists c row, uinside a c row /\ uinside b c row).
Proof.
  intros Ha Hb N. destruct (uintersection_full s a b Ha Hb) as (V & _ & C & E).
  split; [exact V|]. split.
  - intros c row. rewrite C. split; [tauto|]. intros [I J].
    split; [exact I|split; [exact J|apply (no_edge_kept a b c row Ha Hb N I J)]].
  - rewrite E. split; intros H (c & row & X); apply H; exists c, row.
    + destruct X as [I J]. split; [exact I|split; [exact J|apply (no_edge_kept a b c row Ha Hb N I J)]].
    + tauto.
Qed.

(* ------------------------------ ** : the least extended rectangle over both *)
Lemma ax_nonempty M lo hi : 1 <= M -> ax_ok M lo hi -> exists x, ax_in M lo hi x.
Proof. intros HM H. exists (Z.max 1 lo). unfold ax_ok, ax_in in *. lia. Qed.

Lemma ujoin_upper a b c row : uwf a -> uwf b ->
  uinside a c row \/ uinside b c row -> uinside (ujoin a b) c row.
Proof.
  intros (Ax & Ay) (Bx & By) H. unfold uinside in *. cbn [ujoin x1 x2 y1 y2]. split.
  - apply (join_axis_upper _ _ _ _ _ c max_col_2 Ax Bx). tauto.
  - apply (join_axis_upper _ _ _ _ _ row max_row_2 Ay By). tauto.
Qed.
Lemma ujoin_least a b u : uwf a -> uwf b -> uwf u ->
  (forall c row, uinside a c row \/ uinside b c row -> uinside u c row) ->
  forall c row, uinside (ujoin a b) c row -> uinside u c row.
Proof.
  intros (Ax & Ay) (Bx & By) (Ux & Uy) H c row (Ic & Ir). unfold uinside in *.
  cbn [ujoin x1 x2 y1 y2] in Ic, Ir.
  destruct (ax_nonempty MAX_COL _ _ ltac:(pose proof max_col_2; lia) Ax) as (ca & Hca).
  destruct (ax_nonempty MAX_ROW _ _ ltac:(pose proof max_row_2; lia) Ay) as (ra & Hra).
  destruct (ax_nonempty MAX_COL _ _ ltac:(pose proof max_col_2; lia) Bx) as (cb & Hcb).
  destruct (ax_nonempty MAX_ROW _ _ ltac:(pose proof max_row_2; lia) By) as (rb & Hrb).
  split.
  - apply (join_axis_least _ _ _ _ _ _ _ max_col_2 Ax Bx Ux); [|exact Ic].
    intros x [Hx|Hx]; [apply (H x ra)|apply (H x rb)]; tauto.
  - apply (join_axis_least _ _ _ _ _ _ _ max_row_2 Ay By Uy); [|exact Ir].
    intros x [Hx|Hx]; [apply (H ca x)|apply (H cb x)]; tauto.
Qed.
Lemma uunion_full s a b : uwf a -> uwf b ->
  op_union (VA (unorm s a)) (VA (unorm s b)) = Ok (VA (unorm s (ujoin a b)))
  /\ uwf (ujoin a b)
  /\ (forall c row, uinside a c row \/ uinside b c row -> uinside (ujoin a b) c row)
  /\ (forall u, uwf u -> (forall c row, uinside a c row \/ uinside b c row -> uinside u c row) ->
                forall c row, uinside (ujoin a b) c row -> uinside u c row).
Proof.
  intros Ha Hb. split; [apply uunion_value; assumption|]. split; [apply (ujoin_wf a b Ha Hb)|].
  split; [intros c row; apply ujoin_upper; assumption|]. intros u Hu. apply ujoin_least; assumption.
Qed.

(* --------------------------------------------------------------- contains *)
(* AddressRange.__contains__ compares with the stored corners, 0 included *)
Lemma ucontains_value s r c row : uwf r ->
  contains (unorm s r) (ACell s c row) = Ok true <-> (x1 r <= c <= x2 r /\ y1 r <= row <= y2 r).
Proof.
  intros H. unfold unorm. destruct (unb_rect r) eqn:E.
  - cbn [contains]. split.
    + intros X. injection X as X. rewrite !andb_true_iff, !Z.leb_le in X. lia.
    + intros X. f_equal. rewrite !andb_true_iff, !Z.leb_le. lia.
  - rewrite (contains_spec s r c row (uwf_bounded r H E)). unfold inside. tauto.
Qed.
Lemma ucontains_partial s r c row : uwf r -> 1 <= c <= MAX_COL -> 1 <= row <= MAX_ROW ->
  (contains (unorm s r) (ACell s c row) = Ok true -> uinside r c row)
  /\ (unb_rect r = false -> (contains (unorm s r) (ACell s c row) = Ok true <-> uinside r c row))
  /\ ((x1 r = 0 /\ x2 r = 0) \/ (y1 r = 0 /\ y2 r = 0) -> contains (unorm s r) (ACell s c row) = Ok false).
Proof.
  intros H Hc Hr. split; [|split].
  - intros X. apply (ucontains_value s r c row H) in X. unfold uinside, ax_in. lia.
  - intros E. rewrite (ucontains_value s r c row H).
    pose proof (uwf_bounded r H E) as W. rewrite (uinside_bounded r c row W). unfold inside. tauto.
  - intros U. unfold unorm.
    replace (unb_rect r) with true.
    + cbn [contains]. f_equal. destruct U as [[U1 U2]|[U1 U2]]; rewrite U1, U2.
      * replace (c <=? 0) with false by (symmetry; apply Z.leb_gt; lia).
        rewrite andb_false_r. reflexivity.
      * replace (row <=? 0) with false by (symmetry; apply Z.leb_gt; lia).
        rewrite andb_false_r. reflexivity.
    + symmetry. unfold unb_rect. apply orb_true_iff.
      destruct U as [[U1 U2]|[U1 U2]]; [left|right]; apply ax_unb_true; lia.
Qed.

(* ------------------------------------------------------------ idempotence *)
(* a op a is the operand with every unbounded axis (0, k) rewritten to (0, M-1):
   the same cells, but not the same address *)
Definition ucanon (a : rect) : rect :=
  {| x1 := x1 a; y1 := y1 a;
     x2 := x1 a + ax_size MAX_COL (x1 a) (x2 a) - 1; y2 := y1 a + ax_size MAX_ROW (y1 a) (y2 a) - 1 |}.

Lemma canon_axis M lo hi : 2 <= M -> ax_ok M lo hi ->
  let hi' := lo + ax_size M lo hi - 1 in
  ax_ok M lo hi' /\ lo + ax_size M lo hi' - 1 = hi' /\ (lo <> 0 -> hi' = hi)
  /\ (forall x, ax_in M lo hi' x <-> ax_in M lo hi x).
Proof.
  intros HM H hi'. subst hi'. destruct (ax_ok_size _ _ _ H) as [(A & B & E)|(A & B & E)]; rewrite E.
  - replace (lo + (hi - lo + 1) - 1) with hi by lia. rewrite E.
    repeat split; try assumption; unfold ax_in in *; try tauto; try lia.
  - rewrite ax_size_u by exact A. unfold ax_ok, ax_in. repeat split; try lia.
Qed.
Lemma self_axis M lo hi : mlo lo lo = lo /\ jlo lo lo = lo
  /\ mhi M lo hi lo hi = lo + ax_size M lo hi - 1 /\ jhi M lo hi lo hi = lo + ax_size M lo hi - 1.
Proof. unfold mlo, jlo, mhi, jhi. lia. Qed.

Lemma umeet_self a : umeet a a = ucanon a.
Proof.
  destruct (self_axis MAX_COL (x1 a) (x2 a)) as (A & _ & B & _).
  destruct (self_axis MAX_ROW (y1 a) (y2 a)) as (C & _ & D & _).
  apply rect_eq; cbn [umeet ucanon x1 x2 y1 y2]; assumption.
Qed.
Lemma ujoin_self a : ujoin a a = ucanon a.
Proof.
  destruct (self_axis MAX_COL (x1 a) (x2 a)) as (_ & A & _ & B).
  destruct (self_axis MAX_ROW (y1 a) (y2 a)) as (_ & C & _ & D).
  apply rect_eq; cbn [ujoin ucanon x1 x2 y1 y2]; assumption.
Qed.
Lemma ucanon_props a : uwf a ->
  uwf (ucanon a) /\ ucanon (ucanon a) = ucanon a /\ (unb_rect a = false -> ucanon a = a)
  /\ (forall c row, uinside (ucanon a) c row <-> uinside a c row).
Proof.
  intros (Ax & Ay).
  destruct (canon_axis _ _ _ max_col_2 Ax) as (P1 & P2 & P3 & P4).
  destruct (canon_axis _ _ _ max_row_2 Ay) as (Q1 & Q2 & Q3 & Q4).
  split; [split; assumption|]. split; [|split].
  - apply rect_eq; cbn [ucanon x1 x2 y1 y2]; try reflexivity; assumption.
  - intros E. apply orb_false_iff in E. destruct E as [E1 E2]. apply ax_unb_false in E1, E2.
    apply rect_eq; cbn [ucanon x1 x2 y1 y2]; try reflexivity; [apply P3|apply Q3]; tauto.
  - intros c row. unfold uinside. cbn [ucanon x1 x2 y1 y2]. rewrite (P4 c), (Q4 row). tauto.
Qed.

Lemma uidem s a : uwf a ->
  uwf (ucanon a)
  /\ op_inter (VA (unorm s a)) (VA (unorm s a)) = Ok (VA (unorm s (ucanon a)))
  /\ op_union (VA (unorm s a)) (VA (unorm s a)) = Ok (VA (unorm s (ucanon a)))
  /\ (forall c row, uinside (ucanon a) c row <-> uinside a c row)
  /\ op_inter (VA (unorm s (ucanon a))) (VA (unorm s (ucanon a))) = Ok (VA (unorm s (ucanon a)))
  /\ op_union (VA (unorm s (ucanon a))) (VA (unorm s (ucanon a))) = Ok (VA (unorm s (ucanon a)))
  /\ (unb_rect a = false -> ucanon a = a).
Proof.
  intros Ha. destruct (ucanon_props a Ha) as (W & I & B & C).
  assert (U : forall r, uwf r -> op_union (VA (unorm s r)) (VA (unorm s r)) = Ok (VA (unorm s (ucanon r)))).
  { intros r Hr. rewrite uunion_value, ujoin_self by assumption. reflexivity. }
  assert (N : forall r, uwf r -> op_inter (VA (unorm s r)) (VA (unorm s r)) = Ok (VA (unorm s (ucanon r)))).
  { intros r Hr. rewrite uinter_value by assumption. unfold umeet_val. rewrite umeet_self.
    destruct (ujoin_wf r r Hr Hr) as (_ & _ & _ & _ & E). rewrite ujoin_self in E. rewrite E. reflexivity. }
  split; [exact W|]. split; [apply N, Ha|]. split; [apply U, Ha|]. split; [exact C|].
  split; [rewrite (N _ W), I; reflexivity|]. split; [rewrite (U _ W), I; reflexivity|exact B].
Qed.

(* ----------------------------------------------------------- associativity *)
(* the extent of a non-empty & is read back unchanged: & is a genuine meet *)
Lemma reread_meet M lo1 hi1 lo2 hi2 : 2 <= M -> ax_ok M lo1 hi1 -> ax_ok M lo2 hi2 ->
  mlo lo1 lo2 <= mhi M lo1 hi1 lo2 hi2 ->
  mlo lo1 lo2 + ax_size M (mlo lo1 lo2) (mhi M lo1 hi1 lo2 hi2) = mhi M lo1 hi1 lo2 hi2 + 1.
Proof.
  intros HM H1 H2 Hne.
  destruct (meet_axis_ok _ _ _ _ _ HM H1 H2 Hne) as (K & _).
  destruct (ax_ok_size _ _ _ K) as [(A & B & ->)|(A & B & ->)]; [lia|].
  revert A B Hne. unfold mlo, mhi.
  destruct (ax_ok_size _ _ _ H1) as [(A1 & B1 & ->)|(A1 & B1 & ->)];
    destruct (ax_ok_size _ _ _ H2) as [(C & D & ->)|(C & D & ->)]; lia.
Qed.
Lemma meet3_axis M lo1 hi1 lo2 hi2 lo3 hi3 : 2 <= M -> ax_ok M lo1 hi1 -> ax_ok M lo2 hi2 -> ax_ok M lo3 hi3 ->
  let e1 := lo1 + ax_size M lo1 hi1 in let e2 := lo2 + ax_size M lo2 hi2 in let e3 := lo3 + ax_size M lo3 hi3 in
  (mlo lo1 lo2 <= mhi M lo1 hi1 lo2 hi2 ->
     mlo (mlo lo1 lo2) lo3 = Z.max lo1 (Z.max lo2 lo3)
     /\ mhi M (mlo lo1 lo2) (mhi M lo1 hi1 lo2 hi2) lo3 hi3 = Z.min e1 (Z.min e2 e3) - 1)
  /\ (mlo lo2 lo3 <= mhi M lo2 hi2 lo3 hi3 ->
     mlo lo1 (mlo lo2 lo3) = Z.max lo1 (Z.max lo2 lo3)
     /\ mhi M lo1 hi1 (mlo lo2 lo3) (mhi M lo2 hi2 lo3 hi3) = Z.min e1 (Z.min e2 e3) - 1)
  /\ (mhi M lo1 hi1 lo2 hi2 < mlo lo1 lo2 \/ mhi M lo2 hi2 lo3 hi3 < mlo lo2 lo3 ->
      Z.min e1 (Z.min e2 e3) - 1 < Z.max lo1 (Z.max lo2 lo3)).
Proof.
  intros HM H1 H2 H3 e1 e2 e3. split; [|split].
  - intros Hne. split; [unfold mlo; lia|].
    unfold mhi at 1. rewrite (reread_meet M lo1 hi1 lo2 hi2 HM H1 H2 Hne). unfold mhi. subst e1 e2 e3. lia.
  - intros Hne. split; [unfold mlo; lia|].
    unfold mhi at 1. rewrite (reread_meet M lo2 hi2 lo3 hi3 HM H2 H3 Hne). unfold mhi. subst e1 e2 e3. lia.
  - subst e1 e2 e3. unfold mlo, mhi.
    destruct (ax_ok_size _ _ _ H1) as [(A1 & B1 & ->)|(A1 & B1 & ->)];
      destruct (ax_ok_size _ _ _ H2) as [(A2 & B2 & ->)|(A2 & B2 & ->)];
      destruct (ax_ok_size _ _ _ H3) as [(A3 & B3 & ->)|(A3 & B3 & ->)]; lia.
Qed.

Lemma empty_false_axes m : empty_rect m = false -> x1 m <= x2 m /\ y1 m <= y2 m.
Proof. intros E. apply orb_false_iff in E. destruct E as [E1 E2]. apply Z.ltb_ge in E1, E2. tauto. Qed.
Lemma empty_true_axes m : empty_rect m = true <-> x2 m < x1 m \/ y2 m < y1 m.
Proof. unfold empty_rect. rewrite orb_true_iff, !Z.ltb_lt. tauto. Qed.

Lemma umeet3 a b c : uwf a -> uwf b -> uwf c ->
  (empty_rect (umeet a b) = false -> empty_rect (umeet b c) = false ->
     umeet (umeet a b) c = umeet a (umeet b c))
  /\ (empty_rect (umeet a b) = true -> empty_rect (umeet b c) = false ->
     empty_rect (umeet a (umeet b c)) = true)
  /\ (empty_rect (umeet a b) = false -> empty_rect (umeet b c) = true ->
     empty_rect (umeet (umeet a b) c) = true).
Proof.
  intros (Ax & Ay) (Bx & By) (Cx & Cy).
  destruct (meet3_axis MAX_COL _ _ _ _ _ _ max_col_2 Ax Bx Cx) as (XL & XR & XE).
  destruct (meet3_axis MAX_ROW _ _ _ _ _ _ max_row_2 Ay By Cy) as (YL & YR & YE).
  split; [|split].
  - intros E1 E2. apply empty_false_axes in E1, E2. cbn [umeet x1 x2 y1 y2] in E1, E2.
    destruct E1 as [E1x E1y], E2 as [E2x E2y].
    destruct (XL E1x) as [XL1 XL2]. destruct (XR E2x) as [XR1 XR2].
    destruct (YL E1y) as [YL1 YL2]. destruct (YR E2y) as [YR1 YR2].
    apply rect_eq; cbn [umeet x1 x2 y1 y2]; congruence.
  - intros E1 E2. apply empty_false_axes in E2. cbn [umeet x1 x2 y1 y2] in E2. destruct E2 as [E2x E2y].
    apply empty_true_axes in E1. cbn [umeet x1 x2 y1 y2] in E1.
    destruct (XR E2x) as [XR1 XR2]. destruct (YR E2y) as [YR1 YR2].
    apply empty_true_axes. cbn [umeet x1 x2 y1 y2]. rewrite XR1, XR2, YR1, YR2.
    destruct E1 as [E1|E1]; [left; apply XE; left; exact E1|right; apply YE; left; exact E1].
  - intros E1 E2. apply empty_false_axes in E1. cbn [umeet x1 x2 y1 y2] in E1. destruct E1 as [E1x E1y].
    apply empty_true_axes in E2. cbn [umeet x1 x2 y1 y2] in E2.
    destruct (XL E1x) as [XL1 XL2]. destruct (YL E1y) as [YL1 YL2].
    apply empty_true_axes. cbn [umeet x1 x2 y1 y2]. rewrite XL1, XL2, YL1, YL2.
    destruct E2 as [E2|E2]; [left; apply XE; right; exact E2|right; apply YE; right; exact E2].
Qed.

(* & is associative on extended rectangles of one sheet, exactly (#NULL! handed on) *)
Lemma uinter_assoc s a b c : uwf a -> uwf b -> uwf c ->
  bind (op_inter (VA (unorm s a)) (VA (unorm s b))) (fun x => op_inter x (VA (unorm s c)))
  = bind (op_inter (VA (unorm s b)) (VA (unorm s c))) (fun x => op_inter (VA (unorm s a)) x).
Proof.
  intros Ha Hb Hc. rewrite !uinter_value by assumption. unfold umeet_val.
  destruct (error_operand NULL_ERROR (unorm s c) null_is_code) as (_ & EL & _).
  destruct (error_operand NULL_ERROR (unorm s a) null_is_code) as (ER & _).
  destruct (umeet3 a b c Ha Hb Hc) as (T1 & T2 & T3).
  destruct (empty_rect (umeet a b)) eqn:Eab; destruct (empty_rect (umeet b c)) eqn:Ebc; cbn [bind].
  - rewrite EL, ER. reflexivity.
  - rewrite EL, uinter_value by (try apply (umeet_wf b c Hb Hc Ebc); assumption). unfold umeet_val.
    rewrite T2 by reflexivity. reflexivity.
  - rewrite ER, uinter_value by (try apply (umeet_wf a b Ha Hb Eab); assumption). unfold umeet_val.
    rewrite T3 by reflexivity. reflexivity.
  - rewrite !uinter_value by (try apply (umeet_wf a b Ha Hb Eab); try apply (umeet_wf b c Hb Hc Ebc); assumption).
    unfold umeet_val. rewrite T1 by reflexivity. reflexivity.
Qed.

(* ** is associative up to the cells: both groupings give an extended rectangle
   with the same cells, the least one over the three operands (the addresses can
   differ, Refuted/C11_unbounded.v) *)
Lemma uunion_assoc_cells s a b c : uwf a -> uwf b -> uwf c ->
  bind (op_union (VA (unorm s a)) (VA (unorm s b))) (fun x => op_union x (VA (unorm s c)))
    = Ok (VA (unorm s (ujoin (ujoin a b) c)))
  /\ bind (op_union (VA (unorm s b)) (VA (unorm s c))) (fun x => op_union (VA (unorm s a)) x)
    = Ok (VA (unorm s (ujoin a (ujoin b c))))
  /\ (forall col row, uinside (ujoin (ujoin a b) c) col row <-> uinside (ujoin a (ujoin b c)) col row).
Proof.
  intros Ha Hb Hc.
  destruct (ujoin_wf a b Ha Hb) as (Wab & _). destruct (ujoin_wf b c Hb Hc) as (Wbc & _).
  destruct (ujoin_wf _ c Wab Hc) as (Wl & _). destruct (ujoin_wf a _ Ha Wbc) as (Wr & _).
  split; [|split].
  - rewrite uunion_value by assumption. cbn [bind]. apply uunion_value; assumption.
  - rewrite uunion_value by assumption. cbn [bind]. apply uunion_value; assumption.
  - intros col row. split.
    + apply (ujoin_least (ujoin a b) c _ Wab Hc Wr). intros x y [H|H].
      * revert x y H. apply (ujoin_least a b _ Ha Hb Wr). intros x y [H|H].
        -- apply ujoin_upper; [assumption..|left; exact H].
        -- apply ujoin_upper; [assumption..|right]. apply ujoin_upper; [assumption..|left; exact H].
      * apply ujoin_upper; [assumption..|right]. apply ujoin_upper; [assumption..|right; exact H].
    + apply (ujoin_least a (ujoin b c) _ Ha Wbc Wl). intros x y [H|H].
      * apply ujoin_upper; [assumption..|left]. apply ujoin_upper; [assumption..|left; exact H].
      * revert x y H. apply (ujoin_least b c _ Hb Hc Wl). intros x y [H|H].
        -- apply ujoin_upper; [assumption..|left]. apply ujoin_upper; [assumption..|right; exact H].
        -- apply ujoin_upper; [assumption..|right; exact H].
Qed.

(* ------------------------------------------------------------ non-vacuity *)
Definition colrange (c1 c2 : Z) : rect := {| x1 := c1; y1 := 0; x2 := c2; y2 := 0 |}.
Definition rowrange (r1 r2 : Z) : rect := {| x1 := 0; y1 := r1; x2 := 0; y2 := r2 |}.
Lemma colrange_uwf c1 c2 : 1 <= c1 <= c2 -> c2 <= MAX_COL -> uwf (colrange c1 c2).
Proof. intros A B. split; [left; cbn; lia|right; cbn; unfold MAX_ROW; lia]. Qed.
Lemma rowrange_uwf r1 r2 : 1 <= r1 <= r2 -> r2 <= MAX_ROW -> uwf (rowrange r1 r2).
Proof. intros A B. split; [right; cbn; unfold MAX_COL; lia|left; cbn; lia]. Qed.

(* A:C & 2:5 = A2:C5 ; A:C & B:D = the columns B:C ; A:C ** B2:D5 = the columns A:D *)
Example ex_uwf : uwf (colrange 1 3) /\ uwf (rowrange 2 5) /\ no_edge (colrange 1 3) (rowrange 2 5).
Proof.
  split; [apply colrange_uwf; unfold MAX_COL; lia|]. split; [apply rowrange_uwf; unfold MAX_ROW; lia|].
  unfold no_edge, MAX_COL, MAX_ROW. cbn. lia.
Qed.
Example ex_cols_rows : op_inter (VA (unorm [] (colrange 1 3))) (VA (unorm [] (rowrange 2 5)))
  = Ok (VA (ARange [] 1 2 3 5)).
Proof. vm_compute. reflexivity. Qed.
Example ex_cols_cols : op_inter (VA (unorm [] (colrange 1 3))) (VA (unorm [] (colrange 2 4)))
  = Ok (VA (ARange [] 2 0 3 1048575)).
Proof. vm_compute. reflexivity. Qed.
Example ex_cols_union : op_union (VA (unorm [] (colrange 1 3))) (VA (ARange [] 2 2 4 5))
  = Ok (VA (ARange [] 1 0 4 1048575)).
Proof. vm_compute. reflexivity. Qed.
(* a bounded operand next to an unbounded one; a probe cell for the containment theorem *)
Example ex_uwf_bounded : uwf {| x1 := 2; y1 := 2; x2 := 4; y2 := 5 |}
  /\ no_edge (colrange 1 3) {| x1 := 2; y1 := 2; x2 := 4; y2 := 5 |}
  /\ ~ no_edge (colrange 1 3) {| x1 := 2; y1 := 5; x2 := 2; y2 := 1048576 |}
  /\ 1 <= 2 <= MAX_COL /\ 1 <= 1048576 <= MAX_ROW.
Proof.
  split; [split; left; cbn; unfold MAX_COL, MAX_ROW; lia|].
  unfold no_edge, MAX_COL, MAX_ROW. cbn. lia.
Qed.

(* ------------------------------------------------------ size, enumeration *)
(* size agrees with the clipped cells: they are the width x height block that starts at
   (max 1 col, max 1 row) *)
Lemma size_axis M lo hi x : 1 <= M -> ax_ok M lo hi ->
  ax_in M lo hi x <-> Z.max 1 lo <= x < Z.max 1 lo + ax_size M lo hi.
Proof.
  intros HM H. unfold ax_in.
  destruct (ax_ok_size _ _ _ H) as [(A & B & ->)|(A & B & ->)]; lia.
Qed.
Lemma usize_cells s r c row : uwf r ->
  uinside r c row <-> (Z.max 1 (x1 r) <= c < Z.max 1 (x1 r) + width (unorm s r)
                       /\ Z.max 1 (y1 r) <= row < Z.max 1 (y1 r) + height (unorm s r)).
Proof.
  intros H. destruct (unorm_fields s r H) as (_ & _ & _ & -> & ->). destruct H as (Hx & Hy).
  unfold uinside.
  rewrite (size_axis MAX_COL _ _ c ltac:(pose proof max_col_2; lia) Hx).
  rewrite (size_axis MAX_ROW _ _ row ltac:(pose proof max_row_2; lia) Hy). tauto.
Qed.
(* an unbounded range is not enumerated: resolve_range fails its assertion *)
Lemma unot_enumerable s r : uwf r -> unb_rect r = true -> resolve_range (unorm s r) = Raise AssertionError.
Proof.
  intros H E. destruct (unorm_fields s r H) as (_ & _ & _ & Hw & Hh). revert Hw Hh.
  unfold unorm. rewrite E. intros Hw Hh. cbn [resolve_range]. rewrite Hw, Hh.
  unfold unb_rect in E. apply orb_true_iff in E. unfold ax_size.
  destruct E as [E|E]; rewrite E, Z.eqb_refl, ?orb_true_r; reflexivity.
Qed.

(* ----------------------------------------------------- operands on two sheets *)
(* #VALUE! when two named sheets differ; otherwise the result above, on the named sheet *)
Lemma uvalue_sheets sa sb a b : uwf a -> uwf b ->
  op_inter (VA (unorm sa a)) (VA (unorm sb b))
    = (if conflict sa sb then Ok (VE VALUE_ERROR) else Ok (umeet_val (pick sa sb) a b))
  /\ op_union (VA (unorm sa a)) (VA (unorm sb b))
    = (if conflict sa sb then Ok (VE VALUE_ERROR) else Ok (VA (unorm (pick sa sb) (ujoin a b)))).
Proof.
  intros Ha Hb.
  destruct (unorm_fields sa a Ha) as (As & Ac & Ar & Aw & Ah).
  destruct (unorm_fields sb b Hb) as (Bs & Bc & Br & Bw & Bh).
  split.
  - unfold op_inter, binop, union_intersection, ui_core.
    rewrite As, Bs, Ac, Bc, Ar, Br, Aw, Bw, Ah, Bh. fold (conflict sa sb). fold (pick sa sb).
    destruct (conflict sa sb); [reflexivity|].
    unfold umeet_val, empty_rect.
    change (Z.max (x1 a) (x1 b)) with (x1 (umeet a b)). change (Z.max (y1 a) (y1 b)) with (y1 (umeet a b)).
    change (Z.min (x1 a + ax_size MAX_COL (x1 a) (x2 a)) (x1 b + ax_size MAX_COL (x1 b) (x2 b)) - 1)
      with (x2 (umeet a b)).
    change (Z.min (y1 a + ax_size MAX_ROW (y1 a) (y2 a)) (y1 b + ax_size MAX_ROW (y1 b) (y2 b)) - 1)
      with (y2 (umeet a b)).
    destruct ((x2 (umeet a b) <? x1 (umeet a b)) || (y2 (umeet a b) <? y1 (umeet a b))) eqn:E; [reflexivity|].
    destruct (umeet_wf a b Ha Hb E) as (_ & P1 & P2 & P3).
    apply unorm_build; assumption.
  - unfold op_union, binop, union_intersection, ui_core.
    rewrite As, Bs, Ac, Bc, Ar, Br, Aw, Bw, Ah, Bh. fold (conflict sa sb). fold (pick sa sb).
    destruct (conflict sa sb); [reflexivity|].
    change (Z.min (x1 a) (x1 b)) with (x1 (ujoin a b)). change (Z.min (y1 a) (y1 b)) with (y1 (ujoin a b)).
    change (Z.max (x1 a + ax_size MAX_COL (x1 a) (x2 a)) (x1 b + ax_size MAX_COL (x1 b) (x2 b)) - 1)
      with (x2 (ujoin a b)).
    change (Z.max (y1 a + ax_size MAX_ROW (y1 a) (y2 a)) (y1 b + ax_size MAX_ROW (y1 b) (y2 b)) - 1)
      with (y2 (ujoin a b)).
    destruct (ujoin_wf a b Ha Hb) as (_ & P1 & P2 & P3 & E). unfold empty_rect in E. rewrite E.
    apply unorm_build; assumption.
Qed.
Example ex_sheets : conflict [83] [] = false /\ pick [] [83] = [83] /\ conflict [83] [84] = true
  /\ op_union (VA (unorm [] (colrange 1 3))) (VA (unorm [83] (rowrange 2 5))) = Ok (VA (ARange [83] 0 0 16383 1048575)).
Proof. vm_compute. repeat split; reflexivity. Qed.

(* ------------------------------------ ** is exactly associative away from the edge *)
(* no bounded axis reaches the last column / row of the sheet *)
Definition inner (a : rect) : Prop := (x1 a <> 0 -> x2 a < MAX_COL) /\ (y1 a <> 0 -> y2 a < MAX_ROW).
Lemma reread_join M lo1 hi1 lo2 hi2 : 2 <= M -> ax_ok M lo1 hi1 -> ax_ok M lo2 hi2 ->
  (lo1 <> 0 -> hi1 < M) -> (lo2 <> 0 -> hi2 < M) ->
  jlo lo1 lo2 + ax_size M (jlo lo1 lo2) (jhi M lo1 hi1 lo2 hi2) = jhi M lo1 hi1 lo2 hi2 + 1
  /\ (jlo lo1 lo2 <> 0 -> jhi M lo1 hi1 lo2 hi2 < M).
Proof.
  intros HM H1 H2 I1 I2.
  destruct (join_axis_ok _ _ _ _ _ HM H1 H2) as (K & _).
  destruct (ax_ok_size _ _ _ K) as [(A & B & ->)|(A & B & ->)]; revert A B; unfold jlo, jhi;
    destruct (ax_ok_size _ _ _ H1) as [(A1 & B1 & ->)|(A1 & B1 & ->)];
    destruct (ax_ok_size _ _ _ H2) as [(C & D & ->)|(C & D & ->)]; lia.
Qed.
Lemma join3_axis M lo1 hi1 lo2 hi2 lo3 hi3 : 2 <= M -> ax_ok M lo1 hi1 -> ax_ok M lo2 hi2 -> ax_ok M lo3 hi3 ->
  (lo1 <> 0 -> hi1 < M) -> (lo2 <> 0 -> hi2 < M) -> (lo3 <> 0 -> hi3 < M) ->
  jlo (jlo lo1 lo2) lo3 = jlo lo1 (jlo lo2 lo3)
  /\ jhi M (jlo lo1 lo2) (jhi M lo1 hi1 lo2 hi2) lo3 hi3 = jhi M lo1 hi1 (jlo lo2 lo3) (jhi M lo2 hi2 lo3 hi3).
Proof.
  intros HM H1 H2 H3 I1 I2 I3. split; [unfold jlo; lia|].
  destruct (reread_join M lo1 hi1 lo2 hi2 HM H1 H2 I1 I2) as [R12 _].
  destruct (reread_join M lo2 hi2 lo3 hi3 HM H2 H3 I2 I3) as [R23 _].
  unfold jhi at 1. rewrite R12. unfold jhi at 2. rewrite R23. unfold jhi. lia.
Qed.
Lemma uunion_assoc_exact s a b c : uwf a -> uwf b -> uwf c -> inner a -> inner b -> inner c ->
  bind (op_union (VA (unorm s a)) (VA (unorm s b))) (fun x => op_union x (VA (unorm s c)))
  = bind (op_union (VA (unorm s b)) (VA (unorm s c))) (fun x => op_union (VA (unorm s a)) x).
Proof.
  intros Ha Hb Hc (Iax & Iay) (Ibx & Iby) (Icx & Icy).
  destruct (uunion_assoc_cells s a b c Ha Hb Hc) as (-> & -> & _). do 3 f_equal.
  destruct Ha as (Ax & Ay), Hb as (Bx & By), Hc as (Cx & Cy).
  destruct (join3_axis MAX_COL _ _ _ _ _ _ max_col_2 Ax Bx Cx Iax Ibx Icx) as [X1 X2].
  destruct (join3_axis MAX_ROW _ _ _ _ _ _ max_row_2 Ay By Cy Iay Iby Icy) as [Y1 Y2].
  apply rect_eq; cbn [ujoin x1 x2 y1 y2]; assumption.
Qed.
Example ex_inner : inner (colrange 1 3) /\ inner {| x1 := 5; y1 := 7; x2 := 5; y2 := 1048575 |}
  /\ ~ inner {| x1 := 5; y1 := 1048576; x2 := 5; y2 := 1048576 |}.
Proof. unfold inner, MAX_COL, MAX_ROW. cbn. lia. Qed.
