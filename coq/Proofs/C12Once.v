(* Proofs/C12Once.v — C12: a cell is reported at most once.  failed['mismatch']
   is a dict keyed by the address: an assignment to a present key overwrites in
   place (Model/Validate.v rep_set), so whatever the loop does — second pops of a
   cell, cells that raise, any stored results, any tolerance, any outputs, even
   when the fuel runs out — the addresses of the report are pairwise distinct.
   No hypothesis at all (contrast: the exception lists, C12_listed_bound_f). *)
From Coq Require Import List Arith Bool Lia ZArith QArith.
From PV Require Import Lib.Py Model.Graph Model.Validate Model.Fail Model.ValidateFail.
Import ListNotations.
Local Open Scope nat_scope.

Definition keys (r : report) : list nat := map fst r.

Lemma keys_rep_set_in r n x k : In k (keys (rep_set r n x)) <-> k = n \/ In k (keys r).
Proof.
  induction r as [|[m y] r IH]; simpl.
  - intuition.
  - destruct (Nat.eqb m n) eqn:E; simpl.
    + apply Nat.eqb_eq in E. subst. intuition.
    + rewrite IH. intuition.
Qed.

Lemma keys_rep_set_nodup r n x : NoDup (keys r) -> NoDup (keys (rep_set r n x)).
Proof.
  induction r as [|[m y] r IH]; simpl; intros H.
  - constructor; [intros []|constructor].
  - inversion H as [|? ? Hn Hr]; subst.
    destruct (Nat.eqb m n) eqn:E; simpl.
    + constructor; assumption.
    + constructor; [|now apply IH].
      intros Hin. apply keys_rep_set_in in Hin. destruct Hin as [->|Hin].
      * rewrite Nat.eqb_refl in E. discriminate.
      * now apply Hn.
Qed.

Lemma rep_get_some_in r n x : rep_get r n = Some x -> In n (keys r).
Proof.
  induction r as [|[m y] r IH]; simpl; [discriminate|].
  destruct (Nat.eqb m n) eqn:E; [apply Nat.eqb_eq in E; auto|auto].
Qed.

(* the entry of a reported address is THE entry: with distinct keys, membership
   in the list and the dictionary lookup agree *)
Lemma nodup_in_get r n x : NoDup (keys r) -> In (n, x) r -> rep_get r n = Some x.
Proof.
  induction r as [|[m y] r IH]; simpl; intros H Hin; [destruct Hin|].
  inversion H as [|? ? Hn Hr]; subst.
  destruct Hin as [E|Hin].
  - inversion E; subst. now rewrite Nat.eqb_refl.
  - destruct (Nat.eqb m n) eqn:E.
    + apply Nat.eqb_eq in E. subst. exfalso. apply Hn.
      change n with (fst (n, x)). now apply in_map.
    + now apply IH.
Qed.

Section Once.
  Variable W : workbook.
  Variable sem : nat -> list pyval -> pyval.
  Variable ftext : nat -> list Z.
  Variable tol : option Q.

  Lemma vstep_once vs : NoDup (keys (vs_report vs)) ->
    NoDup (keys (vs_report (vstep W sem ftext tol vs))).
  Proof.
    intros H. unfold vstep. destruct (vs_todo vs) as [|n rest]; [exact H|].
    destruct (is_fcell W n); [|exact H].
    destruct (py_eq _ _); [exact H|].
    destruct (_ || _); simpl; [exact H|].
    now apply keys_rep_set_nodup.
  Qed.

  Lemma vloop_once fuel : forall vs, NoDup (keys (vs_report vs)) ->
    NoDup (keys (vs_report (vloop W sem ftext tol fuel vs))).
  Proof.
    induction fuel as [|f IH]; simpl; intros vs H; [exact H|].
    destruct (vs_todo vs) eqn:E; [exact H|].
    apply IH. now apply vstep_once.
  Qed.

  Theorem reported_once outs :
    NoDup (map fst (vs_report (validate W sem ftext tol outs))).
  Proof. unfold validate, validate_from. apply vloop_once. simpl. constructor. Qed.

  Theorem reported_entry outs n x :
    In (n, x) (vs_report (validate W sem ftext tol outs)) <->
    rep_get (vs_report (validate W sem ftext tol outs)) n = Some x.
  Proof.
    split.
    - apply nodup_in_get. apply reported_once.
    - generalize (vs_report (validate W sem ftext tol outs)). intros r.
      induction r as [|[m y] r IH]; simpl; [discriminate|].
      destruct (Nat.eqb m n) eqn:E.
      + apply Nat.eqb_eq in E. intros H. inversion H. subst. now left.
      + intros H. right. now apply IH.
  Qed.
End Once.

Section OnceF.
  Variable W : workbook.
  Variable fsem : nat -> list pyval -> option pyval.
  Variable fpre : nat -> option nat.
  Variable rorder : (nat -> bool) -> nat -> list nat.
  Variable ftext : nat -> list Z.
  Variable tol : option Q.
  Variable raise_exc : bool.

  Lemma vstep_f_once vs : NoDup (keys (fs_report vs)) ->
    NoDup (keys (fs_report (vstep_f W fsem fpre rorder ftext tol raise_exc vs))).
  Proof.
    intros H. pose proof (fun n x => keys_rep_set_nodup (fs_report vs) n x H) as H'.
    unfold vstep_f. destruct (fs_todo vs) as [|n rest]; [exact H|].
    destruct (build_c _ _ _ _ _ _) as [s1 [[? ch]|]].
    - destruct raise_exc; exact H.
    - destruct (is_fcell W n); [|exact H].
      destruct (py_eq _ _); [exact H|].
      destruct (recalc_c _ _ _ _ _ _) as [s2 [?|? ch]].
      + destruct (_ || _); [exact H|].
        destruct (recalc_c _ _ _ _ _ _) as [s3 [?|? ch]].
        * apply H'.
        * destruct raise_exc; apply H'.
      + destruct raise_exc; exact H.
  Qed.

  Lemma vloop_f_once fuel : forall vs, NoDup (keys (fs_report vs)) ->
    NoDup (keys (fs_report (vloop_f W fsem fpre rorder ftext tol raise_exc fuel vs))).
  Proof.
    induction fuel as [|f IH]; simpl; intros vs H; [exact H|].
    destruct (fs_raised vs); [exact H|].
    destruct (fs_todo vs) eqn:E; [exact H|].
    apply IH. now apply vstep_f_once.
  Qed.

  Theorem reported_once_f outs :
    NoDup (map fst (fs_report (validate_f W fsem fpre rorder ftext tol raise_exc outs))).
  Proof. unfold validate_f, validate_f_from. apply vloop_f_once. simpl. constructor. Qed.
End OnceF.
