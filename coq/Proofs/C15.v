(* Proofs/C15.v — conditional aggregation. *)
From Coq Require Import ZArith QArith List Bool Lia Permutation.
From PV Require Import Lib.Py Proofs.PyTac Model.Criteria.
From PV Require Gen.excelutil.
Import ListNotations.
Open Scope Z_scope.

Lemma sumif_is_sumifs rng crit sr : sr <> VNone ->
  sumif rng crit sr = sumifs sr [rng; crit].
Proof. intros H. unfold sumif. destruct sr; congruence. Qed.
