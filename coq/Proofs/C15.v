(* Proofs/C15.v — conditional aggregation (Model/Criteria.v): the ?/* matcher
   against a declarative definition, the meaning of a criterion, the index
   set computed by handle_ifs, commutation, IFS = IF, the =x / <>x partition,
   AVERAGEIFS = SUMIFS / COUNTIFS. *)
From Coq Require Import ZArith QArith List Bool Lia Permutation.
From PV Require Import Lib.Py Proofs.PyTac Model.Criteria.
From PV Require Gen.excelutil.
Import ListNotations.
Open Scope Z_scope.

(* ------------------------------------------------------------------ glob *)
(* declarative: ? matches one character, * any sequence, anything else itself *)
Inductive Glob : str -> str -> Prop :=
| G_nil : Glob [] []
| G_one p s c : Glob p s -> Glob (63 :: p) (c :: s)
| G_star_empty p s : Glob p s -> Glob (42 :: p) s
| G_star_more p s c : Glob (42 :: p) s -> Glob (42 :: p) (c :: s)
| G_lit p s c : c <> 42 -> Glob p s -> Glob (c :: p) (c :: s).

Lemma glob_star p s :
  glob_match (42 :: p) s
  = glob_match p s || match s with [] => false | _ :: s' => glob_match (42 :: p) s' end.
Proof. destruct s; reflexivity. Qed.

Lemma glob_char c p d s : c <> 42 ->
  glob_match (c :: p) (d :: s) = ((c =? 63) || (c =? d)) && glob_match p s.
Proof.
  intros H. cbn [glob_match].
  replace (c =? 42) with false by (symmetry; apply Z.eqb_neq; exact H). reflexivity.
Qed.
Lemma glob_char_nil c p : c <> 42 -> glob_match (c :: p) [] = false.
Proof.
  intros H. cbn [glob_match].
  replace (c =? 42) with false by (symmetry; apply Z.eqb_neq; exact H). reflexivity.
Qed.

Lemma glob_sound p : forall s, glob_match p s = true -> Glob p s.
Proof.
  induction p as [|c p IHp]; intros s.
  - destruct s; cbn; [constructor|discriminate].
  - destruct (Z.eq_dec c 42) as [->|Hc].
    + induction s as [|d s IHs]; rewrite glob_star; intros H; apply orb_true_iff in H.
      * destruct H as [H|H]; [|discriminate]. apply G_star_empty. apply IHp. exact H.
      * destruct H as [H|H]; [apply G_star_empty; apply IHp; exact H|].
        apply G_star_more. apply IHs. exact H.
    + destruct s as [|d s]; [rewrite glob_char_nil by exact Hc; discriminate|].
      rewrite glob_char by exact Hc. intros H. apply andb_true_iff in H. destruct H as [H1 H2].
      apply orb_true_iff in H1. destruct H1 as [H1|H1].
      * apply Z.eqb_eq in H1. subst c. apply G_one. apply IHp. exact H2.
      * apply Z.eqb_eq in H1. subst d. apply G_lit; [exact Hc|]. apply IHp. exact H2.
Qed.

Lemma glob_complete p s : Glob p s -> glob_match p s = true.
Proof.
  induction 1 as [|p s c _ IH|p s _ IH|p s c _ IH|p s c Hc _ IH].
  - reflexivity.
  - rewrite glob_char by lia. rewrite IH. reflexivity.
  - rewrite glob_star. rewrite IH. reflexivity.
  - rewrite glob_star. rewrite IH. apply orb_true_r.
  - rewrite glob_char by exact Hc. rewrite IH, Z.eqb_refl, orb_true_r. reflexivity.
Qed.

Lemma glob_spec p s : glob_match p s = true <-> Glob p s.
Proof. split; [apply glob_sound | apply glob_complete]. Qed.

Example glob_ex1 : glob_match [97; 42] [97; 112; 112; 108; 101] = true.
Proof. reflexivity. Qed.
Example glob_ex2 : glob_match [63; 112; 42; 101] [97; 112; 101] = true.
Proof. reflexivity. Qed.
Example glob_ex3 : glob_match [63; 112] [97; 112; 101] = false.
Proof. reflexivity. Qed.

(* ------------------------------------------ the meaning of a criterion *)
Definition Sat (c : criterion) (x : pyval) : Prop :=
  match c with
  | CNumEq n =>            (* the cell stands for a number equal to n *)
      exists v, is_num x = Ok true /\ to_num x = Ok v /\ py_eq v n = true
  | CWild p =>             (* text whose lower-cased form matches the pattern *)
      exists s w, x = VStr s /\ lower_str s = Ok w /\ Glob p w
  | COpNum o n =>          (* text and blank satisfy only <>; numbers compare *)
      match x with
      | VStr _ | VNone => o = ONe
      | _ => cmp_cop o x n = Ok true
      end
  | COpText o v =>         (* case-insensitive text comparison; non-text only <> *)
      match x with
      | VNone => (v = [] /\ o <> ONe) \/ (v <> [] /\ o = ONe)
      | VStr s => exists w, lower_str s = Ok w /\ cmp_cop o (VStr w) (VStr v) = Ok true
      | _ => o = ONe
      end
  end.

Lemma is_ne_spec o b : Ok (is_ne o) = Ok b -> (b = true <-> o = ONe).
Proof. intros H. injection H as <-. destruct o; cbn; split; congruence. Qed.

Lemma sat_spec c x b : sat c x = Ok b -> (b = true <-> Sat c x).
Proof.
  destruct c as [n|p|o n|o v]; cbn [sat Sat].
  - destruct (is_num x) as [[|]|e] eqn:E; cbn [bind]; [| |discriminate].
    + destruct (to_num x) as [v|e] eqn:E2; cbn [bind]; [|discriminate].
      intros H. injection H as <-. split.
      * intros Hb. exists v. auto.
      * intros (v' & _ & Hv & He). injection Hv as <-. exact He.
    + intros H. injection H as <-. split; [discriminate|].
      intros (v & Hc & _). discriminate.
  - destruct x; try discriminate.
    + intros H. injection H as <-. split; [discriminate|]. intros (s & w & Hx & _). discriminate.
    + destruct (lower_str s) as [w|e] eqn:E; cbn [bind]; [|discriminate].
      destruct (has_newline w); [discriminate|]. intros H. injection H as <-. split.
      * intros Hg. exists s, w. repeat split; auto. apply glob_spec. exact Hg.
      * intros (s' & w' & Hx & Hl & Hg). injection Hx as <-. rewrite E in Hl. injection Hl as <-.
        apply glob_spec. exact Hg.
  - destruct x; try discriminate; try apply is_ne_spec;
      (intros H; rewrite H; split; [intros ->; reflexivity | intros H'; injection H' as ->; reflexivity]).
  - destruct x; try apply is_ne_spec.
    + intros H. injection H as <-. destruct v; destruct o; cbn; split; intros H;
        try discriminate; try reflexivity;
        try (left; split; [reflexivity|discriminate]);
        try (right; split; [discriminate|reflexivity]);
        destruct H as [[H1 H2]|[H1 H2]]; congruence.
    + destruct (lower_str s) as [w|e] eqn:E; cbn [bind]; [|discriminate].
      intros H. split.
      * intros ->. exists w. auto.
      * intros (w' & Hw & Hc). injection Hw as <-. rewrite H in Hc. injection Hc as ->. reflexivity.
Qed.

(* the property's words, on the executable check *)
Lemma text_only_ne o n s : sat (COpNum o n) (VStr s) = Ok (is_ne o).
Proof. reflexivity. Qed.
Lemma blank_only_ne o n : sat (COpNum o n) VNone = Ok (is_ne o).
Proof. reflexivity. Qed.
Lemma number_compares o n z : sat (COpNum o n) (VInt z) = cmp_cop o (VInt z) n.
Proof. reflexivity. Qed.
Lemma text_case_insensitive a v : non_ascii a = false ->
  sat (COpText OEq v) (VStr a) = Ok (str_eqb (map ascii_lower a) v).
Proof.
  intros H. cbn [sat]. unfold lower_str, str_lower. rewrite H. reflexivity.
Qed.
Lemma nontext_never_wild_eq o v z : sat (COpText o v) (VInt z) = Ok (is_ne o).
Proof. reflexivity. Qed.

(* ------------------------------------------------------ list machinery *)
Definition okb {A} (f : A -> res bool) (x : A) : bool :=
  match f x with Ok true => true | _ => false end.

Lemma filterM_filter {A} (f : A -> res bool) l r :
  filterM f l = Ok r -> r = filter (okb f) l /\ forall x, In x l -> exists b, f x = Ok b.
Proof.
  revert r. induction l as [|a l IH]; cbn [filterM filter]; intros r H.
  - injection H as <-. split; [reflexivity|]. intros x [].
  - destruct (f a) as [b|e] eqn:E; cbn [bind] in H; [|discriminate].
    destruct (filterM f l) as [r'|e] eqn:E2; cbn [bind] in H; [|discriminate].
    injection H as <-. destruct (IH r' eq_refl) as [-> Hall].
    assert (Hb : okb f a = b) by (unfold okb; rewrite E; destruct b; reflexivity).
    rewrite Hb. split.
    + destruct b; reflexivity.
    + intros x [<-|Hx]; eauto.
Qed.

Lemma okb_true {A} (f : A -> res bool) x : okb f x = true <-> f x = Ok true.
Proof. unfold okb. destruct (f x) as [[|]|]; split; congruence. Qed.

Lemma mapM_Forall2 {A B} (f : A -> res B) l ys :
  mapM f l = Ok ys -> Forall2 (fun x y => f x = Ok y) l ys.
Proof.
  revert ys. induction l as [|a l IH]; cbn [mapM]; intros ys H.
  - injection H as <-. constructor.
  - destruct (f a) as [y|e] eqn:E; cbn [bind] in H; [|discriminate].
    destruct (mapM f l) as [ys'|e] eqn:E2; cbn [bind] in H; [|discriminate].
    injection H as <-. constructor; auto.
Qed.
Lemma Forall2_mapM {A B} (f : A -> res B) l ys :
  Forall2 (fun x y => f x = Ok y) l ys -> mapM f l = Ok ys.
Proof.
  induction 1 as [|a y l ys H _ IH]; cbn [mapM]; [reflexivity|]. rewrite H. cbn [bind].
  rewrite IH. reflexivity.
Qed.
Lemma forall2_length {A B} (R : A -> B -> Prop) l1 l2 : Forall2 R l1 l2 -> length l1 = length l2.
Proof. induction 1; cbn; congruence. Qed.
Lemma forall2_in_r {A B} (R : A -> B -> Prop) l1 l2 b :
  Forall2 R l1 l2 -> In b l2 -> exists a, In a l1 /\ R a b.
Proof.
  induction 1 as [|x y l1 l2 Hxy _ IH]; cbn; intros Hb; [contradiction|].
  destruct Hb as [<-|Hb]; [eauto|]. destruct (IH Hb) as (a & Ha & HR). eauto.
Qed.
Lemma mapM_length {A B} (f : A -> res B) l ys : mapM f l = Ok ys -> length ys = length l.
Proof. intros H. apply mapM_Forall2 in H. symmetry. eapply forall2_length. exact H. Qed.

Lemma nodup_app {A} (l1 l2 : list A) :
  NoDup l1 -> NoDup l2 -> (forall x, In x l1 -> ~ In x l2) -> NoDup (l1 ++ l2).
Proof.
  induction l1 as [|a l1 IH]; cbn; intros H1 H2 H; [exact H2|].
  inversion H1 as [|? ? Ha Hl]; subst. constructor.
  - rewrite in_app_iff. intros [Hi|Hi]; [auto|]. eapply H; eauto.
  - apply IH; auto.
Qed.

Lemma nodup_map_filter {A B} (g : A -> B) (f : A -> bool) l :
  NoDup (map g l) -> NoDup (map g (filter f l)).
Proof.
  induction l as [|a l IH]; cbn; intros H; [constructor|].
  inversion H as [|? ? Ha Hl]; subst. destruct (f a); cbn; [|auto].
  constructor; [|auto]. intros Hin. apply Ha. apply in_map_iff in Hin.
  destruct Hin as (y & Hy & Hin). apply filter_In in Hin. apply in_map_iff. exists y. tauto.
Qed.

Lemma filter_all {A} (f : A -> bool) l : (forall x, In x l -> f x = true) -> filter f l = l.
Proof.
  induction l as [|a l IH]; cbn; intros H; [reflexivity|].
  rewrite (H a) by auto. f_equal. apply IH. auto.
Qed.

Lemma fst_unique {A B} (l : list (A * B)) i x y :
  NoDup (map fst l) -> In (i, x) l -> In (i, y) l -> x = y.
Proof.
  induction l as [|[j z] l IH]; cbn; intros H Hx Hy; [contradiction|].
  inversion H as [|? ? Ha Hl]; subst.
  destruct Hx as [Hx|Hx]; destruct Hy as [Hy|Hy].
  - congruence.
  - injection Hx as -> ->. exfalso. apply Ha. apply in_map_iff. exists (i, y). auto.
  - injection Hy as -> ->. exfalso. apply Ha. apply in_map_iff. exists (i, x). auto.
  - auto.
Qed.

(* ------------------------------------------ positions of a range: distinct *)
Lemma enum_row_In r c row i x : In (i, x) (enum_row r c row) -> fst i = r /\ c <= snd i.
Proof.
  revert c. induction row as [|a row IH]; cbn; intros c H; [contradiction|].
  destruct H as [H|H].
  - injection H as <- <-. cbn. lia.
  - apply IH in H. lia.
Qed.
Lemma enum_row_NoDup r c row : NoDup (map fst (enum_row r c row)).
Proof.
  revert c. induction row as [|a row IH]; cbn; intros c; constructor; [|apply IH].
  intros H. apply in_map_iff in H. destruct H as ((i, x) & Hi & Hin). cbn in Hi. subst i.
  apply enum_row_In in Hin. cbn in Hin. lia.
Qed.
Lemma enum_rows_In r rows i x : In (i, x) (enum_rows r rows) -> r <= fst i.
Proof.
  revert r. induction rows as [|row rows IH]; cbn; intros r H; [contradiction|].
  apply in_app_iff in H. destruct H as [H|H].
  - apply enum_row_In in H. lia.
  - apply IH in H. lia.
Qed.
Lemma enum_rows_NoDup r rows : NoDup (map fst (enum_rows r rows)).
Proof.
  revert r. induction rows as [|row rows IH]; cbn; intros r; [constructor|].
  rewrite map_app. apply nodup_app; [apply enum_row_NoDup | apply IH |].
  intros i H1 H2. apply in_map_iff in H1. destruct H1 as ((i1, x1) & E1 & H1). cbn in E1. subst i1.
  apply in_map_iff in H2. destruct H2 as ((i2, x2) & E2 & H2). cbn in E2. subst i2.
  apply enum_row_In in H1. apply enum_rows_In in H2. lia.
Qed.

(* ------------------------------------------------------ Counter, select *)
Lemma idx_eqb_refl a : idx_eqb a a = true.
Proof. unfold idx_eqb. destruct (idx_dec a a); congruence. Qed.
Lemma idx_eqb_neq a b : a <> b -> idx_eqb a b = false.
Proof. unfold idx_eqb. destruct (idx_dec a b); congruence. Qed.

Lemma uniq_In l x : In x (uniq l) <-> In x l.
Proof.
  induction l as [|a l IH]; cbn; [tauto|]. split.
  - intros [->|H]; [auto|]. apply filter_In in H. right. apply IH. tauto.
  - intros [->|H]; [auto|]. destruct (idx_dec a x) as [->|Hn]; [auto|]. right.
    apply filter_In. split; [apply IH; exact H|]. rewrite idx_eqb_neq by exact Hn. reflexivity.
Qed.
Lemma uniq_NoDup l : NoDup (uniq l).
Proof.
  induction l as [|a l IH]; cbn; constructor.
  - intros H. apply filter_In in H. destruct H as [_ H]. rewrite idx_eqb_refl in H. discriminate.
  - apply NoDup_filter. exact IH.
Qed.
Lemma uniq_nodup l : NoDup l -> uniq l = l.
Proof.
  induction l as [|a l IH]; cbn; intros H; [reflexivity|].
  inversion H as [|? ? Ha Hl]; subst. rewrite IH by exact Hl. f_equal.
  apply filter_all. intros x Hx. rewrite idx_eqb_neq; [reflexivity|]. intros ->. contradiction.
Qed.

Lemma select_filter k l :
  select k (counter l) = filter (fun i => Nat.eqb (count_occ idx_dec l i) k) (uniq l).
Proof.
  unfold select, counter. induction (uniq l) as [|a u IH]; cbn; [reflexivity|].
  destruct (Nat.eqb (count_occ idx_dec l a) k); cbn; rewrite IH; reflexivity.
Qed.

Lemma select_In k l i :
  In i (select k (counter l)) <-> In i l /\ count_occ idx_dec l i = k.
Proof.
  rewrite select_filter, filter_In, uniq_In, Nat.eqb_eq. tauto.
Qed.
Lemma select_NoDup k l : NoDup (select k (counter l)).
Proof. rewrite select_filter. apply NoDup_filter. apply uniq_NoDup. Qed.

(* one duplicate-free list: Counter gives it back *)
Lemma select1_nodup l : NoDup l -> select 1 (counter l) = l.
Proof.
  intros H. rewrite select_filter, (uniq_nodup l H). apply filter_all.
  intros x Hx. apply Nat.eqb_eq. apply NoDup_count_occ'; assumption.
Qed.

Lemma count_concat_le ls i : (forall l, In l ls -> NoDup l) ->
  (count_occ idx_dec (concat ls) i <= length ls)%nat.
Proof.
  induction ls as [|l ls IH]; cbn [concat length]; intros H; [cbn; lia|].
  rewrite count_occ_app.
  assert (H1 : (count_occ idx_dec l i <= 1)%nat).
  { apply NoDup_count_occ. apply H. left. reflexivity. }
  assert (H2 : (count_occ idx_dec (concat ls) i <= length ls)%nat).
  { apply IH. intros l' Hl'. apply H. right. exact Hl'. }
  lia.
Qed.

Lemma count_concat_all ls i : (forall l, In l ls -> NoDup l) ->
  (count_occ idx_dec (concat ls) i = length ls <-> forall l, In l ls -> In i l).
Proof.
  induction ls as [|l ls IH]; cbn [concat length]; intros H.
  - cbn. split; [intros _ l []|reflexivity].
  - rewrite count_occ_app.
    assert (H1 : (count_occ idx_dec l i <= 1)%nat).
    { apply NoDup_count_occ. apply H. left. reflexivity. }
    assert (Hls : forall l', In l' ls -> NoDup l') by (intros l' Hl'; apply H; right; exact Hl').
    pose proof (count_concat_le ls i Hls) as H2.
    specialize (IH Hls). split.
    + intros Hs l' [<-|Hl'].
      * apply (count_occ_In idx_dec). lia.
      * apply IH; [lia|exact Hl'].
    + intros Hall.
      assert (Hi : In i l) by (apply Hall; left; reflexivity).
      apply (count_occ_In idx_dec) in Hi.
      assert (count_occ idx_dec (concat ls) i = length ls).
      { apply IH. intros l' Hl'. apply Hall. right. exact Hl'. }
      lia.
Qed.

Lemma Forall2_all {A B} (R : A -> B -> Prop) (P : A -> Prop) (Q : B -> Prop) l1 l2 :
  Forall2 R l1 l2 -> (forall a b, R a b -> (P a <-> Q b)) ->
  ((forall a, In a l1 -> P a) <-> (forall b, In b l2 -> Q b)).
Proof.
  intros HF HR. induction HF as [|a b l1 l2 Hab _ IH].
  - split; intros _ ? [].
  - split; intros H x [Hx|Hx].
    + subst x. apply (HR a b Hab). apply H. left. reflexivity.
    + apply IH; [|exact Hx]. intros a' Ha'. apply H. right. exact Ha'.
    + subst x. apply (HR a b Hab). apply H. left. reflexivity.
    + apply IH; [|exact Hx]. intros b' Hb'. apply H. right. exact Hb'.
Qed.

(* ------------------------------------------------ scanning one range *)
Lemma find_cells_spec c cells l : NoDup (map fst cells) -> find_cells c cells = Ok l ->
  NoDup l /\ (forall i, In i l <-> exists x, In (i, x) cells /\ Sat c x)
  /\ (forall i x, In (i, x) cells -> exists b, sat c x = Ok b).
Proof.
  intros Hnd. unfold find_cells.
  destruct (filterM (fun p => sat c (snd p)) cells) as [r|e] eqn:E; cbn [bind]; [|discriminate].
  intros H. injection H as <-. apply filterM_filter in E. destruct E as [-> Hall]. split; [|split].
  - apply nodup_map_filter. exact Hnd.
  - intros i. rewrite in_map_iff. split.
    + intros ((i', x) & Hi & Hin). cbn in Hi. subst i'. apply filter_In in Hin.
      destruct Hin as [Hin Hs]. apply okb_true in Hs. cbn in Hs. exists x. split; [exact Hin|].
      apply (sat_spec c x true Hs). reflexivity.
    + intros (x & Hin & Hs). exists (i, x). split; [reflexivity|]. apply filter_In. split; [exact Hin|].
      apply okb_true. cbn. destruct (Hall (i, x) Hin) as (b & Hb). cbn in Hb. rewrite Hb. f_equal.
      apply (sat_spec c x b Hb). exact Hs.
  - intros i x Hin. apply (Hall (i, x) Hin).
Qed.

Lemma scan_spec rows crit l : scan rows crit = Ok l ->
  exists c, parse_criteria crit = Ok c /\ NoDup l
            /\ forall i, In i l <-> exists x, In (i, x) (enum_rows 0 rows) /\ Sat c x.
Proof.
  unfold scan. destruct (parse_criteria crit) as [c|e]; cbn [bind]; [|discriminate].
  intros H. apply find_cells_spec in H; [|apply enum_rows_NoDup].
  exists c. destruct H as (H1 & H2 & _). auto.
Qed.

(* ---------------------- C15_select: the index set computed by handle_ifs *)
(* cell i of the range [rows] satisfies the criterion value [crit] *)
Definition cell_sat (i : idx) (rows : list (list pyval)) (crit : pyval) : Prop :=
  exists c x, parse_criteria crit = Ok c /\ In (i, x) (enum_rows 0 rows) /\ Sat c x.

Theorem select_sound prs coords : prs <> [] -> select_stage prs = Ok coords ->
  NoDup coords
  /\ forall i, In i coords <-> (forall rows crit, In (rows, crit) prs -> cell_sat i rows crit).
Proof.
  intros Hne. unfold select_stage.
  destruct (mapM (fun p => scan (fst p) (snd p)) prs) as [ls|e] eqn:E; cbn [bind]; [|discriminate].
  intros H. injection H as <-. split; [apply select_NoDup|]. intros i.
  apply mapM_Forall2 in E.
  assert (Hlen : length prs = length ls) by (eapply forall2_length; exact E).
  assert (Hnd : forall l, In l ls -> NoDup l).
  { intros l Hl. destruct (forall2_in_r _ _ _ l E Hl) as (p & _ & Hp).
    apply scan_spec in Hp. destruct Hp as (c & _ & Hn & _). exact Hn. }
  rewrite select_In, Hlen.
  assert (Hall : (forall l, In l ls -> In i l)
                 <-> (forall p, In p prs -> cell_sat i (fst p) (snd p))).
  { symmetry. apply (Forall2_all _ _ _ _ _ E). intros p l Hp. apply scan_spec in Hp.
    destruct Hp as (c & Hc & _ & Hin). rewrite Hin. unfold cell_sat. split.
    - intros (c' & x & Hc' & Hx & Hs). rewrite Hc in Hc'. injection Hc' as <-. eauto.
    - intros (x & Hx & Hs). eauto. }
  split.
  - intros [_ Hc]. pose proof (proj1 (count_concat_all ls i Hnd) Hc) as Hc'.
    intros rows crit Hin. apply (proj1 Hall Hc' (rows, crit) Hin).
  - intros H.
    assert (Hl : forall l, In l ls -> In i l).
    { apply Hall. intros [rows crit] Hp. apply H. exact Hp. }
    split; [|apply (count_concat_all ls i Hnd); exact Hl].
    destruct ls as [|l ls']; [destruct prs; [congruence|discriminate]|].
    cbn [concat]. apply in_app_iff. left. apply Hl. left. reflexivity.
Qed.

(* criteria pairs commute: any permutation selects the same set *)
Lemma mapM_perm {A B} (f : A -> res B) l l' ys :
  Permutation l l' -> mapM f l = Ok ys -> exists ys', mapM f l' = Ok ys'.
Proof.
  intros HP H. apply mapM_Forall2 in H.
  assert (HF : Forall (fun x => exists y, f x = Ok y) l).
  { clear HP. induction H; constructor; eauto. }
  apply (Permutation_Forall HP) in HF. clear H HP.
  induction HF as [|a l2 (y & Hy) _ (ys' & IH)]; [exists []; reflexivity|].
  exists (y :: ys'). cbn [mapM]. rewrite Hy. cbn [bind]. rewrite IH. reflexivity.
Qed.

Theorem commute prs prs' a : prs <> [] -> Permutation prs prs' -> select_stage prs = Ok a ->
  exists b, select_stage prs' = Ok b /\ NoDup b /\ forall i, In i a <-> In i b.
Proof.
  intros Hne HP Ha.
  assert (Hne' : prs' <> []).
  { intros ->. apply Permutation_sym, Permutation_nil in HP. contradiction. }
  assert (Hb : exists b, select_stage prs' = Ok b).
  { unfold select_stage in *.
    destruct (mapM (fun p => scan (fst p) (snd p)) prs) as [ls|e] eqn:E; cbn [bind] in Ha; [|discriminate].
    destruct (mapM_perm _ _ _ _ HP E) as (ls' & ->). cbn [bind]. eauto. }
  destruct Hb as (b & Hb). exists b. split; [exact Hb|].
  destruct (select_sound prs a Hne Ha) as [_ Ha'].
  destruct (select_sound prs' b Hne' Hb) as [Hnd Hb']. split; [exact Hnd|].
  intros i. rewrite Ha', Hb'. split; intros H rows crit Hin; apply H.
  - eapply Permutation_in; [apply Permutation_sym; exact HP|exact Hin].
  - eapply Permutation_in; [exact HP|exact Hin].
Qed.

(* ------------------------------------------- "=x" and "<>x" partition *)
(* text operand: the two closures are complements on every cell *)
Lemma partition_text w x b :
  sat (COpText OEq w) x = Ok b -> sat (COpText ONe w) x = Ok (negb b).
Proof.
  destruct x; cbn [sat]; try (intros H; injection H as <-; reflexivity).
  - intros H. injection H as <-. destruct w; reflexivity.
  - destruct (lower_str s) as [u|e]; cbn [bind cmp_cop]; [|discriminate].
    intros H. injection H as <-. reflexivity.
Qed.

(* cells on which a numeric operand partitions: everything except text that
   is_number accepts (a numeric text satisfies both, see Refuted/C15_partition.v) *)
Definition part_ok (x : pyval) : Prop :=
  match x with
  | VNone | VBool _ | VInt _ => True
  | VStr s => is_num (VStr s) = Ok false
  | _ => False
  end.

Ltac num_run :=
  unfold is_num, to_num, excelutil.f_is_number, excelutil.f_is_array_arg, excelutil.f_is_address, py_fuel;
  repeat (progress (py_step; cbn [excelutil.f_coerce_to_number py_float])).

Lemma is_num_none : is_num VNone = Ok false.
Proof. num_run. reflexivity. Qed.
Lemma is_num_int z : is_num (VInt z) = Ok true.
Proof. num_run. reflexivity. Qed.
Lemma is_num_bool c : is_num (VBool c) = Ok true.
Proof. num_run. reflexivity. Qed.
Lemma to_num_int z : to_num (VInt z) = Ok (VInt z).
Proof. num_run. reflexivity. Qed.
Lemma to_num_bool c : to_num (VBool c) = Ok (VBool c).
Proof. num_run. reflexivity. Qed.

Lemma partition_num n x b : part_ok x ->
  sat (CNumEq n) x = Ok b -> sat (COpNum ONe n) x = Ok (negb b).
Proof.
  destruct x; cbn [part_ok]; try contradiction; intros Hp; cbn [sat].
  - rewrite is_num_none. cbn [bind]. intros H. injection H as <-. reflexivity.
  - rewrite is_num_bool. cbn [bind]. rewrite to_num_bool. cbn [bind cmp_cop].
    intros H. injection H as <-. reflexivity.
  - rewrite is_num_int. cbn [bind]. rewrite to_num_int. cbn [bind cmp_cop].
    intros H. injection H as <-. reflexivity.
  - rewrite Hp. cbn [bind]. intros H. injection H as <-. reflexivity.
Qed.

(* how "=v" and "<>v" parse *)
Lemma lookup_eq : lookup_op [61] = Ok OEq.
Proof. reflexivity. Qed.
Lemma lookup_ne : lookup_op [60; 62] = Ok ONe.
Proof. reflexivity. Qed.

Lemma newline_eq v : has_newline (61 :: v) = has_newline v.
Proof. reflexivity. Qed.
Lemma newline_ne v : has_newline (60 :: 62 :: v) = has_newline v.
Proof. reflexivity. Qed.

Lemma parse_eq_text v w : is_num (VStr (61 :: v)) = Ok false -> has_newline v = false ->
  is_num (VStr v) = Ok false -> has_wild v = false -> lower_str v = Ok w ->
  parse_criteria (VStr (61 :: v)) = Ok (COpText OEq w).
Proof.
  intros H0 Hn Hv Hw Hl. unfold parse_criteria. rewrite H0. cbn [bind].
  rewrite newline_eq, Hn. cbn [split_op fst snd]. rewrite lookup_eq. cbn [bind].
  rewrite Hv. cbn [bind is_eq andb]. rewrite Hw, Hl. reflexivity.
Qed.
Lemma parse_ne_text v w : is_num (VStr (60 :: 62 :: v)) = Ok false -> has_newline v = false ->
  is_num (VStr v) = Ok false -> lower_str v = Ok w ->
  parse_criteria (VStr (60 :: 62 :: v)) = Ok (COpText ONe w).
Proof.
  intros H0 Hn Hv Hl. unfold parse_criteria. rewrite H0. cbn [bind].
  rewrite newline_ne, Hn. cbn [split_op fst snd]. rewrite lookup_ne. cbn [bind].
  rewrite Hv. cbn [bind is_eq andb]. rewrite Hl. reflexivity.
Qed.
Lemma parse_eq_num v n : is_num (VStr (61 :: v)) = Ok false -> has_newline v = false ->
  is_num (VStr v) = Ok true -> to_num (VStr v) = Ok n ->
  parse_criteria (VStr (61 :: v)) = Ok (CNumEq n).
Proof.
  intros H0 Hn Hv Ht. unfold parse_criteria. rewrite H0. cbn [bind].
  rewrite newline_eq, Hn. cbn [split_op fst snd]. rewrite lookup_eq. cbn [bind].
  rewrite Hv. cbn [bind is_eq andb]. rewrite Ht. reflexivity.
Qed.
Lemma parse_ne_num v n : is_num (VStr (60 :: 62 :: v)) = Ok false -> has_newline v = false ->
  is_num (VStr v) = Ok true -> to_num (VStr v) = Ok n ->
  parse_criteria (VStr (60 :: 62 :: v)) = Ok (COpNum ONe n).
Proof.
  intros H0 Hn Hv Ht. unfold parse_criteria. rewrite H0. cbn [bind].
  rewrite newline_ne, Hn. cbn [split_op fst snd]. rewrite lookup_ne. cbn [bind].
  rewrite Hv. cbn [bind is_eq andb]. rewrite Ht. reflexivity.
Qed.

(* the operand v is "plain": the criteria "=v" and "<>v" are not numbers
   themselves and v has no line feed *)
Definition plain_operand (v : str) : Prop :=
  is_num (VStr (61 :: v)) = Ok false /\ is_num (VStr (60 :: 62 :: v)) = Ok false
  /\ has_newline v = false.

(* C15_partition_partial, on one cell *)
Theorem partition_cell v x b : plain_operand v ->
  (is_num (VStr v) = Ok false /\ has_wild v = false /\ (exists w, lower_str v = Ok w))
  \/ (is_num (VStr v) = Ok true /\ (exists n, to_num (VStr v) = Ok n) /\ part_ok x) ->
  criteria_check (VStr (61 :: v)) x = Ok (VBool b) ->
  criteria_check (VStr (60 :: 62 :: v)) x = Ok (VBool (negb b)).
Proof.
  intros (H1 & H2 & H3) [(Hv & Hw & w & Hl)|(Hv & (n & Ht) & Hp)]; unfold criteria_check.
  - rewrite (parse_eq_text v w H1 H3 Hv Hw Hl), (parse_ne_text v w H2 H3 Hv Hl). cbn [bind].
    destruct (sat (COpText OEq w) x) as [b'|e] eqn:E; cbn [bind]; [|discriminate].
    intros H. injection H as <-. rewrite (partition_text w x b' E). reflexivity.
  - rewrite (parse_eq_num v n H1 H3 Hv Ht), (parse_ne_num v n H2 H3 Hv Ht). cbn [bind].
    destruct (sat (CNumEq n) x) as [b'|e] eqn:E; cbn [bind]; [|discriminate].
    intros H. injection H as <-. rewrite (partition_num n x b' Hp E). reflexivity.
Qed.

(* ... and on a whole range: the positions selected by "=v" and by "<>v" are
   complementary *)
Lemma find_cells_In c cells l i x : NoDup (map fst cells) -> find_cells c cells = Ok l ->
  In (i, x) cells -> (In i l <-> sat c x = Ok true).
Proof.
  intros Hnd H Hin. destruct (find_cells_spec c cells l Hnd H) as (_ & Hl & Htot).
  rewrite Hl. destruct (Htot i x Hin) as (b & Hb). split.
  - intros (y & Hy & Hs). rewrite (fst_unique cells i x y Hnd Hin Hy). 
    destruct (Htot i y Hy) as (b' & Hb'). rewrite Hb'. f_equal. apply (sat_spec c y b' Hb'). exact Hs.
  - intros Hs. exists x. split; [exact Hin|]. apply (sat_spec c x true Hs). reflexivity.
Qed.

Theorem partition_range v rows l1 l2 : plain_operand v ->
  (is_num (VStr v) = Ok false /\ has_wild v = false /\ (exists w, lower_str v = Ok w))
  \/ (is_num (VStr v) = Ok true /\ (exists n, to_num (VStr v) = Ok n)
      /\ forall i x, In (i, x) (enum_rows 0 rows) -> part_ok x) ->
  scan rows (VStr (61 :: v)) = Ok l1 -> scan rows (VStr (60 :: 62 :: v)) = Ok l2 ->
  forall i x, In (i, x) (enum_rows 0 rows) -> (In i l1 <-> ~ In i l2).
Proof.
  intros Hpl Hcase. unfold scan.
  destruct (parse_criteria (VStr (61 :: v))) as [c1|e] eqn:P1; cbn [bind]; [|discriminate].
  destruct (parse_criteria (VStr (60 :: 62 :: v))) as [c2|e] eqn:P2; cbn [bind]; [|discriminate].
  intros F1 F2 i x Hin.
  rewrite (find_cells_In c1 _ l1 i x (enum_rows_NoDup 0 rows) F1 Hin).
  rewrite (find_cells_In c2 _ l2 i x (enum_rows_NoDup 0 rows) F2 Hin).
  destruct (find_cells_spec c1 _ l1 (enum_rows_NoDup 0 rows) F1) as (_ & _ & T1).
  destruct (T1 i x Hin) as (b & Hb).
  assert (Hcell : (is_num (VStr v) = Ok false /\ has_wild v = false /\ (exists w, lower_str v = Ok w))
                  \/ (is_num (VStr v) = Ok true /\ (exists n, to_num (VStr v) = Ok n) /\ part_ok x)).
  { destruct Hcase as [H|(Ha & Hb' & Hc)]; [left; exact H|right; eauto]. }
  pose proof (partition_cell v x b Hpl Hcell) as HP. unfold criteria_check in HP.
  rewrite P1, P2 in HP. cbn [bind] in HP. rewrite Hb in HP. cbn [bind] in HP.
  specialize (HP eq_refl).
  destruct (sat c2 x) as [b2|e]; cbn [bind] in HP; [|discriminate].
  injection HP as ->. rewrite Hb. destruct b; cbn; split; congruence.
Qed.
