(* Proofs/C15.v — conditional aggregation (Model/Criteria.v): the ?/* matcher
   against a declarative definition, the meaning of a criterion, the index
   set computed by handle_ifs, commutation, IFS = IF, the =x / <>x partition,
   AVERAGEIFS = SUMIFS / COUNTIFS. *)
From Coq Require Import ZArith QArith List Bool Lia Permutation.
From PV Require Import Lib.Py Proofs.PyTac Model.Criteria.
From PV Require Gen.excelutil.
Import ListNotations.
Open Scope Z_scope.

(* ------------------------------------------------------------------ glob *)
(* declarative: ? matches one character, * any sequence, anything else itself *)
Inductive Glob : str -> str -> Prop :=
| G_nil : Glob [] []
| G_one p s c : Glob p s -> Glob (63 :: p) (c :: s)
| G_star_empty p s : Glob p s -> Glob (42 :: p) s
| G_star_more p s c : Glob (42 :: p) s -> Glob (42 :: p) (c :: s)
| G_lit p s c : c <> 42 -> Glob p s -> Glob (c :: p) (c :: s).

Lemma glob_star p s :
  glob_match (42 :: p) s
  = glob_match p s || match s with [] => false | _ :: s' => glob_match (42 :: p) s' end.
Proof. destruct s; reflexivity. Qed.

Lemma glob_char c p d s : c <> 42 ->
  glob_match (c :: p) (d :: s) = ((c =? 63) || (c =? d)) && glob_match p s.
Proof.
  intros H. cbn [glob_match].
  replace (c =? 42) with false by (symmetry; apply Z.eqb_neq; exact H). reflexivity.
Qed.
Lemma glob_char_nil c p : c <> 42 -> glob_match (c :: p) [] = false.
Proof.
  intros H. cbn [glob_match].
  replace (c =? 42) with false by (symmetry; apply Z.eqb_neq; exact H). reflexivity.
Qed.

Lemma glob_sound p : forall s, glob_match p s = true -> Glob p s.
Proof.
  induction p as [|c p IHp]; intros s.
  - destruct s; cbn; [constructor|discriminate].
  - destruct (Z.eq_dec c 42) as [->|Hc].
    + induction s as [|d s IHs]; rewrite glob_star; intros H; apply orb_true_iff in H.
      * destruct H as [H|H]; [|discriminate]. apply G_star_empty. apply IHp. exact H.
      * destruct H as [H|H]; [apply G_star_empty; apply IHp; exact H|].
        apply G_star_more. apply IHs. exact H.
    + destruct s as [|d s]; [rewrite glob_char_nil by exact Hc; discriminate|].
      rewrite glob_char by exact Hc. intros H. apply andb_true_iff in H. destruct H as [H1 H2].
      apply orb_true_iff in H1. destruct H1 as [H1|H1].
      * apply Z.eqb_eq in H1. subst c. apply G_one. apply IHp. exact H2.
      * apply Z.eqb_eq in H1. subst d. apply G_lit; [exact Hc|]. apply IHp. exact H2.
Qed.

Lemma glob_complete p s : Glob p s -> glob_match p s = true.
Proof.
  induction 1 as [|p s c _ IH|p s _ IH|p s c _ IH|p s c Hc _ IH].
  - reflexivity.
  - rewrite glob_char by lia. rewrite IH. reflexivity.
  - rewrite glob_star. rewrite IH. reflexivity.
  - rewrite glob_star. rewrite IH. apply orb_true_r.
  - rewrite glob_char by exact Hc. rewrite IH, Z.eqb_refl, orb_true_r. reflexivity.
Qed.

Lemma glob_spec p s : glob_match p s = true <-> Glob p s.
Proof. split; [apply glob_sound | apply glob_complete]. Qed.

Example glob_ex1 : glob_match [97; 42] [97; 112; 112; 108; 101] = true.
Proof. reflexivity. Qed.
Example glob_ex2 : glob_match [63; 112; 42; 101] [97; 112; 101] = true.
Proof. reflexivity. Qed.
Example glob_ex3 : glob_match [63; 112] [97; 112; 101] = false.
Proof. reflexivity. Qed.

(* ------------------------------------------ the meaning of a criterion *)
Definition Sat (c : criterion) (x : pyval) : Prop :=
  match c with
  | CNumEq n =>            (* the cell stands for a number equal to n *)
      exists v, is_num x = Ok true /\ to_num x = Ok v /\ py_eq v n = true
  | CWild p =>             (* text whose lower-cased form matches the pattern *)
      exists s w, x = VStr s /\ lower_str s = Ok w /\ Glob p w
  | COpNum o n =>          (* text and blank satisfy only <>; numbers compare *)
      match x with
      | VStr _ | VNone => o = ONe
      | _ => cmp_cop o x n = Ok true
      end
  | COpText o v =>         (* case-insensitive text comparison; non-text only <> *)
      match x with
      | VNone => (v = [] /\ o <> ONe) \/ (v <> [] /\ o = ONe)
      | VStr s => exists w, lower_str s = Ok w /\ cmp_cop o (VStr w) (VStr v) = Ok true
      | _ => o = ONe
      end
  end.

Lemma is_ne_spec o b : Ok (is_ne o) = Ok b -> (b = true <-> o = ONe).
Proof. intros H. injection H as <-. destruct o; cbn; split; congruence. Qed.

Lemma sat_spec c x b : sat c x = Ok b -> (b = true <-> Sat c x).
Proof.
  destruct c as [n|p|o n|o v]; cbn [sat Sat].
  - destruct (is_num x) as [[|]|e] eqn:E; cbn [bind]; [| |discriminate].
    + destruct (to_num x) as [v|e] eqn:E2; cbn [bind]; [|discriminate].
      intros H. injection H as <-. split.
      * intros Hb. exists v. auto.
      * intros (v' & _ & Hv & He). injection Hv as <-. exact He.
    + intros H. injection H as <-. split; [discriminate|].
      intros (v & Hc & _). discriminate.
  - destruct x;
      try (intros H; injection H as <-; split; [discriminate|]; intros (s & w & Hx & _); discriminate).
    destruct (lower_str s) as [w|e] eqn:E; cbn [bind]; [|discriminate].
    destruct (has_newline w); [discriminate|]. intros H. injection H as <-. split.
    + intros Hg. exists s, w. repeat split; auto. apply glob_spec. exact Hg.
    + intros (s' & w' & Hx & Hl & Hg). injection Hx as <-. rewrite E in Hl. injection Hl as <-.
      apply glob_spec. exact Hg.
  - destruct x; try discriminate; try apply is_ne_spec;
      (intros H; rewrite H; split; [intros ->; reflexivity | intros H'; injection H' as ->; reflexivity]).
  - destruct x; try apply is_ne_spec.
    + intros H. injection H as <-. destruct v; destruct o; cbn; split; intros H;
        try discriminate; try reflexivity;
        try (left; split; [reflexivity|discriminate]);
        try (right; split; [discriminate|reflexivity]);
        destruct H as [[H1 H2]|[H1 H2]]; congruence.
    + destruct (lower_str s) as [w|e] eqn:E; cbn [bind]; [|discriminate].
      intros H. split.
      * intros ->. exists w. auto.
      * intros (w' & Hw & Hc). injection Hw as <-. rewrite H in Hc. injection Hc as ->. reflexivity.
Qed.

(* the property's words, on the executable check *)
Lemma text_only_ne o n s : sat (COpNum o n) (VStr s) = Ok (is_ne o).
Proof. reflexivity. Qed.
Lemma blank_only_ne o n : sat (COpNum o n) VNone = Ok (is_ne o).
Proof. reflexivity. Qed.
Lemma number_compares o n z : sat (COpNum o n) (VInt z) = cmp_cop o (VInt z) n.
Proof. reflexivity. Qed.
Lemma text_case_insensitive a v : non_ascii a = false ->
  sat (COpText OEq v) (VStr a) = Ok (str_eqb (map ascii_lower a) v).
Proof.
  intros H. cbn [sat]. unfold lower_str, str_lower. rewrite H. reflexivity.
Qed.
Lemma wild_nontext p x : (forall s, x <> VStr s) -> sat (CWild p) x = Ok false.
Proof. intros H. destruct x; try reflexivity. exfalso. apply (H s). reflexivity. Qed.
Lemma nontext_never_wild_eq o v z : sat (COpText o v) (VInt z) = Ok (is_ne o).
Proof. reflexivity. Qed.

(* ------------------------------------------------------ list machinery *)
Definition okb {A} (f : A -> res bool) (x : A) : bool :=
  match f x with Ok true => true | _ => false end.

Lemma filterM_filter {A} (f : A -> res bool) l r :
  filterM f l = Ok r -> r = filter (okb f) l /\ forall x, In x l -> exists b, f x = Ok b.
Proof.
  revert r. induction l as [|a l IH]; cbn [filterM filter]; intros r H.
  - injection H as <-. split; [reflexivity|]. intros x [].
  - destruct (f a) as [b|e] eqn:E; cbn [bind] in H; [|discriminate].
    destruct (filterM f l) as [r'|e] eqn:E2; cbn [bind] in H; [|discriminate].
    injection H as <-. destruct (IH r' eq_refl) as [-> Hall].
    assert (Hb : okb f a = b) by (unfold okb; rewrite E; destruct b; reflexivity).
    rewrite Hb. split.
    + destruct b; reflexivity.
    + intros x [<-|Hx]; eauto.
Qed.

Lemma okb_true {A} (f : A -> res bool) x : okb f x = true <-> f x = Ok true.
Proof. unfold okb. destruct (f x) as [[|]|]; split; congruence. Qed.

Lemma mapM_Forall2 {A B} (f : A -> res B) l ys :
  mapM f l = Ok ys -> Forall2 (fun x y => f x = Ok y) l ys.
Proof.
  revert ys. induction l as [|a l IH]; cbn [mapM]; intros ys H.
  - injection H as <-. constructor.
  - destruct (f a) as [y|e] eqn:E; cbn [bind] in H; [|discriminate].
    destruct (mapM f l) as [ys'|e] eqn:E2; cbn [bind] in H; [|discriminate].
    injection H as <-. constructor; auto.
Qed.
Lemma Forall2_mapM {A B} (f : A -> res B) l ys :
  Forall2 (fun x y => f x = Ok y) l ys -> mapM f l = Ok ys.
Proof.
  induction 1 as [|a y l ys H _ IH]; cbn [mapM]; [reflexivity|]. rewrite H. cbn [bind].
  rewrite IH. reflexivity.
Qed.
Lemma forall2_length {A B} (R : A -> B -> Prop) l1 l2 : Forall2 R l1 l2 -> length l1 = length l2.
Proof. induction 1; cbn; congruence. Qed.
Lemma forall2_in_r {A B} (R : A -> B -> Prop) l1 l2 b :
  Forall2 R l1 l2 -> In b l2 -> exists a, In a l1 /\ R a b.
Proof.
  induction 1 as [|x y l1 l2 Hxy _ IH]; cbn; intros Hb; [contradiction|].
  destruct Hb as [<-|Hb]; [eauto|]. destruct (IH Hb) as (a & Ha & HR). eauto.
Qed.
Lemma mapM_length {A B} (f : A -> res B) l ys : mapM f l = Ok ys -> length ys = length l.
Proof. intros H. apply mapM_Forall2 in H. symmetry. eapply forall2_length. exact H. Qed.

Lemma nodup_app {A} (l1 l2 : list A) :
  NoDup l1 -> NoDup l2 -> (forall x, In x l1 -> ~ In x l2) -> NoDup (l1 ++ l2).
Proof.
  induction l1 as [|a l1 IH]; cbn; intros H1 H2 H; [exact H2|].
  inversion H1 as [|? ? Ha Hl]; subst. constructor.
  - rewrite in_app_iff. intros [Hi|Hi]; [auto|]. eapply H; eauto.
  - apply IH; auto.
Qed.

Lemma nodup_map_filter {A B} (g : A -> B) (f : A -> bool) l :
  NoDup (map g l) -> NoDup (map g (filter f l)).
Proof.
  induction l as [|a l IH]; cbn; intros H; [constructor|].
  inversion H as [|? ? Ha Hl]; subst. destruct (f a); cbn; [|auto].
  constructor; [|auto]. intros Hin. apply Ha. apply in_map_iff in Hin.
  destruct Hin as (y & Hy & Hin). apply filter_In in Hin. apply in_map_iff. exists y. tauto.
Qed.

Lemma filter_all {A} (f : A -> bool) l : (forall x, In x l -> f x = true) -> filter f l = l.
Proof.
  induction l as [|a l IH]; cbn; intros H; [reflexivity|].
  rewrite (H a) by auto. f_equal. apply IH. auto.
Qed.

Lemma fst_unique {A B} (l : list (A * B)) i x y :
  NoDup (map fst l) -> In (i, x) l -> In (i, y) l -> x = y.
Proof.
  induction l as [|[j z] l IH]; cbn; intros H Hx Hy; [contradiction|].
  inversion H as [|? ? Ha Hl]; subst.
  destruct Hx as [Hx|Hx]; destruct Hy as [Hy|Hy].
  - congruence.
  - injection Hx as -> ->. exfalso. apply Ha. apply in_map_iff. exists (i, y). auto.
  - injection Hy as -> ->. exfalso. apply Ha. apply in_map_iff. exists (i, x). auto.
  - auto.
Qed.

(* ------------------------------------------ positions of a range: distinct *)
Lemma enum_row_In r c row i x : In (i, x) (enum_row r c row) -> fst i = r /\ c <= snd i.
Proof.
  revert c. induction row as [|a row IH]; cbn; intros c H; [contradiction|].
  destruct H as [H|H].
  - injection H as <- <-. cbn. lia.
  - apply IH in H. lia.
Qed.
Lemma enum_row_NoDup r c row : NoDup (map fst (enum_row r c row)).
Proof.
  revert c. induction row as [|a row IH]; cbn; intros c; constructor; [|apply IH].
  intros H. apply in_map_iff in H. destruct H as ((i, x) & Hi & Hin). cbn in Hi. subst i.
  apply enum_row_In in Hin. cbn in Hin. lia.
Qed.
Lemma enum_rows_In r rows i x : In (i, x) (enum_rows r rows) -> r <= fst i.
Proof.
  revert r. induction rows as [|row rows IH]; cbn; intros r H; [contradiction|].
  apply in_app_iff in H. destruct H as [H|H].
  - apply enum_row_In in H. lia.
  - apply IH in H. lia.
Qed.
Lemma enum_rows_NoDup r rows : NoDup (map fst (enum_rows r rows)).
Proof.
  revert r. induction rows as [|row rows IH]; cbn; intros r; [constructor|].
  rewrite map_app. apply nodup_app; [apply enum_row_NoDup | apply IH |].
  intros i H1 H2. apply in_map_iff in H1. destruct H1 as ((i1, x1) & E1 & H1). cbn in E1. subst i1.
  apply in_map_iff in H2. destruct H2 as ((i2, x2) & E2 & H2). cbn in E2. subst i2.
  apply enum_row_In in H1. apply enum_rows_In in H2. lia.
Qed.

(* ------------------------------------------------------ Counter, select *)
Lemma idx_eqb_refl a : idx_eqb a a = true.
Proof. unfold idx_eqb. destruct (idx_dec a a); congruence. Qed.
Lemma idx_eqb_neq a b : a <> b -> idx_eqb a b = false.
Proof. unfold idx_eqb. destruct (idx_dec a b); congruence. Qed.

Lemma uniq_In l x : In x (uniq l) <-> In x l.
Proof.
  induction l as [|a l IH]; cbn; [tauto|]. split.
  - intros [->|H]; [auto|]. apply filter_In in H. right. apply IH. tauto.
  - intros [->|H]; [auto|]. destruct (idx_dec a x) as [->|Hn]; [auto|]. right.
    apply filter_In. split; [apply IH; exact H|]. rewrite idx_eqb_neq by exact Hn. reflexivity.
Qed.
Lemma uniq_NoDup l : NoDup (uniq l).
Proof.
  induction l as [|a l IH]; cbn; constructor.
  - intros H. apply filter_In in H. destruct H as [_ H]. rewrite idx_eqb_refl in H. discriminate.
  - apply NoDup_filter. exact IH.
Qed.
Lemma uniq_nodup l : NoDup l -> uniq l = l.
Proof.
  induction l as [|a l IH]; cbn; intros H; [reflexivity|].
  inversion H as [|? ? Ha Hl]; subst. rewrite IH by exact Hl. f_equal.
  apply filter_all. intros x Hx. rewrite idx_eqb_neq; [reflexivity|]. intros ->. contradiction.
Qed.

Lemma select_filter k l :
  select k (counter l) = filter (fun i => Nat.eqb (count_occ idx_dec l i) k) (uniq l).
Proof.
  unfold select, counter. induction (uniq l) as [|a u IH]; cbn; [reflexivity|].
  destruct (Nat.eqb (count_occ idx_dec l a) k); cbn; rewrite IH; reflexivity.
Qed.

Lemma select_In k l i :
  In i (select k (counter l)) <-> In i l /\ count_occ idx_dec l i = k.
Proof.
  rewrite select_filter, filter_In, uniq_In, Nat.eqb_eq. tauto.
Qed.
Lemma select_NoDup k l : NoDup (select k (counter l)).
Proof. rewrite select_filter. apply NoDup_filter. apply uniq_NoDup. Qed.

(* one duplicate-free list: Counter gives it back *)
Lemma select1_nodup l : NoDup l -> select 1 (counter l) = l.
Proof.
  intros H. rewrite select_filter, (uniq_nodup l H). apply filter_all.
  intros x Hx. apply Nat.eqb_eq. apply NoDup_count_occ'; assumption.
Qed.

Lemma count_concat_le ls i : (forall l, In l ls -> NoDup l) ->
  (count_occ idx_dec (concat ls) i <= length ls)%nat.
Proof.
  induction ls as [|l ls IH]; cbn [concat length]; intros H; [cbn; lia|].
  rewrite count_occ_app.
  assert (H1 : (count_occ idx_dec l i <= 1)%nat).
  { apply NoDup_count_occ. apply H. left. reflexivity. }
  assert (H2 : (count_occ idx_dec (concat ls) i <= length ls)%nat).
  { apply IH. intros l' Hl'. apply H. right. exact Hl'. }
  lia.
Qed.

Lemma count_concat_all ls i : (forall l, In l ls -> NoDup l) ->
  (count_occ idx_dec (concat ls) i = length ls <-> forall l, In l ls -> In i l).
Proof.
  induction ls as [|l ls IH]; cbn [concat length]; intros H.
  - cbn. split; [intros _ l []|reflexivity].
  - rewrite count_occ_app.
    assert (H1 : (count_occ idx_dec l i <= 1)%nat).
    { apply NoDup_count_occ. apply H. left. reflexivity. }
    assert (Hls : forall l', In l' ls -> NoDup l') by (intros l' Hl'; apply H; right; exact Hl').
    pose proof (count_concat_le ls i Hls) as H2.
    specialize (IH Hls). split.
    + intros Hs l' [<-|Hl'].
      * apply (count_occ_In idx_dec). lia.
      * apply IH; [lia|exact Hl'].
    + intros Hall.
      assert (Hi : In i l) by (apply Hall; left; reflexivity).
      apply (count_occ_In idx_dec) in Hi.
      assert (count_occ idx_dec (concat ls) i = length ls).
      { apply IH. intros l' Hl'. apply Hall. right. exact Hl'. }
      lia.
Qed.

Lemma Forall2_all {A B} (R : A -> B -> Prop) (P : A -> Prop) (Q : B -> Prop) l1 l2 :
  Forall2 R l1 l2 -> (forall a b, R a b -> (P a <-> Q b)) ->
  ((forall a, In a l1 -> P a) <-> (forall b, In b l2 -> Q b)).
Proof.
  intros HF HR. induction HF as [|a b l1 l2 Hab _ IH].
  - split; intros _ ? [].
  - split; intros H x [Hx|Hx].
    + subst x. apply (HR a b Hab). apply H. left. reflexivity.
    + apply IH; [|exact Hx]. intros a' Ha'. apply H. right. exact Ha'.
    + subst x. apply (HR a b Hab). apply H. left. reflexivity.
    + apply IH; [|exact Hx]. intros b' Hb'. apply H. right. exact Hb'.
Qed.

(* ------------------------------------------------ scanning one range *)
Lemma find_cells_spec c cells l : NoDup (map fst cells) -> find_cells c cells = Ok l ->
  NoDup l /\ (forall i, In i l <-> exists x, In (i, x) cells /\ Sat c x)
  /\ (forall i x, In (i, x) cells -> exists b, sat c x = Ok b).
Proof.
  intros Hnd. unfold find_cells.
  destruct (filterM (fun p => sat c (snd p)) cells) as [r|e] eqn:E; cbn [bind]; [|discriminate].
  intros H. injection H as <-. apply filterM_filter in E. destruct E as [-> Hall]. split; [|split].
  - apply nodup_map_filter. exact Hnd.
  - intros i. rewrite in_map_iff. split.
    + intros ((i', x) & Hi & Hin). cbn in Hi. subst i'. apply filter_In in Hin.
      destruct Hin as [Hin Hs]. apply okb_true in Hs. cbn in Hs. exists x. split; [exact Hin|].
      apply (sat_spec c x true Hs). reflexivity.
    + intros (x & Hin & Hs). exists (i, x). split; [reflexivity|]. apply filter_In. split; [exact Hin|].
      apply okb_true. cbn. destruct (Hall (i, x) Hin) as (b & Hb). cbn in Hb. rewrite Hb. f_equal.
      apply (sat_spec c x b Hb). exact Hs.
  - intros i x Hin. apply (Hall (i, x) Hin).
Qed.

Lemma scan_spec rows crit l : scan rows crit = Ok l ->
  exists c, parse_criteria crit = Ok c /\ NoDup l
            /\ forall i, In i l <-> exists x, In (i, x) (enum_rows 0 rows) /\ Sat c x.
Proof.
  unfold scan. destruct (parse_criteria crit) as [c|e]; cbn [bind]; [|discriminate].
  intros H. apply find_cells_spec in H; [|apply enum_rows_NoDup].
  exists c. destruct H as (H1 & H2 & _). auto.
Qed.

(* ---------------------- C15_select: the index set computed by handle_ifs *)
(* cell i of the range [rows] satisfies the criterion value [crit] *)
Definition cell_sat (i : idx) (rows : list (list pyval)) (crit : pyval) : Prop :=
  exists c x, parse_criteria crit = Ok c /\ In (i, x) (enum_rows 0 rows) /\ Sat c x.

Theorem select_sound prs coords : prs <> [] -> select_stage prs = Ok coords ->
  NoDup coords
  /\ forall i, In i coords <-> (forall rows crit, In (rows, crit) prs -> cell_sat i rows crit).
Proof.
  intros Hne. unfold select_stage.
  destruct (mapM (fun p => scan (fst p) (snd p)) prs) as [ls|e] eqn:E; cbn [bind]; [|discriminate].
  intros H. injection H as <-. split; [apply select_NoDup|]. intros i.
  apply mapM_Forall2 in E.
  assert (Hlen : length prs = length ls) by (eapply forall2_length; exact E).
  assert (Hnd : forall l, In l ls -> NoDup l).
  { intros l Hl. destruct (forall2_in_r _ _ _ l E Hl) as (p & _ & Hp).
    apply scan_spec in Hp. destruct Hp as (c & _ & Hn & _). exact Hn. }
  rewrite select_In, Hlen.
  assert (Hall : (forall l, In l ls -> In i l)
                 <-> (forall p, In p prs -> cell_sat i (fst p) (snd p))).
  { symmetry. apply (Forall2_all _ _ _ _ _ E). intros p l Hp. apply scan_spec in Hp.
    destruct Hp as (c & Hc & _ & Hin). rewrite Hin. unfold cell_sat. split.
    - intros (c' & x & Hc' & Hx & Hs). rewrite Hc in Hc'. injection Hc' as <-. eauto.
    - intros (x & Hx & Hs). eauto. }
  split.
  - intros [_ Hc]. pose proof (proj1 (count_concat_all ls i Hnd) Hc) as Hc'.
    intros rows crit Hin. apply (proj1 Hall Hc' (rows, crit) Hin).
  - intros H.
    assert (Hl : forall l, In l ls -> In i l).
    { apply Hall. intros [rows crit] Hp. apply H. exact Hp. }
    split; [|apply (count_concat_all ls i Hnd); exact Hl].
    destruct ls as [|l ls']; [destruct prs; [congruence|discriminate]|].
    cbn [concat]. apply in_app_iff. left. apply Hl. left. reflexivity.
Qed.

(* criteria pairs commute: any permutation selects the same set *)
Lemma mapM_perm {A B} (f : A -> res B) l l' ys :
  Permutation l l' -> mapM f l = Ok ys -> exists ys', mapM f l' = Ok ys'.
Proof.
  intros HP H. apply mapM_Forall2 in H.
  assert (HF : Forall (fun x => exists y, f x = Ok y) l).
  { clear HP. induction H; constructor; eauto. }
  apply (Permutation_Forall HP) in HF. clear H HP.
  induction HF as [|a l2 (y & Hy) _ (ys' & IH)]; [exists []; reflexivity|].
  exists (y :: ys'). cbn [mapM]. rewrite Hy. cbn [bind]. rewrite IH. reflexivity.
Qed.

Theorem commute prs prs' a : prs <> [] -> Permutation prs prs' -> select_stage prs = Ok a ->
  exists b, select_stage prs' = Ok b /\ NoDup b /\ forall i, In i a <-> In i b.
Proof.
  intros Hne HP Ha.
  assert (Hne' : prs' <> []).
  { intros ->. apply Permutation_sym, Permutation_nil in HP. contradiction. }
  assert (Hb : exists b, select_stage prs' = Ok b).
  { unfold select_stage in *.
    destruct (mapM (fun p => scan (fst p) (snd p)) prs) as [ls|e] eqn:E; cbn [bind] in Ha; [|discriminate].
    destruct (mapM_perm _ _ _ _ HP E) as (ls' & ->). cbn [bind]. eauto. }
  destruct Hb as (b & Hb). exists b. split; [exact Hb|].
  destruct (select_sound prs a Hne Ha) as [_ Ha'].
  destruct (select_sound prs' b Hne' Hb) as [Hnd Hb']. split; [exact Hnd|].
  intros i. rewrite Ha', Hb'. split; intros H rows crit Hin; apply H.
  - eapply Permutation_in; [apply Permutation_sym; exact HP|exact Hin].
  - eapply Permutation_in; [exact HP|exact Hin].
Qed.

(* ------------------------------------------- "=x" and "<>x" partition *)
(* text operand: the two closures are complements on every cell *)
Lemma partition_text w x b :
  sat (COpText OEq w) x = Ok b -> sat (COpText ONe w) x = Ok (negb b).
Proof.
  destruct x; cbn [sat]; try (intros H; injection H as <-; reflexivity).
  - intros H. injection H as <-. destruct w; reflexivity.
  - destruct (lower_str s) as [u|e]; cbn [bind cmp_cop]; [|discriminate].
    intros H. injection H as <-. reflexivity.
Qed.

(* cells on which a numeric operand partitions: everything except text that
   is_number accepts (a numeric text satisfies both, see Refuted/C15_partition.v) *)
Definition part_ok (x : pyval) : Prop :=
  match x with
  | VNone | VBool _ | VInt _ | VFloat _ => True
  | VStr s => is_num (VStr s) = Ok false
  | _ => False
  end.

Ltac num_run :=
  unfold is_num, to_num, excelutil.f_is_number, excelutil.f_is_array_arg, excelutil.f_is_address, py_fuel;
  repeat (progress (py_step; cbn [excelutil.f_coerce_to_number py_float])).

Lemma is_num_none : is_num VNone = Ok false.
Proof. num_run. reflexivity. Qed.
Lemma is_num_int z : is_num (VInt z) = Ok true.
Proof. num_run. reflexivity. Qed.
Lemma is_num_bool c : is_num (VBool c) = Ok true.
Proof. num_run. reflexivity. Qed.
Lemma to_num_int z : to_num (VInt z) = Ok (VInt z).
Proof. num_run. reflexivity. Qed.
Lemma to_num_bool c : to_num (VBool c) = Ok (VBool c).
Proof. num_run. reflexivity. Qed.

Lemma is_num_float q : is_num (VFloat q) = Ok true.
Proof. num_run. reflexivity. Qed.
Lemma to_num_float q :
  to_num (VFloat q) = Ok (if q_eqb (inject_Z (q_trunc q)) q then VInt (q_trunc q) else VFloat q).
Proof.
  num_run. destruct (q_eqb (inject_Z (q_trunc q)) q); num_run; reflexivity.
Qed.

Lemma qeqb_int t q m : q_eqb (inject_Z t) q = true -> (t =? m) = q_eqb q (inject_Z m).
Proof.
  unfold q_eqb. intros H. apply Qeq_bool_iff in H. apply eq_true_iff_eq.
  rewrite Z.eqb_eq, Qeq_bool_iff, <- H. split.
  - intros ->. reflexivity.
  - intros E. unfold Qeq, inject_Z in E. cbn in E. lia.
Qed.
Lemma qeqb_float t q r : q_eqb (inject_Z t) q = true -> q_eqb (inject_Z t) r = q_eqb q r.
Proof.
  unfold q_eqb. intros H. apply Qeq_bool_iff in H. apply eq_true_iff_eq.
  rewrite !Qeq_bool_iff, H. reflexivity.
Qed.
(* an integral float compares like its integer *)
Lemma py_eq_integral t q n : q_eqb (inject_Z t) q = true -> py_eq (VInt t) n = py_eq (VFloat q) n.
Proof.
  intros H. destruct n; cbn [py_eq as_num num_q]; try reflexivity.
  - apply qeqb_int. exact H.
  - apply qeqb_int. exact H.
  - apply qeqb_float. exact H.
Qed.

Lemma partition_num n x b : part_ok x ->
  sat (CNumEq n) x = Ok b -> sat (COpNum ONe n) x = Ok (negb b).
Proof.
  destruct x; cbn [part_ok]; try contradiction; intros Hp; cbn [sat].
  - rewrite is_num_none. cbn [bind]. intros H. injection H as <-. reflexivity.
  - rewrite is_num_bool. cbn [bind]. rewrite to_num_bool. cbn [bind cmp_cop].
    intros H. injection H as <-. reflexivity.
  - rewrite is_num_int. cbn [bind]. rewrite to_num_int. cbn [bind cmp_cop].
    intros H. injection H as <-. reflexivity.
  - rewrite is_num_float. cbn [bind]. rewrite to_num_float. cbn [bind cmp_cop].
    intros H. injection H as <-. destruct (q_eqb (inject_Z (q_trunc q)) q) eqn:E; [|reflexivity].
    rewrite (py_eq_integral _ q n E). reflexivity.
  - rewrite Hp. cbn [bind]. intros H. injection H as <-. reflexivity.
Qed.

(* how "=v" and "<>v" parse *)
Lemma lookup_eq : lookup_op [61] = Ok OEq.
Proof. reflexivity. Qed.
Lemma lookup_ne : lookup_op [60; 62] = Ok ONe.
Proof. reflexivity. Qed.

Lemma split_eq v : split_op (61 :: v) = ([61], v).
Proof. reflexivity. Qed.
Lemma split_ne v : split_op (60 :: 62 :: v) = ([60; 62], v).
Proof. reflexivity. Qed.
Lemma newline_eq v : has_newline (61 :: v) = has_newline v.
Proof. reflexivity. Qed.
Lemma newline_ne v : has_newline (60 :: 62 :: v) = has_newline v.
Proof. reflexivity. Qed.

Lemma parse_eq_text v w : is_num (VStr (61 :: v)) = Ok false -> has_newline v = false ->
  is_num (VStr v) = Ok false -> has_wild v = false -> lower_str v = Ok w ->
  parse_criteria (VStr (61 :: v)) = Ok (COpText OEq w).
Proof.
  intros H0 Hn Hv Hw Hl. unfold parse_criteria. rewrite H0. cbn [bind].
  rewrite newline_eq, Hn, split_eq. cbn [fst snd]. rewrite lookup_eq. cbn [bind].
  rewrite Hv. cbn [bind is_eq andb]. rewrite Hw, Hl. reflexivity.
Qed.
Lemma parse_ne_text v w : is_num (VStr (60 :: 62 :: v)) = Ok false -> has_newline v = false ->
  is_num (VStr v) = Ok false -> lower_str v = Ok w ->
  parse_criteria (VStr (60 :: 62 :: v)) = Ok (COpText ONe w).
Proof.
  intros H0 Hn Hv Hl. unfold parse_criteria. rewrite H0. cbn [bind].
  rewrite newline_ne, Hn, split_ne. cbn [fst snd]. rewrite lookup_ne. cbn [bind].
  rewrite Hv. cbn [bind is_eq andb]. rewrite Hl. reflexivity.
Qed.
Lemma parse_eq_num v n : is_num (VStr (61 :: v)) = Ok false -> has_newline v = false ->
  is_num (VStr v) = Ok true -> to_num (VStr v) = Ok n ->
  parse_criteria (VStr (61 :: v)) = Ok (CNumEq n).
Proof.
  intros H0 Hn Hv Ht. unfold parse_criteria. rewrite H0. cbn [bind].
  rewrite newline_eq, Hn, split_eq. cbn [fst snd]. rewrite lookup_eq. cbn [bind].
  rewrite Hv. cbn [bind is_eq andb]. rewrite Ht. reflexivity.
Qed.
Lemma parse_ne_num v n : is_num (VStr (60 :: 62 :: v)) = Ok false -> has_newline v = false ->
  is_num (VStr v) = Ok true -> to_num (VStr v) = Ok n ->
  parse_criteria (VStr (60 :: 62 :: v)) = Ok (COpNum ONe n).
Proof.
  intros H0 Hn Hv Ht. unfold parse_criteria. rewrite H0. cbn [bind].
  rewrite newline_ne, Hn, split_ne. cbn [fst snd]. rewrite lookup_ne. cbn [bind].
  rewrite Hv. cbn [bind is_eq andb]. rewrite Ht. reflexivity.
Qed.

(* the operand v is "plain": the criteria "=v" and "<>v" are not numbers
   themselves and v has no line feed *)
Definition plain_operand (v : str) : Prop :=
  is_num (VStr (61 :: v)) = Ok false /\ is_num (VStr (60 :: 62 :: v)) = Ok false
  /\ has_newline v = false.

(* C15_partition_partial, on one cell *)
Theorem partition_cell v x b : plain_operand v ->
  (is_num (VStr v) = Ok false /\ has_wild v = false /\ (exists w, lower_str v = Ok w))
  \/ (is_num (VStr v) = Ok true /\ (exists n, to_num (VStr v) = Ok n) /\ part_ok x) ->
  criteria_check (VStr (61 :: v)) x = Ok (VBool b) ->
  criteria_check (VStr (60 :: 62 :: v)) x = Ok (VBool (negb b)).
Proof.
  intros (H1 & H2 & H3) [(Hv & Hw & w & Hl)|(Hv & (n & Ht) & Hp)]; unfold criteria_check.
  - rewrite (parse_eq_text v w H1 H3 Hv Hw Hl), (parse_ne_text v w H2 H3 Hv Hl). cbn [bind].
    destruct (sat (COpText OEq w) x) as [b'|e] eqn:E; cbn [bind]; [|discriminate].
    intros H. injection H as <-. rewrite (partition_text w x b' E). reflexivity.
  - rewrite (parse_eq_num v n H1 H3 Hv Ht), (parse_ne_num v n H2 H3 Hv Ht). cbn [bind].
    destruct (sat (CNumEq n) x) as [b'|e] eqn:E; cbn [bind]; [|discriminate].
    intros H. injection H as <-. rewrite (partition_num n x b' Hp E). reflexivity.
Qed.

(* ... and on a whole range: the positions selected by "=v" and by "<>v" are
   complementary *)
Lemma find_cells_In c cells l i x : NoDup (map fst cells) -> find_cells c cells = Ok l ->
  In (i, x) cells -> (In i l <-> sat c x = Ok true).
Proof.
  intros Hnd H Hin. destruct (find_cells_spec c cells l Hnd H) as (_ & Hl & Htot).
  rewrite Hl. destruct (Htot i x Hin) as (b & Hb). split.
  - intros (y & Hy & Hs). rewrite (fst_unique cells i x y Hnd Hin Hy). 
    destruct (Htot i y Hy) as (b' & Hb'). rewrite Hb'. f_equal. apply (sat_spec c y b' Hb'). exact Hs.
  - intros Hs. exists x. split; [exact Hin|]. apply (sat_spec c x true Hs). reflexivity.
Qed.

Theorem partition_range v rows l1 l2 : plain_operand v ->
  (is_num (VStr v) = Ok false /\ has_wild v = false /\ (exists w, lower_str v = Ok w))
  \/ (is_num (VStr v) = Ok true /\ (exists n, to_num (VStr v) = Ok n)
      /\ forall i x, In (i, x) (enum_rows 0 rows) -> part_ok x) ->
  scan rows (VStr (61 :: v)) = Ok l1 -> scan rows (VStr (60 :: 62 :: v)) = Ok l2 ->
  forall i x, In (i, x) (enum_rows 0 rows) -> (In i l1 <-> ~ In i l2).
Proof.
  intros Hpl Hcase. unfold scan.
  destruct (parse_criteria (VStr (61 :: v))) as [c1|e] eqn:P1; cbn [bind]; [|discriminate].
  destruct (parse_criteria (VStr (60 :: 62 :: v))) as [c2|e] eqn:P2; cbn [bind]; [|discriminate].
  intros F1 F2 i x Hin.
  rewrite (find_cells_In c1 _ l1 i x (enum_rows_NoDup 0 rows) F1 Hin).
  rewrite (find_cells_In c2 _ l2 i x (enum_rows_NoDup 0 rows) F2 Hin).
  destruct (find_cells_spec c1 _ l1 (enum_rows_NoDup 0 rows) F1) as (_ & _ & T1).
  destruct (T1 i x Hin) as (b & Hb).
  assert (Hcell : (is_num (VStr v) = Ok false /\ has_wild v = false /\ (exists w, lower_str v = Ok w))
                  \/ (is_num (VStr v) = Ok true /\ (exists n, to_num (VStr v) = Ok n) /\ part_ok x)).
  { destruct Hcase as [H|(Ha & Hb' & Hc)]; [left; exact H|right; eauto]. }
  pose proof (partition_cell v x b Hpl Hcell) as HP. unfold criteria_check in HP.
  rewrite P1, P2 in HP. cbn [bind] in HP. rewrite Hb in HP. cbn [bind] in HP.
  specialize (HP eq_refl).
  destruct (sat c2 x) as [b2|e]; cbn [bind] in HP; [|discriminate].
  injection HP as ->. rewrite Hb. destruct b; cbn; split; congruence.
Qed.

(* -------------------------------------------- handle_ifs and select_stage *)
Lemma handle_ifs_select args op coords : handle_ifs args op = Ok (inr coords) ->
  exists prs, shape_stage args op = Ok (inr prs) /\ select_stage prs = Ok coords.
Proof.
  unfold handle_ifs. destruct (shape_stage args op) as [[e|prs]|e]; cbn [bind]; try discriminate.
  destruct (select_stage prs) as [l|e] eqn:E; cbn [bind]; [|discriminate].
  intros H. injection H as <-. eauto.
Qed.

Lemma map_fst_combine {A B} (a : list A) (b : list B) :
  length a = length b -> map fst (combine a b) = a.
Proof.
  revert b. induction a as [|x a IH]; destruct b as [|y b]; cbn; intros H; try discriminate; [reflexivity|].
  f_equal. apply IH. congruence.
Qed.
Lemma map_snd_combine {A B} (a : list A) (b : list B) :
  length a = length b -> map snd (combine a b) = b.
Proof.
  revert b. induction a as [|x a IH]; destruct b as [|y b]; cbn; intros H; try discriminate; [reflexivity|].
  f_equal. apply IH. congruence.
Qed.

(* what shape_stage hands on: one (rows, criterion) pair per argument pair,
   in order; the rows are those of the (wrapped) range argument *)
Definition range_rows (p : pyval * pyval) (rows : list (list pyval)) : Prop :=
  exists r, wrap (fst p) = Ok r /\ as_rows r = Ok rows.

Lemma shape_stage_pairs args op prs : shape_stage args op = Ok (inr prs) ->
  prs <> [] /\ exists raw, pair_up args = Some raw /\ map snd prs = map snd raw
    /\ Forall2 range_rows raw (map fst prs).
Proof.
  unfold shape_stage. destruct (pair_up args) as [[|p raw]|] eqn:EP; try discriminate.
  destruct (mapM (fun p0 => wrap (fst p0)) (p :: raw)) as [rngs|e] eqn:E1; cbn [bind]; [|discriminate].
  destruct (mapM as_rows rngs) as [rows|e] eqn:E2; cbn [bind]; [|discriminate].
  destruct (mapM size_of rows) as [sizes|e] eqn:E3; cbn [bind]; [|discriminate].
  destruct sizes as [|s0 rest]; [discriminate|].
  destruct (negb (forallb (size_eqb s0) rest)); [discriminate|].
  destruct (match op with None => Ok true | Some opr => _ end) as [ok|e]; cbn [bind]; [|discriminate].
  destruct (negb ok); [discriminate|]. intros H. injection H as <-.
  pose proof (mapM_length _ _ _ E1) as L1. pose proof (mapM_length _ _ _ E2) as L2.
  assert (Hlen : length rows = length (map snd (p :: raw))).
  { rewrite map_length. congruence. }
  change (snd p :: map snd raw) with (map snd (p :: raw)).
  rewrite (map_fst_combine _ _ Hlen), (map_snd_combine _ _ Hlen). split.
  - destruct rows; [cbn in Hlen; discriminate|]. cbn. discriminate.
  - exists (p :: raw). split; [reflexivity|]. split; [reflexivity|].
    apply mapM_Forall2 in E1. apply mapM_Forall2 in E2. clear - E1 E2.
    revert rows E2. induction E1 as [|q r raw' rngs' Hq _ IH]; intros rows E2.
    + inversion E2. constructor.
    + inversion E2 as [|? rw ? rows' Hr Hrest]; subst. constructor; [|apply IH; exact Hrest].
      exists r. auto.
Qed.

(* C15_select on handle_ifs itself *)
Theorem handle_ifs_sound args op coords : handle_ifs args op = Ok (inr coords) ->
  exists prs, shape_stage args op = Ok (inr prs) /\ prs <> []
    /\ NoDup coords
    /\ forall i, In i coords <-> (forall rows crit, In (rows, crit) prs -> cell_sat i rows crit).
Proof.
  intros H. destruct (handle_ifs_select args op coords H) as (prs & Hs & Hsel).
  destruct (shape_stage_pairs args op prs Hs) as (Hne & _).
  destruct (select_sound prs coords Hne Hsel) as (Hnd & Hin). exists prs. auto.
Qed.

(* the aggregated range only adds a shape check *)
Lemma handle_ifs_none args o coords :
  handle_ifs args (Some o) = Ok (inr coords) -> handle_ifs args None = Ok (inr coords).
Proof.
  unfold handle_ifs, shape_stage. destruct (pair_up args) as [[|p raw]|]; try discriminate.
  destruct (mapM (fun p0 => wrap (fst p0)) (p :: raw)) as [rngs|e]; cbn [bind]; [|discriminate].
  destruct (mapM as_rows rngs) as [rows|e]; cbn [bind]; [|discriminate].
  destruct (mapM size_of rows) as [sizes|e]; cbn [bind]; [|discriminate].
  destruct sizes as [|s0 rest]; [discriminate|].
  destruct (negb (forallb (size_eqb s0) rest)); [discriminate|].
  destruct (wrap o) as [o1|e]; cbn [bind]; [|discriminate].
  destruct (as_rows o1) as [orows|e]; cbn [bind]; [|discriminate].
  destruct (size_of orows) as [so|e]; cbn [bind]; [|discriminate].
  destruct (negb (size_eqb so s0)); cbn [bind negb]; [discriminate|]. auto.
Qed.

(* ------------------------------------------------- one criterion: IFS = IF *)
Lemma wrap_list_like rng r : wrap rng = Ok r -> list_like r = Ok true.
Proof.
  unfold wrap, list_like, excelutil.f_list_like.
  destruct rng; py_run; intros H; injection H as <-; py_run; reflexivity.
Qed.

Lemma find_cells_NoDup c rows l : find_cells c (enum_rows 0 rows) = Ok l -> NoDup l.
Proof. intros H. apply find_cells_spec in H; [tauto|apply enum_rows_NoDup]. Qed.

Theorem countifs_countif rng crit r rows : wrap rng = Ok r -> as_rows r = Ok rows -> rows <> [] ->
  countifs [rng; crit] = countif rng crit.
Proof.
  intros Hw Hr Hne. unfold countifs, countif, handle_ifs, shape_stage, find_corresponding_index.
  cbn [pair_up mapM fst snd]. rewrite Hw. cbn [bind mapM]. rewrite Hr. cbn [bind mapM].
  rewrite (wrap_list_like rng r Hw).
  destruct rows as [|r0 rows']; [congruence|]. cbn [size_of bind mapM forallb negb combine map snd].
  unfold select_stage. cbn [mapM fst snd bind length]. unfold scan.
  destruct (parse_criteria crit) as [c|e]; cbn [bind negb]; [|reflexivity].
  destruct (find_cells c (enum_rows 0 (r0 :: rows'))) as [l|e] eqn:E; cbn [bind concat]; [|reflexivity].
  rewrite app_nil_r, (select1_nodup l (find_cells_NoDup c _ l E)). reflexivity.
Qed.

Lemma sumif_sumifs rng crit sr : sr <> VNone -> sumif rng crit sr = sumifs sr [rng; crit].
Proof. intros H. unfold sumif. destruct sr; congruence. Qed.
Lemma sumif_default rng crit : sumif rng crit VNone = sumifs rng [rng; crit].
Proof. reflexivity. Qed.
Lemma averageif_averageifs rng crit ar : ar <> VNone ->
  averageif rng crit ar = averageifs ar [rng; crit].
Proof. intros H. unfold averageif. destruct ar; congruence. Qed.
Lemma averageif_default rng crit : averageif rng crit VNone = averageifs rng [rng; crit].
Proof. reflexivity. Qed.

(* ------------------------------------------ the consumers aggregate coords *)
Lemma countifs_spec args coords : handle_ifs args None = Ok (inr coords) ->
  countifs args = Ok (VInt (zlen coords)).
Proof. intros H. unfold countifs. rewrite H. reflexivity. Qed.

Lemma selected_data_spec ar args sr coords cells :
  wrap ar = Ok sr -> handle_ifs args (Some sr) = Ok (inr coords) ->
  mapM (getcell sr) coords = Ok cells ->
  selected_data ar args = (d <- numerics_keep cells ;; Ok (inr d)).
Proof. intros Hw Hh Hc. unfold selected_data. rewrite Hw. cbn [bind]. rewrite Hh. cbn [bind]. rewrite Hc. reflexivity. Qed.

(* numeric cells: int or float (no logical, no text, no error value) *)
Definition numcell (v : pyval) : Prop := match v with VInt _ | VFloat _ => True | _ => False end.

Lemma numerics_numeric cells : Forall numcell cells -> numerics_keep cells = Ok (VTuple cells).
Proof.
  intros H. unfold numerics_keep.
  assert (H1 : forallb is_scalar cells = true).
  { induction H as [|v l Hv _ IH]; [reflexivity|]. cbn. rewrite IH. destruct v; try contradiction; reflexivity. }
  assert (H2 : first_error cells = Ok None).
  { clear H1. induction H as [|v l Hv _ IH]; [reflexivity|]. cbn [first_error].
    destruct v; try contradiction; cbn; exact IH. }
  assert (H3 : filter is_numeric cells = cells).
  { clear H1 H2. apply filter_all. intros v Hv. rewrite Forall_forall in H. specialize (H v Hv).
    destruct v; try contradiction; reflexivity. }
  rewrite H1, H2, H3. reflexivity.
Qed.

(* SUMIFS / MAXIFS / MINIFS / AVERAGEIFS over numeric selected cells: the
   aggregate of exactly the cells at the selected positions *)
Theorem sumifs_spec ar args sr coords cells :
  wrap ar = Ok sr -> handle_ifs args (Some sr) = Ok (inr coords) ->
  mapM (getcell sr) coords = Ok cells -> Forall numcell cells ->
  sumifs ar args = py_sum_list cells (VInt 0).
Proof.
  intros Hw Hh Hc Hn. unfold sumifs. rewrite (selected_data_spec ar args sr coords cells Hw Hh Hc).
  rewrite (numerics_numeric cells Hn). reflexivity.
Qed.
Theorem maxifs_spec ar args sr coords cells :
  wrap ar = Ok sr -> handle_ifs args (Some sr) = Ok (inr coords) ->
  mapM (getcell sr) coords = Ok cells -> Forall numcell cells ->
  maxifs ar args = try_except (py_max_list cells) [ValueError] (Ok (VInt 0))
  /\ minifs ar args = try_except (py_min_list cells) [ValueError] (Ok (VInt 0)).
Proof.
  intros Hw Hh Hc Hn. unfold maxifs, minifs. rewrite (selected_data_spec ar args sr coords cells Hw Hh Hc).
  rewrite (numerics_numeric cells Hn). split; reflexivity.
Qed.

(* over numeric data AVERAGEIFS = SUMIFS / COUNTIFS *)
Theorem average_is_sum_over_count ar args sr coords cells :
  wrap ar = Ok sr -> handle_ifs args (Some sr) = Ok (inr coords) ->
  mapM (getcell sr) coords = Ok cells -> Forall numcell cells -> cells <> [] ->
  averageifs ar args = (s <- sumifs ar args ;; c <- countifs args ;; py_truediv s c).
Proof.
  intros Hw Hh Hc Hn Hne.
  rewrite (sumifs_spec ar args sr coords cells Hw Hh Hc Hn).
  rewrite (countifs_spec args coords (handle_ifs_none args sr coords Hh)).
  unfold averageifs. rewrite (selected_data_spec ar args sr coords cells Hw Hh Hc).
  rewrite (numerics_numeric cells Hn). cbn [bind py_len py_sum py_iter].
  assert (Hz : zlen coords = zlen cells).
  { unfold zlen. rewrite (mapM_length _ _ _ Hc). reflexivity. }
  rewrite Hz. cbn [py_eq as_num].
  replace (zlen cells =? 0) with false.
  2:{ symmetry. apply Z.eqb_neq. unfold zlen. destruct cells; [congruence|]. cbn [length]. lia. }
  reflexivity.
Qed.

(* ---------------------------------------------------------- totality *)
(* a result that is a value or "outside the model" *)
Definition ok_or_unmodelled {A} (r : res A) : Prop := (exists a, r = Ok a) \/ r = Raise Unmodelled.
Definition soft {A} (r : res A) : Prop :=
  match r with Ok _ => True | Raise e => e = ValueError \/ e = Unmodelled end.

Ltac soft_split :=
  repeat (cbv zeta;
          match goal with
          | |- soft (match ?x with _ => _ end) => destruct x
          | |- soft (if ?x then _ else _) => destruct x
          end); cbn [soft]; auto.

Lemma parse_float_soft s : soft (parse_float s).
Proof. unfold parse_float. soft_split. Qed.

Lemma py_int_base_soft s : soft (py_int_base s 10).
Proof. unfold py_int_base. soft_split. Qed.

Lemma is_num_str_cases s :
  (exists q, parse_float s = Ok q /\ is_num (VStr s) = Ok true)
  \/ (parse_float s = Raise ValueError /\ is_num (VStr s) = Ok false)
  \/ (parse_float s = Raise Unmodelled /\ is_num (VStr s) = Raise Unmodelled).
Proof.
  pose proof (parse_float_soft s) as H. unfold is_num, excelutil.f_is_number.
  cbn [lift1 bind py_float]. destruct (parse_float s) as [q|e]; cbn [soft] in H.
  - left. exists q. split; [reflexivity|]. py_run. reflexivity.
  - destruct H as [-> | ->]; [right; left|right; right]; split; try reflexivity; py_run; reflexivity.
Qed.

Definition soft_int (r : res pyval) : Prop :=
  match r with
  | Ok (VInt _) => True
  | Ok _ => False
  | Raise e => e = ValueError \/ e = Unmodelled
  end.
Lemma py_int_base_soft_int s : soft_int (py_int_base s 10).
Proof.
  unfold py_int_base.
  repeat (cbv zeta;
          match goal with
          | |- soft_int (match ?x with _ => _ end) => destruct x
          | |- soft_int (if ?x then _ else _) => destruct x
          end); cbn [soft_int]; auto.
Qed.

Lemma to_num_str s :
  match to_num (VStr s) with
  | Ok v => (exists z, v = VInt z) \/ (exists q, v = VFloat q)
            \/ (v = VStr s /\ parse_float s = Raise ValueError)
  | Raise e => e = Unmodelled
  end.
Proof.
  unfold to_num, py_fuel. cbn [excelutil.f_coerce_to_number]. py_run.
  pose proof (py_int_base_soft_int s) as HI. pose proof (parse_float_soft s) as HF.
  assert (Hfloat :
    match (o_0 <- match r_ <- py_float (VStr s);; Ok (inl r_) with
                  | Ok x_ => Ok x_
                  | Raise e_ => if catches [ValueError; TypeError] e_ then Ok (inl (VStr s)) else Raise e_
                  end;;
           match o_0 with
           | inl r_ => Ok r_
           | inr (VList []) => Ok VNone
           | _ => Raise Unmodelled
           end) with
    | Ok v => (exists z, v = VInt z) \/ (exists q, v = VFloat q)
              \/ (v = VStr s /\ parse_float s = Raise ValueError)
    | Raise e => e = Unmodelled
    end).
  { cbn [py_float bind]. destruct (parse_float s) as [q|e]; cbn [soft bind] in *.
    - right. left. eauto.
    - destruct HF as [-> | ->]; cbn; auto. }
  destruct (negb (str_contains [46] s)); cbn [bind].
  - destruct (py_int_base s 10) as [v|e]; cbn [soft_int bind] in *.
    + destruct v; try contradiction. left. eauto.
    + destruct HI as [-> | ->]; cbn [catches existsb exn_eqb orb bind]; [exact Hfloat|reflexivity].
  - exact Hfloat.
Qed.

Definition numval (v : pyval) : Prop :=
  match v with VBool _ | VInt _ | VFloat _ => True | _ => False end.
Definition crit_ok (c : criterion) : Prop :=
  match c with CNumEq n | COpNum _ n => numval n | _ => True end.
(* a criterion argument: a number, a logical or a text *)
Definition crit_scalar (v : pyval) : Prop :=
  match v with VBool _ | VInt _ | VFloat _ | VStr _ => True | _ => False end.

Lemma is_num_total x : is_scalar x = true -> ok_or_unmodelled (is_num x).
Proof.
  destruct x; try discriminate; intros _.
  - left. rewrite is_num_none. eauto.
  - left. rewrite is_num_bool. eauto.
  - left. rewrite is_num_int. eauto.
  - left. rewrite is_num_float. eauto.
  - destruct (is_num_str_cases s) as [(q & _ & ->)|[(_ & ->)|(_ & ->)]]; [left|left|right]; eauto.
Qed.

Lemma to_num_total x : is_scalar x = true -> is_num x = Ok true ->
  (exists v, to_num x = Ok v /\ numval v) \/ to_num x = Raise Unmodelled.
Proof.
  destruct x; try discriminate; intros _ Hn.
  - left. rewrite to_num_bool. eexists. split; [reflexivity|exact I].
  - left. rewrite to_num_int. eexists. split; [reflexivity|exact I].
  - left. rewrite to_num_float. eexists. split; [reflexivity|].
    destruct (q_eqb (inject_Z (q_trunc q)) q); exact I.
  - pose proof (to_num_str s) as H. destruct (to_num (VStr s)) as [v|e]; [|right; congruence].
    left. exists v. split; [reflexivity|].
    destruct H as [(z & ->)|[(q & ->)|(-> & Hp)]]; try exact I.
    destruct (is_num_str_cases s) as [(q & Hq & _)|[(_ & H')|(_ & H')]]; congruence.
Qed.

Lemma lower_total s : ok_or_unmodelled (lower_str s).
Proof.
  unfold lower_str, str_lower. destruct (non_ascii s); [destruct (case_ok s)|]; cbn [bind];
    [left|right|left]; eauto.
Qed.

Lemma cmp_cop_num o x n : numval x -> numval n -> exists b, cmp_cop o x n = Ok b.
Proof.
  destruct x; try contradiction; destruct n; try contradiction; intros _ _; destruct o;
    cbn [cmp_cop py_lt py_le py_gt py_ge scalar_lt as_num]; eauto.
Qed.
Lemma cmp_cop_str o a b : exists r, cmp_cop o (VStr a) (VStr b) = Ok r.
Proof. destruct o; cbn [cmp_cop py_lt py_le py_gt py_ge scalar_lt]; eauto. Qed.

(* the check of a parsed criterion never raises on a scalar cell *)
Lemma sat_total c x : crit_ok c -> is_scalar x = true -> ok_or_unmodelled (sat c x).
Proof.
  intros Hc Hx. destruct c as [n|p|o n|o v]; cbn [sat crit_ok] in *.
  - destruct (is_num_total x Hx) as [(b & Hb)|Hu]; [|right; rewrite Hu; reflexivity].
    rewrite Hb. cbn [bind]. destruct b; [|left; eauto].
    destruct (to_num_total x Hx Hb) as [(v & Hv & _)|Hu]; [left|right]; rewrite ?Hv, ?Hu; cbn [bind]; eauto.
  - destruct x; try (left; eauto; fail).
    destruct (lower_total s) as [(w & ->)| ->]; cbn [bind]; [|right; reflexivity].
    destruct (has_newline w); [right|left]; eauto.
  - destruct x; try discriminate; try (left; eauto; fail);
      (left; apply cmp_cop_num; [exact I|exact Hc]).
  - destruct x; try (left; eauto; fail).
    destruct (lower_total s) as [(w & ->)| ->]; cbn [bind]; [|right; reflexivity].
    left. apply cmp_cop_str.
Qed.

Lemma lookup_total s : exists o, lookup_op (fst (split_op s)) = Ok o.
Proof.
  unfold split_op.
  repeat match goal with
         | |- context [match ?x with _ => _ end] => destruct x
         end; cbn [fst]; eexists; reflexivity.
Qed.

(* every number / logical / text criterion parses (or is outside the model) *)
Lemma parse_total crit : crit_scalar crit ->
  (exists c, parse_criteria crit = Ok c /\ crit_ok c) \/ parse_criteria crit = Raise Unmodelled.
Proof.
  intros Hs. assert (Hx : is_scalar crit = true) by (destruct crit; try contradiction; reflexivity).
  unfold parse_criteria.
  destruct (is_num_total crit Hx) as [(b & Hb)|Hu]; [|right; rewrite Hu; reflexivity].
  rewrite Hb. cbn [bind]. destruct b.
  - destruct (to_num_total crit Hx Hb) as [(v & Hv & Hn)|Hu]; [left|right]; rewrite ?Hv, ?Hu; cbn [bind]; eauto.
  - destruct crit; try contradiction.
    + rewrite is_num_bool in Hb. discriminate.
    + rewrite is_num_int in Hb. discriminate.
    + rewrite is_num_float in Hb. discriminate.
    + destruct (has_newline s); [right; reflexivity|].
      destruct (lookup_total s) as (o & ->). cbn [bind].
      set (v := snd (split_op s)).
      assert (Hv : is_scalar (VStr v) = true) by reflexivity.
      destruct (is_num_total (VStr v) Hv) as [(vn & Hvn)|Hu]; [|right; rewrite Hu; reflexivity].
      rewrite Hvn. cbn [bind].
      assert (Hnum : forall k, (forall n, crit_ok (k n) = numval n) ->
                (exists c, (n <- to_num (VStr v);; Ok (k n)) = Ok c /\ crit_ok c)
                \/ (n <- to_num (VStr v);; Ok (k n)) = Raise Unmodelled \/ vn = false).
      { intros k Hk. destruct vn; [|auto].
        destruct (to_num_total (VStr v) Hv Hvn) as [(n & Hn & Hnv)|Hu]; rewrite ?Hn, ?Hu; cbn [bind]; [left|auto].
        eexists. split; [reflexivity|]. rewrite Hk. exact Hnv. }
      assert (Htext : forall k, (forall w, crit_ok (k w)) ->
                (exists c, (w <- lower_str v;; Ok (k w)) = Ok c /\ crit_ok c)
                \/ (w <- lower_str v;; Ok (k w)) = Raise Unmodelled).
      { intros k Hk. destruct (lower_total v) as [(w & ->)| ->]; cbn [bind]; [left; eauto|right; reflexivity]. }
      destruct (is_eq o && vn) eqn:E1.
      * destruct (Hnum CNumEq (fun n => eq_refl)) as [H|[H|H]]; auto.
        subst vn. rewrite andb_false_r in E1. discriminate.
      * destruct (is_eq o && has_wild v).
        -- destruct (has_meta v); [right; reflexivity|]. apply (Htext CWild). intros w. exact I.
        -- destruct vn.
           ++ destruct (Hnum (COpNum o) (fun n => eq_refl)) as [H|[H|H]]; auto. discriminate.
           ++ apply (Htext (COpText o)). intros w. exact I.
Qed.

Lemma filterM_total {A} (f : A -> res bool) l :
  (forall x, In x l -> ok_or_unmodelled (f x)) -> ok_or_unmodelled (filterM f l).
Proof.
  induction l as [|a l IH]; cbn [filterM]; intros H; [left; eauto|].
  destruct (H a (or_introl eq_refl)) as [(b & ->)| ->]; cbn [bind]; [|right; reflexivity].
  destruct IH as [(r & ->)| ->]; [intros x Hx; apply H; right; exact Hx| |]; cbn [bind];
    [left; eauto|right; reflexivity].
Qed.
Lemma mapM_total {A B} (f : A -> res B) l :
  (forall x, In x l -> ok_or_unmodelled (f x)) -> ok_or_unmodelled (mapM f l).
Proof.
  induction l as [|a l IH]; cbn [mapM]; intros H; [left; eauto|].
  destruct (H a (or_introl eq_refl)) as [(b & ->)| ->]; cbn [bind]; [|right; reflexivity].
  destruct IH as [(r & ->)| ->]; [intros x Hx; apply H; right; exact Hx| |]; cbn [bind];
    [left; eauto|right; reflexivity].
Qed.

(* a range of scalar cells *)
Definition scalar_rows (rows : list (list pyval)) : Prop :=
  forall i x, In (i, x) (enum_rows 0 rows) -> is_scalar x = true.

Lemma scan_total rows crit : crit_scalar crit -> scalar_rows rows -> ok_or_unmodelled (scan rows crit).
Proof.
  intros Hc Hr. unfold scan.
  destruct (parse_total crit Hc) as [(c & -> & Hok)| ->]; cbn [bind]; [|right; reflexivity].
  unfold find_cells.
  destruct (filterM_total (fun p => sat c (snd p)) (enum_rows 0 rows)) as [(l & ->)| ->]; cbn [bind];
    [|left; eauto|right; reflexivity].
  intros [i x] Hin. cbn [snd]. apply sat_total; [exact Hok|]. apply (Hr i x Hin).
Qed.

Theorem select_total prs :
  (forall rows crit, In (rows, crit) prs -> crit_scalar crit /\ scalar_rows rows) ->
  ok_or_unmodelled (select_stage prs).
Proof.
  intros H. unfold select_stage.
  destruct (mapM_total (fun p => scan (fst p) (snd p)) prs) as [(ls & ->)| ->]; cbn [bind];
    [|left; eauto|right; reflexivity].
  intros [rows crit] Hin. cbn [fst snd]. destruct (H rows crit Hin). apply scan_total; assumption.
Qed.

(* C15 totality: once the shape checks have passed, handle_ifs over ranges of
   scalar cells and number/logical/text criteria returns positions (or is
   outside the model); it never raises *)
Theorem handle_ifs_total args op prs : shape_stage args op = Ok (inr prs) ->
  (forall rows crit, In (rows, crit) prs -> crit_scalar crit /\ scalar_rows rows) ->
  (exists coords, handle_ifs args op = Ok (inr coords)) \/ handle_ifs args op = Raise Unmodelled.
Proof.
  intros Hs H. unfold handle_ifs. rewrite Hs. cbn [bind].
  destruct (select_total prs H) as [(l & ->)| ->]; cbn [bind]; [left; eauto|right; reflexivity].
Qed.
(* ... and a failed shape check is returned as the error text *)
Lemma handle_ifs_shape_error args op e : shape_stage args op = Ok (inl e) ->
  handle_ifs args op = Ok (inl e).
Proof. intros Hs. unfold handle_ifs. rewrite Hs. reflexivity. Qed.

(* COUNTIF / COUNTIFS never fail on such inputs *)
Theorem countifs_total args prs : shape_stage args None = Ok (inr prs) ->
  (forall rows crit, In (rows, crit) prs -> crit_scalar crit /\ scalar_rows rows) ->
  (exists n, countifs args = Ok (VInt n)) \/ countifs args = Raise Unmodelled.
Proof.
  intros Hs H. unfold countifs.
  destruct (handle_ifs_total args None prs Hs H) as [(l & ->)| ->]; cbn [bind]; [left; eauto|right; reflexivity].
Qed.

(* the shape checks themselves raise only AssertionError (arguments not in
   pairs), IndexError (an empty range) or are outside the model *)
Definition shape_exn (e : exn) : Prop := e = AssertionError \/ e = IndexError \/ e = Unmodelled.
Definition raises_only {A} (P : exn -> Prop) (r : res A) : Prop :=
  match r with Ok _ => True | Raise e => P e end.

Lemma mapM_raises {A B} (P : exn -> Prop) (f : A -> res B) l :
  (forall x, raises_only P (f x)) -> raises_only P (mapM f l).
Proof.
  intros H. induction l as [|a l IH]; cbn [mapM]; [exact I|].
  pose proof (H a) as Ha. destruct (f a) as [y|e]; cbn [bind]; [|exact Ha].
  destruct (mapM f l) as [ys|e]; cbn [bind]; [exact I|exact IH].
Qed.

Lemma wrap_total r : exists r', wrap r = Ok r'.
Proof. unfold wrap, list_like, excelutil.f_list_like. destruct r; py_run; eauto. Qed.

Lemma as_rows_raises r : raises_only shape_exn (as_rows r).
Proof.
  unfold as_rows. destruct r; try (cbn; unfold shape_exn; auto; fail);
    (apply mapM_raises; intros row; destruct row; cbn; unfold shape_exn; auto).
Qed.

Lemma shape_stage_raises args op : raises_only shape_exn (shape_stage args op).
Proof.
  unfold shape_stage. destruct (pair_up args) as [[|p raw]|]; try (cbn; unfold shape_exn; auto; fail).
  assert (H1 : raises_only shape_exn (mapM (fun p0 : pyval * pyval => wrap (fst p0)) (p :: raw))).
  { apply mapM_raises. intros x. destruct (wrap_total (fst x)) as (r' & ->). exact I. }
  destruct (mapM (fun p0 => wrap (fst p0)) (p :: raw)) as [rngs|e]; cbn [bind]; [|exact H1].
  assert (H2 : raises_only shape_exn (mapM as_rows rngs)) by (apply mapM_raises; apply as_rows_raises).
  destruct (mapM as_rows rngs) as [rows|e]; cbn [bind]; [|exact H2].
  assert (H3 : raises_only shape_exn (mapM size_of rows)).
  { apply mapM_raises. intros x. destruct x; cbn; unfold shape_exn; auto. }
  destruct (mapM size_of rows) as [sizes|e]; cbn [bind]; [|exact H3].
  destruct sizes as [|s0 rest]; [cbn; unfold shape_exn; auto|].
  destruct (negb (forallb (size_eqb s0) rest)); [exact I|].
  destruct op as [opr|]; cbn [bind].
  - destruct (wrap_total opr) as (o1 & ->). cbn [bind].
    pose proof (as_rows_raises o1) as H4. destruct (as_rows o1) as [orows|e]; cbn [bind]; [|exact H4].
    destruct orows; cbn [size_of bind]; [cbn; unfold shape_exn; auto|].
    match goal with |- context [if ?b then _ else _] => destruct b end; exact I.
  - exact I.
Qed.

(* C15_total: over ranges of scalar cells and number/logical/text criteria
   handle_ifs returns (positions or the #VALUE! of a shape mismatch), raises
   AssertionError / IndexError for malformed arguments, or is outside the
   model — no cell and no criterion makes it fail *)
Theorem handle_ifs_never_fails args op :
  (forall prs, shape_stage args op = Ok (inr prs) ->
     forall rows crit, In (rows, crit) prs -> crit_scalar crit /\ scalar_rows rows) ->
  raises_only shape_exn (handle_ifs args op).
Proof.
  intros H. pose proof (shape_stage_raises args op) as Hs.
  destruct (shape_stage args op) as [[e|prs]|e] eqn:E.
  - rewrite (handle_ifs_shape_error args op e E). exact I.
  - destruct (handle_ifs_total args op prs E (H prs eq_refl)) as [(l & ->)| ->]; cbn; unfold shape_exn; auto.
  - unfold handle_ifs. rewrite E. exact Hs.
Qed.

(* ------------------------------------------------ non-vacuity (tests) *)
Definition ex_rng : pyval :=
  VTuple [VTuple [VStr [97; 112; 112; 108; 101]; VInt 1]; VTuple [VNone; VFloat (5 # 2)]].
(* COUNTIFS(rng, "<>1", rng, ">a") : only "apple" *)
Example ex_handle_ifs :
  handle_ifs [ex_rng; VStr [60; 62; 49]; ex_rng; VStr [62; 97]] None = Ok (inr [(0, 0)]).
Proof. vm_compute. reflexivity. Qed.
Example ex_sumifs : sumifs ex_rng [ex_rng; VStr [62; 48]] = Ok (VFloat (7 # 2)).
Proof. vm_compute. reflexivity. Qed.
Example ex_averageifs : averageifs ex_rng [ex_rng; VStr [62; 48]] = Ok (VFloat (7 # 4)).
Proof. vm_compute. reflexivity. Qed.
Example ex_plain_operand : plain_operand [97; 98].
Proof. repeat split; vm_compute; reflexivity. Qed.
Example ex_partition_hyp :
  is_num (VStr [97; 98]) = Ok false /\ has_wild [97; 98] = false /\ (exists w, lower_str [97; 98] = Ok w).
Proof. repeat split; try (vm_compute; reflexivity). exists [97; 98]. vm_compute. reflexivity. Qed.
Example ex_plain_operand_num : plain_operand [49; 48] /\ is_num (VStr [49; 48]) = Ok true
  /\ to_num (VStr [49; 48]) = Ok (VInt 10).
Proof. repeat split; vm_compute; reflexivity. Qed.
