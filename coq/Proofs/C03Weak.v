(* Proofs/C03Weak.v — C03 (Model/Persist.v) under a weak non-blank condition
   that a model with a whole-column reference meets.

   [code_nonblank csem rsem] (Proofs/C03.v) asks every range node for a
   non-blank value on EVERY argument list; the reference cell of an unbounded
   range (S!B:B: a node of range kind whose only member is the bounded range
   node and whose value is that node's value) does not meet it.
   [code_nonblank_weak G csem rsem] asks a range node for a non-blank value
   only on argument lists whose entries for RANGE members are non-blank
   ([members_ok]); it depends on the address geometry G only, so it speaks
   about the saved model and the loaded one at once.  It implies C01's
   [sem_nonblank_weak] for every well-formed workbook over G.

   Method: [rtot rsem] (the same function, 0 where [rsem] is blank) is strongly
   non-blank; the machines of the original model and of the loaded one, the
   loader itself (from_text builds the saved cells and evaluates the new range
   nodes) and C01's invariant cannot tell [rsem] from [rtot rsem]
   (Proofs/C01Weak.v Transfer); the theorems of Proofs/C03.v for
   (csem, rtot rsem) are carried back. *)
From Coq Require Import List Arith Bool Lia Permutation.
From PV Require Import Lib.Py Model.Graph Model.Persist.
From PV Require Import Proofs.C01Base Proofs.C01Inv Proofs.C01 Proofs.C01Weak
                       Proofs.C03Graph Proofs.C03.
Import ListNotations.

Lemma Forall2_impl_in {A B} (P Q : A -> B -> Prop) : forall l1 l2,
  (forall a b, In a l1 -> P a b -> Q a b) -> Forall2 P l1 l2 -> Forall2 Q l1 l2.
Proof.
  intros l1 l2 H F. induction F as [|a b l1 l2 Pab F IH]; constructor.
  - apply H; auto. left; auto.
  - apply IH. intros; apply H; auto. right; auto.
Qed.

Section C03Weak.
  Variable G : geometry.
  Variable cdeps : str -> list nat.
  Variable csem : str -> list pyval -> pyval.
  Variable rsem : nat -> list pyval -> pyval.

  Definition members_ok (n : nat) (vals : list pyval) : Prop :=
    Forall2 (fun d v => g_range G d = true -> v <> VNone) (g_members G n) vals.

  Definition code_nonblank_weak : Prop :=
    (forall t vals, csem t vals <> VNone)
    /\ (forall n vals, n < g_n G -> g_range G n = true -> members_ok n vals -> rsem n vals <> VNone).

  Lemma code_nonblank_weaken : code_nonblank csem rsem -> code_nonblank_weak.
  Proof. intros [A B]. split; auto. Qed.

  Definition rtot (n : nat) (vals : list pyval) : pyval :=
    match rsem n vals with VNone => VInt BinNums.Z0 | v => v end.

  Hypothesis CW : code_nonblank_weak.

  Lemma cnb_tot : code_nonblank csem rtot.
  Proof.
    destruct CW as [A _]. split; auto. intros n vals. unfold rtot.
    destruct (rsem n vals); discriminate.
  Qed.

  (* a workbook over the geometry G *)
  Section Over.
    Variable X : workbook.
    Variable code : nat -> str.
    Hypothesis WFX : wf X.
    Hypothesis XN : wb_n X = g_n G.
    Hypothesis XR : forall n, n < wb_n X -> wb_range X n = g_range G n.
    Hypothesis XM : forall n, n < wb_n X -> g_range G n = true -> wb_deps X n = g_members G n.

    Notation semX := (sem_of csem rsem (wb_range X) code).
    Notation semT := (sem_of csem rtot (wb_range X) code).

    Lemma over_agree n vals : n < wb_n X -> wb_input X n = false -> args_ok X n vals ->
      semX n vals = semT n vals.
    Proof.
      intros L I OK. unfold sem_of. destruct (wb_range X n) eqn:R; auto.
      unfold rtot. destruct (rsem n vals) eqn:E; auto. exfalso.
      assert (Rg: g_range G n = true) by (rewrite <- XR; auto).
      destruct CW as [_ B]. apply (B n vals); auto; [rewrite <- XN; auto|].
      unfold members_ok. rewrite <- (XM n L Rg).
      apply (args_okb_iff X) in OK.
      eapply Forall2_impl_in; [|exact OK]. cbn beta. intros d v Hd H Rd. apply H.
      pose proof (deps_ltN X WFX n d L Hd) as Ld.
      apply (range_noninput X WFX d Ld). rewrite XR; auto.
    Qed.

    Lemma over_nb : sem_nonblank X semT.
    Proof. apply sem_of_nonblank. apply cnb_tot. Qed.

    (* C01's weak condition holds *)
    Lemma over_weak : sem_nonblank_weak X semX.
    Proof.
      intros n vals L I OK. rewrite (over_agree n vals L I OK). now apply over_nb.
    Qed.
  End Over.

  (* ---- the original model *)
  Variable M : pmodel.
  Hypothesis OK : pm_ok G cdeps M.
  Hypothesis WF : wf (pm_wb M).

  Notation W := (pm_wb M).
  Notation s := (pm_state M).
  Notation sem := (pm_sem csem rsem M).
  Notation semt := (pm_sem csem rtot M).

  Let XR : forall n, n < wb_n W -> wb_range W n = g_range G n.
  Proof. intros n L. apply (ok_range G cdeps M OK). rewrite <- (ok_n G cdeps M OK). exact L. Qed.
  Let XM : forall n, n < wb_n W -> g_range G n = true -> wb_deps W n = g_members G n.
  Proof. intros n L R. apply (ok_members G cdeps M OK); auto. rewrite <- (ok_n G cdeps M OK). exact L. Qed.

  Lemma NBt : sem_nonblank W semt.
  Proof. apply (over_nb W (pm_code M)). Qed.
  Lemma AGt : forall n vals, n < wb_n W -> wb_input W n = false -> args_ok W n vals ->
    sem n vals = semt n vals.
  Proof. apply (over_agree W (pm_code M) WF (ok_n G cdeps M OK) XR XM). Qed.

  (* the model meets C01's weak condition *)
  Lemma model_weak : sem_nonblank_weak W sem.
  Proof. apply (over_weak W (pm_code M) WF (ok_n G cdeps M OK) XR XM). Qed.

  Hypothesis INV : Inv W sem s.
  Hypothesis NE : no_eq_text M.

  Lemma INVt : Inv W semt s.
  Proof. now apply (Inv_transfer W sem semt WF NBt AGt). Qed.

  (* ---- the loaded model *)
  Notation l := (saved_cells G M).
  Notation W' := (imp_wb G cdeps l).
  Notation code' := (imp_codes l).
  Notation sem' := (sem_of csem rsem (g_range G) code').
  Notation semt' := (sem_of csem rtot (g_range G) code').

  Lemma WF' : wf W'.
  Proof. apply (wf_loaded G cdeps csem rtot M OK WF INVt NE). Qed.

  Lemma NBt' : sem_nonblank W' semt'.
  Proof. apply (over_nb W' code'). Qed.
  Lemma AGt' : forall n vals, n < wb_n W' -> wb_input W' n = false -> args_ok W' n vals ->
    sem' n vals = semt' n vals.
  Proof.
    apply (over_agree W' code' WF' eq_refl).
    - intros n _. reflexivity.
    - intros n _ R. cbn [imp_wb wb_deps]. now rewrite R.
  Qed.
  Lemma loaded_weak : sem_nonblank_weak W' sem'.
  Proof.
    apply (over_weak W' code' WF' eq_refl).
    - intros n _. reflexivity.
    - intros n _ R. cbn [imp_wb wb_deps]. now rewrite R.
  Qed.

  Lemma load_tot f h : load G cdeps csem rsem f l h = load G cdeps csem rtot f l h.
  Proof.
    unfold load. cbv zeta.
    assert (E: fold_left (fun s0 n => build W' sem' s0 n) (map fst l) (init W')
               = fold_left (fun s0 n => build W' semt' s0 n) (map fst l) (init W')).
    { apply fold_left_ext_in. intros s0 n _. apply (build_transfer W' sem' semt' WF' NBt' AGt'). }
    rewrite E. reflexivity.
  Qed.

  Notation Mt := (load G cdeps csem rtot (fst (to_text G M)) l (pm_hash M)).

  Lemma roundtrip_tot : roundtrip_pkl G cdeps csem rsem M = Ok Mt
                        /\ roundtrip_pkl G cdeps csem rtot M = Ok Mt.
  Proof.
    unfold roundtrip_pkl. split.
    - rewrite (from_text_ok G cdeps csem rsem M OK INV). now rewrite load_tot.
    - apply (from_text_ok G cdeps csem rtot M OK INVt).
  Qed.

  (* the loaded model that a theorem of Proofs/C03.v for rtot speaks about *)
  Lemma loaded_is M' : roundtrip_pkl G cdeps csem rtot M = Ok M' -> M' = Mt.
  Proof. destruct roundtrip_tot as [_ R]. rewrite R. intros H. now inversion H. Qed.

  (* runs of the loaded machine *)
  Lemma lt_history X sm : forall h s1, Forall (op_lt X) h ->
    ok_history X sm (fun _ o => op_lt X o) s1 h.
  Proof. induction h as [|o h IH]; intros s1 F; cbn; auto. inversion F; subst. split; auto. Qed.

  Lemma run_loaded h : Forall (op_lt W) h ->
    run (pm_wb Mt) (pm_sem csem rsem Mt) (pm_state Mt) h
    = run (pm_wb Mt) (pm_sem csem rtot Mt) (pm_state Mt) h.
  Proof.
    intros F.
    assert (F': Forall (op_lt W') h).
    { eapply Forall_impl; [|exact F]. intros [n|a v|n]; cbn [op_lt]; auto.
      change (wb_n W') with (g_n G). now rewrite <- (ok_n G cdeps M OK). }
    destruct (run_transfer W' sem' semt' WF' NBt' AGt' (fun _ o => op_lt W' o) (fun _ o H => H) h
                (pm_state Mt) (lt_history W' sem' h _ F')) as [R _].
    exact R.
  Qed.

  Lemma run_orig h : Forall (op_lt W) h -> run W sem s h = run W semt s h.
  Proof.
    intros F.
    destruct (run_transfer W sem semt WF NBt AGt (fun _ o => op_lt W o) (fun _ o H => H) h
                s (lt_history W sem h _ F)) as [R _].
    exact R.
  Qed.

  (* ------------------------------------------------------------ C03_abs *)
  Theorem abs_roundtrip_weak :
    exists M', roundtrip_pkl G cdeps csem rsem M = Ok M' /\ abs M' = abs M.
  Proof.
    destruct (abs_roundtrip G cdeps csem rtot M OK WF cnb_tot INVt NE) as (M' & R & A).
    rewrite (loaded_is M' R) in *. exists Mt. split; [apply roundtrip_tot|exact A].
  Qed.

  (* ----------------------------------------------------- C03_idempotent *)
  Theorem idempotent_weak :
    exists M', roundtrip_pkl G cdeps csem rsem M = Ok M' /\
      saved_cells G M' = saved_cells G M /\
      forall k, d_get (fst (to_text G M')) k = d_get (fst (to_text G M)) k.
  Proof.
    destruct (idempotent G cdeps csem rtot M OK WF cnb_tot INVt NE) as (M' & R & A).
    rewrite (loaded_is M' R) in *. exists Mt. split; [apply roundtrip_tot|exact A].
  Qed.

  (* --------------------------------------------------------- C03_equiv *)
  Hypothesis SO : stored_ok W sem.
  Hypothesis EX : inputs_exact W (st_cache s).

  Lemma SOt : stored_ok W semt.
  Proof. apply (stored_ok_transfer W sem semt WF NBt AGt SO). Qed.

  Lemma post_lt h : Forall (post_ok W) h -> Forall (op_lt W) h.
  Proof. intros F. eapply Forall_impl; [|exact F]. intros [n|a v|n]; cbn; auto. Qed.

  Theorem equiv_roundtrip_weak : allcells W s ->
    exists M', roundtrip_pkl G cdeps csem rsem M = Ok M' /\
      forall h, Forall (post_ok W) h ->
        snd (run (pm_wb M') (pm_sem csem rsem M') (pm_state M') h) = snd (run W sem s h)
        /\ snd (run W sem s h) = run_spec W sem (st_cache s) h.
  Proof.
    intros AC.
    destruct (equiv_roundtrip G cdeps csem rtot M OK WF cnb_tot INVt NE SOt AC EX) as (M' & R & A).
    rewrite (loaded_is M' R) in *. exists Mt. split; [apply roundtrip_tot|].
    intros h F. pose proof (post_lt h F) as Fl. destruct (A h F) as [A1 A2].
    rewrite (run_loaded h Fl), (run_orig h Fl).
    rewrite (run_spec_transfer W sem semt WF NBt AGt h _ Fl). auto.
  Qed.

  Theorem equiv_region_roundtrip_weak :
    exists M', roundtrip_pkl G cdeps csem rsem M = Ok M' /\
      forall h, Forall (post_in M) h ->
        ok_history W sem (ok_op W) s h ->
        snd (run (pm_wb M') (pm_sem csem rsem M') (pm_state M') h) = snd (run W sem s h).
  Proof.
    destruct (equiv_region_roundtrip G cdeps csem rtot M OK WF cnb_tot INVt NE SOt EX) as (M' & R & A).
    rewrite (loaded_is M' R) in *. exists Mt. split; [apply roundtrip_tot|].
    intros h F OKh.
    destruct (run_transfer W sem semt WF NBt AGt (ok_op W) (ok_op_lt W) h s OKh) as [Rr OK2].
    pose proof (ok_history_lt W (ok_op W) sem (ok_op_lt W) h s OKh) as Fl.
    rewrite (run_loaded h Fl), Rr. now apply A.
  Qed.
End C03Weak.

(* ---- the theorems with the hypotheses in the order of Props/C03.v *)
Section Final.
  Variable G : geometry.
  Variable cdeps : str -> list nat.
  Variable csem : str -> list pyval -> pyval.
  Variable rsem : nat -> list pyval -> pyval.
  Notation roundtrip := (roundtrip_pkl G cdeps csem rsem).
  Notation sem := (pm_sem csem rsem).

  (* the weak condition: implied by code_nonblank, implies C01's weak condition
     for the model and for the workbook the loader builds *)
  Theorem weak_condition M : pm_ok G cdeps M -> wf (pm_wb M) ->
    (code_nonblank csem rsem -> code_nonblank_weak G csem rsem) /\
    (code_nonblank_weak G csem rsem -> sem_nonblank_weak (pm_wb M) (sem M)).
  Proof.
    intros OK WF. split; [apply code_nonblank_weaken|].
    intros CW. now apply (model_weak G cdeps csem rsem CW M).
  Qed.

  Theorem abs_roundtrip_weak_p M :
    pm_ok G cdeps M -> wf (pm_wb M) -> code_nonblank_weak G csem rsem ->
    Inv (pm_wb M) (sem M) (pm_state M) -> no_eq_text M ->
    exists M', roundtrip M = Ok M' /\ abs M' = abs M.
  Proof. intros OK WF CW I NE. now apply abs_roundtrip_weak. Qed.

  Theorem equiv_roundtrip_weak_p M :
    pm_ok G cdeps M -> wf (pm_wb M) -> code_nonblank_weak G csem rsem ->
    Inv (pm_wb M) (sem M) (pm_state M) -> no_eq_text M ->
    stored_ok (pm_wb M) (sem M) -> allcells (pm_wb M) (pm_state M) ->
    inputs_exact (pm_wb M) (st_cache (pm_state M)) ->
    exists M', roundtrip M = Ok M' /\
      forall h, Forall (post_ok (pm_wb M)) h ->
        snd (run (pm_wb M') (sem M') (pm_state M') h) = snd (run (pm_wb M) (sem M) (pm_state M) h)
        /\ snd (run (pm_wb M) (sem M) (pm_state M) h) =
           run_spec (pm_wb M) (sem M) (st_cache (pm_state M)) h.
  Proof. intros OK WF CW I NE SO AC EX. now apply equiv_roundtrip_weak. Qed.

  Theorem equiv_region_roundtrip_weak_p M :
    pm_ok G cdeps M -> wf (pm_wb M) -> code_nonblank_weak G csem rsem ->
    Inv (pm_wb M) (sem M) (pm_state M) -> no_eq_text M ->
    stored_ok (pm_wb M) (sem M) ->
    inputs_exact (pm_wb M) (st_cache (pm_state M)) ->
    exists M', roundtrip M = Ok M' /\
      forall h, Forall (post_in M) h ->
        ok_history (pm_wb M) (sem M) (ok_op (pm_wb M)) (pm_state M) h ->
        snd (run (pm_wb M') (sem M') (pm_state M') h) = snd (run (pm_wb M) (sem M) (pm_state M) h).
  Proof. intros OK WF CW I NE SO EX. now apply equiv_region_roundtrip_weak. Qed.

  Theorem idempotent_weak_p M :
    pm_ok G cdeps M -> wf (pm_wb M) -> code_nonblank_weak G csem rsem ->
    Inv (pm_wb M) (sem M) (pm_state M) -> no_eq_text M ->
    exists M', roundtrip M = Ok M' /\
      saved_cells G M' = saved_cells G M /\
      forall k, d_get (fst (to_text G M')) k = d_get (fst (to_text G M)) k.
  Proof. intros OK WF CW I NE. now apply idempotent_weak. Qed.
End Final.
