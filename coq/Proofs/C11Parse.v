(* Proofs/C11Parse.v — print/parse round trip of addresses (Model/Addr.v):
   sheet-name quoting, split_sheetname, the A1 coordinate grammar. *)
From Coq Require Import ZArith List Bool Lia.
From PV Require Import Lib.Py Model.Addr Proofs.Radix Proofs.C11.
Import ListNotations.
Open Scope Z_scope.

(* ------------------------------------------------------- generic text *)
Lemma last_app_cons {A} (x : list A) c d dflt : last (x ++ c :: d) dflt = last (c :: d) dflt.
Proof.
  induction x as [|a x IH]; [reflexivity|].
  cbn [app]. change (last (a :: x ++ c :: d) dflt) with
    (match x ++ c :: d with [] => a | _ :: _ => last (x ++ c :: d) dflt end).
  destruct (x ++ c :: d) eqn:E; [destruct x; discriminate|]. exact IH.
Qed.
Lemma last_Forall {A} (P : A -> Prop) l dflt : Forall P l -> l <> [] -> P (last l dflt).
Proof.
  induction 1 as [|a l Ha Hl IH]; intros Hne; [congruence|].
  destruct l as [|b l]; [exact Ha|]. apply IH. discriminate.
Qed.

Lemma mem_false ch s : mem ch s = false <-> ~ In ch s.
Proof.
  unfold mem. split.
  - intros H Hin. assert (existsb (Z.eqb ch) s = true); [|congruence].
    apply existsb_exists. exists ch. split; [exact Hin|apply Z.eqb_refl].
  - intros H. destruct (existsb (Z.eqb ch) s) eqn:E; [|reflexivity].
    apply existsb_exists in E. destruct E as (x & Hin & Hx). apply Z.eqb_eq in Hx. subst. contradiction.
Qed.
Lemma mem_true ch s : mem ch s = true <-> In ch s.
Proof.
  destruct (mem ch s) eqn:E.
  - split; [intros _|reflexivity]. destruct (in_dec Z.eq_dec ch s) as [H|H]; [exact H|].
    apply mem_false in H. congruence.
  - apply mem_false in E. split; [discriminate|contradiction].
Qed.

Lemma split_first_none ch s : ~ In ch s -> split_first ch s = None.
Proof.
  induction s as [|c s IH]; intros H; cbn [split_first]; [reflexivity|].
  replace (c =? ch) with false by (symmetry; apply Z.eqb_neq; intros ->; apply H; left; reflexivity).
  rewrite IH; [reflexivity|]. intros Hin. apply H. right. exact Hin.
Qed.
Lemma split_first_app ch p r : ~ In ch p -> split_first ch (p ++ ch :: r) = Some (p, r).
Proof.
  induction p as [|c p IH]; intros H; cbn [app split_first].
  - rewrite Z.eqb_refl. reflexivity.
  - replace (c =? ch) with false by (symmetry; apply Z.eqb_neq; intros ->; apply H; left; reflexivity).
    rewrite IH; [reflexivity|]. intros Hin. apply H. right. exact Hin.
Qed.

Lemma prefix_In p : forall s, str_prefix p s = true -> forall x, In x p -> In x s.
Proof.
  induction p as [|a p IH]; intros s H x Hx; [destruct Hx|].
  destruct s as [|b s]; cbn in H; [discriminate|].
  apply andb_true_iff in H. destruct H as [H1 H2]. apply Z.eqb_eq in H1. subst.
  destruct Hx as [<-|Hx]; [left; reflexivity|right; exact (IH s H2 x Hx)].
Qed.
(* replacing a pattern that contains a character the text lacks changes nothing *)
Lemma replace_absent old new ch s : In ch old -> ~ In ch s -> py_replace old new s = s.
Proof.
  intros Ho. unfold py_replace. induction s as [|c s IH]; intros Hs; [reflexivity|].
  cbn [replace_skip].
  destruct (str_prefix old (c :: s)) eqn:E.
  - exfalso. apply Hs. exact (prefix_In old _ E ch Ho).
  - rewrite IH; [reflexivity|]. intros Hin. apply Hs. right. exact Hin.
Qed.

(* ------------------------------------------------------ sheet quoting *)
Definition dbl (s : str) : str := py_replace [39] [39; 39] s.
Lemma dbl_cons c s : dbl (c :: s) = if c =? 39 then 39 :: 39 :: dbl s else c :: dbl s.
Proof.
  unfold dbl, py_replace. cbn [replace_skip str_prefix length Nat.sub app].
  rewrite (Z.eqb_sym 39 c). destruct (c =? 39); reflexivity.
Qed.
Lemma undbl s : py_replace [39; 39] [39] (dbl s) = s.
Proof.
  induction s as [|c s IH]; [reflexivity|]. rewrite dbl_cons.
  destruct (c =? 39) eqn:E.
  - apply Z.eqb_eq in E. subst. unfold py_replace in *.
    cbn [replace_skip str_prefix length Nat.sub app Z.eqb Pos.eqb andb]. rewrite IH. reflexivity.
  - unfold py_replace in *. cbn [replace_skip str_prefix].
    rewrite (Z.eqb_sym 39 c), E. cbn [andb]. rewrite IH. reflexivity.
Qed.
Lemma dbl_In x s : In x (dbl s) -> x = 39 \/ In x s.
Proof.
  induction s as [|c s IH]; [intros []|]. rewrite dbl_cons. destruct (c =? 39) eqn:E.
  - apply Z.eqb_eq in E. subst. intros [H|[H|H]]; [left; auto|left; auto|].
    destruct (IH H); [left; assumption|right; right; assumption].
  - intros [H|H]; [right; left; exact H|]. destruct (IH H); [left; assumption|right; right; assumption].
Qed.

(* the sheet names for which text -> sheet is the inverse of printing.
   plain form "Sheet!A1": no '!' in the name and not '...' *)
Definition sheet_ok (s : str) : bool := negb (mem 33 s) && negb (starts39 s && ends39 s).
(* quoted forms (after repair 4860474 a name is quoted unless it is made of letters, digits, '_'
   and '.'): only the '!' matters, provided the model decides whether the name is quoted *)
Definition quote_decided (s : str) : bool := existsb char_needs_quote s || negb (existsb char_undecided s).
Definition sheet_ok_quoted (s : str) : bool := negb (mem 33 s) && quote_decided s.
(* the text quote_sheet answers with, when it is decided *)
Definition quote_sheet_text (s : str) : str := if existsb char_needs_quote s then quote_sheetname s else s.

Lemma quote_sheet_decided s : quote_decided s = true -> quote_sheet s = Ok (quote_sheet_text s).
Proof.
  unfold quote_decided, quote_sheet, quote_needed, quote_sheet_text. intros H.
  destruct (existsb char_needs_quote s); [reflexivity|]. cbn [orb] in H. apply negb_true_iff in H.
  rewrite H. reflexivity.
Qed.
Lemma sheet_ok_weaken s : sheet_ok s = true -> quote_decided s = true -> sheet_ok_quoted s = true.
Proof.
  unfold sheet_ok, sheet_ok_quoted. intros H D. apply andb_true_iff in H. destruct H as [A B].
  rewrite A, D. reflexivity.
Qed.

Lemma unquote_plain s : starts39 s && ends39 s = false -> unquote_sheetname s = s.
Proof. intros H. unfold unquote_sheetname. rewrite H. reflexivity. Qed.

Lemma unquote_quoted s : unquote_sheetname (quote_sheetname s) = s.
Proof.
  unfold unquote_sheetname, quote_sheetname. fold (dbl s).
  cbn [starts39 Z.eqb Pos.eqb]. unfold ends39.
  change (39 :: dbl s ++ [39]) with ((39 :: dbl s) ++ [39]). rewrite last_last. cbn [Z.eqb Pos.eqb andb].
  cbn [tl app]. rewrite removelast_last. apply undbl.
Qed.

Lemma quote_sheet_inverse s : sheet_ok_quoted s = true ->
  ~ In 33 (quote_sheet_text s) /\ unquote_sheetname (quote_sheet_text s) = s.
Proof.
  unfold sheet_ok_quoted, quote_sheet_text. intros H. apply andb_true_iff in H. destruct H as [A _].
  apply negb_true_iff, mem_false in A.
  destruct (existsb char_needs_quote s) eqn:E.
  - split; [|apply unquote_quoted]. unfold quote_sheetname. fold (dbl s).
    intros [H|H]; [discriminate|]. apply in_app_iff in H. destruct H as [H|[H|[]]]; [|discriminate].
    apply dbl_In in H. destruct H as [H|H]; [discriminate|contradiction].
  - split; [exact A|]. apply unquote_plain.
    destruct s as [|c r]; [reflexivity|]. cbn [starts39]. destruct (c =? 39) eqn:C; [|reflexivity].
    apply Z.eqb_eq in C. subst c. cbn in E. discriminate.
Qed.

(* split_sheetname on "<prefix>!<coordinate>" *)
Lemma split_sheetname_text p coord : ~ In 33 p -> ~ In 33 coord ->
  split_sheetname (p ++ 33 :: coord) [] = Ok (unquote_sheetname p, coord).
Proof.
  intros Hp Hc. unfold split_sheetname. rewrite split_first_app by exact Hp.
  rewrite (replace_absent _ [] 33 coord); [| |exact Hc].
  2:{ right. apply in_app_iff. right. right. left. reflexivity. }
  replace (mem 33 coord) with false by (symmetry; apply mem_false; exact Hc).
  destruct (nonempty (unquote_sheetname p)); reflexivity.
Qed.
Lemma split_sheetname_bare coord : ~ In 33 coord -> split_sheetname coord [] = Ok ([], coord).
Proof. intros Hc. unfold split_sheetname. rewrite split_first_none by exact Hc. reflexivity. Qed.

(* ----------------------------------------------------- error codes *)
Lemma not_error_code t : is_digit (last t 0) = true -> is_error_code t = false.
Proof.
  intros H. destruct (is_error_code t) eqn:E; [|reflexivity]. exfalso.
  unfold is_error_code in E. apply existsb_exists in E. destruct E as (e & Hin & He).
  apply str_eqb_eq in He. subst e. cbn [ERROR_CODES In] in Hin.
  repeat (destruct Hin as [<-|Hin]; [vm_compute in H; discriminate|]). exact Hin.
Qed.

(* ------------------------------------------- coordinate pieces: letters, digits *)
Definition digitsP (s : str) : Prop := Forall (fun c => 48 <= c <= 57) s.
(* characters of a printed coordinate *)
Definition cchar (c : Z) : Prop := 65 <= c <= 90 \/ 48 <= c <= 57 \/ c = 36 \/ c = 58.

Lemma is_alpha_upper c : 65 <= c <= 90 -> is_alpha c = true.
Proof. intros H. unfold is_alpha, is_upper. rewrite andb_leb by lia. reflexivity. Qed.
Lemma is_alpha_not c : c < 65 -> is_alpha c = false.
Proof.
  intros H. unfold is_alpha, is_upper, is_lower.
  replace (65 <=? c) with false by (symmetry; apply Z.leb_gt; lia).
  replace (97 <=? c) with false by (symmetry; apply Z.leb_gt; lia). reflexivity.
Qed.
Lemma is_digit_yes c : 48 <= c <= 57 -> is_digit c = true.
Proof. intros H. unfold is_digit. apply andb_leb. exact H. Qed.

Definition stop (p : Z -> bool) (t : str) : Prop :=
  match t with [] => True | c :: _ => p c = false end.
Lemma span_app p l t : Forall (fun c => p c = true) l -> stop p t -> span p (l ++ t) = (l, t).
Proof.
  intros Hl Ht. induction Hl as [|c l Hc Hl IH]; cbn [app].
  - destruct t as [|c t]; [reflexivity|]. cbn in Ht. cbn [span]. rewrite Ht. reflexivity.
  - cbn [span]. rewrite Hc, IH. reflexivity.
Qed.

Lemma dec_of_horner D : digitsP D -> forall a, fold_left dec_step D a = horner 10 a D.
Proof.
  unfold horner. induction 1 as [|c D Hc HD IH]; intros a; [reflexivity|].
  cbn [fold_left]. rewrite IH. f_equal. unfold dec_step, digit_val.
  rewrite andb_leb by lia. reflexivity.
Qed.

(* str(row) for a row >= 0: non-empty ASCII digits whose value is the row *)
Lemma row_text r : 0 <= r -> digitsP (str_of_Z r) /\ str_of_Z r <> [] /\ dec_of (str_of_Z r) = r.
Proof.
  intros Hr. unfold str_of_Z. replace (r <? 0) with false by (symmetry; apply Z.ltb_ge; lia).
  destruct (digits_spec 10 ltac:(lia) r Hr) as (D & HD & Hne & Hv & Hall & _).
  rewrite HD.
  assert (Hd : digitsP D).
  { eapply Forall_impl; [|exact Hall]. cbn. intros c (d & -> & Hdd). unfold dchar.
    replace (d <? 10) with true by (symmetry; apply Z.ltb_lt; lia). lia. }
  repeat split; [exact Hd|exact Hne|]. unfold dec_of. rewrite dec_of_horner by exact Hd. exact Hv.
Qed.
(* the letters of a column 1..18278 *)
Lemma col_text c : 1 <= c <= 18278 ->
  uppers (letters_of_col c) /\ letters_of_col c <> [] /\ zlen (letters_of_col c) <= 3
  /\ col_of_letters (letters_of_col c) = c.
Proof.
  intros H. destruct (letters_of_col_spec c ltac:(lia)) as [HU HV].
  repeat split; [exact HU|apply letters_nonempty; lia|apply letters_short; exact H|exact HV].
Qed.

(* one corner, relative or absolute ($) *)
Definition ctext (ab : bool) (L D : str) : str := if ab then 36 :: L ++ 36 :: D else L ++ D.

Lemma half_ctext ab L D rest : uppers L -> L <> [] -> zlen L <= 3 -> digitsP D -> D <> [] ->
  stop is_digit rest -> half (ctext ab L D ++ rest) = Some (L, D, rest).
Proof.
  intros HL HLne HLlen HD HDne Hrest.
  destruct L as [|l L]; [congruence|]. destruct D as [|d D]; [congruence|].
  inversion HL as [|? ? Hl _]; subst. inversion HD as [|? ? Hd _]; subst.
  assert (A : Forall (fun c => is_alpha c = true) (l :: L)).
  { eapply Forall_impl; [|exact HL]. apply is_alpha_upper. }
  assert (B : Forall (fun c => is_digit c = true) (d :: D)).
  { eapply Forall_impl; [|exact HD]. apply is_digit_yes. }
  assert (S1 : opt_char 36 ((l :: L) ++ (if ab then 36 :: d :: D else d :: D) ++ rest)
               = (l :: L) ++ (if ab then 36 :: d :: D else d :: D) ++ rest).
  { cbn [app opt_char]. replace (l =? 36) with false by (symmetry; apply Z.eqb_neq; lia). reflexivity. }
  assert (S2 : span is_alpha ((l :: L) ++ (if ab then 36 :: d :: D else d :: D) ++ rest)
               = (l :: L, (if ab then 36 :: d :: D else d :: D) ++ rest)).
  { apply span_app; [exact A|]. destruct ab; cbn [stop app]; apply is_alpha_not; lia. }
  assert (S3 : opt_char 36 ((if ab then 36 :: d :: D else d :: D) ++ rest) = (d :: D) ++ rest).
  { destruct ab; cbn [app opt_char]; [reflexivity|].
    replace (d =? 36) with false by (symmetry; apply Z.eqb_neq; lia). reflexivity. }
  assert (S4 : span is_digit ((d :: D) ++ rest) = (d :: D, rest)) by (apply span_app; assumption).
  unfold half.
  assert (E : opt_char 36 (ctext ab (l :: L) (d :: D) ++ rest)
              = (l :: L) ++ (if ab then 36 :: d :: D else d :: D) ++ rest).
  { destruct ab; [|unfold ctext; rewrite <- app_assoc; exact S1].
    unfold ctext. cbn [app opt_char Z.eqb Pos.eqb]. rewrite <- app_assoc. reflexivity. }
  rewrite E, S2. cbn [fst snd].
  replace (3 <? zlen (l :: L)) with false by (symmetry; apply Z.ltb_ge; exact HLlen).
  rewrite S3, S4. reflexivity.
Qed.

Lemma ctext_cchar ab L D : uppers L -> digitsP D -> Forall cchar (ctext ab L D).
Proof.
  intros HL HD.
  assert (A : Forall cchar L) by (eapply Forall_impl; [|exact HL]; unfold cchar; intros; lia).
  assert (B : Forall cchar D) by (eapply Forall_impl; [|exact HD]; unfold cchar; intros; lia).
  unfold ctext. destruct ab.
  - constructor; [unfold cchar; lia|]. apply Forall_app. split; [exact A|].
    constructor; [unfold cchar; lia|exact B].
  - apply Forall_app. split; assumption.
Qed.
Lemma cchar_no_bang t : Forall cchar t -> ~ In 33 t.
Proof. intros H Hin. rewrite Forall_forall in H. specialize (H 33 Hin). unfold cchar in H. lia. Qed.
Lemma cchar_not_bad t : Forall cchar t -> bad_chars t = false.
Proof.
  intros H. unfold bad_chars. induction H as [|c t Hc Ht IH]; [reflexivity|]. cbn [existsb].
  rewrite IH. unfold cchar in Hc.
  replace (c =? 10) with false by (symmetry; apply Z.eqb_neq; lia).
  replace (127 <? c) with false by (symmetry; apply Z.ltb_ge; lia). reflexivity.
Qed.
Lemma ctext_last ab L D x : digitsP D -> D <> [] -> is_digit (last (x ++ ctext ab L D) 0) = true.
Proof.
  intros HD Hne. destruct D as [|d D]; [congruence|].
  assert (E : x ++ ctext ab L (d :: D) = (x ++ (if ab then 36 :: L ++ [36] else L)) ++ d :: D).
  { unfold ctext. destruct ab; rewrite <- !app_assoc; cbn [app]; [rewrite <- app_assoc|]; reflexivity. }
  rewrite E, last_app_cons. apply is_digit_yes.
  apply (last_Forall (fun c => 48 <= c <= 57) (d :: D) 0 HD). discriminate.
Qed.

(* ----------------------------------- the coordinate grammar on printed text *)
Lemma boundaries_cell ab L D : uppers L -> L <> [] -> zlen L <= 3 -> digitsP D -> D <> [] ->
  range_boundaries (ctext ab L D) None
  = Ok (Some (col_of_letters L), Some (dec_of D), Some (col_of_letters L), Some (dec_of D)).
Proof.
  intros HL HLne HLlen HD HDne. unfold range_boundaries.
  rewrite cchar_not_bad by (apply ctext_cchar; assumption).
  unfold openpyxl_range_boundaries.
  rewrite <- (app_nil_r (ctext ab L D)), half_ctext by (try assumption; exact I).
  destruct L as [|l L]; [congruence|]. destruct D as [|d D]; [congruence|]. reflexivity.
Qed.

Lemma boundaries_range ab L1 D1 L2 D2 :
  uppers L1 -> L1 <> [] -> zlen L1 <= 3 -> digitsP D1 -> D1 <> [] ->
  uppers L2 -> L2 <> [] -> zlen L2 <= 3 -> digitsP D2 -> D2 <> [] ->
  range_boundaries (ctext ab L1 D1 ++ 58 :: ctext ab L2 D2) None
  = Ok (Some (col_of_letters L1), Some (dec_of D1), Some (col_of_letters L2), Some (dec_of D2)).
Proof.
  intros HL1 N1 Z1 HD1 M1 HL2 N2 Z2 HD2 M2. unfold range_boundaries.
  assert (C : Forall cchar (ctext ab L1 D1 ++ 58 :: ctext ab L2 D2)).
  { apply Forall_app. split; [apply ctext_cchar; assumption|].
    constructor; [unfold cchar; lia|apply ctext_cchar; assumption]. }
  rewrite cchar_not_bad by exact C.
  unfold openpyxl_range_boundaries.
  rewrite half_ctext by (try assumption; reflexivity).
  cbn [Z.eqb Pos.eqb].
  rewrite <- (app_nil_r (ctext ab L2 D2)), half_ctext by (try assumption; exact I).
  destruct L1 as [|l1 L1]; [congruence|]. destruct D1 as [|d1 D1]; [congruence|].
  destruct L2 as [|l2 L2]; [congruence|]. destruct D2 as [|d2 D2]; [congruence|].
  cbn [nonempty andb orb negb opt_col opt_row all_some]. reflexivity.
Qed.

(* ----------------------------------------------- create on printed text *)
(* [pre] is what is printed before the coordinate: nothing, or "<sheet text>!" *)
Inductive prefix_of (s : str) : str -> Prop :=
| PrefBare : s = [] -> prefix_of s []
| PrefSheet p : ~ In 33 p -> unquote_sheetname p = s -> prefix_of s (p ++ [33]).

Lemma create_printed s pre coord b a :
  prefix_of s pre -> Forall cchar coord -> is_digit (last (pre ++ coord) 0) = true ->
  range_boundaries coord None = Ok b -> from_bounds s b = Ok a ->
  create (pre ++ coord) [] None = Ok (VA a).
Proof.
  intros Hp Hc Hl Hb Ha. unfold create. rewrite not_error_code by exact Hl.
  assert (S : split_sheetname (pre ++ coord) [] = Ok (s, coord)).
  { destruct Hp as [->|p Hp Hu].
    - apply split_sheetname_bare, cchar_no_bang, Hc.
    - rewrite <- app_assoc. cbn [app]. rewrite split_sheetname_text; [rewrite Hu; reflexivity|exact Hp|].
      apply cchar_no_bang, Hc. }
  rewrite S. cbn [bind fst snd]. rewrite Hb. cbn [bind]. rewrite Ha. reflexivity.
Qed.

(* the prefixes of the three printed forms *)
Lemma prefix_plain s : sheet_ok s = true -> prefix_of s (if nonempty s then s ++ [33] else []).
Proof.
  intros H. destruct s as [|c s]; [apply PrefBare; reflexivity|]. cbn [nonempty].
  unfold sheet_ok in H. apply andb_true_iff in H. destruct H as [A B].
  apply negb_true_iff in A, B. apply PrefSheet; [apply mem_false; exact A|apply unquote_plain; exact B].
Qed.
Lemma prefix_quoted s : sheet_ok_quoted s = true -> prefix_of s (quote_sheet_text s ++ [33]).
Proof. intros H. destruct (quote_sheet_inverse s H) as [A B]. apply PrefSheet; assumption. Qed.

Definition form_prefix (form : Z) (s : str) : str :=
  if form =? 0 then (if nonempty s then s ++ [33] else []) else quote_sheet_text s ++ [33].
Definition form_abs (form : Z) : bool := form =? 2.
Definition form_ok (form : Z) (s : str) : bool := if form =? 0 then sheet_ok s else sheet_ok_quoted s.
Lemma form_prefix_ok form s : form_ok form s = true -> prefix_of s (form_prefix form s).
Proof.
  unfold form_ok, form_prefix. destruct (form =? 0); [apply prefix_plain|apply prefix_quoted].
Qed.

Lemma cell_text_shape (ab : bool) c r : 1 <= c <= 18278 -> 1 <= r ->
  (if ab then abs_coord_text c r else coord_text c r) = ctext ab (letters_of_col c) (str_of_Z r).
Proof.
  intros Hc Hr. unfold abs_coord_text, coord_text, column, ctext.
  replace (c =? 0) with false by (symmetry; apply Z.eqb_neq; lia).
  replace (r =? 0) with false by (symmetry; apply Z.eqb_neq; lia). reflexivity.
Qed.

(* any of the three forms of a cell parses back to the cell *)
Lemma roundtrip_cell_form form s c r : form_ok form s = true -> 1 <= c <= 18278 -> 1 <= r ->
  create (form_prefix form s ++ (if form_abs form then abs_coord_text c r else coord_text c r)) [] None
  = Ok (VA (ACell s c r)).
Proof.
  intros Hs Hc Hr. rewrite cell_text_shape by assumption.
  destruct (col_text c Hc) as (HU & HN & HZ & HV). destruct (row_text r ltac:(lia)) as (HD & HM & HR).
  eapply create_printed.
  - apply form_prefix_ok, Hs.
  - apply ctext_cchar; assumption.
  - apply ctext_last; assumption.
  - apply boundaries_cell; assumption.
  - rewrite HV, HR. cbn [from_bounds]. rewrite !Z.eqb_refl. cbn [andb]. apply mk_cell_ok, Hc.
Qed.

(* any of the three forms of a range parses back to the range *)
Lemma roundtrip_range_form form s c1 r1 c2 r2 : form_ok form s = true ->
  1 <= c1 <= 18278 -> 1 <= r1 -> 1 <= c2 <= 18278 -> 1 <= r2 -> (c1, r1) <> (c2, r2) ->
  create (form_prefix form s ++
          (if form_abs form then abs_coord_text c1 r1 ++ 58 :: abs_coord_text c2 r2
           else coord_text c1 r1 ++ 58 :: coord_text c2 r2)) [] None
  = Ok (VA (ARange s c1 r1 c2 r2)).
Proof.
  intros Hs Hc1 Hr1 Hc2 Hr2 Hne.
  assert (E : (if form_abs form then abs_coord_text c1 r1 ++ 58 :: abs_coord_text c2 r2
               else coord_text c1 r1 ++ 58 :: coord_text c2 r2)
              = ctext (form_abs form) (letters_of_col c1) (str_of_Z r1)
                ++ 58 :: ctext (form_abs form) (letters_of_col c2) (str_of_Z r2)).
  { rewrite <- !cell_text_shape by assumption. destruct (form_abs form); reflexivity. }
  rewrite E.
  destruct (col_text c1 Hc1) as (HU1 & HN1 & HZ1 & HV1). destruct (row_text r1 ltac:(lia)) as (HD1 & HM1 & HR1).
  destruct (col_text c2 Hc2) as (HU2 & HN2 & HZ2 & HV2). destruct (row_text r2 ltac:(lia)) as (HD2 & HM2 & HR2).
  eapply create_printed.
  - apply form_prefix_ok, Hs.
  - apply Forall_app. split; [apply ctext_cchar; assumption|].
    constructor; [unfold cchar; lia|apply ctext_cchar; assumption].
  - rewrite app_assoc. change (58 :: ?x) with ([58] ++ x). rewrite app_assoc. apply ctext_last; assumption.
  - apply boundaries_range; assumption.
  - rewrite HV1, HR1, HV2, HR2. cbn [from_bounds].
    replace ((c1 =? c2) && (r1 =? r2)) with false.
    + apply mk_range_ok; assumption.
    + symmetry. apply andb_false_iff.
      destruct (Z.eq_dec c1 c2) as [->|N]; [|left; apply Z.eqb_neq; exact N].
      right. apply Z.eqb_neq. intros ->. apply Hne. reflexivity.
Qed.

(* ------------------------------------------ the round trip, all addresses *)
(* an address on the sheet: a cell, or a range whose corners differ
   (a range with equal corners prints as A1:A1 and parses to the cell) *)
Definition on_sheet (a : addr) : Prop :=
  match a with
  | ACell _ c r => 1 <= c <= MAX_COL /\ 1 <= r <= MAX_ROW
  | ARange _ c1 r1 c2 r2 =>
      1 <= c1 <= MAX_COL /\ 1 <= r1 <= MAX_ROW /\ 1 <= c2 <= MAX_COL /\ 1 <= r2 <= MAX_ROW
      /\ (c1, r1) <> (c2, r2)
  end.

Lemma address_form a : address a = form_prefix 0 (a_sheet a) ++ coordinate a.
Proof.
  unfold address, form_prefix. cbn [Z.eqb]. destruct (nonempty (a_sheet a)); [|reflexivity].
  rewrite <- app_assoc. reflexivity.
Qed.
Lemma quoted_address_form a : quote_decided (a_sheet a) = true ->
  quoted_address a = Ok (form_prefix 1 (a_sheet a) ++ coordinate a).
Proof.
  intros D. unfold quoted_address, form_prefix. rewrite (quote_sheet_decided _ D). cbn [Z.eqb bind].
  rewrite <- app_assoc. reflexivity.
Qed.
Lemma abs_address_form a : quote_decided (a_sheet a) = true ->
  abs_address a = Ok (form_prefix 2 (a_sheet a) ++ abs_coordinate a).
Proof.
  intros D. unfold abs_address, form_prefix. rewrite (quote_sheet_decided _ D). cbn [Z.eqb bind].
  rewrite <- app_assoc. reflexivity.
Qed.
Lemma sheet_ok_quoted_decided s : sheet_ok_quoted s = true -> quote_decided s = true.
Proof. unfold sheet_ok_quoted. intros H. apply andb_true_iff in H. tauto. Qed.

Lemma roundtrip_form form a : on_sheet a -> form_ok form (a_sheet a) = true ->
  create (form_prefix form (a_sheet a) ++ (if form_abs form then abs_coordinate a else coordinate a)) [] None
  = Ok (VA a).
Proof.
  intros Ha Hs. destruct a as [s c r|s c1 r1 c2 r2]; cbn [on_sheet a_sheet coordinate abs_coordinate] in *.
  - apply roundtrip_cell_form; [exact Hs|unfold MAX_COL in *; lia|lia].
  - destruct Ha as (A & B & C & D & E).
    apply roundtrip_range_form; [exact Hs|unfold MAX_COL in *; lia|lia|unfold MAX_COL in *; lia|lia|exact E].
Qed.

Lemma roundtrip_plain a : on_sheet a -> sheet_ok (a_sheet a) = true ->
  create (address a) [] None = Ok (VA a).
Proof. intros Ha Hs. rewrite address_form. apply (roundtrip_form 0 a Ha Hs). Qed.
Lemma roundtrip_quoted a : on_sheet a -> sheet_ok_quoted (a_sheet a) = true ->
  bind (quoted_address a) (fun t => create t [] None) = Ok (VA a).
Proof.
  intros Ha Hs. rewrite (quoted_address_form a (sheet_ok_quoted_decided _ Hs)). cbn [bind].
  apply (roundtrip_form 1 a Ha Hs).
Qed.
Lemma roundtrip_abs a : on_sheet a -> sheet_ok_quoted (a_sheet a) = true ->
  bind (abs_address a) (fun t => create t [] None) = Ok (VA a).
Proof.
  intros Ha Hs. rewrite (abs_address_form a (sheet_ok_quoted_decided _ Hs)). cbn [bind].
  apply (roundtrip_form 2 a Ha Hs).
Qed.

(* non-vacuity: 'My Data'!$XFD$1048576 *)
Example ex_roundtrip :
  let a := ACell [77; 121; 32; 68; 97; 116; 97] 16384 1048576 in
  abs_address a = Ok [39; 77; 121; 32; 68; 97; 116; 97; 39; 33; 36; 88; 70; 68; 36; 49; 48; 52; 56; 53; 55; 54]
  /\ bind (abs_address a) (fun t => create t [] None) = Ok (VA a).
Proof. vm_compute. split; reflexivity. Qed.
(* a name with '!' is outside sheet_ok, and the model (like the code) fails on it *)
Example ex_bang : create (address (ACell [97; 33; 98] 1 1)) [] None = Raise NotImplementedError.
Proof. vm_compute. reflexivity. Qed.

(* names that are quoted since repair 4860474 and therefore parse back: x-y, it's, a,b, Tab(1), a$b;
   letters, digits, '_' and '.' stay bare: Sheet_1.b, Übersicht *)
Definition quoted_rt (s : str) : Prop :=
  sheet_ok_quoted s = true
  /\ bind (quoted_address (ACell s 2 3)) (fun t => create t [] None) = Ok (VA (ACell s 2 3))
  /\ bind (abs_address (ARange s 1 1 2 2)) (fun t => create t [] None) = Ok (VA (ARange s 1 1 2 2)).
Example ex_quoted_dash : quote_sheet [120; 45; 121] = Ok [39; 120; 45; 121; 39] /\ quoted_rt [120; 45; 121].
Proof. vm_compute. repeat split; reflexivity. Qed.
Example ex_quoted_apostrophe :                                          (* it's -> 'it''s' *)
  quote_sheet [105; 116; 39; 115] = Ok [39; 105; 116; 39; 39; 115; 39] /\ quoted_rt [105; 116; 39; 115].
Proof. vm_compute. repeat split; reflexivity. Qed.
Example ex_quoted_comma : quote_sheet [97; 44; 98] = Ok [39; 97; 44; 98; 39] /\ quoted_rt [97; 44; 98].
Proof. vm_compute. repeat split; reflexivity. Qed.
Example ex_quoted_paren :                                               (* Tab(1) *)
  quote_sheet [84; 97; 98; 40; 49; 41] = Ok [39; 84; 97; 98; 40; 49; 41; 39] /\ quoted_rt [84; 97; 98; 40; 49; 41].
Proof. vm_compute. repeat split; reflexivity. Qed.
Example ex_quoted_dollar : quote_sheet [97; 36; 98] = Ok [39; 97; 36; 98; 39] /\ quoted_rt [97; 36; 98].
Proof. vm_compute. repeat split; reflexivity. Qed.
Example ex_bare_names :
  quote_sheet [83; 104; 101; 101; 116; 95; 49; 46; 98] = Ok [83; 104; 101; 101; 116; 95; 49; 46; 98]
  /\ quote_sheet [220; 98; 101; 114] = Ok [220; 98; 101; 114] /\ quoted_rt [220; 98; 101; 114]
  /\ quote_sheet [25968; 25454] = Ok [25968; 25454] /\ quoted_rt [25968; 25454].
Proof. vm_compute. repeat split; reflexivity. Qed.
(* a character the model does not classify (Greek pi) leaves quote_sheet undecided, unless another
   character already forces the quotes *)
Example ex_undecided : quote_sheet [960; 95; 49] = Raise Unmodelled /\ sheet_ok_quoted [960; 95; 49] = false
  /\ quote_sheet [960; 32; 49] = Ok [39; 960; 32; 49; 39] /\ quoted_rt [960; 32; 49].
Proof. vm_compute. repeat split; reflexivity. Qed.

(* ------------------------------- the address text inside a formula: '$' stripped *)
(* excelformula.RangeNode._emit removes EVERY '$' of a range token before it calls
   AddressRange.create (addr_str = value.replace('$', '')): the absolute markers, but also a '$'
   of the sheet name.  So the absolute form read that way gives the address back exactly for the
   names without '$' (Refuted/C11_dollar_sheet.v: sheet a$b comes back as ab). *)
Definition strip_dollar (t : str) : str := py_replace [36] [] t.
Definition sheet_ok_formula (s : str) : bool := sheet_ok_quoted s && negb (mem 36 s).

Lemma strip_filter t : strip_dollar t = filter (fun c => negb (c =? 36)) t.
Proof.
  unfold strip_dollar, py_replace. induction t as [|c r IH]; [reflexivity|].
  cbn [replace_skip str_prefix length Nat.sub app filter]. rewrite (Z.eqb_sym 36 c).
  destruct (c =? 36); cbn [andb negb]; rewrite IH; reflexivity.
Qed.
Lemma filter_absent l : ~ In 36 l -> filter (fun c => negb (c =? 36)) l = l.
Proof.
  induction l as [|c r IH]; intros H; [reflexivity|]. cbn [filter].
  replace (c =? 36) with false by (symmetry; apply Z.eqb_neq; intros ->; apply H; left; reflexivity).
  cbn [negb]. rewrite IH; [reflexivity|]. intros Hin. apply H. right. exact Hin.
Qed.
Lemma uppers_no_dollar L : uppers L -> ~ In 36 L.
Proof. intros H Hin. unfold uppers in H. rewrite Forall_forall in H. specialize (H 36 Hin). lia. Qed.
Lemma digits_no_dollar D : digitsP D -> ~ In 36 D.
Proof. intros H Hin. unfold digitsP in H. rewrite Forall_forall in H. specialize (H 36 Hin). lia. Qed.

Lemma strip_abs_coord c r : 1 <= c <= 18278 -> 1 <= r ->
  filter (fun x => negb (x =? 36)) (abs_coord_text c r) = coord_text c r.
Proof.
  intros Hc Hr. rewrite (cell_text_shape true c r Hc Hr), (cell_text_shape false c r Hc Hr).
  destruct (col_text c Hc) as (HU & _). destruct (row_text r ltac:(lia)) as (HD & _).
  unfold ctext. cbn [filter Z.eqb Pos.eqb negb]. rewrite filter_app. cbn [filter Z.eqb Pos.eqb negb].
  rewrite (filter_absent _ (uppers_no_dollar _ HU)), (filter_absent _ (digits_no_dollar _ HD)). reflexivity.
Qed.
Lemma strip_prefix s : mem 36 s = false -> strip_dollar (form_prefix 2 s) = form_prefix 1 s.
Proof.
  intros H. apply mem_false in H. rewrite strip_filter. unfold form_prefix. cbn [Z.eqb Pos.eqb].
  apply filter_absent. intros Hin. apply in_app_iff in Hin. destruct Hin as [Hin|[Hin|[]]]; [|discriminate].
  unfold quote_sheet_text in Hin. destruct (existsb char_needs_quote s); [|contradiction].
  unfold quote_sheetname in Hin. fold (dbl s) in Hin. destruct Hin as [Hin|Hin]; [discriminate|].
  apply in_app_iff in Hin. destruct Hin as [Hin|[Hin|[]]]; [|discriminate].
  apply dbl_In in Hin. destruct Hin as [Hin|Hin]; [discriminate|contradiction].
Qed.

Lemma roundtrip_abs_stripped a : on_sheet a -> sheet_ok_formula (a_sheet a) = true ->
  bind (abs_address a) (fun t => create (strip_dollar t) [] None) = Ok (VA a).
Proof.
  intros Ha Hs. unfold sheet_ok_formula in Hs. apply andb_true_iff in Hs. destruct Hs as [Hq Hd].
  apply negb_true_iff in Hd.
  rewrite (abs_address_form a (sheet_ok_quoted_decided _ Hq)). cbn [bind].
  assert (E : strip_dollar (form_prefix 2 (a_sheet a) ++ abs_coordinate a)
              = form_prefix 1 (a_sheet a) ++ coordinate a).
  { rewrite strip_filter, filter_app, <- strip_filter, (strip_prefix _ Hd). f_equal.
    destruct a as [s c r|s c1 r1 c2 r2]; cbn [on_sheet abs_coordinate coordinate] in *.
    - apply strip_abs_coord; unfold MAX_COL in *; lia.
    - destruct Ha as (A & B & C & D & _). rewrite filter_app. cbn [filter Z.eqb Pos.eqb negb].
      rewrite !strip_abs_coord by (unfold MAX_COL in *; lia). reflexivity. }
  rewrite E. apply (roundtrip_form 1 a Ha Hq).
Qed.
Example ex_stripped :
  let a := ARange [84; 97; 98; 40; 49; 41] 1 1 2 2 in                       (* 'Tab(1)'!$A$1:$B$2 *)
  sheet_ok_formula (a_sheet a) = true /\ on_sheet a
  /\ bind (abs_address a) (fun t => create (strip_dollar t) [] None) = Ok (VA a).
Proof.
  cbn zeta. split; [vm_compute; reflexivity|]. split; [|vm_compute; reflexivity].
  cbn. unfold MAX_COL, MAX_ROW. repeat split; try lia. discriminate.
Qed.
