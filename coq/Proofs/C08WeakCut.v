(* Proofs/C08WeakCut.v — C08 under the weak non-blank condition, part 1: the
   transfer of Proofs/C01Weak.v for a workbook in which some INPUT cells are
   known to hold a non-blank value.

   After a trim the machine runs over the cut workbook V = cut W fz c, in which
   a frozen formula cell f is an input cell.  The guard of Proofs/C01Weak.v is
   taken over the ORIGINAL workbook W (the trim itself runs over W), where f is
   a formula cell: an argument list is admissible for [guard W sem] only if the
   value it has for f is not blank.  The machine over V hands over what the
   cache holds for f — so the transfer needs an invariant on the cache:

     [free d]        d's value may be blank (d is an input cell of W)
     [CI c]          an input cell of V that is not free holds a non-blank value
     [okb ds vals]   one value per precedent, non-blank unless the precedent is free

   [eval], [build], [evaluate], [set_value] keep [CI] (a write to a cell that is
   not free must not be blank: [wop]) and cannot tell [sem1] from [sem2] when
   the two agree on [okb] lists and [sem2] never computes a blank.  With
   free = wb_input V and CI = True this is the transfer of C01Weak. *)
From Coq Require Import List Arith Bool Lia.
From PV Require Import Lib.Py Model.Graph.
From PV Require Import Proofs.C01Base Proofs.C01Reset Proofs.C01Eval Proofs.C01Inv Proofs.C01
                       Proofs.C01Weak.
Import ListNotations.

Section WeakCut.
  Variable V : workbook.
  Variable free : nat -> bool.

  Notation N := (wb_n V).
  Notation deps := (wb_deps V).
  Notation isinput := (wb_input V).

  Fixpoint okb (ds : list nat) (vals : list pyval) : bool :=
    match ds, vals with
    | [], [] => true
    | d :: ds', v :: vals' => (free d || negb (is_none v)) && okb ds' vals'
    | _, _ => false
    end.

  Definition CI (c : cache) : Prop :=
    forall d, d < N -> isinput d = true -> free d = false -> c d <> VNone.

  Hypothesis WF : wf V.

  (* ---- [eval] does not touch an input cell *)
  Lemma estep_fst sem f (c : cache) (vs : list pyval) d :
    estep V sem f (c, vs) d = (fst (eval V sem f c d), vs ++ [snd (eval V sem f c d)]).
  Proof. unfold estep. destruct (eval V sem f c d). reflexivity. Qed.

  Lemma eval_keeps_inputs sem : forall f c n k, isinput k = true ->
    fst (eval V sem f c n) k = c k.
  Proof.
    induction f as [|f IH]; intros c n k Ik; [reflexivity|].
    rewrite eval_unfold. destruct (isinput n) eqn:In; [reflexivity|].
    destruct (is_none (c n)); [|reflexivity].
    assert (F: forall l (c0 : cache) (vs : list pyval),
               fst (fold_left (estep V sem f) l (c0, vs)) k = c0 k).
    { induction l as [|d l IHl]; intros c0 vs; cbn [fold_left]; [reflexivity|].
      rewrite estep_fst, IHl. now apply IH. }
    specialize (F (deps n) c (@nil pyval)).
    destruct (fold_left (estep V sem f) (deps n) (c, [])) as [c' vals]. cbn [fst] in *.
    rewrite upd_other; auto. intros ->. congruence.
  Qed.

  Lemma CI_eval sem f c n : CI c -> CI (fst (eval V sem f c n)).
  Proof. intros K d L I F. rewrite eval_keeps_inputs by auto. now apply K. Qed.

  (* ------------------------------------------------------------ transfer *)
  Section Transfer.
    Variables sem1 sem2 : nat -> list pyval -> pyval.
    Hypothesis NB2 : sem_nonblank V sem2.
    Hypothesis AG : forall n vals, n < N -> isinput n = false -> okb (deps n) vals = true ->
                      sem1 n vals = sem2 n vals.

    Lemma eval_okv f c d : CI c -> d < N ->
      free d || negb (is_none (snd (eval V sem2 (S f) c d))) = true.
    Proof.
      intros K L. destruct (free d) eqn:Fd; [reflexivity|]. cbn [orb].
      apply negb_true_iff, is_none_false.
      rewrite eval_unfold. destruct (isinput d) eqn:I.
      - cbn [snd]. now apply K.
      - destruct (is_none (c d)) eqn:E.
        + destruct (fold_left (estep V sem2 f) (deps d) (c, [])) as [c' vals]. cbn [snd].
          now apply NB2.
        + cbn [snd]. now apply is_none_false.
    Qed.

    Lemma fold_transfer f :
      (forall d c, d < f -> d < N -> CI c -> eval V sem1 f c d = eval V sem2 f c d) ->
      forall l, (forall d, In d l -> d < f /\ d < N) ->
      forall c vs, CI c ->
        fold_left (estep V sem1 f) l (c, vs) = fold_left (estep V sem2 f) l (c, vs)
        /\ exists vs', snd (fold_left (estep V sem2 f) l (c, vs)) = vs ++ vs' /\ okb l vs' = true.
    Proof.
      intros IH. induction l as [|d l IHl]; intros Hl c vs K; cbn [fold_left].
      - split; auto. exists []. cbn. now rewrite app_nil_r.
      - destruct (Hl d (or_introl eq_refl)) as [Lf LN].
        assert (E1: estep V sem1 f (c, vs) d = estep V sem2 f (c, vs) d).
        { unfold estep. rewrite IH; auto. }
        rewrite E1, estep_fst.
        destruct (IHl ltac:(intros; apply Hl; right; auto) (fst (eval V sem2 f c d))
                      (vs ++ [snd (eval V sem2 f c d)]) (CI_eval sem2 f c d K))
          as [E (vs' & S1 & OK)].
        split; auto. exists (snd (eval V sem2 f c d) :: vs'). split.
        + rewrite S1, <- app_assoc. reflexivity.
        + cbn [okb]. rewrite OK, andb_true_r.
          destruct f as [|f0]; [lia|]. now apply eval_okv.
    Qed.

    Lemma eval_transfer : forall f n c, n < f -> n < N -> CI c ->
      eval V sem1 f c n = eval V sem2 f c n.
    Proof.
      induction f as [|f IH]; intros n c Lf L K; [lia|].
      rewrite !eval_unfold. destruct (isinput n) eqn:I; auto. destruct (is_none (c n)); auto.
      destruct (fold_transfer f (fun d c Hd Ld Kc => IH d c Hd Ld Kc) (deps n)
                  ltac:(intros d Hd; pose proof (deps_lt V WF n d L Hd); split; lia) c [] K)
        as [E (vs' & S1 & OK)].
      rewrite E. destruct (fold_left (estep V sem2 f) (deps n) (c, [])) as [c' vals].
      cbn [snd app] in S1. subst vals. rewrite AG; auto.
    Qed.

    Lemma CI_c1 s b' : CI (st_cache s) -> CI (build_c1 V s b').
    Proof. intros K d L I F. rewrite build_c1_input by auto. now apply K. Qed.

    Lemma bfold_transfer s b' : forall l c, (forall m, In m l -> m < N) -> CI c ->
      fold_left (bstep V sem1 s b') l c = fold_left (bstep V sem2 s b') l c
      /\ CI (fold_left (bstep V sem2 s b') l c).
    Proof.
      induction l as [|m l IH]; intros c Hl K; cbn [fold_left]; [auto|].
      assert (E: bstep V sem1 s b' c m = bstep V sem2 s b' c m).
      { unfold bstep. destruct (fresh s b' m && wb_range V m); auto.
        assert (Lm: m < N) by (apply Hl; left; auto).
        rewrite eval_transfer; auto. }
      rewrite E. apply IH; [intros; apply Hl; right; auto|].
      unfold bstep. destruct (fresh s b' m && wb_range V m); auto. now apply CI_eval.
    Qed.

    Lemma build_transfer s n : CI (st_cache s) ->
      build V sem1 s n = build V sem2 s n /\ CI (st_cache (build V sem2 s n)).
    Proof.
      intros K. rewrite !build_unfold. cbv zeta. cbn [st_cache].
      destruct (bfold_transfer s (closure V (S N) (st_built s) n) (seq 0 N)
                  (build_c1 V s (closure V (S N) (st_built s) n))
                  ltac:(intros m Hm; apply in_seq in Hm; lia) (CI_c1 s _ K)) as [E K'].
      rewrite E. auto.
    Qed.

    Lemma evaluate_transfer s n : n < N -> CI (st_cache s) ->
      evaluate V sem1 s n = evaluate V sem2 s n /\ CI (st_cache (fst (evaluate V sem2 s n))).
    Proof.
      intros L K. destruct (build_transfer s n K) as [E K']. rewrite !evaluate_unfold, E.
      rewrite eval_transfer by auto. cbn [fst st_cache]. split; auto. now apply CI_eval.
    Qed.

    (* a write keeps [CI]: _reset empties dependants only, and a dependant is
       not an input cell *)
    Lemma CI_set_value s a v : CI (st_cache s) -> (free a = true \/ v <> VNone) ->
      CI (st_cache (set_value V s a v)).
    Proof.
      intros K Hv. rewrite set_value_unfold. destruct (negb (st_built s a)); auto.
      destruct (py_eq (st_cache s a) v && same_type (st_cache s a) v); auto.
      cbn [st_cache]. intros d L I F. destruct (Nat.eq_dec d a) as [->|NE].
      - rewrite upd_same. destruct Hv; congruence.
      - rewrite upd_other by auto.
        destruct (forced_desc V (st_built s) a (upd (st_cache s) a v) d) as [H|[H|H]].
        + rewrite H, upd_other by auto. now apply K.
        + congruence.
        + destruct H as (A & _ & _). rewrite (anc_noninput V WF a d L A) in I. discriminate.
    Qed.

    (* operations on nodes of the workbook; a cell that is not free is not
       written blank *)
    Definition wop (o : gop) : Prop :=
      match o with
      | Evaluate n => n < N
      | Build n => n < N
      | SetValue a v => free a = true \/ v <> VNone
      end.

    Lemma step_transfer s o : wop o -> CI (st_cache s) ->
      step V sem1 s o = step V sem2 s o /\ CI (st_cache (fst (step V sem2 s o))).
    Proof.
      destruct o as [n|a v|n]; cbn [wop Graph.step fst]; intros L K.
      - now apply evaluate_transfer.
      - split; auto. now apply CI_set_value.
      - destruct (build_transfer s n K) as [E K']. rewrite E. auto.
    Qed.

    Lemma run_transfer : forall h s, Forall wop h -> CI (st_cache s) ->
      run V sem1 s h = run V sem2 s h.
    Proof.
      induction h as [|o h IH]; intros s F K; [reflexivity|].
      inversion F as [|? ? Fo Fh]; subst. cbn [Graph.run].
      destruct (step_transfer s o Fo K) as [E K']. rewrite E.
      destruct (step V sem2 s o) as [s1 v]. cbn [fst] in K'. rewrite (IH s1 Fh K'). reflexivity.
    Qed.

    (* ---- the from-scratch values *)
    Lemma args_spec inp : CI inp -> forall l, (forall d, In d l -> d < N) ->
      okb l (map (spec V sem2 inp) l) = true.
    Proof.
      intros K. induction l as [|d l IH]; intros Hl; cbn [map okb]; auto.
      rewrite IH by (intros; apply Hl; right; auto). rewrite andb_true_r.
      assert (L: d < N) by (apply Hl; left; auto).
      destruct (free d) eqn:F; auto. cbn [orb]. apply negb_true_iff, is_none_false.
      destruct (isinput d) eqn:I.
      - rewrite spec_input by auto. now apply K.
      - now apply spec_nonblank.
    Qed.

    Lemma spec_transfer inp : CI inp -> forall n, n < N -> spec V sem1 inp n = spec V sem2 inp n.
    Proof.
      intros K. induction n as [n IH] using lt_wf_ind. intros L.
      rewrite !spec_unfold by auto. destruct (isinput n) eqn:I; auto.
      assert (E: map (spec V sem1 inp) (deps n) = map (spec V sem2 inp) (deps n)).
      { apply map_ext_in. intros d Hd. pose proof (deps_lt V WF n d L Hd). apply IH; lia. }
      rewrite E. apply AG; auto. apply args_spec; auto.
      intros d Hd. eapply deps_ltN; eauto.
    Qed.

    Lemma CI_written o inp : wop o -> CI inp -> CI (written o inp).
    Proof.
      destruct o as [n|a v|n]; cbn [wop written]; auto.
      intros Hv K d L I F. unfold upd. destruct (Nat.eqb_spec d a) as [->|NE]; [|now apply K].
      destruct Hv; congruence.
    Qed.

    Lemma run_spec_transfer : forall h inp, Forall wop h -> CI inp ->
      run_spec V sem1 inp h = run_spec V sem2 inp h.
    Proof.
      induction h as [|o h IH]; intros inp F K; cbn [run_spec]; auto.
      inversion F as [|? ? Fo Fh]; subst. rewrite (IH _ Fh (CI_written o inp Fo K)). f_equal.
      destruct o; auto. cbn in Fo. now apply spec_transfer.
    Qed.
  End Transfer.
End WeakCut.
