(* Proofs/C10.v — operator semantics (Model/Ops.v over the generated
   coercions): error propagation, coercion, concatenation, ordering. *)
From Coq Require Import ZArith QArith List Bool Lia.
From PV Require Import Lib.Py Proofs.PyTac Model.Ops.
From PV Require Gen.excelutil.
Import ListNotations.
Open Scope Z_scope.

Ltac ops_unfold :=
  unfold fixup, in_error_codes, is_blank, excel_cmp_key, concat_render,
    excelutil.f_type_cmp_value, excelutil.f_is_number, excelutil.f_is_array_arg,
    excelutil.f_is_address, excelutil.f_coerce_to_string,
    excelutil.c_ERROR_CODES, excelutil.c_EMPTY, excelutil.c_DIV0, excelutil.c_VALUE_ERROR, py_fuel.
Ltac ops_cbn :=
  cbn [excelutil.f_coerce_to_number is_cmp num_apply cmp_apply key_lt key_eq py_float py_str
       py_truediv py_pow neg_frac_pow str_upper str_lower non_ascii existsb].
Ltac ops_run := ops_unfold; repeat (progress (py_step; ops_cbn)).

(* ------------------------------------------------- errors: left first *)
Lemma error_left l o r : in_error_codes l = Ok true -> fixup l o r = Ok l.
Proof. intros H. unfold fixup. rewrite H. reflexivity. Qed.

Lemma error_right l o r :
  in_error_codes l = Ok false -> in_error_codes r = Ok true -> fixup l o r = Ok r.
Proof. intros Hl Hr. unfold fixup. rewrite Hl. cbn [bind]. rewrite Hr. reflexivity. Qed.

(* the seven error codes are error codes *)
Lemma seven_errors :
  Forall (fun e => in_error_codes (VStr e) = Ok true)
    [ [35; 78; 85; 76; 76; 33]; [35; 68; 73; 86; 47; 48; 33]; [35; 86; 65; 76; 85; 69; 33];
      [35; 82; 69; 70; 33]; [35; 78; 65; 77; 69; 63]; [35; 78; 85; 77; 33]; [35; 78; 47; 65] ].
Proof. repeat constructor. Qed.

(* ------------------------------------------------ integer arithmetic *)
Lemma int_add a b : fixup (VInt a) Add (VInt b) = Ok (VInt (a + b)).
Proof. ops_run. reflexivity. Qed.
Lemma int_sub a b : fixup (VInt a) Sub (VInt b) = Ok (VInt (a - b)).
Proof. ops_run. reflexivity. Qed.
Lemma int_mul a b : fixup (VInt a) Mult (VInt b) = Ok (VInt (a * b)).
Proof. ops_run. reflexivity. Qed.
Lemma int_div a b : b <> 0 ->
  fixup (VInt a) Div (VInt b) = Ok (mkfloat (inject_Z a / inject_Z b)).
Proof.
  intros Hb. ops_run. unfold py_truediv, q_is_zero. cbn [as_num num_q inject_Z Qnum].
  replace (b =? 0) with false by (symmetry; apply Z.eqb_neq; exact Hb). reflexivity.
Qed.
Lemma int_div0 a : fixup (VInt a) Div (VInt 0) = Ok excelutil.c_DIV0.
Proof. ops_run. reflexivity. Qed.
Lemma int_neg a : fixup excelutil.c_EMPTY USub (VInt a) = Ok (VInt (- a)).
Proof. ops_run. reflexivity. Qed.

(* logicals and blanks are their numbers *)
Definition b2z (b : bool) : Z := if b then 1 else 0.
Definition arith (o : op) : Prop := o = Add \/ o = Sub \/ o = Mult \/ o = Div.

Lemma bool_as_number b o r : arith o -> fixup (VBool b) o r = fixup (VInt (b2z b)) o r.
Proof.
  intros [->|[->|[->| ->]]]; destruct b; ops_unfold; py_run; ops_cbn; py_run; reflexivity.
Qed.
Lemma blank_as_number o r : arith o -> fixup VNone o r = fixup (VInt 0) o r.
Proof.
  intros [->|[->|[->| ->]]]; ops_unfold; py_run; ops_cbn; py_run; reflexivity.
Qed.
Lemma bool_as_number_r b o l : arith o -> in_error_codes l = Ok false ->
  fixup l o (VBool b) = fixup l o (VInt (b2z b)).
Proof.
  intros Ho Hl. unfold fixup. rewrite Hl. cbn [bind].
  destruct Ho as [->|[->|[->| ->]]]; destruct b; ops_unfold; py_run; ops_cbn; py_run; reflexivity.
Qed.

(* --------------------------------------------------------- ordering *)
Lemma str_eqb_refl s : str_eqb s s = true.
Proof. induction s as [|c s IH]; [reflexivity|]. cbn. rewrite Z.eqb_refl. exact IH. Qed.
Lemma str_eqb_eq a b : str_eqb a b = true <-> a = b.
Proof.
  split; [|intros ->; apply str_eqb_refl].
  revert b. induction a as [|x a IH]; destruct b as [|y b]; cbn; try discriminate; auto.
  intros H. apply andb_true_iff in H. destruct H as [H1 H2].
  apply Z.eqb_eq in H1. subst. f_equal. auto.
Qed.
Lemma str_eqb_sym a b : str_eqb a b = str_eqb b a.
Proof.
  destruct (str_eqb a b) eqn:E.
  - apply str_eqb_eq in E. subst. symmetry. apply str_eqb_refl.
  - destruct (str_eqb b a) eqn:E'; [|reflexivity].
    apply str_eqb_eq in E'. subst. rewrite str_eqb_refl in E. discriminate.
Qed.

(* exactly one of a<b, a=b, b<a *)
Definition one_of3 (x y z : bool) : Prop :=
  (x = true /\ y = false /\ z = false) \/ (x = false /\ y = true /\ z = false)
  \/ (x = false /\ y = false /\ z = true).

Lemma str_trichotomy a b : one_of3 (str_ltb a b) (str_eqb a b) (str_ltb b a).
Proof.
  revert b. induction a as [|x a IH]; destruct b as [|y b]; cbn.
  - right. left. auto.
  - left. auto.
  - right. right. auto.
  - destruct (Z.ltb_spec x y) as [Hxy|Hxy].
    + replace (y <? x) with false by (symmetry; apply Z.ltb_ge; lia).
      replace (x =? y) with false by (symmetry; apply Z.eqb_neq; lia).
      left. auto.
    + destruct (Z.ltb_spec y x) as [Hyx|Hyx].
      * replace (x =? y) with false by (symmetry; apply Z.eqb_neq; lia). right. right. auto.
      * replace (x =? y) with true by (symmetry; apply Z.eqb_eq; lia). cbn. apply IH.
Qed.

Lemma str_ltb_trans a b c : str_ltb a b = true -> str_ltb b c = true -> str_ltb a c = true.
Proof.
  revert b c. induction a as [|x a IH]; destruct b as [|y b]; destruct c as [|z c]; cbn;
    try discriminate; auto.
  destruct (Z.ltb_spec x y) as [Hxy|Hxy].
  - intros _. destruct (Z.ltb_spec y z) as [Hyz|Hyz].
    + intros _. replace (x <? z) with true by (symmetry; apply Z.ltb_lt; lia). reflexivity.
    + destruct (Z.ltb_spec z y); [discriminate|]. intros _.
      replace (x <? z) with true by (symmetry; apply Z.ltb_lt; lia). reflexivity.
  - destruct (Z.ltb_spec y x); [discriminate|]. intros Hab.
    assert (x = y) by lia. subst y.
    destruct (Z.ltb_spec x z) as [Hxz|Hxz]; [auto|].
    destruct (Z.ltb_spec z x); [discriminate|]. intros Hbc. eapply IH; eauto.
Qed.

(* numbers *)
Lemma q_trichotomy a b : one_of3 (q_ltb a b) (q_eqb a b) (q_ltb b a).
Proof.
  unfold q_ltb, q_eqb. rewrite <- (Qcompare_antisym a b).
  destruct (Qcompare_spec a b) as [H|H|H]; cbn.
  - right. left. repeat split. apply Qeq_bool_iff. exact H.
  - left. repeat split. destruct (Qeq_bool a b) eqn:E; [|reflexivity].
    apply Qeq_bool_iff in E. rewrite E in H. exfalso. eapply Qlt_irrefl; eauto.
  - right. right. repeat split. destruct (Qeq_bool a b) eqn:E; [|reflexivity].
    apply Qeq_bool_iff in E. rewrite E in H. exfalso. eapply Qlt_irrefl; eauto.
Qed.

Lemma z_trichotomy a b : one_of3 (a <? b) (a =? b) (b <? a).
Proof.
  destruct (Z.ltb_spec a b); destruct (Z.ltb_spec b a); destruct (Z.eqb_spec a b); try lia.
  - left. auto.
  - right. right. auto.
  - right. left. auto.
Qed.

(* scalars that can be keys of one comparison class *)
Definition same_class (a b : pyval) : Prop :=
  match a, b with
  | VStr _, VStr _ => True
  | (VBool _ | VInt _ | VFloat _), (VBool _ | VInt _ | VFloat _) => True
  | _, _ => False
  end.

Lemma scalar_trichotomy a b : same_class a b ->
  exists x z, py_lt a b = Ok x /\ py_lt b a = Ok z /\ one_of3 x (py_eq a b) z.
Proof.
  destruct a, b; cbn [same_class]; try contradiction; intros _;
    cbn [py_lt scalar_lt py_eq as_num num_q];
    try (eexists; eexists; split; [reflexivity|split; [reflexivity|]]);
    try apply z_trichotomy; try apply q_trichotomy; try apply str_trichotomy.
Qed.

Lemma q_eqb_sym a b : q_eqb a b = q_eqb b a.
Proof.
  unfold q_eqb. destruct (Qeq_bool a b) eqn:E1; destruct (Qeq_bool b a) eqn:E2; try reflexivity.
  - apply Qeq_bool_iff in E1. symmetry in E1. apply Qeq_bool_iff in E1. congruence.
  - apply Qeq_bool_iff in E2. symmetry in E2. apply Qeq_bool_iff in E2. congruence.
Qed.

Lemma py_eq_sym_scalar a b : same_class a b -> py_eq b a = py_eq a b.
Proof.
  destruct a, b; cbn [same_class]; try contradiction; intros _;
    cbn [py_eq as_num num_q]; first [apply Z.eqb_sym | apply str_eqb_sym | apply q_eqb_sym].
Qed.

Lemma key_trichotomy ta va tb vb : (ta = tb -> same_class va vb) ->
  exists x z, key_lt true (ta, va) (tb, vb) = Ok x /\ key_lt true (tb, vb) (ta, va) = Ok z
              /\ one_of3 x (key_eq (ta, va) (tb, vb)) z.
Proof.
  intros Hc. unfold key_lt, key_eq.
  destruct (Z.eqb_spec ta tb) as [->|Hne].
  - rewrite Z.eqb_refl. cbn [negb andb].
    destruct (scalar_trichotomy va vb (Hc eq_refl)) as (x & z & Hx & Hz & H3).
    rewrite (py_eq_sym_scalar va vb (Hc eq_refl)). destruct (py_eq va vb) eqn:E.
    + exists false, false. repeat split. right. left. auto.
    + exists x, z. rewrite Hx, Hz. repeat split. exact H3.
  - replace (tb =? ta) with false by (symmetry; apply Z.eqb_neq; lia).
    replace (ta =? tb) with false by (symmetry; apply Z.eqb_neq; lia). cbn [negb andb].
    exists (ta <? tb), (tb <? ta). repeat split.
    destruct (z_trichotomy ta tb) as [H|[H|H]]; destruct H as (H1 & H2 & H3).
    + left. auto.
    + apply Z.eqb_eq in H2. contradiction.
    + right. right. auto.
Qed.

(* <= and >= in terms of the strict order and equality *)
Lemma key_le_split ta va tb vb x : (ta = tb -> same_class va vb) ->
  key_lt true (ta, va) (tb, vb) = Ok x ->
  key_lt false (ta, va) (tb, vb) = Ok (x || key_eq (ta, va) (tb, vb)).
Proof.
  intros Hc. unfold key_lt, key_eq.
  destruct (Z.eqb_spec ta tb) as [->|Hne]; cbn [negb andb].
  - destruct (py_eq va vb) eqn:E.
    + intros H. injection H as <-. reflexivity.
    + intros ->. rewrite orb_false_r. reflexivity.
  - intros H. injection H as <-. rewrite orb_false_r. reflexivity.
Qed.

(* the six comparison operators on one pair of keys: <, =, > exclusive and
   exhaustive; <>, <=, >= their complements *)
Lemma cmp_ops_consistent ka kb :
  (fst ka = fst kb -> same_class (snd ka) (snd kb)) ->
  exists lt eq gt,
    cmp_apply Lt ka kb = Ok (VBool lt) /\ cmp_apply Eq ka kb = Ok (VBool eq)
    /\ cmp_apply Gt ka kb = Ok (VBool gt) /\ one_of3 lt eq gt
    /\ cmp_apply NotEq ka kb = Ok (VBool (negb eq))
    /\ cmp_apply LtE ka kb = Ok (VBool (negb gt))
    /\ cmp_apply GtE ka kb = Ok (VBool (negb lt)).
Proof.
  destruct ka as [ta va], kb as [tb vb]. cbn [fst snd]. intros Hc.
  destruct (key_trichotomy ta va tb vb Hc) as (x & z & Hx & Hz & H3).
  assert (Hc' : tb = ta -> same_class vb va).
  { intros E. specialize (Hc (eq_sym E)). destruct va, vb; cbn [same_class] in *; auto. }
  assert (Heq : key_eq (tb, vb) (ta, va) = key_eq (ta, va) (tb, vb)).
  { unfold key_eq. rewrite (Z.eqb_sym tb ta).
    destruct (Z.eqb_spec ta tb) as [E|E]; cbn [andb]; [|reflexivity].
    apply py_eq_sym_scalar. auto. }
  exists x, (key_eq (ta, va) (tb, vb)), z.
  cbn [cmp_apply]. rewrite Hx, Hz. cbn [bind].
  rewrite (key_le_split ta va tb vb x Hc Hx), (key_le_split tb vb ta va z Hc' Hz), Heq. cbn [bind].
  repeat split; try exact H3;
    destruct H3 as [(-> & -> & ->)|[(-> & -> & ->)|(-> & -> & ->)]]; reflexivity.
Qed.

(* ------------------------------------- comparisons through fixup *)
Definition scalar (v : pyval) : Prop :=
  match v with VNone | VBool _ | VInt _ | VFloat _ | VStr _ => True | _ => False end.

Lemma fixup_cmp l o r ks : is_cmp o = true ->
  in_error_codes l = Ok false -> in_error_codes r = Ok false ->
  cmp_keys l r = Ok ks -> fixup l o r = cmp_apply o (fst ks) (snd ks).
Proof.
  intros Ho Hl Hr Hk. unfold fixup. rewrite Hl. cbn [bind]. rewrite Hr. cbn [bind].
  rewrite Ho, Hk. reflexivity.
Qed.

Ltac tcv_unfold :=
  unfold excelutil.f_type_cmp_value, excelutil.c_ERROR_CODES, excelutil.c_EMPTY.

(* type_cmp_value on each kind of scalar *)
Lemma tcv_int n : excelutil.f_type_cmp_value (VInt n) = Ok (VTuple [VInt 0; VFloat 0]).
Proof. tcv_unfold. py_run. reflexivity. Qed.
Lemma tcv_float q : excelutil.f_type_cmp_value (VFloat q) = Ok (VTuple [VInt 0; VFloat 0]).
Proof. tcv_unfold. py_run. reflexivity. Qed.
Lemma tcv_none : excelutil.f_type_cmp_value VNone = Ok (VTuple [VInt 0; VFloat 0]).
Proof. tcv_unfold. py_run. reflexivity. Qed.
Lemma tcv_bool b : excelutil.f_type_cmp_value (VBool b) = Ok (VTuple [VInt 2; VBool false]).
Proof. tcv_unfold. py_run. reflexivity. Qed.
Lemma tcv_str s : in_error_codes (VStr s) = Ok false ->
  excelutil.f_type_cmp_value (VStr s) = Ok (VTuple [VInt 1; VStr []]).
Proof.
  unfold in_error_codes. intros H. unfold excelutil.f_type_cmp_value.
  cbn [bind]. rewrite H. py_run. reflexivity.
Qed.

Definition key_ok (k : Z * pyval) : Prop :=
  match k with
  | (t, VInt _) | (t, VFloat _) => t = 0
  | (t, VStr _) => t = 1
  | (t, VBool _) => t = 2
  | _ => False
  end.

Lemma key_ok_class ka kb : key_ok ka -> key_ok kb ->
  fst ka = fst kb -> same_class (snd ka) (snd kb).
Proof.
  destruct ka as [ta [| | | | | | | | |]], kb as [tb [| | | | | | | | |]];
    cbn [key_ok fst snd same_class]; intros; subst; try contradiction; try lia; exact I.
Qed.

Lemma str_lower_shape s w : str_lower (VStr s) = Ok w -> exists s', w = VStr s'.
Proof.
  unfold str_lower. destruct (non_ascii s); [destruct (case_ok s)|]; intros H;
    try discriminate; injection H as <-; eauto.
Qed.

(* the key of a non-blank, non-error scalar *)
Lemma cmp_key_ok v k : scalar v -> v <> VNone -> in_error_codes v = Ok false ->
  excel_cmp_key v = Ok k -> key_ok k.
Proof.
  intros Hs Hn He. unfold excel_cmp_key.
  destruct v; cbn [scalar] in Hs; try contradiction; try congruence.
  - rewrite tcv_bool. cbn [bind]. py_run. intros H. injection H as <-. reflexivity.
  - rewrite tcv_int. cbn [bind]. py_run. intros H. injection H as <-. reflexivity.
  - rewrite tcv_float. cbn [bind]. py_run. intros H. injection H as <-. reflexivity.
  - rewrite (tcv_str s He). cbn [bind]. py_run.
    destruct (str_lower (VStr s)) as [w|e] eqn:E; cbn [bind]; [|discriminate].
    destruct (str_lower_shape s w E) as (s' & ->). intros H. injection H as <-. reflexivity.
Qed.

Lemma tcv_shape v : scalar v -> in_error_codes v = Ok false ->
  exists t d, excelutil.f_type_cmp_value v = Ok (VTuple [VInt t; d])
              /\ scalar d /\ d <> VNone /\ in_error_codes d = Ok false.
Proof.
  intros Hs He. destruct v; cbn [scalar] in Hs; try contradiction.
  - exists 0, (VFloat 0). rewrite tcv_none. repeat split; discriminate.
  - exists 2, (VBool false). rewrite tcv_bool. repeat split; discriminate.
  - exists 0, (VFloat 0). rewrite tcv_int. repeat split; discriminate.
  - exists 0, (VFloat 0). rewrite tcv_float. repeat split; discriminate.
  - exists 1, (VStr []). rewrite (tcv_str s He). repeat split; discriminate.
Qed.

Lemma not_blank_not_none v : is_blank v = false -> v <> VNone.
Proof. intros H ->. discriminate. Qed.

Lemma cmp_keys_ok l r kl kr : scalar l -> scalar r ->
  in_error_codes l = Ok false -> in_error_codes r = Ok false ->
  cmp_keys l r = Ok (kl, kr) -> key_ok kl /\ key_ok kr.
Proof.
  intros Hsl Hsr Hel Her. unfold cmp_keys.
  destruct (tcv_shape r Hsr Her) as (tr & dr & Htr & Hdr1 & Hdr2 & Hdr3).
  rewrite Htr. cbn [bind].
  assert (Hl1 : exists l1, (if is_blank l then py_getitem (VTuple [VInt tr; dr]) (VInt 1) else Ok l) = Ok l1
                           /\ scalar l1 /\ l1 <> VNone /\ in_error_codes l1 = Ok false).
  { destruct (is_blank l) eqn:Eb.
    - exists dr. cbn [py_getitem as_index]. rewrite index_nth_1. auto.
    - exists l. repeat split; auto. apply not_blank_not_none. exact Eb. }
  destruct Hl1 as (l1 & -> & Hs1 & Hn1 & He1). cbn [bind].
  destruct (tcv_shape l1 Hs1 He1) as (tl & dl & Htl & Hdl1 & Hdl2 & Hdl3).
  rewrite Htl. cbn [bind].
  assert (Hr1 : exists r1, (if is_blank r then py_getitem (VTuple [VInt tl; dl]) (VInt 1) else Ok r) = Ok r1
                           /\ scalar r1 /\ r1 <> VNone /\ in_error_codes r1 = Ok false).
  { destruct (is_blank r) eqn:Eb.
    - exists dl. cbn [py_getitem as_index]. rewrite index_nth_1. auto.
    - exists r. repeat split; auto. apply not_blank_not_none. exact Eb. }
  destruct Hr1 as (r1 & -> & Hs2 & Hn2 & He2). cbn [bind].
  destruct (excel_cmp_key l1) as [k1|e] eqn:E1; cbn [bind]; [|discriminate].
  destruct (excel_cmp_key r1) as [k2|e] eqn:E2; cbn [bind]; [|discriminate].
  intros H. injection H as <- <-.
  split; [apply (cmp_key_ok l1 k1 Hs1 Hn1 He1 E1) | apply (cmp_key_ok r1 k2 Hs2 Hn2 He2 E2)].
Qed.

(* The six comparison operators on any two non-error scalars (blank included)
   are consistent: exactly one of <, =, > and the others their complements. *)
Lemma trichotomy l r ks : scalar l -> scalar r ->
  in_error_codes l = Ok false -> in_error_codes r = Ok false ->
  cmp_keys l r = Ok ks ->
  exists lt eq gt,
    fixup l Lt r = Ok (VBool lt) /\ fixup l Eq r = Ok (VBool eq) /\ fixup l Gt r = Ok (VBool gt)
    /\ one_of3 lt eq gt
    /\ fixup l NotEq r = Ok (VBool (negb eq))
    /\ fixup l LtE r = Ok (VBool (negb gt))
    /\ fixup l GtE r = Ok (VBool (negb lt)).
Proof.
  intros Hsl Hsr Hel Her Hk. destruct ks as [kl kr].
  destruct (cmp_keys_ok l r kl kr Hsl Hsr Hel Her Hk) as [Hkl Hkr].
  destruct (cmp_ops_consistent kl kr (key_ok_class kl kr Hkl Hkr))
    as (lt & eq & gt & H1 & H2 & H3 & H4 & H5 & H6 & H7).
  exists lt, eq, gt.
  rewrite !(fixup_cmp l _ r (kl, kr)) by (auto; reflexivity). cbn [fst snd]. auto 10.
Qed.

(* the only way the comparison of two non-error scalars is not defined is a
   character whose case mapping is outside the model *)
Lemma cmp_keys_total l r : scalar l -> scalar r ->
  in_error_codes l = Ok false -> in_error_codes r = Ok false ->
  (exists ks, cmp_keys l r = Ok ks) \/ cmp_keys l r = Raise Unmodelled.
Proof.
  intros Hsl Hsr Hel Her. unfold cmp_keys.
  destruct (tcv_shape r Hsr Her) as (tr & dr & Htr & Hdr1 & Hdr2 & Hdr3).
  rewrite Htr. cbn [bind].
  assert (Hl1 : exists l1, (if is_blank l then py_getitem (VTuple [VInt tr; dr]) (VInt 1) else Ok l) = Ok l1
                           /\ scalar l1 /\ l1 <> VNone /\ in_error_codes l1 = Ok false).
  { destruct (is_blank l) eqn:Eb.
    - exists dr. cbn [py_getitem as_index]. rewrite index_nth_1. auto.
    - exists l. repeat split; auto. apply not_blank_not_none. exact Eb. }
  destruct Hl1 as (l1 & -> & Hs1 & Hn1 & He1). cbn [bind].
  destruct (tcv_shape l1 Hs1 He1) as (tl & dl & Htl & Hdl1 & Hdl2 & Hdl3).
  rewrite Htl. cbn [bind].
  assert (Hr1 : exists r1, (if is_blank r then py_getitem (VTuple [VInt tl; dl]) (VInt 1) else Ok r) = Ok r1
                           /\ scalar r1 /\ r1 <> VNone /\ in_error_codes r1 = Ok false).
  { destruct (is_blank r) eqn:Eb.
    - exists dl. cbn [py_getitem as_index]. rewrite index_nth_1. auto.
    - exists r. repeat split; auto. apply not_blank_not_none. exact Eb. }
  destruct Hr1 as (r1 & -> & Hs2 & Hn2 & He2). cbn [bind].
  assert (Hkey : forall v, scalar v -> v <> VNone -> in_error_codes v = Ok false ->
                 (exists k, excel_cmp_key v = Ok k) \/ excel_cmp_key v = Raise Unmodelled).
  { intros v Hs Hn He. unfold excel_cmp_key.
    destruct v; cbn [scalar] in Hs; try contradiction; try congruence.
    - rewrite tcv_bool. cbn [bind]. py_run. eauto.
    - rewrite tcv_int. cbn [bind]. py_run. eauto.
    - rewrite tcv_float. cbn [bind]. py_run. eauto.
    - rewrite (tcv_str s He). cbn [bind]. py_run. unfold str_lower.
      destruct (non_ascii s); [destruct (case_ok s)|]; cbn [bind]; eauto. }
  destruct (Hkey l1 Hs1 Hn1 He1) as [(k1 & ->)| ->]; cbn [bind]; [|auto].
  destruct (Hkey r1 Hs2 Hn2 He2) as [(k2 & ->)| ->]; cbn [bind]; [|auto].
  left. eauto.
Qed.

(* ------------------------------------------ numbers < text < logicals *)
Lemma num_lt_text n s w : in_error_codes (VStr s) = Ok false -> is_blank (VStr s) = false ->
  str_lower (VStr s) = Ok w -> fixup (VInt n) Lt (VStr s) = Ok (VBool true).
Proof.
  intros He Hb Hw.
  assert (Hk : cmp_keys (VInt n) (VStr s) = Ok ((0, VInt n), (1, w))).
  { unfold cmp_keys, excel_cmp_key. rewrite (tcv_str s He). cbn [bind].
    replace (is_blank (VInt n)) with false by reflexivity. cbn [bind].
    rewrite tcv_int. cbn [bind]. rewrite Hb. cbn [bind]. rewrite (tcv_str s He). cbn [bind]. py_run.
    rewrite Hw. reflexivity. }
  rewrite (fixup_cmp (VInt n) Lt (VStr s) _ eq_refl eq_refl He Hk). reflexivity.
Qed.
Lemma text_lt_bool s w b : in_error_codes (VStr s) = Ok false -> is_blank (VStr s) = false ->
  str_lower (VStr s) = Ok w -> fixup (VStr s) Lt (VBool b) = Ok (VBool true).
Proof.
  intros He Hb Hw.
  assert (Hk : cmp_keys (VStr s) (VBool b) = Ok ((1, w), (2, VBool b))).
  { unfold cmp_keys, excel_cmp_key. rewrite tcv_bool. cbn [bind]. rewrite Hb.
    cbn [bind]. rewrite (tcv_str s He). cbn [bind].
    replace (is_blank (VBool b)) with false by (destruct b; reflexivity).
    cbn [bind]. rewrite tcv_bool. cbn [bind]. py_run. rewrite Hw. reflexivity. }
  rewrite (fixup_cmp (VStr s) Lt (VBool b) _ eq_refl He eq_refl Hk). reflexivity.
Qed.
Lemma num_lt_bool n b : fixup (VInt n) Lt (VBool b) = Ok (VBool true).
Proof. destruct b; ops_run; reflexivity. Qed.

(* blank equals the neutral value of every type *)
Lemma blank_eq_zero : fixup VNone Eq (VInt 0) = Ok (VBool true).
Proof. ops_run. reflexivity. Qed.
Lemma blank_eq_empty_text : fixup VNone Eq (VStr []) = Ok (VBool true).
Proof. ops_run. reflexivity. Qed.
Lemma blank_eq_false : fixup VNone Eq (VBool false) = Ok (VBool true).
Proof. ops_run. reflexivity. Qed.
Lemma blank_eq_blank : fixup VNone Eq VNone = Ok (VBool true).
Proof. ops_run. reflexivity. Qed.

(* text comparison ignores case (ASCII) *)
Lemma text_eq_ignores_case a b :
  in_error_codes (VStr a) = Ok false -> in_error_codes (VStr b) = Ok false ->
  is_blank (VStr a) = false -> is_blank (VStr b) = false ->
  non_ascii a = false -> non_ascii b = false ->
  fixup (VStr a) Eq (VStr b) = Ok (VBool (str_eqb (map ascii_lower a) (map ascii_lower b))).
Proof.
  intros Ha Hb Hba Hbb Hna Hnb.
  assert (Hk : cmp_keys (VStr a) (VStr b)
               = Ok ((1, VStr (map ascii_lower a)), (1, VStr (map ascii_lower b)))).
  { unfold cmp_keys, excel_cmp_key. rewrite (tcv_str b Hb). cbn [bind]. rewrite Hba. cbn [bind].
    rewrite (tcv_str a Ha). cbn [bind]. rewrite Hbb. cbn [bind].
    rewrite (tcv_str b Hb). cbn [bind]. py_run.
    unfold str_lower. rewrite Hna, Hnb. reflexivity. }
  rewrite (fixup_cmp (VStr a) Eq (VStr b) _ eq_refl Ha Hb Hk). reflexivity.
Qed.

(* ------------------------------------------------------ concatenation *)
Lemma concat_text a b :
  in_error_codes (VStr a) = Ok false -> in_error_codes (VStr b) = Ok false ->
  is_blank (VStr a) = false -> is_blank (VStr b) = false ->
  fixup (VStr a) BitAnd (VStr b) = Ok (VStr (a ++ b)).
Proof.
  intros Ha Hb Hba Hbb. unfold fixup. rewrite Ha. cbn [bind]. rewrite Hb. cbn [bind is_cmp].
  unfold concat_render. rewrite Hba, Hbb. reflexivity.
Qed.
Lemma concat_int_text n b :
  in_error_codes (VStr b) = Ok false -> is_blank (VStr b) = false ->
  fixup (VInt n) BitAnd (VStr b) = Ok (VStr (str_of_Z n ++ b)).
Proof.
  intros Hb Hbb. unfold fixup.
  replace (in_error_codes (VInt n)) with (@Ok bool false) by reflexivity.
  cbn [bind]. rewrite Hb. cbn [bind is_cmp]. unfold concat_render. rewrite Hbb.
  replace (is_blank (VInt n)) with false by reflexivity.
  unfold py_fuel. ops_cbn. py_run. reflexivity.
Qed.
Lemma concat_bool_blank b :
  fixup (VBool b) BitAnd VNone
  = Ok (VStr (if b then [84; 82; 85; 69] else [70; 65; 76; 83; 69])).
Proof. destruct b; ops_run; reflexivity. Qed.
Lemma concat_blank_blank : fixup VNone BitAnd VNone = Ok (VStr []).
Proof. ops_run. reflexivity. Qed.
