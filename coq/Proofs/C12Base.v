(* Proofs/C12Base.v — C12, part 1: close_enough is reflexive on Excel scalars
   (positive or absent tolerance); the report dictionary; [_evaluate] on a cell
   whose precedents are all filled; the value invariant [K] of the validate
   loop and its preservation by [build] (_gen_graph) and by [recalc]
   (cell.value = None; evaluate) — for workbooks whose stored results need NOT
   be consistent (so the C01 coherence invariant is not available: it is
   replaced by "every node whose ancestors have consistent stored results holds
   its from-scratch value"). *)
From Coq Require Import List Arith Bool Lia ZArith QArith Qabs.
From PV Require Import Lib.Py Model.Graph Model.Validate.
From PV Require Import Proofs.C01Base Proofs.C01Eval Proofs.C01Inv.
Import ListNotations.
Local Open Scope nat_scope.

(* ------------------------------------------------------------ close_enough *)
Lemma str_eqb_refl s : str_eqb s s = true.
Proof. induction s as [|x s IH]; cbn; auto. rewrite Z.eqb_refl. exact IH. Qed.

(* an Excel scalar that is present: logical, number, text (error values are text) *)
Definition is_scalar (v : pyval) : bool :=
  match v with VBool _ | VInt _ | VFloat _ | VStr _ => true | _ => false end.

(* tolerance=None, or a positive tolerance *)
Definition tol_pos (tol : option Q) : Prop :=
  match tol with None => True | Some t => (0 < t)%Q end.

Lemma q_eqb_refl a : q_eqb a a = true.
Proof. unfold q_eqb. apply Qeq_bool_iff. reflexivity. Qed.

Lemma q_ltb_true a b : (a < b)%Q -> q_ltb a b = true.
Proof. unfold q_ltb. intros H. now rewrite (proj1 (Qlt_alt a b) H). Qed.

Lemma close_num_refl tol a : tol_pos tol ->
  match tol with
  | Some t => q_ltb (Qabs (a - a)) ((1 + rel_default) * t)
  | None => if negb (q_is_zero a) && negb (q_is_zero a) then q_isclose a a rel_default 0
            else q_isclose a a (1 # 1000000000) (1 # 100000000)
  end = true.
Proof.
  intros TP. destruct tol as [t|].
  - apply q_ltb_true.
    assert (E: (Qabs (a - a) == 0)%Q).
    { assert (E0: (a - a == 0)%Q) by ring. rewrite E0. reflexivity. }
    rewrite E. apply Qmult_lt_0_compat; [reflexivity|exact TP].
  - unfold q_isclose. rewrite q_eqb_refl. destruct (negb (q_is_zero a) && negb (q_is_zero a)); reflexivity.
Qed.

Lemma close_enough_refl tol v : tol_pos tol -> is_scalar v = true -> close_enough tol v v = true.
Proof.
  intros TP S. destruct v; try discriminate; unfold close_enough; cbn [as_num].
  1-3: apply close_num_refl; auto.
  cbn. apply str_eqb_refl.
Qed.

(* ------------------------------------------------------------------ report *)
Lemma rep_get_set r n x m :
  rep_get (rep_set r n x) m = if Nat.eqb m n then Some x else rep_get r m.
Proof.
  induction r as [|[k y] r IH]; cbn [rep_set rep_get].
  - rewrite Nat.eqb_sym. reflexivity.
  - destruct (Nat.eqb_spec k n) as [->|NE]; cbn [rep_get].
    + destruct (Nat.eqb_spec n m) as [->|NE']; [now rewrite Nat.eqb_refl|].
      destruct (Nat.eqb_spec m n); [congruence|reflexivity].
    + destruct (Nat.eqb_spec k m) as [->|NE'].
      * destruct (Nat.eqb_spec m n); [congruence|reflexivity].
      * exact IH.
Qed.

Lemma rep_none_nil r : (forall n, rep_get r n = None) -> r = [].
Proof.
  destruct r as [|[k y] r]; auto. intros H. specialize (H k). cbn in H.
  rewrite Nat.eqb_refl in H. discriminate.
Qed.

(* ---------------------------------------------------------------- verified *)
Lemma mem_cons m n v : mem m (n :: v) = Nat.eqb m n || mem m v.
Proof. reflexivity. Qed.
Lemma mem_vadd m n v : mem m (vadd n v) = Nat.eqb m n || mem m v.
Proof.
  unfold vadd. destruct (mem n v) eqn:E; [|apply mem_cons].
  destruct (Nat.eqb_spec m n) as [->|NE]; auto.
Qed.
Lemma mem_vadd_same n v : mem n (vadd n v) = true.
Proof. now rewrite mem_vadd, Nat.eqb_refl. Qed.
Lemma vadd_idem n v : vadd n (vadd n v) = vadd n v.
Proof. unfold vadd at 1. now rewrite mem_vadd_same. Qed.
Lemma mem_vadd_other m n v : m <> n -> mem m (vadd n v) = mem m v.
Proof. intros NE. rewrite mem_vadd. destruct (Nat.eqb_spec m n); [congruence|reflexivity]. Qed.

Section Filled.
  Variable W : workbook.
  Variable sem : nat -> list pyval -> pyval.

  Notation N := (wb_n W).
  Notation deps := (wb_deps W).
  Notation isinput := (wb_input W).
  Notation isrange := (wb_range W).
  Notation stored := (wb_stored W).
  Notation eval := (eval W sem).

  (* ------------------------------------ _evaluate when all precedents are filled *)
  Definition filled (c : cache) (d : nat) : Prop := isinput d = true \/ c d <> VNone.

  Lemma eval_cached f c d : filled c d -> eval (S f) c d = (c, c d).
  Proof.
    intros [I|H]; rewrite eval_unfold.
    - now rewrite I.
    - destruct (isinput d); auto. apply is_none_false in H. now rewrite H.
  Qed.

  Lemma estep_cached f c vs d : filled c d -> estep W sem (S f) (c, vs) d = (c, vs ++ [c d]).
  Proof. intros H. unfold estep. now rewrite eval_cached. Qed.

  Lemma efold_filled f c : forall l vs, (forall d, In d l -> filled c d) ->
    fold_left (estep W sem (S f)) l (c, vs) = (c, vs ++ map c l).
  Proof.
    induction l as [|d l IH]; intros vs H; cbn [fold_left map].
    - now rewrite app_nil_r.
    - rewrite estep_cached by (apply H; left; auto).
      rewrite IH by (intros; apply H; right; auto). now rewrite <- app_assoc.
  Qed.

  Lemma eval_filled f c n : isinput n = false -> c n = VNone ->
    (forall d, In d (deps n) -> filled c d) ->
    eval (S (S f)) c n = (upd c n (sem n (map c (deps n))), sem n (map c (deps n))).
  Proof.
    intros I E H. rewrite eval_unfold, I, E. cbn [is_none].
    rewrite efold_filled by auto. reflexivity.
  Qed.

  (* --------------------------- _gen_graph of an address that is already built *)
  Lemma build_noop s n : st_built s n = true ->
    st_built (build W sem s n) = st_built s /\
    forall m, st_cache (build W sem s n) m = st_cache s m.
  Proof.
    intros B. rewrite build_unfold. cbn zeta. rewrite closure_unfold, B.
    cbn [st_built st_cache]. split; auto.
    assert (F: forall m, fresh s (st_built s) m = false).
    { intros m. unfold fresh. destruct (st_built s m); auto. }
    assert (G: forall l c, fold_left (bstep W sem s (st_built s)) l c = c).
    { induction l as [|x l IH]; intros c; cbn [fold_left]; auto.
      unfold bstep at 2. rewrite F. cbn [andb]. auto. }
    intros m. rewrite G. unfold build_c1. rewrite F. reflexivity.
  Qed.

  Hypothesis WF : wf W.
  Hypothesis NB : sem_nonblank W sem.

  Notation sp := (spec W sem (wb_inp0 W)).
  Notation anc := (anc W).

  (* ----------------------------------------------- consistent stored results *)
  (* the stored result of a formula cell is its from-scratch value *)
  Definition good (b : nat) : Prop := b < N -> is_fcell W b = true -> stored b = sp b.
  (* n and all its ancestors have consistent stored results *)
  Definition clean (n : nat) : Prop := forall b, b = n \/ anc b n -> good b.
  (* all strict ancestors of n have consistent stored results *)
  Definition semiclean (n : nat) : Prop := forall b, anc b n -> good b.
  (* every formula cell has a stored result (a file saved by Excel) *)
  Definition stored_full : Prop := forall n, n < N -> is_fcell W n = true -> stored n <> VNone.

  Lemma clean_semiclean n : clean n -> semiclean n.
  Proof. intros C b A. apply C. now right. Qed.
  Lemma semiclean_dep n d : semiclean n -> In d (deps n) -> clean d.
  Proof.
    intros C Hd b [->|A]; apply C.
    - now constructor.
    - eapply anc_trans; eauto.
  Qed.
  Lemma clean_dep n d : clean n -> In d (deps n) -> clean d.
  Proof. intros C. apply semiclean_dep. now apply clean_semiclean. Qed.

  Lemma sem_sp c n : n < N -> isinput n = false ->
    (forall d, In d (deps n) -> c d = sp d) -> sem n (map c (deps n)) = sp n.
  Proof.
    intros L I H. rewrite (spec_unfold W sem WF _ n L), I. f_equal.
    apply map_ext_in. exact H.
  Qed.

  (* ------------------------------------------------------- the value invariant *)
  Record K (s : state) : Prop := {
    k_lt : forall n, st_built s n = true -> n < N;
    k_deps : forall n d, st_built s n = true -> In d (deps n) -> st_built s d = true;
    k_inp : forall m, isinput m = true -> st_cache s m = wb_inp0 W m;
    (* between two iterations no built formula/range node is empty *)
    k_full : forall n, st_built s n = true -> isinput n = false -> st_cache s n <> VNone;
    (* a node whose stored result and whose ancestors' stored results are
       consistent holds its from-scratch value *)
    k_clean : forall n, st_built s n = true -> isinput n = false -> clean n -> st_cache s n = sp n
  }.

  Lemma K_init : K (init W).
  Proof.
    split; cbn [init st_built st_cache]; try discriminate.
    intros m I. now rewrite I.
  Qed.

  Lemma K_val s d : K s -> st_built s d = true -> clean d -> st_cache s d = sp d.
  Proof.
    intros Ks B C. destruct (isinput d) eqn:I.
    - rewrite (k_inp s Ks d I). symmetry. apply (spec_input W sem WF); auto. apply (k_lt s Ks d B).
    - apply (k_clean s Ks); auto.
  Qed.

  Lemma K_filled s d : K s -> st_built s d = true -> filled (st_cache s) d.
  Proof.
    intros Ks B. destruct (isinput d) eqn:I; [left; auto|right]. apply (k_full s Ks); auto.
  Qed.

  (* -------------------------------------------------------------------- build *)
  Lemma c1_facts s b' : K s -> stored_full ->
    forall m, b' m = true -> m < N -> isinput m = false -> fresh s b' m && isrange m = false ->
      build_c1 W s b' m <> VNone /\ (clean m -> build_c1 W s b' m = sp m).
  Proof.
    intros Ks SF m Bm Lm Im Fr. unfold build_c1. rewrite Im. cbn [negb]. rewrite andb_true_r.
    destruct (fresh s b' m) eqn:F.
    - cbn [andb] in Fr. rewrite Fr.
      assert (FC: is_fcell W m = true) by (unfold is_fcell; now rewrite Im, Fr).
      split; [apply SF; auto|]. intros C. apply (C m); auto.
    - assert (B: st_built s m = true).
      { unfold fresh in F. rewrite Bm in F. cbn [andb] in F. now apply negb_false_iff in F. }
      split; [apply (k_full s Ks); auto|apply (k_clean s Ks); auto].
  Qed.

  Lemma bstep_eq s b' c m : bstep W sem s b' c m =
    if fresh s b' m && isrange m then fst (eval (S N) c m) else c.
  Proof. reflexivity. Qed.

  Lemma bfold_K s b' : K s -> stored_full ->
    (forall m, b' m = true -> m < N) ->
    (forall m d, b' m = true -> In d (deps m) -> b' d = true) ->
    forall len a c, a + len = N ->
      (forall m, fresh s b' m && isrange m = false -> c m = build_c1 W s b' m) ->
      (forall m, fresh s b' m && isrange m = true -> m < a ->
                 c m <> VNone /\ (clean m -> c m = sp m)) ->
      (forall m, fresh s b' m && isrange m = true -> a <= m -> c m = VNone) ->
      let c' := fold_left (bstep W sem s b') (seq a len) c in
      (forall m, fresh s b' m && isrange m = false -> c' m = build_c1 W s b' m) /\
      (forall m, fresh s b' m && isrange m = true -> c' m <> VNone /\ (clean m -> c' m = sp m)).
  Proof.
    intros Ks SF BL BD. induction len as [|len IH]; intros a c E P1 P2 P3; cbn [seq fold_left].
    - split; auto. intros m Fr. apply P2; auto.
      apply andb_prop in Fr. destruct Fr as [Fm _]. unfold fresh in Fm.
      apply andb_prop in Fm. destruct Fm as [Bm _]. pose proof (BL m Bm). lia.
    - assert (La: a < N) by lia.
      destruct (fresh s b' a && isrange a) eqn:Fa.
      2:{ rewrite (bstep_eq s b' c a), Fa. apply IH; auto; [lia| |].
          - intros m Fr Lm. apply P2; auto.
            assert (m <> a) by (intros ->; congruence). lia.
          - intros m Fr Lm. apply P3; auto. lia. }
      (* a fresh range node: all its members are filled *)
      pose proof Fa as Fa'. apply andb_prop in Fa'. destruct Fa' as [Fra Ra].
      assert (Ba: b' a = true) by (unfold fresh in Fra; apply andb_prop in Fra; tauto).
      assert (Ia: isinput a = false) by (apply (range_noninput W WF); auto).
      assert (Dv: forall d, In d (deps a) -> filled c d /\ (clean d -> c d = sp d)).
      { intros d Hd. pose proof (deps_lt W WF a d La Hd) as Ld.
        assert (Bd: b' d = true) by (eapply BD; eauto).
        assert (LdN: d < N) by lia.
        destruct (isinput d) eqn:Id.
        - split; [left; auto|]. intros _.
          assert (Rd: isrange d = false).
          { destruct (isrange d) eqn:Rd; auto.
            rewrite (range_noninput W WF d LdN Rd) in Id. discriminate. }
          rewrite P1 by (rewrite Rd; apply andb_false_r).
          rewrite (build_c1_input W s b' d Id), (k_inp s Ks d Id).
          symmetry. apply (spec_input W sem WF); auto.
        - destruct (fresh s b' d && isrange d) eqn:Fr.
          + destruct (P2 d Fr Ld) as [A B]. split; [right; auto|auto].
          + unfold filled. rewrite (P1 d Fr). destruct (c1_facts s b' Ks SF d Bd LdN Id Fr) as [A B].
            split; [right; auto|auto]. }
      set (v := sem a (map c (deps a))).
      assert (Ev: fst (eval (S N) c a) = upd c a v).
      { replace (S N) with (S (S (N - 1))) by lia.
        rewrite (eval_filled (N - 1) c a Ia (P3 a Fa (le_n a)) (fun d Hd => proj1 (Dv d Hd))).
        reflexivity. }
      rewrite (bstep_eq s b' c a), Fa, Ev. apply IH; [lia| | |].
      + intros m Fr. assert (m <> a) by (intros ->; congruence).
        rewrite upd_other by auto. auto.
      + intros m Fr Lm. destruct (Nat.eq_dec m a) as [->|NE].
        * rewrite upd_same. split; [apply NB; auto|].
          intros C. apply sem_sp; auto. intros d Hd. apply Dv; auto.
          eapply clean_dep; eauto.
        * rewrite upd_other by auto. apply P2; auto. lia.
      + intros m Fr Lm. rewrite upd_other by lia. apply P3; auto. lia.
  Qed.

  Lemma build_K s n : stored_full -> K s -> n < N ->
    let s' := build W sem s n in
    K s' /\ st_built s' n = true
    /\ (forall m, st_built s m = true -> st_built s' m = true /\ st_cache s' m = st_cache s m)
    /\ (forall m, st_built s m = false -> st_built s' m = true -> is_fcell W m = true ->
                  st_cache s' m = stored m).
  Proof.
    intros SF Ks L. rewrite build_unfold. cbn zeta.
    set (b' := closure W (S N) (st_built s) n).
    destruct (closure_props W WF (st_built s) n L (k_lt s Ks) (k_deps s Ks)) as (C1 & C2 & C3 & C4).
    fold b' in C1, C2, C3, C4.
    destruct (bfold_K s b' Ks SF C3 C4 N 0 (build_c1 W s b') ltac:(lia)) as [Q1 Q2]; auto.
    { intros m _ Lm. lia. }
    { intros m Fr _. unfold build_c1. apply andb_prop in Fr. destruct Fr as [Fm Rm].
      rewrite Fm, Rm, (range_noninput W WF m); auto.
      unfold fresh in Fm. apply andb_prop in Fm. destruct Fm as [Bm _]. auto. }
    cbn zeta in Q1, Q2. set (c2 := fold_left (bstep W sem s b') (seq 0 N) (build_c1 W s b')) in *.
    cbn [st_cache st_built].
    assert (Old: forall m, st_built s m = true -> c2 m = st_cache s m).
    { intros m Bm. assert (F: fresh s b' m = false) by (unfold fresh; now rewrite Bm, andb_false_r).
      rewrite Q1 by (now rewrite F). unfold build_c1. now rewrite F. }
    assert (Vals: forall m, b' m = true -> isinput m = false ->
                    c2 m <> VNone /\ (clean m -> c2 m = sp m)).
    { intros m Bm Im. destruct (fresh s b' m && isrange m) eqn:Fr; [now apply Q2|].
      rewrite (Q1 m Fr). apply c1_facts; auto. }
    split; [|split; [exact C2|split]].
    - split; cbn [st_cache st_built].
      + exact C3.
      + exact C4.
      + intros m Im.
        assert (Rm: fresh s b' m && isrange m = false).
        { destruct (isrange m) eqn:Rm; [|apply andb_false_r].
          destruct (fresh s b' m) eqn:Fm; auto. exfalso.
          unfold fresh in Fm. apply andb_prop in Fm. destruct Fm as [Bm _].
          rewrite (range_noninput W WF m (C3 m Bm) Rm) in Im. discriminate. }
        rewrite (Q1 m Rm), (build_c1_input W s b' m Im). apply (k_inp s Ks m Im).
      + intros m Bm Im. now apply Vals.
      + intros m Bm Im. now apply Vals.
    - intros m Bm. split; auto.
    - intros m Bm Bm' FC. unfold is_fcell in FC. apply andb_prop in FC. destruct FC as [Im Rm].
      apply negb_true_iff in Im. apply negb_true_iff in Rm.
      assert (F: fresh s b' m = true) by (unfold fresh; now rewrite Bm, Bm').
      rewrite Q1 by (rewrite Rm; apply andb_false_r).
      unfold build_c1. now rewrite F, Im, Rm.
  Qed.

  (* ------------------------------------- cell.value = None; evaluate(address) *)
  (* the value the formula of n computes from the cached values of its precedents *)
  Definition val (s : state) (n : nat) : pyval := sem n (map (st_cache s) (deps n)).

  Lemma recalc_K s n : K s -> st_built s n = true -> isinput n = false ->
    let s' := recalc W sem s n in
    K s' /\ st_built s' = st_built s /\ st_cache s' n = val s n
    /\ (forall m, m <> n -> st_cache s' m = st_cache s m)
    /\ (semiclean n -> val s n = sp n).
  Proof.
    intros Ks B I. pose proof (k_lt s Ks n B) as L. cbn zeta.
    set (s0 := {| st_cache := upd (st_cache s) n VNone; st_built := st_built s |}).
    assert (R: recalc W sem s n = fst (evaluate W sem s0 n)) by reflexivity.
    rewrite R, evaluate_unfold. cbn [fst st_cache st_built].
    destruct (build_noop s0 n B) as [Eb Ec]. unfold s0 in Eb at 2. unfold s0 in Ec at 2.
    cbn [st_cache st_built] in Eb, Ec.
    set (cb := st_cache (build W sem s0 n)) in *.
    assert (Dn: forall d, In d (deps n) -> d <> n).
    { intros d Hd. pose proof (deps_lt W WF n d L Hd). lia. }
    assert (Ev: eval (S N) cb n = (upd cb n (val s n), val s n)).
    { assert (Cn: cb n = VNone) by (rewrite Ec; apply upd_same).
      assert (Fd: forall d, In d (deps n) -> filled cb d).
      { intros d Hd. assert (Bd: st_built s d = true) by (eapply (k_deps s Ks); eauto).
        destruct (K_filled s d Ks Bd) as [H|H]; [left; auto|right].
        rewrite Ec, upd_other; auto. }
      replace (S N) with (S (S (N - 1))) by lia.
      rewrite (eval_filled (N - 1) cb n I Cn Fd).
      assert (M: map cb (deps n) = map (st_cache s) (deps n)).
      { apply map_ext_in. intros d Hd. rewrite Ec. apply upd_other. auto. }
      unfold val. now rewrite M. }
    rewrite Ev. cbn [fst].
    assert (Sc: semiclean n -> val s n = sp n).
    { intros C. apply sem_sp; auto. intros d Hd. apply K_val; auto.
      - eapply (k_deps s Ks); eauto.
      - eapply semiclean_dep; eauto. }
    assert (Oth: forall m, m <> n -> upd cb n (val s n) m = st_cache s m).
    { intros m NE. rewrite upd_other by auto. rewrite Ec. now apply upd_other. }
    split; [|split; [exact Eb|split; [apply upd_same|split; [exact Oth|exact Sc]]]].
    split; cbn [st_cache st_built]; rewrite ?Eb.
    - apply (k_lt s Ks).
    - apply (k_deps s Ks).
    - intros m Im. rewrite Oth by (intros ->; congruence). apply (k_inp s Ks m Im).
    - intros m Bm Im. destruct (Nat.eq_dec m n) as [->|NE].
      + rewrite upd_same. apply NB; auto.
      + rewrite Oth by auto. apply (k_full s Ks); auto.
    - intros m Bm Im C. destruct (Nat.eq_dec m n) as [->|NE].
      + rewrite upd_same. apply Sc. now apply clean_semiclean.
      + rewrite Oth by auto. apply (k_clean s Ks); auto.
  Qed.

  Lemma val_ext s s' n : n < N -> (forall m, m <> n -> st_cache s' m = st_cache s m) ->
    val s' n = val s n.
  Proof.
    intros L H. unfold val. f_equal. apply map_ext_in. intros d Hd. apply H.
    pose proof (deps_lt W WF n d L Hd). lia.
  Qed.
End Filled.
