(* Proofs/C09.v — C09, a failed evaluation does not corrupt the model: the
   theorems about the failing-formula machine of Model/Fail.v, for EVERY
   well-formed workbook without stored results, EVERY partial formula
   semantics ([fsem], [fpre]), EVERY total completion [sem] of it that never
   computes a blank, EVERY evaluation order of new range nodes [rorder].
   Helper files: C09Eval (eval_f = fspec), C09Inv (FInv and its preservation),
   C09Repair (overwriting the failing cell with a constant). *)
From Coq Require Import List Arith Bool Lia.
From PV Require Import Lib.Py Model.Graph Model.Fail.
From PV Require Import Proofs.C01Base Proofs.C01Reset Proofs.C01Eval Proofs.C01Inv Proofs.C01.
From PV Require Import Proofs.C09Eval Proofs.C09Inv.
Import ListNotations.

Lemma seq_res_all (g : nat -> fres) (h : nat -> pyval) : forall l,
  (forall d, In d l -> g d = FVal (h d)) -> seq_res (map g l) = inl (map h l).
Proof.
  induction l as [|d l IH]; intros H; cbn; auto.
  rewrite (H d ltac:(left; auto)), IH; auto. intros; apply H; right; auto.
Qed.

Section Main.
  Variable W : workbook.
  Variable fsem : nat -> list pyval -> option pyval.
  Variable fpre : nat -> option nat.
  Variable rorder : (nat -> bool) -> nat -> list nat.
  Variable sem : nat -> list pyval -> pyval.

  Notation N := (wb_n W).
  Notation deps := (wb_deps W).
  Notation isinput := (wb_input W).
  Notation reads := (reads W fpre).
  Notation compute := (compute fsem fpre).
  Notation fspec := (fspec W fsem fpre).
  Notation evaluate_f := (evaluate_f W fsem fpre rorder).
  Notation step_f := (step_f W fsem fpre rorder).
  Notation run_f := (run_f W fsem fpre rorder).
  Notation FInv := (FInv W fsem fpre sem).
  Notation fext := (fext W fsem fpre).
  Notation spec := (spec W sem).
  Notation anc := (anc W).

  Hypothesis WF : wf W.
  Hypothesis NB : sem_nonblank W sem.
  Hypothesis CP : completes fsem fpre sem.
  Hypothesis NS : forall n, wb_stored W n = VNone.

  (* --------------------------------------------------- histories *)
  Fixpoint fok_history (s : state) (h : list gop) : Prop :=
    match h with
    | [] => True
    | o :: h' => fok_op W s o /\ fok_history (fst (step_f s o)) h'
    end.

  Lemma run_f_cons s o h :
    run_f s (o :: h) = (fst (run_f (fst (step_f s o)) h),
                        snd (step_f s o) :: snd (run_f (fst (step_f s o)) h)).
  Proof. cbn [Fail.run_f]. destruct (step_f s o) as [s1 v]. cbn [fst snd]. destruct (run_f s1 h); auto. Qed.

  Lemma run_f_inv : forall h s, FInv s -> fok_history s h -> FInv (fst (run_f s h)).
  Proof.
    induction h as [|o h IH]; intros s I OK; [exact I|].
    destruct OK as [Oo Oh]. rewrite run_f_cons. cbn [fst]. apply IH; auto.
    now apply (step_f_inv W fsem fpre rorder sem WF NB CP NS).
  Qed.

  (* ----------------------------------------------- C09_inv_preserved *)
  Theorem inv_preserved :
    FInv (init W) /\ forall s o, FInv s -> fok_op W s o -> FInv (fst (step_f s o)).
  Proof.
    split; [now apply FInv_init|]. apply (step_f_inv W fsem fpre rorder sem WF NB CP NS).
  Qed.

  (* what the invariant says: the C01 invariant, and no stale value *)
  Theorem inv_meaning s : FInv s ->
    Inv W sem s /\
    forall n, n < N -> isinput n = false ->
      is_raise (fspec (st_cache s) n) = true -> st_cache s n = VNone.
  Proof. intros I. split; [apply I|intros; eapply FInv_fail_empty; eauto]. Qed.

  (* the failing evaluate itself: the invariant, what it stored, and that the
     cell it was asked for (a formula cell) is left empty *)
  Theorem failed_evaluate s n : FInv s -> n < N ->
    is_raise (snd (evaluate_f s n)) = true ->
    let s' := fst (evaluate_f s n) in
    FInv s' /\ fext (anceq W n) (st_cache s) (st_cache s') /\
    isinput n = false /\ st_cache s' n = VNone /\
    is_raise (fspec (st_cache s) n) = true.
  Proof.
    intros I L R. destruct (evaluate_f_inv W fsem fpre rorder sem WF NB CP NS s n I L) as (I' & V & E & _).
    cbn zeta in *.
    assert (Rn: is_raise (fspec (st_cache s) n) = true).
    { destruct (snd (evaluate_f s n)); [discriminate|]. destruct (fspec (st_cache s) n); [discriminate|auto]. }
    assert (In: isinput n = false).
    { destruct (isinput n) eqn:In; auto.
      rewrite (fspec_unfold W fsem fpre WF _ n L), In in Rn. discriminate. }
    repeat split; auto; try apply I'.
    apply (FInv_fail_empty W fsem fpre sem _ n I' L In).
    rewrite (fext_fspec W fsem fpre WF _ _ _ n E L). exact Rn.
  Qed.

  (* -------------------------------------------------- C09_unrelated *)
  (* the formula of k itself raises when its precedents hold their from-scratch values *)
  Definition fails_at (inp : nat -> pyval) (k : nat) : Prop :=
    isinput k = false /\ is_raise (compute k (map (spec inp) (reads k))) = true.

  Lemma no_failing_ancestor inp : forall n, n < N ->
    (forall k, k = n \/ anc k n -> ~ fails_at inp k) -> fspec inp n = FVal (spec inp n).
  Proof.
    induction n as [n IH] using lt_wf_ind. intros L NF.
    rewrite (fspec_unfold W fsem fpre WF inp n L), (spec_unfold W sem WF inp n L).
    destruct (isinput n) eqn:I; auto.
    assert (D: forall d, In d (reads n) -> fspec inp d = FVal (spec inp d)).
    { intros d Hd. apply (reads_deps W fpre) in Hd. pose proof (deps_lt W WF _ _ L Hd).
      apply IH; [auto|lia|]. intros k [->|A]; apply NF; right; [now constructor|eapply anc_trans; eauto]. }
    rewrite (seq_res_all _ _ _ D).
    destruct (compute n (map (spec inp) (reads n))) as [v|e] eqn:C.
    - destruct (compute_val fsem fpre sem CP n _ v C) as (P & _ & Sv).
      assert (R: reads n = deps n) by (unfold Fail.reads; now rewrite P).
      rewrite R in Sv. now rewrite Sv.
    - exfalso. apply (NF n (or_introl eq_refl)). split; auto. now rewrite C.
  Qed.

  Theorem unrelated : forall h n, fok_history (init W) h -> n < N ->
    let s := fst (run_f (init W) h) in
    (forall k, k = n \/ anc k n -> ~ fails_at (st_cache s) k) ->
    snd (evaluate_f s n) = FVal (spec (st_cache s) n).
  Proof.
    intros h n OK L s NF.
    assert (I: FInv s) by (apply run_f_inv; auto; now apply FInv_init).
    destruct (evaluate_f_inv W fsem fpre rorder sem WF NB CP NS s n I L) as (_ & V & _).
    cbn zeta in V. rewrite (no_failing_ancestor (st_cache s) n L NF) in V.
    destruct (snd (evaluate_f s n)); cbn [fval] in V; congruence.
  Qed.

  (* ------------------------------------------------------ C09_retry *)
  (* failures are functions of the inputs: whatever was evaluated or written in
     between, as long as the input cells below the failed cell hold what they
     held, the cell and every dependant fail again, and stay empty *)
  Theorem retry_state s n : FInv s -> n < N -> is_raise (snd (evaluate_f s n)) = true ->
    forall s2, FInv s2 ->
      (forall k, isinput k = true -> anc k n -> st_cache s2 k = st_cache s k) ->
      forall d, d < N -> d = n \/ anc n d ->
        is_raise (snd (evaluate_f s2 d)) = true /\
        st_cache (fst (evaluate_f s2 d)) d = VNone.
  Proof.
    intros I L R s2 I2 Same d Ld Dn.
    destruct (failed_evaluate s n I L R) as (_ & _ & In & _ & Rn). cbn zeta in *.
    assert (Rn2: is_raise (fspec (st_cache s2) n) = true).
    { rewrite (fspec_agree W fsem fpre WF (st_cache s2) (st_cache s) n L); auto.
      intros k Ik [->|A]; [congruence|auto]. }
    assert (Rd: is_raise (fspec (st_cache s2) d) = true).
    { destruct Dn as [->|A]; auto. destruct (is_raise (fspec (st_cache s2) d)) eqn:Rd; auto.
      rewrite (fspec_val_anc W fsem fpre sem WF CP _ d n Ld A Rd) in Rn2. discriminate. }
    assert (R2: is_raise (snd (evaluate_f s2 d)) = true).
    { destruct (evaluate_f_inv W fsem fpre rorder sem WF NB CP NS s2 d I2 Ld) as (_ & V & _).
      cbn zeta in V. destruct (fspec (st_cache s2) d); [discriminate|].
      destruct (snd (evaluate_f s2 d)); [discriminate|auto]. }
    split; auto. now apply (failed_evaluate s2 d I2 Ld R2).
  Qed.

  Definition writes_avoid (P : nat -> Prop) (h : list gop) : Prop :=
    forall a v, In (SetValue a v) h -> ~ P a.

  Lemma step_f_inputs s o k : FInv s -> fok_op W s o -> k < N -> isinput k = true ->
    (forall a v, o = SetValue a v -> a <> k) ->
    st_cache (fst (step_f s o)) k = st_cache s k.
  Proof.
    intros I OK Lk Ik NW. destruct o as [n|a v|n]; cbn [Fail.step_f].
    - destruct (evaluate_f_inv W fsem fpre rorder sem WF NB CP NS s n I OK) as (_ & _ & E & _).
      eapply fext_inputs; eauto.
    - cbn [fst]. destruct OK as [Ba Ia]. rewrite set_value_unfold, Ba. cbn [negb].
      destruct (py_eq (st_cache s a) v && same_type (st_cache s a) v); auto.
      destruct (write_finv W fsem fpre sem WF NS s a v I Ba Ia) as (_ & _ & Wo).
      apply Wo; auto. intros ->. now apply (NW a v).
    - destruct (build_f_inv W fsem fpre rorder sem WF NB CP NS s n I OK) as (_ & E & _).
      cbn zeta in E. destruct (Fail.build_f W fsem fpre rorder s n) as [s1 r]. cbn [fst] in *.
      eapply fext_inputs; eauto.
  Qed.

  Lemma run_f_inputs k : k < N -> isinput k = true ->
    forall h s, FInv s -> fok_history s h -> (forall a v, In (SetValue a v) h -> a <> k) ->
    st_cache (fst (run_f s h)) k = st_cache s k.
  Proof.
    intros Lk Ik. induction h as [|o h IH]; intros s I OK NW; [reflexivity|].
    destruct OK as [Oo Oh]. rewrite run_f_cons. cbn [fst].
    rewrite IH; auto.
    - apply step_f_inputs; auto. intros a v ->. apply (NW a v). now left.
    - now apply (step_f_inv W fsem fpre rorder sem WF NB CP NS).
    - intros a v H. apply (NW a v). now right.
  Qed.

  (* the history form: after a failed evaluate of n, any further history —
     evaluations that fail or not, builds, writes to input cells that are not
     below n — then evaluating n or a dependant fails again *)
  Theorem retry : forall s n h, FInv s -> n < N -> is_raise (snd (evaluate_f s n)) = true ->
    let s1 := fst (evaluate_f s n) in
    fok_history s1 h -> writes_avoid (fun a => anc a n) h ->
    forall d, d < N -> d = n \/ anc n d ->
      is_raise (snd (evaluate_f (fst (run_f s1 h)) d)) = true /\
      st_cache (fst (evaluate_f (fst (run_f s1 h)) d)) d = VNone.
  Proof.
    intros s n h I L R s1 OK NW d Ld Dn.
    destruct (failed_evaluate s n I L R) as (I1 & E1 & _). fold s1 in I1, E1.
    apply (retry_state s n I L R); auto.
    - now apply run_f_inv.
    - intros k Ik A. pose proof (anc_lt W WF _ _ L A) as Lk.
      rewrite run_f_inputs; auto; try lia.
      + eapply fext_inputs; eauto.
      + intros a v H ->. now apply (NW k v H).
  Qed.
End Main.
