(* Proofs/C13Cells.v — C13: a CSE array formula and its member cells
   (Model/CseCells.v): every member cell shows its own element of the fitted
   result, for every result shape, target shape and member position. *)
From Coq Require Import ZArith QArith List Bool Arith Lia.
From PV Require Import Lib.Py Model.Ops Model.Arrays Model.LookupCore Model.Lookup Model.CseCells
  Proofs.PyTac Proofs.C10 Proofs.C10Total Proofs.C13.
From PV Require Gen.excelutil Gen.arrayfit.
Import ListNotations.
Open Scope Z_scope.

(* ===================================================== INDEX inside its wrappers *)
(* integer row / column numbers pass nums_wrapper and error_string_wrapper
   unchanged; the array argument is not looked at by either wrapper *)
Lemma X_index_int arr i j : X_index [arr; VInt i; VInt j] = index_ arr (VInt i) (VInt j).
Proof.
  unfold X_index, nums_wrapper.
  cbn [map_idx in_idx existsb Nat.eqb orb bind]. rewrite !coerce_int. cbn [bind].
  cbn [first_code in_idx existsb Nat.eqb orb].
  replace (py_in (VInt i) excelutil.c_ERROR_CODES) with (@Ok bool false) by reflexivity.
  cbn [bind].
  replace (py_in (VInt j) excelutil.c_ERROR_CODES) with (@Ok bool false) by reflexivity.
  cbn [bind].
  cbn [any_not_number in_idx existsb Nat.eqb orb].
  replace (excelutil.f_is_number (VInt i)) with (Ok (VBool true)) by reflexivity.
  replace (excelutil.f_is_number (VInt j)) with (Ok (VBool true)) by reflexivity.
  cbn [cond_of bind py_truthy].
  unfold err_wrapper. cbn [err_params nth_error bind]. reflexivity.
Qed.

(* INDEX(t, i, k) = t[i-1][k-1] inside a rectangular table (the lemmas of
   Proofs/C16.v on Model/LookupCore.v index_, restated here so that C13 does not
   depend on C16's proofs about the generated lookup code) *)
Definition zrect (w : Z) (rows : list pyval) : Prop :=
  Forall (fun row => exists cells, row = VTuple cells /\ zlen cells = w) rows.

Lemma index_nth_nonneg {A} (l : list A) z : 0 <= z < zlen l ->
  index_nth l z = nth_error l (Z.to_nat z).
Proof.
  intros H. unfold index_nth.
  replace (z <? 0) with false by (symmetry; apply Z.ltb_ge; lia).
  replace (z <? 0) with false by (symmetry; apply Z.ltb_ge; lia).
  replace (zlen l <=? z) with false by (symmetry; apply Z.leb_gt; lia). reflexivity.
Qed.

Lemma getitem_nth l z x : 0 <= z < zlen l -> nth_error l (Z.to_nat z) = Some x ->
  py_getitem (VTuple l) (VInt z) = Ok x.
Proof.
  intros H E. cbn [py_getitem as_index]. rewrite index_nth_nonneg by exact H. rewrite E. reflexivity.
Qed.

Lemma index_table w rows i k cells x :
  zrect w rows -> 1 <= i <= zlen rows -> 1 <= k <= w ->
  nth_error rows (Z.to_nat (i - 1)) = Some (VTuple cells) ->
  nth_error cells (Z.to_nat (k - 1)) = Some x ->
  index_ (VTuple rows) (VInt i) (VInt k) = Ok x.
Proof.
  intros Hr Hi Hk Erow Ex.
  assert (Hcells : zlen cells = w).
  { unfold zrect in Hr. rewrite Forall_forall in Hr.
    destruct (Hr _ (nth_error_In _ _ Erow)) as (c & Ec & Hw). injection Ec as <-. exact Hw. }
  unfold index_. rewrite list_like_tuple. cbn [cond_of bind py_truthy negb].
  destruct rows as [|row0 rest]; [unfold zlen in Hi; cbn [length] in Hi; lia|].
  assert (H0 : exists c0, row0 = VTuple c0 /\ zlen c0 = w) by (inversion Hr; assumption).
  destruct H0 as (c0 & -> & Hw0).
  cbn [py_getitem as_index]. rewrite index_nth_0. cbn [bind]. rewrite list_like_tuple.
  cbn [cond_of bind py_truthy negb].
  destruct c0 as [|x0 c0']; [unfold zlen in Hw0; cbn [length] in Hw0; lia|].
  cbn [py_getitem as_index]. rewrite index_nth_0. cbn [bind].
  unfold index_body. cbn [py_truthy].
  replace (i =? 0) with false by (symmetry; apply Z.eqb_neq; lia).
  replace (k =? 0) with false by (symmetry; apply Z.eqb_neq; lia).
  cbn [negb andb b_or py_lt scalar_lt as_num bind].
  replace (i <? 0) with false by (symmetry; apply Z.ltb_ge; lia).
  replace (k <? 0) with false by (symmetry; apply Z.ltb_ge; lia).
  unfold py_sub, Py.arith. cbn [as_num bind]. unfold array_data.
  rewrite (getitem_nth _ (i - 1) (VTuple cells)) by (try exact Erow; lia). cbn [bind].
  rewrite (getitem_nth cells (k - 1) x) by (try exact Ex; lia). reflexivity.
Qed.

(* INDEX(m, i, j) of an h x W matrix, inside *)
Lemma index_matrix out W i j e :
  rectangular W out -> 1 <= i <= zlen out -> 1 <= j <= Z.of_nat W ->
  elem2 out (Z.to_nat (i - 1)) (Z.to_nat (j - 1)) = Some e ->
  index_ (matrix out) (VInt i) (VInt j) = Ok e.
Proof.
  intros Hrect Hi Hj He. unfold matrix.
  assert (Hr : zrect (Z.of_nat W) (map VTuple out)).
  { unfold zrect. apply Forall_map. eapply Forall_impl; [|exact Hrect].
    intros r Hlr. cbv beta in Hlr |- *. exists r. split; [reflexivity|]. unfold zlen. lia. }
  unfold elem2 in He.
  destruct (nth_error out (Z.to_nat (i - 1))) as [r|] eqn:Er; [|discriminate].
  apply (index_table (Z.of_nat W) (map VTuple out) i j r e Hr); try assumption.
  - rewrite zlen_map. exact Hi.
  - rewrite nth_error_map, Er. reflexivity.
Qed.

(* ================================================= what a cell shows of an element *)
Lemma shown_scalar e : scalar_like e = true ->
  shown e = Ok (if is_blank e then VInt 0 else e).
Proof.
  intros Hs. unfold shown, cell_value.
  destruct (is_blank e); [reflexivity|]. rewrite (list_like_scalar e Hs). reflexivity.
Qed.

Lemma shown_NA : shown NA = Ok NA.
Proof. reflexivity. Qed.

Lemma blank_tuple l : is_blank (VTuple l) = false.
Proof. reflexivity. Qed.

(* ============================================ the member of a fitted result *)
Definition pos (i : Z) : nat := Z.to_nat (i - 1).

Lemma member_of_fitted result out h w i j e :
  fit (target h w) result = Ok (matrix out) ->
  length out = Z.to_nat h -> rectangular (Z.to_nat w) out ->
  1 <= i <= h -> 1 <= j <= w ->
  elem2 out (pos i) (pos j) = Some e ->
  cse_member h w result i j = shown e.
Proof.
  intros Hfit Hlen Hrect Hi Hj He.
  unfold cse_member, cse_range_value, eval_formula.
  change (arrayfit.f__ArrayFormulaContext_fit_to_range (VTuple [VInt h; VInt w]) result)
    with (fit (target h w) result).
  rewrite Hfit. cbn [bind]. unfold matrix at 1. rewrite blank_tuple. fold (matrix out).
  rewrite X_index_int.
  rewrite (index_matrix out (Z.to_nat w) i j e Hrect)
    by (try exact He; unfold zlen; lia).
  cbn [bind]. rewrite fit_translated_no_context. cbn [bind]. reflexivity.
Qed.

(* the range itself evaluates to the fitted matrix *)
Lemma range_value_matrix rows C h w :
  rows <> [] -> (1 <= C)%nat -> rectangular C rows -> 1 <= h -> 1 <= w ->
  exists out, cse_range_value h w (matrix rows) = Ok (matrix out)
              /\ length out = Z.to_nat h /\ rectangular (Z.to_nat w) out
              /\ forall i j, (i < Z.to_nat h)%nat -> (j < Z.to_nat w)%nat ->
                             elem2 out i j = Some (fit_elem rows i j).
Proof.
  intros Hne HC Hrect Hh Hw. exists (fit_spec h w rows).
  destruct (fit_spec_shape rows C h w Hne HC Hrect Hh Hw) as [L Rc].
  split; [|split; [exact L|split; [exact Rc|]]].
  - unfold cse_range_value, eval_formula. destruct rows as [|r0 rest]; [congruence|].
    rewrite fit_translated by assumption. cbn [bind]. unfold matrix at 1. rewrite blank_tuple.
    reflexivity.
  - intros i j Hi Hj. apply (fit_spec_elem rows C); assumption.
Qed.

(* C13_member_fit_elem: an array result *)
Theorem member_fit_elem rows C h w i j :
  rows <> [] -> (1 <= C)%nat -> rectangular C rows -> 1 <= i <= h -> 1 <= j <= w ->
  cse_member h w (matrix rows) i j = shown (fit_elem rows (pos i) (pos j)).
Proof.
  intros Hne HC Hrect Hi Hj.
  assert (Hh : 1 <= h) by lia. assert (Hw : 1 <= w) by lia.
  destruct (fit_spec_shape rows C h w Hne HC Hrect Hh Hw) as [L Rc].
  apply (member_of_fitted _ (fit_spec h w rows)); try assumption.
  - destruct rows as [|r0 rest]; [congruence|]. apply fit_translated; assumption.
  - apply (fit_spec_elem rows C); try assumption; unfold pos; lia.
Qed.

(* C13_member_scalar: a scalar result is shown by every member *)
Theorem member_scalar v h w i j :
  scalar_like v = true -> 1 <= i <= h -> 1 <= j <= w ->
  cse_member h w v i j = Ok (if is_blank v then VInt 0 else v).
Proof.
  intros Hs Hi Hj. rewrite <- (shown_scalar v Hs).
  assert (Hh : 1 <= h) by lia. assert (Hw : 1 <= w) by lia.
  assert (R1 : rectangular 1 [[v]]) by (repeat constructor).
  assert (N1 : [[v]] <> []) by discriminate.
  destruct (fit_spec_shape [[v]] 1%nat h w N1 (le_n 1) R1 Hh Hw) as [L Rc].
  apply (member_of_fitted _ (fit_spec h w [[v]])); try assumption.
  - apply fit_translated_scalar; assumption.
  - rewrite (fit_spec_elem [[v]] 1%nat h w (pos i) (pos j) N1 (le_n 1) R1 Hh Hw)
      by (unfold pos; lia).
    reflexivity.
Qed.

(* C13_member_shows_own_element: the cases of the statement.  The member
   stamped (i, j) — 1-based, inside the target — of a CSE range whose formula
   returns the R x C array [rows] shows
   - the result's element (i, j), a single row / single column being repeated,
     when the result reaches that far (a blank element is shown as 0);
   - #N/A when it does not. *)
Theorem member_shows_own_element rows R C h w i j :
  length rows = R -> (1 <= R)%nat -> (1 <= C)%nat -> rectangular C rows ->
  1 <= i <= h -> 1 <= j <= w ->
  (forall x, elem2 rows (if Nat.eqb R 1 then O else pos i) (if Nat.eqb C 1 then O else pos j) = Some x ->
             cse_member h w (matrix rows) i j = shown x)
  /\ ((R <> 1%nat /\ Z.of_nat R < i) \/ (C <> 1%nat /\ Z.of_nat C < j) ->
      cse_member h w (matrix rows) i j = Ok NA).
Proof.
  intros HR HR1 HC Hrect Hi Hj.
  assert (Hne : rows <> []) by (intros ->; cbn [length] in HR; lia).
  rewrite (member_fit_elem rows C h w i j Hne HC Hrect Hi Hj).
  destruct (fit_elem_cases rows R C (pos i) (pos j) HR Hrect Hne) as [Hin Hout].
  split.
  - intros x Hx. rewrite (Hin x Hx). reflexivity.
  - intros Hb. rewrite Hout; [apply shown_NA|]. unfold pos. destruct Hb as [[H1 H2]|[H1 H2]]; [left|right]; split;
      try assumption; lia.
Qed.

(* a one-cell reference range: an ordinary formula cell shows element (1, 1),
   a blank one as blank (only a blank SCALAR result becomes 0) *)
Theorem single_cell_target r0 rest e row0 :
  r0 = e :: row0 -> formula_cell (matrix (r0 :: rest)) = Ok e.
Proof.
  intros ->. unfold formula_cell, eval_formula. rewrite fit_translated_no_context. cbn [bind].
  unfold matrix at 1. rewrite blank_tuple. unfold cell_value, matrix. cbn [map].
  rewrite list_like_array. cbn [bind py_getitem as_index]. rewrite index_nth_0. cbn [bind].
  rewrite list_like_array. cbn [bind py_getitem as_index]. rewrite index_nth_0. reflexivity.
Qed.

Theorem single_cell_scalar v : scalar_like v = true ->
  formula_cell v = Ok (if is_blank v then VInt 0 else v).
Proof.
  intros Hs. unfold formula_cell, eval_formula. rewrite fit_translated_no_context. cbn [bind].
  apply (shown_scalar v Hs).
Qed.

(* ========================================================== the sheet side *)
(* load_members: exactly the cells of the reference range, each stamped with
   its own 1-based offset and the size *)
Lemma load_members_spec r0 c0 h w row col s :
  In ((row, col), s) (load_members r0 c0 h w) <->
  exists i j, 1 <= i <= h /\ 1 <= j <= w /\ row = r0 + i - 1 /\ col = c0 + j - 1 /\ s = (i, j, h, w).
Proof.
  unfold load_members. rewrite in_flat_map. split.
  - intros (i & Hi & Hin). apply in_map_iff in Hin. destruct Hin as (j & E & Hj).
    apply in_seq in Hi, Hj. injection E as <- <- <-.
    exists (Z.of_nat i), (Z.of_nat j). repeat split; lia.
  - intros (i & j & Hi & Hj & -> & -> & ->).
    exists (Z.to_nat i). split; [apply in_seq; lia|].
    apply in_map_iff. exists (Z.to_nat j). split; [|apply in_seq; lia].
    rewrite !Z2Nat.id by lia. reflexivity.
Qed.

(* every member's =index(range, i, j) refers to the whole reference range *)
Lemma member_range_target r0 c0 h w row col s :
  In ((row, col), s) (load_members r0 c0 h w) ->
  member_range row col s = (c0, r0, c0 + w - 1, r0 + h - 1).
Proof.
  intros H. apply load_members_spec in H. destruct H as (i & j & Hi & Hj & -> & -> & ->).
  unfold member_range. repeat f_equal; lia.
Qed.

(* C13_member_cells: the two sides together.  For an array formula entered
   over the range with top left (r0, c0) and size h x w, every cell (row, col)
   that load_array_formulas writes refers to that whole range, and shows the
   fitted result's element at its own offset (row - r0, col - c0). *)
Theorem member_cells r0 c0 h w rows C row col s :
  rows <> [] -> (1 <= C)%nat -> rectangular C rows ->
  In ((row, col), s) (load_members r0 c0 h w) ->
  member_range row col s = (c0, r0, c0 + w - 1, r0 + h - 1) /\
  r0 <= row < r0 + h /\ c0 <= col < c0 + w /\
  cse_member h w (matrix rows) (fst (member_index s)) (snd (member_index s))
  = shown (fit_elem rows (Z.to_nat (row - r0)) (Z.to_nat (col - c0))).
Proof.
  intros Hne HC Hrect Hin. split; [apply (member_range_target _ _ _ _ _ _ _ Hin)|].
  apply load_members_spec in Hin. destruct Hin as (i & j & Hi & Hj & -> & -> & ->).
  split; [lia|]. split; [lia|]. cbn [member_index fst snd].
  rewrite (member_fit_elem rows C h w i j Hne HC Hrect Hi Hj). unfold pos.
  replace (r0 + i - 1 - r0) with (i - 1) by lia. replace (c0 + j - 1 - c0) with (j - 1) by lia.
  reflexivity.
Qed.

(* … and every cell of the range is written *)
Lemma every_cell_is_member r0 c0 h w row col :
  r0 <= row < r0 + h -> c0 <= col < c0 + w ->
  In ((row, col), (row - r0 + 1, col - c0 + 1, h, w)) (load_members r0 c0 h w).
Proof.
  intros Hr Hc. apply load_members_spec. exists (row - r0 + 1), (col - c0 + 1).
  repeat split; lia.
Qed.

(* ================================== operators and lifted functions over a target *)
(* the member of an R x C matrix result, by position: inside (with a single
   row / column repeated) or #N/A *)
Lemma member_of_matrix out R C h w i j :
  length out = R -> (1 <= R)%nat -> (1 <= C)%nat -> rectangular C out ->
  1 <= i <= h -> 1 <= j <= w ->
  let ii := if Nat.eqb R 1 then O else pos i in
  let jj := if Nat.eqb C 1 then O else pos j in
  (forall x, elem2 out ii jj = Some x -> cse_member h w (matrix out) i j = shown x)
  /\ (~ ((ii < R)%nat /\ (jj < C)%nat) -> cse_member h w (matrix out) i j = Ok NA).
Proof.
  intros HR HR1 HC Hrect Hi Hj ii jj.
  destruct (member_shows_own_element out R C h w i j HR HR1 HC Hrect Hi Hj) as [Hin Hout].
  split; [exact Hin|]. intros Hn. apply Hout. subst ii jj. unfold pos in *.
  destruct (Nat.eqb_spec R 1) as [ER|ER]; destruct (Nat.eqb_spec C 1) as [EC|EC].
  - exfalso. apply Hn. lia.
  - right. split; [exact EC|]. destruct (Z_lt_le_dec (Z.of_nat C) j); [assumption|].
    exfalso. apply Hn. lia.
  - left. split; [exact ER|]. destruct (Z_lt_le_dec (Z.of_nat R) i); [assumption|].
    exfalso. apply Hn. lia.
  - destruct (Z_lt_le_dec (Z.of_nat R) i); [left; auto|].
    destruct (Z_lt_le_dec (Z.of_nat C) j); [right; auto|].
    exfalso. apply Hn. lia.
Qed.

(* array_fixup's result entered over a target *)
Lemma op_member l o r a b R C res h w i j :
  to_nd l = Ok a -> to_nd r = Ok b -> bshape a b = Some (R, C) ->
  array_fixup l o r = Ok res ->
  1 <= i <= h -> 1 <= j <= w ->
  let ii := if Nat.eqb R 1 then O else pos i in
  let jj := if Nat.eqb C 1 then O else pos j in
  ((ii < R)%nat /\ (jj < C)%nat ->
     exists u v x, belem a ii jj = Some u /\ belem b ii jj = Some v /\ fixup u o v = Ok x
                   /\ cse_member h w res i j = shown x)
  /\ (~ ((ii < R)%nat /\ (jj < C)%nat) -> cse_member h w res i j = Ok NA).
Proof.
  intros Ha Hb Hs Hres Hi Hj ii jj.
  destruct (op_pointwise l o r a b R C res Ha Hb Hs Hres) as (out & -> & Lo & Ro & Eo).
  destruct (bshape_fits a b R C (to_nd_wf l a Ha) (to_nd_wf r b Hb) Hs) as (_ & _ & HR & HC).
  destruct (member_of_matrix out R C h w i j Lo HR HC Ro Hi Hj) as [Hin Hout].
  split; [|exact Hout].
  intros [Hii Hjj]. destruct (Eo ii jj Hii Hjj) as (u & v & x & Hu & Hv & Hx & Hel).
  exists u, v, x. repeat split; try assumption. apply Hin. exact Hel.
Qed.

Lemma to_nd_operand l a : to_nd l = Ok a -> operand l.
Proof.
  unfold to_nd, operand. destruct l; try discriminate; intros _;
    try (left; reflexivity). right. eauto.
Qed.

Lemma to_nd_array l rows : to_nd l = Ok (Nd2 rows) -> exists x, l = VTuple x.
Proof.
  unfold to_nd. destruct l; try discriminate; try (intros H; injection H; discriminate). eauto.
Qed.

(* the elements shown are scalars: blank -> 0, everything else itself *)
Lemma belem_scalar l a i j u : to_nd l = Ok a -> belem a i j = Some u -> scalar_like u = true.
Proof.
  unfold to_nd. destruct l; try discriminate;
    try (intros H; injection H as <-; cbn [belem]; intros E; injection E as <-; reflexivity).
  destruct (rows_of l) as [[|r0 rest]|]; try discriminate.
  destruct (negb (Nat.eqb (length r0) 0) && rect (length r0) (r0 :: rest)
            && forallb (forallb scalar_like) (r0 :: rest)) eqn:E; [|discriminate].
  intros H. injection H as <-. apply andb_true_iff in E. destruct E as [_ E].
  cbn [belem]. set (rows := r0 :: rest) in *.
  destruct (nth_error rows (if Nat.eqb (length rows) 1 then O else i)) as [row|] eqn:Er; [|discriminate].
  intros Eu. rewrite forallb_forall in E. specialize (E row (nth_error_In _ _ Er)).
  rewrite forallb_forall in E. apply E. eapply nth_error_In. exact Eu.
Qed.

(* the scalar operator returns a value of Excel (number, text, logical, error
   value) whenever it returns: C10's totality / exactness theorems, by cases *)
Lemma scalar_like_scalar v : scalar_like v = true -> scalar v.
Proof. destruct v; try discriminate; intros _; exact I. Qed.

Lemma fixup_value l o r x : scalar l -> scalar r -> fixup l o r = Ok x -> xl_value x.
Proof.
  intros Hsl Hsr Hx.
  assert (Hv : forall y, scalar y -> in_error_codes y = Ok true -> xl_value y).
  { intros y Hy He. destruct y; cbn [scalar] in Hy; try contradiction; try exact I; discriminate He. }
  destruct (in_error_scalar l Hsl) as ([|] & Hel).
  { rewrite (error_left l o r Hel) in Hx. injection Hx as <-. apply Hv; assumption. }
  destruct (in_error_scalar r Hsr) as ([|] & Her).
  { rewrite (error_right l o r Hel Her) in Hx. injection Hx as <-. apply Hv; assumption. }
  destruct (op_modelled o l) eqn:Ml;
    [|rewrite (unmodelled_exact l o r Hsl Hsr Hel Her (or_introl Ml)) in Hx; discriminate Hx].
  destruct (op_modelled o r) eqn:Mr;
    [|rewrite (unmodelled_exact l o r Hsl Hsr Hel Her (or_intror Mr)) in Hx; discriminate Hx].
  assert (Hne : o <> Pow -> xl_value x).
  { intros Ho. destruct (total l o r Hsl Hsr Hel Her Ho Ml Mr) as (v & Hf & Hr).
    rewrite Hf in Hx. injection Hx as <-. eapply result_ok_value. exact Hr. }
  destruct o; try (apply Hne; discriminate).
  unfold op_modelled in Ml, Mr. cbn [is_cmp] in Ml, Mr.
  destruct (pow_total l r Hsl Hsr Hel Her Ml Mr) as (l1 & r1 & _ & _ & _ & _ & Ht & Hf).
  destruct (pow_modelled l1 r1).
  - destruct (Ht eq_refl) as (v & Hv' & Hr). rewrite Hv' in Hx. injection Hx as <-.
    destruct Hr as [Hn|[->|[->| ->]]]; try exact I. destruct v; cbn [number] in Hn; try contradiction; exact I.
  - rewrite (Hf eq_refl) in Hx. discriminate Hx.
Qed.

Lemma fixup_scalar_like l o r x :
  scalar_like l = true -> scalar_like r = true -> fixup l o r = Ok x -> scalar_like x = true.
Proof.
  intros Sl Sr Hx.
  pose proof (fixup_value l o r x (scalar_like_scalar l Sl) (scalar_like_scalar r Sr) Hx) as Hv.
  destruct x; cbn [xl_value] in Hv; try contradiction; reflexivity.
Qed.

(* C13_formula_op_member: the whole clause for operators.  The formula
   =l o r (the compiled code calls op_fixup) entered over an h x w target:
   the member stamped (i, j) shows the scalar operator on the operands'
   elements at the broadcast indices, #N/A outside the broadcast shape. *)
Theorem formula_op_member l o r a b R C res h w i j :
  to_nd l = Ok a -> to_nd r = Ok b -> bshape a b = Some (R, C) ->
  (scalar_like l = true -> in_error_codes l = Ok false) ->
  (scalar_like r = true -> in_error_codes r = Ok false) ->
  op_fixup l o r = Ok res ->
  1 <= i <= h -> 1 <= j <= w ->
  let ii := if Nat.eqb R 1 then O else pos i in
  let jj := if Nat.eqb C 1 then O else pos j in
  ((ii < R)%nat /\ (jj < C)%nat ->
     exists u v x, belem a ii jj = Some u /\ belem b ii jj = Some v /\ fixup u o v = Ok x
                   /\ cse_member h w res i j = Ok (if is_blank x then VInt 0 else x))
  /\ (~ ((ii < R)%nat /\ (jj < C)%nat) -> cse_member h w res i j = Ok NA).
Proof.
  intros Ha Hb Hs El Er Hres Hi Hj ii jj. rewrite op_dispatch in Hres.
  - destruct (op_member l o r a b R C res h w i j Ha Hb Hs Hres Hi Hj) as [Hin Hout].
    split; [|exact Hout]. intros Hp. destruct (Hin Hp) as (u & v & x & Hu & Hv & Hx & Hm).
    exists u, v, x. repeat split; try assumption. rewrite Hm. apply shown_scalar.
    apply (fixup_scalar_like u o v x); try assumption.
    + apply (belem_scalar l a _ _ u Ha Hu).
    + apply (belem_scalar r b _ _ v Hb Hv).
  - apply (to_nd_operand l a Ha).
  - apply (to_nd_operand r b Hb).
  - exact El.
  - exact Er.
  - destruct a as [va|ra].
    + destruct b as [vb|rb]; [discriminate Hs|]. right. apply (to_nd_array r rb Hb).
    + left. apply (to_nd_array l ra Ha).
Qed.

(* lifted functions: cse_wrapper's result entered over a target *)
Theorem fun_member (f : list pyval -> res pyval) (idx : nat -> bool) R C args fl a res h w i j :
  (1 <= R)%nat -> (1 <= C)%nat ->
  mapM (cse_flag idx) (enumerate 0 args) = Ok fl ->
  Forall2 (arg_shape R C) fl args ->
  first_true fl args = Some a ->
  cse_wrapper f idx args = Ok res ->
  1 <= i <= h -> 1 <= j <= w ->
  let ii := if Nat.eqb R 1 then O else pos i in
  let jj := if Nat.eqb C 1 then O else pos j in
  ((ii < R)%nat /\ (jj < C)%nat ->
     exists picked x, Forall2 (fun ba p => arg_at ii jj ba = Some p) (combine fl args) picked
                      /\ f picked = Ok x /\ cse_member h w res i j = shown x)
  /\ (~ ((ii < R)%nat /\ (jj < C)%nat) -> cse_member h w res i j = Ok NA).
Proof.
  intros HR HC Efl Hshape Efirst Hres Hi Hj ii jj.
  destruct (fun_pointwise f idx R C args fl a res HR HC Efl Hshape Efirst Hres)
    as (out & -> & Lo & Ro & Eo).
  destruct (member_of_matrix out R C h w i j Lo HR HC Ro Hi Hj) as [Hin Hout].
  split; [|exact Hout].
  intros [Hii Hjj]. destruct (Eo ii jj Hii Hjj) as (picked & x & Hp & Hx & Hel).
  exists picked, x. repeat split; try assumption. apply Hin. exact Hel.
Qed.

(* ======================================================== scalar error operands *)
(* array o scalar-error, exactly: the fix-up returns the scalar error for the
   whole array, while the scalar operator gives the LEFT element where that is
   an error itself and the right error elsewhere *)
Theorem op_scalar_error_right_exact x o r :
  scalar_like r = true -> in_error_codes r = Ok true ->
  op_fixup (VTuple x) o r = Ok r /\
  forall u, scalar_like u = true ->
    exists e, in_error_codes u = Ok e /\ fixup u o r = Ok (if e then u else r).
Proof.
  intros Sr Er. destruct (op_scalar_error_right_partial x o r Sr Er) as [H1 H2].
  split; [exact H1|]. intros u Su.
  assert (Hsc : scalar u) by (destruct u; try discriminate; exact I).
  destruct (in_error_scalar u Hsc) as ([|] & Eu).
  - exists true. split; [exact Eu|]. apply error_left. exact Eu.
  - exists false. split; [exact Eu|]. apply H2. exact Eu.
Qed.

(* … and entered over a target, every member shows that error — also where the
   array does not reach (the known finding C13-scalar-error-short-circuit) *)
Theorem scalar_error_member l o r res h w i j :
  operand l -> operand r ->
  (scalar_like l = true /\ in_error_codes l = Ok true /\ res = l) \/
  ((exists x, l = VTuple x) /\ scalar_like r = true /\ in_error_codes r = Ok true /\ res = r) ->
  1 <= i <= h -> 1 <= j <= w ->
  op_fixup l o r = Ok res /\ cse_member h w res i j = Ok res.
Proof.
  intros Ol Or Hc Hi Hj.
  assert (Hne : forall e, scalar_like e = true -> in_error_codes e = Ok true ->
                          cse_member h w e i j = Ok e).
  { intros e Se Ee. rewrite (member_scalar e h w i j Se Hi Hj).
    destruct e; try discriminate Se; try discriminate Ee.
    destruct (is_blank (VStr s)) eqn:B; [|reflexivity].
    exfalso. unfold is_blank in B. unfold in_error_codes in Ee.
    assert (Hs : VStr s = excelutil.c_EMPTY).
    { unfold excelutil.c_EMPTY in *. cbn [py_eq] in B. apply str_eqb_eq in B. congruence. }
    rewrite Hs in Ee. discriminate Ee. }
  destruct Hc as [(Sl & El & ->)|((x & ->) & Sr & Er & ->)].
  - split; [apply (op_scalar_error_left l o r Sl Or El)|apply Hne; assumption].
  - split; [apply (op_scalar_error_right_partial x o r Sr Er)|apply Hne; assumption].
Qed.

(* ================================================== examples (non-vacuity) *)
Definition m23 : list (list pyval) := [[VInt 1; VNone; VInt 3]; [VInt 4; VInt 5; VInt 6]].

Example ex_member_inside : cse_member 3 2 (matrix m23) 2 2 = Ok (VInt 5).
Proof. vm_compute. reflexivity. Qed.
Example ex_member_blank : cse_member 3 2 (matrix m23) 1 2 = Ok (VInt 0).
Proof. vm_compute. reflexivity. Qed.
Example ex_member_outside : cse_member 3 2 (matrix m23) 3 1 = Ok NA.
Proof. vm_compute. reflexivity. Qed.
Example ex_member_row_repeated : cse_member 3 2 (matrix [[VInt 7; VInt 8]]) 3 2 = Ok (VInt 8).
Proof. vm_compute. reflexivity. Qed.
Example ex_member_hyps :
  length m23 = 2%nat /\ rectangular 3 m23 /\ 1 <= 2 <= 3 /\ 1 <= 2 <= 2
  /\ elem2 m23 (pos 2) (pos 2) = Some (VInt 5).
Proof. repeat split; try lia; repeat constructor. Qed.
Example ex_members :
  cse_members 2 3 (matrix [[VInt 1]; [VInt 2]; [VInt 3]])
  = Ok (matrix [[VInt 1; VInt 1; VInt 1]; [VInt 2; VInt 2; VInt 2]]).
Proof. vm_compute. reflexivity. Qed.
Example ex_single_cell : formula_cell (matrix [[VNone; VInt 2]; [VInt 3; VInt 4]]) = Ok VNone
                         /\ cse_member 1 2 (matrix [[VNone; VInt 2]; [VInt 3; VInt 4]]) 1 1 = Ok (VInt 0).
Proof. split; vm_compute; reflexivity. Qed.
Example ex_load_members :
  load_members 10 6 2 2
  = [((10, 6), (1, 1, 2, 2)); ((10, 7), (1, 2, 2, 2)); ((11, 6), (2, 1, 2, 2)); ((11, 7), (2, 2, 2, 2))]
  /\ member_range 11 7 (2, 2, 2, 2) = (6, 10, 7, 11).
Proof. split; reflexivity. Qed.
(* =A1:B1 + F1:F2 over a 3 x 3 target: member (2, 2) is 2 + 20, member (3, 1) is #N/A *)
Definition r22 : pyval := matrix [[VInt 11; VInt 12]; [VInt 21; VInt 22]].
Example ex_formula_op :
  op_fixup (matrix [[VInt 1; VInt 2]]) Add (matrix [[VInt 10]; [VInt 20]]) = Ok r22
  /\ cse_member 3 3 r22 2 2 = Ok (VInt 22) /\ cse_member 3 3 r22 3 1 = Ok NA
  /\ bshape (Nd2 [[VInt 1; VInt 2]]) (Nd2 [[VInt 10]; [VInt 20]]) = Some (2%nat, 2%nat).
Proof. split; [|split; [|split]]; vm_compute; reflexivity. Qed.
Example ex_scalar_error_member :
  op_fixup (matrix [[VInt 1; VInt 2]]) Add excelutil.c_DIV0 = Ok excelutil.c_DIV0
  /\ cse_member 2 3 excelutil.c_DIV0 2 3 = Ok excelutil.c_DIV0.
Proof. vm_compute. split; reflexivity. Qed.

(* ============================ all members together = the range's value, blanks as 0 *)
Definition blank0 (e : pyval) : pyval := if is_blank e then VInt 0 else e.

Lemma mapM_ok_map {A B} (f : A -> res B) (g : A -> B) l :
  (forall x, In x l -> f x = Ok (g x)) -> mapM f l = Ok (map g l).
Proof.
  induction l as [|a l IH]; intros H; [reflexivity|].
  cbn [mapM map bind]. rewrite (H a (or_introl eq_refl)). cbn [bind].
  rewrite IH by (intros x Hx; apply H; right; exact Hx). reflexivity.
Qed.

Definition all_scalar (rows : list (list pyval)) : Prop :=
  Forall (Forall (fun e => scalar_like e = true)) rows.

Lemma fit_elem_scalar rows i j : all_scalar rows -> scalar_like (fit_elem rows i j) = true.
Proof.
  intros Hs. unfold fit_elem, elem2.
  destruct (nth_error rows (if Nat.eqb (length rows) 1 then O else i)) as [r|] eqn:Er; [|reflexivity].
  destruct (nth_error r (if Nat.eqb (length (hd [] rows)) 1 then O else j)) as [x|] eqn:Ex; [|reflexivity].
  unfold all_scalar in Hs. rewrite Forall_forall in Hs. specialize (Hs r (nth_error_In _ _ Er)).
  rewrite Forall_forall in Hs. apply Hs. eapply nth_error_In. exact Ex.
Qed.

(* C13_members_matrix: the member cells of the target, taken together, are the
   h x w matrix of the fitted elements with blanks shown as 0 — i.e. the value
   of the range itself (C13_range_value) cell by cell *)
Theorem members_matrix rows C h w :
  rows <> [] -> (1 <= C)%nat -> rectangular C rows -> all_scalar rows -> 1 <= h -> 1 <= w ->
  exists M, cse_members h w (matrix rows) = Ok (matrix M)
            /\ length M = Z.to_nat h /\ rectangular (Z.to_nat w) M
            /\ forall i j, (i < Z.to_nat h)%nat -> (j < Z.to_nat w)%nat ->
                           elem2 M i j = Some (blank0 (fit_elem rows i j)).
Proof.
  intros Hne HC Hrect Hsc Hh Hw.
  set (G := fun i j : nat => blank0 (fit_elem rows (pos (Z.of_nat i)) (pos (Z.of_nat j)))).
  set (F := fun i : nat => map (G i) (seq 1 (Z.to_nat w))).
  exists (map F (seq 1 (Z.to_nat h))).
  assert (Hin : forall i, In i (seq 1 (Z.to_nat h)) ->
            mapM (fun j => cse_member h w (matrix rows) (Z.of_nat i) (Z.of_nat j)) (seq 1 (Z.to_nat w))
            = Ok (F i)).
  { intros i Hi. apply in_seq in Hi. apply mapM_ok_map. intros j Hj. apply in_seq in Hj.
    rewrite (member_fit_elem rows C h w (Z.of_nat i) (Z.of_nat j) Hne HC Hrect) by lia.
    apply shown_scalar. apply fit_elem_scalar. exact Hsc. }
  split; [|split; [|split]].
  - unfold cse_members.
    rewrite (mapM_ok_map _ (fun i => VTuple (F i))).
    + cbn [bind]. unfold matrix. rewrite map_map. reflexivity.
    + intros i Hi. rewrite (Hin i Hi). reflexivity.
  - rewrite map_length, seq_length. reflexivity.
  - unfold rectangular. apply Forall_map. apply Forall_forall. intros i _.
    unfold F. rewrite map_length, seq_length. reflexivity.
  - intros i j Hi Hj. unfold elem2. rewrite nth_error_map, nth_error_seq_lt by exact Hi.
    cbn [option_map]. unfold F. rewrite nth_error_map, nth_error_seq_lt by exact Hj.
    cbn [option_map]. unfold G, pos. do 3 f_equal; lia.
Qed.

(* every target but the single cell is a CSE range *)
Lemma target_cells_cse h w result : (h, w) <> (1, 1) -> target_cells h w result = cse_members h w result.
Proof.
  intros Hn. unfold target_cells.
  destruct (Z.eqb_spec h 1) as [->|Eh]; [|reflexivity].
  destruct (Z.eqb_spec w 1) as [->|Ew]; [congruence|reflexivity].
Qed.

(* ============================================= which range is the formula's range *)
Lemma str_prefix_app f t : str_prefix f (f ++ t) = true.
Proof. induction f as [|c f IH]; [destruct t; reflexivity|]. cbn [app str_prefix]. rewrite Z.eqb_refl. exact IH. Qed.

Lemma member_text_prefix f s : str_prefix f (member_text f s) = true.
Proof. destruct s as [[[i j] h] w]. unfold member_text. apply str_prefix_app. Qed.

(* C13_range_formula_own: the reference range of an array formula, read back
   from the sheet load_array_formulas wrote, is recognised as the range of that
   formula (so _evaluate_range takes the CSE branch with the range's own size) *)
Theorem range_formula_own f h w : 1 <= h -> 1 <= w -> range_formula (sheet_rows f h w) = Some f.
Proof.
  intros Hh Hw.
  assert (Hall : forallb (forallb (fun c => match c with
                                            | Member g s => str_prefix f (member_text g s)
                                            | Other => false end)) (sheet_rows f h w) = true).
  { apply forallb_forall. intros row Hrow. unfold sheet_rows in Hrow. apply in_map_iff in Hrow.
    destruct Hrow as (i & <- & _). apply forallb_forall. intros c Hc. apply in_map_iff in Hc.
    destruct Hc as (j & <- & _). apply member_text_prefix. }
  assert (Hl : (zlen (sheet_rows f h w) <=? h) = true).
  { apply Z.leb_le. unfold zlen, sheet_rows. rewrite map_length, seq_length. lia. }
  assert (Hw' : (zlen (hd [] (sheet_rows f h w)) <=? w) = true).
  { unfold sheet_rows. destruct (Z.to_nat h) as [|n] eqn:Eh; [lia|]. cbn [seq map hd].
    apply Z.leb_le. unfold zlen. rewrite map_length, seq_length. lia. }
  unfold range_formula. revert Hall Hl Hw'. unfold sheet_rows.
  destruct (Z.to_nat h) as [|n] eqn:Eh; [lia|]. destruct (Z.to_nat w) as [|m] eqn:Ew; [lia|].
  cbn [seq map]. intros Hall Hl Hw'. rewrite Hall, Hl, Hw'. reflexivity.
Qed.

(* a range that does not start at member (1, 1) has no formula of its own: its
   cells are evaluated one by one (each as a member, C13_member_cells) *)
Theorem range_formula_inner f i j h w row rest :
  (i, j) <> (1, 1) -> range_formula ((Member f (i, j, h, w) :: row) :: rest) = None.
Proof.
  intros Hn. unfold range_formula.
  destruct (Z.eqb_spec i 1) as [->|Ei]; [|reflexivity].
  destruct (Z.eqb_spec j 1) as [->|Ej]; [congruence|reflexivity].
Qed.

Example ex_range_formula :
  range_formula (sheet_rows [65; 49] 2 2) = Some [65; 49]
  /\ range_formula [[Member [65; 49] (1, 1, 2, 2); Other]] = None.
Proof. split; reflexivity. Qed.
Example ex_members_matrix_hyps : all_scalar m23 /\ rectangular 3 m23 /\ m23 <> [].
Proof. split; [|split]; [repeat constructor|repeat constructor|discriminate]. Qed.

(* C13_range_shows_members: the reference range of an array formula, read back
   from the sheet, is that formula's range, and evaluating it gives at every
   position what the member cell there shows (a blank as 0 in the cell).  For
   every range of the sheet: Proofs/C13Ranges.v range_shows_cells *)
Theorem range_shows_members f rows C h w :
  rows <> [] -> (1 <= C)%nat -> rectangular C rows -> all_scalar rows -> 1 <= h -> 1 <= w ->
  range_formula (sheet_rows f h w) = Some f /\
  exists out M, cse_range_value h w (matrix rows) = Ok (matrix out)
                /\ cse_members h w (matrix rows) = Ok (matrix M)
                /\ length M = Z.to_nat h /\ rectangular (Z.to_nat w) M
                /\ forall i j, (i < Z.to_nat h)%nat -> (j < Z.to_nat w)%nat ->
                     exists e, elem2 out i j = Some e /\ elem2 M i j = Some (blank0 e).
Proof.
  intros Hne HC Hrect Hsc Hh Hw. split; [apply range_formula_own; assumption|].
  destruct (range_value_matrix rows C h w Hne HC Hrect Hh Hw) as (out & Ho & _ & _ & Eo).
  destruct (members_matrix rows C h w Hne HC Hrect Hsc Hh Hw) as (M & HM & LM & RM & EM).
  exists out, M. repeat split; try assumption.
  intros i j Hi Hj. exists (fit_elem rows i j). split; [apply Eo|apply EM]; assumption.
Qed.

(* ---- the hypotheses of the formula theorems are met by concrete inputs *)
Definition op_l : pyval := matrix [[VInt 1; VInt 2]].
Definition op_r : pyval := matrix [[VInt 10]; [VInt 20]].
Example ex_formula_op_hyps :
  to_nd op_l = Ok (Nd2 [[VInt 1; VInt 2]]) /\ to_nd op_r = Ok (Nd2 [[VInt 10]; [VInt 20]])
  /\ bshape (Nd2 [[VInt 1; VInt 2]]) (Nd2 [[VInt 10]; [VInt 20]]) = Some (2%nat, 2%nat)
  /\ (scalar_like op_l = true -> in_error_codes op_l = Ok false)
  /\ (scalar_like op_r = true -> in_error_codes op_r = Ok false)
  /\ op_fixup op_l Add op_r = Ok r22 /\ 1 <= 2 <= 3 /\ 1 <= 2 <= 3.
Proof.
  split; [vm_compute; reflexivity|]. split; [vm_compute; reflexivity|]. split; [vm_compute; reflexivity|].
  split; [discriminate|]. split; [discriminate|]. split; [vm_compute; reflexivity|]. lia.
Qed.

Definition probe (xs : list pyval) : res pyval := Ok (VTuple xs).
Definition fun_args : list pyval := [matrix [[VInt 1; VInt 2]]; VInt 7].
Example ex_formula_fun_hyps :
  mapM (cse_flag (fun _ => true)) (enumerate 0 fun_args) = Ok [true; false]
  /\ Forall2 (arg_shape 1 2) [true; false] fun_args
  /\ first_true [true; false] fun_args = Some (matrix [[VInt 1; VInt 2]])
  /\ cse_wrapper probe (fun _ => true) fun_args
     = Ok (matrix [[VTuple [VInt 1; VInt 7]; VTuple [VInt 2; VInt 7]]])
  /\ cse_member 2 3 (matrix [[VTuple [VInt 1; VInt 7]; VTuple [VInt 2; VInt 7]]]) 2 2
     = shown (VTuple [VInt 2; VInt 7])
  /\ cse_member 2 3 (matrix [[VTuple [VInt 1; VInt 7]; VTuple [VInt 2; VInt 7]]]) 2 3 = Ok NA.
Proof.
  split; [vm_compute; reflexivity|]. split.
  - constructor.
    + intros _. exists [[VInt 1; VInt 2]]. repeat split. repeat constructor.
    + constructor; [discriminate|constructor].
  - split; [reflexivity|]. split; [vm_compute; reflexivity|]. split; vm_compute; reflexivity.
Qed.

Example ex_scalar_error_hyps :
  operand op_l /\ operand excelutil.c_DIV0 /\ (exists x, op_l = VTuple x)
  /\ scalar_like excelutil.c_DIV0 = true /\ in_error_codes excelutil.c_DIV0 = Ok true.
Proof.
  split; [right; eexists; reflexivity|]. split; [left; reflexivity|]. split; [eexists; reflexivity|].
  split; [reflexivity|vm_compute; reflexivity].
Qed.

Example ex_member_cells_hyp : In ((11, 7), (2, 2, 2, 2)) (load_members 10 6 2 2).
Proof. vm_compute. auto. Qed.
