(* Proofs/C09Inv.v — C09, part 2: the invariant [FInv] = the C01 invariant [Inv]
   (for any total completion [sem] of the partial semantics) + soundness (every
   cached formula value is the value of a from-scratch evaluation that
   succeeds), and its preservation by evaluate / build — whether they return or
   RAISE — and by set_value.  Configuration: no stored results (the in-memory
   workbooks of the C09 runs); with stored results a failing build can leave a
   new range node empty below a dependant that holds its stored value. *)
From Coq Require Import List Arith Bool Lia.
From PV Require Import Lib.Py Model.Graph Model.Fail.
From PV Require Import Proofs.C01Base Proofs.C01Reset Proofs.C01Eval Proofs.C01Inv Proofs.C01.
From PV Require Import Proofs.C09Eval.
Import ListNotations.

Section FInvSec.
  Variable W : workbook.
  Variable fsem : nat -> list pyval -> option pyval.
  Variable fpre : nat -> option nat.
  Variable rorder : (nat -> bool) -> nat -> list nat.
  Variable sem : nat -> list pyval -> pyval.

  Notation N := (wb_n W).
  Notation deps := (wb_deps W).
  Notation isinput := (wb_input W).
  Notation isrange := (wb_range W).
  Notation fspec := (fspec W fsem fpre).
  Notation eval_f := (eval_f W fsem fpre).
  Notation build_f := (build_f W fsem fpre rorder).
  Notation evaluate_f := (evaluate_f W fsem fpre rorder).
  Notation step_f := (step_f W fsem fpre rorder).
  Notation FSound := (FSound W fsem fpre).
  Notation fext := (fext W fsem fpre).
  Notation spec := (spec W sem).
  Notation anc := (anc W).
  Notation Inv := (Inv W sem).

  Hypothesis WF : wf W.
  Hypothesis NB : sem_nonblank W sem.
  Hypothesis CP : completes fsem fpre sem.
  Hypothesis NS : forall n, wb_stored W n = VNone.

  Definition FInv (s : state) : Prop := Inv s /\ FSound (st_cache s).

  Lemma FInv_init : FInv (init W).
  Proof.
    split.
    - apply Inv_init; auto. split; intros; [exfalso|]; auto.
    - intros m L I H. cbn in H. rewrite I in H. congruence.
  Qed.

  (* a cell whose from-scratch evaluation fails is never cached: no stale value *)
  Lemma FInv_fail_empty s n : FInv s -> n < N -> isinput n = false ->
    is_raise (fspec (st_cache s) n) = true -> st_cache s n = VNone.
  Proof.
    intros [_ SD] L I R. destruct (is_none (st_cache s n)) eqn:E; [now apply is_none_true|].
    apply is_none_false in E. rewrite (SD n L I E) in R. discriminate.
  Qed.

  (* ---------------------------------------------------------- closure *)
  Lemma closure_anc : forall f b n m, closure W f b n m = true -> b m = true \/ m = n \/ anc m n.
  Proof.
    induction f as [|f IH]; intros b n m; cbn [closure]; auto.
    destruct (b n) eqn:Bn; auto.
    set (b0 := fun m => if Nat.eqb m n then true else b m).
    assert (F: forall l b1, (forall d, In d l -> In d (deps n)) ->
               fold_left (fun b d => closure W f b d) l b1 m = true -> b1 m = true \/ anc m n).
    { induction l as [|d l IHl]; intros b1 Sub; cbn [fold_left]; auto.
      intros H. destruct (IHl (closure W f b1 d) ltac:(intros; apply Sub; right; auto) H) as [H1|H1]; auto.
      assert (Hd: In d (deps n)) by (apply Sub; left; auto).
      destruct (IH b1 d m H1) as [H2|[->|H2]]; auto.
      - right. now constructor.
      - right. eapply anc_trans; eauto. }
    intros H. destruct (F (deps n) b0 ltac:(auto) H) as [H1|H1]; auto.
    unfold b0 in H1. destruct (Nat.eqb_spec m n); auto.
  Qed.

  (* -------------------------------------- extending the cache of a state *)
  Lemma ext_inv s c' : Inv s -> ext W sem (fun m => st_built s m = true) (st_cache s) c' ->
    Inv {| st_cache := c'; st_built := st_built s |}.
  Proof.
    intros I E. split; cbn [st_cache st_built].
    - apply (inv_lt W sem s I).
    - apply (inv_deps W sem s I).
    - intros m Bm. destruct (ext_region W sem _ _ _ m E) as [H|H]; [|congruence].
      rewrite H. now apply (inv_unbuilt W sem s I).
    - intros m Lm Im. unfold vc. cbn [st_cache st_built]. rewrite Im, orb_false_r.
      destruct (st_built s m) eqn:Bm.
      + intros H. apply (ext_coherent W sem WF _ _ c' (Inv_coherent W sem s I) E m Lm Im H).
      + intros H. rewrite (ext_spec W sem WF _ _ _ m E Lm).
        rewrite <- (inv_coh W sem s I m Lm Im); rewrite vc_unbuilt; auto.
    - intros p d Ld Hd Bp Ip Hp.
      assert (Id: isinput d = false) by (eapply dep_noninput; eauto).
      assert (Hp0: st_cache s p = VNone) by (eapply ext_none; eauto).
      pose proof (inv_clo W sem s I p d Ld Hd Bp Ip Hp0) as Old.
      unfold vc in *. cbn [st_cache st_built]. rewrite Id, orb_false_r in *.
      destruct (st_built s d) eqn:Bd; auto.
      destruct (E d) as [H|(_&_&_&_&_&_&Fd)]; [congruence|exfalso; now apply (Fd p Hd Ip)].
  Qed.

  Lemma fext_finv s c' : FInv s -> fext (fun m => st_built s m = true) (st_cache s) c' ->
    FInv {| st_cache := c'; st_built := st_built s |}.
  Proof.
    intros [I SD] E. split.
    - apply ext_inv; auto. now apply (fext_ext W fsem fpre sem WF CP).
    - cbn [st_cache]. eapply fext_sound; eauto.
  Qed.

  (* ------------------------------------------------------------- eval_f *)
  Lemma eval_f_inv s n : FInv s -> st_built s n = true ->
    let r := eval_f (S N) (st_cache s) n in
    FInv {| st_cache := fst r; st_built := st_built s |}
    /\ snd r = fspec (st_cache s) n
    /\ fext (anceq W n) (st_cache s) (fst r).
  Proof.
    intros FI Bn. pose proof FI as [I SD]. pose proof (inv_lt W sem s I n Bn) as L.
    destruct (eval_f_top W fsem fpre sem WF NB CP (st_cache s) n L SD) as (E0 & V & _).
    cbn zeta. split; [|split; auto].
    apply fext_finv; auto. eapply fext_weaken; [|exact E0]. intros k [->|A]; auto.
    eapply anc_closed; eauto. apply (inv_deps W sem s I).
  Qed.

  (* -------------------------------------------------------------- build_f *)
  Notation bstep_f := (bstep_f W fsem fpre).

  Lemma bstep_stuck b0 b' l c e : fold_left (bstep_f b0 b') l (c, Some e) = (c, Some e).
  Proof. induction l; cbn; auto. Qed.

  Lemma bfold_f b0 b' n : n < N ->
    (forall m, b' m = true -> m < N) ->
    (forall m, b' m = true -> b0 m = false -> m = n \/ anc m n) ->
    forall l c, FSound c ->
      let r := fold_left (bstep_f b0 b') l (c, None) in
      fext (anceq W n) c (fst r) /\
      match snd r with
      | Some e => exists m, (m = n \/ anc m n) /\ m < N /\ is_raise (fspec c m) = true
      | None => forall m, In m l -> b' m && negb (b0 m) && isrange m = true -> fst r m <> VNone
      end.
  Proof.
    intros L BL FA. induction l as [|m l IHl]; intros c K; cbn [fold_left].
    - cbn. split; [apply fext_refl|intros ? []].
    - cbn [Fail.bstep_f]. destruct (b' m && negb (b0 m) && isrange m) eqn:G.
      2:{ destruct (IHl c K) as [E F]. cbn zeta in *. split; auto.
          destruct (snd (fold_left (bstep_f b0 b') l (c, None))); auto.
          intros x [->|Hx] Gx; [congruence|auto]. }
      apply andb_prop in G. destruct G as [G Rm]. apply andb_prop in G. destruct G as [Bm B0m].
      apply negb_true_iff in B0m. pose proof (BL m Bm) as Lm. pose proof (FA m Bm B0m) as Am.
      destruct (eval_f_top W fsem fpre sem WF NB CP c m Lm K) as (E & V & F).
      destruct (eval_f (S N) c m) as [c2 r]. cbn [fst snd] in E, V, F.
      assert (E': fext (anceq W n) c c2).
      { eapply fext_weaken; [|exact E]. intros k [->|A]; auto. destruct Am as [->|Am]; right; auto.
        eapply anc_anc; eauto. }
      destruct r as [v|e].
      + assert (K2: FSound c2) by (eapply fext_sound; eauto).
        destruct (IHl c2 K2) as [E2 F2]. cbn zeta in *. split; [eapply fext_trans; eauto|].
        destruct (snd (fold_left (bstep_f b0 b') l (c2, None))).
        * destruct F2 as (x & Ax & Lx & Rx). exists x. repeat split; auto.
          now rewrite <- (fext_fspec W fsem fpre WF _ c c2 x E' Lx).
        * intros x [->|Hx] Gx; [|auto].
          assert (Hx: c2 x <> VNone).
          { apply F; [now rewrite <- V|]. now apply (range_noninput W WF). }
          rewrite (fext_some W fsem fpre _ c2 _ x E2 Hx). exact Hx.
      + rewrite bstep_stuck. cbn [fst snd]. split; auto.
        exists m. repeat split; auto. now rewrite <- V.
  Qed.

  Notation new_cells := (new_cells W).

  Lemma build_f_unfold s n : build_f s n =
    let b' := closure W (S N) (st_built s) n in
    let r := fold_left (bstep_f (st_built s) b') (rorder (st_built s) n ++ seq 0 N)
                       (new_cells s b', None) in
    ({| st_cache := fst r; st_built := b' |}, snd r).
  Proof.
    unfold Fail.build_f. cbn zeta.
    destruct (fold_left _ (rorder (st_built s) n ++ seq 0 N) _). reflexivity.
  Qed.

  (* without stored results a new cell starts empty: the cache before the new
     range nodes are evaluated is the cache of the state *)
  Lemma build_c1_same s b' : Inv s -> forall m, new_cells s b' m = st_cache s m.
  Proof.
    intros I. unfold Fail.new_cells.
    assert (F: forall l c, (forall m, c m = st_cache s m) ->
               forall m, fold_left (fun (c : cache) m =>
                 if b' m && negb (st_built s m) && negb (isinput m)
                 then upd c m (if isrange m then VNone else wb_stored W m) else c) l c m = st_cache s m).
    { induction l as [|k l IHl]; intros c H; cbn [fold_left]; auto.
      apply IHl. intros m. destruct (b' k && negb (st_built s k) && negb (isinput k)) eqn:G; auto.
      apply andb_prop in G. destruct G as [G Ik]. apply andb_prop in G. destruct G as [_ Bk].
      apply negb_true_iff in Bk. apply negb_true_iff in Ik.
      destruct (Nat.eq_dec m k) as [->|NE]; [|now rewrite upd_other].
      rewrite upd_same, (inv_unbuilt W sem s I k Bk), Ik, NS. now destruct (isrange k). }
    apply F. auto.
  Qed.

  Lemma build_f_inv s n : FInv s -> n < N ->
    let r := build_f s n in
    FInv (fst r)
    /\ fext (anceq W n) (st_cache s) (st_cache (fst r))
    /\ st_built (fst r) n = true
    /\ (forall m, st_built s m = true -> st_built (fst r) m = true)
    /\ (snd r <> None -> is_raise (fspec (st_cache s) n) = true).
  Proof.
    intros [I SD] L. rewrite build_f_unfold. cbn zeta.
    set (b' := closure W (S N) (st_built s) n).
    destruct (closure_props W WF (st_built s) n L (inv_lt W sem s I) (inv_deps W sem s I))
      as (C1 & C2 & C3 & C4).
    fold b' in C1, C2, C3, C4.
    assert (FA: forall m, b' m = true -> st_built s m = false -> m = n \/ anc m n).
    { intros m Bm B0. destruct (closure_anc _ _ _ _ Bm) as [H|H]; [congruence|auto]. }
    assert (S1: FSound (new_cells s b')).
    { intros m Lm Im. rewrite (build_c1_same s b' I m). intros H.
      rewrite <- (SD m Lm Im H). apply (fspec_ext W fsem fpre WF); auto.
      intros k _. now apply build_c1_same. }
    destruct (bfold_f (st_built s) b' n L C3 FA (rorder (st_built s) n ++ seq 0 N)
                      (new_cells s b') S1) as [E F].
    set (r := fold_left (bstep_f (st_built s) b') (rorder (st_built s) n ++ seq 0 N)
                        (new_cells s b', None)) in *.
    cbn zeta in E, F. cbn [fst snd].
    assert (E0: fext (anceq W n) (st_cache s) (fst r)).
    { intros m. destruct (E m) as [H|(A1&A2&A3&A4&A5&A6&A7)].
      - left. now rewrite H, build_c1_same.
      - right. rewrite build_c1_same in A4 by auto. repeat split; auto.
        rewrite <- A5. apply (fspec_ext W fsem fpre WF); auto. intros k _. now rewrite build_c1_same. }
    assert (Eb: fext (fun m => b' m = true) (st_cache s) (fst r)).
    { eapply fext_weaken; [|exact E0]. intros k [->|A]; auto. eapply anc_closed; eauto. }
    assert (Unb: forall m, b' m = false -> st_built s m = false).
    { intros m Hm. destruct (st_built s m) eqn:B; auto. rewrite (C1 m B) in Hm. discriminate. }
    assert (S2: FSound (fst r)) by (eapply fext_sound; eauto).
    split; [|split; [exact E0|split; [exact C2|split; [exact C1|]]]].
    - split; [|exact S2]. cbn [st_cache st_built].
      pose proof (fext_ext W fsem fpre sem WF CP _ _ _ Eb) as Ex.
      split; cbn [st_cache st_built].
      + exact C3.
      + exact C4.
      + intros m Bm. destruct (Eb m) as [H|(H&_)]; [|congruence].
        rewrite H. apply (inv_unbuilt W sem s I). auto.
      + intros m Lm Im. unfold vc. cbn [st_cache st_built]. rewrite Im, orb_false_r.
        destruct (b' m) eqn:Bm.
        * intros H. apply (FSound_coherent W fsem fpre sem WF CP _ S2 m Lm Im H).
        * rewrite NS. destruct (isrange m); congruence.
      + intros p d Ld Hd Bp Ip Hp.
        assert (Id: isinput d = false) by (eapply dep_noninput; eauto).
        unfold vc. cbn [st_cache st_built]. rewrite Id, orb_false_r.
        destruct (b' d) eqn:Bd; [|rewrite NS; now destruct (isrange d)].
        destruct (Eb d) as [H|(_&_&_&_&_&_&Fd)]; [|exfalso; now apply (Fd p Hd Ip)].
        rewrite H. destruct (st_built s d) eqn:Bd'.
        * rewrite <- (vc_built W s d Bd'). apply (inv_clo W sem s I p d); auto.
          -- eapply (inv_deps W sem s I); eauto.
          -- eapply fext_none; eauto.
        * apply (inv_unbuilt W sem s I) in Bd'. now rewrite Bd', Id.
    - intros H. destruct (snd r) as [e|]; [|congruence].
      destruct F as (m & Am & Lm & Rm).
      rewrite (fspec_ext W fsem fpre WF _ (st_cache s)) in Rm; auto.
      2:{ intros k _. now apply build_c1_same. }
      destruct Am as [->|Am]; auto.
      destruct (is_raise (fspec (st_cache s) n)) eqn:Rn; auto.
      rewrite (fspec_val_anc W fsem fpre sem WF CP _ n m L Am Rn) in Rm. discriminate.
  Qed.

  (* ----------------------------------------------------------- evaluate_f *)
  Lemma evaluate_f_unfold s n : evaluate_f s n =
    match snd (build_f s n) with
    | Some e => (fst (build_f s n), FRaise e)
    | None => ({| st_cache := fst (eval_f (S N) (st_cache (fst (build_f s n))) n);
                  st_built := st_built (fst (build_f s n)) |},
               snd (eval_f (S N) (st_cache (fst (build_f s n))) n))
    end.
  Proof.
    unfold Fail.evaluate_f. destruct (build_f s n) as [s1 [e|]]; cbn [fst snd]; auto.
    destruct (eval_f (S N) (st_cache s1) n); reflexivity.
  Qed.

  (* whether it returns or raises, evaluate keeps the invariant; it returns
     exactly when the from-scratch evaluation succeeds, and then that value; the
     cache changes only at the cell and its ancestors, only from empty to the
     value of a successful from-scratch evaluation *)
  Lemma evaluate_f_inv s n : FInv s -> n < N ->
    let r := evaluate_f s n in
    FInv (fst r)
    /\ fval (snd r) = fval (fspec (st_cache s) n)
    /\ fext (anceq W n) (st_cache s) (st_cache (fst r))
    /\ (forall m, st_built s m = true -> st_built (fst r) m = true).
  Proof.
    intros FI L. cbn zeta. rewrite evaluate_f_unfold.
    destruct (build_f_inv s n FI L) as (I1 & E1 & B1 & M1 & R1). cbn zeta in *.
    destruct (snd (build_f s n)) as [e|] eqn:Sb.
    - cbn [fst snd fval]. split; auto. split; [|split; auto].
      specialize (R1 ltac:(discriminate)). destruct (fspec (st_cache s) n); [discriminate|auto].
    - destruct (eval_f_inv (fst (build_f s n)) n I1 B1) as (I2 & V2 & E2). cbn zeta in *.
      cbn [fst snd st_cache st_built]. split; auto. split; [|split; auto].
      + rewrite V2. f_equal. apply (fspec_ext W fsem fpre WF); auto.
        intros k Ik. eapply fext_inputs; eauto.
      + eapply fext_trans; eauto.
  Qed.

  (* ------------------------------------------------------------ set_value *)
  Lemma write_finv s a v : FInv s -> st_built s a = true -> isinput a = true ->
    let s' := {| st_cache := upd (reset_forced W (st_built s) a (upd (st_cache s) a v)) a v;
                 st_built := st_built s |} in
    FInv s' /\ st_cache s' a = v
    /\ (forall k, k < N -> isinput k = true -> k <> a -> st_cache s' k = st_cache s k).
  Proof.
    intros [I SD] Ba Ia. pose proof (inv_lt W sem s I a Ba) as La.
    assert (Late: late_ok W s a) by (intros d _ _ _; right; apply NS).
    destruct (write_inv W sem WF s a v I Ba Ia Late) as (I' & Wa & Wo). cbn zeta in *.
    split; [|split; auto]. split; auto. cbn [st_cache].
    set (b := st_built s) in *. set (c1 := upd (st_cache s) a v) in *.
    set (c2 := reset_forced W b a c1) in *.
    destruct (forced_props W b WF a c1 La) as (M & Na & V & D). fold c2 in M, Na, V, D.
    pose proof (forced_desc W b a c1) as Desc. fold c2 in Desc.
    assert (C1: forall m, m <> a -> c1 m = st_cache s m) by (intros; unfold c1; now apply upd_other).
    assert (K1: Closed W b c1).
    { intros p Lp Ip Hp d Hd. apply succs_spec in Hd. destruct Hd as (Ld & Bd & Hd).
      assert (Id: isinput d = false) by (eapply dep_noninput; eauto).
      assert (Hpa: p <> a) by (intros ->; congruence).
      assert (Hda: d <> a) by (intros ->; congruence).
      rewrite C1 in * by auto. rewrite <- (vc_built W s d Bd).
      apply (inv_clo W sem s I p d); auto. eapply (inv_deps W sem s I); eauto. }
    destruct (forced_closed W b WF a c1 La K1) as [K2 Ka]. fold c2 in K2, Ka.
    pose proof (closed_desc W b WF c2 a (inv_deps W sem s I) K2 Ka Na) as DescNone.
    intros m Lm Im H.
    assert (Hma: m <> a) by (intros ->; congruence).
    rewrite upd_other in * by auto.
    assert (Em: c2 m = st_cache s m) by (rewrite (mono_some c1 c2 m M H); auto).
    assert (Bm: b m = true).
    { destruct (b m) eqn:Bm; auto. unfold b in Bm.
      rewrite Em, (inv_unbuilt W sem s I m Bm), Im in H. congruence. }
    assert (NA: ~ anc a m) by (intros A; apply H; apply DescNone; auto).
    rewrite Em in *. rewrite <- (SD m Lm Im H).
    apply (fspec_agree W fsem fpre WF); auto.
    intros k Ik Ak.
    assert (Hka: k <> a).
    { intros ->. destruct Ak as [E|A]; [congruence|auto]. }
    rewrite upd_other by auto.
    destruct (Desc k) as [E|[E|(A&_&_)]]; [rewrite E; auto|congruence|].
    assert (Lk: k < N) by (destruct Ak as [->|A']; auto; pose proof (anc_lt W WF _ _ Lm A'); lia).
    rewrite (anc_noninput W WF _ _ Lk A) in Ik. discriminate.
  Qed.

  (* ------------------------------------------------ admissible operations *)
  Definition fok_op (s : state) (o : gop) : Prop :=
    match o with
    | Evaluate n => n < N
    | Build n => n < N
    | SetValue a v => st_built s a = true /\ isinput a = true
    end.

  Lemma set_value_finv s a v : FInv s -> st_built s a = true -> isinput a = true ->
    FInv (set_value W s a v).
  Proof.
    intros FI Ba Ia. rewrite set_value_unfold, Ba. cbn [negb].
    destruct (py_eq (st_cache s a) v && same_type (st_cache s a) v); auto.
    now apply write_finv.
  Qed.

  Lemma step_f_inv s o : FInv s -> fok_op s o -> FInv (fst (step_f s o)).
  Proof.
    intros FI OK. destruct o as [n|a v|n]; cbn [Fail.step_f].
    - now apply evaluate_f_inv.
    - destruct OK. cbn [fst]. now apply set_value_finv.
    - destruct (build_f_inv s n FI OK) as (I1 & _). cbn zeta in I1.
      destruct (build_f s n) as [s1 r]. exact I1.
  Qed.
End FInvSec.
