(* Proofs/C04Weak.v — C04_influence_machine under the weak non-blank condition
   of Proofs/C01Weak.v (met by a workbook with a whole-column reference, which
   does not meet sem_nonblank), by transfer: runs and single steps of the
   machine coincide for [sem] and [guard W sem].  Example: the two-column
   workbook of Proofs/C01AliasExample.v extended by one more input cell and a
   formula reading it. *)
From Coq Require Import ZArith List Arith Bool Lia.
From PV Require Import Lib.Py Model.Graph Model.ReadTrace.
From PV Require Import Proofs.C01Base Proofs.C01Inv Proofs.C01 Proofs.C01Weak Proofs.C01Alias
                       Proofs.C01Example Proofs.C01AliasExample Proofs.C04Trace Proofs.C04Graph.
Import ListNotations.
Local Open Scope nat_scope.

Section C04Weak.
  Variable W : workbook.
  Variable sem : nat -> list pyval -> pyval.
  Hypothesis WF : wf W.
  Hypothesis NBW : sem_nonblank_weak W sem.
  Hypothesis SO : stored_ok W sem.

  Notation g := (guard W sem).
  Let NB2 : sem_nonblank W g := guard_nonblank W sem NBW.
  Let AG : forall n vals, n < wb_n W -> wb_input W n = false -> args_ok W n vals ->
             sem n vals = g n vals := fun n vals _ _ H => guard_agree W sem n vals H.

  Theorem influence_machine_weak : inputs_exact W (wb_inp0 W) ->
    forall h, ok_history W sem (ok_op W) (init W) h ->
    let s := fst (run W sem (init W) h) in
    forall a v c, ok_op W s (SetValue a v) -> c < wb_n W -> ~ ancestor W a c ->
      snd (step W sem (fst (step W sem s (SetValue a v))) (Evaluate c))
      = snd (step W sem s (Evaluate c)).
  Proof.
    intros Ex h OK. cbv zeta.
    destruct (run_transfer W sem g WF NB2 AG (ok_op W) (ok_op_lt W) h (init W) OK) as [R OK2].
    rewrite R. intros a v c Oa L NA.
    rewrite !(step_guard W sem WF NBW _ (Evaluate c) L).
    change (step W sem (fst (run W g (init W) h)) (SetValue a v))
      with (step W g (fst (run W g (init W) h)) (SetValue a v)).
    apply (influence_machine W g WF NB2 (stored_ok_transfer W sem g WF NB2 AG SO) Ex h OK2 a v c Oa L NA).
  Qed.
End C04Weak.

(* ---- example (a test, not a theorem)
     0: B1 = 3   1: B2 = 4   2: B1:B2   3: B:B (reference node)
     4: A1 = f4(B:B)   5: A2 = f5(B1:B2, A1)   6: C1 = 5 (input)   7: A3 = f7(B:B, C1) *)
Definition xi_sem (n : nat) (vals : list pyval) : pyval :=
  if n =? 2 then VTuple vals
  else if n =? 3 then nth 0 vals VNone
  else VInt (Z.of_nat n + tot (VTuple vals)).
Definition xiW : workbook :=
  {| wb_n := 8;
     wb_input := fun n => (n <? 2) || (n =? 6);
     wb_deps := fun n => match n with 2 => [0; 1] | 3 => [2] | 4 => [3] | 5 => [2; 4] | 7 => [3; 6]
                                 | _ => [] end;
     wb_range := fun n => (n =? 2) || (n =? 3);
     wb_inp0 := fun n => match n with 0 => VInt 3 | 1 => VInt 4 | 6 => VInt 5 | _ => VNone end;
     wb_stored := fun _ => VNone |}.

Example xi_wf : wf xiW.
Proof. apply wfb_sound. reflexivity. Qed.
Example xi_alias : alias_node xiW xi_sem 3 2.
Proof. repeat split; try reflexivity. cbn. lia. Qed.
Example xi_not_strong : ~ sem_nonblank xiW xi_sem.
Proof. apply (alias_not_strong _ _ 3 2), xi_alias. Qed.
Example xi_weak : sem_nonblank_weak xiW xi_sem.
Proof.
  apply alias_weak. intros n L I. destruct (Nat.eq_dec n 3) as [->|NE].
  - left. exists 2. apply xi_alias.
  - right. intros vals. unfold xi_sem. destruct (n =? 2); [discriminate|].
    destruct (Nat.eqb_spec n 3); [congruence|discriminate].
Qed.
Example xi_stored : stored_ok xiW xi_sem.
Proof. split; intros; [exfalso|]; auto. Qed.
Example xi_exact : inputs_exact xiW (wb_inp0 xiW).
Proof. intros m _ _. destruct m as [|[|[|[|[|[|[|m]]]]]]]; reflexivity. Qed.

Definition xi_h : list gop := [ Evaluate 7; SetValue 0 (VInt 10); Evaluate 5 ].
Example xi_h_ok : ok_history xiW xi_sem (ok_op xiW) (init xiW) xi_h.
Proof.
  eapply ok_history_weaken; [intros s o; apply ok_free_ok; intros n; reflexivity|].
  cbn [ok_history xi_h]. repeat split; try (vm_compute; reflexivity); vm_compute; lia.
Qed.
Example xi_write_ok : ok_op xiW (fst (run xiW xi_sem (init xiW) xi_h)) (SetValue 6 (VInt 50)).
Proof. apply ok_free_ok; [intros n; reflexivity|]. repeat split; vm_compute; reflexivity. Qed.
Example xi_not_anc : ~ ancestor xiW 6 4.
Proof.
  intros A. apply ancestor_anc in A. destruct A as [A|A]; [discriminate|].
  pose proof (anc_lt xiW xi_wf 6 4 ltac:(cbn; lia) A). lia.
Qed.

(* a write to C1 leaves A1 = f4(B:B) unchanged (and changes A3) *)
Example xi_machine_influence :
  let s := fst (run xiW xi_sem (init xiW) xi_h) in
  snd (step xiW xi_sem (fst (step xiW xi_sem s (SetValue 6 (VInt 50)))) (Evaluate 4))
  = snd (step xiW xi_sem s (Evaluate 4)).
Proof.
  apply (influence_machine_weak xiW xi_sem xi_wf xi_weak xi_stored xi_exact xi_h xi_h_ok).
  - apply xi_write_ok. - cbn; lia. - apply xi_not_anc.
Qed.
Example xi_machine_nontrivial :
  let s := fst (run xiW xi_sem (init xiW) xi_h) in
  snd (step xiW xi_sem s (Evaluate 4)) = VInt 18 /\
  snd (step xiW xi_sem s (Evaluate 7)) = VInt 26 /\
  snd (step xiW xi_sem (fst (step xiW xi_sem s (SetValue 6 (VInt 50)))) (Evaluate 7)) = VInt 71.
Proof. vm_compute. repeat split; reflexivity. Qed.
