(* Proofs/C16Wrap.v — the apply_meta wrappers of MATCH / VLOOKUP / HLOOKUP /
   LOOKUP (Model/Lookup.v: cse_array_wrapper on the lookup value, nums_wrapper
   on the index / match type, error_string_wrapper) hand the call through
   unchanged when the lookup value is a scalar that is not an error code and
   the index / match type is an integer — whatever the table holds (error
   codes inside the table are not looked at by the wrappers) — and return an
   error-code lookup value itself.  So the theorems on f_match / f_vlookup /
   f_hlookup / f_lookup are theorems on the functions as pycel calls them. *)
From Coq Require Import ZArith QArith List Bool Lia.
From PV Require Import Lib.Py Proofs.PyTac Model.Ops Proofs.C10 Proofs.C10Order Proofs.C10Total
  Model.LookupCore Model.Lookup Proofs.C16.
From PV Require Gen.excelutil Gen.lookup.
Import ListNotations.
Open Scope Z_scope.

(* a lookup value the wrappers hand through *)
Definition plain_lv (v : pyval) : Prop := is_scalar v = true /\ in_error_codes v = Ok false.
(* … and one they return *)
Definition error_lv (v : pyval) : Prop := in_error_codes v = Ok true.

Lemma not_array_scalar v : is_scalar v = true -> cond_of (excelutil.f_is_array_arg v) = Ok false.
Proof. destruct v; cbn [is_scalar]; try discriminate; intros _; reflexivity. Qed.

Lemma error_is_text v : error_lv v -> exists s, v = VStr s.
Proof.
  unfold error_lv, in_error_codes, excelutil.c_ERROR_CODES.
  destruct v; cbn [py_in hashable]; intros H; try discriminate; eauto.
Qed.

Lemma is_number_int z : excelutil.f_is_number (VInt z) = Ok (VBool true).
Proof. reflexivity. Qed.
Lemma int_not_error z : py_in (VInt z) excelutil.c_ERROR_CODES = Ok false.
Proof. reflexivity. Qed.

(* error_string_wrapper on parameter 0 *)
Lemma err_param0_plain v rest E : plain_lv v ->
  err_params (0%nat :: E) (v :: rest) = err_params E (v :: rest).
Proof.
  intros [Hs He]. cbn [err_params nth_error]. unfold in_error_codes in He.
  destruct v; cbn [is_scalar] in Hs; try discriminate; try reflexivity.
  rewrite He. reflexivity.
Qed.
Lemma err_param0_error v rest E : error_lv v -> err_params (0%nat :: E) (v :: rest) = Ok (Some v).
Proof.
  intros He. destruct (error_is_text v He) as (s & ->). cbn [err_params nth_error].
  unfold error_lv, in_error_codes in He. rewrite He. reflexivity.
Qed.

(* nums_wrapper on an integer in position 2 *)
Lemma nums2_int f v t k rest :
  nums_wrapper [2%nat] f (v :: t :: VInt k :: rest) = f (v :: t :: VInt k :: rest).
Proof.
  unfold nums_wrapper.
  set (cf := fun (i : nat) (a : pyval) =>
               if in_idx i [2%nat] then excelutil.f_coerce_to_number py_fuel a (VBool true) else Ok a).
  assert (Hrest : forall i l, map_idx cf (S (S (S i))) l = Ok l).
  { intros i l. revert i. induction l as [|a l IH]; intros i; [reflexivity|].
    cbn [map_idx]. unfold cf at 1. cbn [in_idx existsb Nat.eqb orb bind]. rewrite (IH (S i)). reflexivity. }
  cbn [map_idx]. unfold cf at 1 2 3. cbn [in_idx existsb Nat.eqb orb bind]. rewrite coerce_int. cbn [bind].
  rewrite (Hrest 0%nat rest). cbn [bind].
  assert (Hfc : forall i l, first_code [2%nat] (S (S (S i))) l = Ok None).
  { intros i l. revert i. induction l as [|a l IH]; intros i; [reflexivity|].
    cbn [first_code in_idx existsb Nat.eqb orb]. apply IH. }
  cbn [first_code in_idx existsb Nat.eqb orb]. rewrite int_not_error. cbn [bind].
  rewrite (Hfc 0%nat rest). cbn [bind].
  assert (Hnn : forall i l, any_not_number [2%nat] (S (S (S i))) l = Ok false).
  { intros i l. revert i. induction l as [|a l IH]; intros i; [reflexivity|].
    cbn [any_not_number in_idx existsb Nat.eqb orb]. apply IH. }
  cbn [any_not_number in_idx existsb Nat.eqb orb]. rewrite is_number_int.
  cbn [cond_of bind py_truthy]. rewrite (Hnn 0%nat rest). reflexivity.
Qed.

(* MATCH *)
Theorem X_match_plain v arr mt : plain_lv v ->
  X_match [v; arr; VInt mt] = lookup.f_match v arr (VInt mt).
Proof.
  intros Hv. unfold X_match, cse0. rewrite (not_array_scalar v (proj1 Hv)). cbn [bind].
  rewrite nums2_int. unfold err_wrapper. rewrite (err_param0_plain v _ _ Hv). reflexivity.
Qed.
Theorem X_match_error v arr mt : error_lv v -> X_match [v; arr; VInt mt] = Ok v.
Proof.
  intros Hv. destruct (error_is_text v Hv) as (s & ->). unfold X_match, cse0.
  rewrite (not_array_scalar (VStr s) eq_refl). cbn [bind].
  rewrite nums2_int. unfold err_wrapper. rewrite (err_param0_error _ _ _ Hv). reflexivity.
Qed.

(* VLOOKUP / HLOOKUP, range_lookup given as a logical *)
Theorem X_vlookup_plain v t k r : plain_lv v ->
  X_vlookup [v; t; VInt k; VBool r] = lookup.f_vlookup v t (VInt k) (VBool r).
Proof.
  intros Hv. unfold X_vlookup, cse0. rewrite (not_array_scalar v (proj1 Hv)). cbn [bind].
  rewrite nums2_int. unfold err_wrapper. rewrite (err_param0_plain v _ _ Hv). reflexivity.
Qed.
Theorem X_hlookup_plain v t k r : plain_lv v ->
  X_hlookup [v; t; VInt k; VBool r] = lookup.f_hlookup v t (VInt k) (VBool r).
Proof.
  intros Hv. unfold X_hlookup, cse0. rewrite (not_array_scalar v (proj1 Hv)). cbn [bind].
  rewrite nums2_int. unfold err_wrapper. rewrite (err_param0_plain v _ _ Hv). reflexivity.
Qed.
Theorem X_vlookup_error v t k r : error_lv v -> X_vlookup [v; t; VInt k; VBool r] = Ok v.
Proof.
  intros Hv. destruct (error_is_text v Hv) as (s & ->). unfold X_vlookup, cse0.
  rewrite (not_array_scalar (VStr s) eq_refl). cbn [bind].
  rewrite nums2_int. unfold err_wrapper. rewrite (err_param0_error _ _ _ Hv). reflexivity.
Qed.

(* LOOKUP, both forms *)
Theorem X_lookup_plain v arr rr : plain_lv v ->
  X_lookup [v; arr; rr] = lookup.f_lookup v arr rr /\ X_lookup [v; arr] = lookup.f_lookup v arr VNone.
Proof.
  intros Hv. unfold X_lookup, cse0. rewrite (not_array_scalar v (proj1 Hv)). cbn [bind].
  unfold err_wrapper. rewrite !(err_param0_plain v _ _ Hv). split; reflexivity.
Qed.
Theorem X_lookup_error v arr rr : error_lv v -> X_lookup [v; arr; rr] = Ok v.
Proof.
  intros Hv. destruct (error_is_text v Hv) as (s & ->). unfold X_lookup, cse0.
  rewrite (not_array_scalar (VStr s) eq_refl). cbn [bind].
  unfold err_wrapper. rewrite (err_param0_error _ _ _ Hv). reflexivity.
Qed.

Theorem X_error_lookup_value v arr mt t k r rr : error_lv v ->
  X_match [v; arr; VInt mt] = Ok v /\ X_vlookup [v; t; VInt k; VBool r] = Ok v
  /\ X_lookup [v; arr; rr] = Ok v.
Proof.
  intros H. split; [apply X_match_error; exact H|]. split; [apply X_vlookup_error; exact H|].
  apply X_lookup_error. exact H.
Qed.

(* examples (non-vacuity) *)
Example ex_plain_lv : plain_lv (VFloat (5 # 2)) /\ plain_lv s_a /\ plain_lv VNone /\ plain_lv (VBool true).
Proof. repeat split. Qed.
Example ex_error_lv : error_lv excelutil.c_DIV0.
Proof. reflexivity. Qed.
Example ex_X_match :
  X_match [VInt 2; VTuple [VTuple [VInt 1]; VTuple [VInt 2]; VTuple [VInt 3]]; VInt 0] = Ok (VInt 2).
Proof. vm_compute. reflexivity. Qed.
