(* Proofs/C18.v — radix conversions (generated engineering.v) are exact
   inverses on the 10-digit two's-complement range. *)
From Coq Require Import ZArith QArith List Bool Lia.
From PV Require Import Lib.Py Proofs.Radix Proofs.PyTac.
From PV Require Gen.excelutil Gen.engineering.
Import ListNotations.
Open Scope Z_scope.

Definition wrap (m n : Z) : Z := if n <? 0 then n + 2 * m else n.
Definition udigits (b n : Z) : list Z := map ascii_upper (digits b n).

(* ------------------------------------------------------------ two's complement *)
Lemma land_pow2 v k : 0 <= k -> 0 <= v < 2^(k+1) -> Z.land v (2^k) = if v <? 2^k then 0 else 2^k.
Proof.
  intros Hk [H0 H1].
  assert (P: 0 < 2^k) by (apply Z.pow_pos_nonneg; lia).
  assert (E: 2^(k+1) = 2 * 2^k) by (rewrite Z.pow_add_r; lia).
  apply Z.bits_inj'. intros n Hn. rewrite Z.land_spec, Z.pow2_bits_eqb by lia.
  destruct (Z.ltb_spec v (2^k)).
  - rewrite Z.bits_0. destruct (Z.eqb_spec k n); [subst|apply andb_false_r].
    rewrite andb_true_r. destruct (Z.eq_dec v 0); [subst; apply Z.bits_0|].
    apply Z.bits_above_log2; try lia. apply Z.log2_lt_pow2; lia.
  - rewrite Z.pow2_bits_eqb by lia. destruct (Z.eqb_spec k n); [subst|apply andb_false_r].
    rewrite andb_true_r. apply Z.testbit_true; try lia.
    assert (1 = v / 2^n) as <- by (apply Z.div_unique with (r := v - 2^n); lia). reflexivity.
Qed.
Lemma twos v k : 0 <= k -> 0 <= v < 2^(k+1) ->
  Z.land v (Z.lnot (2^k)) - Z.land v (2^k) = if v <? 2^k then v else v - 2^(k+1).
Proof.
  intros Hk H. assert (E: 2^(k+1) = 2 * 2^k) by (rewrite Z.pow_add_r; lia).
  assert (S: Z.land v (Z.lnot (2^k)) = v - Z.land v (2^k)).
  { assert (D: Z.land (Z.land v (Z.lnot (2^k))) (Z.land v (2^k)) = 0).
    { apply Z.bits_inj'. intros n Hn. rewrite !Z.land_spec, Z.lnot_spec, Z.bits_0 by lia.
      destruct (Z.testbit v n), (Z.testbit (2^k) n); auto. }
    apply Z.add_nocarry_lxor in D.
    assert (X: Z.lxor (Z.land v (Z.lnot (2^k))) (Z.land v (2^k)) = v).
    { apply Z.bits_inj'. intros n Hn. rewrite Z.lxor_spec, !Z.land_spec, Z.lnot_spec by lia.
      destruct (Z.testbit v n), (Z.testbit (2^k) n); auto. }
    lia. }
  rewrite S, land_pow2 by auto. destruct (v <? 2^k); lia.
Qed.

(* --------------------------------------------------- facts about digit text *)
Lemma dchar_range b d : 0 <= d < b -> b <= 16 ->
  let c := ascii_upper (dchar d) in (48 <= c <= 57 \/ 65 <= c <= 70).
Proof.
  intros H Hb. unfold ascii_upper, dchar. cbv zeta.
  destruct (d <? 10) eqn:E; [apply Z.ltb_lt in E|apply Z.ltb_ge in E].
  - replace ((97 <=? 48 + d) && (48 + d <=? 122)) with false; [lia|].
    symmetry. apply andb_false_iff. left. apply Z.leb_gt. lia.
  - replace ((97 <=? 97 + d - 10) && (97 + d - 10 <=? 122)) with true; [lia|].
    symmetry. apply andb_true_iff. split; apply Z.leb_le; lia.
Qed.

Definition digit_text (b : Z) (U : list Z) : Prop :=
  exists D, U = map ascii_upper D /\ D <> []
            /\ Forall (fun c => exists d, c = dchar d /\ 0 <= d < b) D.

Lemma digit_text_chars b U : 2 <= b <= 16 -> digit_text b U ->
  Forall (fun c => 48 <= c <= 57 \/ 65 <= c <= 70) U /\ U <> [].
Proof.
  intros Hb (D & -> & Hne & Hall). split.
  - clear Hne. induction Hall as [|c D (d & -> & Hd) _ IH]; cbn [map]; constructor.
    + apply (dchar_range b); lia.
    + exact IH.
  - destruct D; [congruence|discriminate].
Qed.

Lemma forall_chars_existsb (P : Z -> Prop) (f : Z -> bool) U :
  Forall P U -> (forall c, P c -> f c = false) -> existsb f U = false.
Proof.
  intros H Hf. induction H as [|c U Hc _ IH]; [reflexivity|].
  cbn [existsb]. rewrite (Hf c Hc), IH. reflexivity.
Qed.

Definition hexchar (c : Z) : Prop := 48 <= c <= 57 \/ 65 <= c <= 70.

Lemma hex_non_ascii U : Forall hexchar U -> non_ascii U = false.
Proof.
  intros H. apply (forall_chars_existsb hexchar); [exact H|].
  intros c Hc. apply Z.ltb_ge. unfold hexchar in Hc. lia.
Qed.

Lemma hex_not_space c : hexchar c -> is_space c = false.
Proof.
  unfold hexchar, is_space. intros H.
  replace (c =? 32) with false by (symmetry; apply Z.eqb_neq; lia).
  replace (c <=? 13) with false by (symmetry; apply Z.leb_gt; lia).
  replace (c <=? 31) with false by (symmetry; apply Z.leb_gt; lia).
  rewrite !andb_false_r. reflexivity.
Qed.

Lemma lstrip_hex U : Forall hexchar U -> lstrip U = U.
Proof.
  intros H. destruct H as [|c U Hc _]; [reflexivity|].
  cbn [lstrip]. rewrite hex_not_space by exact Hc. reflexivity.
Qed.

Lemma strip_hex U : Forall hexchar U -> strip U = U.
Proof.
  intros H. unfold strip. rewrite (lstrip_hex U H).
  rewrite lstrip_hex by (apply Forall_rev; exact H).
  apply rev_involutive.
Qed.

Lemma str_eqb_hash U t : Forall hexchar U -> str_eqb U (35 :: t) = false.
Proof.
  intros H. destruct H as [|c U Hc _]; [reflexivity|].
  cbn [str_eqb]. unfold hexchar in Hc.
  replace (c =? 35) with false by (symmetry; apply Z.eqb_neq; lia). reflexivity.
Qed.

(* int(U, b) on upper-case digit text *)
Lemma int_base_digit_text b U D : (b = 2 \/ b = 8 \/ b = 16) ->
  U = map ascii_upper D -> D <> [] ->
  Forall (fun c => exists d, c = dchar d /\ 0 <= d < b) D ->
  py_int_base U b = Ok (VInt (horner b 0 D)).
Proof.
  intros Hb -> Hne Hall.
  assert (Hb' : 2 <= b <= 16) by lia.
  assert (Hb'' : 2 <= b <= 36) by lia.
  destruct (digit_text_chars b (map ascii_upper D) Hb') as [Hhex HneU].
  { exists D. repeat split; assumption. }
  unfold py_int_base. rewrite (hex_non_ascii _ Hhex), (strip_hex _ Hhex).
  pose proof (parse_digits_valid b Hb'' D 0 false Hall (or_introl Hne)) as Hp.
  destruct D as [|c0 D]; [congruence|]. cbn [map] in *.
  inversion Hhex as [|? ? Hc0 Hrest]; subst.
  assert (H45 : ascii_upper c0 <> 45 /\ ascii_upper c0 <> 43) by (unfold hexchar in Hc0; lia).
  destruct H45 as [H45 H43].
  destruct (ascii_upper c0) as [|p|p] eqn:Ec; try (unfold hexchar in Hc0; lia).
  (* first character is a positive code point, not '-' or '+' *)
  assert (Hsign : forall T (x y z : T),
            match Zpos p with 45 => x | 43 => y | _ => z end = z).
  { intros. destruct p as [p|p|]; try reflexivity;
      repeat (destruct p as [p|p|]; try reflexivity); congruence. }
  assert (Hpre : base_prefix b (Zpos p :: map ascii_upper D) = None).
  { destruct (Z.eq_dec (Zpos p) 48) as [E48|N48].
    2:{ unfold base_prefix. destruct p as [p|p|]; try reflexivity;
        repeat (destruct p as [p|p|]; try reflexivity); congruence. }
    injection E48 as ->. unfold base_prefix. destruct D as [|c1 D]; [reflexivity|]. cbn [map].
    inversion Hall as [|? ? _ Hall1]; subst.
    inversion Hall1 as [|? ? (d1 & -> & Hd1) _]; subst.
    pose proof (dchar_range b d1 Hd1 ltac:(lia)) as Hr. cbv zeta in Hr.
    set (c := ascii_upper (dchar d1)) in *.
    assert (Hlc : (if (65 <=? c) && (c <=? 90) then c + 32 else c) <> 98 \/ b <> 2).
    { destruct Hb as [Hb2|[Hb8|Hb16]]; [left; subst b|right; lia|right; lia].
      (* base 2: digits are 0/1 *)
      subst c. unfold ascii_upper, dchar.
      replace (d1 <? 10) with true by (symmetry; apply Z.ltb_lt; lia).
      replace ((97 <=? 48 + d1) && (48 + d1 <=? 122)) with false
        by (symmetry; apply andb_false_iff; left; apply Z.leb_gt; lia).
      replace ((65 <=? 48 + d1) && (48 + d1 <=? 90)) with false
        by (symmetry; apply andb_false_iff; left; apply Z.leb_gt; lia).
      lia. }
    assert (Hlc8 : (if (65 <=? c) && (c <=? 90) then c + 32 else c) <> 111).
    { destruct ((65 <=? c) && (c <=? 90)); lia. }
    assert (Hlc16 : (if (65 <=? c) && (c <=? 90) then c + 32 else c) <> 120).
    { destruct ((65 <=? c) && (c <=? 90)); lia. }
    set (lc := if (65 <=? c) && (c <=? 90) then c + 32 else c) in *.
    replace (lc =? 111) with false by (symmetry; apply Z.eqb_neq; lia).
    replace (lc =? 120) with false by (symmetry; apply Z.eqb_neq; lia).
    rewrite !andb_false_r. cbn [orb].
    destruct Hlc as [Hlc|Hlc].
    - replace (lc =? 98) with false by (symmetry; apply Z.eqb_neq; lia).
      rewrite andb_false_r. reflexivity.
    - replace (b =? 2) with false by (symmetry; apply Z.eqb_neq; lia). reflexivity. }
  rewrite Hsign. rewrite Hpre. rewrite Hp. reflexivity.
Qed.

(* ---------------------------------------------- symbolic execution: base2dec *)
Ltac unfold_eng :=
  unfold engineering.f__base2dec, engineering.f__dec2base, engineering.f__base2base,
         engineering.c__SIZE_MASK, engineering.c__BASE_TO_FUNC, engineering.c__BASE_DIGITS,
         excelutil.c_ERROR_CODES, excelutil.c_EMPTY.

Lemma gen_all_chars (cond : pyval -> res bool) U :
  Forall (fun c => cond (VStr [c]) = Ok true) U ->
  gen_all cond (map (fun c => VStr [c]) U) = Ok true.
Proof.
  induction 1 as [|c U Hc _ IH]; [reflexivity|].
  cbn [map gen_all bind]. rewrite Hc. cbn [bind]. exact IH.
Qed.

Definition in_alphabet (alpha : list Z) (c : Z) : Prop := str_contains [c] alpha = true.

Lemma alphabet_ok b alpha D :
  (forall d, 0 <= d < b -> in_alphabet alpha (ascii_upper (dchar d))) ->
  Forall (fun c => exists d, c = dchar d /\ 0 <= d < b) D ->
  Forall (fun c => (fun v_c => py_in v_c (VStr alpha)) (VStr [c]) = Ok true) (map ascii_upper D).
Proof.
  intros Ha Hall. induction Hall as [|c D (d & -> & Hd) _ IH]; cbn [map]; constructor; [|exact IH].
  cbn [py_in]. f_equal. apply Ha. exact Hd.
Qed.

Lemma small_cases d b : 0 <= d < b -> b <= 16 ->
  d = 0 \/ d = 1 \/ d = 2 \/ d = 3 \/ d = 4 \/ d = 5 \/ d = 6 \/ d = 7 \/ d = 8 \/ d = 9
  \/ d = 10 \/ d = 11 \/ d = 12 \/ d = 13 \/ d = 14 \/ d = 15.
Proof. lia. Qed.

Ltac alpha_tac :=
  intros d Hd; unfold in_alphabet;
  destruct (small_cases d _ Hd ltac:(lia)) as
    [->|[->|[->|[->|[->|[->|[->|[->|[->|[->|[->|[->|[->|[->|[->| ->]]]]]]]]]]]]]]];
  first [reflexivity | lia].

Lemma alpha2 : forall d, 0 <= d < 2 -> in_alphabet [48; 49] (ascii_upper (dchar d)).
Proof. alpha_tac. Qed.
Lemma alpha8 : forall d, 0 <= d < 8 ->
  in_alphabet [48; 49; 50; 51; 52; 53; 54; 55] (ascii_upper (dchar d)).
Proof. alpha_tac. Qed.
Lemma alpha16 : forall d, 0 <= d < 16 ->
  in_alphabet [48; 49; 50; 51; 52; 53; 54; 55; 56; 57; 65; 66; 67; 68; 69; 70;
               97; 98; 99; 100; 101; 102] (ascii_upper (dchar d)).
Proof. alpha_tac. Qed.

Ltac base2dec_text_tac b D alpha_lemma Hne Hall Hlen :=
  let U := constr:(map ascii_upper D) in
  assert (Hhex : Forall hexchar (map ascii_upper D))
    by (apply (digit_text_chars b); [lia|exists D; repeat split; assumption]);
  pose proof (int_base_digit_text b _ D ltac:(lia) eq_refl Hne Hall) as Hint;
  pose proof (alphabet_ok b _ D alpha_lemma Hall) as Halpha;
  unfold_eng; py_run; rewrite !(str_eqb_hash _ _ Hhex); py_run;
  match goal with |- context [?x <=? 10] =>
    replace (x <=? 10) with true by (symmetry; apply Z.leb_le; exact Hlen) end;
  py_run;
  rewrite gen_all_chars by (exact Halpha); py_run;
  rewrite Hint; py_run;
  match goal with |- context [0 <=? ?v] =>
    replace (0 <=? v) with true; [|symmetry; apply Z.leb_le] end;
  [py_run; reflexivity|].

Lemma horner_nonneg b D : 0 <= b <= 36 ->
  Forall (fun c => exists d, c = dchar d /\ 0 <= d < b) D -> forall a, 0 <= a -> 0 <= horner b a D.
Proof.
  intros Hb Hall. induction Hall as [|c D (d & -> & Hd) _ IH]; intros a Ha; [exact Ha|].
  unfold horner in *. cbn [fold_left]. apply IH.
  rewrite (dchar_valid b) by lia.
  assert (0 <= a * b) by (apply Z.mul_nonneg_nonneg; lia). lia.
Qed.

Definition mask_decode (m v : Z) : Z := Z.land v (Z.lnot m) - Z.land v m.

Lemma base2dec_text_2 D : D <> [] ->
  Forall (fun c => exists d, c = dchar d /\ 0 <= d < 2) D -> zlen (map ascii_upper D) <= 10 ->
  engineering.f__base2dec (VStr (map ascii_upper D)) (VInt 2)
  = Ok (VInt (mask_decode 512 (horner 2 0 D))).
Proof.
  intros Hne Hall Hlen. base2dec_text_tac 2 D alpha2 Hne Hall Hlen.
  apply horner_nonneg; [lia|exact Hall|lia].
Qed.
Lemma base2dec_text_8 D : D <> [] ->
  Forall (fun c => exists d, c = dchar d /\ 0 <= d < 8) D -> zlen (map ascii_upper D) <= 10 ->
  engineering.f__base2dec (VStr (map ascii_upper D)) (VInt 8)
  = Ok (VInt (mask_decode 536870912 (horner 8 0 D))).
Proof.
  intros Hne Hall Hlen. base2dec_text_tac 8 D alpha8 Hne Hall Hlen.
  apply horner_nonneg; [lia|exact Hall|lia].
Qed.
Lemma base2dec_text_16 D : D <> [] ->
  Forall (fun c => exists d, c = dchar d /\ 0 <= d < 16) D -> zlen (map ascii_upper D) <= 10 ->
  engineering.f__base2dec (VStr (map ascii_upper D)) (VInt 16)
  = Ok (VInt (mask_decode 549755813888 (horner 16 0 D))).
Proof.
  intros Hne Hall Hlen. base2dec_text_tac 16 D alpha16 Hne Hall Hlen.
  apply horner_nonneg; [lia|exact Hall|lia].
Qed.

(* ---------------------------------------------- symbolic execution: dec2base *)
Lemma digits_hex b n : 2 <= b <= 16 -> 0 <= n -> Forall hexchar (udigits b n).
Proof.
  intros Hb Hn. destruct (digits_spec b ltac:(lia) n Hn) as (D & HD & Hne & _ & Hall & _ & _ & _).
  apply (digit_text_chars b); [lia|]. exists D. unfold udigits. rewrite HD. auto.
Qed.

Lemma digits_lower_ascii b n : 2 <= b <= 16 -> 0 <= n -> non_ascii (digits b n) = false.
Proof.
  intros Hb Hn. destruct (digits_spec b ltac:(lia) n Hn) as (D & HD & _ & _ & Hall & _ & _ & _).
  rewrite HD. apply (forall_chars_existsb (fun c => exists d, c = dchar d /\ 0 <= d < b)); [exact Hall|].
  intros c (d & -> & Hd). apply Z.ltb_ge. unfold dchar. destruct (d <? 10) eqn:E;
    [apply Z.ltb_lt in E|apply Z.ltb_ge in E]; lia.
Qed.

Lemma zfill_short s k : k <= zlen s -> str_zfill (VStr s) (VInt k) = Ok (VStr s).
Proof.
  intros H. unfold str_zfill. cbn [as_index].
  replace (Z.to_nat (k - zlen s)) with O by lia.
  destruct s as [|c s]; [reflexivity|]. cbn [repeat app].
  destruct ((c =? 43) || (c =? 45)); reflexivity.
Qed.

Ltac dec2base_int_tac n m b Hr :=
  unfold_eng; py_run;
  match goal with |- context [?a <=? n] => replace (a <=? n) with true by (symmetry; apply Z.leb_le; lia) end;
  replace (n <? m) with true by (symmetry; apply Z.ltb_lt; lia);
  cbn [negb bind b_not]; unfold wrap;
  destruct (n <? 0) eqn:En; [apply Z.ltb_lt in En|apply Z.ltb_ge in En]; py_run;
  repeat match goal with
  | |- context [prefixed (?x <? 0)] =>
      replace (x <? 0) with false by (symmetry; apply Z.ltb_ge; lia)
  end;
  unfold prefixed; cbn [app]; rewrite slice_drop2; unfold str_upper;
  match goal with |- context [digits b (Z.abs ?x)] =>
    rewrite (Z.abs_eq x) by lia;
    rewrite (digits_lower_ascii b x) by lia;
    cbn [bind];
    rewrite zfill_short by (unfold zlen; lia);
    match goal with |- context [udigits b ?y] => replace y with x by lia end; reflexivity
  end.

Lemma dec2base_int_2 n : -512 <= n < 512 ->
  engineering.f__dec2base (VInt n) VNone (VInt 2) = Ok (VStr (udigits 2 (wrap 512 n))).
Proof. intros Hr. dec2base_int_tac n 512 2 Hr. Qed.
Lemma dec2base_int_8 n : -536870912 <= n < 536870912 ->
  engineering.f__dec2base (VInt n) VNone (VInt 8) = Ok (VStr (udigits 8 (wrap 536870912 n))).
Proof. intros Hr. dec2base_int_tac n 536870912 8 Hr. Qed.
Lemma dec2base_int_16 n : -549755813888 <= n < 549755813888 ->
  engineering.f__dec2base (VInt n) VNone (VInt 16) = Ok (VStr (udigits 16 (wrap 549755813888 n))).
Proof. intros Hr. dec2base_int_tac n 549755813888 16 Hr. Qed.

(* ----------------------------------------------------------- the theorems *)
Lemma mask_decode_wrap k n : 0 <= k -> - 2 ^ k <= n < 2 ^ k ->
  mask_decode (2 ^ k) (wrap (2 ^ k) n) = n.
Proof.
  intros Hk Hn. unfold mask_decode, wrap.
  assert (E : 2 ^ (k + 1) = 2 * 2 ^ k) by (rewrite Z.pow_add_r; lia).
  destruct (n <? 0) eqn:En; [apply Z.ltb_lt in En|apply Z.ltb_ge in En].
  - rewrite twos by lia.
    replace (n + 2 * 2 ^ k <? 2 ^ k) with false by (symmetry; apply Z.ltb_ge; lia). lia.
  - rewrite twos by lia.
    replace (n <? 2 ^ k) with true by (symmetry; apply Z.ltb_lt; lia). reflexivity.
Qed.

Lemma wrap_range k n : 0 <= k -> - 2 ^ k <= n < 2 ^ k -> 0 <= wrap (2 ^ k) n < 2 ^ (k + 1).
Proof.
  intros Hk Hn. unfold wrap.
  assert (E : 2 ^ (k + 1) = 2 * 2 ^ k) by (rewrite Z.pow_add_r; lia).
  destruct (n <? 0) eqn:En; [apply Z.ltb_lt in En|apply Z.ltb_ge in En]; lia.
Qed.

Ltac roundtrip_tac b k m dec2 b2d n Hn :=
  rewrite dec2 by exact Hn; cbn [bind]; unfold udigits;
  let Hw := fresh "Hw" in
  assert (Hw : 0 <= wrap m n < 2 ^ (k + 1))
    by (change m with (2 ^ k); apply wrap_range; [lia|exact Hn]);
  destruct (digits_spec b ltac:(lia) (wrap m n) ltac:(apply Hw))
    as (D & HD & Hne & Hv & Hall & Hlen & _ & _);
  rewrite HD;
  rewrite b2d; [| exact Hne | exact Hall | ];
  [ rewrite Hv; f_equal; f_equal; change m with (2 ^ k);
    apply (mask_decode_wrap k n); [lia|exact Hn]
  | unfold zlen; rewrite map_length; apply Hlen; [lia|] ].

Lemma roundtrip_2 n : -512 <= n < 512 ->
  bind (engineering.f_dec2bin (VInt n) VNone) engineering.f_bin2dec = Ok (VInt n).
Proof.
  intros Hn. unfold engineering.f_dec2bin, engineering.f_bin2dec.
  roundtrip_tac 2 9 512 dec2base_int_2 base2dec_text_2 n Hn.
  change (2 ^ 10) with (2 ^ (9 + 1)). apply Hw.
Qed.
Lemma roundtrip_8 n : -536870912 <= n < 536870912 ->
  bind (engineering.f_dec2oct (VInt n) VNone) engineering.f_oct2dec = Ok (VInt n).
Proof.
  intros Hn. unfold engineering.f_dec2oct, engineering.f_oct2dec.
  roundtrip_tac 8 29 536870912 dec2base_int_8 base2dec_text_8 n Hn.
  change (8 ^ 10) with (2 ^ (29 + 1)). apply Hw.
Qed.
Lemma roundtrip_16 n : -549755813888 <= n < 549755813888 ->
  bind (engineering.f_dec2hex (VInt n) VNone) engineering.f_hex2dec = Ok (VInt n).
Proof.
  intros Hn. unfold engineering.f_dec2hex, engineering.f_hex2dec.
  roundtrip_tac 16 39 549755813888 dec2base_int_16 base2dec_text_16 n Hn.
  change (16 ^ 10) with (2 ^ (39 + 1)). apply Hw.
Qed.

(* negative numbers: exactly ten digits, those of n + 2^(k+1) *)
Lemma pow_lt_exp b x y : 2 <= b -> 0 <= x -> 0 <= y -> b ^ x < b ^ y -> x < y.
Proof. intros Hb Hx Hy H. apply (Z.pow_lt_mono_r_iff b); lia. Qed.

Lemma ten_digits b k m n : (b = 2 /\ k = 9 \/ b = 8 /\ k = 29 \/ b = 16 /\ k = 39) ->
  m = 2 ^ k -> - m <= n < 0 -> zlen (udigits b (n + 2 * m)) = 10.
Proof.
  intros Hb -> Hn.
  assert (Hb2 : 2 <= b <= 36) by lia.
  assert (Hk : 0 <= k) by lia.
  assert (E : 2 ^ (k + 1) = 2 * 2 ^ k) by (rewrite Z.pow_add_r; lia).
  assert (Hpos : 0 < 2 ^ k) by (apply Z.pow_pos_nonneg; lia).
  destruct (digits_spec b Hb2 (n + 2 * 2 ^ k) ltac:(lia)) as (D & HD & Hne & _ & _ & Hlen & Hlow & Hup).
  unfold udigits, zlen. rewrite map_length, HD.
  assert (H10 : 2 * 2 ^ k = b ^ 10).
  { destruct Hb as [[-> ->]|[[-> ->]|[-> ->]]]; reflexivity. }
  assert (H9 : b ^ 9 <= 2 ^ k).
  { destruct Hb as [[-> ->]|[[-> ->]|[-> ->]]]; vm_compute; discriminate. }
  assert (Z.of_nat (length D) <= 10) by (apply Hlen; lia).
  assert (1 <= Z.of_nat (length D)) by (destruct D; [congruence|cbn [length]; lia]).
  assert (9 < Z.of_nat (length D)).
  { apply (pow_lt_exp b); lia. }
  lia.
Qed.

Lemma twos_complement_2 n : -512 <= n < 0 ->
  exists U, engineering.f_dec2bin (VInt n) VNone = Ok (VStr U)
            /\ U = udigits 2 (n + 1024) /\ zlen U = 10.
Proof.
  intros Hn. exists (udigits 2 (n + 1024)). unfold engineering.f_dec2bin.
  rewrite dec2base_int_2 by lia. unfold wrap.
  replace (n <? 0) with true by (symmetry; apply Z.ltb_lt; lia).
  repeat split. apply (ten_digits 2 9 512 n); [lia|reflexivity|lia].
Qed.
Lemma twos_complement_8 n : -536870912 <= n < 0 ->
  exists U, engineering.f_dec2oct (VInt n) VNone = Ok (VStr U)
            /\ U = udigits 8 (n + 1073741824) /\ zlen U = 10.
Proof.
  intros Hn. exists (udigits 8 (n + 1073741824)). unfold engineering.f_dec2oct.
  rewrite dec2base_int_8 by lia. unfold wrap.
  replace (n <? 0) with true by (symmetry; apply Z.ltb_lt; lia).
  repeat split. apply (ten_digits 8 29 536870912 n); [lia|reflexivity|lia].
Qed.
Lemma twos_complement_16 n : -549755813888 <= n < 0 ->
  exists U, engineering.f_dec2hex (VInt n) VNone = Ok (VStr U)
            /\ U = udigits 16 (n + 1099511627776) /\ zlen U = 10.
Proof.
  intros Hn. exists (udigits 16 (n + 1099511627776)). unfold engineering.f_dec2hex.
  rewrite dec2base_int_16 by lia. unfold wrap.
  replace (n <? 0) with true by (symmetry; apply Z.ltb_lt; lia).
  repeat split. apply (ten_digits 16 39 549755813888 n); [lia|reflexivity|lia].
Qed.

(* out-of-range numbers are #NUM!, whatever "places" is *)
Ltac reject_tac n :=
  unfold_eng; py_run;
  match goal with |- context [?a <=? n] =>
    destruct (a <=? n) eqn:E1; [apply Z.leb_le in E1|apply Z.leb_gt in E1] end;
  cbn [bind b_not negb];
  [ match goal with |- context [n <? ?m] =>
      replace (n <? m) with false by (symmetry; apply Z.ltb_ge; lia) end | ];
  cbn [bind b_not negb]; reflexivity.

Lemma reject_range_2 n p : ~ (-512 <= n < 512) ->
  engineering.f__dec2base (VInt n) p (VInt 2) = Ok excelutil.c_NUM_ERROR.
Proof. intros H. reject_tac n. Qed.
Lemma reject_range_8 n p : ~ (-536870912 <= n < 536870912) ->
  engineering.f__dec2base (VInt n) p (VInt 8) = Ok excelutil.c_NUM_ERROR.
Proof. intros H. reject_tac n. Qed.
Lemma reject_range_16 n p : ~ (-549755813888 <= n < 549755813888) ->
  engineering.f__dec2base (VInt n) p (VInt 16) = Ok excelutil.c_NUM_ERROR.
Proof. intros H. reject_tac n. Qed.

(* text: too long, or a character outside the alphabet -> #NUM! *)
Definition not_code (s : list Z) : Prop := match s with 35 :: _ => False | _ => True end.

Lemma str_eqb_not_code s t : not_code s -> str_eqb s (35 :: t) = false.
Proof.
  destruct s as [|c s]; [reflexivity|]. cbn [not_code str_eqb]. intros H.
  destruct (Z.eqb_spec c 35) as [->|]; [contradiction|reflexivity].
Qed.

Lemma gen_all_chars_false cond alpha s :
  (forall c, cond (VStr [c]) = Ok (str_contains [c] alpha)) ->
  (exists c, In c s /\ str_contains [c] alpha = false) ->
  gen_all cond (map (fun c => VStr [c]) s) = Ok false.
Proof.
  intros Hcond. induction s as [|c s IH]; intros (x & Hin & Hx); [contradiction|].
  cbn [map gen_all]. rewrite Hcond. cbn [bind].
  destruct (str_contains [c] alpha) eqn:E; [|reflexivity].
  apply IH. destruct Hin as [->|Hin]; [congruence|]. exists x. auto.
Qed.

Ltac reject_text_tac s Hc Hbad :=
  unfold_eng; py_run; rewrite !(str_eqb_not_code s _ Hc); py_run;
  match goal with |- context [?x <=? 10] => destruct (x <=? 10); [|reflexivity] end;
  py_run; erewrite gen_all_chars_false; [|intro; reflexivity|exact Hbad]; py_run; reflexivity.

Lemma reject_alphabet_2 s : not_code s ->
  (exists c, In c s /\ str_contains [c] [48; 49] = false) ->
  engineering.f__base2dec (VStr s) (VInt 2) = Ok excelutil.c_NUM_ERROR.
Proof. intros Hc Hbad. reject_text_tac s Hc Hbad. Qed.
Lemma reject_alphabet_8 s : not_code s ->
  (exists c, In c s /\ str_contains [c] [48; 49; 50; 51; 52; 53; 54; 55] = false) ->
  engineering.f__base2dec (VStr s) (VInt 8) = Ok excelutil.c_NUM_ERROR.
Proof. intros Hc Hbad. reject_text_tac s Hc Hbad. Qed.
Lemma reject_alphabet_16 s : not_code s ->
  (exists c, In c s /\ str_contains [c] [48; 49; 50; 51; 52; 53; 54; 55; 56; 57; 65; 66; 67; 68; 69; 70;
               97; 98; 99; 100; 101; 102] = false) ->
  engineering.f__base2dec (VStr s) (VInt 16) = Ok excelutil.c_NUM_ERROR.
Proof. intros Hc Hbad. reject_text_tac s Hc Hbad. Qed.

Ltac reject_long_tac s Hc Hlen :=
  unfold_eng; py_run; rewrite !(str_eqb_not_code s _ Hc); py_run;
  match goal with |- context [?x <=? 10] =>
    replace (x <=? 10) with false by (symmetry; apply Z.leb_gt; exact Hlen) end;
  reflexivity.
Lemma reject_long s b : (b = 2 \/ b = 8 \/ b = 16) -> not_code s -> 10 < zlen s ->
  engineering.f__base2dec (VStr s) (VInt b) = Ok excelutil.c_NUM_ERROR.
Proof.
  intros [->|[->| ->]] Hc Hlen; reject_long_tac s Hc Hlen.
Qed.

(* the base-to-base functions are the composition through decimal *)
Lemma compose v p a b : v <> VNone ->
  engineering.f__base2base v p a b
  = bind (engineering.f__base2dec v a) (fun d => engineering.f__dec2base d p b).
Proof.
  intros H. unfold engineering.f__base2base.
  destruct v; try congruence; reflexivity.
Qed.

(* places: pad with zeros to exactly [places], or #NUM! when too small *)
Lemma zfill_hex U p : Forall hexchar U -> U <> [] ->
  str_zfill (VStr U) (VInt p) = Ok (VStr (repeat 48 (Z.to_nat (p - zlen U)) ++ U)).
Proof.
  intros H Hne. unfold str_zfill. cbn [as_index].
  destruct U as [|c U]; [congruence|]. inversion H as [|? ? Hc _]; subst.
  unfold hexchar in Hc.
  replace (c =? 43) with false by (symmetry; apply Z.eqb_neq; lia).
  replace (c =? 45) with false by (symmetry; apply Z.eqb_neq; lia).
  reflexivity.
Qed.

Definition padded (b m n p : Z) : pyval :=
  let U := udigits b (wrap m n) in
  if p <? zlen U then excelutil.c_NUM_ERROR
  else VStr (repeat 48 (Z.to_nat (p - zlen U)) ++ U).

Ltac places_tac n m b p :=
  unfold_eng; py_run;
  match goal with |- context [?a <=? n] => replace (a <=? n) with true by (symmetry; apply Z.leb_le; lia) end;
  replace (n <? m) with true by (symmetry; apply Z.ltb_lt; lia);
  cbn [negb bind b_not]; unfold padded, wrap;
  destruct (n <? 0) eqn:En; [apply Z.ltb_lt in En|apply Z.ltb_ge in En]; py_run;
  repeat match goal with
  | |- context [prefixed (?x <? 0)] =>
      replace (x <? 0) with false by (symmetry; apply Z.ltb_ge; lia)
  end;
  unfold prefixed; cbn [app]; rewrite slice_drop2; unfold str_upper;
  match goal with |- context [digits b (Z.abs ?x)] =>
    rewrite (Z.abs_eq x) by lia;
    rewrite (digits_lower_ascii b x) by lia;
    py_run;
    match goal with |- context [udigits b ?y] => replace y with x by lia end;
    fold (udigits b x);
    destruct (p <? zlen (udigits b x)); [reflexivity|];
    rewrite zfill_hex;
    [ reflexivity
    | apply digits_hex; lia
    | unfold udigits; destruct (digits_spec b ltac:(lia) x ltac:(lia)) as (D & -> & Hne & _);
      destruct D; [congruence|discriminate] ]
  end.

Lemma places_2 n p : -512 <= n < 512 ->
  engineering.f__dec2base (VInt n) (VInt p) (VInt 2) = Ok (padded 2 512 n p).
Proof. intros Hn. places_tac n 512 2 p. Qed.
Lemma places_8 n p : -536870912 <= n < 536870912 ->
  engineering.f__dec2base (VInt n) (VInt p) (VInt 8) = Ok (padded 8 536870912 n p).
Proof. intros Hn. places_tac n 536870912 8 p. Qed.
Lemma places_16 n p : -549755813888 <= n < 549755813888 ->
  engineering.f__dec2base (VInt n) (VInt p) (VInt 16) = Ok (padded 16 549755813888 n p).
Proof. intros Hn. places_tac n 549755813888 16 p. Qed.
