(* Proofs/C12TolWeak.v — the any-tolerance theorems of Proofs/C12Tol.v under the
   WEAK non-blank condition (sem_nonblank_weak: workbooks with whole-column
   references), by the transfer of Proofs/C12Weak.v: the loop cannot tell sem from
   guard W sem.  These are the strongest forms: C12_*_partial, C12_*_weak_partial and
   C12_*_anytol_partial of Props/C12.v are all instances (nonblank_weaken,
   C12Base.close_enough_refl). *)
From Coq Require Import List Arith Bool Lia QArith.
From PV Require Import Lib.Py Model.Graph Model.Validate.
From PV Require Import Proofs.C01Base Proofs.C01Inv Proofs.C01 Proofs.C01Weak
                       Proofs.C12Base Proofs.C12 Proofs.C12Weak Proofs.C12Tol.
Import ListNotations.
Local Open Scope nat_scope.

Lemma refl_guard W sem tol : wf W -> sem_nonblank_weak W sem ->
  (forall n, n < wb_n W -> is_fcell W n = true ->
     close_enough tol (spec W sem (wb_inp0 W) n) (spec W sem (wb_inp0 W) n) = true) ->
  (forall n, n < wb_n W -> is_fcell W n = true ->
     close_enough tol (spec W (guard W sem) (wb_inp0 W) n) (spec W (guard W sem) (wb_inp0 W) n) = true).
Proof.
  intros WF NBW H n L F. rewrite <- (spec_guard W sem WF NBW) by auto. now apply H.
Qed.

Theorem sound_tw : forall W sem ftext tol,
  wf W -> sem_nonblank_weak W sem -> stored_consistent W sem ->
  (forall n, n < wb_n W -> is_fcell W n = true ->
     close_enough tol (spec W sem (wb_inp0 W) n) (spec W sem (wb_inp0 W) n) = true) ->
  (forall n vals, n < wb_n W -> is_fcell W n = true -> py_eq (sem n vals) (VStr (ftext n)) = false) ->
  forall outs, (forall o, In o outs -> o < wb_n W) ->
    vs_report (validate W sem ftext tol outs) = [].
Proof.
  intros W sem ftext tol WF NBW SC RF HT outs OL.
  rewrite (validate_guard W sem ftext tol WF NBW outs OL).
  apply (T.sound W (guard W sem) ftext tol WF (guard_nonblank W sem NBW)); auto.
  - now apply consistent_guard.
  - now apply refl_guard.
  - now apply text_guard.
Qed.

Theorem complete_tw : forall W sem ftext tol p v',
  wf W -> sem_nonblank_weak W sem -> stored_consistent W sem ->
  p < wb_n W -> is_fcell W p = true ->
  (forall n, n < wb_n W -> is_fcell W n = true ->
     close_enough tol (spec W sem (wb_inp0 W) n) (spec W sem (wb_inp0 W) n) = true) ->
  (forall n vals, n < wb_n W -> is_fcell W n = true -> py_eq (sem n vals) (VStr (ftext n)) = false) ->
  v' <> VNone -> py_eq v' (VStr (ftext p)) = false ->
  close_enough tol (spec W sem (wb_inp0 W) p) v' = false ->
  forall outs, (forall o, In o outs -> o < wb_n W) ->
    (exists o, In o outs /\ (p = o \/ anc W p o)) ->
    let r := vs_report (validate (perturb W p v') sem ftext tol outs) in
    rep_get r p = Some (v', spec W sem (wb_inp0 W) p) /\
    forall n, rep_get r n <> None -> n = p \/ anc W p n.
Proof.
  intros W sem ftext tol p v' WF NBW SC Lp Fp RF HT NN TXp CE outs OL EX.
  pose proof (validate_guard (perturb W p v') sem ftext tol WF NBW outs OL) as E.
  change (guard (perturb W p v') sem) with (guard W sem) in E.
  cbv zeta. rewrite E, (spec_guard W sem WF NBW _ p Lp).
  apply (T.complete W (guard W sem) ftext tol p v' WF (guard_nonblank W sem NBW)); auto.
  - now apply consistent_guard.
  - now apply refl_guard.
  - now apply text_guard.
  - now rewrite <- (spec_guard W sem WF NBW _ p Lp).
Qed.

Section General.
  Variable W : workbook.
  Variable sem : nat -> list pyval -> pyval.
  Variable ftext : nat -> list BinNums.Z.
  Variable tol : option Q.
  Hypothesis WF : wf W.
  Hypothesis NBW : sem_nonblank_weak W sem.
  Hypothesis SF : stored_full W.
  Hypothesis TS : forall n, n < wb_n W -> is_fcell W n = true ->
                    py_eq (wb_stored W n) (VStr (ftext n)) = false.
  Hypothesis TV : forall n vals, n < wb_n W -> is_fcell W n = true ->
                    py_eq (sem n vals) (VStr (ftext n)) = false.
  Hypothesis RF : forall n, n < wb_n W -> is_fcell W n = true ->
     close_enough tol (spec W sem (wb_inp0 W) n) (spec W sem (wb_inp0 W) n) = true.

  Section Outs.
  Variable outs : list nat.
  Hypothesis OL : forall o, In o outs -> o < wb_n W.

  Theorem processed_all_tw :
    vs_todo (validate W sem ftext tol outs) = [] /\
    forall o n, In o outs -> n = o \/ anc W n o ->
      mem n (vs_verified (validate W sem ftext tol outs)) = true.
  Proof.
    rewrite (validate_guard W sem ftext tol WF NBW outs OL).
    apply (T.processed_all W (guard W sem) ftext tol outs WF (guard_nonblank W sem NBW) SF TS
             (text_guard W sem ftext TV) (refl_guard W sem tol WF NBW RF) OL).
  Qed.

  Theorem clean_not_reported_tw n : clean W sem n ->
    rep_get (vs_report (validate W sem ftext tol outs)) n = None.
  Proof.
    intros C. rewrite (validate_guard W sem ftext tol WF NBW outs OL).
    apply (T.clean_not_reported W (guard W sem) ftext tol outs WF (guard_nonblank W sem NBW) SF TS
             (text_guard W sem ftext TV) (refl_guard W sem tol WF NBW RF) OL).
    now apply clean_guard.
  Qed.

  Theorem bad_reported_tw o n : In o outs -> n = o \/ anc W n o -> n < wb_n W ->
    is_fcell W n = true -> semiclean W sem n ->
    close_enough tol (spec W sem (wb_inp0 W) n) (wb_stored W n) = false ->
    rep_get (vs_report (validate W sem ftext tol outs)) n
    = Some (wb_stored W n, spec W sem (wb_inp0 W) n).
  Proof.
    intros Ho Hn L F C CE. rewrite (validate_guard W sem ftext tol WF NBW outs OL).
    rewrite (spec_guard W sem WF NBW _ n L) in *.
    apply (T.bad_reported W (guard W sem) ftext tol outs WF (guard_nonblank W sem NBW) SF TS
             (text_guard W sem ftext TV) (refl_guard W sem tol WF NBW RF) OL o n); auto.
    now apply semiclean_guard.
  Qed.
  End Outs.

  Theorem decided_entries_tw outs1 outs2 :
    (forall o, In o outs1 -> o < wb_n W) -> (forall o, In o outs2 -> o < wb_n W) ->
    forall n, n < wb_n W -> is_fcell W n = true -> semiclean W sem n ->
      (good W sem n \/ close_enough tol (spec W sem (wb_inp0 W) n) (wb_stored W n) = false) ->
      (exists o, In o outs1 /\ (n = o \/ anc W n o)) ->
      (exists o, In o outs2 /\ (n = o \/ anc W n o)) ->
      rep_get (vs_report (validate W sem ftext tol outs1)) n
      = rep_get (vs_report (validate W sem ftext tol outs2)) n.
  Proof.
    intros O1 O2 n L FC SC [G|CE] [o1 [H1 R1]] [o2 [H2 R2]].
    - assert (C: clean W sem n).
      { intros b [->|A]; [exact G|now apply SC]. }
      rewrite (clean_not_reported_tw outs1 O1 n C), (clean_not_reported_tw outs2 O2 n C).
      reflexivity.
    - rewrite (bad_reported_tw outs1 O1 o1 n H1 R1 L FC SC CE).
      rewrite (bad_reported_tw outs2 O2 o2 n H2 R2 L FC SC CE).
      reflexivity.
  Qed.
End General.
