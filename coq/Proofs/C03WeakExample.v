(* Proofs/C03WeakExample.v — C03: the hypotheses of the theorems of
   Proofs/C03Weak.v are satisfiable on a two-column model with a whole-column
   reference, which does not meet code_nonblank (tests, not theorems).
     0: B1 = 3 (input)   1: B2 = 4 (input)   2: B1:B2 (range node)
     3: B:B (reference node: range kind, its only member is node 2, its value
        is the value of node 2)
     4: A1 (code "S", reads B:B)     5: A2 (code "T", reads B1:B2 and A1) *)
From Coq Require Import List Arith Bool Lia ZArith Permutation.
From PV Require Import Lib.Py Model.Graph Model.Persist.
From PV Require Import Proofs.C01Base Proofs.C01Inv Proofs.C01 Proofs.C01Weak.
From PV Require Import Proofs.C03Sort Proofs.C03Graph Proofs.C03 Proofs.C03Weak.
Import ListNotations.
Local Open Scope nat_scope.

Definition G5 : geometry :=
  {| g_n := 6; g_range := fun n => (n =? 2) || (n =? 3);
     g_members := fun n => match n with 2 => [0; 1] | 3 => [2] | _ => [] end; g_key := fun n => n |}.
Definition cS : str := [83%Z].
Definition cT : str := [84%Z].
Definition cdeps5 (t : str) : list nat :=
  if str_eqb t cS then [3] else if str_eqb t cT then [2; 4] else [].
Definition csem5 (t : str) (vals : list pyval) : pyval := VTuple (VStr t :: vals).
Definition rsem5 (n : nat) (vals : list pyval) : pyval :=
  if n =? 3 then nth 0 vals VNone else VTuple vals.

Definition W5 : workbook :=
  {| wb_n := 6;
     wb_input := fun n => n <? 2;
     wb_deps := fun n => match n with 2 => [0; 1] | 3 => [2] | 4 => [3] | 5 => [2; 4] | _ => [] end;
     wb_range := fun n => (n =? 2) || (n =? 3);
     wb_inp0 := fun n => match n with 0 => VInt 3 | 1 => VInt 4 | _ => VNone end;
     wb_stored := fun _ => VNone |}.
Definition code5 (n : nat) : str := match n with 4 => cS | 5 => cT | _ => [] end.
Definition sem5 := sem_of csem5 rsem5 (wb_range W5) code5.

(* the model after A2 has been asked for (everything is built) *)
Definition M5 : pmodel :=
  {| pm_wb := W5; pm_code := code5;
     pm_state := fst (step W5 sem5 (init W5) (Build 5));
     pm_order := [5; 2; 0; 1; 4; 3];
     pm_cycles := VBool false; pm_filename := VStr [119%Z]; pm_hash := VNone;
     pm_extra := None |}.

Example x5_wf : wf W5.
Proof. apply wfb_sound. reflexivity. Qed.
Example x5_weak : code_nonblank_weak G5 csem5 rsem5.
Proof.
  split; [intros; discriminate|]. intros n vals L R MO. unfold rsem5.
  destruct (Nat.eqb_spec n 3) as [->|NE]; [|discriminate].
  unfold members_ok in MO. cbn in MO.
  inversion MO as [|d v ds vs Hv Hr]; subst. cbn. now apply Hv.
Qed.
Example x5_not_strong : ~ code_nonblank csem5 rsem5.
Proof. intros [_ B]. now apply (B 3 []). Qed.

Example x5_built n : st_built (pm_state M5) n = (n <? 6).
Proof. do 6 (destruct n as [|n]; [reflexivity|]). reflexivity. Qed.

Example x5_ok : pm_ok G5 cdeps5 M5.
Proof.
  split.
  - reflexivity.
  - reflexivity.
  - intros n _ R. cbn in R. do 6 (destruct n as [|n]; try discriminate; try reflexivity).
  - intros n L _ In R. do 6 (destruct n as [|n]; try discriminate; try reflexivity).
  - repeat constructor; cbn; intuition discriminate.
  - intros n. rewrite x5_built. cbn [pm_order M5 In]. rewrite Nat.ltb_lt. lia.
Qed.

Example x5_sem_weak : sem_nonblank_weak W5 sem5.
Proof. apply (model_weak G5 cdeps5 csem5 rsem5 x5_weak M5 x5_ok x5_wf). Qed.
Example x5_stored : stored_ok W5 sem5.
Proof. split; intros; [exfalso|]; auto. Qed.
Example x5_inv : Inv W5 sem5 (pm_state M5).
Proof.
  destruct (invariant_weak W5 sem5 x5_wf x5_sem_weak x5_stored) as [I0 IS].
  apply (IS (init W5) (Build 5) I0). cbn. lia.
Qed.
Example x5_noeq : no_eq_text M5.
Proof. intros n Bn In. do 2 (destruct n as [|n]; [reflexivity|]). discriminate. Qed.
Example x5_all : allcells W5 (pm_state M5).
Proof. intros n L _. rewrite x5_built. now apply Nat.ltb_lt. Qed.
Example x5_exact : inputs_exact W5 (st_cache (pm_state M5)).
Proof. intros m L In. do 2 (destruct m as [|m]; [reflexivity|]). discriminate. Qed.

(* the theorems applied *)
Example x5_abs :
  exists M', roundtrip_pkl G5 cdeps5 csem5 rsem5 M5 = Ok M' /\ abs M' = abs M5.
Proof. apply (abs_roundtrip_weak G5 cdeps5 csem5 rsem5 x5_weak M5 x5_ok x5_wf x5_inv x5_noeq). Qed.

Definition x5_h : list gop := [Evaluate 5; SetValue 1 (VInt 10); Evaluate 4; Evaluate 3; Evaluate 5].
Example x5_equiv :
  exists M', roundtrip_pkl G5 cdeps5 csem5 rsem5 M5 = Ok M' /\
    snd (run (pm_wb M') (pm_sem csem5 rsem5 M') (pm_state M') x5_h)
    = snd (run W5 sem5 (pm_state M5) x5_h).
Proof.
  destruct (equiv_roundtrip_weak G5 cdeps5 csem5 rsem5 x5_weak M5 x5_ok x5_wf x5_inv x5_noeq
              x5_stored x5_exact x5_all) as (M' & R & A).
  exists M'. split; auto. apply A. repeat constructor; cbn; lia.
Qed.

(* computed: the reference node is not in the file, the loaded model rebuilds it *)
Example x5_computed :
  match roundtrip_pkl G5 cdeps5 csem5 rsem5 M5 with
  | Ok M' => map fst (saved_cells G5 M5) = [0; 1; 4; 5]
             /\ map (st_built (pm_state M')) (seq 0 6) = [true; true; true; true; true; true]
             /\ snd (run (pm_wb M') (pm_sem csem5 rsem5 M') (pm_state M') [Evaluate 3])
                = [VTuple [VInt 3; VInt 4]]
  | Raise _ => False
  end.
Proof. vm_compute. repeat split. Qed.
