(* Proofs/C11Lattice.v — enumeration of a range's cells and the rectangle
   lattice (intersection, union) of Model/Addr.v. *)
From Coq Require Import ZArith List Bool Lia.
From PV Require Import Lib.Py Model.Addr Proofs.C11.
Import ListNotations.
Open Scope Z_scope.

(* ------------------------------------------------------------- rectangles *)
Record rect := { x1 : Z; y1 : Z; x2 : Z; y2 : Z }.
(* a rectangle on the sheet *)
Definition wf (r : rect) : Prop :=
  1 <= x1 r <= x2 r /\ x2 r <= MAX_COL /\ 1 <= y1 r <= y2 r /\ y2 r <= MAX_ROW.
Definition inside (r : rect) (c row : Z) : Prop :=
  x1 r <= c <= x2 r /\ y1 r <= row <= y2 r.
(* the address the implementation uses for it: a cell when 1x1, else a range *)
Definition norm (s : str) (r : rect) : addr :=
  if (x1 r =? x2 r) && (y1 r =? y2 r) then ACell s (x1 r) (y1 r)
  else ARange s (x1 r) (y1 r) (x2 r) (y2 r).

Lemma norm_fields s r : wf r ->
  a_sheet (norm s r) = s /\ a_col (norm s r) = x1 r /\ a_row (norm s r) = y1 r
  /\ width (norm s r) = x2 r - x1 r + 1 /\ height (norm s r) = y2 r - y1 r + 1.
Proof.
  intros (Hx & Hx' & Hy & Hy'). unfold norm, width, height.
  destruct ((x1 r =? x2 r) && (y1 r =? y2 r)) eqn:E.
  - apply andb_true_iff in E. destruct E as [E1 E2]. apply Z.eqb_eq in E1, E2.
    cbn. repeat split; lia.
  - cbn [a_sheet a_col a_row a_size fst snd].
    replace (y2 r =? 0) with false by (symmetry; apply Z.eqb_neq; lia).
    replace (y1 r =? 0) with false by (symmetry; apply Z.eqb_neq; lia).
    replace (x2 r =? 0) with false by (symmetry; apply Z.eqb_neq; lia).
    replace (x1 r =? 0) with false by (symmetry; apply Z.eqb_neq; lia).
    repeat split.
Qed.

(* ---------------------------------------------------------------- lists *)
Lemma zrange_length n : forall st, length (zrange n st) = n.
Proof. induction n as [|n IH]; intros st; cbn; [reflexivity|]. rewrite IH. reflexivity. Qed.
Lemma zrange_In n : forall st x, In x (zrange n st) <-> st <= x < st + Z.of_nat n.
Proof.
  induction n as [|n IH]; intros st x; cbn [zrange In].
  - split; [tauto|lia].
  - rewrite IH. lia.
Qed.
Lemma zrange_NoDup n : forall st, NoDup (zrange n st).
Proof.
  induction n as [|n IH]; intros st; cbn [zrange]; constructor; [|apply IH].
  rewrite zrange_In. lia.
Qed.
Lemma zrange_incl_In lo hi x : In x (zrange_incl lo hi) <-> lo <= x <= hi.
Proof. unfold zrange_incl. rewrite zrange_In. lia. Qed.
Lemma zrange_incl_length lo hi : lo <= hi + 1 -> Z.of_nat (length (zrange_incl lo hi)) = hi - lo + 1.
Proof. intros H. unfold zrange_incl. rewrite zrange_length. lia. Qed.

Lemma mapM_ok {A B} (f : A -> res B) (g : A -> B) l :
  (forall x, In x l -> f x = Ok (g x)) -> mapM f l = Ok (map g l).
Proof.
  induction l as [|x l IH]; intros H; cbn [mapM map]; [reflexivity|].
  rewrite (H x) by (left; reflexivity). cbn [bind].
  rewrite IH by (intros y Hy; apply H; right; exact Hy). reflexivity.
Qed.

Lemma NoDup_append {A} (l1 l2 : list A) :
  NoDup l1 -> NoDup l2 -> (forall x, In x l1 -> ~ In x l2) -> NoDup (l1 ++ l2).
Proof.
  induction l1 as [|a l1 IH]; intros H1 H2 Hd; cbn [app]; [exact H2|].
  inversion H1 as [|? ? Ha Hl]; subst. constructor.
  - rewrite in_app_iff. intros [H|H]; [exact (Ha H)|]. exact (Hd a (or_introl eq_refl) H).
  - apply IH; [exact Hl|exact H2|]. intros x Hx. apply Hd. right. exact Hx.
Qed.
Lemma NoDup_map_inj {A B} (f : A -> B) l :
  (forall x y, f x = f y -> x = y) -> NoDup l -> NoDup (map f l).
Proof.
  intros Hinj. induction 1 as [|a l Ha Hl IH]; cbn [map]; constructor; [|exact IH].
  rewrite in_map_iff. intros (y & Hy & Hin). apply Hinj in Hy. subst. exact (Ha Hin).
Qed.

(* the cells of a grid: rows outermost *)
Definition grid (s : str) (cols rows : list Z) : list (list addr) :=
  map (fun row => map (fun col => ACell s col row) cols) rows.

Lemma grid_In s cols rows a :
  In a (concat (grid s cols rows)) <-> exists c r, a = ACell s c r /\ In c cols /\ In r rows.
Proof.
  unfold grid. rewrite in_concat. split.
  - intros (l & Hl & Ha). apply in_map_iff in Hl. destruct Hl as (r & <- & Hr).
    apply in_map_iff in Ha. destruct Ha as (c & <- & Hc). exists c, r. repeat split; assumption.
  - intros (c & r & -> & Hc & Hr). exists (map (fun col => ACell s col r) cols). split.
    + apply in_map_iff. exists r. split; [reflexivity|exact Hr].
    + apply in_map_iff. exists c. split; [reflexivity|exact Hc].
Qed.
Lemma grid_length s cols rows :
  length (concat (grid s cols rows)) = (length rows * length cols)%nat.
Proof.
  unfold grid. induction rows as [|r rows IH]; cbn [map concat length]; [reflexivity|].
  rewrite app_length, map_length, IH. cbn. reflexivity.
Qed.
Lemma grid_NoDup s cols rows : NoDup cols -> NoDup rows -> NoDup (concat (grid s cols rows)).
Proof.
  intros Hc Hr. induction Hr as [|r rows Hnr Hrows IH]; cbn [grid map concat]; [constructor|].
  apply NoDup_append.
  - apply NoDup_map_inj; [|exact Hc]. intros x y E. injection E. auto.
  - exact IH.
  - intros a Ha Hb. apply in_map_iff in Ha. destruct Ha as (c & <- & _).
    apply (grid_In s cols rows) in Hb. destruct Hb as (c' & r' & E & _ & Hr').
    injection E as _ E. subst. exact (Hnr Hr').
Qed.

(* ------------------------------------------------------ (c) enumeration *)
(* a range whose corners are on the sheet and that the implementation does not
   regard as unbounded (it refuses to enumerate full-height / full-width ranges) *)
Definition enumerable (r : rect) : Prop :=
  wf r /\ y2 r - y1 r + 1 <> MAX_ROW /\ x2 r - x1 r + 1 <> MAX_COL.

Lemma resolve_range_value s r : enumerable r ->
  resolve_range (norm s r) = Ok (grid s (zrange_incl (x1 r) (x2 r)) (zrange_incl (y1 r) (y2 r))).
Proof.
  intros (Hwf & Hh & Hw). pose proof Hwf as (Hx & Hx' & Hy & Hy').
  destruct (norm_fields s r Hwf) as (_ & _ & _ & Hwd & Hht).
  unfold norm in *. destruct ((x1 r =? x2 r) && (y1 r =? y2 r)) eqn:E.
  - apply andb_true_iff in E. destruct E as [E1 E2]. apply Z.eqb_eq in E1, E2.
    cbn [resolve_range]. rewrite <- E1, <- E2. unfold zrange_incl, grid.
    replace (Z.to_nat (x1 r + 1 - x1 r)) with 1%nat by lia.
    replace (Z.to_nat (y1 r + 1 - y1 r)) with 1%nat by lia. reflexivity.
  - cbn [resolve_range]. rewrite Hwd, Hht.
    replace (y2 r - y1 r + 1 =? MAX_ROW) with false by (symmetry; apply Z.eqb_neq; lia).
    replace (x2 r - x1 r + 1 =? MAX_COL) with false by (symmetry; apply Z.eqb_neq; lia).
    cbn [orb]. unfold grid. apply mapM_ok. intros row _. apply mapM_ok. intros col Hc.
    apply zrange_incl_In in Hc. apply mk_cell_ok. unfold MAX_COL in *. lia.
Qed.

Lemma contains_spec s r c row : wf r ->
  contains (norm s r) (ACell s c row) = Ok true <-> inside r c row.
Proof.
  intros (Hx & Hx' & Hy & Hy'). unfold norm, inside.
  destruct ((x1 r =? x2 r) && (y1 r =? y2 r)) eqn:E.
  - apply andb_true_iff in E. destruct E as [E1 E2]. apply Z.eqb_eq in E1, E2.
    cbn [contains addr_eqb]. rewrite str_eqb_refl. cbn [andb]. split.
    + intros H. injection H as H. apply andb_true_iff in H. destruct H as [A B].
      apply Z.eqb_eq in A, B. lia.
    + intros H. f_equal. apply andb_true_iff. split; apply Z.eqb_eq; lia.
  - cbn [contains]. split.
    + intros H. injection H as H. rewrite !andb_true_iff in H. rewrite !Z.leb_le in H. lia.
    + intros H. f_equal. rewrite !andb_true_iff. rewrite !Z.leb_le. lia.
Qed.

Lemma enumerate s r : enumerable r ->
  exists rows, resolve_range (norm s r) = Ok rows
    /\ Z.of_nat (length (concat rows)) = height (norm s r) * width (norm s r)
    /\ NoDup (concat rows)
    /\ (forall a, In a (concat rows) -> exists c row, a = ACell s c row)
    /\ (forall c row, In (ACell s c row) (concat rows) <-> contains (norm s r) (ACell s c row) = Ok true).
Proof.
  intros He. pose proof He as (Hwf & _). pose proof Hwf as (Hx & Hx' & Hy & Hy').
  eexists. split; [apply resolve_range_value; exact He|].
  destruct (norm_fields s r Hwf) as (_ & _ & _ & Hwd & Hht). rewrite Hwd, Hht.
  repeat split.
  - rewrite grid_length, Nat2Z.inj_mul, !zrange_incl_length by lia. reflexivity.
  - apply grid_NoDup; apply zrange_NoDup.
  - intros a Ha. apply grid_In in Ha. destruct Ha as (c & row & -> & _). exists c, row. reflexivity.
  - intros Hin. apply contains_spec; [exact Hwf|]. apply grid_In in Hin.
    destruct Hin as (c' & r' & E & Hc & Hr). injection E as -> ->.
    apply zrange_incl_In in Hc, Hr. split; assumption.
  - intros Hc. apply contains_spec in Hc; [|exact Hwf]. destruct Hc as [Hc Hr].
    apply grid_In. exists c, row. repeat split; apply zrange_incl_In; assumption.
Qed.

(* ------------------------------------------------- (d) the lattice laws *)
Definition meet_rect (a b : rect) : rect :=
  {| x1 := Z.max (x1 a) (x1 b); y1 := Z.max (y1 a) (y1 b);
     x2 := Z.min (x2 a) (x2 b); y2 := Z.min (y2 a) (y2 b) |}.
Definition empty_rect (m : rect) : bool := (x2 m <? x1 m) || (y2 m <? y1 m).
Definition join_rect (a b : rect) : rect :=
  {| x1 := Z.min (x1 a) (x1 b); y1 := Z.min (y1 a) (y1 b);
     x2 := Z.max (x2 a) (x2 b); y2 := Z.max (y2 a) (y2 b) |}.
(* what a & b must be *)
Definition meet_val (s : str) (a b : rect) : aval :=
  if empty_rect (meet_rect a b) then VE NULL_ERROR else VA (norm s (meet_rect a b)).

Lemma same_sheet_test s : nonempty s && nonempty s && negb (str_eqb s s) = false.
Proof. rewrite str_eqb_refl. destruct (nonempty s); reflexivity. Qed.
Lemma same_sheet_pick (s : str) : (if nonempty s then s else s) = s.
Proof. destruct (nonempty s); reflexivity. Qed.

Lemma norm_build s m : 1 <= x1 m <= 18278 -> 1 <= x2 m <= 18278 ->
  (if (x2 m =? x1 m) && (y2 m =? y1 m)
   then a <- mk_cell s (x1 m) (y1 m) ;; Ok (VA a)
   else a <- mk_range s (x1 m) (y1 m) (x2 m) (y2 m) ;; Ok (VA a)) = Ok (VA (norm s m)).
Proof.
  intros H1 H2. unfold norm. rewrite (Z.eqb_sym (x2 m)), (Z.eqb_sym (y2 m)).
  destruct ((x1 m =? x2 m) && (y1 m =? y2 m)).
  - rewrite mk_cell_ok by assumption. reflexivity.
  - rewrite mk_range_ok by assumption. reflexivity.
Qed.

Lemma inter_value s a b : wf a -> wf b ->
  op_inter (VA (norm s a)) (VA (norm s b)) = Ok (meet_val s a b).
Proof.
  intros Ha Hb.
  destruct (norm_fields s a Ha) as (As & Ac & Ar & Aw & Ah).
  destruct (norm_fields s b Hb) as (Bs & Bc & Br & Bw & Bh).
  destruct Ha as (Ax & Ax' & Ay & Ay'). destruct Hb as (Bx & Bx' & By & By').
  unfold op_inter, binop, union_intersection, ui_core.
  rewrite As, Bs, Ac, Bc, Ar, Br, Aw, Bw, Ah, Bh, same_sheet_test, same_sheet_pick.
  replace (Z.min (x1 a + (x2 a - x1 a + 1)) (x1 b + (x2 b - x1 b + 1)) - 1)
    with (Z.min (x2 a) (x2 b)) by lia.
  replace (Z.min (y1 a + (y2 a - y1 a + 1)) (y1 b + (y2 b - y1 b + 1)) - 1)
    with (Z.min (y2 a) (y2 b)) by lia.
  unfold meet_val, empty_rect. cbn [meet_rect x1 x2 y1 y2].
  destruct ((Z.min (x2 a) (x2 b) <? Z.max (x1 a) (x1 b)) || (Z.min (y2 a) (y2 b) <? Z.max (y1 a) (y1 b))) eqn:E;
    [reflexivity|].
  apply orb_false_iff in E. destruct E as [E1 E2]. apply Z.ltb_ge in E1, E2.
  apply (norm_build s (meet_rect a b)); cbn [meet_rect x1 x2]; unfold MAX_COL in *; lia.
Qed.

Lemma union_value s a b : wf a -> wf b ->
  op_union (VA (norm s a)) (VA (norm s b)) = Ok (VA (norm s (join_rect a b))).
Proof.
  intros Ha Hb.
  destruct (norm_fields s a Ha) as (As & Ac & Ar & Aw & Ah).
  destruct (norm_fields s b Hb) as (Bs & Bc & Br & Bw & Bh).
  destruct Ha as (Ax & Ax' & Ay & Ay'). destruct Hb as (Bx & Bx' & By & By').
  unfold op_union, binop, union_intersection, ui_core.
  rewrite As, Bs, Ac, Bc, Ar, Br, Aw, Bw, Ah, Bh, same_sheet_test, same_sheet_pick.
  replace (Z.max (x1 a + (x2 a - x1 a + 1)) (x1 b + (x2 b - x1 b + 1)) - 1)
    with (Z.max (x2 a) (x2 b)) by lia.
  replace (Z.max (y1 a + (y2 a - y1 a + 1)) (y1 b + (y2 b - y1 b + 1)) - 1)
    with (Z.max (y2 a) (y2 b)) by lia.
  replace (Z.max (x2 a) (x2 b) <? Z.min (x1 a) (x1 b)) with false by (symmetry; apply Z.ltb_ge; lia).
  replace (Z.max (y2 a) (y2 b) <? Z.min (y1 a) (y1 b)) with false by (symmetry; apply Z.ltb_ge; lia).
  cbn [orb].
  apply (norm_build s (join_rect a b)); cbn [join_rect x1 x2]; unfold MAX_COL in *; lia.
Qed.

(* the meet is exactly the common cells; empty iff there is none *)
Lemma meet_cells a b c row :
  inside (meet_rect a b) c row <-> inside a c row /\ inside b c row.
Proof. unfold inside. cbn [meet_rect x1 x2 y1 y2]. lia. Qed.
Lemma meet_empty a b : wf a -> wf b ->
  empty_rect (meet_rect a b) = true <-> ~ exists c row, inside a c row /\ inside b c row.
Proof.
  intros Ha Hb. unfold empty_rect. rewrite orb_true_iff, !Z.ltb_lt. split.
  - intros H (c & row & Hi). apply meet_cells in Hi. unfold inside in Hi. lia.
  - intros H. destruct (Z_lt_dec (x2 (meet_rect a b)) (x1 (meet_rect a b))) as [L|L]; [left; exact L|].
    destruct (Z_lt_dec (y2 (meet_rect a b)) (y1 (meet_rect a b))) as [L'|L']; [right; exact L'|].
    exfalso. apply H. exists (x1 (meet_rect a b)), (y1 (meet_rect a b)).
    apply meet_cells. unfold inside. lia.
Qed.
Lemma meet_wf a b : wf a -> wf b -> empty_rect (meet_rect a b) = false -> wf (meet_rect a b).
Proof.
  intros Ha Hb E. apply orb_false_iff in E. destruct E as [E1 E2]. apply Z.ltb_ge in E1, E2.
  unfold wf in *. cbn [meet_rect x1 x2 y1 y2] in *. lia.
Qed.

(* the join contains both and is below every rectangle that contains both *)
Lemma join_wf a b : wf a -> wf b -> wf (join_rect a b).
Proof. unfold wf. cbn [join_rect x1 x2 y1 y2]. lia. Qed.
Lemma join_upper a b c row : inside a c row \/ inside b c row -> inside (join_rect a b) c row.
Proof. unfold inside. cbn [join_rect x1 x2 y1 y2]. lia. Qed.
Lemma join_least a b u : wf a -> wf b ->
  (forall c row, inside a c row \/ inside b c row -> inside u c row) ->
  forall c row, inside (join_rect a b) c row -> inside u c row.
Proof.
  intros Ha Hb H c row.
  pose proof (H (x1 a) (y1 a)) as A1. pose proof (H (x2 a) (y2 a)) as A2.
  pose proof (H (x1 b) (y1 b)) as B1. pose proof (H (x2 b) (y2 b)) as B2.
  unfold wf, inside in *. cbn [join_rect x1 x2 y1 y2]. lia.
Qed.

(* commutativity holds for all addresses, bounded or not *)
Lemma ui_comm mn mx (Hmn : forall p q, mn p q = mn q p) (Hmx : forall p q, mx p q = mx q p) x y :
  union_intersection mn mx x (VA y) = union_intersection mn mx y (VA x).
Proof.
  unfold union_intersection, ui_core.
  rewrite (Hmn (a_col y)), (Hmn (a_row y)), (Hmx (a_col y + width y)), (Hmx (a_row y + height y)).
  rewrite (str_eqb_sym (a_sheet y)).
  destruct (a_sheet x) as [|cx sx] eqn:Ex; destruct (a_sheet y) as [|cy sy] eqn:Ey; cbn [nonempty andb negb];
    try reflexivity.
  destruct (str_eqb (cx :: sx) (cy :: sy)) eqn:E; cbn [negb]; [|reflexivity].
  apply str_eqb_eq in E. rewrite E. reflexivity.
Qed.
Lemma inter_comm x y : op_inter (VA x) (VA y) = op_inter (VA y) (VA x).
Proof. apply ui_comm; [apply Z.max_comm|apply Z.min_comm]. Qed.
Lemma union_comm x y : op_union (VA x) (VA y) = op_union (VA y) (VA x).
Proof. apply ui_comm; [apply Z.min_comm|apply Z.max_comm]. Qed.

Lemma rect_eq a b : x1 a = x1 b -> y1 a = y1 b -> x2 a = x2 b -> y2 a = y2 b -> a = b.
Proof. destruct a, b. cbn. intros -> -> -> ->. reflexivity. Qed.

Lemma inter_idem s a : wf a -> op_inter (VA (norm s a)) (VA (norm s a)) = Ok (VA (norm s a)).
Proof.
  intros Ha. rewrite inter_value by exact Ha. unfold meet_val.
  assert (E : meet_rect a a = a) by (apply rect_eq; cbn; lia). rewrite E.
  unfold empty_rect. destruct Ha as (Hx & _ & Hy & _).
  replace (x2 a <? x1 a) with false by (symmetry; apply Z.ltb_ge; lia).
  replace (y2 a <? y1 a) with false by (symmetry; apply Z.ltb_ge; lia). reflexivity.
Qed.
Lemma union_idem s a : wf a -> op_union (VA (norm s a)) (VA (norm s a)) = Ok (VA (norm s a)).
Proof.
  intros Ha. rewrite union_value by exact Ha.
  assert (E : join_rect a a = a) by (apply rect_eq; cbn; lia). rewrite E. reflexivity.
Qed.

(* associativity of ** : unconditional on rectangles of one sheet *)
Lemma union_assoc s a b c : wf a -> wf b -> wf c ->
  bind (op_union (VA (norm s a)) (VA (norm s b))) (fun x => op_union x (VA (norm s c)))
  = bind (op_union (VA (norm s b)) (VA (norm s c))) (fun x => op_union (VA (norm s a)) x).
Proof.
  intros Ha Hb Hc. rewrite !union_value by assumption. cbn [bind].
  rewrite !union_value by (try apply join_wf; assumption).
  do 3 f_equal. apply rect_eq; cbn; lia.
Qed.

(* an error-code operand, on either side, is the result (of & and of ** ) *)
Lemma ui_error mn mx x e : is_error_code e = true ->
  union_intersection mn mx x (VE e) = Ok (VE e).
Proof. intros H. unfold union_intersection, create. rewrite H. reflexivity. Qed.
Lemma error_operand e x : is_error_code e = true ->
  op_inter (VA x) (VE e) = Ok (VE e) /\ op_inter (VE e) (VA x) = Ok (VE e)
  /\ op_union (VA x) (VE e) = Ok (VE e) /\ op_union (VE e) (VA x) = Ok (VE e).
Proof. intros H. unfold op_inter, op_union, binop. rewrite !ui_error by exact H. repeat split. Qed.
Lemma null_is_code : is_error_code NULL_ERROR = true.
Proof. reflexivity. Qed.

(* associativity of & on rectangles of one sheet, unconditional: an empty
   inner intersection is #NULL!, which the outer operator hands on *)
Lemma inter_assoc s a b c : wf a -> wf b -> wf c ->
  bind (op_inter (VA (norm s a)) (VA (norm s b))) (fun x => op_inter x (VA (norm s c)))
  = bind (op_inter (VA (norm s b)) (VA (norm s c))) (fun x => op_inter (VA (norm s a)) x).
Proof.
  intros Ha Hb Hc. rewrite !inter_value by assumption. unfold meet_val.
  destruct (error_operand NULL_ERROR (norm s c) null_is_code) as (_ & EL & _).
  destruct (error_operand NULL_ERROR (norm s a) null_is_code) as (ER & _).
  assert (E : meet_rect (meet_rect a b) c = meet_rect a (meet_rect b c)) by (apply rect_eq; cbn; lia).
  destruct (empty_rect (meet_rect a b)) eqn:Eab; destruct (empty_rect (meet_rect b c)) eqn:Ebc; cbn [bind].
  - rewrite EL, ER. reflexivity.
  - rewrite EL, inter_value by (try apply meet_wf; assumption). unfold meet_val.
    replace (empty_rect (meet_rect a (meet_rect b c))) with true; [reflexivity|].
    symmetry. unfold empty_rect in *. cbn [meet_rect x1 x2 y1 y2] in *.
    rewrite orb_true_iff, !Z.ltb_lt in *. lia.
  - rewrite ER, inter_value by (try apply meet_wf; assumption). unfold meet_val.
    replace (empty_rect (meet_rect (meet_rect a b) c)) with true; [reflexivity|].
    symmetry. unfold empty_rect in *. cbn [meet_rect x1 x2 y1 y2] in *.
    rewrite orb_true_iff, !Z.ltb_lt in *. lia.
  - rewrite !inter_value by (try apply meet_wf; assumption). unfold meet_val. rewrite E. reflexivity.
Qed.
(* ... and the three-way result is the set-theoretic one *)
Lemma inter_three s a b c : wf a -> wf b -> wf c ->
  bind (op_inter (VA (norm s a)) (VA (norm s b))) (fun x => op_inter x (VA (norm s c)))
  = Ok (if empty_rect (meet_rect (meet_rect a b) c) then VE NULL_ERROR
        else VA (norm s (meet_rect (meet_rect a b) c))).
Proof.
  intros Ha Hb Hc. rewrite inter_value by assumption. unfold meet_val.
  destruct (error_operand NULL_ERROR (norm s c) null_is_code) as (_ & EL & _).
  destruct (empty_rect (meet_rect a b)) eqn:Eab; cbn [bind].
  - rewrite EL. replace (empty_rect (meet_rect (meet_rect a b) c)) with true; [reflexivity|].
    symmetry. unfold empty_rect in *. cbn [meet_rect x1 x2 y1 y2] in *.
    rewrite orb_true_iff, !Z.ltb_lt in *. lia.
  - rewrite inter_value by (try apply meet_wf; assumption). reflexivity.
Qed.

(* different sheets: #VALUE!, for any two addresses *)
Lemma different_sheets mn mx x y : a_sheet x <> [] -> a_sheet y <> [] -> a_sheet x <> a_sheet y ->
  union_intersection mn mx x (VA y) = Ok (VE VALUE_ERROR).
Proof.
  intros Hx Hy Hne. unfold union_intersection, ui_core.
  destruct (a_sheet x) as [|cx sx]; [congruence|]. destruct (a_sheet y) as [|cy sy]; [congruence|].
  cbn [nonempty andb].
  destruct (str_eqb (cx :: sx) (cy :: sy)) eqn:E; [apply str_eqb_eq in E; congruence|reflexivity].
Qed.

(* non-vacuity *)
Example ex_inter : op_inter (VA (ARange [83] 1 1 2 2)) (VA (ARange [83] 2 2 3 3)) = Ok (VA (ACell [83] 2 2)).
Proof. vm_compute. reflexivity. Qed.
Example ex_union : op_union (VA (ACell [] 1 1)) (VA (ACell [] 3 4)) = Ok (VA (ARange [] 1 1 3 4)).
Proof. vm_compute. reflexivity. Qed.

(* the statements as they appear in Props/C11.v *)
Lemma intersection_full s a b : wf a -> wf b ->
  op_inter (VA (norm s a)) (VA (norm s b)) = Ok (meet_val s a b)
  /\ (forall c row, inside (meet_rect a b) c row <-> inside a c row /\ inside b c row)
  /\ (empty_rect (meet_rect a b) = true <-> ~ exists c row, inside a c row /\ inside b c row).
Proof.
  intros Ha Hb. split; [apply inter_value; assumption|]. split; [apply meet_cells|apply meet_empty; assumption].
Qed.
Lemma union_full s a b : wf a -> wf b ->
  op_union (VA (norm s a)) (VA (norm s b)) = Ok (VA (norm s (join_rect a b)))
  /\ wf (join_rect a b)
  /\ (forall c row, inside a c row \/ inside b c row -> inside (join_rect a b) c row)
  /\ (forall u, (forall c row, inside a c row \/ inside b c row -> inside u c row) ->
                forall c row, inside (join_rect a b) c row -> inside u c row).
Proof.
  intros Ha Hb. split; [apply union_value; assumption|]. split; [apply join_wf; assumption|].
  split; [apply join_upper|]. intros u. apply join_least; assumption.
Qed.
Lemma different_sheets_both x y : a_sheet x <> [] -> a_sheet y <> [] -> a_sheet x <> a_sheet y ->
  op_inter (VA x) (VA y) = Ok (VE VALUE_ERROR) /\ op_union (VA x) (VA y) = Ok (VE VALUE_ERROR).
Proof. intros Hx Hy Hn. split; apply different_sheets; assumption. Qed.

(* ------------------------------- ** across sheets, with #VALUE! handed on *)
Definition conflict (s1 s2 : str) : bool := nonempty s1 && nonempty s2 && negb (str_eqb s1 s2).
Definition pick (s1 s2 : str) : str := if nonempty s1 then s1 else s2.
Lemma value_is_code : is_error_code VALUE_ERROR = true.
Proof. reflexivity. Qed.

Lemma union_value_sheets sa sb a b : wf a -> wf b ->
  op_union (VA (norm sa a)) (VA (norm sb b))
  = if conflict sa sb then Ok (VE VALUE_ERROR) else Ok (VA (norm (pick sa sb) (join_rect a b))).
Proof.
  intros Ha Hb.
  destruct (norm_fields sa a Ha) as (As & Ac & Ar & Aw & Ah).
  destruct (norm_fields sb b Hb) as (Bs & Bc & Br & Bw & Bh).
  destruct Ha as (Ax & Ax' & Ay & Ay'). destruct Hb as (Bx & Bx' & By & By').
  unfold op_union, binop, union_intersection, ui_core.
  rewrite As, Bs, Ac, Bc, Ar, Br, Aw, Bw, Ah, Bh. fold (conflict sa sb). fold (pick sa sb).
  destruct (conflict sa sb); [reflexivity|].
  replace (Z.max (x1 a + (x2 a - x1 a + 1)) (x1 b + (x2 b - x1 b + 1)) - 1)
    with (Z.max (x2 a) (x2 b)) by lia.
  replace (Z.max (y1 a + (y2 a - y1 a + 1)) (y1 b + (y2 b - y1 b + 1)) - 1)
    with (Z.max (y2 a) (y2 b)) by lia.
  replace (Z.max (x2 a) (x2 b) <? Z.min (x1 a) (x1 b)) with false by (symmetry; apply Z.ltb_ge; lia).
  replace (Z.max (y2 a) (y2 b) <? Z.min (y1 a) (y1 b)) with false by (symmetry; apply Z.ltb_ge; lia).
  cbn [orb].
  apply (norm_build (pick sa sb) (join_rect a b)); cbn [join_rect x1 x2]; unfold MAX_COL in *; lia.
Qed.

(* the sheet of a three-way combination does not depend on the grouping *)
Definition sheet2 (s1 s2 : str) : option str := if conflict s1 s2 then None else Some (pick s1 s2).
Definition sheet3_l (sa sb sc : str) : option str :=
  match sheet2 sa sb with None => None | Some s => sheet2 s sc end.
Definition sheet3_r (sa sb sc : str) : option str :=
  match sheet2 sb sc with None => None | Some s => sheet2 sa s end.
Lemma sheet3_assoc sa sb sc : sheet3_l sa sb sc = sheet3_r sa sb sc.
Proof.
  unfold sheet3_l, sheet3_r, sheet2, conflict, pick.
  destruct (nonempty sa) eqn:Na; destruct (nonempty sb) eqn:Nb; destruct (nonempty sc) eqn:Nc;
    cbn [negb andb]; rewrite ?Na, ?Nb, ?Nc; cbn [negb andb]; try reflexivity;
    destruct (str_eqb sa sb) eqn:E1; destruct (str_eqb sb sc) eqn:E2; destruct (str_eqb sa sc) eqn:E3;
    cbn [negb andb]; rewrite ?Na, ?Nb, ?Nc, ?E1, ?E2, ?E3; cbn [negb andb]; try reflexivity;
    try (apply str_eqb_eq in E1; subst); try (apply str_eqb_eq in E2; subst);
    try (apply str_eqb_eq in E3; subst); rewrite ?str_eqb_refl in *; try discriminate; try congruence.
Qed.

(* three-way ** on any sheets: #VALUE! if two named sheets differ, else the bounding rectangle *)
Lemma union_three_l sa sb sc a b c : wf a -> wf b -> wf c ->
  bind (op_union (VA (norm sa a)) (VA (norm sb b))) (fun x => op_union x (VA (norm sc c)))
  = Ok (match sheet3_l sa sb sc with
        | None => VE VALUE_ERROR
        | Some s => VA (norm s (join_rect (join_rect a b) c))
        end).
Proof.
  intros Ha Hb Hc. rewrite union_value_sheets by assumption. unfold sheet3_l, sheet2.
  destruct (conflict sa sb); cbn [bind].
  - destruct (error_operand VALUE_ERROR (norm sc c) value_is_code) as (_ & _ & _ & E). exact E.
  - rewrite union_value_sheets by (try apply join_wf; assumption).
    destruct (conflict (pick sa sb) sc); reflexivity.
Qed.
Lemma union_three_r sa sb sc a b c : wf a -> wf b -> wf c ->
  bind (op_union (VA (norm sb b)) (VA (norm sc c))) (fun x => op_union (VA (norm sa a)) x)
  = Ok (match sheet3_r sa sb sc with
        | None => VE VALUE_ERROR
        | Some s => VA (norm s (join_rect a (join_rect b c)))
        end).
Proof.
  intros Ha Hb Hc. rewrite union_value_sheets by assumption. unfold sheet3_r, sheet2.
  destruct (conflict sb sc); cbn [bind].
  - destruct (error_operand VALUE_ERROR (norm sa a) value_is_code) as (_ & _ & E & _). exact E.
  - rewrite union_value_sheets by (try apply join_wf; assumption).
    destruct (conflict sa (pick sb sc)); reflexivity.
Qed.
Lemma union_assoc_sheets sa sb sc a b c : wf a -> wf b -> wf c ->
  bind (op_union (VA (norm sa a)) (VA (norm sb b))) (fun x => op_union x (VA (norm sc c)))
  = bind (op_union (VA (norm sb b)) (VA (norm sc c))) (fun x => op_union (VA (norm sa a)) x).
Proof.
  intros Ha Hb Hc. rewrite union_three_l, union_three_r by assumption.
  rewrite sheet3_assoc.
  assert (E : join_rect (join_rect a b) c = join_rect a (join_rect b c)) by (apply rect_eq; cbn; lia).
  rewrite E. reflexivity.
Qed.

(* & across sheets is NOT associative up to the error code: with a, b disjoint on
   compatible sheets and b, c on two different named sheets the groupings give
   #NULL! and #VALUE! *)
Example inter_sheets_not_assoc :
  bind (op_inter (VA (ACell [] 1 1)) (VA (ACell [83] 2 2))) (fun x => op_inter x (VA (ACell [84] 2 2)))
    = Ok (VE NULL_ERROR)
  /\ bind (op_inter (VA (ACell [83] 2 2)) (VA (ACell [84] 2 2))) (fun x => op_inter (VA (ACell [] 1 1)) x)
    = Ok (VE VALUE_ERROR).
Proof. vm_compute. split; reflexivity. Qed.
