(* Proofs/C12FailExample.v — C12, failing cells: the hypotheses of the theorems
   of Proofs/C12Fail.v are satisfiable (tests, not theorems), on
     0: A1 = 1 (input)
     1: A2 = A1+1      stored 2
     2: A3 = BOOM(A2)  a plugin function that raises; no stored result
     3: A4 = A3+1      no stored result (it cannot be evaluated either)
     4: A5 = A2*2      stored 4
   with G = all nodes, and with G = {A1, A2, A5} when A4 carries a stale result. *)
From Coq Require Import List Arith Bool Lia ZArith QArith.
From PV Require Import Lib.Py Model.Graph Model.Fail Model.Validate Model.ValidateFail.
From PV Require Import Proofs.C01Base Proofs.C12Base Proofs.C12FailBase Proofs.C12Fail.
Import ListNotations.
Local Open Scope nat_scope.

Definition fx_deps (n : nat) : list nat :=
  match n with 1 => [0] | 2 => [1] | 3 => [2] | 4 => [1] | _ => [] end.
Definition fx_stored (n : nat) : pyval :=
  match n with 1 => VInt 2 | 4 => VInt 4 | _ => VNone end.
Definition fxW : workbook :=
  {| wb_n := 5; wb_input := fun n => Nat.eqb n 0; wb_deps := fx_deps; wb_range := fun _ => false;
     wb_inp0 := fun n => if Nat.eqb n 0 then VInt 1 else VNone; wb_stored := fx_stored |}.
Definition fx_sem (n : nat) (vals : list pyval) : option pyval :=
  match n, vals with
  | 1, [VInt a] => Some (VInt (a + 1))
  | 3, [VInt a] => Some (VInt (a + 1))
  | 4, [VInt a] => Some (VInt (a * 2))
  | 2, _ => None                                   (* BOOM raises *)
  | _, _ => Some (VStr [35%Z])
  end.
Definition fx_pre (n : nat) : option nat := None.
Definition fx_order (b : nat -> bool) (n : nat) : list nat := [].
Definition fx_text (n : nat) : list Z := [61%Z; Z.of_nat n].
Definition fxF := fspec fxW fx_sem fx_pre (wb_inp0 fxW).

Example fx_wf : wf fxW.
Proof. apply wfb_sound. vm_compute. reflexivity. Qed.

Example fx_stored_ok : forall m, m < wb_n fxW -> True -> is_fcell fxW m = true ->
  wb_stored fxW m = VNone \/ fxF m = FVal (wb_stored fxW m).
Proof.
  intros m L _ FC. destruct m as [|[|[|[|[|m]]]]]; [| | | | |exfalso; cbn in L; lia]; try discriminate;
    try (left; reflexivity); try (right; vm_compute; reflexivity).
Qed.

Example fx_stored_notext : forall n, n < wb_n fxW -> is_fcell fxW n = true ->
  py_eq (wb_stored fxW n) (VStr (fx_text n)) = false.
Proof.
  intros n L FC. destruct n as [|[|[|[|[|n]]]]]; [| | | | |exfalso; cbn in L; lia]; reflexivity.
Qed.

Example fx_value_notext : forall n vals v, n < wb_n fxW -> is_fcell fxW n = true ->
  fx_sem n vals = Some v -> py_eq v (VStr (fx_text n)) = false.
Proof.
  intros n vals v L FC H. destruct n as [|[|[|[|[|n]]]]]; [| | | | |exfalso; cbn in L; lia]; try discriminate;
    cbn in H; repeat match goal with
                     | H : match ?x with _ => _ end = Some _ |- _ => destruct x; try discriminate
                     end; inversion H; reflexivity.
Qed.

Example fx_scalar : forall n v, n < wb_n fxW -> True -> is_fcell fxW n = true -> fxF n = FVal v ->
  is_scalar v = true.
Proof.
  intros n v L _ FC H. destruct n as [|[|[|[|[|n]]]]]; [| | | | |exfalso; cbn in L; lia]; try discriminate;
    vm_compute in H; try discriminate; try (inversion H; subst; reflexivity).
Qed.

Example fx_outs : forall o, In o [1; 2; 3; 4] -> o < wb_n fxW.
Proof. intros o H. cbn in H. cbn. lia. Qed.

Definition fx_final := validate_f fxW fx_sem fx_pre fx_order fx_text None false [1; 2; 3; 4].

(* output_addrs=None: the run, by computation (A3 is listed twice: it is among the
   outputs and it is pushed by A4) … *)
Example fx_computed :
  fs_todo fx_final = [] /\ fs_report fx_final = [] /\
  fs_exc fx_final = [(3, [3; 2]); (2, [2]); (2, [2])] /\ fs_verified fx_final = [2; 3; 0; 1; 4].
Proof. vm_compute. auto. Qed.

(* … and from the theorems, G = every node *)
Example fx_no_mismatch : forall n, n < wb_n fxW -> rep_get (fs_report fx_final) n = None.
Proof.
  intros n L.
  exact (mismatches_unaffected fxW fx_sem fx_pre fx_order fx_text None [1; 2; 3; 4] (fun _ => True)
           fx_wf (fun _ _ _ _ _ => I) fx_stored_ok fx_scalar I fx_outs n L I).
Qed.

(* A3 is reached from the output A4 only through A4, which raises: it is verified
   and listed all the same, within the fuel *)
Example fx_failing_listed :
  fs_todo (validate_f fxW fx_sem fx_pre fx_order fx_text None false [3]) = [] /\
  mem 2 (fs_verified (validate_f fxW fx_sem fx_pre fx_order fx_text None false [3])) = true /\
  exists ch, In (2, ch) (fs_exc (validate_f fxW fx_sem fx_pre fx_order fx_text None false [3])) /\
             chain_ok fxW fx_sem fx_pre 2 ch.
Proof.
  assert (O: forall o, In o [3] -> o < wb_n fxW) by (intros o [<-|[]]; cbn; lia).
  destruct (nothing_skipped fxW fx_sem fx_pre fx_order fx_text None [3] (fun _ => True)
              fx_wf (fun _ _ _ _ _ => I) fx_stored_ok fx_scalar I fx_stored_notext fx_value_notext O 3 2)
    as (T & V & X).
  - left. reflexivity.
  - right. constructor. left. reflexivity.
  - split; [exact T|split; [exact V|]]. apply (X I eq_refl). vm_compute. reflexivity.
Qed.

Example fx_listed_bound : cnt (fs_exc fx_final) 2 <= 2.
Proof.
  pose proof (listed_bound fxW fx_sem fx_pre fx_order fx_text None [1; 2; 3; 4]
                fx_wf fx_stored_notext fx_value_notext fx_outs 2) as H.
  vm_compute in H. vm_compute. exact H.
Qed.

(* a stale result on A4 (it depends on the cell that raises): G = {A1, A2, A5} *)
Definition fxW' : workbook :=
  {| wb_n := 5; wb_input := wb_input fxW; wb_deps := fx_deps; wb_range := fun _ => false;
     wb_inp0 := wb_inp0 fxW;
     wb_stored := fun n => match n with 3 => VInt 8 | 2 => VInt 7 | _ => fx_stored n end |}.
Definition fxG (n : nat) : Prop := n = 0 \/ n = 1 \/ n = 4.

Example fx'_closed : forall n d, n < wb_n fxW' -> fxG n -> In d (wb_deps fxW' n) -> fxG d.
Proof.
  intros n d _ g H. destruct g as [E|[E|E]]; subst n; cbn in H; try contradiction;
    destruct H as [E|[]]; subst d; unfold fxG; auto.
Qed.

Example fx'_no_mismatch : forall outs, (forall o, In o outs -> o < 5) -> forall n, n < 5 -> fxG n ->
  rep_get (fs_report (validate_f fxW' fx_sem fx_pre fx_order fx_text None false outs)) n = None.
Proof.
  intros outs OUTS n L g.
  apply (mismatches_unaffected fxW' fx_sem fx_pre fx_order fx_text None outs fxG); auto.
  - apply wfb_sound. vm_compute. reflexivity.
  - exact fx'_closed.
  - intros m _ gm FC. destruct gm as [E|[E|E]]; subst m; try discriminate; right; vm_compute; reflexivity.
  - intros m v _ gm FC H. destruct gm as [E|[E|E]]; subst m; try discriminate; vm_compute in H; inversion H; reflexivity.
  - exact I.
Qed.
