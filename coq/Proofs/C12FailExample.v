(* Proofs/C12FailExample.v — C12, failing cells: the hypotheses of the theorems
   of Proofs/C12Fail.v are satisfiable (tests, not theorems), on
     0: A1 = 1 (input)
     1: A2 = A1+1      stored 2
     2: A3 = BOOM(A2)  a plugin function that raises; no stored result
     3: A4 = A3+1      no stored result (it cannot be evaluated either)
     4: A5 = A2*2      stored 4
   with G = all nodes, and with G = {A1, A2, A5} when A4 carries a stale result. *)
From Coq Require Import List Arith Bool Lia ZArith QArith.
From PV Require Import Lib.Py Model.Graph Model.Fail Model.Validate Model.ValidateFail.
From PV Require Import Proofs.C01Base Proofs.C12Base Proofs.C12FailBase Proofs.C12Fail.
Import ListNotations.
Local Open Scope nat_scope.

Definition fx_deps (n : nat) : list nat :=
  match n with 1 => [0] | 2 => [1] | 3 => [2] | 4 => [1] | _ => [] end.
Definition fx_stored (n : nat) : pyval :=
  match n with 1 => VInt 2 | 4 => VInt 4 | _ => VNone end.
Definition fxW : workbook :=
  {| wb_n := 5; wb_input := fun n => Nat.eqb n 0; wb_deps := fx_deps; wb_range := fun _ => false;
     wb_inp0 := fun n => if Nat.eqb n 0 then VInt 1 else VNone; wb_stored := fx_stored |}.
Definition fx_sem (n : nat) (vals : list pyval) : option pyval :=
  match n, vals with
  | 1, [VInt a] => Some (VInt (a + 1))
  | 3, [VInt a] => Some (VInt (a + 1))
  | 4, [VInt a] => Some (VInt (a * 2))
  | 2, _ => None                                   (* BOOM raises *)
  | _, _ => Some (VStr [35%Z])
  end.
Definition fx_pre (n : nat) : option nat := None.
Definition fx_order (b : nat -> bool) (n : nat) : list nat := [].
Definition fx_text (n : nat) : list Z := [61%Z; Z.of_nat n].
Definition fxF := fspec fxW fx_sem fx_pre (wb_inp0 fxW).

Example fx_wf : wf fxW.
Proof. apply wfb_sound. vm_compute. reflexivity. Qed.

Example fx_stored_ok : forall m, m < wb_n fxW -> True -> is_fcell fxW m = true ->
  wb_stored fxW m = VNone \/ fxF m = FVal (wb_stored fxW m).
Proof.
  intros m L _ FC. destruct m as [|[|[|[|[|m]]]]]; [| | | | |exfalso; cbn in L; lia]; try discriminate;
    try (left; reflexivity); try (right; vm_compute; reflexivity).
Qed.

Example fx_notext : forall n v, n < wb_n fxW -> True -> is_fcell fxW n = true -> fxF n = FVal v ->
  py_eq v (VStr (fx_text n)) = false.
Proof.
  intros n v L _ FC H. destruct n as [|[|[|[|[|n]]]]]; [| | | | |exfalso; cbn in L; lia]; try discriminate;
    vm_compute in H; try discriminate; try (inversion H; subst; reflexivity).
Qed.

Example fx_scalar : forall n v, n < wb_n fxW -> True -> is_fcell fxW n = true -> fxF n = FVal v ->
  is_scalar v = true.
Proof.
  intros n v L _ FC H. destruct n as [|[|[|[|[|n]]]]]; [| | | | |exfalso; cbn in L; lia]; try discriminate;
    vm_compute in H; try discriminate; try (inversion H; subst; reflexivity).
Qed.

Example fx_outs : forall o, In o [1; 2; 3; 4] -> o < wb_n fxW.
Proof. intros o H. cbn in H. cbn. lia. Qed.

Definition fx_final := validate_f fxW fx_sem fx_pre fx_order fx_text None false [1; 2; 3; 4].

(* output_addrs=None: the run, by computation … *)
Example fx_computed :
  fs_todo fx_final = [] /\ fs_report fx_final = [] /\
  fs_exc fx_final = [(3, [3; 2]); (2, [2])] /\ fs_verified fx_final = [0; 1; 4].
Proof. vm_compute. auto. Qed.

(* … and from the theorems, G = every node *)
Example fx_no_mismatch : forall n, n < wb_n fxW -> rep_get (fs_report fx_final) n = None.
Proof.
  intros n L.
  exact (mismatches_unaffected fxW fx_sem fx_pre fx_order fx_text None [1; 2; 3; 4] (fun _ => True)
           fx_wf (fun _ _ _ _ _ => I) fx_stored_ok fx_notext fx_scalar I fx_outs n L I).
Qed.

Example fx_failing_listed : exists ch, In (2, ch) (fs_exc fx_final) /\ chain_ok fxW fx_sem fx_pre 2 ch.
Proof.
  apply (failing_reported fxW fx_sem fx_pre fx_order fx_text None [1; 2; 3; 4] (fun _ => True)
           fx_wf (fun _ _ _ _ _ => I) fx_stored_ok fx_notext fx_scalar I fx_outs 2 2).
  - vm_compute. reflexivity.
  - cbn. auto.
  - exact I.
  - constructor.
  - reflexivity.
  - vm_compute. reflexivity.
Qed.

(* a stale result on A4 (it depends on the cell that raises): G = {A1, A2, A5} *)
Definition fxW' : workbook :=
  {| wb_n := 5; wb_input := wb_input fxW; wb_deps := fx_deps; wb_range := fun _ => false;
     wb_inp0 := wb_inp0 fxW;
     wb_stored := fun n => match n with 3 => VInt 8 | 2 => VInt 7 | _ => fx_stored n end |}.
Definition fxG (n : nat) : Prop := n = 0 \/ n = 1 \/ n = 4.

Example fx'_closed : forall n d, n < wb_n fxW' -> fxG n -> In d (wb_deps fxW' n) -> fxG d.
Proof.
  intros n d _ g H. destruct g as [E|[E|E]]; subst n; cbn in H; try contradiction;
    destruct H as [E|[]]; subst d; unfold fxG; auto.
Qed.

Example fx'_no_mismatch : forall outs, (forall o, In o outs -> o < 5) -> forall n, n < 5 -> fxG n ->
  rep_get (fs_report (validate_f fxW' fx_sem fx_pre fx_order fx_text None false outs)) n = None.
Proof.
  intros outs OUTS n L g.
  apply (mismatches_unaffected fxW' fx_sem fx_pre fx_order fx_text None outs fxG); auto.
  - apply wfb_sound. vm_compute. reflexivity.
  - exact fx'_closed.
  - intros m _ gm FC. destruct gm as [E|[E|E]]; subst m; try discriminate; right; vm_compute; reflexivity.
  - intros m v _ gm FC H. destruct gm as [E|[E|E]]; subst m; try discriminate; vm_compute in H; inversion H; reflexivity.
  - intros m v _ gm FC H. destruct gm as [E|[E|E]]; subst m; try discriminate; vm_compute in H; inversion H; reflexivity.
  - exact I.
Qed.
