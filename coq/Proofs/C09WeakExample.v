(* Proofs/C09WeakExample.v — C09: the hypotheses of the theorems of
   Proofs/C09Weak.v are satisfiable on the two-column workbook of
   Proofs/C01AliasExample.v (whole-column reference; the strong condition
   fails: exa_not_strong) when the function of A1 raises — tests, not theorems.
     0: B1 = 3   1: B2 = 4   2: B1:B2   3: B:B (reference node)
     4: A1 = BOOM(B:B)  raises          5: A2 = f5(B1:B2, A1) *)
From Coq Require Import List Arith Bool Lia ZArith.
From PV Require Import Lib.Py Model.Graph Model.Fail.
From PV Require Import Proofs.C01Base Proofs.C01Inv Proofs.C01 Proofs.C01Weak Proofs.C01Alias
                       Proofs.C01AliasExample.
From PV Require Import Proofs.C09Eval Proofs.C09Inv Proofs.C09 Proofs.C09Repair Proofs.C09Weak.
Import ListNotations.
Local Open Scope nat_scope.

Definition xf_fsem (n : nat) (vals : list pyval) : option pyval :=
  if n =? 4 then None else Some (exa_sem n vals).
Definition xf_fpre (n : nat) : option nat := None.
Notation xf_order := (gen_order exaW).

Example xf_not_strong : ~ sem_nonblank exaW exa_sem.
Proof. apply exa_not_strong. Qed.
Example xf_completes : completes xf_fsem xf_fpre exa_sem.
Proof. intros n vals v _. unfold xf_fsem. destruct (n =? 4); [discriminate|]. intros H. now inversion H. Qed.
Example xf_nostored : forall n, wb_stored exaW n = VNone.
Proof. reflexivity. Qed.
Example xf_inv0 : FInv exaW xf_fsem xf_fpre exa_sem (init exaW).
Proof. apply (inv_preserved_weak exaW xf_fsem xf_fpre xf_order exa_sem (exa_wf _) (exa_weak _) xf_completes xf_nostored). Qed.

Example xf_fspec : map (fspec exaW xf_fsem xf_fpre (wb_inp0 exaW)) [2; 3; 4; 5]
  = [FVal (VTuple [VInt 3; VInt 4]); FVal (VTuple [VInt 3; VInt 4]); FRaise EFormula; FRaise EFormula].
Proof. vm_compute. reflexivity. Qed.

(* A2 fails because A1 does: the invariant survives, A2 is left empty, the
   reference node and the range got their values on the way *)
Definition xf_s1 := fst (evaluate_f exaW xf_fsem xf_fpre xf_order (init exaW) 5).
Example xf_failed :
  FInv exaW xf_fsem xf_fpre exa_sem xf_s1 /\
  fext exaW xf_fsem xf_fpre (C01Eval.anceq exaW 5) (st_cache (init exaW)) (st_cache xf_s1) /\
  wb_input exaW 5 = false /\ st_cache xf_s1 5 = VNone /\
  is_raise (fspec exaW xf_fsem xf_fpre (st_cache (init exaW)) 5) = true.
Proof.
  apply (failed_evaluate_weak exaW xf_fsem xf_fpre xf_order exa_sem (exa_wf _) (exa_weak _)
           xf_completes xf_nostored (init exaW) 5 xf_inv0).
  - cbn. lia.
  - vm_compute. reflexivity.
Qed.
Example xf_s1_values : map (st_cache xf_s1) [2; 3; 4; 5]
  = [VTuple [VInt 3; VInt 4]; VTuple [VInt 3; VInt 4]; VNone; VNone].
Proof. vm_compute. reflexivity. Qed.

(* a retry fails again *)
Example xf_retry :
  is_raise (snd (evaluate_f exaW xf_fsem xf_fpre xf_order
                   (fst (run_f exaW xf_fsem xf_fpre xf_order xf_s1 [Evaluate 3; Evaluate 4])) 5)) = true /\
  st_cache (fst (evaluate_f exaW xf_fsem xf_fpre xf_order
                   (fst (run_f exaW xf_fsem xf_fpre xf_order xf_s1 [Evaluate 3; Evaluate 4])) 5)) 5 = VNone.
Proof.
  apply (retry_weak exaW xf_fsem xf_fpre xf_order exa_sem (exa_wf _) (exa_weak _) xf_completes xf_nostored
           (init exaW) 5 [Evaluate 3; Evaluate 4] xf_inv0).
  - cbn. lia.
  - vm_compute. reflexivity.
  - cbn. repeat split; lia.
  - intros a v [H|[H|[]]]; discriminate.
  - cbn. lia.
  - left. reflexivity.
Qed.

(* A1 is repaired with the constant 100: A2 returns what it returns in the
   workbook where A1 is an input holding 100 *)
Example xf_repair :
  let s2 := fst (run_f exaW xf_fsem xf_fpre xf_order (set_value exaW xf_s1 4 (VInt 100)) [Evaluate 5; Evaluate 3]) in
  st_cache s2 4 = VInt 100 /\
  fval (snd (evaluate_f exaW xf_fsem xf_fpre xf_order s2 5))
  = fval (fspec (as_input exaW 4 (VInt 100)) xf_fsem xf_fpre (st_cache s2) 5).
Proof.
  apply (repair_weak exaW xf_fsem xf_fpre xf_order exa_sem (exa_wf _) (exa_weak _) xf_completes xf_nostored
           4 (VInt 100) ltac:(cbn; lia) eq_refl ltac:(discriminate) xf_s1 [Evaluate 5; Evaluate 3] 5).
  - apply xf_failed.
  - vm_compute. reflexivity.
  - vm_compute. reflexivity.
  - cbn. repeat split; lia.
  - cbn. lia.
Qed.
Example xf_repair_value :
  snd (evaluate_f exaW xf_fsem xf_fpre xf_order
         (fst (run_f exaW xf_fsem xf_fpre xf_order (set_value exaW xf_s1 4 (VInt 100)) [Evaluate 5; Evaluate 3])) 5)
  = FVal (VInt 112).
Proof. vm_compute. reflexivity. Qed.
