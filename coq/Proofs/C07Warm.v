(* Proofs/C07Warm.v — fresh vs warmed-up threads (Model/Threads.v).

   A step reads the thread's namespace only through [the_ns] / [the_ctx], i.e. a
   namespace that does not exist yet behaves as the one the `ns` property
   creates; and evaluate(address, iterations, tolerance) overwrites or clears
   every tracker attribute before it reads one.  Hence an evaluation returns the
   same on a thread that never used the library and on a thread whose tracker
   namespace holds whatever earlier operations left there. *)
From Coq Require Import ZArith QArith List Bool Lia Arith.
From PV Require Import Lib.Py Model.Iter Model.Threads Proofs.C07 Proofs.C07Ser.
Import ListNotations.

Lemma the_ctx_with_tr : forall n r, the_ctx (with_tr n r) = the_ctx n.
Proof. reflexivity. Qed.
Lemma the_ns_with_tr : forall n r, the_ns (with_tr n r) = r.
Proof. reflexivity. Qed.

(* what a step can tell about a namespace *)
Definition ns_same (n n' : tns) : Prop := the_ns n = the_ns n' /\ the_ctx n = the_ctx n'.

Ltac fin := cbn [fst snd]; unfold ns_same; rewrite ?the_ctx_with_tr, ?the_ns_with_tr; repeat split; auto.

Lemma tstep_lazy : forall w m n n' k, ns_same n n' ->
  fst (fst (tstep w m n k)) = fst (fst (tstep w m n' k)) /\
  snd (tstep w m n k) = snd (tstep w m n' k) /\
  ns_same (snd (fst (tstep w m n k))) (snd (fst (tstep w m n' k))).
Proof.
  intros w m n n' k [Hns Hctx]. unfold tstep. rewrite <- Hns, <- Hctx.
  destruct (m_phase m) eqn:Ep; try (fin; fail).
  - destruct (m_kind m) as [t it tolv|c v|seed].
    + cbn [assemble r_iters r_tol].
      match goal with |- context [inc_iteration ?s] => set (st1 := inc_iteration s) end.
      destruct (if built (getc st1 t) then Ok st1 else gen_graph w t st1) as [st2|e]; fin.
    + destruct (negb (built (nth c (k_cells k) cell0))); [fin|].
      destruct (val_eqb _ v); [fin|].
      destruct (assemble k (the_ns n)) as [st|]; fin.
    + destruct (assemble k (the_ns n)) as [st|]; [|fin].
      destruct (gen_graph w seed st) as [st1|e]; fin.
  - destruct (assemble k (the_ns n)) as [st|]; fin.
Qed.

(* the first step of an evaluate: the tracker attributes it does not overwrite
   (todo, computed) are cleared by inc_iteration_number before anything reads them *)
Lemma tstep_init_eval : forall w m n n' k t it tolv,
  m_phase m = PInit -> m_kind m = KEval t it tolv -> the_ctx n = the_ctx n' ->
  fst (fst (tstep w m n k)) = fst (fst (tstep w m n' k)) /\
  snd (tstep w m n k) = snd (tstep w m n' k) /\
  ns_same (snd (fst (tstep w m n k))) (snd (fst (tstep w m n' k))).
Proof.
  intros w m n n' k t it tolv Hp Hk Hctx. unfold tstep. rewrite Hp, Hk.
  cbn [assemble r_iters r_tol r_todo r_computed r_itn].
  unfold inc_iteration, sett. cbn [tr cells rngs itn iters tol todo computed].
  match goal with |- context [gen_graph w t ?s] => set (st1 := s) end.
  destruct (if built (getc st1 t) then Ok st1 else gen_graph w t st1) as [st2|e]; fin.
Qed.

(* ---- in the process ---- *)
Definition same_for (cf : config) (t : nat) (G G' : glob) : Prop :=
  g_m G t = g_m G' t /\ g_k G (c_comp cf t) = g_k G' (c_comp cf t) /\
  ns_same (g_ns G (c_ns cf t)) (g_ns G' (c_ns cf t)).

Lemma gstep_same_for : forall cf t G G', same_for cf t G G' -> same_for cf t (gstep cf G t) (gstep cf G' t).
Proof.
  intros cf t G G' [Hm [Hk Hn]]. unfold same_for, gstep. rewrite <- Hm, <- Hk.
  pose proof (tstep_lazy (c_wb cf t) (g_m G t) _ _ (g_k G (c_comp cf t)) Hn) as [H1 [H2 H3]].
  destruct (tstep (c_wb cf t) (g_m G t) (g_ns G (c_ns cf t)) (g_k G (c_comp cf t))) as [[m1 n1] k1].
  destruct (tstep (c_wb cf t) (g_m G t) (g_ns G' (c_ns cf t)) (g_k G (c_comp cf t))) as [[m2 n2] k2].
  cbn [fst snd] in H1, H2, H3. cbn [g_m g_ns g_k]. rewrite !fupd_same. auto.
Qed.

Lemma solo_same_for : forall cf t n G G', same_for cf t G G' -> same_for cf t (solo cf t n G) (solo cf t n G').
Proof.
  intros cf t n. induction n as [|n IH]; intros G G' H; unfold solo; cbn [repeat run fold_left]; [exact H|].
  apply IH. apply gstep_same_for. exact H.
Qed.

Lemma warm_equals_fresh_solo : forall cf t n G G' tg it tolv,
  g_m G t = start (KEval tg it tolv) -> g_m G' t = start (KEval tg it tolv) ->
  g_k G (c_comp cf t) = g_k G' (c_comp cf t) ->
  the_ctx (g_ns G (c_ns cf t)) = the_ctx (g_ns G' (c_ns cf t)) ->
  g_m (solo cf t n G) t = g_m (solo cf t n G') t /\
  g_k (solo cf t n G) (c_comp cf t) = g_k (solo cf t n G') (c_comp cf t).
Proof.
  intros cf t n G G' tg it tolv Hm Hm' Hk Hctx. destruct n as [|n].
  - unfold solo; cbn [repeat run fold_left]. rewrite Hm, Hm'. auto.
  - assert (S1 : same_for cf t (gstep cf G t) (gstep cf G' t)).
    { unfold same_for, gstep. rewrite <- Hk, Hm', Hm.
      pose proof (tstep_init_eval (c_wb cf t) (start (KEval tg it tolv)) _ _ (g_k G (c_comp cf t)) tg it tolv
                                  eq_refl eq_refl Hctx) as [H1 [H2 H3]].
      destruct (tstep (c_wb cf t) (start (KEval tg it tolv)) (g_ns G (c_ns cf t)) (g_k G (c_comp cf t)))
        as [[m1 n1] k1].
      destruct (tstep (c_wb cf t) (start (KEval tg it tolv)) (g_ns G' (c_ns cf t)) (g_k G (c_comp cf t)))
        as [[m2 n2] k2].
      cbn [fst snd] in H1, H2, H3. cbn [g_m g_ns g_k]. rewrite !fupd_same. auto. }
    pose proof (solo_same_for cf t n _ _ S1) as [H1 [H2 _]].
    unfold solo in *. cbn [repeat run fold_left]. auto.
Qed.

(* under any schedule *)
Lemma warm_equals_fresh : forall cf t sched G G' tg it tolv,
  (forall u, In u sched -> u <> t -> c_ns cf u <> c_ns cf t /\ c_comp cf u <> c_comp cf t) ->
  g_m G t = start (KEval tg it tolv) -> g_m G' t = start (KEval tg it tolv) ->
  g_k G (c_comp cf t) = g_k G' (c_comp cf t) ->
  the_ctx (g_ns G (c_ns cf t)) = the_ctx (g_ns G' (c_ns cf t)) ->
  g_m (run cf sched G) t = g_m (run cf sched G') t /\
  g_k (run cf sched G) (c_comp cf t) = g_k (run cf sched G') (c_comp cf t).
Proof.
  intros cf t sched G G' tg it tolv Hs Hm Hm' Hk Hctx.
  pose proof (ni_on_gen cf t sched G G Hs eq_refl) as V1.
  pose proof (ni_on_gen cf t sched G' G' Hs eq_refl) as V2.
  rewrite (only_repeat t sched) in V1, V2.
  destruct (warm_equals_fresh_solo cf t (length (only t sched)) G G' tg it tolv Hm Hm' Hk Hctx) as [E1 E2].
  unfold solo in E1, E2. unfold view in V1, V2. split; congruence.
Qed.

(* Example: thread 2 of the three-thread example on a namespace in which earlier
   operations left anything at all - even without iterations / tolerance *)
Definition used_ns : tns :=
  {| n_tr := Some {| r_todo := [0; 5]%nat; r_computed := [0]%nat; r_itn := 7; r_iters := None; r_tol := None |};
     n_ctx := Some create_actx |}.
Definition G3w : glob :=
  {| g_m := g_m G3; g_ns := fun i => match i with 2%nat => used_ns | _ => absent end; g_k := g_k G3 |}.
Example warm_3 :
  g_m G3 2%nat = start (KEval 0 3 (1 # 1024)) /\ g_m G3w 2%nat = start (KEval 0 3 (1 # 1024)) /\
  g_k G3 (c_comp cf3 2%nat) = g_k G3w (c_comp cf3 2%nat) /\
  the_ctx (g_ns G3 (c_ns cf3 2%nat)) = the_ctx (g_ns G3w (c_ns cf3 2%nat)) /\
  g_ns G3 (c_ns cf3 2%nat) <> g_ns G3w (c_ns cf3 2%nat) /\
  result (run cf3 sched3 G3w) 2%nat = (PDone, Some (15 # 4), 3%Z).
Proof. repeat split; try reflexivity. - discriminate. Qed.

(* ---- the array-context stack must be thread-local too ---- *)
(* A1 = 5, B1 = 1 + 2*A1 on two compilers, both threads evaluate B1; one namespace *)
Definition wbP : wbook :=
  {| w_cells := [ {| stored := Some 5%Q; formula := None |};
                  {| stored := Some 0%Q; formula := Some (1%Q, [TCell 2 0%nat]) |} ]; w_ranges := [] |}.
Definition shared_cfP : config := {| c_wb := fun _ => wbP; c_comp := fun t => t; c_ns := fun _ => 0%nat |}.
Definition kindsP (t : nat) : kind := KEval 1 100 (1 # 1024).
Definition schedP : list nat := [0; 0; 0; 1; 1; 1]%nat.

(* thread 0 is inside B1 (its context pushed) when thread 1 pushes its own: the
   stack thread 0 sees is one deeper than in its solo run, its top is thread 1's *)
Lemma shared_context_stack_interferes :
  exists cf kinds comps sched t,
    (forall a b, a <> b -> c_comp cf a <> c_comp cf b) /\
    c_ns cf 0%nat = c_ns cf 1%nat /\
    ctx_addresses (the_ctx (g_ns (run cf sched (fresh_process kinds comps)) (c_ns cf t)))
    <> ctx_addresses (the_ctx (g_ns (run cf (only t sched) (fresh_process kinds comps)) (c_ns cf t))).
Proof.
  exists shared_cfP, kindsP, (fun _ => init_comp wbP), schedP, 0%nat.
  split; [intros a b H; exact H|]. split; [reflexivity|]. vm_compute. discriminate.
Qed.

(* ---- ... and so is the disjointness of the compilers: the property speaks of
   DIFFERENT compiled workbooks.  Two threads with their own namespaces that
   evaluate the same compiler: thread 1's whole evaluation inside thread 0's first
   pass moves the cells thread 0 iterates on (11 passes instead of 12) ---- *)
Definition shared_comp_cf : config := {| c_wb := fun _ => wbA; c_comp := fun _ => 0%nat; c_ns := fun t => t |}.
Definition schedK : list nat := ([0; 0; 1; 1; 1] ++ repeat 0 25)%nat.
Lemma shared_compiler_interferes :
  exists cf kinds comps sched t,
    (forall a b, a <> b -> c_ns cf a <> c_ns cf b) /\
    c_comp cf 0%nat = c_comp cf 1%nat /\
    result (run cf sched (fresh_process kinds comps)) t
      <> result (run cf (only t sched) (fresh_process kinds comps)) t.
Proof.
  exists shared_comp_cf, two_kinds, (fun _ => init_comp wbA), schedK, 0%nat.
  split; [intros a b H; exact H|]. split; [reflexivity|]. vm_compute. discriminate.
Qed.

(* ------------------------------------------------------------------ *)
(* set_value on an iterative compiler, fresh vs warmed-up thread: the tracker
   attributes earlier operations left (any todo / computed / iteration number /
   iterations / tolerance, as long as the two the setter reads exist - C07_fresh)
   change neither the outcome nor the compiler's contents *)
Lemma assemble_cells : forall k r st, assemble k r = Some st -> cells st = k_cells k /\ rngs st = k_rngs k.
Proof.
  intros k r st H. unfold assemble in H. destruct (r_iters r); [|discriminate]. destruct (r_tol r); [|discriminate].
  inversion H. cbn. auto.
Qed.

Lemma setter_cells : forall c v st st', cells st = cells st' -> rngs st = rngs st' ->
  cells (setter c v st) = cells (setter c v st') /\ rngs (setter c v st) = rngs (setter c v st').
Proof. intros c v st st' H H0. unfold setter, getc. cbn [cells rngs]. rewrite H, H0. auto. Qed.

Lemma tstep_set_value_warm : forall w m n n' k c v,
  m_phase m = PInit -> m_kind m = KSet c v -> ns_ok n -> ns_ok n' ->
  fst (fst (tstep w m n k)) = fst (fst (tstep w m n' k)) /\ snd (tstep w m n k) = snd (tstep w m n' k) /\
  final (m_phase (fst (fst (tstep w m n k)))) = true.
Proof.
  intros w m n n' k c v Hp Hk Hn Hn'. unfold tstep. rewrite Hp, Hk.
  destruct (negb (built (nth c (k_cells k) cell0))); [cbn; auto|].
  destruct (val_eqb _ v); [cbn; auto|].
  destruct (the_ns_assemble n k Hn) as [st Es]. destruct (the_ns_assemble n' k Hn') as [st' Es'].
  rewrite Es, Es'. cbn [fst snd fail m_phase final]. split; [reflexivity|]. split; [|reflexivity].
  destruct (assemble_cells _ _ _ Es) as [C1 R1]. destruct (assemble_cells _ _ _ Es') as [C2 R2].
  destruct (setter_cells c v st st') as [C3 R3]; [congruence|congruence|].
  destruct (setter_cells c v _ _ C3 R3) as [C4 R4].
  unfold comp_of. rewrite C4, R4. reflexivity.
Qed.

Lemma final_gstep_k : forall cf G t, final (m_phase (g_m G t)) = true ->
  g_k (gstep cf G t) (c_comp cf t) = g_k G (c_comp cf t).
Proof.
  intros cf G t H. unfold gstep. rewrite final_stuck by exact H. cbn [g_k]. apply fupd_same.
Qed.

Lemma solo_more_k : forall cf t n G, final (m_phase (g_m G t)) = true ->
  g_k (solo cf t n G) (c_comp cf t) = g_k G (c_comp cf t).
Proof.
  intros cf t n. induction n as [|n IH]; intros G H; unfold solo; cbn [repeat run fold_left]; [reflexivity|].
  fold (run cf (repeat t n) (gstep cf G t)). fold (solo cf t n (gstep cf G t)).
  rewrite IH by (rewrite final_gstep_m by exact H; exact H).
  apply final_gstep_k. exact H.
Qed.

Lemma set_value_warm_equals_fresh : forall cf t sched G G' c v,
  (forall u, In u sched -> u <> t -> c_ns cf u <> c_ns cf t /\ c_comp cf u <> c_comp cf t) ->
  g_m G t = start (KSet c v) -> g_m G' t = start (KSet c v) ->
  g_k G (c_comp cf t) = g_k G' (c_comp cf t) ->
  ns_ok (g_ns G (c_ns cf t)) -> ns_ok (g_ns G' (c_ns cf t)) ->
  g_m (run cf sched G) t = g_m (run cf sched G') t /\
  g_k (run cf sched G) (c_comp cf t) = g_k (run cf sched G') (c_comp cf t).
Proof.
  intros cf t sched G G' c v Hs Hm Hm' Hk Hn Hn'.
  pose proof (ni_on_gen cf t sched G G Hs eq_refl) as V1.
  pose proof (ni_on_gen cf t sched G' G' Hs eq_refl) as V2.
  rewrite (only_repeat t sched) in V1, V2.
  assert (E : g_m (solo cf t (length (only t sched)) G) t = g_m (solo cf t (length (only t sched)) G') t /\
              g_k (solo cf t (length (only t sched)) G) (c_comp cf t)
              = g_k (solo cf t (length (only t sched)) G') (c_comp cf t)).
  { destruct (length (only t sched)) as [|n].
    - unfold solo; cbn [repeat run fold_left]. rewrite Hm, Hm'. auto.
    - unfold solo; cbn [repeat run fold_left].
      fold (run cf (repeat t n) (gstep cf G t)). fold (run cf (repeat t n) (gstep cf G' t)).
      fold (solo cf t n (gstep cf G t)). fold (solo cf t n (gstep cf G' t)).
      pose proof (tstep_set_value_warm (c_wb cf t) (start (KSet c v)) _ _ (g_k G (c_comp cf t)) c v
                                       eq_refl eq_refl Hn Hn') as [H1 [H2 H3]].
      assert (M1 : g_m (gstep cf G t) t
                   = fst (fst (tstep (c_wb cf t) (start (KSet c v)) (g_ns G (c_ns cf t)) (g_k G (c_comp cf t))))).
      { unfold gstep. rewrite Hm.
        destruct (tstep (c_wb cf t) (start (KSet c v)) (g_ns G (c_ns cf t)) (g_k G (c_comp cf t))) as [[m1 n1] k1].
        cbn [g_m fst]. apply fupd_same. }
      assert (K1 : g_k (gstep cf G t) (c_comp cf t)
                   = snd (tstep (c_wb cf t) (start (KSet c v)) (g_ns G (c_ns cf t)) (g_k G (c_comp cf t)))).
      { unfold gstep. rewrite Hm.
        destruct (tstep (c_wb cf t) (start (KSet c v)) (g_ns G (c_ns cf t)) (g_k G (c_comp cf t))) as [[m1 n1] k1].
        cbn [g_k snd]. apply fupd_same. }
      assert (M2 : g_m (gstep cf G' t) t
                   = fst (fst (tstep (c_wb cf t) (start (KSet c v)) (g_ns G' (c_ns cf t)) (g_k G (c_comp cf t))))).
      { unfold gstep. rewrite Hm', <- Hk.
        destruct (tstep (c_wb cf t) (start (KSet c v)) (g_ns G' (c_ns cf t)) (g_k G (c_comp cf t))) as [[m1 n1] k1].
        cbn [g_m fst]. apply fupd_same. }
      assert (K2 : g_k (gstep cf G' t) (c_comp cf t)
                   = snd (tstep (c_wb cf t) (start (KSet c v)) (g_ns G' (c_ns cf t)) (g_k G (c_comp cf t)))).
      { unfold gstep. rewrite Hm', <- Hk.
        destruct (tstep (c_wb cf t) (start (KSet c v)) (g_ns G' (c_ns cf t)) (g_k G (c_comp cf t))) as [[m1 n1] k1].
        cbn [g_k snd]. apply fupd_same. }
      assert (F1 : final (m_phase (g_m (gstep cf G t) t)) = true) by (rewrite M1; exact H3).
      assert (F2 : final (m_phase (g_m (gstep cf G' t) t)) = true) by (rewrite M2, <- H1; exact H3).
      rewrite !solo_more, !solo_more_k by assumption.
      split; congruence. }
  destruct E as [E1 E2]. unfold solo in E1, E2. unfold view in V1, V2. split; congruence.
Qed.

(* Example: set_value(A1 := 7) on a workbook whose A1 holds 5, fresh namespace vs
   a namespace left by evaluate(..., iterations=7, tolerance=1/2) *)
Definition left_ns : tns :=
  {| n_tr := Some {| r_todo := [1]%nat; r_computed := [0; 1]%nat; r_itn := 4; r_iters := Some 7; r_tol := Some (1 # 2) |};
     n_ctx := Some create_actx |}.
Definition cfS : config := {| c_wb := fun _ => wbP; c_comp := fun t => t; c_ns := fun t => t |}.
Definition built_comp : comp :=
  {| k_cells := [ {| built := true; value := Some 5%Q; prev := None; wip := false |};
                  {| built := true; value := Some 11%Q; prev := None; wip := false |} ]; k_rngs := [] |}.
Definition GS (n : tns) : glob :=
  {| g_m := fun _ => start (KSet 0 (Some 7%Q)); g_ns := fun _ => n; g_k := fun _ => built_comp |}.
Example set_value_warm_example :
  ns_ok (g_ns (GS absent) 0%nat) /\ ns_ok (g_ns (GS left_ns) 0%nat) /\
  m_phase (g_m (run cfS [0; 1; 0]%nat (GS left_ns)) 0%nat) = PDone /\
  k_cells (g_k (run cfS [0; 1; 0]%nat (GS left_ns)) 0%nat)
  = [ {| built := true; value := Some 7%Q; prev := None; wip := false |};
      {| built := true; value := Some 11%Q; prev := None; wip := false |} ].
Proof. split; [exact I|]. split; [cbn; split; discriminate|]. vm_compute. split; reflexivity. Qed.
