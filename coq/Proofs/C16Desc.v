(* Proofs/C16Desc.v — MATCH(v, a, -1) on data sorted descending in Excel order:
   the position returned holds the smallest value >= v among the cells of v's
   type, #N/A exactly when there is none.  The scan of _match only looks at the
   non-error cells of v's type (and stops at the first smaller one), so the
   general statement [scan_m1_desc] needs nothing but "the cells of v's type
   descend" — any other cells may sit anywhere.
   Known finding C16-blank-cell-counts-as-zero: the scan reads a blank cell as
   the number 0.  The property-level theorem therefore excludes blank cells
   when the lookup value is a number (and only then). *)
From Coq Require Import ZArith QArith List Bool Lia.
From PV Require Import Lib.Py Model.Ops Proofs.C10 Proofs.C10Order Model.LookupCore Proofs.C16
  Proofs.C16Order Proofs.C16Sorted.
Import ListNotations.
Open Scope Z_scope.

(* "c is a cell the scan compares with the lookup value": not an error code,
   of the lookup value's type t; k is its key *)
Definition cand (t : Z) (c : pyval) (k : key) : Prop :=
  in_error_codes c = Ok false /\ abs_key c = Ok k /\ fst k = t.

(* the cells of type t descend (pairwise; other cells are unconstrained) *)
Definition desc_for (t : Z) (l : list pyval) : Prop :=
  forall i j ci cj ki kj, (i < j)%nat -> nth_error l i = Some ci -> nth_error l j = Some cj ->
    cand t ci ki -> cand t cj kj -> kle kj ki.

(* position n (0-based) holds the answer: a candidate >= x, below every other
   candidate >= x; and which of several: the FIRST cell equal to x when x
   occurs, else the LAST cell holding the smallest value above x *)
Definition m1_answer (xk : key) (l : list pyval) (n : nat) (c : pyval) (k : key) : Prop :=
  nth_error l n = Some c /\ cand (fst xk) c k /\ kle xk k
  /\ (forall n' c' k', nth_error l n' = Some c' -> cand (fst xk) c' k' -> kle xk k' -> kle k k')
  /\ ((key_eq k xk = true
       /\ forall n' c' k', (n' < n)%nat -> nth_error l n' = Some c' -> cand (fst xk) c' k' -> klt xk k')
      \/ (key_eq k xk = false
          /\ forall n' c' k', (n < n')%nat -> nth_error l n' = Some c' -> cand (fst xk) c' k' -> ~ kle xk k')).

Definition m1_none (xk : key) (l : list pyval) : Prop :=
  forall n c k, nth_error l n = Some c -> cand (fst xk) c k -> ~ kle xk k.

Lemma in_error_of_key c k : abs_key c = Ok k -> exists b, in_error_codes c = Ok b.
Proof.
  unfold abs_key. destruct (is_scalar c) eqn:Hs; cbn [negb]; [|discriminate]. intros _.
  destruct c; cbn [is_scalar] in Hs; try discriminate;
    unfold in_error_codes, excelutil.c_ERROR_CODES; cbn [py_in hashable]; eauto.
Qed.

Lemma cand_fun t c k k' : cand t c k -> cand t c k' -> k = k'.
Proof. intros (_ & H & _) (_ & H' & _). congruence. Qed.

Lemma cand_wf t c k : cand t c k -> kwf k.
Proof. intros (_ & H & _). eapply abs_key_wf; eauto. Qed.

Lemma desc_for_tail t c l : desc_for t (c :: l) -> desc_for t l.
Proof. intros H i j ci cj ki kj Hij Hi Hj. apply (H (S i) (S j)); [lia|exact Hi|exact Hj]. Qed.

(* skipping a cell the scan does not compare *)
Lemma m1_none_skip xk c l : (forall k, ~ cand (fst xk) c k) -> m1_none xk l -> m1_none xk (c :: l).
Proof.
  intros Hc H [|n] c' k'; cbn [nth_error].
  - intros E. injection E as <-. intros Hk. exfalso. exact (Hc _ Hk).
  - apply H.
Qed.
Lemma m1_answer_skip xk c l n c1 k1 : (forall k, ~ cand (fst xk) c k) ->
  m1_answer xk l n c1 k1 -> m1_answer xk (c :: l) (S n) c1 k1.
Proof.
  intros Hc (Hn & Hk & Hle & Hmin & Htie). split; [exact Hn|]. split; [exact Hk|]. split; [exact Hle|].
  split.
  - intros [|n'] c' k'; cbn [nth_error].
    + intros E. injection E as <-. intros Hk'. exfalso. exact (Hc _ Hk').
    + apply Hmin.
  - destruct Htie as [[He Hb]|[He Ha]]; [left|right]; (split; [exact He|]).
    + intros [|n'] c' k' Hlt; cbn [nth_error].
      * intros E. injection E as <-. intros Hk'. exfalso. exact (Hc _ Hk').
      * apply Hb. lia.
    + intros [|n'] c' k' Hlt; cbn [nth_error]; [lia|]. apply Ha. lia.
Qed.

(* the scan, for any starting index and any pending result *)
Lemma scan_m1_desc xk : kwf xk -> forall l,
  (forall c, In c l -> exists k, abs_key c = Ok k) -> desc_for (fst xk) l ->
  forall i0 last, exists m, scan_m1 xk l i0 last = Ok m
    /\ ((m = last /\ m1_none xk l)
        \/ exists n c k, m = VInt (i0 + Z.of_nat n) /\ m1_answer xk l n c k).
Proof.
  intros Wx. induction l as [|c l IH]; intros Hkeys Hdesc i0 last.
  - exists last. split; [reflexivity|]. left. split; [reflexivity|]. intros [|n] c k; discriminate.
  - assert (Hkeys' : forall c', In c' l -> exists k, abs_key c' = Ok k)
      by (intros c' Hin; apply Hkeys; right; exact Hin).
    pose proof (desc_for_tail _ _ _ Hdesc) as Hdesc'.
    destruct (Hkeys c (or_introl eq_refl)) as (k & Hk).
    destruct (in_error_of_key c k Hk) as (e & He).
    pose proof (abs_key_wf c k Hk) as Wk.
    (* the head is not compared *)
    assert (Hskip : (forall k', ~ cand (fst xk) c k') ->
              exists m, scan_m1 xk l (i0 + 1) last = Ok m
                /\ ((m = last /\ m1_none xk (c :: l))
                    \/ exists n c1 k1, m = VInt (i0 + Z.of_nat n) /\ m1_answer xk (c :: l) n c1 k1)).
    { intros Hc. destruct (IH Hkeys' Hdesc' (i0 + 1) last) as (m & Hm & [[E Hn]|(n & c1 & k1 & E & Ha)]).
      - exists m. split; [exact Hm|]. left. split; [exact E|]. apply m1_none_skip; assumption.
      - exists m. split; [exact Hm|]. right. exists (S n), c1, k1.
        split; [rewrite E; f_equal; lia|]. apply m1_answer_skip; assumption. }
    cbn [scan_m1]. rewrite He. cbn [bind]. destruct e.
    { apply Hskip. intros k' (He' & _). congruence. }
    rewrite Hk. cbn [bind].
    destruct (Z.eqb_spec (fst k) (fst xk)) as [Et|Et].
    2:{ apply Hskip. intros k' (_ & Hk' & Ht). congruence. }
    assert (Hcand : cand (fst xk) c k) by (repeat split; assumption).
    (* later candidates are <= the head *)
    assert (Hlater : forall n' c' k', nth_error l n' = Some c' -> cand (fst xk) c' k' -> kle k' k).
    { intros n' c' k' Hn' Hk'. apply (Hdesc 0%nat (S n') c c' k k'); [lia|reflexivity|exact Hn'|exact Hcand|exact Hk']. }
    destruct (key_lt_total k xk Wk Wx) as (b & Hb). rewrite Hb. cbn [bind]. destruct b.
    + (* head < x: stop, nothing from here on is >= x *)
      exists last. split; [reflexivity|]. left. split; [reflexivity|].
      assert (Hnk : ~ kle xk k) by (apply klt_not_kle; assumption).
      intros [|n] c' k'; cbn [nth_error].
      * intros E. injection E as <-. intros Hk'. rewrite <- (cand_fun _ _ _ _ Hcand Hk'). exact Hnk.
      * intros Hn' Hk' Hle. apply Hnk.
        apply (kle_trans_wf xk k' k); [exact Wx|eapply cand_wf; eauto|exact Wk|exact Hle|].
        exact (Hlater n c' k' Hn' Hk').
    + destruct (key_eq k xk) eqn:Eq.
      * (* head = x: the answer *)
        exists (VInt i0). split; [reflexivity|]. right. exists 0%nat, c, k.
        split; [f_equal; lia|]. split; [reflexivity|]. split; [exact Hcand|].
        split; [apply key_eq_kle_rev; assumption|]. split.
        -- intros n' c' k' Hn' Hk' Hle.
           apply (kle_trans_wf k xk k'); [exact Wk|exact Wx|eapply cand_wf; eauto|apply key_eq_kle; exact Eq|exact Hle].
        -- left. split; [exact Eq|]. intros n' c' k' Hlt. lia.
      * (* head > x: remember it and go on *)
        assert (Hgt : klt xk k) by (apply not_lt_not_eq_gt; assumption).
        assert (Hge : kle xk k) by (apply klt_kle; assumption).
        destruct (IH Hkeys' Hdesc' (i0 + 1) (VInt i0)) as (m & Hm & [[E Hn]|(n & c1 & k1 & E & Ha)]).
        -- exists m. split; [exact Hm|]. right. exists 0%nat, c, k.
           split; [rewrite E; f_equal; lia|]. split; [reflexivity|]. split; [exact Hcand|].
           split; [exact Hge|]. split.
           ++ intros [|n'] c' k'; cbn [nth_error].
              ** intros E'. injection E' as <-. intros Hk' _. rewrite <- (cand_fun _ _ _ _ Hcand Hk').
                 apply kle_refl. exact Wk.
              ** intros Hn' Hk' Hle. exfalso. exact (Hn n' c' k' Hn' Hk' Hle).
           ++ right. split; [exact Eq|]. intros [|n'] c' k' Hlt; cbn [nth_error]; [lia|].
              apply Hn.
        -- destruct Ha as (Hn1 & Hk1 & Hle1 & Hmin & Htie).
           exists m. split; [exact Hm|]. right. exists (S n), c1, k1.
           split; [rewrite E; f_equal; lia|]. split; [exact Hn1|]. split; [exact Hk1|].
           split; [exact Hle1|]. split.
           ++ intros [|n'] c' k'; cbn [nth_error].
              ** intros E'. injection E' as <-. intros Hk' _. rewrite <- (cand_fun _ _ _ _ Hcand Hk').
                 exact (Hlater n c1 k1 Hn1 Hk1).
              ** apply Hmin.
           ++ destruct Htie as [[He1 Hb1]|[He1 Ha1]]; [left|right]; (split; [exact He1|]).
              ** intros [|n'] c' k' Hlt; cbn [nth_error].
                 --- intros E'. injection E' as <-. intros Hk'. rewrite <- (cand_fun _ _ _ _ Hcand Hk').
                     exact Hgt.
                 --- apply Hb1. lia.
              ** intros [|n'] c' k' Hlt; cbn [nth_error]; [lia|]. apply Ha1. lia.
Qed.

Lemma match_m1_eq v x a : lv_key v = Ok x ->
  match_ v (VTuple a) (VInt (-1)) = scan_m1 (fst x) a 1 NA.
Proof. intros H. unfold match_. cbn [seq_items bind]. rewrite H. reflexivity. Qed.

Lemma m1_answer_pos xk l n c k : m1_answer xk l n c k -> (n < length l)%nat.
Proof. intros (H & _). apply nth_error_Some. congruence. Qed.

(* C16_match_m1_scan: whatever else the vector holds, if its cells of v's type
   descend, MATCH(v, a, -1) is the position of the smallest one >= v *)
Theorem match_m1_scan v x a : lv_key v = Ok x ->
  (forall c, In c a -> exists k, abs_key c = Ok k) -> desc_for (fst (fst x)) a ->
  (exists i c k, match_ v (VTuple a) (VInt (-1)) = Ok (VInt i) /\ 1 <= i <= zlen a
                 /\ m1_answer (fst x) a (Z.to_nat (i - 1)) c k)
  \/ (match_ v (VTuple a) (VInt (-1)) = Ok NA /\ m1_none (fst x) a).
Proof.
  intros Hv Hkeys Hdesc. rewrite (match_m1_eq v x a Hv).
  destruct (scan_m1_desc (fst x) (proj1 (lv_key_wf v x Hv)) a Hkeys Hdesc 1 NA)
    as (m & Hm & [[E Hn]|(n & c & k & E & Ha)]).
  - right. subst m. auto.
  - left. exists (1 + Z.of_nat n), c, k. subst m. split; [exact Hm|].
    pose proof (m1_answer_pos _ _ _ _ _ Ha). split; [unfold zlen; lia|].
    replace (Z.to_nat (1 + Z.of_nat n - 1)) with n by lia. exact Ha.
Qed.

(* ---------------------------------------------- "sorted descending" as a whole *)
(* blanks, then non-blank cells whose keys descend (adjacent pairs >=), then blanks *)
Definition excel_descending (a : list pyval) : Prop :=
  exists nl mid nt ks, a = repeat VNone nl ++ mid ++ repeat VNone nt
    /\ Forall (fun c => c <> VNone) mid /\ mapM abs_key mid = Ok ks /\ descending ks.

Lemma descending_keys a : excel_descending a -> forall c, In c a -> exists k, abs_key c = Ok k.
Proof.
  intros (nl & mid & nt & ks & -> & _ & Hks & _) c Hin.
  apply in_app_or in Hin. destruct Hin as [Hin|Hin].
  { apply repeat_spec in Hin. subst c. eexists. reflexivity. }
  apply in_app_or in Hin. destruct Hin as [Hin|Hin].
  - apply In_nth_error in Hin. destruct Hin as (q & Hq).
    destruct (proj2 (mapM_nth abs_key mid ks Hks) q c Hq) as (k & Hk & _). eauto.
  - apply repeat_spec in Hin. subst c. eexists. reflexivity.
Qed.

Lemma descending_desc_for t a : excel_descending a -> (t = 0 -> ~ In VNone a) -> desc_for t a.
Proof.
  intros (nl & mid & nt & ks & -> & Hnb & Hks & Hd) Hblank.
  assert (Hnn : forall j c k, nth_error (repeat VNone nl ++ mid ++ repeat VNone nt) j = Some c ->
            cand t c k -> exists q, j = (nl + q)%nat /\ nth_error ks q = Some k).
  { intros j c k Hj (He & Hk & Ht).
    assert (Hc : c <> VNone).
    { intros ->. apply Hblank; [|eapply nth_error_In; eauto].
      rewrite abs_key_blank in Hk. injection Hk as <-. symmetry. exact Ht. }
    destruct (nonblank_in_mid nl mid nt j c Hj Hc) as (q & -> & Hq). exists q. split; [reflexivity|].
    destruct (proj2 (mapM_nth abs_key mid ks Hks) q c Hq) as (k0 & Hk0 & Hn). congruence. }
  intros i j ci cj ki kj Hij Hi Hj Hci Hcj.
  destruct (Hnn i ci ki Hi Hci) as (qi & -> & Hqi). destruct (Hnn j cj kj Hj Hcj) as (qj & -> & Hqj).
  apply (descending_pairwise ks (mapM_abs_wf mid ks Hks) Hd qi qj ki kj); [lia|exact Hqi|exact Hqj].
Qed.

(* C16_match_m1_sorted *)
Theorem match_m1_sorted v x a : lv_key v = Ok x -> excel_descending a ->
  (fst (fst x) = 0 -> ~ In VNone a) ->
  (exists i c k, match_ v (VTuple a) (VInt (-1)) = Ok (VInt i) /\ 1 <= i <= zlen a /\ c <> VNone
                 /\ m1_answer (fst x) a (Z.to_nat (i - 1)) c k)
  \/ (match_ v (VTuple a) (VInt (-1)) = Ok NA /\ m1_none (fst x) a).
Proof.
  intros Hv Ha Hblank.
  destruct (match_m1_scan v x a Hv (descending_keys a Ha) (descending_desc_for _ a Ha Hblank))
    as [(i & c & k & Hm & Hi & Hans)|H]; [left|right; exact H].
  exists i, c, k. split; [exact Hm|]. split; [exact Hi|]. split; [|exact Hans].
  destruct Hans as (Hn & (_ & Hk & Ht) & _). intros ->. apply Hblank; [|eapply nth_error_In; eauto].
  rewrite abs_key_blank in Hk. injection Hk as <-. symmetry. exact Ht.
Qed.

(* ------------------------------------------------------ examples (non-vacuity) *)
Example ex_descending :
  excel_descending [VNone; excelutil.c_DIV0; VBool true; s_b; s_a; VInt 5; VInt 3; VInt 3; VInt 1; VNone].
Proof.
  exists 1%nat, [excelutil.c_DIV0; VBool true; s_b; s_a; VInt 5; VInt 3; VInt 3; VInt 1], 1%nat.
  eexists. split; [reflexivity|]. split.
  - repeat constructor; discriminate.
  - split; [vm_compute; reflexivity|].
    intros i ki kj. do 8 (destruct i as [|i]; [cbn [nth_error]; intros H1 H2; try discriminate;
      injection H1 as <-; injection H2 as <-; vm_compute; reflexivity|]).
    cbn [nth_error]. destruct i; discriminate.
Qed.
(* a text lookup value: the blanks at the ends do not matter *)
Example ex_m1_hyps : exists x, lv_key s_B = Ok x
  /\ excel_descending [VNone; excelutil.c_DIV0; VBool true; s_b; s_a; VInt 5; VInt 3; VInt 3; VInt 1; VNone]
  /\ (fst (fst x) = 0 ->
      ~ In VNone [VNone; excelutil.c_DIV0; VBool true; s_b; s_a; VInt 5; VInt 3; VInt 3; VInt 1; VNone]).
Proof.
  eexists. split; [vm_compute; reflexivity|]. split; [exact ex_descending|].
  cbn [fst]. intros H. discriminate H.
Qed.
Example ex_match_m1_dups :
  match_ (VInt 2) (VTuple [excelutil.c_DIV0; VBool true; s_b; VInt 5; VInt 3; VInt 3; VInt 1]) (VInt (-1))
  = Ok (VInt 6).
Proof. vm_compute. reflexivity. Qed.
Example ex_match_m1_exact_first :
  match_ (VInt 3) (VTuple [VBool true; s_b; VInt 5; VInt 3; VInt 3; VInt 1]) (VInt (-1)) = Ok (VInt 4).
Proof. vm_compute. reflexivity. Qed.

(* the hypotheses of match_m1_scan on a vector that is NOT sorted as a whole:
   only its numbers descend *)
Definition mixed_vec := [s_a; VInt 5; s_b; VInt 3; VBool true; VInt 3; excelutil.c_DIV0; VInt 1].
Example ex_m1_scan_hyps : exists x, lv_key (VInt 2) = Ok x
  /\ (forall c, In c mixed_vec -> exists k, abs_key c = Ok k) /\ desc_for (fst (fst x)) mixed_vec.
Proof.
  eexists. split; [vm_compute; reflexivity|]. split.
  - intros c Hin. repeat (destruct Hin as [<-|Hin]; [eexists; vm_compute; reflexivity|]). destruct Hin.
  - cbn [fst]. intros i j ci cj ki kj Hij Hi Hj (_ & Hki & Hti) (_ & Hkj & Htj).
    unfold mixed_vec in Hi, Hj.
    repeat match type of Hi with
           | nth_error (_ :: _) ?n = Some _ =>
               let m := fresh "i" in destruct n as [|m]; cbn [nth_error] in Hi
           end.
    all: try match type of Hi with nth_error [] ?n = _ => destruct n; discriminate Hi end.
    all: injection Hi as <-; vm_compute in Hki; injection Hki as <-; cbn [fst] in Hti;
      try discriminate Hti.
    all: repeat match type of Hj with
                | nth_error (_ :: _) ?n = Some _ =>
                    let m := fresh "j" in destruct n as [|m]; cbn [nth_error] in Hj
                end.
    all: try lia.
    all: try match type of Hj with nth_error [] ?n = _ => destruct n; discriminate Hj end.
    all: injection Hj as <-; vm_compute in Hkj; injection Hkj as <-; cbn [fst] in Htj;
      try discriminate Htj; vm_compute; reflexivity.
Qed.
Example ex_m1_scan : match_ (VInt 2) (VTuple mixed_vec) (VInt (-1)) = Ok (VInt 6).
Proof. vm_compute. reflexivity. Qed.
