(* Proofs/C12Tol.v — C12 for EVERY tolerance (absent, positive, zero, negative).
   Proofs/C12.v uses [tol_pos tol] and [is_scalar (spec n)] in ONE place only
   (RI_step: close_enough v v = true for the from-scratch value v of the popped
   cell).  Module T below is Proofs/C12.v verbatim with these two hypotheses
   replaced by that one consequence
       RF : forall n, n < N -> fcell n = true -> close_enough tol (spec n) (spec n) = true
   so sound / complete / no_silent_skip / clean_not_reported / bad_reported hold
   for ANY tolerance on workbooks whose formula results are close_enough to
   themselves: with tolerance <= 0 these are the workbooks whose formula cells
   give text or error values (refl_nonnumber; a number or a logical is never
   close to itself then: refl_number_needs_pos, Refuted/C12_zero_tolerance.v),
   with tolerance absent or positive all scalars (C12Base.close_enough_refl).
   [perturb] is the definition of Proofs/C12.v. *)
From Coq Require Import List Arith Bool Lia ZArith QArith Qabs.
From PV Require Import Lib.Py Model.Graph Model.Validate.
From PV Require Import Proofs.C01Base Proofs.C01Eval Proofs.C01Inv Proofs.C01 Proofs.C12Base.
From PV Require Import Proofs.C12.
Import ListNotations.
Local Open Scope nat_scope.

Module T.
Lemma filter_len {A} (f : A -> bool) l : length (filter f l) <= length l.
Proof. induction l as [|x l IH]; cbn; auto. destruct (f x); cbn; lia. Qed.

Lemma filter_none {A} (f : A -> bool) l : (forall x, In x l -> f x = false) -> filter f l = [].
Proof.
  induction l as [|x l IH]; intros H; cbn; auto.
  rewrite (H x) by (left; auto). apply IH. intros; apply H; right; auto.
Qed.

Lemma app_split {A} (P : list A) : forall l1 m l2 rest, P ++ rest = l1 ++ m :: l2 ->
  In m P \/ exists l1', l1 = P ++ l1' /\ rest = l1' ++ m :: l2.
Proof.
  induction P as [|x P IH]; intros l1 m l2 rest H.
  - right. exists l1. auto.
  - destruct l1 as [|y l1]; cbn in H; injection H as E1 E2.
    + left. left. auto.
    + subst y. destruct (IH l1 m l2 rest E2) as [I|[l1' [Ea Eb]]].
      * left. right. auto.
      * right. exists l1'. split; auto. cbn. now f_equal.
Qed.

Lemma ex_dec {A} (P : A -> Prop) : forall l, (forall d, In d l -> P d \/ ~ P d) ->
  (exists d, In d l /\ P d) \/ ~ (exists d, In d l /\ P d).
Proof.
  induction l as [|x l IH]; intros H.
  - right. intros [d [[] _]].
  - destruct (H x ltac:(left; auto)) as [Px|NPx]; [left; exists x; split; [left|]; auto|].
    destruct (IH ltac:(intros; apply H; right; auto)) as [[d [I Pd]]|NE].
    + left. exists d. split; [right|]; auto.
    + right. intros [d [[->|I] Pd]]; [auto|]. apply NE. exists d. auto.
Qed.

Section Loop.
  Variable W : workbook.
  Variable sem : nat -> list pyval -> pyval.
  Variable ftext : nat -> list Z.
  Variable tol : option Q.
  Variable outs : list nat.

  Notation N := (wb_n W).
  Notation deps := (wb_deps W).
  Notation isinput := (wb_input W).
  Notation isrange := (wb_range W).
  Notation stored := (wb_stored W).
  Notation sp := (spec W sem (wb_inp0 W)).
  Notation anc := (anc W).
  Notation fcell := (is_fcell W).
  Notation clean := (clean W sem).
  Notation semiclean := (semiclean W sem).
  Notation K := (K W sem).
  Notation recalc := (recalc W sem).
  Notation val := (val W sem).

  Hypothesis WF : wf W.
  Hypothesis NB : sem_nonblank W sem.
  Hypothesis SF : stored_full W.
  (* the 'No Orig data?' branch (lines 635-637) is never taken: no stored result
     and no computed value of a formula cell is the text of its own formula *)
  Hypothesis TXs : forall n, n < N -> fcell n = true -> py_eq (stored n) (VStr (ftext n)) = false.
  Hypothesis TXv : forall n vals, n < N -> fcell n = true ->
                     py_eq (sem n vals) (VStr (ftext n)) = false.
  (* ALL that the loop needs of the tolerance and of the values: the from-scratch
     value of a formula cell is close_enough to itself *)
  Hypothesis RF : forall n, n < N -> fcell n = true -> close_enough tol (sp n) (sp n) = true.

  Lemma fcell_noninput n : fcell n = true -> isinput n = false.
  Proof. unfold is_fcell. intros H. apply andb_prop in H. destruct H as [H _]. now apply negb_true_iff. Qed.

  Lemma anc_dec a : forall n, n < N -> anc a n \/ ~ anc a n.
  Proof.
    induction n as [n IH] using lt_wf_ind. intros L.
    assert (E: anc a n <-> exists d, In d (deps n) /\ (d = a \/ anc a d)).
    { split.
      - intros A. inversion A as [x y H|x b y A' H]; subst.
        + exists a. auto.
        + exists b. auto.
      - intros [d [H [->|A]]]; [now constructor|eapply anc_trans; eauto]. }
    destruct (ex_dec (fun d => d = a \/ anc a d) (deps n)) as [Y|No].
    - intros d Hd. pose proof (deps_lt W WF n d L Hd) as Ld.
      destruct (Nat.eq_dec d a) as [->|NE]; [left; left; auto|].
      destruct (IH d Ld ltac:(lia)) as [A|NA]; [left; right; auto|].
      right. intros [X|X]; auto.
    - left. now apply E.
    - right. intros A. apply No. now apply E.
  Qed.

  (* --------------------------------------------------------------- the stack *)
  Lemma push_fold v : forall l todo,
    fold_left (fun td d => if mem d v then td else d :: td) l todo
    = rev (filter (fun d => negb (mem d v)) l) ++ todo.
  Proof.
    induction l as [|d l IH]; intros todo; cbn [fold_left filter]; auto.
    destruct (mem d v); cbn [negb]; rewrite IH; auto.
    cbn [rev]. now rewrite <- app_assoc.
  Qed.
  Lemma push_deps_eq n v todo :
    push_deps W n v todo = rev (filter (fun d => negb (mem d v)) (deps n)) ++ todo.
  Proof. apply push_fold. Qed.

  Lemma in_pushed n v d : In d (rev (filter (fun d => negb (mem d v)) (deps n))) <->
    In d (deps n) /\ mem d v = false.
  Proof. rewrite <- in_rev, filter_In, negb_true_iff. tauto. Qed.

  Record TI (todo v : list nat) : Prop := {
    ti_todo : forall n, In n todo -> n < N;
    ti_ver : forall n, mem n v = true -> n < N;
    (* a verified node on the stack: its precedents are verified or above it *)
    ti_pos : forall l1 n l2, todo = l1 ++ n :: l2 -> mem n v = true ->
               forall d, In d (deps n) -> mem d v = true \/ In d l1;
    ti_closed : forall n d, mem n v = true -> In d (deps n) -> mem d v = true \/ In d todo;
    ti_outs : forall o, In o outs -> mem o v = true \/ In o todo
  }.

  Lemma TI_step n rest v : TI (n :: rest) v -> TI (push_deps W n (vadd n v) rest) (vadd n v).
  Proof.
    intros T. pose proof (ti_todo _ _ T n ltac:(left; auto)) as Ln.
    rewrite push_deps_eq. set (P := rev (filter (fun d => negb (mem d (vadd n v))) (deps n))).
    assert (InP: forall d, In d P <-> In d (deps n) /\ mem d (vadd n v) = false) by (intros; apply in_pushed).
    assert (Mono: forall m, mem m v = true -> mem m (vadd n v) = true).
    { intros m H. rewrite mem_vadd, H. apply orb_true_r. }
    (* a precedent of n is verified or has just been pushed *)
    assert (Dn: forall d, In d (deps n) -> mem d (vadd n v) = true \/ In d P).
    { intros d Hd. destruct (mem d (vadd n v)) eqn:M; auto. right. apply InP. auto. }
    (* what was in n :: rest is verified or still on the stack *)
    assert (Old: forall d, In d (n :: rest) -> mem d (vadd n v) = true \/ In d (P ++ rest)).
    { intros d [<-|H]; [left; apply mem_vadd_same|right; apply in_or_app; auto]. }
    split.
    - intros x Hx. apply in_app_or in Hx. destruct Hx as [Hx|Hx].
      + apply InP in Hx. destruct Hx as [Hx _]. apply (deps_ltN W WF n x Ln Hx).
      + apply (ti_todo _ _ T). right. auto.
    - intros m Hm. rewrite mem_vadd in Hm. destruct (Nat.eqb_spec m n) as [Emn|NE].
      + now subst m.
      + apply (ti_ver _ _ T). exact Hm.
    - intros l1 m l2 E Hm d Hd.
      destruct (app_split P l1 m l2 rest E) as [I|[l1' [E1 E2]]].
      { apply InP in I. destruct I as [_ I]. congruence. }
      subst l1. destruct (mem m v) eqn:Mv.
      + destruct (ti_pos _ _ T (n :: l1') m l2 ltac:(cbn; now f_equal) Mv d Hd) as [H|[<-|H]].
        * left. auto.
        * left. apply mem_vadd_same.
        * right. apply in_or_app. auto.
      + assert (m = n).
        { rewrite mem_vadd, Mv, orb_false_r in Hm. now apply Nat.eqb_eq. }
        subst m. destruct (Dn d Hd) as [H|H]; auto. right. apply in_or_app. auto.
    - intros m d Hm Hd. destruct (mem m v) eqn:Mv.
      + destruct (ti_closed _ _ T m d Mv Hd) as [H|H]; [left; auto|apply Old; auto].
      + assert (m = n).
        { rewrite mem_vadd, Mv, orb_false_r in Hm. now apply Nat.eqb_eq. }
        subst m. destruct (Dn d Hd) as [H|H]; auto. right. apply in_or_app. auto.
    - intros o Ho. destruct (ti_outs _ _ T o Ho) as [H|H]; [left; auto|apply Old; auto].
  Qed.

  (* ------------------------------------------------------------- the measure *)
  Definition ue (v l : list nat) : nat :=
    fold_right (fun m a => (if mem m v then 0 else length (deps m)) + a) 0 l.
  Definition mu (todo v : list nat) : nat := length todo + ue v (seq 0 N).

  Lemma ue_nil l : ue [] l = fold_right (fun n a => length (deps n) + a) 0 l.
  Proof. induction l as [|x l IH]; cbn; auto. Qed.

  Lemma ue_notin n v l : ~ In n l -> ue (n :: v) l = ue v l.
  Proof.
    induction l as [|x l IH]; intros H; cbn [ue fold_right]; auto.
    fold (ue (n :: v) l). fold (ue v l). rewrite IH by (intros I; apply H; right; auto).
    rewrite mem_cons. destruct (Nat.eqb_spec x n) as [->|NE]; [exfalso; apply H; left; auto|].
    reflexivity.
  Qed.

  Lemma ue_in n v l : mem n v = false -> NoDup l -> In n l ->
    ue (n :: v) l + length (deps n) = ue v l.
  Proof.
    intros M. induction l as [|x l IH]; intros ND I; [destruct I|].
    inversion ND as [|y l' NI ND']; subst. cbn [ue fold_right].
    fold (ue (n :: v) l). fold (ue v l). rewrite mem_cons.
    destruct (Nat.eqb_spec x n) as [->|NE].
    - rewrite M, ue_notin by auto. cbn [orb]. lia.
    - destruct I as [I|I]; [congruence|]. specialize (IH ND' I). cbn [orb]. lia.
  Qed.

  Lemma mu_step n rest v : TI (n :: rest) v ->
    mu (push_deps W n (vadd n v) rest) (vadd n v) < mu (n :: rest) v.
  Proof.
    intros T. pose proof (ti_todo _ _ T n ltac:(left; auto)) as Ln.
    rewrite push_deps_eq. unfold mu. rewrite app_length, rev_length. cbn [length].
    destruct (mem n v) eqn:M.
    - assert (E: vadd n v = v) by (unfold vadd; now rewrite M). rewrite E.
      rewrite filter_none; [cbn; lia|].
      intros d Hd. apply negb_false_iff.
      destruct (ti_pos _ _ T [] n rest eq_refl M d Hd) as [H|[]]. exact H.
    - assert (E: vadd n v = n :: v) by (unfold vadd; now rewrite M). rewrite E.
      pose proof (filter_len (fun d => negb (mem d (n :: v))) (deps n)).
      pose proof (ue_in n v (seq 0 N) M (seq_NoDup N 0) ltac:(apply in_seq; lia)). lia.
  Qed.

  (* ------------------------------------- the compiler state and the verified set *)
  Record SI (s : state) (v : list nat) : Prop := {
    si_K : K s;
    si_built : forall n, mem n v = true -> st_built s n = true;
    (* a formula cell that has not been checked yet still holds its stored result *)
    si_unv : forall n, fcell n = true -> st_built s n = true -> mem n v = false ->
               st_cache s n = stored n;
    (* a checked formula cell all of whose ancestors have consistent stored
       results holds its from-scratch value *)
    si_ver : forall n, fcell n = true -> mem n v = true -> semiclean n -> st_cache s n = sp n;
    si_txt : forall n, fcell n = true -> st_built s n = true ->
               py_eq (st_cache s n) (VStr (ftext n)) = false
  }.

  Lemma build_SI s v n : SI s v -> n < N ->
    SI (build W sem s n) v /\ st_built (build W sem s n) n = true.
  Proof.
    intros Si L. destruct (build_K W sem WF NB s n SF (si_K _ _ Si) L) as (K1 & Bn & Old & New).
    split; [|exact Bn]. split.
    - exact K1.
    - intros m Hm. apply Old. now apply (si_built _ _ Si).
    - intros m FC Bm Hm. destruct (st_built s m) eqn:B.
      + destruct (Old m B) as [_ ->]. now apply (si_unv _ _ Si).
      + now apply New.
    - intros m FC Hm C. destruct (Old m (si_built _ _ Si m Hm)) as [_ ->].
      now apply (si_ver _ _ Si).
    - intros m FC Bm. destruct (st_built s m) eqn:B.
      + destruct (Old m B) as [_ ->]. now apply (si_txt _ _ Si).
      + rewrite (New m B Bm FC). apply TXs; auto. apply (k_lt W sem _ K1 m Bm).
  Qed.

  Lemma recalc_SI s v n : SI s v -> st_built s n = true -> fcell n = true -> n < N ->
    SI (recalc s n) (vadd n v)
    /\ st_cache (recalc s n) n = val s n
    /\ (forall m, m <> n -> st_cache (recalc s n) m = st_cache s m)
    /\ (semiclean n -> val s n = sp n).
  Proof.
    intros Si B FC L. pose proof (fcell_noninput n FC) as I.
    destruct (recalc_K W sem WF NB s n (si_K _ _ Si) B I) as (K1 & Eb & Cn & Oth & Sc).
    split; [|auto]. split.
    - exact K1.
    - intros m Hm. rewrite Eb. destruct (Nat.eq_dec m n) as [->|NE]; auto.
      rewrite mem_vadd_other in Hm by auto. now apply (si_built _ _ Si).
    - intros m FCm Bm Hm. rewrite Eb in Bm. rewrite mem_vadd in Hm.
      apply orb_false_iff in Hm. destruct Hm as [Hn Hm]. apply Nat.eqb_neq in Hn.
      rewrite Oth by auto. now apply (si_unv _ _ Si).
    - intros m FCm Hm C. destruct (Nat.eq_dec m n) as [->|NE].
      + rewrite Cn. now apply Sc.
      + rewrite Oth by auto. rewrite mem_vadd_other in Hm by auto. now apply (si_ver _ _ Si).
    - intros m FCm Bm. rewrite Eb in Bm. destruct (Nat.eq_dec m n) as [->|NE].
      + rewrite Cn. unfold C12Base.val. now apply TXv.
      + rewrite Oth by auto. now apply (si_txt _ _ Si).
  Qed.

  Lemma SI_nonf s v n : SI s v -> st_built s n = true -> fcell n = false -> SI s (vadd n v).
  Proof.
    intros Si B FC. split.
    - apply (si_K _ _ Si).
    - intros m Hm. destruct (Nat.eq_dec m n) as [->|NE]; auto.
      rewrite mem_vadd_other in Hm by auto. now apply (si_built _ _ Si).
    - intros m FCm Bm Hm. rewrite mem_vadd in Hm. apply orb_false_iff in Hm.
      now apply (si_unv _ _ Si).
    - intros m FCm Hm C. destruct (Nat.eq_dec m n) as [->|NE]; [congruence|].
      rewrite mem_vadd_other in Hm by auto. now apply (si_ver _ _ Si).
    - apply (si_txt _ _ Si).
  Qed.

  (* ------------------------------------------------------------- the report *)
  Record RI (r : report) (v : list nat) : Prop := {
    ri_ver : forall n x, rep_get r n = Some x -> mem n v = true;
    (* sound: a cell whose stored result and whose ancestors' stored results are
       consistent is never reported *)
    ri_clean : forall n, clean n -> rep_get r n = None;
    (* complete: a checked cell with consistent ancestors whose stored result is
       not close to its from-scratch value is reported with exactly this pair *)
    ri_bad : forall n, n < N -> fcell n = true -> semiclean n -> mem n v = true ->
               close_enough tol (sp n) (stored n) = false ->
               rep_get r n = Some (stored n, sp n)
  }.

  Lemma RI_step s1 v r n : SI s1 v -> st_built s1 n = true -> fcell n = true -> n < N ->
    RI r v ->
    (close_enough tol (val s1 n) (st_cache s1 n) = true -> RI r (vadd n v)) /\
    (close_enough tol (val s1 n) (st_cache s1 n) = false ->
       RI (rep_set r n (st_cache s1 n, val s1 n)) (vadd n v)).
  Proof.
    intros Si B FC L Ri. pose proof (fcell_noninput n FC) as I.
    destruct (recalc_SI s1 v n Si B FC L) as (_ & _ & _ & Sc).
    assert (F1: clean n -> st_cache s1 n = sp n).
    { intros C. apply (k_clean W sem _ (si_K _ _ Si)); auto. }
    assert (Refl: close_enough tol (sp n) (sp n) = true).
    { apply RF; auto. }
    assert (Mono: forall m, mem m v = true -> mem m (vadd n v) = true).
    { intros m H. rewrite mem_vadd, H. apply orb_true_r. }
    split; intros CE; split.
    - intros m x H. apply Mono. eapply (ri_ver _ _ Ri); eauto.
    - apply (ri_clean _ _ Ri).
    - intros m Lm FCm C Hm CEm. destruct (Nat.eq_dec m n) as [->|NE].
      + destruct (mem n v) eqn:Mv; [apply (ri_bad _ _ Ri); auto|].
        rewrite (si_unv _ _ Si n FC B Mv), (Sc C) in CE. congruence.
      + rewrite mem_vadd_other in Hm by auto. apply (ri_bad _ _ Ri); auto.
    - intros m x. rewrite rep_get_set. destruct (Nat.eqb_spec m n) as [->|NE].
      + intros _. apply mem_vadd_same.
      + intros H. apply Mono. eapply (ri_ver _ _ Ri); eauto.
    - intros m C. rewrite rep_get_set. destruct (Nat.eqb_spec m n) as [->|NE].
      + rewrite (F1 C), (Sc (clean_semiclean W sem n C)) in CE. congruence.
      + apply (ri_clean _ _ Ri); auto.
    - intros m Lm FCm C Hm CEm. rewrite rep_get_set. destruct (Nat.eqb_spec m n) as [->|NE].
      + destruct (mem n v) eqn:Mv.
        * rewrite (si_ver _ _ Si n FC Mv C), (Sc C) in CE. congruence.
        * now rewrite (si_unv _ _ Si n FC B Mv), (Sc C).
      + rewrite mem_vadd_other in Hm by auto. apply (ri_bad _ _ Ri); auto.
  Qed.

  (* ----------------------------------------------------------- one iteration *)
  Definition LI (vs : vstate) : Prop :=
    SI (vs_st vs) (vs_verified vs) /\ TI (vs_todo vs) (vs_verified vs)
    /\ RI (vs_report vs) (vs_verified vs).

  Notation vstep := (vstep W sem ftext tol).
  Notation vloop := (vloop W sem ftext tol).

  Lemma vstep_LI vs n rest : LI vs -> vs_todo vs = n :: rest ->
    LI (vstep vs) /\
    mu (vs_todo (vstep vs)) (vs_verified (vstep vs)) < mu (vs_todo vs) (vs_verified vs).
  Proof.
    destruct vs as [s todo v r]. unfold LI. cbn [vs_st vs_todo vs_verified vs_report].
    intros (Si & Ti & Ri) ->. pose proof (ti_todo _ _ Ti n ltac:(left; auto)) as Ln.
    destruct (build_SI s v n Si Ln) as [Si1 Bn].
    unfold Validate.vstep. cbn [vs_st vs_todo vs_verified vs_report]. cbv zeta.
    set (s1 := build W sem s n) in *.
    pose proof (TI_step n rest v Ti) as Ti'. pose proof (mu_step n rest v Ti) as Mu.
    destruct (fcell n) eqn:FC.
    2:{ cbn [vs_st vs_todo vs_verified vs_report]. split; [|exact Mu].
        split; [apply SI_nonf; auto|split; [exact Ti'|]].
        split.
        - intros m x H. rewrite mem_vadd, (ri_ver _ _ Ri m x H). apply orb_true_r.
        - apply (ri_clean _ _ Ri).
        - intros m Lm FCm C Hm CEm. destruct (Nat.eq_dec m n) as [->|NE]; [congruence|].
          rewrite mem_vadd_other in Hm by auto. apply (ri_bad _ _ Ri); auto. }
    rewrite (si_txt _ _ Si1 n FC Bn).
    pose proof (fcell_noninput n FC) as In.
    assert (Orig: is_none (st_cache s1 n) = false).
    { apply is_none_false. apply (k_full W sem _ (si_K _ _ Si1)); auto. }
    rewrite Orig. cbn [orb].
    destruct (recalc_SI s1 v n Si1 Bn FC Ln) as (Si2 & Cn & Oth & _).
    destruct (RI_step s1 v r n Si1 Bn FC Ln Ri) as [R1 R2].
    rewrite Cn. destruct (close_enough tol (val s1 n) (st_cache s1 n)) eqn:CE;
      cbn [vs_st vs_todo vs_verified vs_report]; (split; [|exact Mu]).
    - split; [exact Si2|split; [exact Ti'|auto]].
    - split; [|split; [exact Ti'|auto]].
      assert (B2: st_built (recalc s1 n) n = true).
      { apply (si_built _ _ Si2). apply mem_vadd_same. }
      destruct (recalc_SI (recalc s1 n) (vadd n v) n Si2 B2 FC Ln) as (Si3 & _).
      now rewrite vadd_idem in Si3.
  Qed.

  Lemma vloop_LI : forall f vs, LI vs -> mu (vs_todo vs) (vs_verified vs) <= f ->
    LI (vloop f vs) /\ vs_todo (vloop f vs) = [].
  Proof.
    induction f as [|f IH]; intros vs L M; cbn [Validate.vloop].
    - split; auto. unfold mu in M. destruct (vs_todo vs); auto. cbn in M. lia.
    - destruct (vs_todo vs) as [|n rest] eqn:T; [split; auto|].
      destruct (vstep_LI vs n rest L T) as [L' M']. rewrite T in M'. apply IH; auto. lia.
  Qed.

  Hypothesis OUTS : forall o, In o outs -> o < N.

  Lemma LI_start : LI {| vs_st := init W; vs_todo := rev outs; vs_verified := []; vs_report := [] |}.
  Proof.
    unfold LI. cbn [vs_st vs_todo vs_verified vs_report]. split; [|split].
    - split; try (intros; discriminate). apply K_init.
    - split; try (intros; discriminate).
      + intros n H. apply OUTS. rewrite in_rev. exact H.
      + intros o H. right. rewrite <- in_rev. exact H.
    - split; try (intros; discriminate). reflexivity.
  Qed.

  Lemma validate_LI :
    let vs := validate W sem ftext tol outs in LI vs /\ vs_todo vs = [].
  Proof.
    cbn zeta. unfold validate, validate_from. apply vloop_LI; [apply LI_start|].
    cbn [vs_todo vs_verified]. unfold mu. rewrite rev_length, ue_nil. unfold edges. lia.
  Qed.

  (* ---------------------------------------------------------------- theorems *)
  (* the loop terminates within the fuel *)
  Theorem terminates : vs_todo (validate W sem ftext tol outs) = [].
  Proof. apply validate_LI. Qed.

  (* no cell whose own and whose ancestors' stored results are consistent is reported *)
  Theorem clean_not_reported n : clean n ->
    rep_get (vs_report (validate W sem ftext tol outs)) n = None.
  Proof. destruct validate_LI as [(_ & _ & Ri) _]. apply (ri_clean _ _ Ri). Qed.

  (* every node the checked outputs depend on has been processed *)
  Theorem reachable_verified o n : In o outs -> n = o \/ anc n o ->
    mem n (vs_verified (validate W sem ftext tol outs)) = true.
  Proof.
    destruct validate_LI as [(_ & Ti & _) E]. rewrite E in Ti.
    set (v := vs_verified (validate W sem ftext tol outs)) in *.
    assert (Cl: forall a m, anc a m -> mem m v = true -> mem a v = true).
    { intros a m A. induction A as [a m H|a b m A IH H]; intros Hm.
      - destruct (ti_closed _ _ Ti m a Hm H) as [X|[]]. exact X.
      - apply IH. destruct (ti_closed _ _ Ti m b Hm H) as [X|[]]. exact X. }
    intros Ho Hn. assert (Vo: mem o v = true) by (destruct (ti_outs _ _ Ti o Ho) as [X|[]]; exact X).
    destruct Hn as [->|A]; auto. eapply Cl; eauto.
  Qed.

  (* a reachable formula cell with consistent ancestors whose stored result is not
     close to its from-scratch value is reported with (stored, from-scratch) *)
  Theorem bad_reported o n : In o outs -> n = o \/ anc n o -> n < N -> fcell n = true ->
    semiclean n -> close_enough tol (sp n) (stored n) = false ->
    rep_get (vs_report (validate W sem ftext tol outs)) n = Some (stored n, sp n).
  Proof.
    intros Ho Hn L FC C CE. pose proof (reachable_verified o n Ho Hn) as V.
    destruct validate_LI as [(_ & _ & Ri) _]. apply (ri_bad _ _ Ri); auto.
  Qed.

  (* the stack is empty at the end and everything reachable has been processed *)
  Theorem processed_all :
    vs_todo (validate W sem ftext tol outs) = [] /\
    forall o n, In o outs -> n = o \/ anc n o ->
      mem n (vs_verified (validate W sem ftext tol outs)) = true.
  Proof. split; [apply terminates|apply reachable_verified]. Qed.

  Theorem reported_lt n : rep_get (vs_report (validate W sem ftext tol outs)) n <> None -> n < N.
  Proof.
    destruct validate_LI as [(_ & Ti & Ri) _]. intros H.
    destruct (rep_get (vs_report (validate W sem ftext tol outs)) n) as [x|] eqn:E; [|congruence].
    apply (ti_ver _ _ Ti). eapply (ri_ver _ _ Ri); eauto.
  Qed.
End Loop.

(* ============================================================ C12_sound *)
Section Sound.
  Variable W : workbook.
  Variable sem : nat -> list pyval -> pyval.
  Variable ftext : nat -> list Z.
  Variable tol : option Q.
  Hypothesis WF : wf W.
  Hypothesis NB : sem_nonblank W sem.
  Hypothesis SCN : stored_consistent W sem.

  Notation N := (wb_n W).
  Notation sp := (spec W sem (wb_inp0 W)).

  Lemma fcell_split n : is_fcell W n = true -> wb_input W n = false /\ wb_range W n = false.
  Proof.
    unfold is_fcell. intros H. apply andb_prop in H. destruct H as [A B].
    split; now apply negb_true_iff.
  Qed.

  Lemma consistent_full : stored_full W.
  Proof.
    intros n L FC. destruct (fcell_split n FC) as [I R]. rewrite (SCN n L I R).
    now apply (spec_nonblank W sem WF).
  Qed.

  Lemma consistent_clean n : clean W sem n.
  Proof. intros b _ L FC. destruct (fcell_split b FC) as [I R]. now apply SCN. Qed.

  Lemma consistent_text :
    (forall n vals, n < N -> is_fcell W n = true -> py_eq (sem n vals) (VStr (ftext n)) = false) ->
    forall n, n < N -> is_fcell W n = true -> py_eq (wb_stored W n) (VStr (ftext n)) = false.
  Proof.
    intros TXv n L FC. destruct (fcell_split n FC) as [I R].
    rewrite (SCN n L I R), (spec_unfold W sem WF _ n L), I. now apply TXv.
  Qed.

  Theorem sound : (forall n, n < N -> is_fcell W n = true -> close_enough tol (sp n) (sp n) = true) ->
    (forall n vals, n < N -> is_fcell W n = true -> py_eq (sem n vals) (VStr (ftext n)) = false) ->
    forall outs, (forall o, In o outs -> o < N) ->
      vs_report (validate W sem ftext tol outs) = [].
  Proof.
    intros RF TXv outs OUTS. apply rep_none_nil. intros n.
    apply clean_not_reported; auto using consistent_full, consistent_text, consistent_clean.
  Qed.

  Theorem no_silent_skip :  (forall n, n < N -> is_fcell W n = true -> close_enough tol (sp n) (sp n) = true) ->
    (forall n vals, n < N -> is_fcell W n = true -> py_eq (sem n vals) (VStr (ftext n)) = false) ->
    forall outs, (forall o, In o outs -> o < N) ->
      vs_todo (validate W sem ftext tol outs) = [] /\
      forall o n, In o outs -> n = o \/ anc W n o ->
        mem n (vs_verified (validate W sem ftext tol outs)) = true.
  Proof.
    intros RF TXv outs OUTS. split.
    - apply terminates; auto using consistent_full, consistent_text.
    - intros o n. apply reachable_verified; auto using consistent_full, consistent_text.
  Qed.
End Sound.

(* ========================================================= C12_complete *)

Section Complete.
  Variable W : workbook.
  Variable sem : nat -> list pyval -> pyval.
  Variable ftext : nat -> list Z.
  Variable tol : option Q.
  Variable p : nat.
  Variable v' : pyval.
  Hypothesis WF : wf W.
  Hypothesis NB : sem_nonblank W sem.
  Hypothesis SCN : stored_consistent W sem.

  Notation N := (wb_n W).
  Notation sp := (spec W sem (wb_inp0 W)).
  Notation W' := (perturb W p v').

  Lemma spec_fuel_perturb inp : forall f n, spec_fuel W' sem f inp n = spec_fuel W sem f inp n.
  Proof.
    (* the two fixpoints are convertible: spec does not read the stored results *)
    induction f as [|f IH]; intros n; reflexivity.
  Qed.
  Lemma spec_perturb n : spec W' sem (wb_inp0 W') n = sp n.
  Proof. unfold spec. apply spec_fuel_perturb. Qed.

  Lemma anc_perturb a n : anc W' a n <-> anc W a n.
  Proof.
    split; intros A; induction A as [a n H|a b n A IH H].
    - now constructor.
    - eapply anc_trans; eauto.
    - now constructor.
    - eapply anc_trans; eauto.
  Qed.

  Lemma wf_perturb : wf W'.
  Proof. exact WF. Qed.
  Lemma nb_perturb : sem_nonblank W' sem.
  Proof. exact NB. Qed.

  Hypothesis LP : p < N.
  Hypothesis FP : is_fcell W p = true.

  (* every cell that is neither p nor a descendant of p is clean in W' *)
  Lemma perturb_good b : b <> p -> good W' sem b.
  Proof.
    intros NE L FC. rewrite spec_perturb. cbn [perturb wb_stored].
    destruct (Nat.eqb_spec b p); [congruence|].
    destruct (fcell_split W b FC) as [I R]. now apply SCN.
  Qed.
  Lemma perturb_clean n : ~ (n = p \/ anc W p n) -> clean W' sem n.
  Proof.
    intros H b Hb. apply perturb_good. intros ->. apply H.
    destruct Hb as [E|A]; [left; auto|right; now apply anc_perturb].
  Qed.
  Lemma perturb_semiclean : semiclean W' sem p.
  Proof.
    intros b A. apply perturb_good. apply anc_perturb in A.
    pose proof (anc_lt W WF b p LP A). lia.
  Qed.

  Theorem complete : (forall n, n < N -> is_fcell W n = true -> close_enough tol (sp n) (sp n) = true) ->
    (forall n vals, n < N -> is_fcell W n = true -> py_eq (sem n vals) (VStr (ftext n)) = false) ->
    v' <> VNone -> py_eq v' (VStr (ftext p)) = false ->
    close_enough tol (sp p) v' = false ->
    forall outs, (forall o, In o outs -> o < N) ->
      (exists o, In o outs /\ (p = o \/ anc W p o)) ->
      let r := vs_report (validate W' sem ftext tol outs) in
      rep_get r p = Some (v', sp p) /\
      forall n, rep_get r n <> None -> n = p \/ anc W p n.
  Proof.
    intros RF TXv NN TXp CE outs OUTS [o [Ho Hp]]. cbn zeta.
    assert (SF': stored_full W').
    { intros n L FC. cbn [perturb wb_stored]. destruct (Nat.eqb_spec n p); auto.
      now apply (consistent_full W sem WF NB SCN). }
    assert (TXs': forall n, n < wb_n W' -> is_fcell W' n = true ->
                    py_eq (wb_stored W' n) (VStr (ftext n)) = false).
    { intros n L FC. cbn [perturb wb_stored]. destruct (Nat.eqb_spec n p) as [->|NE]; auto.
      now apply (consistent_text W sem ftext WF SCN TXv). }
    assert (RF': forall n, n < wb_n W' -> is_fcell W' n = true ->
                   close_enough tol (spec W' sem (wb_inp0 W') n) (spec W' sem (wb_inp0 W') n) = true).
    { intros n L FC. rewrite spec_perturb. now apply RF. }
    split.
    - pose proof (bad_reported W' sem ftext tol outs wf_perturb nb_perturb SF' TXs' TXv RF' OUTS
                    o p Ho) as B.
      rewrite spec_perturb in B. cbn [perturb wb_stored] in B. rewrite Nat.eqb_refl in B.
      apply B; auto.
      + destruct Hp as [E|A]; [left; auto|right; now apply anc_perturb].
      + apply perturb_semiclean.
    - intros n Hn.
      pose proof (reported_lt W' sem ftext tol outs wf_perturb nb_perturb SF' TXs' TXv RF' OUTS
                    n Hn) as Ln.
      destruct (Nat.eq_dec n p) as [->|NE]; [left; auto|].
      destruct (anc_dec W WF p n Ln) as [A|NA]; [right; auto|]. exfalso. apply Hn.
      apply (clean_not_reported W' sem ftext tol outs wf_perturb nb_perturb SF' TXs' TXv RF' OUTS).
      apply perturb_clean. intros [E|A]; auto.
  Qed.
End Complete.

(* validate_calcs(output_addrs=None): the list of all formula cells is an
   admissible list of outputs *)
Lemma all_formulas_lt W o : In o (all_formulas W) -> o < wb_n W.
Proof. unfold all_formulas. rewrite filter_In, in_seq. lia. Qed.
End T.

(* ---------------------------------------------------- when does RF hold? *)
(* text (error values are text): for EVERY tolerance, zero and negative too *)
Lemma refl_text tol s : close_enough tol (VStr s) (VStr s) = true.
Proof. unfold close_enough. cbn. apply str_eqb_refl. Qed.

Lemma refl_cases tol v :
  (tol_pos tol /\ is_scalar v = true) \/ (exists s, v = VStr s) -> close_enough tol v v = true.
Proof.
  intros [[TP S]|[s ->]]; [now apply close_enough_refl|apply refl_text].
Qed.

(* and for a number or a logical ONLY when the tolerance is absent or positive:
   RF is tol_pos on every workbook with a numeric formula result *)
Lemma refl_number_needs_pos tol v x :
  as_num v = Some x -> close_enough tol v v = true -> tol_pos tol.
Proof.
  intros A H. unfold close_enough in H. rewrite A in H.
  destruct tol as [t|]; [|exact I]. cbn [tol_pos].
  unfold q_ltb in H. destruct (Qcompare _ _) eqn:C; try discriminate.
  apply Qlt_alt in C.
  assert (E: (Qabs (num_q x - num_q x) == 0)%Q).
  { assert (E0: (num_q x - num_q x == 0)%Q) by ring. rewrite E0. reflexivity. }
  rewrite E in C.
  destruct (Qlt_le_dec 0 t) as [P|NP]; [exact P|exfalso].
  assert (L: ((1 + rel_default) * t <= (1 + rel_default) * 0)%Q).
  { apply Qmult_le_l; [reflexivity|exact NP]. }
  assert (Z0: ((1 + rel_default) * 0 == 0)%Q) by ring. rewrite Z0 in L.
  apply (Qlt_irrefl 0). eapply Qlt_le_trans; eauto.
Qed.

Lemma refl_tolerance tol v :
  ((tol_pos tol /\ is_scalar v = true) \/ (exists s, v = VStr s) -> close_enough tol v v = true) /\
  (forall x, as_num v = Some x -> close_enough tol v v = true -> tol_pos tol).
Proof. split; [apply refl_cases|intros x; apply refl_number_needs_pos]. Qed.

(* ------------------------------------------- order / repetition / choice of outputs
   The entry of a formula cell n all of whose strict ancestors carry consistent
   results, and which is DECIDED (its own stored result is its from-scratch value,
   or is not close_enough to it), is the same for ANY two lists of outputs from
   which n is reachable — any order, any repetitions, any other outputs beside.
   (For the cells below an altered cell this is false: Refuted/C12_order.v.) *)
Theorem decided_entries W sem ftext tol :
  wf W -> sem_nonblank W sem -> stored_full W ->
  (forall n, n < wb_n W -> is_fcell W n = true -> py_eq (wb_stored W n) (VStr (ftext n)) = false) ->
  (forall n vals, n < wb_n W -> is_fcell W n = true -> py_eq (sem n vals) (VStr (ftext n)) = false) ->
  (forall n, n < wb_n W -> is_fcell W n = true ->
     close_enough tol (spec W sem (wb_inp0 W) n) (spec W sem (wb_inp0 W) n) = true) ->
  forall outs1 outs2,
  (forall o, In o outs1 -> o < wb_n W) -> (forall o, In o outs2 -> o < wb_n W) ->
  forall n, n < wb_n W -> is_fcell W n = true -> semiclean W sem n ->
    (good W sem n \/ close_enough tol (spec W sem (wb_inp0 W) n) (wb_stored W n) = false) ->
    (exists o, In o outs1 /\ (n = o \/ anc W n o)) ->
    (exists o, In o outs2 /\ (n = o \/ anc W n o)) ->
    rep_get (vs_report (validate W sem ftext tol outs1)) n
    = rep_get (vs_report (validate W sem ftext tol outs2)) n.
Proof.
  intros WF NB SF TXs TXv RF outs1 outs2 O1 O2 n L FC SC [G|CE] [o1 [H1 R1]] [o2 [H2 R2]].
  - assert (C: clean W sem n).
    { intros b [->|A]; [exact G|now apply SC]. }
    rewrite (T.clean_not_reported W sem ftext tol outs1 WF NB SF TXs TXv RF O1 n C).
    rewrite (T.clean_not_reported W sem ftext tol outs2 WF NB SF TXs TXv RF O2 n C).
    reflexivity.
  - rewrite (T.bad_reported W sem ftext tol outs1 WF NB SF TXs TXv RF O1 o1 n H1 R1 L FC SC CE).
    rewrite (T.bad_reported W sem ftext tol outs2 WF NB SF TXs TXv RF O2 o2 n H2 R2 L FC SC CE).
    reflexivity.
Qed.
