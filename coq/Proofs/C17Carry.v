(* Proofs/C17Carry.v — DATE carries days over month and year ends.
   Part 1: pure calendar facts on Lib/PyDate.v (successor month / year,
   monotonicity, ord2ymd inverts ymd2ord on the Excel range).
   Part 2: the generated normalize_year, one recursion step at a time
   (normalize_step), its month normalisation (normalize_month), and the
   forward carry by induction on the fuel.
   Part 3: DATE(y, m, d) = DATE(y, m, 1) + d - 1 for d >= 1. *)
From Coq Require Import ZArith QArith Qround List Bool Lia.
From PV Require Import Lib.Py Lib.PyDate Proofs.PyTac Proofs.NumLemmas Proofs.C17Cal Proofs.C17Base Proofs.C17.
From PV Require Proofs.C17Sweep.All.
From PV Require Gen.excelutil Gen.date_time.
Import ListNotations.
Open Scope Z_scope.

(* ------------------------------------------------------------------ *)
(* Part 1 — calendar facts                                             *)

Lemma month_cases m : 1 <= m <= 12 ->
  m = 1 \/ m = 2 \/ m = 3 \/ m = 4 \/ m = 5 \/ m = 6 \/ m = 7 \/ m = 8 \/ m = 9 \/ m = 10 \/ m = 11 \/ m = 12.
Proof. lia. Qed.

Ltac month_split H :=
  apply month_cases in H;
  repeat match type of H with _ \/ _ => destruct H as [H|H] end; subst.

(* the month tables as closed functions of (leap?, month): every table fact is a
   computation over 2 x 12 cases *)
Definition dim' (l : bool) (m : Z) : Z := if (m =? 2) && l then 29 else days_in_month_tbl m.
Definition dbm' (l : bool) (m : Z) : Z := days_before_month_tbl m + (if (2 <? m) && l then 1 else 0).
Lemma dim_eq y m : days_in_month y m = dim' (is_leap y) m. Proof. reflexivity. Qed.
Lemma dbm_eq y m : days_before_month y m = dbm' (is_leap y) m. Proof. reflexivity. Qed.

Lemma dim_bounds y m : 1 <= m <= 12 -> 28 <= days_in_month y m <= 31.
Proof.
  intros H. rewrite dim_eq. month_split H; destruct (is_leap y); vm_compute; split; discriminate.
Qed.

Lemma dbm_succ y m : 1 <= m <= 11 ->
  days_before_month y (m + 1) = days_before_month y m + days_in_month y m.
Proof.
  intros H. assert (H' : 1 <= m <= 12) by lia. rewrite !dbm_eq, dim_eq.
  month_split H'; try lia; destruct (is_leap y); reflexivity.
Qed.

Lemma dbm_dec y : days_before_month y 12 + 31 = 365 + (if is_leap y then 1 else 0).
Proof. rewrite dbm_eq. destruct (is_leap y); reflexivity. Qed.

Lemma dbm_1 y : days_before_month y 1 = 0.
Proof. rewrite dbm_eq. destruct (is_leap y); reflexivity. Qed.

Lemma dim_12 y : days_in_month y 12 = 31.
Proof. rewrite dim_eq. destruct (is_leap y); reflexivity. Qed.

Lemma dby_succ y :
  days_before_year (y + 1) = days_before_year y + 365 + (if is_leap y then 1 else 0).
Proof.
  unfold days_before_year, is_leap. replace (y + 1 - 1) with y by lia.
  destruct (y mod 4 =? 0) eqn:E4; destruct (y mod 100 =? 0) eqn:E100;
    destruct (y mod 400 =? 0) eqn:E400; cbn [andb orb negb];
    rewrite ?Z.eqb_eq, ?Z.eqb_neq in *; Z.div_mod_to_equations; lia.
Qed.

Lemma dby_mono_step y : days_before_year y + 365 <= days_before_year (y + 1).
Proof. rewrite dby_succ. destruct (is_leap y); lia. Qed.

Lemma dby_mono a b : a <= b -> days_before_year a + 365 * (b - a) <= days_before_year b.
Proof.
  intros H. replace b with (a + Z.of_nat (Z.to_nat (b - a))) by (rewrite Z2Nat.id; lia).
  generalize (Z.to_nat (b - a)). intros n. induction n as [|n IH].
  - replace (a + Z.of_nat 0) with a by lia. lia.
  - rewrite Nat2Z.inj_succ. replace (a + Z.succ (Z.of_nat n)) with (a + Z.of_nat n + 1) by lia.
    pose proof (dby_mono_step (a + Z.of_nat n)). lia.
Qed.

(* a valid day-of-year never exceeds the length of the year *)
Lemma doy_bound y m d : 1 <= m <= 12 -> d <= days_in_month y m ->
  days_before_month y m + d <= 365 + (if is_leap y then 1 else 0).
Proof.
  intros H Hd.
  assert (E : days_before_month y m + days_in_month y m <= 365 + (if is_leap y then 1 else 0)).
  { rewrite dbm_eq, dim_eq. month_split H; destruct (is_leap y); vm_compute; discriminate. }
  lia.
Qed.

Lemma dbm_nonneg y m : 0 <= days_before_month y m.
Proof.
  unfold days_before_month.
  assert (0 <= days_before_month_tbl m).
  { unfold days_before_month_tbl. destruct m as [|p|p]; try lia.
    do 4 (destruct p as [p|p|]; try lia). }
  destruct ((2 <? m) && is_leap y); lia.
Qed.

Lemma ymd2ord_day y m d : ymd2ord y m d = ymd2ord y m 1 + d - 1.
Proof. unfold ymd2ord. lia. Qed.

Lemma ymd2ord_carry_month y m d : 1 <= m <= 11 ->
  ymd2ord y (m + 1) (d - days_in_month y m) = ymd2ord y m d.
Proof. intros H. unfold ymd2ord. rewrite dbm_succ by exact H. lia. Qed.

Lemma ymd2ord_carry_year y d : ymd2ord (y + 1) 1 (d - days_in_month y 12) = ymd2ord y 12 d.
Proof.
  unfold ymd2ord. rewrite dby_succ, dbm_1. pose proof (dbm_dec y).
  rewrite dim_12. lia.
Qed.

(* strict monotonicity of ymd2ord on valid dates, hence injectivity *)
Lemma ymd2ord_year_lt y m d y' m' d' :
  1 <= m <= 12 -> d <= days_in_month y m -> 1 <= d' -> y < y' ->
  ymd2ord y m d < ymd2ord y' m' d'.
Proof.
  intros Hm Hd Hd' Hy. unfold ymd2ord.
  pose proof (doy_bound y m d Hm Hd). pose proof (dby_succ y).
  pose proof (dby_mono (y + 1) y' ltac:(lia)). pose proof (dbm_nonneg y' m'). lia.
Qed.

Lemma dbm_month_lt y m m' : 1 <= m -> m < m' -> m' <= 12 ->
  days_before_month y m + days_in_month y m <= days_before_month y m'.
Proof.
  intros H1 H2 H3.
  replace m' with (m + 1 + Z.of_nat (Z.to_nat (m' - m - 1))) in * by (rewrite Z2Nat.id; lia).
  generalize dependent (Z.to_nat (m' - m - 1)). intros n. induction n as [|n IH]; intros H2 H3.
  - replace (m + 1 + Z.of_nat 0) with (m + 1) by lia. rewrite dbm_succ by lia. lia.
  - rewrite Nat2Z.inj_succ in *.
    replace (m + 1 + Z.succ (Z.of_nat n)) with (m + 1 + Z.of_nat n + 1) by lia.
    rewrite dbm_succ by lia. pose proof (dim_bounds y (m + 1 + Z.of_nat n) ltac:(lia)).
    specialize (IH ltac:(lia) ltac:(lia)). lia.
Qed.

Lemma ymd2ord_inj y m d y' m' d' :
  1 <= m <= 12 -> 1 <= d <= days_in_month y m ->
  1 <= m' <= 12 -> 1 <= d' <= days_in_month y' m' ->
  ymd2ord y m d = ymd2ord y' m' d' -> y = y' /\ m = m' /\ d = d'.
Proof.
  intros Hm Hd Hm' Hd' E.
  destruct (Z_lt_dec y y') as [L|L].
  { pose proof (ymd2ord_year_lt y m d y' m' d' Hm ltac:(lia) ltac:(lia) L). lia. }
  destruct (Z_lt_dec y' y) as [L'|L'].
  { pose proof (ymd2ord_year_lt y' m' d' y m d Hm' ltac:(lia) ltac:(lia) L'). lia. }
  assert (y = y') by lia. subst y'. split; [reflexivity|].
  unfold ymd2ord in E.
  destruct (Z_lt_dec m m') as [M|M].
  { pose proof (dbm_month_lt y m m' ltac:(lia) M ltac:(lia)). lia. }
  destruct (Z_lt_dec m' m) as [M'|M'].
  { pose proof (dbm_month_lt y m' m ltac:(lia) M' ltac:(lia)). lia. }
  assert (m = m') by lia. subst m'. lia.
Qed.

(* what the exhaustive sweep says about one ordinal of the Excel range *)
Lemma greg_spec N : 693594 + 61 <= N <= 693594 + 2958465 ->
  exists y m d, ord2ymd N = (y, m, d) /\ 1900 <= y <= 9999 /\ 1 <= m <= 12
                /\ 1 <= d <= days_in_month y m /\ ymd2ord y m d = N.
Proof.
  intros Hr. pose proof (All.greg_all (N - 693594) ltac:(lia)) as G. unfold greg_ok in G.
  replace (693594 + (N - 693594)) with N in G by lia.
  destruct (ord2ymd N) as [[y' m'] d'].
  repeat (apply andb_true_iff in G; destruct G as [G ?]).
  repeat match goal with
  | H : (_ <=? _) = true |- _ => apply Z.leb_le in H
  | H : (_ =? _) = true |- _ => apply Z.eqb_eq in H
  end.
  exists y', m', d'. repeat split; lia.
Qed.

(* on the Excel range ord2ymd inverts ymd2ord (from the exhaustive sweep + injectivity) *)
Lemma ord2ymd_inv y m d : 1 <= m <= 12 -> 1 <= d <= days_in_month y m ->
  61 <= ymd2ord y m d - 693594 <= 2958465 ->
  ord2ymd (ymd2ord y m d) = (y, m, d).
Proof.
  intros Hm Hd Hr. remember (ymd2ord y m d) as N eqn:EN.
  destruct (greg_spec N ltac:(lia)) as (y' & m' & d' & E & Hy' & Hm' & Hd' & Ho).
  rewrite E. rewrite EN in Ho.
  destruct (ymd2ord_inj y' m' d' y m d Hm' Hd' Hm Hd Ho) as (-> & -> & ->). reflexivity.
Qed.

(* the last ordinal: a valid date of a year <= 9999 is at most 9999-12-31, and conversely *)
Lemma dby_10000 : days_before_year 10000 = MAXORD.
Proof. reflexivity. Qed.

Lemma ymd2ord_le_max y m d : y <= 9999 -> 1 <= m <= 12 -> d <= days_in_month y m ->
  ymd2ord y m d <= MAXORD.
Proof.
  intros Hy Hm Hd. unfold ymd2ord. pose proof (doy_bound y m d Hm Hd). pose proof (dby_succ y).
  pose proof (dby_mono (y + 1) 10000 ltac:(lia)). rewrite dby_10000 in *. lia.
Qed.

Lemma ymd2ord_gt_max y m d : 10000 <= y -> 1 <= d -> MAXORD < ymd2ord y m d.
Proof.
  intros Hy Hd. unfold ymd2ord. pose proof (dby_mono 10000 y Hy). pose proof (dbm_nonneg y m).
  rewrite dby_10000 in *. lia.
Qed.

Lemma ymd2ord_1900_3_1 : ymd2ord 1900 3 1 = 693594 + 61.
Proof. reflexivity. Qed.

(* dates from 1900-03-01 on have serial numbers above 60 *)
Lemma ymd2ord_late y m d : 1900 <= y -> 1 <= m <= 12 -> (y = 1900 -> 3 <= m) -> 1 <= d ->
  693594 + 61 <= ymd2ord y m d.
Proof.
  intros Hy Hm H3 Hd. rewrite <- ymd2ord_1900_3_1.
  destruct (Z.eq_dec y 1900) as [->|Hne].
  - specialize (H3 eq_refl). unfold ymd2ord.
    destruct (Z.eq_dec m 3) as [->|Hm3]; [lia|].
    pose proof (dbm_month_lt 1900 3 m ltac:(lia) ltac:(lia) ltac:(lia)).
    pose proof (dim_bounds 1900 3 ltac:(lia)). lia.
  - pose proof (ymd2ord_year_lt 1900 3 1 y m d ltac:(lia)
                  ltac:(pose proof (dim_bounds 1900 3 ltac:(lia)); lia) Hd ltac:(lia)). lia.
Qed.

(* ------------------------------------------------------------------ *)
(* Part 2 — the generated normalize_year                               *)

Lemma excel_leap_is_leap y : y <> 1900 -> excel_leap y = is_leap y.
Proof.
  intros Hy. unfold excel_leap, is_leap.
  replace (y =? 1900) with false by (symmetry; apply Z.eqb_neq; exact Hy).
  destruct (y mod 4 =? 0) eqn:E4; destruct (y mod 100 =? 0) eqn:E100;
    destruct (y mod 400 =? 0) eqn:E400; cbn [andb orb negb]; try reflexivity;
    rewrite ?Z.eqb_eq, ?Z.eqb_neq in *; exfalso; Z.div_mod_to_equations; lia.
Qed.

(* max_days_in_month: Excel's month length (1900 counted as a leap year) *)
Definition xdim (y m : Z) : Z := if (m =? 2) && excel_leap y then 29 else days_in_month y m.

Lemma xdim_dim y m : (y = 1900 -> m <> 2) -> xdim y m = days_in_month y m.
Proof.
  intros H. unfold xdim. destruct (m =? 2) eqn:E2; [|reflexivity].
  apply Z.eqb_eq in E2. subst m. cbn [andb].
  rewrite excel_leap_is_leap by (intros ->; apply H; reflexivity).
  rewrite dim_eq. destruct (is_leap y); reflexivity.
Qed.

Lemma xdim_bounds y m : 1 <= m <= 12 -> 28 <= xdim y m <= 31.
Proof.
  intros H. unfold xdim. pose proof (dim_bounds y m H). destruct ((m =? 2) && excel_leap y); lia.
Qed.

Lemma max_days_val y m : 1 <= m <= 12 -> (m = 2 -> 0 < y) ->
  date_time.f_max_days_in_month (VInt m) (VInt y) = Ok (VInt (xdim y m)).
Proof.
  intros Hm Hy. unfold date_time.f_max_days_in_month, xdim. py_run.
  destruct (m =? 2) eqn:E2; py_run.
  - apply Z.eqb_eq in E2. rewrite (is_leap_year_spec y (Hy E2)). py_run.
    destruct (excel_leap y); py_run; [reflexivity|]. subst m. dt_cbn. py_run. reflexivity.
  - dt_cbn.
    replace (1 <=? m) with true by (symmetry; apply Z.leb_le; lia).
    replace (m <=? 12) with true by (symmetry; apply Z.leb_le; lia). py_run. reflexivity.
Qed.

(* Feb of a year <= 0: is_leap_year raises TypeError (unreachable from normalize_year /
   months_inc since repair 7da3fd9: they return before asking for the month length) *)
Lemma max_days_raise y : y <= 0 ->
  date_time.f_max_days_in_month (VInt 2) (VInt y) = Raise TypeError.
Proof.
  intros Hy. unfold date_time.f_max_days_in_month. py_run. dt_unfold. dt_run.
  replace (y <=? 0) with true by (symmetry; apply Z.leb_le; lia). reflexivity.
Qed.

(* "y, m, d = normalize_year(...)": unpack the recursive call's triple *)
Definition retup (r : res pyval) : res pyval :=
  p_ <- lift1 (fun x_ : pyval => l_ <- py_iter x_;; Ok (VList l_)) r;;
  match p_ with VList [a; b; c] => Ok (VTuple [a; b; c]) | _ => Raise ValueError end.

Lemma retup_ok a b c : retup (Ok (VTuple [a; b; c])) = Ok (VTuple [a; b; c]).
Proof. reflexivity. Qed.
Lemma retup_raise e : retup (Raise e) = Raise e.
Proof. reflexivity. Qed.

(* one call of normalize_year on a month that is already in 1..12, year >= 1 *)
Lemma normalize_step f y m d k : 1 <= m <= 12 -> 1 <= y ->
  date_time.f_max_days_in_month (VInt m) (VInt y) = Ok (VInt k) ->
  date_time.f_normalize_year (S f) (VInt y) (VInt m) (VInt d) =
    if d <=? 0 then retup (date_time.f_normalize_year f (VInt y) (VInt (m - 1)) (VInt (d + k)))
    else if k <? d then retup (date_time.f_normalize_year f (VInt y) (VInt (m + 1)) (VInt (d - k)))
    else Ok (VTuple [VInt y; VInt m; VInt d]).
Proof.
  intros Hm Hy Hk. cbn [date_time.f_normalize_year]. py_run.
  replace (1 <=? m) with true by (symmetry; apply Z.leb_le; lia). py_run.
  replace (m <=? 12) with true by (symmetry; apply Z.leb_le; lia). py_run.
  replace (y <? 1) with false by (symmetry; apply Z.ltb_ge; lia). py_run.
  rewrite Hk. py_run. reflexivity.
Qed.

(* before year 1 there is no such date: the triple is returned as it is (repair
   7da3fd9; DATE then answers #NUM!) *)
Lemma normalize_before_year1 f y m d : 1 <= m <= 12 -> y < 1 ->
  date_time.f_normalize_year (S f) (VInt y) (VInt m) (VInt d) = Ok (VTuple [VInt y; VInt m; VInt d]).
Proof.
  intros Hm Hy. cbn [date_time.f_normalize_year]. py_run.
  replace (1 <=? m) with true by (symmetry; apply Z.leb_le; lia). py_run.
  replace (m <=? 12) with true by (symmetry; apply Z.leb_le; lia). py_run.
  replace (y <? 1) with true by (symmetry; apply Z.ltb_lt; lia). reflexivity.
Qed.

Lemma truediv12 a : py_truediv (VInt a) (VInt 12) = Ok (VFloat (Qred (inject_Z a / inject_Z 12))).
Proof. reflexivity. Qed.

(* the month normalisation at the head of normalize_year, for ANY integer month:
   12 months are carried into the year (floor division) *)
Definition nyear (y m : Z) : Z := y + (m - 1) / 12.
Definition nmonth (m : Z) : Z := (m - 1) mod 12 + 1.

Lemma nmonth_range m : 1 <= nmonth m <= 12.
Proof. unfold nmonth. pose proof (Z.mod_pos_bound (m - 1) 12 ltac:(lia)). lia. Qed.
Lemma nmonth_valid m : 1 <= m <= 12 -> nmonth m = m.
Proof. intros H. unfold nmonth. rewrite Z.mod_small by lia. lia. Qed.
Lemma nyear_valid y m : 1 <= m <= 12 -> nyear y m = y.
Proof. intros H. unfold nyear. rewrite Z.div_small by lia. lia. Qed.

Lemma normalize_month f y m d :
  date_time.f_normalize_year (S f) (VInt y) (VInt m) (VInt d)
  = date_time.f_normalize_year (S f) (VInt (nyear y m)) (VInt (nmonth m)) (VInt d).
Proof.
  destruct ((1 <=? m) && (m <=? 12)) eqn:V.
  - apply andb_true_iff in V. destruct V as [V1 V2]. apply Z.leb_le in V1, V2.
    rewrite nmonth_valid, nyear_valid by lia. reflexivity.
  - pose proof (nmonth_range m) as R.
    assert (En : nmonth m = m - (m - 1) / 12 * 12).
    { unfold nmonth. rewrite Z.mod_eq by lia. lia. }
    unfold nyear. rewrite En in *.
    cbn [date_time.f_normalize_year]. py_run.
    replace (1 <=? m - (m - 1) / 12 * 12) with true by (symmetry; apply Z.leb_le; lia). py_run.
    replace (m - (m - 1) / 12 * 12 <=? 12) with true by (symmetry; apply Z.leb_le; lia). py_run.
    replace (if 1 <=? m then Ok (m <=? 12) else Ok false) with (@Ok bool false)
      by (destruct (1 <=? m); [cbn [andb] in V; rewrite V|]; reflexivity).
    py_run. rewrite truediv12. py_run. cbn [py_floor as_num]. rewrite Qfloor_Qred, floor_div12.
    py_run. reflexivity.
Qed.

(* forward carry: a day beyond the end of the month moves into the following
   months, one recursive call per month; [S f] calls are enough for 28 f + 28 days *)
Lemma normalize_carry f : forall y m d, 1900 <= y -> 1 <= m <= 12 -> (y = 1900 -> 3 <= m) ->
  1 <= d <= 28 * Z.of_nat f + 28 ->
  exists y' m' d',
    date_time.f_normalize_year (S f) (VInt y) (VInt m) (VInt d) = Ok (VTuple [VInt y'; VInt m'; VInt d'])
    /\ 1900 <= y' /\ 1 <= m' <= 12 /\ (y' = 1900 -> 3 <= m') /\ 1 <= d' <= days_in_month y' m'
    /\ ymd2ord y' m' d' = ymd2ord y m d.
Proof.
  induction f as [|f IH]; intros y m d Hy Hm H3 Hd;
    pose proof (dim_bounds y m Hm) as Hb;
    rewrite (normalize_step _ y m d (days_in_month y m)) by
      (try lia; rewrite max_days_val by lia; rewrite xdim_dim by lia; reflexivity);
    replace (d <=? 0) with false by (symmetry; apply Z.leb_gt; lia);
    destruct (days_in_month y m <? d) eqn:E;
    try (apply Z.ltb_ge in E; exists y, m, d; repeat split; try lia; fail).
  - apply Z.ltb_lt in E. lia.
  - apply Z.ltb_lt in E. destruct (Z.eq_dec m 12) as [->|Hne].
    + rewrite normalize_month.
      change (nyear y (12 + 1)) with (y + 1). change (nmonth (12 + 1)) with 1.
      destruct (IH (y + 1) 1 (d - days_in_month y 12) ltac:(lia) ltac:(lia) ltac:(lia) ltac:(lia))
        as (y' & m' & d' & R & A1 & A2 & A3 & A4 & A5).
      rewrite R, retup_ok. exists y', m', d'. repeat split; try lia.
      rewrite A5. apply ymd2ord_carry_year.
    + destruct (IH y (m + 1) (d - days_in_month y m) ltac:(lia) ltac:(lia) ltac:(lia) ltac:(lia))
        as (y' & m' & d' & R & A1 & A2 & A3 & A4 & A5).
      rewrite R, retup_ok. exists y', m', d'. repeat split; try lia.
      rewrite A5. apply ymd2ord_carry_month. lia.
Qed.

(* ------------------------------------------------------------------ *)
(* Part 3 — DATE                                                       *)

(* years below 1900 are read as 1900 + year *)
Definition yadj (y : Z) : Z := if y <? 1900 then y + 1900 else y.

(* what DATE does with the normalised triple *)
Definition date_tail (y m d : Z) : pyval :=
  if (1 <=? y) && (y <=? 9999) && (1 <=? m) && (m <=? 12) && (1 <=? d) && (d <=? days_in_month y m)
  then
    let r := ymd2ord y m d - 693594 in
    if r <=? 60 then (if r - 1 <? 0 then excelutil.c_NUM_ERROR else VInt (r - 1))
    else (if r <? 0 then excelutil.c_NUM_ERROR else VInt r)
  else if (y =? 1900) && ((m =? 2) && ((d =? 29) && true)) then VFloat 60 else excelutil.c_NUM_ERROR.

Lemma date_year_range y m d : ~ (0 <= y <= 9999) ->
  date_time.f_date (VInt y) (VInt m) (VInt d) = Ok excelutil.c_NUM_ERROR.
Proof.
  intros Hy. unfold date_time.f_date. py_run.
  destruct (0 <=? y) eqn:E0; py_run; [|reflexivity].
  apply Z.leb_le in E0.
  replace (y <=? 9999) with false by (symmetry; apply Z.leb_gt; lia). reflexivity.
Qed.

Lemma date_norm y m d y' m' d' : 0 <= y <= 9999 ->
  date_time.f_normalize_year py_recursion_fuel (VInt (yadj y)) (VInt m) (VInt d)
    = Ok (VTuple [VInt y'; VInt m'; VInt d']) ->
  date_time.f_date (VInt y) (VInt m) (VInt d) = Ok (date_tail y' m' d').
Proof.
  intros Hy Hn. unfold date_time.f_date. py_run.
  replace (0 <=? y) with true by (symmetry; apply Z.leb_le; lia). py_run.
  replace (y <=? 9999) with true by (symmetry; apply Z.leb_le; lia). py_run.
  unfold yadj in Hn. unfold date_tail.
  destruct (y <? 1900); py_run; rewrite Hn; py_run; dt_cbn;
    (destruct ((1 <=? y') && (y' <=? 9999) && (1 <=? m') && (m' <=? 12) && (1 <=? d')
               && (d' <=? days_in_month y' m'));
     [ unfold date_time.c_DATE_ZERO; py_run; dt_cbn; py_run;
       destruct (ymd2ord y' m' d' - 693594 <=? 60); py_run;
       [ destruct (ymd2ord y' m' d' - 693594 - 1 <? 0) | destruct (ymd2ord y' m' d' - 693594 <? 0) ];
       reflexivity
     | unfold date_time.c_LEAP_1900_TUPLE; py_run;
       destruct ((y' =? 1900) && ((m' =? 2) && ((d' =? 29) && true))); py_run; reflexivity ]).
Qed.

Lemma date_norm_raise y m d e : 0 <= y <= 9999 ->
  date_time.f_normalize_year py_recursion_fuel (VInt (yadj y)) (VInt m) (VInt d) = Raise e ->
  date_time.f_date (VInt y) (VInt m) (VInt d) = Raise e.
Proof.
  intros Hy Hn. unfold date_time.f_date. py_run.
  replace (0 <=? y) with true by (symmetry; apply Z.leb_le; lia). py_run.
  replace (y <=? 9999) with true by (symmetry; apply Z.leb_le; lia). py_run.
  unfold yadj in Hn. destruct (y <? 1900); py_run; rewrite Hn; reflexivity.
Qed.

(* a valid date after the phantom leap day: DATE is the ordinal minus DATE_ZERO *)
Lemma date_tail_late y m d : 1900 <= y <= 9999 -> 1 <= m <= 12 -> 1 <= d <= days_in_month y m ->
  60 < ymd2ord y m d - 693594 -> date_tail y m d = VInt (ymd2ord y m d - 693594).
Proof.
  intros Hy Hm Hd Hr. unfold date_tail.
  replace (1 <=? y) with true by (symmetry; apply Z.leb_le; lia).
  replace (y <=? 9999) with true by (symmetry; apply Z.leb_le; lia).
  replace (1 <=? m) with true by (symmetry; apply Z.leb_le; lia).
  replace (m <=? 12) with true by (symmetry; apply Z.leb_le; lia).
  replace (1 <=? d) with true by (symmetry; apply Z.leb_le; lia).
  replace (d <=? days_in_month y m) with true by (symmetry; apply Z.leb_le; lia).
  cbn [andb]. cbv zeta.
  replace (ymd2ord y m d - 693594 <=? 60) with false by (symmetry; apply Z.leb_gt; lia).
  replace (ymd2ord y m d - 693594 <? 0) with false by (symmetry; apply Z.ltb_ge; lia).
  reflexivity.
Qed.

(* DAY CARRY.  For ANY integer month m whose normalised month (nyear y m,
   nmonth m) is 1900-03 or later and a day d >= 1 (within the recursion budget:
   one recursive call per month carried, Python's limit is modelled as 900 calls),
   DATE(y, m, d) = DATE(y, m, 1) + d - 1 as long as the result is a serial
   number of the calendar. *)
Lemma day_carry y m d : 1900 <= y <= 9999 ->
  1900 <= nyear y m -> (nyear y m = 1900 -> 3 <= nmonth m) ->
  1 <= d <= 25000 -> ymd2ord (nyear y m) (nmonth m) 1 - 693594 + d - 1 <= 2958465 ->
  exists n1, 60 < n1
    /\ date_time.f_date (VInt y) (VInt m) (VInt 1) = Ok (VInt n1)
    /\ date_time.f_date (VInt y) (VInt m) (VInt d) = Ok (VInt (n1 + d - 1)).
Proof.
  intros Hy Hy2 H3 Hd Hr. pose proof (nmonth_range m) as Hm.
  set (y2 := nyear y m) in *. set (m2 := nmonth m) in *.
  exists (ymd2ord y2 m2 1 - 693594).
  pose proof (ymd2ord_late y2 m2 1 ltac:(lia) Hm H3 ltac:(lia)) as Hl.
  assert (Ya : yadj y = y) by (unfold yadj; replace (y <? 1900) with false by (symmetry; apply Z.ltb_ge; lia); reflexivity).
  assert (D : forall d0, 1 <= d0 <= 25000 -> ymd2ord y2 m2 1 - 693594 + d0 - 1 <= 2958465 ->
              date_time.f_date (VInt y) (VInt m) (VInt d0) = Ok (VInt (ymd2ord y2 m2 1 - 693594 + d0 - 1))).
  { intros d0 Hd0 Hr0.
    destruct (normalize_carry 899 y2 m2 d0 ltac:(lia) Hm H3 ltac:(lia))
      as (y' & m' & d' & R & A1 & A2 & A3 & A4 & A5).
    rewrite (date_norm y m d0 y' m' d') by
      (try lia; rewrite Ya; unfold py_recursion_fuel; rewrite normalize_month; exact R).
    rewrite (ymd2ord_day y2 m2 d0) in A5.
    assert (y' <= 9999).
    { destruct (Z_le_dec y' 9999) as [L|G]; [exact L|].
      pose proof (ymd2ord_gt_max y' m' d' ltac:(lia) ltac:(lia)). unfold MAXORD in *. lia. }
    rewrite date_tail_late by lia. do 2 f_equal. lia. }
  split; [lia|]. split.
  - rewrite (D 1) by lia. do 2 f_equal. lia.
  - apply D; assumption.
Qed.

(* the same for a month that is already in 1..12 *)
Lemma day_carry_valid y m d : 1900 <= y <= 9999 -> 1 <= m <= 12 -> (y = 1900 -> 3 <= m) ->
  1 <= d <= 25000 -> ymd2ord y m 1 - 693594 + d - 1 <= 2958465 ->
  exists n1, 60 < n1
    /\ date_time.f_date (VInt y) (VInt m) (VInt 1) = Ok (VInt n1)
    /\ date_time.f_date (VInt y) (VInt m) (VInt d) = Ok (VInt (n1 + d - 1)).
Proof.
  intros Hy Hm H3 Hd Hr. apply day_carry; rewrite ?nyear_valid, ?nmonth_valid by lia; try lia.
Qed.

(* non-vacuity: 2023-11-01 + 499 days (crosses two year ends), and month 27 of 2021 = 2023-03 *)
Example day_carry_ex :
  date_time.f_date (VInt 2023) (VInt 11) (VInt 500) = Ok (VInt (45231 + 500 - 1))
  /\ date_time.f_date (VInt 2023) (VInt 11) (VInt 1) = Ok (VInt 45231)
  /\ date_time.f_date (VInt 2021) (VInt 27) (VInt 100) = Ok (VInt (44986 + 100 - 1))
  /\ (nyear 2021 27, nmonth 27) = (2023, 3).
Proof. repeat split; vm_compute; reflexivity. Qed.
