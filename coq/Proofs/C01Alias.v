(* Proofs/C01Alias.v — C01, part 7: the reference cell of an unbounded range.

   excelcompiler.py _make_cells: for S!B:B the compiler builds a reference cell
   S!B:B (formula =_REF_("S!B1:B4")) next to the bounded range node S!B1:B4;
   edges member -> range -> reference -> dependant (repair 347fec5); the
   reference is evaluated with the ranges when the graph is built (repair
   f35c77a); _evaluate_range: its value is the bounded range's value.

   In Model/Graph.v this is a node r of range kind whose only precedent is the
   bounded range node p and whose meaning is "the value of my precedent"
   ([alias_node]).  Such a node does NOT meet [sem_nonblank] ([alias_not_strong])
   — the theorems of Proofs/C01.v cannot be instantiated on a workbook with a
   whole-column reference — but it meets the weak condition of
   Proofs/C01Weak.v ([nonblank_except_alias]), under which they all hold. *)
From Coq Require Import List Arith Bool Lia.
From PV Require Import Lib.Py Model.Graph.
From PV Require Import Proofs.C01Base Proofs.C01Eval Proofs.C01Inv Proofs.C01 Proofs.C01Weak.
Import ListNotations.

Section Alias.
  Variable W : workbook.
  Variable sem : nat -> list pyval -> pyval.

  Notation N := (wb_n W).
  Notation deps := (wb_deps W).
  Notation isinput := (wb_input W).

  (* r is the reference node standing for the formula/range node p *)
  Definition alias_node (r p : nat) : Prop :=
    r < N /\ isinput r = false /\ deps r = [p] /\ isinput p = false /\ forall v, sem r [v] = v.

  Lemma alias_not_strong r p : alias_node r p -> ~ sem_nonblank W sem.
  Proof. intros (L & I & _ & _ & S) NB. apply (NB r [VNone] L I). apply S. Qed.

  (* every formula/range node is strongly non-blank or a reference node *)
  Definition nonblank_except_alias : Prop :=
    forall n, n < N -> isinput n = false ->
      (exists p, alias_node n p) \/ forall vals, sem n vals <> VNone.

  Lemma alias_weak : nonblank_except_alias -> sem_nonblank_weak W sem.
  Proof.
    intros H n vals L I OK. destruct (H n L I) as [[p (_ & _ & D & Ip & S)]|NB]; [|apply NB].
    unfold args_ok in OK. rewrite D in OK.
    destruct vals as [|v [|v' vals]]; cbn [args_okb] in OK; try discriminate.
    - rewrite Ip in OK. cbn in OK. rewrite andb_true_r in OK. apply negb_true_iff in OK.
      rewrite S. now apply is_none_false.
    - rewrite andb_false_r in OK. discriminate.
  Qed.

  Hypothesis WF : wf W.

  (* the from-scratch value of S!B:B is the from-scratch value of S!B1:B4 *)
  Theorem alias_spec r p inp : alias_node r p -> spec W sem inp r = spec W sem inp p.
  Proof.
    intros (L & I & D & _ & S). rewrite (spec_unfold W sem WF inp r L), I, D. cbn [map]. apply S.
  Qed.

  (* in every state of the invariant: a built reference node that holds a value
     holds the cached value of the bounded range node, which is built, holds a
     value, and that value is the from-scratch value under the current inputs *)
  Theorem alias_cache s r p : Inv W sem s -> alias_node r p ->
    st_built s r = true -> st_cache s r <> VNone ->
    st_built s p = true /\ st_cache s p = st_cache s r /\
    st_cache s r = spec W sem (st_cache s) p.
  Proof.
    intros I A Br Hr. pose proof A as (L & Ir & D & Ip & S).
    assert (Hd: In p (deps r)) by (rewrite D; left; auto).
    assert (Bp: st_built s p = true) by (eapply (inv_deps W sem s I); eauto).
    assert (Hp: st_cache s p <> VNone).
    { intros E. apply Hr. apply (Inv_I2 W sem s I p r); auto. }
    pose proof (Inv_I1 W sem s I r Br Ir Hr) as Cr.
    pose proof (Inv_I1 W sem s I p Bp Ip Hp) as Cp.
    rewrite (alias_spec r p (st_cache s) A) in Cr.
    split; auto. split; congruence.
  Qed.

  (* an empty bounded range node means an empty reference node (what _reset
     leaves behind: member -> range -> reference; repair 347fec5) *)
  Theorem alias_reset s r p : Inv W sem s -> alias_node r p ->
    st_built s r = true -> st_cache s p = VNone -> st_cache s r = VNone.
  Proof.
    intros I (L & Ir & D & Ip & S) Br Hp.
    assert (Hd: In p (deps r)) by (rewrite D; left; auto).
    apply (Inv_I2 W sem s I p r); auto. eapply (inv_deps W sem s I); eauto.
  Qed.

  Hypothesis NBW : sem_nonblank_weak W sem.

  (* a reference node of range kind that enters the model with the build of n
     holds the bounded range's value right after the build — it is not left
     empty beside dependants that start from their stored results (repair
     f35c77a) *)
  Theorem alias_built_valued s n r p : stored_ok W sem -> Inv W sem s -> n < N ->
    alias_node r p -> wb_range W r = true ->
    st_built s r = false -> st_built (build W sem s n) r = true ->
    let s' := build W sem s n in
    st_cache s' r <> VNone /\ st_cache s' r = st_cache s' p /\
    st_cache s' r = spec W sem (st_cache s) p.
  Proof.
    intros SO I L A Rr Br Br'. cbv zeta.
    pose proof (build_range_valued W sem WF NBW s n r I L Rr Br Br') as V.
    assert (I': Inv W sem (build W sem s n)).
    { destruct (invariant_weak W sem WF NBW SO) as [_ IS]. apply (IS s (Build n)); auto. }
    destruct (alias_cache _ r p I' A Br' V) as (_ & E1 & E2).
    split; auto. split; [congruence|]. rewrite E2.
    destruct A as (Lr & _ & D & _ & _).
    assert (Lp: p < N). { apply (deps_ltN W WF r p Lr). rewrite D. left; auto. }
    apply spec_ext; auto. intros m Lm Im.
    (* build does not touch the inputs *)
    rewrite (build_transfer W sem (guard W sem) WF (guard_nonblank W sem NBW)
               (fun n vals _ _ H => guard_agree W sem n vals H)).
    apply (build_inputs W (guard W sem) WF (guard_nonblank W sem NBW)); auto.
    now apply Inv_guard.
  Qed.
End Alias.
